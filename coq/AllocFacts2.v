(* C09 proofs, part 2: the storage invariant, its preservation by every admissible operation, value semantics. *)
From Coq Require Import NArith ZArith List Bool Lia Arith.
Require Import Board Move GameOver Alloc AllocFacts.
Import ListNotations.

(* every object's WhiteGroups header is a valid slice of an array other than the nil array, and no two objects'
   WhiteGroups headers point into the same array *)
Definition wg_valid (st : store) : Prop :=
  (0 < length (s_arrs st))%nat /\
  (forall i o, nth_error (s_objs st) i = Some o -> valid (s_arrs st) (o_wg o) /\ (0 < r_arr (o_wg o))%nat) /\
  (forall i j oi oj, nth_error (s_objs st) i = Some oi -> nth_error (s_objs st) j = Some oj -> i <> j ->
     r_arr (o_wg oi) <> r_arr (o_wg oj)).

(* no WhiteGroups header points into array a: nothing is ever written into it again *)
Definition sealed (st : store) (a : nat) : Prop :=
  forall j oj, nth_error (s_objs st) j = Some oj -> r_arr (o_wg oj) <> a.

(* handle h holds the value v: its object carries v, and both group slices read the groups of v out of
   storage that only an analyze() of h itself can write *)
Definition shows (st : store) (h : nat) (v : position) : Prop :=
  exists o, nth_error (s_objs st) h = Some o /\ o_pos o = v /\ valid (s_arrs st) (o_bg o) /\
    read_ref (s_arrs st) (o_wg o) = fst (analyze_total v) /\
    read_ref (s_arrs st) (o_bg o) = snd (analyze_total v) /\
    (r_arr (o_bg o) = r_arr (o_wg o) \/ sealed st (r_arr (o_bg o))).

Definition inv (st : store) (ps : pstate) : Prop :=
  length (s_objs st) = length ps /\ wg_valid st /\ forall h v, pval ps h = Some v -> shows st h v.

Lemma nth_error_lt {A} (l : list A) i x : nth_error l i = Some x -> (i < length l)%nat.
Proof. intro H. apply nth_error_Some. congruence. Qed.

(* ---- alloc ---- *)
Lemma alloc_obj_facts st p bg : wg_valid st ->
  let st1 := fst (alloc_obj st p bg) in
  snd (alloc_obj st p bg) = length (s_objs st) /\
  s_objs st1 = s_objs st ++ [{| o_pos := p; o_own := length (s_arrs st);
                                o_wg := {| r_arr := length (s_arrs st); r_off := 0; r_len := 0 |}; o_bg := bg |}] /\
  wg_valid st1 /\ frame (s_arrs st) (s_arrs st1) (length (s_arrs st)) 0 /\
  (forall h v, shows st h v -> shows st1 h v).
Proof.
  intros (H0 & HW & HJ). unfold alloc_obj; cbn [fst snd s_objs s_arrs].
  split; [reflexivity|]. split; [reflexivity|].
  assert (F : forall a lim, frame (s_arrs st) (s_arrs st ++ [repeat 0%N (garr_len p)]) a lim) by (intros; apply frame_snoc).
  assert (Wnew : forall i o, nth_error (s_objs st ++ [{| o_pos := p; o_own := length (s_arrs st);
                    o_wg := {| r_arr := length (s_arrs st); r_off := 0; r_len := 0 |}; o_bg := bg |}]) i = Some o ->
                 (i < length (s_objs st))%nat /\ nth_error (s_objs st) i = Some o \/
                 i = length (s_objs st) /\ r_arr (o_wg o) = length (s_arrs st) /\ r_off (o_wg o) = 0%nat /\ r_len (o_wg o) = 0%nat).
  { intros i o Hi. destruct (Nat.lt_ge_cases i (length (s_objs st))) as [Hlt|Hge].
    - left. rewrite nth_error_app1 in Hi by assumption. auto.
    - right. rewrite nth_error_app2 in Hi by assumption.
      destruct (i - length (s_objs st))%nat eqn:E; cbn in Hi; [|destruct n; discriminate].
      injection Hi as <-. cbn. repeat split; lia. }
  unfold wg_valid, shows, sealed; cbn [s_objs s_arrs].
  split; [|split].
  - split; [rewrite app_length; cbn; lia|]. split.
    + intros i o Hi. destruct (Wnew i o Hi) as [[Hlt Ho]|(-> & Ea & Eo & El)].
      * destruct (HW i o Ho) as [V P]. split; [eapply frame_valid; [apply (F 0%nat 0%nat)|exact V]|exact P].
      * split; [|lia]. split; [rewrite app_length; cbn; lia|].
        rewrite Ea, Eo, El, get_arr_app2. cbn. lia.
    + intros i j oi oj Hi Hj Hne.
      destruct (Wnew i oi Hi) as [[Hlti Hoi]|(-> & Eai & _)], (Wnew j oj Hj) as [[Hltj Hoj]|(-> & Eaj & _)].
      * eapply HJ; eauto.
      * destruct (HW i oi Hoi) as [[V _] _]. lia.
      * destruct (HW j oj Hoj) as [[V _] _]. lia.
      * contradiction.
  - apply F.
  - intros h v (o & Ho & Ev & Vb & Rw & Rb & Hs).
    exists o. split; [rewrite nth_error_app1 by (eapply nth_error_lt; eassumption); exact Ho|].
    split; [exact Ev|].
    destruct (HW h o Ho) as [Vw _].
    split; [eapply frame_valid; [apply (F 0%nat 0%nat)|exact Vb]|].
    split; [rewrite (frame_read _ _ _ _ _ (F (length (s_arrs st)) 0%nat) Vw) by (left; destruct Vw; lia); exact Rw|].
    split; [rewrite (frame_read _ _ _ _ _ (F (length (s_arrs st)) 0%nat) Vb) by (left; destruct Vb; lia); exact Rb|].
    destruct Hs as [Hs|Hs]; [left; exact Hs|right].
    intros j oj Hj. destruct (Wnew j oj Hj) as [[Hlt Hoj]|(-> & Ea & _)].
    + eapply Hs; eassumption.
    + destruct Vb. lia.
Qed.

(* ---- replacing an object by one whose WhiteGroups header stays in the same array (set_pos, copyPosition) ---- *)
Lemma replace_facts st k ok o' : nth_error (s_objs st) k = Some ok -> wg_valid st ->
  r_arr (o_wg o') = r_arr (o_wg ok) -> valid (s_arrs st) (o_wg o') ->
  let st' := {| s_objs := set_obj (s_objs st) k o'; s_arrs := s_arrs st |} in
  wg_valid st' /\ nth_error (s_objs st') k = Some o' /\ (forall h v, h <> k -> shows st h v -> shows st' h v).
Proof.
  intros Hk (H0 & HW & HJ) Ea Vo'. cbn zeta. unfold wg_valid, shows, sealed. cbn [s_objs s_arrs].
  assert (Hlt : (k < length (s_objs st))%nat) by (eapply nth_error_lt; eassumption).
  assert (G : forall i o, nth_error (set_obj (s_objs st) k o') i = Some o ->
              (i = k /\ o = o') \/ (i <> k /\ nth_error (s_objs st) i = Some o)).
  { intros i o Hi. rewrite nth_error_set_obj in Hi by assumption.
    destruct (Nat.eqb_spec i k) as [->|Hn]; [left; split; congruence|right; auto]. }
  assert (Garr : forall i o, nth_error (set_obj (s_objs st) k o') i = Some o ->
              exists o0, nth_error (s_objs st) i = Some o0 /\ r_arr (o_wg o) = r_arr (o_wg o0)).
  { intros i o Hi. destruct (G i o Hi) as [[-> ->]|[_ Ho]]; [exists ok; auto|exists o; auto]. }
  split; [|split].
  - split; [exact H0|]. split.
    + intros i o Hi. destruct (G i o Hi) as [[-> ->]|[_ Ho]].
      * split; [exact Vo'|]. rewrite Ea. apply (HW k ok Hk).
      * apply (HW i o Ho).
    + intros i j oi oj Hi Hj Hne.
      destruct (Garr i oi Hi) as (oi0 & Hoi & ->), (Garr j oj Hj) as (oj0 & Hoj & ->). eapply HJ; eassumption.
  - rewrite nth_error_set_obj, Nat.eqb_refl by assumption. reflexivity.
  - intros h v Hne (o & Ho & Ev & Vb & Rw & Rb & Hs).
    exists o. split; [rewrite nth_error_set_obj by assumption; destruct (Nat.eqb_spec h k); [contradiction|exact Ho]|].
    repeat (split; [assumption|]).
    destruct Hs as [Hs|Hs]; [left; exact Hs|right].
    intros j oj Hj. destruct (Garr j oj Hj) as (oj0 & Hoj & ->). eapply Hs; eassumption.
Qed.

Lemma set_pos_facts st k ok q : nth_error (s_objs st) k = Some ok -> wg_valid st ->
  wg_valid (set_pos st k q) /\
  nth_error (s_objs (set_pos st k q)) k = Some {| o_pos := q; o_own := o_own ok; o_wg := o_wg ok; o_bg := o_bg ok |} /\
  s_arrs (set_pos st k q) = s_arrs st /\
  (forall h v, h <> k -> shows st h v -> shows (set_pos st k q) h v).
Proof.
  intros Hk HWV. unfold set_pos. rewrite Hk.
  destruct (replace_facts st k ok {| o_pos := q; o_own := o_own ok; o_wg := o_wg ok; o_bg := o_bg ok |} Hk HWV eq_refl) as (A & B & C).
  { destruct HWV as (_ & HW & _). apply (HW k ok Hk). }
  auto.
Qed.

(* ---- analyze() ---- *)
Lemma analyze_obj_facts st k ok : nth_error (s_objs st) k = Some ok -> wg_valid st ->
  let st' := analyze_obj st k in
  wg_valid st' /\ length (s_objs st') = length (s_objs st) /\ shows st' k (o_pos ok) /\
  (forall h v, h <> k -> shows st h v -> shows st' h v).
Proof.
  intros Hk (H0 & HW & HJ).
  destruct (HW k ok Hk) as [Vk Pk].
  destruct (analyze_obj_spec st k ok Hk Vk) as (w & b & Eo & F & Vw & Vb & Rw & Rb & Cw & Cb).
  cbn zeta. set (st' := analyze_obj st k) in *.
  assert (Hlt : (k < length (s_objs st))%nat) by (eapply nth_error_lt; eassumption).
  assert (Flen : (length (s_arrs st) <= length (s_arrs st'))%nat) by apply F.
  set (o' := {| o_pos := o_pos ok; o_own := o_own ok; o_wg := w; o_bg := b |}) in *.
  assert (G : forall i o, nth_error (s_objs st') i = Some o ->
              (i = k /\ o = o') \/ (i <> k /\ nth_error (s_objs st) i = Some o)).
  { intros i o Hi. rewrite Eo, nth_error_set_obj in Hi by assumption.
    destruct (Nat.eqb_spec i k) as [->|Hn]; [left; split; congruence|right; auto]. }
  (* the array of the new WhiteGroups header differs from every other object's *)
  assert (Wfresh : forall j oj, j <> k -> nth_error (s_objs st) j = Some oj -> r_arr w <> r_arr (o_wg oj)).
  { intros j oj Hne Hj. destruct Cw as [Cw|Cw].
    - rewrite Cw. eapply HJ; eauto.
    - destruct (HW j oj Hj) as [[V _] _]. lia. }
  split; [|split; [|split]].
  - split; [lia|]. split.
    + intros i o Hi. destruct (G i o Hi) as [[-> ->]|[_ Ho]]; cbn [o_wg o'].
      * split; [exact Vw|]. destruct Cw as [Cw|Cw]; lia.
      * destruct (HW i o Ho) as [V P]. split; [eapply frame_valid; eassumption|exact P].
    + intros i j oi oj Hi Hj Hne.
      destruct (G i oi Hi) as [[-> ->]|[Hni Hoi]], (G j oj Hj) as [[-> ->]|[Hnj Hoj]]; cbn [o_wg o'].
      * contradiction.
      * eapply Wfresh; eauto.
      * intro E. eapply Wfresh; [| |symmetry; exact E]; eauto.
      * eapply HJ; eauto.
  - rewrite Eo. apply set_obj_length.
  - exists o'. split; [rewrite Eo, nth_error_set_obj, Nat.eqb_refl by assumption; reflexivity|].
    split; [reflexivity|]. cbn [o_wg o_bg o'].
    repeat (split; [assumption|]).
    destruct Cb as [Cb|[Cb1 Cb2]]; [left; exact Cb|right].
    intros j oj Hj. destruct (G j oj Hj) as [[-> ->]|[Hnj Hoj]]; cbn [o_wg o'].
    + lia.
    + destruct (HW j oj Hoj) as [[V _] _]. lia.
  - intros h v Hne (o & Ho & Ev & Vbo & Rwo & Rbo & Hs).
    destruct (HW h o Ho) as [Vwo _].
    assert (Nw : r_arr (o_wg o) <> r_arr (o_wg ok)) by (eapply HJ; eauto).
    assert (Nb : r_arr (o_bg o) <> r_arr (o_wg ok)).
    { destruct Hs as [Hs|Hs]; [rewrite Hs; exact Nw|]. intro E. eapply Hs; [exact Hk|]. symmetry. exact E. }
    exists o. split; [rewrite Eo, nth_error_set_obj by assumption; destruct (Nat.eqb_spec h k); [contradiction|exact Ho]|].
    split; [exact Ev|].
    split; [eapply frame_valid; eassumption|].
    split; [rewrite (frame_read _ _ _ _ _ F Vwo) by (left; exact Nw); exact Rwo|].
    split; [rewrite (frame_read _ _ _ _ _ F Vbo) by (left; exact Nb); exact Rbo|].
    destruct Hs as [Hs|Hs]; [left; exact Hs|right].
    intros j oj Hj. destruct (G j oj Hj) as [[-> ->]|[Hnj Hoj]]; cbn [o_wg o'].
    + destruct Cw as [Cw|Cw]; [rewrite Cw; intro E; apply Nb; symmetry; exact E|]. destruct Vbo. lia.
    + eapply Hs; eassumption.
Qed.

(* ---- the pure state ---- *)
Lemma pval_app_old ps x h : (h < length ps)%nat -> pval (ps ++ [x]) h = pval ps h.
Proof. intro H. unfold pval. rewrite nth_error_app1 by assumption. reflexivity. Qed.
Lemma pval_app_new ps x : pval (ps ++ [x]) (length ps) = x.
Proof. unfold pval. rewrite nth_error_app2, Nat.sub_diag by lia. cbn. destruct x; reflexivity. Qed.
Lemma pval_lt ps h v : pval ps h = Some v -> (h < length ps)%nat.
Proof. unfold pval. intro H. apply nth_error_Some. destruct (nth_error ps h); congruence. Qed.
Lemma pval_app_inv ps x h v : pval (ps ++ [x]) h = Some v ->
  ((h < length ps)%nat /\ pval ps h = Some v) \/ (h = length ps /\ x = Some v).
Proof.
  intro H. destruct (Nat.lt_ge_cases h (length ps)) as [Hlt|Hge].
  - left. rewrite pval_app_old in H by assumption. auto.
  - right. pose proof (pval_lt _ _ _ H) as Hl. rewrite app_length in Hl. cbn in Hl.
    assert (h = length ps) by lia. subst h. rewrite pval_app_new in H. auto.
Qed.
Lemma pval_set_nth ps b x h : (b < length ps)%nat ->
  pval (set_nth ps b x) h = if Nat.eqb h b then x else pval ps h.
Proof.
  intro H. unfold pval. rewrite nth_error_set_nth by assumption.
  destruct (Nat.eqb h b); [destruct x; reflexivity|reflexivity].
Qed.

Lemma analyze_total_new sz bwt stones caps : analyze_total (new_pos sz bwt stones caps) = ([], []).
Proof. reflexivity. Qed.

Section S.
Variable hsq : N -> N -> N -> N.
Notation step := (step hsq true).
Notation pure_step := (pure_step hsq).

(* appending a live handle that shows v, or a dead object *)
Lemma inv_snoc st st1 ps x :
  inv st ps -> wg_valid st1 -> length (s_objs st1) = S (length (s_objs st)) ->
  (forall h v, (h < length ps)%nat -> shows st h v -> shows st1 h v) ->
  (forall v, x = Some v -> shows st1 (length ps) v) ->
  inv st1 (ps ++ [x]).
Proof.
  intros (L & W & V) W1 L1 Hold Hnew. split; [rewrite app_length; cbn; lia|]. split; [exact W1|].
  intros h v Hp. destruct (pval_app_inv _ _ _ _ Hp) as [[Hlt Hp']|[-> ->]].
  - apply Hold; auto.
  - apply Hnew. reflexivity.
Qed.

Theorem step_inv st ps o : inv st ps -> op_ok ps o = true -> inv (fst (step st o)) (pure_step ps o).
Proof.
  intros Hinv Hok. pose proof Hinv as (L & W & V).
  destruct o as [p|sz bwt stones caps|sz|h m|h m buf|h]; cbn [Alloc.step Alloc.pure_step op_ok] in *.
  - (* OInit *)
    destruct (alloc_obj_facts st p nil_ref W) as (Eid & Eobjs & W1 & F1 & S1).
    destruct (alloc_obj st p nil_ref) as [st1 id]. cbn [fst snd] in *. subst id.
    assert (Hn : nth_error (s_objs st1) (length (s_objs st)) = Some {| o_pos := p; o_own := length (s_arrs st);
               o_wg := {| r_arr := length (s_arrs st); r_off := 0; r_len := 0 |}; o_bg := nil_ref |}).
    { rewrite Eobjs, nth_error_app2, Nat.sub_diag by lia. reflexivity. }
    destruct (analyze_obj_facts st1 _ _ Hn W1) as (W2 & L2 & Sk & So). cbn [o_pos] in Sk.
    apply inv_snoc with (st := st); auto.
    + rewrite L2, Eobjs, app_length. cbn. lia.
    + intros h v Hlt Hs. apply So; [lia|]. apply S1. exact Hs.
    + intros v [= <-]. rewrite <- L. exact Sk.
  - (* ONew *)
    destruct (alloc_obj_facts st (new_pos sz bwt stones caps) nil_ref W) as (Eid & Eobjs & W1 & F1 & S1).
    destruct (alloc_obj st (new_pos sz bwt stones caps) nil_ref) as [st1 id]. cbn [fst snd] in *. subst id.
    apply inv_snoc with (st := st); auto.
    + rewrite Eobjs, app_length. cbn. lia.
    + intros v [= <-]. rewrite <- L.
      eexists. split; [rewrite Eobjs, nth_error_app2, Nat.sub_diag by lia; reflexivity|]. cbn [o_pos o_wg o_bg].
      split; [reflexivity|]. destruct W1 as (H0 & HW1 & _).
      split; [split; cbn; lia|]. rewrite analyze_total_new. cbn [fst snd].
      split; [reflexivity|]. split; [reflexivity|]. right.
      intros j oj Hj. destruct (HW1 j oj Hj) as [_ P]. cbn. lia.
  - (* OAlloc *)
    destruct (alloc_obj_facts st (zero_pos sz) nil_ref W) as (Eid & Eobjs & W1 & F1 & S1).
    destruct (alloc_obj st (zero_pos sz) nil_ref) as [st1 id]. cbn [fst snd] in *. subst id.
    apply inv_snoc with (st := st); auto.
    + rewrite Eobjs, app_length. cbn. lia.
    + discriminate.
  - (* OMove *)
    destruct (pval ps h) as [v|] eqn:Ev; [|discriminate].
    destruct (V h v Ev) as (src & Hsrc & Epos & _). rewrite Hsrc. rewrite Epos.
    destruct (alloc_obj_facts st v (o_bg src) W) as (Eid & Eobjs & W1 & F1 & S1).
    destruct (alloc_obj st v (o_bg src)) as [st1 id]. cbn [fst snd] in *. subst id.
    assert (Hn : nth_error (s_objs st1) (length (s_objs st)) = Some {| o_pos := v; o_own := length (s_arrs st);
               o_wg := {| r_arr := length (s_arrs st); r_off := 0; r_len := 0 |}; o_bg := o_bg src |}).
    { rewrite Eobjs, nth_error_app2, Nat.sub_diag by lia. reflexivity. }
    destruct (amv hsq v m) as [q| |] eqn:Em; cbn [fst].
    + destruct (set_pos_facts st1 _ _ q Hn W1) as (W2 & Hn2 & Ea2 & S2).
      destruct (analyze_obj_facts _ _ _ Hn2 W2) as (W3 & L3 & Sk & So). cbn [o_pos] in Sk.
      apply inv_snoc with (st := st); auto.
      * rewrite L3. unfold set_pos. rewrite Hn. cbn [s_objs]. rewrite set_obj_length, Eobjs, app_length. cbn. lia.
      * intros h' v' Hlt Hs. apply So; [lia|]. apply S2; [lia|]. apply S1. exact Hs.
      * intros v' [= <-]. rewrite <- L. exact Sk.
    + apply inv_snoc with (st := st); auto.
      * rewrite Eobjs, app_length. cbn. lia.
      * discriminate.
    + apply inv_snoc with (st := st); auto.
      * rewrite Eobjs, app_length. cbn. lia.
      * discriminate.
  - (* OMovePre *)
    destruct (pval ps h) as [v|] eqn:Ev; [|discriminate].
    apply andb_true_iff in Hok. destruct Hok as [Hne Hlt].
    apply negb_true_iff, Nat.eqb_neq in Hne. apply Nat.ltb_lt in Hlt.
    destruct (V h v Ev) as (src & Hsrc & Epos & _). rewrite Hsrc, Epos.
    destruct (nth_error (s_objs st) buf) as [b|] eqn:Hb; [|apply nth_error_None in Hb; lia].
    set (b1 := {| o_pos := v; o_own := o_own b;
                  o_wg := {| r_arr := r_arr (o_wg b); r_off := r_off (o_wg b); r_len := 0 |}; o_bg := o_bg src |}).
    destruct (replace_facts st buf b b1 Hb W eq_refl) as (W1 & Hn1 & S1).
    { destruct W as (_ & HW & _). destruct (HW buf b Hb) as [[A B] _]. split; cbn; [exact A|lia]. }
    set (st1 := {| s_objs := set_obj (s_objs st) buf b1; s_arrs := s_arrs st |}) in *.
    assert (L1 : length (s_objs st1) = length ps) by (cbn; rewrite set_obj_length; exact L).
    destruct (amv hsq v m) as [q| |] eqn:Em; cbn [fst].
    + destruct (set_pos_facts st1 _ _ q Hn1 W1) as (W2 & Hn2 & Ea2 & S2).
      destruct (analyze_obj_facts _ _ _ Hn2 W2) as (W3 & L3 & Sk & So). cbn [o_pos] in Sk.
      split; [|split; [exact W3|]].
      * rewrite L3, set_nth_length. unfold set_pos. rewrite Hn1. cbn [s_objs]. rewrite set_obj_length. exact L1.
      * intros h' v' Hp. rewrite pval_set_nth in Hp by assumption.
        destruct (Nat.eqb_spec h' buf) as [->|Hn'].
        -- injection Hp as <-. exact Sk.
        -- apply So; [exact Hn'|]. apply S2; [exact Hn'|]. apply S1; [exact Hn'|]. apply V. exact Hp.
    + split; [|split; [exact W1|]].
      * rewrite set_nth_length. exact L1.
      * intros h' v' Hp. rewrite pval_set_nth in Hp by assumption.
        destruct (Nat.eqb_spec h' buf) as [->|Hn']; [discriminate|]. apply S1; [exact Hn'|]. apply V. exact Hp.
    + split; [|split; [exact W1|]].
      * rewrite set_nth_length. exact L1.
      * intros h' v' Hp. rewrite pval_set_nth in Hp by assumption.
        destruct (Nat.eqb_spec h' buf) as [->|Hn']; [discriminate|]. apply S1; [exact Hn'|]. apply V. exact Hp.
  - (* OClone *)
    destruct (pval ps h) as [v|] eqn:Ev; [|discriminate].
    destruct (V h v Ev) as (src & Hsrc & Epos & _). rewrite Hsrc. rewrite Epos.
    destruct (alloc_obj_facts st v (o_bg src) W) as (Eid & Eobjs & W1 & F1 & S1).
    destruct (alloc_obj st v (o_bg src)) as [st1 id]. cbn [fst snd] in *. subst id.
    assert (Hn : nth_error (s_objs st1) (length (s_objs st)) = Some {| o_pos := v; o_own := length (s_arrs st);
               o_wg := {| r_arr := length (s_arrs st); r_off := 0; r_len := 0 |}; o_bg := o_bg src |}).
    { rewrite Eobjs, nth_error_app2, Nat.sub_diag by lia. reflexivity. }
    destruct (analyze_obj_facts st1 _ _ Hn W1) as (W2 & L2 & Sk & So). cbn [o_pos] in Sk.
    apply inv_snoc with (st := st); auto.
    + rewrite L2, Eobjs, app_length. cbn. lia.
    + intros h' v' Hlt Hs. apply So; [lia|]. apply S1. exact Hs.
    + intros v' [= <-]. rewrite <- L. exact Sk.
Qed.

Lemma inv_empty : inv empty_store [].
Proof.
  split; [reflexivity|]. split.
  - split; [cbn; lia|]. split.
    + intros i o H. destruct i; discriminate.
    + intros i j oi oj H. destruct i; discriminate.
  - intros h v H. unfold pval in H. destruct h; discriminate.
Qed.

Lemma run_from_inv ops : forall st ps, inv st ps -> ops_ok_from hsq ps ops = true ->
  inv (run_from hsq true st ops) (pure_run_from hsq ps ops).
Proof.
  induction ops as [|o ops IH]; intros st ps Hinv Hok; cbn in *; [exact Hinv|].
  apply andb_true_iff in Hok. destruct Hok as [H1 H2].
  apply IH; [apply step_inv; assumption|exact H2].
Qed.

Theorem run_inv ops : ops_ok hsq ops = true -> inv (run hsq true ops) (pure_run hsq ops).
Proof. intro H. apply run_from_inv; [apply inv_empty|exact H]. Qed.

Lemma shows_observe st h v : shows st h v -> observe st h = Some (observe_pure v).
Proof.
  intros (o & Ho & Ev & _ & Rw & Rb & _). unfold observe, observe_pure. rewrite Ho, Rw, Rb, Ev.
  destruct (analyze_total v) as [wg bg]. reflexivity.
Qed.

(* every live handle shows exactly the observables of the pure value computed for it *)
Theorem value_semantics ops : ops_ok hsq ops = true ->
  forall h v, pval (pure_run hsq ops) h = Some v -> observe (run hsq true ops) h = Some (observe_pure v).
Proof. intros Hok h v Hp. apply shows_observe. apply (run_inv ops Hok). exact Hp. Qed.

(* the storage invariant in every reachable store *)
Definition owns (st : store) (ps : pstate) : Prop :=
  (forall i o, nth_error (s_objs st) i = Some o -> valid (s_arrs st) (o_wg o) /\ (0 < r_arr (o_wg o))%nat) /\
  (forall i j oi oj, nth_error (s_objs st) i = Some oi -> nth_error (s_objs st) j = Some oj -> i <> j ->
     r_arr (o_wg oi) <> r_arr (o_wg oj)) /\
  (forall h v, pval ps h = Some v -> exists o, nth_error (s_objs st) h = Some o /\ valid (s_arrs st) (o_bg o) /\
     (r_arr (o_bg o) = r_arr (o_wg o) \/
      forall j oj, nth_error (s_objs st) j = Some oj -> r_arr (o_wg oj) <> r_arr (o_bg o))).

Theorem owns_invariant ops : ops_ok hsq ops = true -> owns (run hsq true ops) (pure_run hsq ops).
Proof.
  intro Hok. destruct (run_inv ops Hok) as (_ & (_ & HW & HJ) & V). split; [exact HW|]. split; [exact HJ|].
  intros h v Hp. destruct (V h v Hp) as (o & Ho & _ & Vb & _ & _ & Hs). exists o. auto.
Qed.
End S.
