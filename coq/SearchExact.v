(* SearchExact.v: the engine model Search.v with the value-preserving options (MakePrecise) and no transposition table computes
   exhaustive negamax.  This is the connection between the concrete, state-threading search (frames, history and response tables,
   hint moves, iterative deepening) and the abstract PVS theorem of Pvs.v: the argument of Pvs.pvs_correct is replayed on the
   concrete child loops, where the children arrive in a state-dependent order and possibly twice (SearchGen.v). *)
From Coq Require Import NArith ZArith List Bool Lia Permutation.
Require Import Board Move GameOver Eval Search NegamaxSpec SearchGen.
Import ListNotations.
Open Scope Z_scope.

Definition okl (l : list rmove) : Prop := Forall okm l.

(* the state invariant: no table; no Pass move among the hint moves the state can supply *)
Definition SI (s : sstate) : Prop := table s = [] /\ Forall okm (map snd (response s)) /\ Forall okl (fpv s).

Lemma okm_move0 : okm move0.
Proof. unfold okm, move0; cbn. discriminate. Qed.

Lemma Forall_set_nth {A} (P : A -> Prop) l i v : Forall P l -> P v -> Forall P (set_nth l i v).
Proof.
  revert i. induction l as [|h t IH]; intros i HF Hv; simpl; [constructor|].
  inversion HF; subst. destruct i; constructor; auto.
Qed.
Lemma Forall_skipn {A} (P : A -> Prop) n l : Forall P l -> Forall P (skipn n l).
Proof. revert l. induction n; intros l H; simpl; [assumption|]. destruct l; [constructor|]. inversion H; subst. auto. Qed.
Lemma Forall_firstn {A} (P : A -> Prop) n l : Forall P l -> Forall P (firstn n l).
Proof. revert l. induction n; intros l H; simpl; [constructor|]. destruct l; [constructor|]. inversion H; subst. constructor; auto. Qed.
Lemma okl_set_prefix arr l : okl arr -> okl l -> okl (set_prefix arr l).
Proof. intros A L. unfold set_prefix, okl. apply Forall_app. split; [assumption|apply Forall_skipn; assumption]. Qed.
Lemma okl_tl l : okl l -> okl (tl l).
Proof. intros H. destruct l; [constructor|]. inversion H; assumption. Qed.
Lemma okl_frame s ply : SI s -> okl (znth (fpv s) ply []).
Proof.
  intros (_ & _ & H). unfold znth. destruct (nth_in_or_default (Z.to_nat ply) (fpv s) []) as [Hin|E].
  - rewrite Forall_forall in H. apply H. assumption.
  - rewrite E. constructor.
Qed.
Lemma assoc_set_values {V} (P : V -> Prop) k v (l : list (rmove * V)) : Forall P (map snd l) -> P v -> Forall P (map snd (assoc_set k v l)).
Proof.
  induction l as [|[k' v'] r IH]; intros HF Hv; simpl; [constructor; [assumption|constructor]|].
  inversion HF; subst. destruct (rmove_eqb k k'); simpl; constructor; auto.
Qed.

Lemma SI_bump s f : SI s -> SI (bump s f).
Proof. intros H; exact H. Qed.
Lemma SI_set_fm s ply m : SI s -> SI (set_fm s ply m).
Proof. intros H; exact H. Qed.
Lemma SI_count_eval s : SI s -> SI (count_eval s).
Proof. intros H; exact H. Qed.
Lemma SI_reset_st s : SI s -> SI (reset_st s).
Proof. intros H; exact H. Qed.
Lemma SI_set_fpv s ply arr : SI s -> okl arr -> SI (set_fpv s ply arr).
Proof. intros (A & B & C) H. repeat split; auto. cbn [set_fpv fpv]. apply Forall_set_nth; assumption. Qed.
Lemma SI_record_cut s m i d ply : SI s -> okm m -> SI (record_cut s m i d ply).
Proof.
  intros (A & B & C) H. unfold record_cut. repeat split; cbn [table response fpv upd_st]; auto.
  destruct (0 <? ply); [apply assoc_set_values; assumption|assumption].
Qed.
Lemma SI_new n : n = 0%nat -> SI (new_state n).
Proof.
  intros ->. unfold SI, new_state. cbn [table response fpv map repeat]. split; [reflexivity|]. split; [constructor|].
  apply Forall_forall. intros l Hl. apply repeat_spec in Hl. subst. apply Forall_forall. intros m Hm. apply repeat_spec in Hm. subst. apply okm_move0.
Qed.

Lemma tt_probe_none basis s p ply depth a b : table s = [] -> tt_probe basis s p ply depth a b = (s, None, None).
Proof. intros H. unfold tt_probe, tt_get. rewrite H. reflexivity. Qed.
Lemma zw_store_none c s p depth best a d : table s = [] -> zw_store c s p depth best a d = s.
Proof. intros H. unfold zw_store, tt_put. rewrite H. reflexivity. Qed.
Lemma pv_store_none c s p depth best a b i : table s = [] -> pv_store c s p depth best a b i = s.
Proof. intros H. unfold pv_store, tt_put. rewrite H. reflexivity. Qed.

Section Exact.
Variable pinned : bool.
Variable basis : list N.
Variable cfg : config.
Let eval := c_eval cfg.

(* MakePrecise *)
Hypothesis Hnonull : c_nonull cfg = true.
Hypothesis Hnoreduce : c_noreduce cfg = true.
Hypothesis Hnomc : c_multicut cfg = false.

(* the positions the search can reach, and what is assumed of the rules engine on them (C01 / C03 territory) *)
Variable Pos : position -> Prop.
(* Pos is closed under the legal moves of unfinished games *)
Hypothesis Hclosed : forall p q, Pos p -> is_over p = false -> In q (children basis p) -> Pos q.
(* C03 (generator complete): a move that MovePreallocated accepts leads to a position that a generated move leads to *)
Hypothesis Hhint : forall p m q, Pos p -> is_over p = false -> okm m -> try_move basis p m = Some q -> In q (children basis p).
(* an unfinished game has a legal move *)
Hypothesis Hlive : forall p, Pos p -> is_over p = false -> children basis p <> [].

Notation nm := (nmx basis eval).

(* what a search function must deliver at depth d (the window trichotomy of Pvs.zw_ok / Pvs.pv_ok, plus the state invariant) *)
Definition zw_spec (d : nat) (p : position) (a v : Z) : Prop :=
  (nm d p <= a -> nm d p <= v <= a) /\ (a < nm d p -> a < v <= nm d p).
Definition pv_spec (d : nat) (p : position) (a b v : Z) : Prop :=
  (nm d p <= a -> nm d p <= v <= a) /\ (a < nm d p < b -> v = nm d p) /\ (b <= nm d p -> b <= v <= nm d p).
(* the first move of the returned line attains the value, when the value is exact *)
Definition head_spec (d : nat) (p : position) (a b : Z) (ms : list rmove) : Prop :=
  a < nm d p < b -> is_over p = false -> (0 < d)%nat ->
  exists m rest q, ms = m :: rest /\ try_move basis p m = Some q /\ In q (children basis p) /\ - nm (d - 1) q = nm d p.

Definition rec_ok (d : nat) (rec : rec_t) : Prop :=
  forall zw s p ply pv a b cut, SI s -> Pos p -> okl pv -> (zw = false -> a < b) ->
    let r := rec zw s p ply (Z.of_nat d) pv a b cut in
    SI (fst r) /\ okl (fst (snd r)) /\ (is_over p = true -> fst (snd r) = []) /\
    (if zw then zw_spec d p a (snd (snd r)) else pv_spec d p a b (snd (snd r)) /\ head_spec d p a b (fst (snd r))).

Lemma canc0 s : cancelled 0 s = false.
Proof. reflexivity. Qed.

(* SearchGen's lemmas, with the rules-engine facts discharged from the hypotheses of this section *)
Lemma gi_new p s pv ply depth : Pos p -> okl pv -> GI basis p [] (new_gen s None pv ply depth p).
Proof.
  intros Hp Hpv. apply GI_new. exact Hpv.
Qed.

Section Node.
Variable d' : nat.
Variable rec : rec_t.
Hypothesis Hrec : rec_ok d' rec.
Variable p : position.
Hypothesis Hp : Pos p.
Hypothesis Hover : is_over p = false.

Let x (q : position) : Z := - nm d' q.
Let len := Z.of_nat (length (all_moves p)).

Lemma child_le q : In q (children basis p) -> x q <= nm (S d') p.
Proof. intros H. apply nmx_ge; assumption. Qed.
Lemma some_child : exists q, In q (children basis p) /\ nm (S d') p = x q.
Proof. apply nmx_attained; [assumption|apply Hlive; assumption]. Qed.

Lemma gen_step f g seen s : GI basis p seen g -> SI s -> len + 6 - g_i g < Z.of_nat f ->
  step_ok basis p seen g (mg_next pinned basis cfg f s g).
Proof.
  intros G (_ & R & _) F.
  apply mg_next_step; [intros m q; apply Hhint; assumption|exact G|exact R|exact F].
Qed.

(* ---- the child loop of zwSearch ---- *)
Lemma zw_loop_ok ply a cut : forall n s g i best seen,
  SI s -> GI basis p seen g -> okl best -> len + 6 - g_i g < Z.of_nat n ->
  (forall q, In q seen -> x q <= a) ->
  let r := zw_loop pinned basis cfg 0 rec n ply (Z.of_nat (S d')) a cut s g i best in
  let '(s', best', didcut, aborted) := r in
  SI s' /\ okl best' /\ aborted = false /\ (if didcut then a < nm (S d') p else nm (S d') p <= a).
Proof.
  induction n; intros s g i best seen HS G HB HF HSEEN.
  { cbn [zw_loop]. refine (conj HS (conj HB (conj eq_refl _))).
    pose proof (gen_step 0 g seen s G HS HF) as ST. cbn [mg_next step_ok] in ST.
    destruct some_child as (q & Hq & E). rewrite E. apply HSEEN. apply ST. assumption. }
  cbn [zw_loop].
  pose proof (gen_step (gfuel g) g seen s G HS (gfuel_ok _ _ _ _ G)) as ST.
  destruct (mg_next pinned basis cfg (gfuel g) s g) as [g' [[m q]|]]; cbn [step_ok] in ST.
  2:{ refine (conj HS (conj HB (conj eq_refl _))). destruct some_child as (q & Hq & E). rewrite E. apply HSEEN. apply ST. assumption. }
  destruct ST as (Hm & HT & Hq & G' & HLT & _).
  assert (Hpq : Pos q) by (apply (Hclosed p q Hp Hover Hq)).
  replace (Z.of_nat (S d') - 1) with (Z.of_nat d') by lia.
  pose proof (Hrec true (set_fm s ply m) q (ply + 1) (tl best) (- a - 1) 0 (negb cut) (SI_set_fm _ _ _ HS) Hpq (okl_tl _ HB) ltac:(discriminate)) as R.
  destruct (rec true (set_fm s ply m) q (ply + 1) (Z.of_nat d') (tl best) (- a - 1) 0 (negb cut)) as [s1 [ms v]].
  cbn [fst snd] in R. destruct R as (HS1 & Hms & _ & (Z1 & Z2)). fold (x q) in *.
  destruct (a <? - v) eqn:EC.
  - apply Z.ltb_lt in EC. split; [|split; [|split; [reflexivity|]]].
    + apply SI_set_fpv; [apply SI_record_cut; assumption|]. apply okl_set_prefix; [apply okl_frame; apply SI_record_cut; assumption|constructor; assumption].
    + constructor; assumption.
    + apply Z.lt_le_trans with (x q); [|apply child_le; assumption]. unfold x. lia.
  - apply Z.ltb_ge in EC. rewrite canc0.
    apply (IHn s1 g' (i + 1) best (q :: seen)); auto; [lia|].
    intros q0 [<-|H0]; [unfold x; lia|apply HSEEN; assumption].
Qed.

(* ---- one child of pvSearch ---- *)
Lemma pv_child_ok s q ply best a b i : SI s -> In q (children basis p) -> okl best -> a < b ->
  let r := pv_child rec s q ply (Z.of_nat (S d')) best a b i in
  SI (fst r) /\ okl (fst (snd r)) /\
  (let v := - snd (snd r) in (x q <= a -> x q <= v <= a) /\ (a < x q < b -> v = x q) /\ (b <= x q -> b <= v <= x q)).
Proof.
  intros HS Hq HB Hab. assert (Hpq : Pos q) by (apply (Hclosed p q Hp Hover Hq)).
  unfold pv_child. replace (Z.of_nat (S d') - 1) with (Z.of_nat d') by lia.
  pose proof (fun s HS => Hrec false s q (ply + 1) (tl best) (- b) (- a) true HS Hpq (okl_tl _ HB) ltac:(intros; lia)) as RPV.
  destruct (1 <? i).
  - pose proof (Hrec true s q (ply + 1) (tl best) (- a - 1) 0 true HS Hpq (okl_tl _ HB) ltac:(discriminate)) as R.
    destruct (rec true s q (ply + 1) (Z.of_nat d') (tl best) (- a - 1) 0 true) as [s1 [ms v]].
    cbn [fst snd] in R. destruct R as (HS1 & Hms & _ & (Z1 & Z2)).
    destruct ((a <? - v) && (- v <? b)) eqn:EW.
    + apply andb_true_iff in EW. destruct EW as [E1 E2]. apply Z.ltb_lt in E1. apply Z.ltb_lt in E2.
      specialize (RPV _ (SI_bump s1 (st_add 0 0 0 0 1 0 0 0 0 0 0) HS1)).
      destruct (rec false (bump s1 (st_add 0 0 0 0 1 0 0 0 0 0 0)) q (ply + 1) (Z.of_nat d') (tl best) (- b) (- a) true) as [s2 [ms2 v2]].
      cbn [fst snd] in *. destruct RPV as (HS2 & Hms2 & _ & (P1 & P2 & P3) & _). unfold x.
      refine (conj HS2 (conj Hms2 _)). lia.
    + cbn [fst snd]. apply andb_false_iff in EW. unfold x. refine (conj HS1 (conj Hms _)).
      destruct EW as [E|E]; apply Z.ltb_ge in E; lia.
  - specialize (RPV _ HS).
    destruct (rec false s q (ply + 1) (Z.of_nat d') (tl best) (- b) (- a) true) as [s2 [ms2 v2]].
    cbn [fst snd] in *. destruct RPV as (HS2 & Hms2 & _ & (P1 & P2 & P3) & _). unfold x.
    refine (conj HS2 (conj Hms2 _)). lia.
Qed.

(* ---- the child loop of pvSearch ---- *)
Definition attains (best : list rmove) (a : Z) : Prop :=
  exists m rest q, best = m :: rest /\ try_move basis p m = Some q /\ In q (children basis p) /\ x q = a.

Lemma pv_done a0 b best a improved seen :
  a0 <= a < b -> (forall q, In q seen -> x q <= a) ->
  (improved = false /\ a = a0 \/ improved = true /\ attains best a) ->
  (forall q, In q (children basis p) -> In q seen) ->
  let M := Z.max a0 (nm (S d') p) in (M < b -> a = M /\ (a0 < a -> attains best a)) /\ (b <= M -> b <= a <= M).
Proof.
  intros Hab HSEEN HIMP ALL. cbv zeta. destruct some_child as (q & Hq & E).
  assert (nm (S d') p <= a) by (rewrite E; apply HSEEN; apply ALL; assumption).
  assert (a <= Z.max a0 (nm (S d') p)).
  { destruct HIMP as [[_ ->]|[_ (m & rest & q1 & _ & _ & Hq1 & <-)]]; [lia|]. pose proof (child_le q1 Hq1). lia. }
  split; [|lia]. intros _. split; [lia|]. intros L. destruct HIMP as [[_ ->]|[_ AT]]; [lia|assumption].
Qed.

Lemma pv_loop_ok ply a0 b : forall n s g i best a improved seen,
  SI s -> GI basis p seen g -> okl best -> len + 6 - g_i g < Z.of_nat n ->
  a0 <= a < b -> (forall q, In q seen -> x q <= a) ->
  (improved = false /\ a = a0 \/ improved = true /\ attains best a) ->
  let r := pv_loop pinned basis cfg 0 rec n ply (Z.of_nat (S d')) b s g i best a improved in
  let '(s', best', a', improved', aborted) := r in
  let M := Z.max a0 (nm (S d') p) in
  SI s' /\ okl best' /\ aborted = false /\
  (M < b -> a' = M /\ (a0 < a' -> attains best' a')) /\ (b <= M -> b <= a' <= M).
Proof.
  induction n; intros s g i best a improved seen HS G HB HF Hab HSEEN HIMP;
  pose proof (pv_done a0 b best a improved seen Hab HSEEN HIMP) as DONE.
  { cbn [pv_loop]. refine (conj HS (conj HB (conj eq_refl _))). apply DONE.
    pose proof (gen_step 0 g seen s G HS HF) as ST; cbn [mg_next step_ok] in ST; exact ST. }
  cbn [pv_loop].
  pose proof (gen_step (gfuel g) g seen s G HS (gfuel_ok _ _ _ _ G)) as ST.
  destruct (mg_next pinned basis cfg (gfuel g) s g) as [g' [[m q]|]]; cbn [step_ok] in ST.
  2:{ refine (conj HS (conj HB (conj eq_refl _))). apply DONE; exact ST. }
  destruct ST as (Hm & HT & Hq & G' & HLT & _).
  pose proof (pv_child_ok (set_fm s ply m) q ply best a b (i + 1) (SI_set_fm _ _ _ HS) Hq HB ltac:(lia)) as R.
  destruct (pv_child rec (set_fm s ply m) q ply (Z.of_nat (S d')) best a b (i + 1)) as [s1 [ms v]].
  cbn [fst snd] in R. destruct R as (HS1 & Hms & (V1 & V2 & V3)).
  pose proof (child_le q Hq) as QLE.
  destruct (a <? - v) eqn:EA.
  - apply Z.ltb_lt in EA.
    assert (HB' : okl (m :: ms)) by (constructor; assumption).
    assert (HS2 : SI (set_fpv s1 ply (set_prefix (znth (fpv s1) ply []) (m :: ms)))).
    { apply SI_set_fpv; [assumption|]. apply okl_set_prefix; [apply okl_frame; assumption|assumption]. }
    destruct (b <=? - v) eqn:EB.
    + apply Z.leb_le in EB. refine (conj (SI_record_cut _ m _ _ _ HS2 Hm) (conj HB' (conj eq_refl _))). lia.
    + apply Z.leb_gt in EB.
      change (cancelled 0 (set_fpv s1 ply (set_prefix (znth (fpv s1) ply []) (m :: ms)))) with false. cbv iota.
      assert (EX : - v = x q) by lia.
      apply (IHn _ g' (i + 1) (m :: ms) (- v) true (q :: seen)); auto; [lia|lia| |].
      * intros q0 [<-|H0]; [lia|]. specialize (HSEEN q0 H0). lia.
      * right. split; [reflexivity|]. exists m, ms, q. refine (conj eq_refl (conj HT (conj Hq _))). lia.
  - apply Z.ltb_ge in EA. rewrite canc0.
    apply (IHn s1 g' (i + 1) best a improved (q :: seen)); auto; [lia|].
    intros q0 [<-|H0]; [lia|apply HSEEN; assumption].
Qed.
End Node.

(* ---- one node ---- *)
Lemma srch_step_ok_0 rec : rec_ok 0 (srch_step pinned basis cfg 0 rec).
Proof.
  intros zw s p ply pv a b cut HS Hp Hpv Hab. cbv zeta. unfold srch_step. cbn [Z.of_nat Z.leb Z.compare orb].
  cbn [fst snd]. split; [apply SI_count_eval; apply SI_bump; assumption|]. split; [constructor|]. split; [reflexivity|].
  fold eval. change (eval p) with (nm 0 p).
  destruct zw; unfold zw_spec, pv_spec, head_spec; [lia|]. split; [lia|]. intros _ _ F; inversion F.
Qed.

Lemma srch_step_ok_S d' rec : rec_ok d' rec -> rec_ok (S d') (srch_step pinned basis cfg 0 rec).
Proof.
  intros Hrec zw s p ply pv a b cut HS Hp Hpv Hab. cbv zeta. unfold srch_step.
  replace (Z.of_nat (S d') <=? 0) with false by (symmetry; apply Z.leb_gt; lia). cbn [orb].
  destruct (is_over p) eqn:EO.
  { cbn [fst snd]. split; [apply SI_count_eval; apply SI_bump; assumption|]. split; [constructor|]. split; [reflexivity|].
    fold eval. rewrite <- (nmx_over basis eval (S d') p EO).
    destruct zw; unfold zw_spec, pv_spec, head_spec; [lia|]. split; [lia|]. intros _ F; rewrite EO in F; discriminate F. }
  match goal with |- context [tt_probe basis ?s1 p ply ?dd a ?bb] =>
    assert (HS1 : SI s1) by (apply SI_bump; assumption); rewrite (tt_probe_none basis s1 p ply dd a bb (proj1 HS1)); set (sb := s1) in * end.
  destruct zw.
  - (* zwSearch *)
    unfold zw_node. unfold null_move_ok. rewrite Hnonull.
    unfold zw_reduce, reduce_slide. rewrite Hnoreduce. cbn [negb andb].
    unfold zw_mc. rewrite Hnomc. cbn [andb]. unfold zw_tail.
    pose proof (zw_loop_ok d' rec Hrec p Hp EO ply a cut (gfuel (set_i (new_gen sb None pv ply (Z.of_nat (S d')) p) 0)) sb (set_i (new_gen sb None pv ply (Z.of_nat (S d')) p) 0) 0
                  (firstn 1 (znth (fpv sb) ply [])) []
                  HS1 (GI_seti0 _ _ _ _ (gi_new p sb pv ply _ Hp Hpv) eq_refl)
                  (Forall_firstn _ _ _ (okl_frame sb ply HS1)) (gfuel_ok _ _ _ _ (GI_seti0 _ _ _ _ (gi_new p sb pv ply _ Hp Hpv) eq_refl)) ltac:(intros q F; destruct F)) as L.
    cbv zeta in L.
    destruct (zw_loop pinned basis cfg 0 rec (gfuel (set_i (new_gen sb None pv ply (Z.of_nat (S d')) p) 0)) ply (Z.of_nat (S d')) a cut sb (set_i (new_gen sb None pv ply (Z.of_nat (S d')) p) 0) 0
                (firstn 1 (znth (fpv sb) ply []))) as [[[s2 best] didcut] ab].
    destruct L as (HS2 & HB2 & -> & V). cbn [fst snd]. rewrite (zw_store_none 0 s2 p _ best a didcut (proj1 HS2)).
    split; [assumption|]. split; [assumption|]. split; [intros F; discriminate F|]. unfold zw_spec. destruct didcut; lia.
  - (* pvSearch *)
    specialize (Hab eq_refl). unfold pv_node.
    set (best0 := match pv with [] => firstn 1 (znth (fpv sb) ply []) | _ :: _ => pv end).
    assert (HB0 : okl best0) by (subst best0; destruct pv; [apply Forall_firstn; apply okl_frame; assumption|assumption]).
    set (s2 := set_fpv sb ply (set_prefix (znth (fpv sb) ply []) best0)).
    assert (HS2 : SI s2) by (apply SI_set_fpv; [assumption|apply okl_set_prefix; [apply okl_frame; assumption|assumption]]).
    pose proof (pv_loop_ok d' rec Hrec p Hp EO ply a b (gfuel (new_gen sb None pv ply (Z.of_nat (S d')) p)) s2 (new_gen sb None pv ply (Z.of_nat (S d')) p) 0 best0 a false []
                  HS2 (gi_new p sb pv ply _ Hp Hpv) HB0 (gfuel_ok _ _ _ _ (gi_new p sb pv ply _ Hp Hpv)) ltac:(lia) ltac:(intros q F; destruct F)
                  ltac:(left; split; reflexivity)) as L.
    cbv zeta in L.
    destruct (pv_loop pinned basis cfg 0 rec (gfuel (new_gen sb None pv ply (Z.of_nat (S d')) p)) ply (Z.of_nat (S d')) b s2 (new_gen sb None pv ply (Z.of_nat (S d')) p) 0 best0 a false)
      as [[[[s3 best] a'] improved] ab].
    destruct L as (HS3 & HB3 & -> & L1 & L2). cbn [fst snd]. rewrite (pv_store_none 0 s3 p _ best a' b improved (proj1 HS3)).
    split; [assumption|]. split; [assumption|]. split; [intros F; discriminate F|]. split.
    + unfold pv_spec. lia.
    + unfold head_spec. intros W _ _. destruct L1 as (E & AT); [lia|].
      destruct AT as (m & rest & q & -> & T & Hq & X); [lia|]. exists m, rest, q. refine (conj eq_refl (conj T (conj Hq _))).
      replace (S d' - 1)%nat with d' by lia. lia.
Qed.

Lemma srch_ok : forall f d, (d < f)%nat -> rec_ok d (srch pinned basis cfg 0 f).
Proof.
  induction f; intros d Hd; [lia|]. cbn [srch]. destruct d as [|d'].
  - apply srch_step_ok_0.
  - apply srch_step_ok_S. apply IHf. lia.
Qed.

(* ---- Analyze ---- *)
Hypothesis Hbound : forall p, Pos p -> MinEval <= eval p <= MaxEval.

Lemma nm_bounds : forall d p, Pos p -> MinEval <= nm d p <= MaxEval.
Proof.
  induction d; intros p Hp; [apply Hbound; assumption|].
  destruct (is_over p) eqn:EO; [rewrite (nmx_over basis eval (S d) p EO); apply Hbound; assumption|].
  destruct (nmx_attained basis eval d p EO (Hlive p Hp EO)) as (q & Hq & E). rewrite E.
  pose proof (IHd q (Hclosed p q Hp EO Hq)). unfold MinEval in *. lia.
Qed.

(* what Analyze reports when it reports a depth d > 0 *)
Definition exact_result (p : position) (pv : list rmove) (v d : Z) : Prop :=
  v = nm (Z.to_nat d) p /\
  exists m rest q, pv = m :: rest /\ try_move basis p m = Some q /\ In q (children basis p) /\ - nm (Z.to_nat d - 1) q = v.

Lemma az_iter_exact D p : Pos p -> forall n i s ms v acc d,
  SI s -> okl ms -> 1 <= i -> Z.of_nat n + i <= 17 -> d = i - 1 -> (0 < d -> exact_result p ms v d) ->
  forall sk pv' v' d' acc' c', az_iter pinned basis cfg 0 D 0 p n i s ms v acc d = (sk, (pv', v', d', acc', c')) ->
  SI sk /\ (0 < d' -> exact_result p pv' v' d').
Proof.
  intros Hp. induction n; intros i s ms v acc d HS Hms Hi Hn Hd Hgood sk pv' v' d' acc' c' H; cbn [az_iter] in H.
  { inversion H; subst. split; assumption. }
  destruct (D <? i + 0); [inversion H; subst; split; assumption|].
  rewrite Z.add_0_r in H.
  pose proof (srch_ok 40 (Z.to_nat i) ltac:(lia) false (reset_st s) p 0 ms (MinEval - 1) (MaxEval + 1) true
                (SI_reset_st s HS) Hp Hms ltac:(intros _; unfold MinEval, MaxEval; lia)) as R.
  cbv zeta in R. rewrite (Z2Nat.id i ltac:(lia)) in R.
  destruct (srch pinned basis cfg 0 40 false (reset_st s) p 0 i ms (MinEval - 1) (MaxEval + 1) true) as [s1 [next nv]].
  cbn [fst snd] in R. destruct R as (HS1 & Hnext & HOV & PV & HD).
  rewrite canc0 in H. destruct next as [|m rest]; [inversion H; subst; split; assumption|].
  assert (EO : is_over p = false) by (destruct (is_over p); [specialize (HOV eq_refl); discriminate HOV|reflexivity]).
  pose proof (nm_bounds (Z.to_nat i) p Hp) as NB.
  assert (W : MinEval - 1 < nm (Z.to_nat i) p < MaxEval + 1) by lia.
  assert (GOOD : exact_result p (m :: rest) nv i).
  { destruct PV as (_ & P2 & _). split; [apply P2; exact W|].
    destruct (HD W EO ltac:(lia)) as (m0 & rest0 & q & E & T & Hq & X). exists m0, rest0, q.
    refine (conj E (conj T (conj Hq _))). rewrite (P2 W). exact X. }
  destruct ((WinThreshold <? nv) || (nv <? - WinThreshold)).
  - inversion H; subst. split; [assumption|]. intros _. exact GOOD.
  - apply (IHn (i + 1) s1 (m :: rest) nv _ i HS1 Hnext ltac:(lia) ltac:(lia) ltac:(lia) ltac:(intros _; exact GOOD) _ _ _ _ _ _ H).
Qed.

Lemma SI_az_start s : SI s -> SI (az_start s).
Proof. intros H; exact H. Qed.

(* C05, clause 1.  Engine restricted to its value-preserving options (MakePrecise), no transposition table, any sort setting, any
   engine state left by earlier calls (SI: no table; the history/response/frame contents are arbitrary apart from not containing the
   Pass move), never cancelled, any configured depth D: whenever Analyze reports a depth d > 0, the value it reports is the exhaustive
   negamax value of the position to depth d under the same evaluation function, and the first move of its principal variation attains it.
   The engine state afterwards satisfies SI again (so the statement applies to every later call on the same engine). *)
Theorem analyze_precise_exact : forall D s p sk pv v d acc c,
  SI s -> Pos p ->
  analyze_depth pinned basis cfg 0 D s p = (sk, (pv, v, d, acc, c)) ->
  SI sk /\ (0 < d -> exact_result p pv v d).
Proof.
  intros D s p sk pv v d acc c HS Hp H. unfold analyze_depth in H.
  assert (ER : az_root pinned (az_start s) p = (0, [], 0)).
  { unfold az_root, tt_get. rewrite (proj1 (SI_az_start s HS)). reflexivity. }
  rewrite ER in H.
  apply (az_iter_exact D p Hp 16 1 (az_start s) [] 0 stats0 0 (SI_az_start s HS) ltac:(constructor) ltac:(lia) ltac:(cbn; lia) ltac:(lia)
           ltac:(intros F; lia) _ _ _ _ _ _ H).
Qed.
End Exact.

(* ---- the statement exported to Properties/C05.v: the repaired code (pinned = false), entry point analyze_search ---- *)
Definition precise (cfg : config) : Prop := c_nonull cfg = true /\ c_noreduce cfg = true /\ c_multicut cfg = false.

(* the facts about the rules engine and the evaluator that the theorem assumes, on a set Pos of positions closed under legal moves *)
Definition rules_facts (basis : list N) (cfg : config) (Pos : position -> Prop) : Prop :=
  (forall p q, Pos p -> is_over p = false -> In q (children basis p) -> Pos q) /\
  (forall p m q, Pos p -> is_over p = false -> okm m -> try_move basis p m = Some q -> In q (children basis p)) /\
  (forall p, Pos p -> is_over p = false -> children basis p <> []) /\
  (forall p, Pos p -> MinEval <= c_eval cfg p <= MaxEval).

Lemma analyze_precise_exact_fixed : forall basis cfg Pos, precise cfg -> rules_facts basis cfg Pos ->
  forall s p sk pv v d acc c, SI s -> Pos p ->
  analyze_search basis cfg s p = (sk, (pv, v, d, acc, c)) ->
  SI sk /\ (0 < d -> exact_result basis cfg p pv v d).
Proof.
  intros basis cfg Pos (P1 & P2 & P3) (R1 & R2 & R4 & R5) s p sk pv v d acc c HS Hp H.
  exact (analyze_precise_exact false basis cfg P1 P2 P3 Pos R1 R2 R4 R5 (c_depth cfg) s p sk pv v d acc c HS Hp H).
Qed.

(* the assumptions are jointly satisfiable (they are not contradictory): winner-only evaluation, Pos = the finished games *)
Lemma evaluate_winner_bounded p : MinEval <= evaluate_winner p <= MaxEval.
Proof.
  unfold evaluate_winner. destruct (game_over p) as [[[] w]|]; try (unfold MinEval, MaxEval; lia).
  destruct w; try (unfold MinEval, MaxEval; lia);
    match goal with |- context [if ?c then _ else _] => destruct c end; unfold MinEval, MaxEval; cbn; lia.
Qed.
Lemma rules_facts_consistent basis depth nosort :
  let cfg := {| c_depth := depth; c_nosort := nosort; c_nonull := true; c_noreduce := true; c_multicut := false; c_eval := evaluate_winner |} in
  precise cfg /\ rules_facts basis cfg (fun p => is_over p = true).
Proof.
  cbv zeta. split; [repeat split|]. unfold rules_facts. cbn [c_eval].
  repeat split; try (intros; congruence); intros; apply evaluate_winner_bounded.
Qed.
