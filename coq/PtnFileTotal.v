(* Totality (never Panic) of the PTN file entry point: ParsePTN on every byte string, InitialPosition, and the replay
   through the Iterator / PositionAtMove.  Used by C12 (ptn_file_total) and C13. *)
From Coq Require Import NArith ZArith List Bool Lia Ascii.
Require Import Board Move GameOver PtnMove Playtak Tps PtnFile PtnFileFacts PtnFileIter.
Import ListNotations.
Local Open Scope char_scope.
Local Open Scope N_scope.

(* ---------- ParsePTN ---------- *)
Lemma read_events_total f : forall s acc, read_events f s acc <> Panic.
Proof.
  induction f as [|f IH]; intros s acc; cbn [read_events]; [discriminate|].
  destruct (skip_ws s) as [|c r]; [discriminate|].
  destruct (negb (c =? B "[")); [discriminate|].
  destruct (read_until (B "]") r []) as [[line rest]|]; [|discriminate].
  destruct (split_n2 line []) as [|a [|b [|? ?]]]; try discriminate. apply IH.
Qed.

Lemma rev_nonempty {A} (l : list A) : l <> [] -> rev l <> [].
Proof. intros H E. apply H. rewrite <- (rev_involutive l), E. reflexivity. Qed.

Lemma take_comment_ne s : forall acc, acc <> [] -> fst (take_comment s acc) <> [].
Proof.
  induction s as [|c r IH]; intros acc H; cbn [take_comment].
  - cbn [fst]. apply rev_nonempty; exact H.
  - destruct (c =? B "}"); [cbn [fst]; apply rev_nonempty; discriminate|]. apply IH. discriminate.
Qed.
Lemma take_until_space_ne s : forall acc, acc <> [] -> fst (take_until_space s acc) <> [].
Proof.
  induction s as [|c r IH]; intros acc H; cbn [take_until_space].
  - cbn [fst]. apply rev_nonempty; exact H.
  - destruct (is_space c); [cbn [fst]; apply rev_nonempty; exact H|]. apply IH. discriminate.
Qed.

Lemma tokens_nonempty f : forall s, Forall (fun t => t <> []) (tokens f s).
Proof.
  induction f as [|f IH]; intros s; cbn [tokens]; [constructor|].
  pose proof (skip_ws_head s) as H. destruct (skip_ws s) as [|c r]; [constructor|].
  destruct (c =? B "{").
  - destruct (take_comment (c :: r) []) as [t rest] eqn:E. constructor; [|apply IH].
    change t with (fst (t, rest)). rewrite <- E. cbn [take_comment].
    destruct (c =? B "}"); [cbn [fst rev app]; discriminate|]. apply take_comment_ne. discriminate.
  - destruct (take_until_space (c :: r) []) as [t rest] eqn:E. constructor; [|apply IH].
    change t with (fst (t, rest)). rewrite <- E. cbn [take_until_space]. rewrite H. apply take_until_space_ne. discriminate.
Qed.

Lemma read_moves_total toks : Forall (fun t => t <> []) toks -> forall acc, read_moves toks acc <> Panic.
Proof.
  induction 1 as [|t toks Ht F IH]; intros acc; cbn [read_moves]; [discriminate|].
  destruct t as [|c0 t']; [contradiction|].
  destruct (c0 =? B "{").
  - destruct ((length (c0 :: t') <? 2)%nat || negb (last (c0 :: t') 0 =? B "}")); [discriminate|apply IH].
  - destruct (last (c0 :: t') 0 =? B ".").
    + destruct (atoi (removelast (c0 :: t'))); [apply IH|discriminate].
    + destruct (is_result (c0 :: t')); [apply IH|].
      cbv zeta. destruct (parse_move _); try discriminate. apply IH.
Qed.

Theorem parse_ptn_total s : parse_ptn s <> Panic.
Proof.
  unfold parse_ptn. destruct s as [|c s']; [discriminate|].
  set (s := match c :: s' with 239 :: 187 :: 191 :: r => r | _ => c :: s' end).
  pose proof (read_events_total (S (length s)) s []) as H.
  destruct (read_events (S (length s)) s []) as [[tg rest]| |]; [|discriminate|contradiction].
  pose proof (read_moves_total _ (tokens_nonempty (S (length rest)) rest) []) as H2.
  destruct (read_moves (tokens (S (length rest)) rest) []); [discriminate|discriminate|contradiction].
Qed.

(* ---------- the replay, relative to an invariant of positions ---------- *)
Section Replay.
Variable basis : list N.
Variable Inv : position -> Prop.
Hypothesis step_ok : forall p m, Inv p ->
  match pmove basis p m with Panic => False | Err => True | Ok q => Inv q /\ game_over q <> None end.

Definition need (it : iter) : nat := if it_err it || it_over it then 1%nat else (length (it_ops it) + 2)%nat.

Lemma scan_len os : forall mk, let '(rest, _, pend) := scan os mk in
  match pend with Some _ => (length rest < length os)%nat | None => True end.
Proof.
  induction os as [|o os IH]; intros mk; cbn [scan]; [exact I|].
  destruct o as [n|m md|c|r]; cbn [length].
  - specialize (IH n). destruct (scan os n) as [[rest mk'] [m'|]]; [lia|exact I].
  - lia.
  - specialize (IH mk). destruct (scan os mk) as [[rest mk'] [m'|]]; [lia|exact I].
  - specialize (IH mk). destruct (scan os mk) as [[rest mk'] [m'|]]; [lia|exact I].
Qed.

Lemma next_ok it : Inv (it_pos it) ->
  exists b it', next basis it = Ok (b, it') /\ Inv (it_pos it') /\ (b = true -> (need it' < need it)%nat).
Proof.
  intros I0. unfold next, need. destruct (it_err it || it_over it) eqn:L.
  - exists false, it. split; [reflexivity|]. split; [exact I0|]. discriminate.
  - assert (SC : forall it1, it_ops it1 = it_ops it -> Inv (it_pos it1) ->
      exists b it', (let '(rest, marker, pend) := scan (it_ops it1) (it_marker it1) in
         match pend with
         | Some m => Ok (true, {| it_ops := rest; it_pos := it_pos it1; it_marker := marker; it_pending := Some m; it_over := false; it_err := false |})
         | None => Ok (true, {| it_ops := rest; it_pos := it_pos it1; it_marker := marker; it_pending := None; it_over := true; it_err := false |})
         end) = Ok (b, it') /\ Inv (it_pos it') /\
        (b = true -> ((if it_err it' || it_over it' then 1 else length (it_ops it') + 2) < length (it_ops it) + 2)%nat)).
    { intros it1 E1 I1. pose proof (scan_len (it_ops it1) (it_marker it1)) as SL.
      destruct (scan (it_ops it1) (it_marker it1)) as [[rest mk'] [m'|]].
      - eexists _, _. split; [reflexivity|]. split; [exact I1|]. intros _. cbn. rewrite <- E1. lia.
      - eexists _, _. split; [reflexivity|]. split; [exact I1|]. intros _. cbn. lia. }
    unfold apply_pending. destruct (it_pending it) as [m|].
    + pose proof (step_ok (it_pos it) (to_rmove m) I0) as ST.
      destruct (pmove basis (it_pos it) (to_rmove m)) as [q| |]; [|eexists _, _; split; [reflexivity|]; split; [exact I0|discriminate]|contradiction].
      destruct ST as [Iq G]. destruct (game_over q) as [[[|] c]|]; [| |contradiction].
      * eexists _, _. split; [reflexivity|]. split; [exact Iq|]. intros _. cbn. rewrite orb_true_r. lia.
      * apply (SC (applied it q)); [reflexivity|exact Iq].
    + apply (SC it); [reflexivity|exact I0].
Qed.

Lemma replay_loop_total fuel : forall it count, Inv (it_pos it) -> (need it <= fuel)%nat -> replay_loop basis fuel it count <> Panic.
Proof.
  induction fuel as [|f IH]; intros it count I0 N0.
  - unfold need in N0. destruct (it_err it || it_over it); lia.
  - cbn [replay_loop]. destruct (next_ok it I0) as (b & it' & E & I1 & D). rewrite E.
    destruct b; [|discriminate]. apply IH; [exact I1|]. specialize (D eq_refl). lia.
Qed.

Lemma pam_loop_total fuel mv white : forall it, Inv (it_pos it) -> (need it <= fuel)%nat -> pam_loop basis fuel it mv white <> Panic.
Proof.
  induction fuel as [|f IH]; intros it I0 N0.
  - unfold need in N0. destruct (it_err it || it_over it); lia.
  - cbn [pam_loop]. destruct (next_ok it I0) as (b & it' & E & I1 & D). rewrite E.
    destruct b; [|discriminate]. destruct (hit mv (it_marker it') white (it_pos it')); [discriminate|].
    apply IH; [exact I1|]. specialize (D eq_refl). lia.
Qed.

Theorem replay_total g p0 : Inv p0 -> replay_all basis g p0 <> Panic.
Proof. intros I0. apply replay_loop_total; [exact I0|]. cbn. lia. Qed.

Theorem position_at_move_total g mv color : (forall p0, initial_position basis g = Ok p0 -> Inv p0) ->
  initial_position basis g <> Panic -> position_at_move basis g mv color <> Panic.
Proof.
  intros HI HP. unfold position_at_move.
  destruct (match color with Some _ => false | None => negb (mv =? 0)%Z end); [discriminate|].
  destruct (initial_position basis g) as [p0| |]; [|discriminate|contradiction].
  pose proof (pam_loop_total (S (S (length (ops g)))) mv (match color with Some w => w | None => true end) (iterator g p0) (HI p0 eq_refl)) as T.
  destruct (pam_loop basis (S (S (length (ops g)))) (iterator g p0) mv _) as [[p|it]| |].
  - discriminate.
  - destruct (it_err it); [discriminate|]. destruct (0 <? mv)%Z; discriminate.
  - discriminate.
  - exfalso. apply T; [cbn; lia|reflexivity].
Qed.
End Replay.
