(* C14/C08, the IMPORT paths of positions, part 3: the symmetry images symmetry.Symmetries rebuilds through FromSquares.
   (1) image_pos_ok: for ANY coordinate map s, the rebuilt position satisfies the C01 invariant when p does.
   (2) image_abs: for the k-th of the eight symmetries, the rebuilt position abstracts to SymRules2.img k (abs p) -
       the missing link between the code-shaped Symmetry.image and the specification-level image - provided the
       reserves of p are the default counts minus the pieces on its board (FromSquares recomputes them from tak.New's
       defaults) and p's tie-break flag is the default (the model of FromSquares builds on tak.New with the default
       configuration).  The squares, size and ply need neither hypothesis (image_abs_board).
   (3) the image satisfies reserves_match_board again (image_reserves_match). *)
From Coq Require Import NArith ZArith Arith List Bool Lia ZifyN ZifyBool ZifyNat Permutation.
Require Import Rules Sym SymRules1 SymRules2.
Require Import Board Stack Move Refine RefinePlace RefinePlace2 RefinePlace3 Slide1 Slide2 Slide3 Slide4 Slide5 Slide6 Slide7 Slide8
  MoveRefines HashInv GameOver Preserve1 Preserve2 PreserveExt Preserve3 Preserve4 Preserve5 Preserve6 Reach1 HashMove1.
Require Import Alloc Generated.Consts.
Require Import PtnMove Playtak Tps Symmetry SymCode1 TpsFacts TpsFacts2 TpsFacts3 TpsFacts4 TpsFacts5 TpsFacts6 TpsFacts8 TpsFacts9 Import1.
Import ListNotations.
Close Scope Z_scope. Close Scope N_scope.

(* ---- Symmetry.image, with its parts named ---- *)
Definition coords (n : nat) : list (nat * nat) := flat_map (fun x => map (fun y => (x, y)) (seq 0 n)) (seq 0 n).

Definition hits (s : symfn) (rx ry : nat) (xy : nat * nat) : bool :=
  let '(ix, iy) := s (Z.of_nat (fst xy)) (Z.of_nat (snd xy)) in ((ix =? Z.of_nat rx) && (iy =? Z.of_nat ry))%Z.

Definition img_cell (p : position) (s : symfn) (rx ry : nat) : list pc :=
  let n := N.to_nat (size p) in
  match find (hits s rx ry) (coords n) with
  | Some (x, y) => at_sq p (N.of_nat (x + y * n))
  | None => []
  end.

Definition img_board (p : position) (s : symfn) : list (list (list pc)) :=
  let n := N.to_nat (size p) in map (fun ry => map (fun rx => img_cell p s rx ry) (seq 0 n)) (seq 0 n).

Lemma image_unfold basis p s : image basis p s = from_squares basis (size p) (img_board p s) (Move.move p).
Proof. reflexivity. Qed.

Lemma image_eq p s : image gen_basis p s = from_squares gen_basis (N.of_nat (N.to_nat (size p))) (img_board p s) (Move.move p).
Proof. rewrite N2Nat.id. reflexivity. Qed.

(* the k-th entry of the table, as Symmetry.symmetries spells it *)
Lemma nth_syms_csym p k : nth k (syms (Z.of_N (size p))) (fun x y => (x, y)) = csym (N.to_nat (size p)) k.
Proof. unfold csym, idsym. now rewrite N_nat_Z. Qed.

(* ---- (1) every rebuilt board fits ---- *)
Lemma at_sq_fit p i : pos_ok p -> fit_cell (at_sq p i).
Proof.
  intros Hp. destruct (at_sq_wf p i) as [E|W]; [now left|].
  destruct (at_sq_length p i) as [E|L]; [now left|]. right. split; [exact W|]. rewrite L.
  destruct (N.lt_ge_cases i (size p * size p)) as [H|H].
  - destruct Hp as [_ [_ _ SQ] _ _]. destruct (SQ i H) as [Hh _ _ _ _]. cbn [bview bhs] in Hh. lia.
  - destruct Hp as [Hs [LH _ _] _ _]. cbn [bview bhs] in LH. unfold nthN. rewrite nth_overflow; [lia|].
    rewrite LH. unfold nsq. lia.
Qed.

Lemma img_board_fit p s : pos_ok p -> fit_board (N.to_nat (size p)) (img_board p s).
Proof.
  intros Hp. pose proof (po_size _ Hp) as Hs. unfold img_board. cbv zeta. constructor.
  - lia.
  - now rewrite map_length, seq_length.
  - apply Forall_forall. intros row Hr. apply in_map_iff in Hr as (ry & <- & _). now rewrite map_length, seq_length.
  - apply Forall_forall. intros row Hr. apply in_map_iff in Hr as (ry & <- & _).
    apply Forall_forall. intros sq Hsq. apply in_map_iff in Hsq as (rx & <- & _).
    unfold img_cell. cbv zeta. destruct (find _ _) as [[x y]|]; [now apply at_sq_fit|now left].
Qed.

Theorem image_pos_ok p s : pos_ok p -> pos_ok (image gen_basis p s).
Proof. intros Hp. rewrite image_eq. apply from_squares_pos_ok. now apply img_board_fit. Qed.
Print Assumptions image_pos_ok.

Lemma image_fields p s : pos_ok p ->
  size (image gen_basis p s) = size p /\ Move.move (image gen_basis p s) = Move.move p /\ Move.black_wins_ties (image gen_basis p s) = false.
Proof.
  intros Hp. rewrite image_unfold. destruct (fs_facts _ _ (Move.move p) (img_board_fit p s Hp)) as (E1 & E2 & E3 & _).
  rewrite N2Nat.id in E1, E2, E3. auto.
Qed.

(* ---- (2) the cells of the k-th image are the permuted cells ---- *)
Lemma find_unique {A} (f : A -> bool) (a : A) : forall l, In a l -> f a = true ->
  (forall b, In b l -> f b = true -> b = a) -> find f l = Some a.
Proof.
  induction l as [|b l IH]; intros Hin Ha Hu; [destruct Hin|]. cbn [find].
  destruct (f b) eqn:E.
  - f_equal. apply Hu; [now left|exact E].
  - destruct Hin as [->|Hin]; [congruence|]. apply IH; auto. intros c Hc. apply Hu. now right.
Qed.

Lemma in_coords n x y : In (x, y) (coords n) <-> x < n /\ y < n.
Proof.
  unfold coords. rewrite in_flat_map. split.
  - intros (x' & Hx & Hy). apply in_map_iff in Hy as (y' & E & Hy). injection E as -> ->.
    apply in_seq in Hx, Hy. lia.
  - intros [Hx Hy]. exists x. split; [apply in_seq; lia|]. apply in_map_iff. exists y. split; [reflexivity|apply in_seq; lia].
Qed.

Lemma img_cell_csym p k i : let n := N.to_nat (size p) in k < 8 -> size_ok n -> i < n * n ->
  img_cell p (csym n k) (i mod n) (i / n) = at_sq p (N.of_nat (src k n i)).
Proof.
  intros n Hk Hs Hi. unfold img_cell. fold n. cbv zeta.
  assert (Hc : onb n (SymRules1.cell n i)) by (apply cell_onb; assumption).
  assert (Hik : Sym.inv k < 8) by now apply inv_lt.
  pose proof (symb_onb n (Sym.inv k) _ Hik Hc) as H0.
  pose proof (symb_inv_r n k (SymRules1.cell n i) Hk) as Hr.
  unfold src. destruct (symb n (Sym.inv k) (SymRules1.cell n i)) as [x0 y0] eqn:E0.
  unfold onb in H0. cbn [fst snd] in H0. destruct H0 as [Hx0 Hy0].
  assert (Hn8 : n <= 8) by (unfold size_ok in Hs; lia).
  rewrite (find_unique _ (Z.to_nat x0, Z.to_nat y0)).
  - unfold zidx. cbn [fst snd]. reflexivity.
  - apply in_coords. lia.
  - unfold hits. cbn [fst snd]. rewrite !Z2Nat.id by lia. rewrite csym_sym by (assumption || lia).
    change (sym (Z.of_nat n) k (x0, y0)) with (symb n k (x0, y0)). rewrite Hr. unfold SymRules1.cell.
    now rewrite !Z.eqb_refl.
  - intros [x y] Hin Hh. apply in_coords in Hin. unfold hits in Hh. cbn [fst snd] in Hh.
    rewrite csym_sym in Hh by (assumption || lia).
    change (sym (Z.of_nat n) k (Z.of_nat x, Z.of_nat y)) with (symb n k (Z.of_nat x, Z.of_nat y)) in Hh.
    destruct (symb n k (Z.of_nat x, Z.of_nat y)) as [ix iy] eqn:E1.
    apply andb_prop in Hh as [H1 H2]. apply Z.eqb_eq in H1, H2. subst ix iy.
    assert (E2 : symb n (Sym.inv k) (symb n k (Z.of_nat x, Z.of_nat y)) = (x0, y0)).
    { rewrite E1. exact E0. }
    rewrite symb_inv_l in E2 by exact Hk. injection E2 as <- <-. now rewrite !Nat2Z.id.
Qed.

Lemma rows_concat (g : nat -> nat -> list pc) n :
  concat (map (fun ry => map (fun rx => g rx ry) (seq 0 n)) (seq 0 n)) = map (fun i => g (i mod n) (i / n)) (seq 0 (n * n)).
Proof.
  destruct n as [|n']; [reflexivity|]. set (n := S n').
  rewrite <- flat_map_id_concat, <- (flat_rows (fun i => g (i mod n) (i / n)) n n).
  f_equal. apply map_ext. intros ry. apply map_ext_in. intros rx Hrx. apply in_seq in Hrx.
  rewrite Nat.mod_add, Nat.div_add, Nat.mod_small, Nat.div_small by (subst n; lia). reflexivity.
Qed.

Lemma img_board_cells p k : let n := N.to_nat (size p) in k < 8 -> size_ok n ->
  concat (img_board p (csym n k)) = permL k n [] (cells_of p).
Proof.
  intros n Hk Hs. subst n. unfold img_board. cbv zeta.
  rewrite (rows_concat (fun rx ry => img_cell p (csym (N.to_nat (size p)) k) rx ry) (N.to_nat (size p))).
  unfold permL. apply map_ext_in. intros i Hi. apply in_seq in Hi.
  rewrite (img_cell_csym p k i Hk Hs) by lia.
  rewrite cells_of_nth; [reflexivity|]. apply src_lt; try assumption. lia.
Qed.

(* ---- the cells of a position satisfying the invariant are its abstract squares ---- *)
Lemma map_piece_pc l : map piece_of (map pc_of l) = l.
Proof. rewrite map_map. rewrite <- (map_id l) at 2. apply map_ext. apply piece_of_pc_of. Qed.

Lemma cells_abs p : pos_ok p -> map (map piece_of) (cells_of p) = sq (abs p).
Proof.
  intros Hp. pose proof (pos_ok_rep_ok p Hp) as R. pose proof (po_size _ Hp) as Hs.
  unfold cells_of, abs. cbv zeta. cbn [sq]. rewrite map_map. apply map_ext_in. intros i Hi. apply in_seq in Hi.
  rewrite at_sq_abs; [apply map_piece_pc|nia|]. apply (ro_sq _ _ R). nia.
Qed.

Lemma permL_map {A B} (f : A -> B) k s d l : map f (permL k s d l) = permL k s (f d) (map f l).
Proof. unfold permL. rewrite map_map. apply map_ext. intros i. symmetry. apply map_nth. Qed.

Lemma count_concat_perm f : forall l l' : list (list pc), Permutation l l' -> count f (concat l) = count f (concat l').
Proof.
  induction 1 as [|a l l' _ IH|a b l|l l' l'' _ IH1 _ IH2]; cbn [concat]; rewrite ?count_app; try lia.
Qed.

(* the squares, size and ply of the image: no hypothesis on reserves or flag *)
Theorem image_abs_board k p : k < 8 -> pos_ok p ->
  let q := image gen_basis p (csym (N.to_nat (size p)) k) in
  Rules.n (abs q) = Rules.n (img k (abs p)) /\ sq (abs q) = sq (img k (abs p)) /\ ply (abs q) = ply (img k (abs p)).
Proof.
  intros Hk Hp q. pose proof (po_size _ Hp) as Hs.
  assert (Hso : size_ok (N.to_nat (size p))) by (unfold size_ok; lia).
  destruct (image_fields p (csym (N.to_nat (size p)) k) Hp) as (E1 & E2 & _). fold q in E1, E2.
  split; [unfold abs, img; cbn [Rules.n]; now rewrite E1|]. split; [|unfold abs, img; cbn [ply]; exact E2].
  subst q. rewrite image_eq.
  rewrite (from_squares_abs_sq _ _ _ (img_board_fit p _ Hp)).
  rewrite (img_board_cells p k Hk Hso), permL_map. cbn [map]. rewrite (cells_abs p Hp). reflexivity.
Qed.

Lemma image_counts k p f : k < 8 -> pos_ok p ->
  count f (pieces_of (img_board p (csym (N.to_nat (size p)) k))) = TpsFacts5.on_board f p.
Proof.
  intros Hk Hp. pose proof (po_size _ Hp) as Hs.
  assert (Hso : size_ok (N.to_nat (size p))) by (unfold size_ok; lia).
  unfold pieces_of, TpsFacts5.on_board. rewrite (img_board_cells p k Hk Hso).
  apply count_concat_perm. apply permL_perm; try assumption. apply cells_of_length.
Qed.

Theorem image_abs k p : k < 8 -> pos_ok p -> reserves_match_board p -> Move.black_wins_ties p = false ->
  abs (image gen_basis p (csym (N.to_nat (size p)) k)) = img k (abs p).
Proof.
  intros Hk Hp RM Hb. pose proof (po_size _ Hp) as Hs.
  destruct (image_abs_board k p Hk Hp) as (_ & Esq & _). cbv zeta in Esq.
  set (s := csym (N.to_nat (size p)) k) in *.
  pose proof (img_board_fit p s Hp) as FB.
  destruct RM as (L1 & R1 & L2 & R2 & L3 & R3 & L4 & R4).
  assert (CF : counts_fit (N.to_nat (size p)) (img_board p s)).
  { unfold counts_fit. subst s. rewrite !(image_counts k p) by assumption. auto. }
  rewrite image_eq in *. rewrite (from_squares_abs _ _ _ FB CF) in *.
  unfold board_apos in *. cbn [sq] in Esq. rewrite Esq.
  subst s. rewrite !(image_counts k p) by assumption.
  unfold img, abs. cbn [Rules.n sq wstones wcaps bstones bcaps ply Rules.black_wins_ties].
  rewrite R1, R2, R3, R4, Hb. reflexivity.
Qed.
Print Assumptions image_abs.

(* in the spelling of Symmetry.symmetries *)
Corollary image_abs_nth k p : k < 8 -> pos_ok p -> reserves_match_board p -> Move.black_wins_ties p = false ->
  abs (image gen_basis p (nth k (syms (Z.of_N (size p))) (fun x y => (x, y)))) = img k (abs p).
Proof. intros. rewrite nth_syms_csym. now apply image_abs. Qed.

(* ---- (3) the image has matching reserves again ---- *)
Lemma fit_valid n board : fit_board n board -> valid_board n board.
Proof.
  intros [A B C D]. constructor; try assumption.
  eapply Forall_impl; [|exact D]. intros row Hrow. eapply Forall_impl; [|exact Hrow].
  intros sq [->|[W L]]; [now left|right]. split; [exact W|]. split; [lia|].
  intros j Hj. rewrite nth_overflow by lia. reflexivity.
Qed.

Theorem from_squares_reserves_match n board mv : fit_board n board -> counts_fit n board ->
  reserves_match_board (from_squares gen_basis (N.of_nat n) board mv).
Proof.
  intros FB (C1 & C2 & C3 & C4).
  destruct (canon_facts gen_basis n board mv (fit_valid n board FB)) as (E1 & _ & _ & Eb).
  destruct (fs_reserves n board mv FB) as (R1 & R2 & R3 & R4).
  set (q := from_squares gen_basis (N.of_nat n) board mv) in *.
  assert (Ec : forall f, TpsFacts5.on_board f q = count f (pieces_of board)).
  { intros f. unfold TpsFacts5.on_board, pieces_of. now rewrite <- cells_board, Eb, flat_map_id_concat. }
  unfold reserves_match_board, dflt_pieces, dflt_caps. rewrite !Ec, E1, Nat2N.id, R1, R2, R3, R4.
  fold (dp n). fold (dc n).
  rewrite !dec8_sub by (assumption || apply default_pieces_lt || apply default_caps_lt). repeat split; assumption.
Qed.

Theorem image_reserves_match k p : k < 8 -> pos_ok p -> reserves_match_board p ->
  reserves_match_board (image gen_basis p (csym (N.to_nat (size p)) k)).
Proof.
  intros Hk Hp (L1 & R1 & L2 & R2 & L3 & R3 & L4 & R4). rewrite image_eq.
  apply from_squares_reserves_match; [now apply img_board_fit|].
  unfold counts_fit. rewrite !(image_counts k p) by assumption. auto.
Qed.
Print Assumptions image_reserves_match.
