(* SearchTable1.v: the TABLE CLAUSE of C05, part 1 - the specification side and the transposition-table lemmas.

   Specification (rules game: NegamaxSpec.children, Search.is_over, GameOver.game_over):
     W n p  = the side to move at p wins within n plies whatever the opponent does,
     L n p  = the side to move at p is lost within n plies whatever it does        (mutually, by recursion on n).
   They do not depend on the ply counter other than through the rules (terminal scores do: an entry of the table is NOT the exact
   negamax value of every position it serves, only its decisive classification is path independent - which is why the table
   invariant below talks about W and L only).

   Table invariant tt_valid: every entry e of the table and every live position q of the set the calls may touch with
   phash q = e_hash e satisfy ent_ok e q:
     value >  WinThreshold, bound lower|exact  ->  exists n, W n q          (soundness half)
     value < -WinThreshold, bound upper|exact  ->  exists n, L n q
     value <=  WinThreshold, bound upper|exact  ->  ~ W (depth e) q           (completeness half: searched that deep, no win found)
     value >= -WinThreshold, bound lower|exact  ->  ~ L (depth e) q
   NoCollision is a HYPOTHESIS (NoColl, stated the way DfpnFacts.S_hash is): positions of the set with equal hash have the same
   classification.  *)
From Coq Require Import NArith ZArith List Bool Lia.
Require Import Board Move GameOver Eval EvalSpec Search NegamaxSpec SearchGen SearchExact SearchLegal2.
Import ListNotations.
Open Scope Z_scope.

(* ---------- the game-theoretic classification ---------- *)
Section Cls.
Variable basis : list N.

(* a finished game, seen from the side to move *)
Definition won (p : position) : Prop := exists w, game_over p = Some (true, w) /\ mover_wins p w = true.
Definition lost (p : position) : Prop := exists w, game_over p = Some (true, w) /\ w <> GNone /\ mover_wins p w = false.

Fixpoint W (n : nat) (p : position) {struct n} : Prop :=
  if is_over p then won p else
  match n with O => False | S m => exists q, In q (children basis p) /\ L m q end
with L (n : nat) (p : position) {struct n} : Prop :=
  if is_over p then lost p else
  match n with O => False | S m => children basis p <> [] /\ forall q, In q (children basis p) -> W m q end.

Definition Wany (p : position) : Prop := exists n, W n p.
Definition Lany (p : position) : Prop := exists n, L n p.

Lemma W_over n p : is_over p = true -> (W n p <-> won p).
Proof. intros H. destruct n; cbn [W]; rewrite H; reflexivity. Qed.
Lemma L_over n p : is_over p = true -> (L n p <-> lost p).
Proof. intros H. destruct n; cbn [L]; rewrite H; reflexivity. Qed.
Lemma W_live0 p : is_over p = false -> ~ W 0 p.
Proof. intros H. cbn [W]. rewrite H. intros F; exact F. Qed.
Lemma L_live0 p : is_over p = false -> ~ L 0 p.
Proof. intros H. cbn [L]. rewrite H. intros F; exact F. Qed.
Lemma W_liveS n p : is_over p = false -> (W (S n) p <-> exists q, In q (children basis p) /\ L n q).
Proof. intros H. cbn [W]. rewrite H. reflexivity. Qed.
Lemma L_liveS n p : is_over p = false -> (L (S n) p <-> children basis p <> [] /\ forall q, In q (children basis p) -> W n q).
Proof. intros H. cbn [L]. rewrite H. reflexivity. Qed.

Lemma won_over p : won p -> is_over p = true.
Proof. intros (w & G & _). unfold is_over. rewrite G. reflexivity. Qed.
Lemma lost_over p : lost p -> is_over p = true.
Proof. intros (w & G & _). unfold is_over. rewrite G. reflexivity. Qed.
Lemma won_lost p : won p -> lost p -> False.
Proof. intros (w & G & M) (w' & G' & _ & M'). rewrite G in G'. inversion G'; subst. rewrite M in M'. discriminate. Qed.

Global Opaque W L.

Lemma WL_mono : forall n p, (W n p -> W (S n) p) /\ (L n p -> L (S n) p).
Proof.
  induction n; intros p; destruct (is_over p) eqn:EO.
  - split; intros H.
    + apply (proj2 (W_over 1 p EO)). apply (proj1 (W_over 0 p EO)). exact H.
    + apply (proj2 (L_over 1 p EO)). apply (proj1 (L_over 0 p EO)). exact H.
  - split; intros H; [destruct (W_live0 p EO H)|destruct (L_live0 p EO H)].
  - split; intros H.
    + apply (proj2 (W_over (S (S n)) p EO)). apply (proj1 (W_over (S n) p EO)). exact H.
    + apply (proj2 (L_over (S (S n)) p EO)). apply (proj1 (L_over (S n) p EO)). exact H.
  - split; intros H.
    + apply (proj2 (W_liveS (S n) p EO)). apply (proj1 (W_liveS n p EO)) in H. destruct H as (q & Hq & HL).
      exists q. split; [exact Hq|]. apply (proj2 (IHn q)). exact HL.
    + apply (proj2 (L_liveS (S n) p EO)). apply (proj1 (L_liveS n p EO)) in H. destruct H as (NE & H). split; [exact NE|].
      intros q Hq. apply (proj1 (IHn q)). apply H. exact Hq.
Qed.
Lemma W_le n m p : (n <= m)%nat -> W n p -> W m p.
Proof. induction 1; [auto|]. intros HW. apply (proj1 (WL_mono m p)). auto. Qed.
Lemma L_le n m p : (n <= m)%nat -> L n p -> L m p.
Proof. induction 1; [auto|]. intros HL. apply (proj2 (WL_mono m p)). auto. Qed.

(* nobody both wins and loses *)
Lemma WL_excl : forall n m p, (W n p -> L m p -> False) /\ (L n p -> W m p -> False).
Proof.
  induction n; intros m p; destruct (is_over p) eqn:EO.
  - split; intros H1 H2.
    + apply (proj1 (W_over 0 p EO)) in H1. apply (proj1 (L_over m p EO)) in H2. exact (won_lost p H1 H2).
    + apply (proj1 (L_over 0 p EO)) in H1. apply (proj1 (W_over m p EO)) in H2. exact (won_lost p H2 H1).
  - split; intros H1 _; [destruct (W_live0 p EO H1)|destruct (L_live0 p EO H1)].
  - split; intros H1 H2.
    + apply (proj1 (W_over (S n) p EO)) in H1. apply (proj1 (L_over m p EO)) in H2. exact (won_lost p H1 H2).
    + apply (proj1 (L_over (S n) p EO)) in H1. apply (proj1 (W_over m p EO)) in H2. exact (won_lost p H2 H1).
  - split; intros H1 H2.
    + destruct m; [destruct (L_live0 p EO H2)|].
      apply (proj1 (W_liveS n p EO)) in H1. apply (proj1 (L_liveS m p EO)) in H2. destruct H1 as (q & Hq & HL). destruct H2 as (_ & H2).
      exact (proj2 (IHn m q) HL (H2 q Hq)).
    + destruct m; [destruct (W_live0 p EO H2)|].
      apply (proj1 (L_liveS n p EO)) in H1. apply (proj1 (W_liveS m p EO)) in H2. destruct H2 as (q & Hq & HL). destruct H1 as (_ & H1).
      exact (proj1 (IHn m q) (H1 q Hq) HL).
Qed.
Lemma Wany_notL p m : Wany p -> ~ L m p.
Proof. intros (n & H) HL. exact (proj1 (WL_excl n m p) H HL). Qed.
Lemma Lany_notW p m : Lany p -> ~ W m p.
Proof. intros (n & H) HW. exact (proj2 (WL_excl n m p) H HW). Qed.

(* finitely many successors: one bound serves all *)
Lemma Wany_all (l : list position) : (forall q, In q l -> Wany q) -> exists n, forall q, In q l -> W n q.
Proof.
  induction l as [|c l IH]; intros H; [exists 0%nat; intros q []|].
  destruct (H c (or_introl eq_refl)) as (n1 & H1). destruct IH as (n2 & H2); [intros q Hq; apply H; right; exact Hq|].
  exists (Nat.max n1 n2). intros q [<-|Hq]; [apply (W_le n1); [lia|exact H1]|apply (W_le n2); [lia|apply H2; exact Hq]].
Qed.
Lemma Lany_live p : is_over p = false -> children basis p <> [] -> (forall q, In q (children basis p) -> Wany q) -> Lany p.
Proof. intros EO NE H. destruct (Wany_all _ H) as (n & Hn). exists (S n). apply (proj2 (L_liveS n p EO)). split; assumption. Qed.
Lemma Wany_live p q : is_over p = false -> In q (children basis p) -> Lany q -> Wany p.
Proof. intros EO Hq (n & H). exists (S n). apply (proj2 (W_liveS n p EO)). exists q. split; assumption. Qed.
Lemma notW_live d p : is_over p = false -> (forall q, In q (children basis p) -> ~ L (Z.to_nat (d - 1)) q) -> ~ W (Z.to_nat d) p.
Proof.
  intros EO H HW. destruct (Z.to_nat d) as [|n] eqn:E; [exact (W_live0 p EO HW)|].
  apply (proj1 (W_liveS n p EO)) in HW. destruct HW as (q & Hq & HL). apply (H q Hq). replace (Z.to_nat (d - 1)) with n by lia. exact HL.
Qed.
Lemma notL_live d p q : is_over p = false -> In q (children basis p) -> ~ W (Z.to_nat (d - 1)) q -> ~ L (Z.to_nat d) p.
Proof.
  intros EO Hq H HL. destruct (Z.to_nat d) as [|n] eqn:E; [exact (L_live0 p EO HL)|].
  apply (proj1 (L_liveS n p EO)) in HL. destruct HL as (_ & HL). apply H. replace (Z.to_nat (d - 1)) with n by lia. apply HL. exact Hq.
Qed.

(* what a search value r returned for the window (a, b) at remaining depth [depth] says: above a it is a lower bound, below b an
   upper bound (both: exact) *)
Definition vals_ok (p : position) (depth a b r : Z) : Prop :=
  (a < r -> WinThreshold < r -> Wany p) /\
  (r < b -> r < - WinThreshold -> Lany p) /\
  (r < b -> r <= WinThreshold -> ~ W (Z.to_nat depth) p) /\
  (a < r -> - WinThreshold <= r -> ~ L (Z.to_nat depth) p).

Definition lowerb (e : entry) : Prop := e_bound e = 0%N \/ e_bound e = 1%N.
Definition upperb (e : entry) : Prop := e_bound e = 1%N \/ e_bound e = 2%N.
Definition ent_ok (e : entry) (p : position) : Prop :=
  (WinThreshold < e_value e -> lowerb e -> Wany p) /\
  (e_value e < - WinThreshold -> upperb e -> Lany p) /\
  (e_value e <= WinThreshold -> upperb e -> ~ W (Z.to_nat (e_depth e)) p) /\
  (- WinThreshold <= e_value e -> lowerb e -> ~ L (Z.to_nat (e_depth e)) p).

Lemma ent_ok0 p : is_over p = false -> ent_ok entry0 p.
Proof.
  intros EO. unfold ent_ok, entry0, lowerb, upperb, WinThreshold. cbn [e_value e_bound e_depth].
  split; [intros F; lia|]. split; [intros F; lia|]. split; [intros _ [F|F]; discriminate F|].
  intros _ _. exact (L_live0 p EO).
Qed.

(* same classification *)
Definition cls_eq (p q : position) : Prop := forall n, (W n p <-> W n q) /\ (L n p <-> L n q).
Lemma cls_eq_ent e p q : cls_eq p q -> ent_ok e p -> ent_ok e q.
Proof.
  intros C (E1 & E2 & E3 & E4).
  split; [intros A B; destruct (E1 A B) as (n & H); exists n; apply C; exact H|].
  split; [intros A B; destruct (E2 A B) as (n & H); exists n; apply C; exact H|].
  split; [intros A B H; apply (E3 A B); apply C; exact H|intros A B H; apply (E4 A B); apply C; exact H].
Qed.

(* ---------- the table ---------- *)
Variable U : position -> Prop.         (* the positions the calls on this engine may touch *)
Hypothesis NoColl : forall p q, U p -> U q -> phash p = phash q -> cls_eq p q.

Definition good_entry (e : entry) : Prop := forall q, U q -> is_over q = false -> phash q = e_hash e -> ent_ok e q.
Definition tt_valid (s : sstate) : Prop := Forall good_entry (table s).
Definition TJ (s : sstate) : Prop := SJ s /\ tt_valid s.

Lemma good_entry0 : good_entry entry0.
Proof. intros q _ EO _. apply ent_ok0. exact EO. Qed.
Lemma good_of_ok e p : U p -> e_hash e = phash p -> ent_ok e p -> good_entry e.
Proof. intros Hp Hh Hok q Hq _ Eh. apply (cls_eq_ent e p q); [apply NoColl; [exact Hp|exact Hq|congruence]|exact Hok]. Qed.

Lemma tt_valid_nth s i : tt_valid s -> good_entry (nth i (table s) entry0).
Proof.
  intros H. destruct (nth_in_or_default i (table s) entry0) as [Hin|E]; [|rewrite E; apply good_entry0].
  unfold tt_valid in H. rewrite Forall_forall in H. apply H. exact Hin.
Qed.
Lemma tt_valid_new n : tt_valid (new_state n).
Proof. unfold tt_valid, new_state. cbn [table]. apply Forall_forall. intros e He. apply repeat_spec in He. subst. apply good_entry0. Qed.
Lemma TJ_new n : TJ (new_state n).
Proof. split; [apply SJ_new|apply tt_valid_new]. Qed.

Lemma TJ_bump s f : TJ s -> TJ (bump s f).
Proof. intros H; exact H. Qed.
Lemma TJ_set_fm s ply m : TJ s -> TJ (set_fm s ply m).
Proof. intros H; exact H. Qed.
Lemma TJ_count_eval s : TJ s -> TJ (count_eval s).
Proof. intros H; exact H. Qed.
Lemma TJ_reset_st s : TJ s -> TJ (reset_st s).
Proof. intros H; exact H. Qed.
Lemma TJ_az_start s : TJ s -> TJ (az_start s).
Proof. intros H; exact H. Qed.
Lemma TJ_set_fpv s ply arr : TJ s -> okl arr -> TJ (set_fpv s ply arr).
Proof. intros (A & B) H. split; [apply SJ_set_fpv; assumption|exact B]. Qed.
Lemma TJ_record_cut s m i d ply : TJ s -> okm m -> TJ (record_cut s m i d ply).
Proof. intros (A & B) H. split; [apply SJ_record_cut; assumption|exact B]. Qed.

Lemma tt_get_hash s h i : tt_get s h = Some i -> e_hash (nth i (table s) entry0) = h.
Proof.
  unfold tt_get. destruct (table s) eqn:ET; [discriminate|]. rewrite <- ET. destruct (tt_slots s h) as [i1 i2].
  destruct (e_hash (nth i1 (table s) entry0) =? h)%N eqn:E1; [intros E; inversion E; subst; apply N.eqb_eq; exact E1|].
  destruct (e_hash (nth i2 (table s) entry0) =? h)%N eqn:E2; [intros E; inversion E; subst; apply N.eqb_eq; exact E2|discriminate].
Qed.
(* the entry ttGet finds for a live position of the set speaks about that position *)
Lemma tt_get_ok s p i : tt_valid s -> U p -> is_over p = false -> tt_get s (phash p) = Some i -> ent_ok (nth i (table s) entry0) p.
Proof. intros H Hp EO E. apply (tt_valid_nth s i H p Hp EO). symmetry. apply (tt_get_hash s _ i E). Qed.

Lemma tt_valid_tt_put k s h : tt_valid s -> tt_valid (fst (tt_put k s h)).
Proof.
  intros H. unfold tt_put. destruct (table s) eqn:ET; [exact H|]. rewrite <- ET. destruct (cancelled k s); [exact H|].
  destruct (tt_slots s h) as [i1 i2]. cbn [fst]. unfold tt_valid, set_table. cbn [table].
  destruct (negb (e_hash (nth i1 (table s) entry0) =? 0)%N); [|exact H].
  apply Forall_set_nth; [exact H|apply tt_valid_nth; exact H].
Qed.
Lemma tt_put_canc k s h : cancelled k s = true -> tt_put k s h = (s, None).
Proof. intros E. unfold tt_put. destruct (table s); [reflexivity|]. rewrite E. reflexivity. Qed.
Lemma tt_put_evals k s h : evals (fst (tt_put k s h)) = evals s.
Proof.
  unfold tt_put. destruct (table s); [reflexivity|]. destruct (cancelled k s); [reflexivity|]. destruct (tt_slots s h). reflexivity.
Qed.
Lemma TJ_tt_put k s h : TJ s -> TJ (fst (tt_put k s h)).
Proof. intros (A & B). split; [apply SJ_tt_put; exact A|apply tt_valid_tt_put; exact B]. Qed.
Lemma tt_valid_write s i h depth m v bound : tt_valid s ->
  good_entry {| e_hash := h; e_value := v; e_m := m; e_bound := bound; e_depth := wrap8 depth |} ->
  tt_valid (write_entry s i h depth m v bound).
Proof. intros H G. unfold write_entry, tt_valid, set_table. cbn [table]. apply Forall_set_nth; assumption. Qed.

Lemma wrap8_le depth : 0 <= depth -> wrap8 depth <= depth.
Proof. intros H. unfold wrap8. pose proof (Z.mod_le (depth + 128) 256 ltac:(lia) ltac:(lia)). lia. Qed.

Lemma notW_le n m p : (m <= n)%nat -> ~ W n p -> ~ W m p.
Proof. intros H A B. apply A. apply (W_le m n p H B). Qed.
Lemma notL_le n m p : (m <= n)%nat -> ~ L n p -> ~ L m p.
Proof. intros H A B. apply A. apply (L_le m n p H B). Qed.

(* the entry zwSearch writes *)
Lemma zw_entry_ok p depth m a (didcut : bool) : 0 <= depth -> vals_ok p depth a (a + 1) (if didcut then a + 1 else a) ->
  ent_ok {| e_hash := phash p; e_value := a; e_m := m; e_bound := if didcut then 0%N else 2%N; e_depth := wrap8 depth |} p.
Proof.
  intros Hd (V1 & V2 & V3 & V4). pose proof (wrap8_le depth Hd) as WL.
  assert (LE : (Z.to_nat (wrap8 depth) <= Z.to_nat depth)%nat) by lia.
  unfold ent_ok, lowerb, upperb. cbn [e_value e_bound e_depth]. destruct didcut.
  - split; [intros A _; apply V1; lia|]. split; [intros _ [F|F]; discriminate F|]. split; [intros _ [F|F]; discriminate F|].
    intros A _. apply (notL_le (Z.to_nat depth)); [exact LE|]. apply V4; lia.
  - split; [intros _ [F|F]; discriminate F|]. split; [intros A _; apply V2; lia|].
    split; [intros A _; apply (notW_le (Z.to_nat depth)); [exact LE|]; apply V3; lia|intros _ [F|F]; discriminate F].
Qed.
(* the entry pvSearch writes *)
Lemma pv_entry_ok p depth m a0 a' b (improved : bool) : 0 <= depth -> a0 < b -> (improved = false -> a' = a0) -> (improved = true -> a0 < a') ->
  vals_ok p depth a0 b a' ->
  ent_ok {| e_hash := phash p; e_value := a'; e_m := m; e_bound := if negb improved then 2%N else if b <=? a' then 0%N else 1%N;
            e_depth := wrap8 depth |} p.
Proof.
  intros Hd Hab HN HI (V1 & V2 & V3 & V4). pose proof (wrap8_le depth Hd) as WL.
  assert (LE : (Z.to_nat (wrap8 depth) <= Z.to_nat depth)%nat) by lia.
  unfold ent_ok, lowerb, upperb. cbn [e_value e_bound e_depth]. destruct improved; cbn [negb].
  - specialize (HI eq_refl). destruct (b <=? a') eqn:EB.
    + split; [intros A _; apply V1; lia|]. split; [intros _ [F|F]; discriminate F|]. split; [intros _ [F|F]; discriminate F|].
      intros A _. apply (notL_le (Z.to_nat depth)); [exact LE|]. apply V4; lia.
    + apply Z.leb_gt in EB.
      split; [intros A _; apply V1; lia|]. split; [intros A _; apply V2; lia|].
      split; [intros A _; apply (notW_le (Z.to_nat depth)); [exact LE|]; apply V3; lia|].
      intros A _. apply (notL_le (Z.to_nat depth)); [exact LE|]. apply V4; lia.
  - specialize (HN eq_refl). subst a'.
    split; [intros _ [F|F]; discriminate F|]. split; [intros A _; apply V2; lia|].
    split; [intros A _; apply (notW_le (Z.to_nat depth)); [exact LE|]; apply V3; lia|intros _ [F|F]; discriminate F].
Qed.

(* the two stores keep the table valid when the values they are given are right - or when the flag is set (ttPut refuses) *)
Lemma TJ_zw_store k s p depth best a didcut : TJ s -> U p -> okl best -> MinEval - 1 <= a <= MaxEval -> (didcut = false -> MinEval <= a) ->
  0 <= depth -> (cancelled k s = false -> vals_ok p depth a (a + 1) (if didcut then a + 1 else a)) ->
  TJ (zw_store k s p depth best a didcut).
Proof.
  intros (HS & HT) Hp HB Ha Hc Hd HV. split; [apply SJ_zw_store; assumption|].
  unfold zw_store. destruct (cancelled k s) eqn:EK; [rewrite (tt_put_canc k s _ EK); exact HT|].
  pose proof (tt_valid_tt_put k s (phash p) HT) as H1.
  destruct (tt_put k s (phash p)) as [s1 slot]. cbn [fst] in H1. destruct slot as [i|]; [|exact H1].
  assert (W1 : tt_valid (write_entry s1 i (phash p) depth (hd move0 best) a (if didcut then 0%N else 2%N))).
  { apply tt_valid_write; [exact H1|]. apply good_of_ok with (p := p); [exact Hp|reflexivity|]. apply zw_entry_ok; [exact Hd|apply HV; reflexivity]. }
  destruct didcut; exact W1.
Qed.
Lemma TJ_pv_store k s p depth best a0 a' b improved : TJ s -> U p -> okl best -> okv a' -> 0 <= depth -> a0 < b ->
  (cancelled k s = false -> (improved = false -> a' = a0) /\ (improved = true -> a0 < a') /\ vals_ok p depth a0 b a') ->
  TJ (pv_store k s p depth best a' b improved).
Proof.
  intros (HS & HT) Hp HB Ha Hd Hab HV. split; [apply SJ_pv_store; assumption|].
  unfold pv_store. destruct (cancelled k s) eqn:EK; [rewrite (tt_put_canc k s _ EK); exact HT|].
  pose proof (tt_valid_tt_put k s (phash p) HT) as H1.
  destruct (tt_put k s (phash p)) as [s1 slot]. cbn [fst] in H1. destruct slot as [i|]; [|exact H1].
  match goal with |- context [if ?c then _ else s1] => destruct c end; [|exact H1].
  destruct (HV eq_refl) as (V1 & V2 & V3).
  match goal with |- context [write_entry s1 i ?h depth ?m a' ?bd] =>
    assert (W1 : tt_valid (write_entry s1 i h depth m a' bd)) end.
  { apply tt_valid_write; [exact H1|]. apply good_of_ok with (p := p); [exact Hp|reflexivity|]. apply (pv_entry_ok p depth _ a0); assumption. }
  destruct (negb improved); exact W1.
Qed.
Lemma zw_store_evals k s p depth best a didcut : evals (zw_store k s p depth best a didcut) = evals s.
Proof.
  unfold zw_store. pose proof (tt_put_evals k s (phash p)) as E. destruct (tt_put k s (phash p)) as [s1 slot]. cbn [fst] in E.
  destruct slot; [|exact E]. destruct didcut; exact E.
Qed.
Lemma pv_store_evals k s p depth best a' b improved : evals (pv_store k s p depth best a' b improved) = evals s.
Proof.
  unfold pv_store. pose proof (tt_put_evals k s (phash p)) as E. destruct (tt_put k s (phash p)) as [s1 slot]. cbn [fst] in E.
  destruct slot; [|exact E]. match goal with |- context [if ?c then _ else s1] => destruct c end; [|exact E].
  destruct (negb improved); exact E.
Qed.

(* the table shortcut: the returned value is right for the window it was asked with *)
Lemma tt_probe_vals s p ply depth a b : TJ s -> U p -> is_over p = false -> MinEval - 1 <= a < b ->
  let '(s', te, ret) := tt_probe basis s p ply depth a b in
  TJ s' /\ evals s' = evals s /\
  match ret with Some (pv', v) => okl pv' /\ okv v /\ head_ok basis p pv' /\ vals_ok p depth a b v | None => True end.
Proof.
  intros (HS & HT) Hp EO Hab. pose proof (tt_probe_ok basis s p ply depth a b HS Hab) as TP.
  unfold tt_probe in *. destruct (tt_get s (phash p)) as [i|] eqn:EG; [|split; [split; assumption|split; [reflexivity|exact I]]].
  pose proof (tt_get_ok s p i HT Hp EO EG) as (E1 & E2 & E3 & E4).
  set (s1 := bump s (st_add 0 0 1 0 0 0 0 0 0 0 0)) in *.
  change (table s1) with (table s) in *.
  set (te := nth i (table s) entry0) in *.
  destruct (te_suffices te depth a b) eqn:ES; [|split; [split; [apply TP|exact HT]|split; [reflexivity|exact I]]].
  destruct (try_move basis p (e_m te)) as [q|] eqn:ET; [|split; [split; [apply TP|exact HT]|split; [reflexivity|exact I]]].
  destruct TP as (TP1 & TP2 & TP3 & TP4).
  split; [split; [exact TP1|exact HT]|]. split; [reflexivity|]. split; [exact TP2|]. split; [exact TP3|]. split; [exact TP4|].
  unfold te_suffices in ES. unfold lowerb, upperb in *.
  assert (CASES : (depth <= e_depth te /\ (e_bound te = 1%N \/ (e_value te < a /\ e_bound te = 2%N) \/ (b < e_value te /\ e_bound te = 0%N))) \/
                  (e_bound te = 1%N /\ (WinThreshold < e_value te \/ e_value te < - WinThreshold))).
  { apply orb_true_iff in ES. destruct ES as [ES|ES]; apply andb_true_iff in ES; destruct ES as (A & B).
    - left. split; [apply Z.leb_le; exact A|]. apply orb_true_iff in B. destruct B as [B|B].
      + apply orb_true_iff in B. destruct B as [B|B]; [left; apply N.eqb_eq; exact B|].
        apply andb_true_iff in B. destruct B as (B1 & B2). right; left. split; [apply Z.ltb_lt; exact B1|apply N.eqb_eq; exact B2].
      + apply andb_true_iff in B. destruct B as (B1 & B2). right; right. split; [apply Z.ltb_lt; exact B1|apply N.eqb_eq; exact B2].
    - right. split; [apply N.eqb_eq; exact A|]. apply orb_true_iff in B. destruct B as [B|B]; apply Z.ltb_lt in B; auto. }
  clear ES. unfold vals_ok.
  destruct CASES as [(LD & [B|[(B1 & B2)|(B1 & B2)]])|(B & BV)].
  - assert (LE : (Z.to_nat depth <= Z.to_nat (e_depth te))%nat) by lia.
    split; [intros _ A; apply E1; auto|]. split; [intros _ A; apply E2; auto|].
    split; [intros _ A; apply (notW_le _ _ _ LE); apply E3; auto|intros _ A; apply (notL_le _ _ _ LE); apply E4; auto].
  - assert (LE : (Z.to_nat depth <= Z.to_nat (e_depth te))%nat) by lia.
    split; [intros A; lia|]. split; [intros _ A; apply E2; auto|].
    split; [intros _ A; apply (notW_le _ _ _ LE); apply E3; auto|intros A; lia].
  - assert (LE : (Z.to_nat depth <= Z.to_nat (e_depth te))%nat) by lia.
    split; [intros _ A; apply E1; auto|]. split; [intros A; lia|].
    split; [intros A; lia|intros _ A; apply (notL_le _ _ _ LE); apply E4; auto].
  - split; [intros _ A; apply E1; auto|]. split; [intros _ A; apply E2; auto|]. destruct BV as [BV|BV].
    + split; [intros _ A; lia|]. intros _ _. apply Wany_notL. apply E1; auto.
    + split; [|intros _ A; lia]. intros _ _. apply Lany_notW. apply E2; auto.
Qed.
End Cls.
