(* C03, part 3: completeness of all_moves - every non-pass move that the model of MovePreallocated
   accepts is listed (up to Move.Equal). *)
From Coq Require Import NArith ZArith Arith List Bool Lia ZifyN ZifyBool ZifyNat.
Require Import Board Move GameOver Refine RefinePlace RefinePlace2 AllMovesFacts AllMovesFacts2.
Import ListNotations.
Open Scope N_scope.

(* ---- small facts ---- *)
Lemma idx_Ok_nthN l i a : idx l i = Ok a -> a = nthN l i.
Proof.
  unfold idx. destruct (i <? N.of_nat (length l)); [|discriminate].
  destruct (nth_error l (N.to_nat i)) eqn:E; [|discriminate]. intros H. injection H as <-.
  unfold nthN. symmetry. now apply nth_error_nth.
Qed.

Lemma in_board_spec p x y : 3 <= size p <= 8 ->
  (in_board p x y = true <-> (0 <= x < Z.of_N (size p) /\ 0 <= y < Z.of_N (size p))%Z).
Proof. intros Hs. unfold in_board. rewrite wrap8_id by lia. lia. Qed.

Lemma sq_index_nat p x y : 3 <= size p <= 8 -> (0 <= x < Z.of_N (size p))%Z -> (0 <= y < Z.of_N (size p))%Z ->
  sq_index p x y = N.of_nat (Z.to_nat y * N.to_nat (size p) + Z.to_nat x) /\ sq_index p x y < size p * size p.
Proof.
  intros Hs Hx Hy. destruct (sq_index_on_board p x y Hs Hx Hy) as [E L]. split; [|exact L]. rewrite E. nia.
Qed.

(* the nibble iterator determines the word as long as it stops before the fuel runs out *)
Lemma nibbles_inj f : forall s s', nibbles f s = nibbles f s' -> (length (nibbles f s) < f)%nat -> s = s'.
Proof.
  induction f as [|f IH]; intros s s' E L; [cbn in L; lia|]. cbn [nibbles] in *.
  destruct (N.eqb_spec s 0) as [Hs|Hs]; destruct (N.eqb_spec s' 0) as [Hs'|Hs']; try congruence; try discriminate E.
  assert (E1 := f_equal (hd 0) E). assert (E2 := f_equal (@tl N) E). cbn [hd tl] in E1, E2.
  cbn [length] in L. apply IH in E2; [|lia].
  change 15 with (N.ones 4) in E1. rewrite !N.land_ones in E1. rewrite !N.shiftr_div_pow2 in E2.
  change (2 ^ 4) with 16 in *.
  rewrite (N.div_mod s 16), (N.div_mod s' 16) by lia. congruence.
Qed.

Lemma sum_to_nat ds : list_sum (map N.to_nat ds) = N.to_nat (fold_right N.add 0 ds).
Proof.
  induction ds as [|d ds IH]; [reflexivity|]. cbn [map fold_right].
  change (list_sum (N.to_nat d :: map N.to_nat ds)) with (N.to_nat d + list_sum (map N.to_nat ds))%nat. lia.
Qed.

Lemma nonzero_to_nat ds : existsb (N.eqb 0) ds = false -> Forall (fun d => 1 <= d)%nat (map N.to_nat ds).
Proof.
  induction ds as [|d ds IH]; intros H; [constructor|]. cbn [existsb] in H. apply orb_false_elim in H as [H1 H2].
  cbn [map]. constructor; [lia|now apply IH].
Qed.

Lemma map_of_to_nat ds : map N.of_nat (map N.to_nat ds) = ds.
Proof. rewrite map_map. rewrite <- (map_id ds) at 2. apply map_ext. intros. apply N2Nat.id. Qed.

(* ---- the drop loop succeeds only if every target square is on the board ---- *)
Definition dir_delta (t : N) : Z * Z :=
  match t with 5 => (-1, 0)%Z | 6 => (1, 0)%Z | 7 => (0, 1)%Z | _ => (0, -1)%Z end.

Lemma drops_in_board hs p topk stack t : 3 <= size p <= 8 -> 5 <= t <= 8 ->
  forall ds x y ct b r, in_board p x y = true ->
  drops hs p topk stack (fst (dir_delta t)) (snd (dir_delta t)) x y ct ds b = Ok r ->
  in_board p (x + Z.of_nat (length ds) * fst (dir_delta t)) (y + Z.of_nat (length ds) * snd (dir_delta t)) = true.
Proof.
  intros Hs Ht.
  assert (E : t = 5 \/ t = 6 \/ t = 7 \/ t = 8) by lia.
  induction ds as [|cN ds IH]; intros x y ct b r Hin H.
  - cbn [length]. rewrite !Z.mul_0_l, !Z.add_0_r. exact Hin.
  - cbn [drops] in H.
    destruct (in_board p (wrap8 (x + fst (dir_delta t))) (wrap8 (y + snd (dir_delta t)))) eqn:Hin'; [|discriminate H].
    cbn [negb] in H. destruct ((cN <? 1) || (ct <? cN)); [discriminate H|].
    destruct (drop_at hs topk stack ct cN _ b) as [b'| |]; cbn [bind] in H; try discriminate H.
    apply IH in H; [|exact Hin'].
    apply (in_board_spec p _ _ Hs) in Hin. apply (in_board_spec p _ _ Hs) in H. apply (in_board_spec p _ _ Hs).
    cbn [length]. destruct E as [->|[->|[->| ->]]]; cbn [dir_delta fst snd] in *;
      rewrite !wrap8_id in H by lia; lia.
Qed.

(* ---- which types the model accepts at all ---- *)
Lemma mv_type p m p' : mv p m = Ok p' -> 2 <= mT m <= 8.
Proof.
  unfold mv, move_prealloc. intros H.
  destruct (mT m) as [|q]; [|do 4 (try destruct q as [q|q|])]; try lia.
  all: destruct (true && _ && _) in H; [discriminate H|cbn [bind] in H; discriminate H].
Qed.

(* ---- what an accepted placement looks like ---- *)
Lemma mv_place_inv p m p' : (mT m = 2 \/ mT m = 3 \/ mT m = 4) -> mv p m = Ok p' ->
  (0 <= mX m < Z.of_N (size p))%Z /\ (0 <= mY m < Z.of_N (size p))%Z /\
  has (N.lor (White p) (Black p)) (sq_index p (mX m) (mY m)) = false /\
  ((move p <? 2)%Z = true -> mT m = 2) /\
  (mT m = 4 -> (if to_move_white p then 0 <? whiteCaps p else 0 <? blackCaps p) = true).
Proof.
  intros E H. unfold mv, move_prealloc in H.
  destruct E as [E|[E|E]]; rewrite E in H; cbn [bind] in H.
  all: destruct ((mX m <? 0)%Z || _ || _ || _) eqn:Hb; [discriminate H|]; cbn [andb] in H.
  all: destruct (move p <? 2)%Z eqn:Hop; cbn [bind] in H; try discriminate H.
  all: destruct (has (N.lor (White p) (Black p)) _) eqn:Hocc; [discriminate H|].
  all: rewrite E.
  all: repeat split; try lia; try (intros; reflexivity); try discriminate.
  intros _. destruct (to_move_white p).
  - destruct (whiteCaps p <=? 0) eqn:Hc; [discriminate H|]. lia.
  - destruct (blackCaps p <=? 0) eqn:Hc; [discriminate H|]. lia.
Qed.

(* ---- what an accepted slide looks like ---- *)
Lemma mv_slide_inv p m p' : 5 <= mT m <= 8 -> mv p m = Ok p' ->
  let i := sq_index p (mX m) (mY m) in
  let ds := nibbles 8 (mS m) in
  let ct := fold_right N.add 0 ds in
  (0 <= mX m < Z.of_N (size p))%Z /\ (0 <= mY m < Z.of_N (size p))%Z /\
  (2 <= move p)%Z /\ existsb (N.eqb 0) ds = false /\ 1 <= ct <= size p /\ ct <= nthN (Height p) i /\
  (if to_move_white p then has (White p) i else has (Black p) i) = true /\
  exists topk stack b r,
    drops hsq p topk stack (fst (dir_delta (mT m))) (snd (dir_delta (mT m))) (mX m) (mY m) ct ds b = Ok r.
Proof.
  intros Ht H. unfold mv, move_prealloc in H.
  assert (E : mT m = 5 \/ mT m = 6 \/ mT m = 7 \/ mT m = 8) by lia.
  destruct E as [E|[E|[E|E]]]; rewrite E in *; cbn [bind] in H.
  all: destruct ((mX m <? 0)%Z || _ || _ || _) eqn:Hb; [discriminate H|]; cbn [andb] in H.
  all: destruct (move p <? 2)%Z eqn:Hop; cbn [bind] in H; [discriminate H|].
  all: destruct (existsb (N.eqb 0) _) eqn:Hz; [discriminate H|].
  all: destruct ((size p <? _) || _) eqn:Hct; [discriminate H|].
  all: destruct (idx (Height p) _) as [hi| |] eqn:Hhi; cbn [bind] in H; try discriminate H.
  all: apply idx_Ok_nthN in Hhi.
  all: destruct (hi <? _) eqn:Hh; [discriminate H|].
  all: destruct (to_move_white p && _) eqn:Ho1; [discriminate H|].
  all: destruct (negb (to_move_white p) && _) eqn:Ho2; [discriminate H|].
  all: destruct (top_at p _ _) as [tcol tkind].
  all: destruct (idx (Stacks p) _) as [sti| |] eqn:Hsti; cbn [bind] in H; try discriminate H.
  all: destruct (if hi =? _ then _ else _) as [w b].
  all: destruct (drops _ _ _ _ _ _ _ _ _ _ _) as [r| |] eqn:Hd; cbn [bind] in H; try discriminate H.
  all: intros i ds ct; subst i ds ct.
  all: cbn [dir_delta fst snd].
  all: match goal with |- ?A /\ ?B /\ ?C /\ ?D /\ ?E /\ ?F /\ ?G /\ ?X =>
         assert (Hex : X) by eauto; clear H Hd Hsti;
         enough (A /\ B /\ C /\ D /\ E /\ F /\ G) by tauto; clear Hex end.
  all: split; [lia|]; split; [lia|]; split; [lia|]; split; [exact Hz|]; split; [lia|]; split; [lia|].
  all: destruct (to_move_white p), (has (White p) _), (has (Black p) _); cbn in *; congruence.
Qed.

(* ---- placements are listed ---- *)
Lemma allmoves_has_place p x y t :
  (x < N.to_nat (size p))%nat -> (y < N.to_nat (size p))%nat ->
  nthN (Height p) (N.of_nat (y * N.to_nat (size p) + x)) = 0 ->
  (t = 2 \/ (2 <= move p)%Z /\ (t = 3 \/ t = 4 /\ (if to_move_white p then 0 <? whiteCaps p else 0 <? blackCaps p) = true)) ->
  In {| mX := Z.of_nat x; mY := Z.of_nat y; mT := t; mS := 0 |} (all_moves p).
Proof.
  intros Hx Hy Hh Ht. apply in_all_moves. exists x, y. repeat split; [exact Hx|exact Hy|].
  unfold cell. rewrite Hh. cbn [N.eqb].
  destruct Ht as [->|(Hm & [->|(-> & Hc)])]; [now left| |].
  - replace (2 <=? move p)%Z with true by lia. right. now left.
  - replace (2 <=? move p)%Z with true by lia. rewrite Hc. right. right. now left.
Qed.

(* ---- allmoves_complete ---- *)
(* minimal hypotheses: size 3..8 and "a square without a colour bit has height 0" *)
Theorem allmoves_complete_min p m p' :
  3 <= size p <= 8 ->
  (forall i, i < size p * size p -> has (N.lor (White p) (Black p)) i = false -> nthN (Height p) i = 0) ->
  mT m <> 1 -> mv p m = Ok p' ->
  exists g, In g (all_moves p) /\ move_equal g m = true.
Proof.
  intros Hs Hocc Hnp H.
  assert (Ht := mv_type p m p' H).
  destruct (N.le_gt_cases (mT m) 4) as [Hp|Hsl].
  - (* placement *)
    assert (E : mT m = 2 \/ mT m = 3 \/ mT m = 4) by lia.
    destruct (mv_place_inv p m p' E H) as (HX & HY & Hemp & Hop & Hcap).
    destruct (sq_index_nat p (mX m) (mY m) Hs HX HY) as [Ei Li].
    exists {| mX := Z.of_nat (Z.to_nat (mX m)); mY := Z.of_nat (Z.to_nat (mY m)); mT := mT m; mS := 0 |}. split.
    + apply allmoves_has_place; [lia|lia| |].
      * rewrite <- Ei. apply Hocc; assumption.
      * destruct (Z.ltb_spec (move p) 2) as [Hlt|Hge]; [left; now apply Hop|].
        destruct E as [E|[E|E]]; [now left|right; split; [lia|now left]|right; split; [lia|right; split; [exact E|now apply Hcap]]].
    + unfold move_equal. cbn [mX mY mT mS]. rewrite !Z2Nat.id by lia. rewrite !Z.eqb_refl, N.eqb_refl.
      replace (5 <=? mT m) with false by lia. reflexivity.
  - (* slide *)
    assert (Ht' : 5 <= mT m <= 8) by lia.
    destruct (mv_slide_inv p m p' Ht' H) as (HX & HY & Hmv & Hz & Hct & Hh & Hown & topk & stack & b & r & Hd).
    destruct (sq_index_nat p (mX m) (mY m) Hs HX HY) as [Ei Li].
    set (x := Z.to_nat (mX m)) in *. set (y := Z.to_nat (mY m)) in *.
    set (ds := nibbles 8 (mS m)) in *. set (ct := fold_right N.add 0 ds) in *.
    set (i := N.of_nat (y * N.to_nat (size p) + x)) in *. rewrite Ei in Hh, Hown.
    (* every target on the board: the number of drops is within the distance to the edge *)
    apply (drops_in_board hsq p topk stack (mT m) Hs Ht') in Hd; [|apply (in_board_spec p _ _ Hs); lia].
    apply (in_board_spec p _ _ Hs) in Hd.
    assert (Hdist : exists dc, dist p x y (mT m) = Some dc /\ (length ds <= dc)%nat).
    { assert (E : mT m = 5 \/ mT m = 6 \/ mT m = 7 \/ mT m = 8) by lia.
      destruct E as [E|[E|[E|E]]]; rewrite E in *; cbn [dir_delta fst snd] in Hd; unfold dist; cbn [N.eqb Pos.eqb];
        eexists; (split; [reflexivity|]); subst x y; lia. }
    destruct Hdist as (dc & Edc & Hlen).
    (* the drop list as a composition *)
    set (ds' := map N.to_nat ds).
    assert (Hg : good (N.to_nat (N.min (nthN (Height p) i) (size p))) ds').
    { repeat split.
      - subst ds'. destruct ds; [cbn in ct; subst ct; lia|discriminate].
      - apply nonzero_to_nat. exact Hz.
      - subst ds'. rewrite sum_to_nat. fold ct. lia. }
    assert (Hh8 : (1 <= N.to_nat (N.min (nthN (Height p) i) (size p)) <= 8)%nat) by lia.
    destruct (slides_table_spec _ Hh8) as (_ & _ & Hnib). specialize (Hnib ds' Hg).
    unfold ds' in Hnib at 2. rewrite map_of_to_nat in Hnib.
    assert (Hpack : pack ds' = mS m).
    { apply (nibbles_inj 8); [exact Hnib|]. rewrite Hnib. fold ds.
      assert (dc <= 7)%nat; [|lia].
      unfold dist in Edc. destruct (mT m =? 5); [injection Edc as <-; subst x; lia|].
      destruct (mT m =? 6); [injection Edc as <-; lia|]. destruct (mT m =? 8); [injection Edc as <-; subst y; lia|].
      destruct (mT m =? 7); [injection Edc as <-; lia|discriminate]. }
    exists {| mX := Z.of_nat x; mY := Z.of_nat y; mT := mT m; mS := pack ds' |}. split.
    + apply (allmoves_has_slide p x y (mT m) dc ds'); try assumption; try (subst x y; lia).
      * fold i. lia.
      * subst ds'. rewrite map_length. exact Hlen.
    + unfold move_equal. cbn [mX mY mT mS]. subst x y. rewrite !Z2Nat.id by lia. rewrite !Z.eqb_refl, N.eqb_refl, Hpack, N.eqb_refl.
      destruct (5 <=? mT m); reflexivity.
Qed.
Print Assumptions allmoves_complete_min.

(* with the well-formedness record of the refinement proofs *)
Theorem allmoves_complete p m p' : wf p -> mT m <> 1 -> mv p m = Ok p' ->
  exists g, In g (all_moves p) /\ move_equal g m = true.
Proof.
  intros W. apply allmoves_complete_min; [exact (wf_size p W)|].
  intros i Hi Hf. now apply (wf_occ p W i Hi).
Qed.
Print Assumptions allmoves_complete.
