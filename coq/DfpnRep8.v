(* C06: dfpn_disproven_sound IN FULL for the repaired solver (prove/dfpn.go after "DFPN does not store bounds that rest on a
   repetition cut": mid() stores its result only when the repetition counter did not move during the call).
   Invariant, two layers:
     - the TABLE holds unconditional facts only (DfpnFactsL.table_okL: a stored disproof is "not won within any number of plies",
       for every position of Sp with that hash) - so a hit is sound on every path, in every later call;
     - the bounds a call of mid RETURNS are relative to the strict ancestors on the stack (DfpnRep1.CL), and they are unconditional
       whenever the repetition counter did not move during the call and the bounds it was handed were unconditional
       ("clean" calls) - exactly the calls whose result is stored.
   Theorems: dfpn_disproven_sound_from (any solver state whose table is table_okL: `disproven` is sound and the table stays
   table_okL), dfpn_disproven_sound (fresh solver), dfpn_on_sound / dfpn_seq_sound (the reused-solver model prove_on/prove_seq). *)
From Coq Require Import NArith ZArith List Bool Lia Arith.
Require Import Board Move GameOver Eval Search AndOr Pn PnFacts Dfpn DfpnFacts DfpnFactsL DfpnRep1.
Import ListNotations.
Open Scope N_scope.

Strategy 1000 [solve lookup game_over all_moves hash_of count_threats analyze check_repetition].

Section DfpnFull.
Variable basis : list N.
Variable aw : bool.
Variable Sp : position -> Prop.

Notation term := (PnFacts.terminal aw).
Notation attp := (PnFacts.attp aw).
Notation succs := (PnFacts.succs basis).
Notation dmv := (Dfpn.dmv basis).
Notation wnp := (wn position (PnFacts.succs basis) (PnFacts.terminal aw) (PnFacts.attp aw)).

Hypothesis S_step : forall p m q, Sp p -> term p = None -> In m (all_moves p) -> dmv p m = Ok q -> Sp q.
Hypothesis S_small : forall p, Sp p -> size p <= 8.
(* NoCollisionOn Sp: positions of Sp with the same hash are the same for the game (value at every depth, side to move, end) *)
Hypothesis S_hashF : forall p q, Sp p -> Sp q -> hash_of p = hash_of q ->
  (forall n, wnp n p = wnp n q) /\ to_move_white p = to_move_white q /\ term p = term q.
Hypothesis S_nonzero : forall p, Sp p -> hash_of p <> 0.
Hypothesis S_moves : forall p, Sp p -> term p = None -> all_moves p <> [].
Hypothesis threats_sound_def : forall p, Sp p -> term p = None -> solve p <> None -> attp p = false ->
  exists q, In q (succs p) /\ term q = Some false.

Lemma S_hash : forall p q, Sp p -> Sp q -> hash_of p = hash_of q ->
  (W basis aw p <-> W basis aw q) /\ to_move_white p = to_move_white q /\ term p = term q.
Proof.
  intros p q Hp Hq Eh. destruct (S_hashF p q Hp Hq Eh) as (Hn & Hm & Ht). split; [|split; assumption].
  unfold W. split; intros [n H]; exists n; [rewrite <- Hn|rewrite Hn]; exact H.
Qed.
Lemma S_hashN : forall p q, Sp p -> Sp q -> hash_of p = hash_of q -> forall n, wnp n p = wnp n q.
Proof. intros p q Hp Hq Eh. now destruct (S_hashF p q Hp Hq Eh). Qed.

Notation table_okL := (table_okL basis aw Sp).
Notation entry_okL := (entry_okL basis aw).
Notation child_okL := (child_okL basis aw Sp).
Notation entry_okC := (entry_okC basis aw).
Notation child_okC := (child_okC basis aw Sp).
Notation CL := (CL basis aw).

(* an unconditional bound is a bound relative to any ancestors *)
Lemma okL_okC B p ph de : entry_okL p ph de -> entry_okC B p ph de.
Proof.
  intros (H1 & H2 & [C1 C2] & H4). split; [assumption|]. split; [assumption|]. split; [|assumption].
  split; intros X Y; apply Lf_CL; [now apply C1|now apply C2].
Qed.

Lemma child_L_C B g ch : child_okL g ch -> child_okC B g ch.
Proof. intros (H1 & H2 & H3 & H4). split; [assumption|]. split; [assumption|]. split; [assumption|]. now apply okL_okC. Qed.

Lemma nodeL g cs ph de : Sp g -> term g = None -> Forall (child_okL g) cs -> complete basis g cs -> compute_pns cs = (ph, de) ->
  entry_okL g ph de.
Proof. exact (node_entryL basis aw Sp S_step S_small S_hash S_nonzero S_moves threats_sound_def g cs ph de). Qed.

Lemma nodeC A B g cs ph de : term g = None -> incl B (g :: A) -> Forall (child_okC B g) cs -> complete basis g cs ->
  compute_pns cs = (ph, de) -> entry_okC A g ph de.
Proof. exact (node_entryC basis aw Sp S_step S_small S_hashN S_moves threats_sound_def A B g cs ph de). Qed.

Definition rec_okR (rec : dstate -> position -> N -> N -> dentry -> dstate * dentry * N) : Prop :=
  forall s g bphi bdelta cur s' cur' w,
    rec s g bphi bdelta cur = (s', cur', w) ->
    reps s <= reps s' /\
    (forall A, table_okL s -> Sp g -> frame_ok s g A -> Forall Sp (anc s) ->
     d_hash cur = hash_of g -> entry_okC A g (d_phi cur) (d_delta cur) -> bphi <= INF -> bdelta <= INF ->
     table_okL s' /\ d_hash cur' = hash_of g /\ entry_okC A g (d_phi cur') (d_delta cur') /\
     (reps s' = reps s -> entry_okL g (d_phi cur) (d_delta cur) -> entry_okL g (d_phi cur') (d_delta cur'))).

Lemma mid_loop_okR rec g bphi bdelta r0 : rec_okR rec ->
  forall k s cs cur lw s' cur' w,
    mid_loop rec bphi bdelta k s cs cur lw = (s', cur', w) ->
    reps s <= reps s' /\
    (forall A, Sp g -> term g = None -> bphi <= INF -> bdelta <= INF -> table_okL s ->
     incl (anc s) (g :: A) -> Forall Sp (anc s) -> d_hash cur = hash_of g ->
     Forall (child_okC (anc s) g) cs -> (reps s = r0 -> Forall (child_okL g) cs) -> complete basis g cs -> r0 <= reps s ->
     table_okL s' /\ d_hash cur' = hash_of g /\ entry_okC A g (d_phi cur') (d_delta cur') /\
     (reps s' = r0 -> entry_okL g (d_phi cur') (d_delta cur'))).
Proof.
  intros Hrec k. induction k as [|k IH]; intros s cs cur lw s' cur' w E; cbn [mid_loop] in E;
    destruct (compute_pns cs) as [ph de] eqn:Ecp.
  - injection E as <- <- _. split; [destruct (exceeded _ _ _ _); unfold reps; cbn; lia|].
    intros A Hg Htm Hb1 Hb2 Ht Hi HSp Hh Hcs HcsL Hcomp Hr0.
    split; [destruct (exceeded _ _ _ _); exact Ht|]. split; [exact Hh|].
    split; [exact (nodeC A (anc s) g cs ph de Htm Hi Hcs Hcomp Ecp)|].
    intros Hc. apply (nodeL g cs ph de Hg Htm); [|exact Hcomp|exact Ecp]. apply HcsL. destruct (exceeded _ _ _ _); unfold reps in *; cbn in *; lia.
  - destruct (exceeded ph de bphi bdelta) eqn:Eex.
    + injection E as <- <- _. split; [lia|].
      intros A Hg Htm Hb1 Hb2 Ht Hi HSp Hh Hcs HcsL Hcomp Hr0.
      split; [exact Ht|]. split; [exact Hh|]. split; [exact (nodeC A (anc s) g cs ph de Htm Hi Hcs Hcomp Ecp)|].
      intros Hc. apply (nodeL g cs ph de Hg Htm); [|exact Hcomp|exact Ecp]. apply HcsL. lia.
    + destruct (select_child cs bphi bdelta de) as [best [cphi' cdelta']] eqn:Esel.
      destruct (nth_error cs (Z.to_nat best)) as [ch|] eqn:En.
      * match type of E with context[rec ?s1 _ _ _ _] => destruct (rec s1 (ch_g ch) cphi' cdelta' (ch_data ch)) as [[s2 ne] w2] eqn:Er; set (sp := s1) in * end.
        destruct (Hrec _ _ _ _ _ _ _ _ Er) as [Hmono Hinner].
        assert (Hsp : reps sp = reps s) by reflexivity.
        (* what the recursive call gives, under the hypotheses of this lemma *)
        assert (Hcall : Sp g -> term g = None -> bphi <= INF -> bdelta <= INF -> table_okL s ->
                  Forall Sp (anc s) -> Forall (child_okC (anc s) g) cs ->
                  table_okL s2 /\ d_hash ne = hash_of (ch_g ch) /\ entry_okC (anc s) (ch_g ch) (d_phi ne) (d_delta ne) /\
                  (reps s2 = reps s -> entry_okL (ch_g ch) (cphi ch) (cdelta ch) -> entry_okL (ch_g ch) (d_phi ne) (d_delta ne)) /\
                  child_okC (anc s) g ch).
        { intros Hg Htm Hb1 Hb2 Ht HSp Hcs.
          assert (Hchok : child_okC (anc s) g ch) by (rewrite Forall_forall in Hcs; apply Hcs; eapply nth_error_In; eauto).
          pose proof Hchok as (HSc & Hmv & Hhc & Hokc).
          assert (Hthr : cphi' <= INF /\ cdelta' <= INF).
          { eapply select_child_bounds; eauto. intros c Hc. rewrite En in Hc. injection Hc as <-.
            rewrite compute_pns_eq in Ecp. injection Ecp as _ Ede. subst de.
            apply fsum_ge; [rewrite INF_val; unfold INFv; lia|eapply nth_error_In; eauto|apply Hokc]. }
          destruct Hthr as [Hthr1 Hthr2].
          assert (Hfr : frame_ok sp (ch_g ch) (anc s)).
          { right. exists (dstack s), (ch_move ch). split; reflexivity. }
          assert (HSp2 : Forall Sp (anc sp)).
          { unfold anc, sp. cbn [dstack]. rewrite map_app. apply Forall_app. split; [exact HSp|]. constructor; [exact HSc|constructor]. }
          destruct (Hinner (anc s) Ht HSc Hfr HSp2 Hhc Hokc Hthr1 Hthr2) as (T2 & Hh2 & Hok2 & HL2).
          split; [exact T2|]. split; [exact Hh2|]. split; [exact Hok2|]. split; [|exact Hchok].
          intros Heq. apply HL2. now rewrite Hsp. }
        destruct (dfuel_out s2) eqn:Efo.
        -- injection E as <- <- _. split; [unfold reps in *; cbn in *; lia|].
           intros A Hg Htm Hb1 Hb2 Ht Hi HSp Hh Hcs HcsL Hcomp Hr0.
           destruct (Hcall Hg Htm Hb1 Hb2 Ht HSp Hcs) as (T2 & _).
           split; [exact T2|]. split; [exact Hh|]. split; [exact (nodeC A (anc s) g cs ph de Htm Hi Hcs Hcomp Ecp)|].
           intros Hc. apply (nodeL g cs ph de Hg Htm); [|exact Hcomp|exact Ecp]. apply HcsL. unfold reps in *; cbn in *; lia.
        -- apply IH in E. destruct E as [Hmono2 Hrest].
           split; [unfold reps in *; cbn in *; lia|].
           intros A Hg Htm Hb1 Hb2 Ht Hi HSp Hh Hcs HcsL Hcomp Hr0.
           pose proof (nodeC A (anc s) g cs ph de Htm Hi Hcs Hcomp Ecp) as Hnode.
           assert (Hunsolved : ~ solved ph de).
           { intros Hsol. destruct Hnode as (_ & Hc & _). rewrite (solved_exceeded _ _ _ _ Hc Hsol Hb1 Hb2) in Eex. discriminate. }
           assert (Hcomp1 : forall m q, In m (all_moves g) -> dmv g m = Ok q -> covered cs q).
           { destruct Hcomp as [Hc|(x & Hx & Hd)]; [exact Hc|]. exfalso. apply Hunsolved. left.
             rewrite compute_pns_eq in Ecp. injection Ecp as Eph _. subst ph.
             apply N.le_antisymm; [|lia].
             assert (forall l a, In x l -> fold_left (fun m ch => N.min m (cdelta ch)) l a <= cdelta x) as Hm.
             { induction l as [|c r IHl]; intros a Hin; [contradiction|]. cbn. destruct Hin as [<-|Hin]; [|now apply IHl].
               pose proof (fmin_le r (N.min a (cdelta c))). lia. }
             specialize (Hm cs INF Hx). lia. }
           destruct (Hcall Hg Htm Hb1 Hb2 Ht HSp Hcs) as (T2 & Hh2 & Hok2 & HL2 & Hchok).
           destruct Hchok as (HSc & Hmv & Hhc & Hokc).
           apply (Hrest A); auto.
           ++ apply Forall_forall. intros x Hx. apply set_child_spec in Hx as [Hx|(c & Hc & ->)].
              ** rewrite Forall_forall in Hcs. now apply Hcs.
              ** rewrite En in Hc. injection Hc as <-. unfold DfpnRep1.child_okC, cphi, cdelta. cbn [ch_g ch_data ch_move].
                 split; [assumption|]. split; [assumption|]. split; [assumption|]. exact Hok2.
           ++ intros Heq3.
              assert (Hs0 : reps s = r0 /\ reps s2 = reps s) by (unfold reps in *; cbn in *; lia). destruct Hs0 as [Hs0 Hs2].
              pose proof (HcsL Hs0) as HL. apply Forall_forall. intros x Hx. apply set_child_spec in Hx as [Hx|(c & Hc & ->)].
              ** rewrite Forall_forall in HL. now apply HL.
              ** rewrite En in Hc. injection Hc as <-.
                 assert (HchL : child_okL g ch) by (rewrite Forall_forall in HL; apply HL; eapply nth_error_In; eauto).
                 destruct HchL as (L1 & L2 & L3 & L4).
                 unfold DfpnFactsL.child_okL, cphi, cdelta. cbn [ch_g ch_data ch_move].
                 split; [assumption|]. split; [assumption|]. split; [assumption|]. apply HL2; assumption.
           ++ left. intros m q Hm Eq. apply set_child_covered. eapply Hcomp1; eauto.
           ++ unfold reps in *; cbn in *; lia.
      * injection E as <- <- _. split; [lia|].
        intros A Hg Htm Hb1 Hb2 Ht Hi HSp Hh Hcs HcsL Hcomp Hr0.
        split; [exact Ht|]. split; [exact Hh|]. split; [exact (nodeC A (anc s) g cs ph de Htm Hi Hcs Hcomp Ecp)|].
        intros Hc. apply (nodeL g cs ph de Hg Htm); [|exact Hcomp|exact Ecp]. apply HcsL. lia.
Qed.

(* the child loop leaves the search stack alone *)
Lemma child_entry_stack s p s' e : child_entry aw s p = (s', e) -> dstack s' = dstack s.
Proof.
  intros Ec. unfold child_entry, child_entry_live in Ec.
  destruct (game_over p) as [[[|] who]|]; [destruct (terminal_bounds aw p who); now injection Ec as <- _| |];
    (destruct (solve p) as [r0|]; [destruct (terminal_bounds aw p r0); now injection Ec as <- _|]; destruct (lookup s p); now injection Ec as <- _).
Qed.

Lemma gen_children_stack g killer ms : forall s acc s' cs, gen_children basis aw g killer ms s acc = (s', cs) -> dstack s' = dstack s.
Proof.
  induction ms as [|m r IHm]; intros s acc s' cs E; cbn [gen_children] in E; [now injection E as <- _|].
  destruct (Dfpn.dmv basis g m) as [p| |]; try (now apply IHm in E).
  destruct (child_entry aw s p) as [sx e] eqn:Ec. apply child_entry_stack in Ec.
  destruct (d_delta e =? 0); [injection E as <- _; assumption|]. apply IHm in E. congruence.
Qed.

Lemma mid_okR lfuel : forall fuel, rec_okR (mid basis aw lfuel fuel).
Proof.
  induction fuel as [|f IH]; intros s g bphi bdelta cur s' cur' w E; cbn [mid] in E.
  - injection E as <- <- _. split; [unfold reps; cbn; lia|]. intros A Ht Hg Hfr HSp Hh Hok _ _.
    split; [exact Ht|]. split; [exact Hh|]. split; [exact Hok|]. intros _ HL. exact HL.
  - destruct (exceeded (d_phi cur) (d_delta cur) bphi bdelta) eqn:Eex.
    { injection E as <- <- _. split; [lia|]. intros A Ht Hg Hfr HSp Hh Hok _ _.
      split; [exact Ht|]. split; [exact Hh|]. split; [exact Hok|]. intros _ HL. exact HL. }
    destruct (check_repetition s) eqn:Erep.
    + destruct (terminal_bounds aw g GNone) as [ph de] eqn:Eb. injection E as <- <- _.
      split; [unfold reps; cbn; lia|]. intros A Ht Hg Hfr HSp Hh Hok _ _. cbn [set_bounds d_hash d_phi d_delta].
      split; [exact Ht|]. split; [exact Hh|]. split.
      * eapply (rep_entry_okC basis aw Sp S_step S_small S_hashN S_moves threats_sound_def); [|exact Eb].
        destruct (check_rep_anc basis aw Sp S_step S_small S_hashN S_moves threats_sound_def s g A Hfr Erep) as (a & Ha & Hha).
        apply (CL_rep basis aw Sp S_hashN A g a Ha); auto.
        rewrite Forall_forall in HSp. apply HSp.
        destruct Hfr as [[_ ->]|(pre & m & Es & ->)]; [contradiction|].
        unfold anc. rewrite Es, map_app. apply in_or_app. now left.
      * intros Hf. exfalso. unfold reps in Hf. cbn in Hf. lia.
    + destruct (gen_children basis aw g _ (all_moves g) s []) as [s1 cs] eqn:Egen.
      destruct (mid_loop (mid basis aw lfuel f) bphi bdelta lfuel s1 cs cur 1) as [[s2 cur2] w2] eqn:El.
      injection E as <- <- _.
      apply (mid_loop_okR _ g _ _ (reps s) IH) in El. destruct El as [Hmono2 Hrest].
      pose proof (gen_children_reps _ _ _ _ _ _ _ _ _ Egen) as Hgenr.
      (* the state after the killer update has the table and the counters of s2 *)
      match goal with |- context[if ds_rep (dst ?x) =? _ then _ else _] => set (sk := x) end.
      assert (Hsk : reps sk = reps s2 /\ dtable sk = dtable s2) by (unfold sk; destruct (d_phi cur2 =? 0); split; reflexivity).
      destruct Hsk as [Hsk1 Hsk2].
      split; [rewrite cond_store_reps; lia|].
      intros A Ht Hg Hfr HSp Hh Hok Hb1 Hb2.
      assert (Htm : term g = None).
      { destruct (term g) eqn:Et; [|reflexivity]. exfalso. destruct Hok as (_ & Hc & _ & Hs).
        assert (Hne : term g <> None) by (rewrite Et; discriminate).
        pose proof (solved_exceeded _ _ _ _ Hc (Hs Hne) Hb1 Hb2) as Hx. congruence. }
      destruct (gen_children_okL basis aw Sp S_step S_small S_hash S_nonzero S_moves threats_sound_def g _ Hg Htm _ _ _ _ _ Ht (Forall_nil _) (fun m H => H) Egen)
        as (Hd1 & _ & HcsL & Hcov).
      assert (Ht1 : table_okL s1) by (unfold DfpnFactsL.table_okL; now rewrite Hd1).
      assert (Hcomp : complete basis g cs).
      { destruct Hcov as [[_ Hc]|Hc]; [left|now right]. intros m q Hm Eq. apply (Hc m q Hm Eq). }
      pose proof (gen_children_stack _ _ _ _ _ _ _ Egen) as Hst.
      assert (Ea : anc s1 = anc s) by (unfold anc; now rewrite Hst).
      assert (HcsC : Forall (child_okC (anc s1) g) cs).
      { apply Forall_forall. intros x Hx. apply child_L_C. rewrite Forall_forall in HcsL. now apply HcsL. }
      destruct (Hrest A Hg Htm Hb1 Hb2 Ht1) as (T2 & Hh2 & Hok2 & HL2); auto.
      * rewrite Ea. now apply frame_incl.
      * now rewrite Ea.
      * lia.
      * split.
        { (* the table: the result is stored only when the counter did not move, and then it is unconditional *)
          unfold reps in Hsk1. fold (reps sk) in Hsk1.
          destruct (ds_rep (dst sk) =? ds_rep (dst s)) eqn:Eq.
          - apply N.eqb_eq in Eq. apply store_okL; [unfold DfpnFactsL.table_okL; now rewrite Hsk2|].
            eapply (good_of_okL basis aw Sp S_hash g); eauto.
            apply HL2. unfold reps in *. lia.
          - unfold DfpnFactsL.table_okL. now rewrite Hsk2. }
        split; [exact Hh2|]. split; [exact Hok2|].
        intros Hf _. apply HL2. rewrite cond_store_reps in Hf. lia.
Qed.

(* ---------- Prove ---------- *)
Theorem dfpn_disproven_sound_from lfuel dfuel s0 g s e w :
  Sp g -> table_okL s0 -> dstack s0 = [] -> prove_from basis aw lfuel dfuel s0 g = (s, e, w) ->
  table_okL s /\ (result_of aw g e = 2 -> forall n, wnp n g = false).
Proof.
  intros Hg Ht0 Hst E. unfold prove_from in E.
  assert (Hok : table_okL s /\ entry_okC [] g (d_phi e) (d_delta e)).
  { assert (Hlive : (forall who, game_over g <> Some (true, who)) ->
                    mid basis aw lfuel dfuel s0 g (INF / 2) (INF / 2)
                        {| d_phi := 1; d_delta := 1; d_hash := hash_of g; d_work := 0; d_pv := move0 |} = (s, e, w) ->
                    table_okL s /\ entry_okC [] g (d_phi e) (d_delta e)).
    { intros Hno E'. destruct (mid_okR lfuel dfuel _ _ _ _ _ _ _ _ E') as [_ H].
      assert (Htm : term g = None) by (apply term_live; exact Hno).
      destruct (H [] Ht0 Hg) as (T & _ & C & _); auto.
      - left. split; [assumption|reflexivity].
      - unfold anc. rewrite Hst. constructor.
      - cbn [d_phi d_delta]. unfold DfpnRep1.entry_okC, bounded, canon, claimC, solved. rewrite INF_val. unfold INFv.
        repeat split; try lia; try discriminate. intros Hf. now rewrite Htm in Hf.
      - rewrite INF_val. unfold INFv. cbn. lia.
      - rewrite INF_val. unfold INFv. cbn. lia. }
    destruct (game_over g) as [[[|] who]|] eqn:Eg.
    - destruct (terminal_bounds aw g who) as [ph de] eqn:Eb. injection E as <- <- _. split; [assumption|]. cbn [d_phi d_delta].
      apply okL_okC. eapply (over_entry_okL basis aw Sp S_step S_small S_hash S_nonzero S_moves threats_sound_def); eauto.
    - apply Hlive; [|exact E]. intros w'; congruence.
    - apply Hlive; [|exact E]. intros w'; congruence. }
  destruct Hok as [T C]. split; [exact T|]. intros Hr.
  exact (result_disprovenC basis aw Sp S_step S_hashN S_moves threats_sound_def g e C Hr).
Qed.

(* THE THEOREM: a fresh solver, any table size, any fuel, any run (repetitions and table hits included) *)
Theorem dfpn_disproven_sound lfuel dfuel entries g s e w :
  Sp g -> prove basis aw lfuel dfuel entries g = (s, e, w) -> result_of aw g e = 2 -> forall n, wnp n g = false.
Proof.
  intros Hg E Hr. unfold prove in E.
  destruct (dfpn_disproven_sound_from lfuel dfuel (dstate0 entries) g s e w Hg) as [_ H]; auto.
  apply (table0_okL basis aw Sp S_nonzero).
Qed.

(* ---------- the reused solver (Dfpn.prove_on / prove_seq: table and killers persist between calls) ---------- *)
Definition att_of : N := if aw then 1 else 2.
(* the table of a solver last used for attacker aw holds unconditional facts *)
Definition sv_okL (sv : dsolver) : Prop := sv_attacker sv = att_of -> Forall (good_entryL basis aw Sp) (sv_table sv).

Lemma sv0_okL entries : sv_okL (dsolver0 entries).
Proof.
  intros _. unfold dsolver0. cbn [sv_table]. apply Forall_forall. intros x Hx. apply repeat_spec in Hx. subst x.
  apply (good_dentry0L basis aw Sp S_nonzero).
Qed.

Theorem dfpn_on_sound lfuel dfuel cfg_attacker sv g sv' s e w r :
  aw = match cfg_attacker with 1 => true | 2 => false | _ => to_move_white g end ->
  Sp g -> sv_okL sv -> prove_on basis lfuel dfuel cfg_attacker sv g = (sv', (s, e, w, r)) ->
  sv_okL sv' /\ (r = 2 -> forall n, wnp n g = false).
Proof.
  intros Haw Hg Hsv E. unfold prove_on in E. rewrite <- Haw in E. fold att_of in E.
  match type of E with context[prove_from basis aw lfuel dfuel ?x g] => set (s0 := x) in *; destruct (prove_from basis aw lfuel dfuel s0 g) as [[s1 e1] w1] eqn:Ep end.
  injection E as <- <- <- <- Er.
  assert (Ht0 : table_okL s0).
  { unfold DfpnFactsL.table_okL, s0. cbn [dtable].
    destruct ((sv_attacker sv =? att_of) && (sv_size sv =? size g)) eqn:Ec.
    - apply andb_true_iff in Ec as [Ec _]. apply N.eqb_eq in Ec. now apply Hsv.
    - apply Forall_forall. intros x Hx. apply in_map_iff in Hx as (y & <- & _). apply (good_dentry0L basis aw Sp S_nonzero). }
  destruct (dfpn_disproven_sound_from lfuel dfuel s0 g s1 e1 w1 Hg Ht0 eq_refl Ep) as [T H].
  split; [intros _; exact T|]. intros Hr. apply H. congruence.
Qed.

(* every `disproven` of a sequence of calls on one solver with a configured attacker is sound *)
Theorem dfpn_seq_sound lfuel dfuel cfg_attacker : cfg_attacker = att_of ->
  forall gs sv, Forall Sp gs -> sv_okL sv ->
  Forall2 (fun g (out : dstate * dentry * N * N) => snd out = 2 -> forall n, wnp n g = false)
          gs (prove_seq basis lfuel dfuel cfg_attacker sv gs).
Proof.
  intros Hc gs. induction gs as [|g r IH]; intros sv Hgs Hsv; cbn [prove_seq]; [constructor|].
  inversion Hgs as [|? ? Hg Hr]; subst.
  destruct (prove_on basis lfuel dfuel att_of sv g) as [sv' [[[s e] w] res]] eqn:E.
  assert (Haw : aw = match att_of with 1 => true | 2 => false | _ => to_move_white g end) by (unfold att_of; now destruct aw).
  destruct (dfpn_on_sound lfuel dfuel att_of sv g sv' s e w res Haw Hg Hsv E) as [Hsv' Hres].
  constructor; [exact Hres|]. apply IH; assumption.
Qed.
End DfpnFull.
Print Assumptions dfpn_disproven_sound_from.
Print Assumptions dfpn_disproven_sound.
Print Assumptions dfpn_seq_sound.
