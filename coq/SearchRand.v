(* SearchRand.v: code-shaped model of the randomised move choice of MinimaxAI.GetMove (ai/minimax.go), on top of the engine model
   Search.v (Analyze = Search.analyze_gen, the move generator, pvSearch = Search.srch).

     pv, v, st := ai.Analyze(ctx, p)
     if len(pv) == 0 { return tak.Move{} }
     if ai.Cfg.RandomizeWindow == 0 { return pv[0] }
     if v > WinThreshold || v < -WinThreshold { return pv[0] }
     rv := pv[0]; base := v - ai.Cfg.RandomizeWindow; var i int64
     mg := moveGenerator{ply: 0, depth: st.Depth, p: p, pv: pv}                     (no table entry)
     for m, child := mg.Next(); child != nil; m, child = mg.Next() {
         ai.stack[0].m = m
         _, cv := ai.pvSearch(child, 1, st.Depth-1, pv[1:], -v-1, -base); cv = -cv
         if cv <= base { continue }
         pts := (cv - base) / ai.Cfg.RandomizeScale; i += pts
         if ai.rand.Int63n(i) <= pts { rv = m }
     }
     return rv

   Conventions
   - the random source is an ORACLE STREAM (as in Mcts.v): [rnd] lists the successive values of Rand.Int63() = Source.Int63() (in
     [0, 2^63)) of ai.rand after Analyze has (re)created it from Cfg.Seed; Int63n (power-of-two mask, rejection loop, modulo) is
     transcribed on top of it.  `Err` = the run left the model (stream exhausted); `Panic` = a Go panic.
   - int64 arithmetic wraps (w64); the division is Go's (truncated: Z.quot; x / 0 panics).
   - rscale is Cfg.RandomizeScale AFTER NewMinimax's normalisation (0 becomes 1); rwindow is Cfg.RandomizeWindow.
   - the loop over the generator is bounded like every such loop of Search.v (Search.gfuel; never reached, SearchGen.gfuel_ok).
   Result: (engine state, the move returned, the rest of the stream). *)
From Coq Require Import NArith ZArith List Bool.
Require Import Board Move GameOver Eval Search.
Import ListNotations.
Open Scope Z_scope.

Definition w64 (z : Z) : Z := (z + 2 ^ 63) mod 2 ^ 64 - 2 ^ 63.          (* int64 *)

Fixpoint reject63 (rs : list N) (max : N) : res (N * list N) :=          (* v := r.Int63(); for v > max { v = r.Int63() } *)
  match rs with
  | [] => Err
  | v :: rest => if (max <? v)%N then reject63 rest max else Ok (v, rest)
  end.

(* math/rand: Rand.Int63n *)
Definition int63n (n : Z) (rs : list N) : res (Z * list N) :=
  if n <=? 0 then Panic                                                  (* panic("invalid argument to Int63n") *)
  else
    let nn := Z.to_N n in
    if (N.land nn (nn - 1) =? 0)%N then
      match rs with [] => Err | v :: rest => Ok (Z.of_N (N.land v (nn - 1)), rest) end
    else
      let max := (2 ^ 63 - 1 - (2 ^ 63) mod nn)%N in
      match reject63 rs max with
      | Ok (v, rest) => Ok (Z.of_N (v mod nn), rest)
      | Err => Err
      | Panic => Panic
      end.

Section Rand.
Variable pinned : bool.
Variable basis : list N.
Variable cfg : config.
Variable cancel_at : Z.
Variable rwindow rscale : Z.

(* the loop over the root moves; d, v = Stats.Depth and value of Analyze, pvt = pv[1:], base = v - RandomizeWindow *)
Fixpoint gm_loop (d v base : Z) (pvt : list rmove) (n : nat) (s : sstate) (g : mgen) (rv : rmove) (i : Z) (rnd : list N)
  : res (sstate * rmove * list N) :=
  match n with O => Ok (s, rv, rnd) | S n' =>
    let '(g, nx) := mg_next pinned basis cfg (gfuel g) s g in
    match nx with
    | None => Ok (s, rv, rnd)
    | Some (m, child) =>
      let s := set_fm s 0 m in
      let '(s, (_, cv)) := srch pinned basis cfg cancel_at 40 false s child 1 (d - 1) pvt (w64 (w64 (- v) - 1)) (w64 (- base)) true in
      let cv := w64 (- cv) in
      if cv <=? base then gm_loop d v base pvt n' s g rv i rnd
      else if rscale =? 0 then Panic                                      (* integer divide by zero *)
      else
        let pts := w64 (Z.quot (w64 (cv - base)) rscale) in
        let i := w64 (i + pts) in
        match int63n i rnd with
        | Ok (r, rnd') => gm_loop d v base pvt n' s g (if r <=? pts then m else rv) i rnd'
        | Err => Err
        | Panic => Panic
        end
    end
  end.

Definition get_move_gen (rnd : list N) (s0 : sstate) (p : position) : res (sstate * rmove * list N) :=
  let '(s, (pv, v, d, _, _)) := analyze_gen pinned basis cfg cancel_at s0 p in
  match pv with
  | [] => Ok (s, move0, rnd)                                              (* tak.Move{} *)
  | pm :: pvt =>
    if rwindow =? 0 then Ok (s, pm, rnd)
    else if (WinThreshold <? v) || (v <? - WinThreshold) then Ok (s, pm, rnd)
    else
      let base := w64 (v - rwindow) in
      let g0 := new_gen s None pv 0 d p in
      gm_loop d v base pvt (gfuel g0) s g0 pm 0 rnd
  end.
End Rand.

(* the repaired code; k = 0: never cancelled *)
Definition get_move (basis : list N) (cfg : config) (k rwindow rscale : Z) := get_move_gen false basis cfg k rwindow rscale.
