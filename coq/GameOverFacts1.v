(* C02, part 1: word-level facts that do not mention positions.
   popcount of a word whose set bits are all below k = number of indices below k whose bit is set;
   a word whose set bits are all below k is < 2^k; equality of words that agree below k and vanish above. *)
From Coq Require Import NArith ZArith Arith List Bool Lia ZifyN ZifyBool ZifyNat.
Require Import Board Move GameOver.
Import ListNotations.
Local Open Scope N_scope.

(* all set bits of b are below k *)
Definition below (k b : N) : Prop := forall i, N.testbit b i = true -> i < k.

Lemma below_lt k b : below k b -> b < 2 ^ k.
Proof.
  intros H. destruct (N.eq_dec b 0) as [->|Hn].
  - apply N.neq_0_lt_0. apply N.pow_nonzero. discriminate.
  - apply N.log2_lt_pow2; [lia|]. apply H. apply N.bit_log2. exact Hn.
Qed.

Lemma lt_below k b : b < 2 ^ k -> below k b.
Proof.
  intros H i Hi. destruct (N.ltb_spec i k) as [L|L]; [exact L|].
  destruct (N.eq_dec b 0) as [->|Hn]; [rewrite N.bits_0 in Hi; discriminate|].
  rewrite N.bits_above_log2 in Hi; [discriminate|].
  apply N.lt_le_trans with k; [|exact L]. apply N.log2_lt_pow2; [lia|exact H].
Qed.

Lemma below_ldiff k a b : below k a -> below k (N.ldiff a b).
Proof. intros H i. rewrite N.ldiff_spec. intros T. apply andb_true_iff in T. apply H. tauto. Qed.

Lemma below_lor k a b : below k a -> below k b -> below k (N.lor a b).
Proof. intros Ha Hb i. rewrite N.lor_spec. intros T. apply orb_true_iff in T. destruct T; auto. Qed.

(* two words with no bit at or above k are equal iff they agree below k *)
Lemma below_eq k a b : below k a -> below k b -> (forall i, i < k -> N.testbit a i = N.testbit b i) -> a = b.
Proof.
  intros Ha Hb H. apply N.bits_inj. intros i. destruct (N.ltb_spec i k) as [L|L]; [auto|].
  destruct (N.testbit a i) eqn:Ea; [apply Ha in Ea; lia|].
  destruct (N.testbit b i) eqn:Eb; [apply Hb in Eb; lia|reflexivity].
Qed.

(* ---- popcount ---- *)
Definition cntk (k : nat) (x : N) : nat := length (filter (fun i => N.testbit x (N.of_nat i)) (seq 0 k)).

Lemma popcount_div2 x : popcount x = (if N.odd x then 1 else 0) + popcount (N.div2 x).
Proof.
  destruct x as [|[q|q|]]; cbn [popcount popcount_pos N.odd N.div2]; try reflexivity.
  - change (N.odd (N.pos q~1)) with true. cbv iota. lia.
Qed.

Lemma filter_seq_shift (f : nat -> bool) k : forall s,
  length (filter f (seq (S s) k)) = length (filter (fun i => f (S i)) (seq s k)).
Proof. induction k as [|k IH]; intros s; [reflexivity|]. cbn [seq filter]. destruct (f (S s)); cbn [length]; rewrite IH; reflexivity. Qed.

Lemma cntk_S k x : cntk (S k) x = ((if N.odd x then 1 else 0) + cntk k (N.div2 x))%nat.
Proof.
  unfold cntk. cbn [seq filter]. change (N.of_nat 0) with 0. rewrite N.bit0_odd.
  assert (E : length (filter (fun i => N.testbit x (N.of_nat i)) (seq 1 k))
            = length (filter (fun i => N.testbit (N.div2 x) (N.of_nat i)) (seq 0 k))).
  { rewrite filter_seq_shift. f_equal. apply filter_ext. intros i.
    rewrite N.div2_spec, N.shiftr_spec'. f_equal. lia. }
  destruct (N.odd x); cbn [length]; rewrite E; reflexivity.
Qed.

Lemma popcount_cntk : forall k x, x < 2 ^ N.of_nat k -> popcount x = N.of_nat (cntk k x).
Proof.
  induction k as [|k IH]; intros x Hx.
  - change (2 ^ N.of_nat 0) with 1 in Hx. assert (x = 0) by lia. subst. reflexivity.
  - rewrite popcount_div2, cntk_S. rewrite IH.
    + destruct (N.odd x); lia.
    + rewrite N.div2_div. apply N.div_lt_upper_bound; [lia|].
      replace (N.of_nat (S k)) with (N.succ (N.of_nat k)) in Hx by lia. rewrite N.pow_succ_r' in Hx. exact Hx.
Qed.
Print Assumptions popcount_cntk.

Lemma popcount_below k x : below (N.of_nat k) x -> popcount x = N.of_nat (cntk k x).
Proof. intros H. apply popcount_cntk. now apply below_lt. Qed.

(* ---- list plumbing: filters over `map g (seq 0 m)` ---- *)
Lemma filter_map_length {A B} (f : B -> bool) (g : A -> B) l :
  length (filter f (map g l)) = length (filter (fun a => f (g a)) l).
Proof. induction l as [|a l IH]; [reflexivity|]. cbn [map filter]. destruct (f (g a)); cbn [length]; rewrite IH; reflexivity. Qed.

Lemma filter_ext_in_length {A} (f g : A -> bool) l : (forall a, In a l -> f a = g a) ->
  length (filter f l) = length (filter g l).
Proof.
  induction l as [|a l IH]; intros H; [reflexivity|]. cbn [filter].
  rewrite (H a (or_introl eq_refl)). destruct (g a); cbn [length]; rewrite IH; auto; intros; apply H; now right.
Qed.

Lemma nth_map_seq {A} (g : nat -> A) m k d : (k < m)%nat -> nth k (map g (seq 0 m)) d = g k.
Proof.
  intros H. rewrite nth_indep with (d' := g 0%nat) by (rewrite map_length, seq_length; exact H).
  rewrite map_nth, seq_nth by exact H. reflexivity.
Qed.

(* ---- byte sum of the reserves ---- *)
Lemma u8_sum_zero a b : a + b < 256 -> (u8 (a + b) =? 0) = (a =? 0) && (b =? 0).
Proof. intros H. unfold u8. rewrite N.mod_small by exact H. lia. Qed.

(* the hypothesis is exact: at a + b = 256 the byte sum is 0 although pieces are left *)
Example u8_sum_wraps : (u8 (250 + 6) =? 0) = true /\ ((250 =? 0) && (6 =? 0)) = false.
Proof. split; reflexivity. Qed.
