(* C01/C08 strengthening: the extra clauses of the invariant (canonical stack words, no bitboard bit
   outside the board, hash = fnvBasis xor XOR of hash_at) through the two mutations of a slide:
   lifting the carry off the origin and one drop.  No height hypothesis beyond the byte range. *)
From Coq Require Import NArith ZArith Arith List Bool Lia ZifyN ZifyBool ZifyNat.
Require Import Board Stack Rules Move Refine RefinePlace RefinePlace2 RefinePlace3 Slide1 Slide2 Slide3 Slide4 Slide5 Slide6 Slide7 Slide8 MoveRefines HashInv GameOver Preserve1 Preserve2.
Import ListNotations.
Ltac Zify.zify_post_hook ::= Z.div_mod_to_equations.

Lemma testbit_shl64 x k j : N.testbit (shl64 x k) j = (k <? 64)%N && (j <? 64)%N && (k <=? j)%N && N.testbit x (j - k).
Proof.
  unfold shl64. destruct (N.ltb_spec k 64); cbn [andb]; [|apply N.bits_0].
  rewrite u64_bit. destruct (N.leb_spec k j).
  - rewrite N.shiftl_spec_high' by lia. destruct (j <? 64)%N, (N.testbit x (j - k)); reflexivity.
  - rewrite N.shiftl_spec_low by lia. now destruct (j <? 64)%N.
Qed.

Lemma testbit_one j : (1 <= j)%N -> N.testbit 1 j = false.
Proof. intros. apply N.bits_above_log2. cbn. lia. Qed.

Lemma mask_ok_upd sz w b s c b0 :
  hi_clear sz w -> hi_clear sz b -> hi_clear sz s -> hi_clear sz c ->
  mask_ok sz {| bw := w; bb := b; bs := s; bc := c; bhs := bhs b0; bst := bst b0; bh := bh b0 |}.
Proof. intros. repeat split; assumption. Qed.

Lemma lifted_ext sz b i ct : (3 <= sz <= 8)%N -> (i < sz * sz)%N -> ext_ok sz b ->
  (1 <= ct <= nthN (bhs b) i)%N -> (nthN (bhs b) i <= 255)%N ->
  ext_ok sz (lifted b i ct).
Proof.
  intros Hsz Hi Hext Hct Hh. assert (Hi64 : (i < 64)%N) by nia.
  assert (Hext' := Hext). destruct Hext' as [LH LS ST (M1 & M2 & M3 & M4) HS].
  assert (Hil : (N.to_nat i < length (bhs b))%nat) by (rewrite LH; unfold nsq; nia).
  apply (ext_after sz b (lifted b i ct) i (u8 (nthN (bhs b) i + 256 - ct)) (shr64 (nthN (bst b) i) ct)); try assumption; try reflexivity.
  - intros j Hj. unfold lifted in *. cbn [bhs bst] in *.
    rewrite nthN_updN, Nat.eqb_refl in * by lia.
    unfold shr64. rewrite N.shiftr_spec'. apply (ST i Hi).
    assert (u8 (nthN (bhs b) i + 256 - ct) = nthN (bhs b) i - ct)%N by (unfold u8; lia). lia.
  - unfold lifted, mask_ok. cbn [bw bb bs bc].
    repeat split; try (apply hi_clear_clrb; assumption).
    all: destruct (nthN (bhs b) i =? ct)%N; [|destruct (N.land _ (bit ct) =? 0)%N]; cbn [fst snd];
         try (apply hi_clear_clrb; assumption); apply hi_clear_setb; try assumption; nia.
Qed.

Lemma drop_result_ext sz topk stack ct cN i b s1 : (3 <= sz <= 8)%N -> (i < sz * sz)%N -> ext_ok sz b ->
  (s1 = bs b \/ s1 = clrb (bs b) i) ->
  ((nthN (bhs b) i = 0)%N <-> (has (bw b) i = false /\ has (bb b) i = false)) ->
  (1 <= cN <= ct)%N -> (ct <= 64)%N -> (nthN (bhs b) i + cN <= 255)%N ->
  ext_ok sz (drop_result hsq topk stack ct cN i b s1).
Proof.
  intros Hsz Hi Hext Hs1 Hocc Hcn Hct Hfit. assert (Hi64 : (i < 64)%N) by nia.
  assert (Hext' := Hext). destruct Hext' as [LH LS ST (M1 & M2 & M3 & M4) HS].
  assert (Hil : (N.to_nat i < length (bhs b))%nat) by (rewrite LH; unfold nsq; nia).
  assert (Hil2 : (N.to_nat i < length (bst b))%nat) by (rewrite LS; unfold nsq; nia).
  set (h := nthN (bhs b) i) in *.
  set (pushed := if has (bw b) i then shl64 (nthN (bst b) i) 1 else if has (bb b) i then N.lor (shl64 (nthN (bst b) i) 1) 1 else nthN (bst b) i).
  set (sv := N.lor (shl64 pushed (cN - 1)) (N.land (shr64 stack (ct - (cN - 1))) (u64 (shl64 1 (cN - 1) + (2 ^ 64 - 1))))).
  assert (Hs1c : hi_clear sz s1) by (destruct Hs1 as [->| ->]; [assumption|apply hi_clear_clrb; assumption]).
  assert (Hsz64 : (sz * sz <= 64)%N) by nia.
  apply (ext_after sz b _ i (u8 (h + cN)) sv); try assumption.
  - unfold drop_result. destruct (ct - cN =? 0)%N, topk; reflexivity.
  - unfold drop_result. destruct (ct - cN =? 0)%N, topk; reflexivity.
  - (* the new stack word has no bit at or above h + cN - 1 *)
    assert (Hpush : forall j, (h <= j)%N -> N.testbit pushed j = false).
    { intros j Hj. specialize (ST i Hi). unfold stk_ok in ST. fold h in ST.
      assert (Hsh : (1 <= h)%N -> N.testbit (shl64 (nthN (bst b) i) 1) j = false).
      { intros H1. rewrite testbit_shl64. rewrite (ST (j - 1)%N) by lia. now rewrite andb_false_r. }
      subst pushed. destruct (has (bw b) i) eqn:Ew; [|destruct (has (bb b) i) eqn:Eb].
      - apply Hsh. destruct (N.eq_dec h 0) as [E|E]; [|lia]. apply Hocc in E as [E _]. congruence.
      - assert (1 <= h)%N by (destruct (N.eq_dec h 0) as [E|E]; [|lia]; apply Hocc in E as [_ E]; congruence).
        rewrite N.lor_spec, Hsh, testbit_one by lia. reflexivity.
      - apply ST. assert (h = 0)%N by (apply Hocc; auto). lia. }
    intros j Hj.
    assert (Eh : nthN (bhs (drop_result hsq topk stack ct cN i b s1)) i = (h + cN)%N).
    { unfold drop_result. fold h. destruct (ct - cN =? 0)%N, topk; cbn [bhs]; rewrite nthN_updN, Nat.eqb_refl by lia; apply u8_id; lia. }
    assert (Es : nthN (bst (drop_result hsq topk stack ct cN i b s1)) i = sv).
    { unfold drop_result. destruct (ct - cN =? 0)%N, topk; cbn [bst]; rewrite nthN_updN, Nat.eqb_refl by lia; reflexivity. }
    rewrite Eh in Hj. rewrite Es. subst sv.
    rewrite N.lor_spec, N.land_spec, ones_mask by lia.
    rewrite N.ones_spec_high by lia. rewrite andb_false_r, orb_false_r.
    rewrite testbit_shl64. rewrite (Hpush (j - (cN - 1))%N) by lia. now rewrite andb_false_r.
  - unfold drop_result, mask_ok.
    destruct (ct - cN =? 0)%N, topk; cbn [bw bb bs bc];
      destruct (negb (N.land stack (bit (ct - cN)) =? 0)%N);
      repeat split; try assumption; try (apply hi_clear_clrb; assumption); apply hi_clear_setb; assumption.
  - unfold drop_result. destruct (ct - cN =? 0)%N, topk; reflexivity.
Qed.
Print Assumptions lifted_ext.
Print Assumptions drop_result_ext.
