(* C01 strengthening, part 3: one drop WITHOUT the height hypothesis.  The square stays consistent
   (sq_okw = sq_ok minus the 64 bound), the rules' land_on fails exactly when drop_at fails, the
   length and the top piece of the resulting stack always agree, and the whole stack agrees as soon as
   the new height fits into 64. *)
From Coq Require Import NArith ZArith Arith List Bool Lia ZifyN ZifyBool ZifyNat.
Require Import Board Stack Rules Move Refine RefinePlace RefinePlace2 RefinePlace3 Slide1 Slide2 Slide3 Slide4 Slide5 Slide6 Slide7 Slide8 MoveRefines HashInv GameOver Preserve1 Preserve2 PreserveExt.
Import ListNotations.
Ltac Zify.zify_post_hook ::= Z.div_mod_to_equations.

Record sq_okw (b : bstate) (i : N) : Prop := {
  sw_occ : (nthN (bhs b) i = 0)%N <-> (has (bw b) i = false /\ has (bb b) i = false);
  sw_excl : has (bw b) i && has (bb b) i = false;
  sw_top : (nthN (bhs b) i = 0)%N -> has (bs b) i = false /\ has (bc b) i = false;
  sw_sc : has (bs b) i && has (bc b) i = false }.

Lemma sq_ok_w b i : sq_ok b i -> sq_okw b i.
Proof. intros [A B C D E]. constructor; assumption. Qed.
Lemma sq_okw_ok b i : sq_okw b i -> (nthN (bhs b) i <= 64)%N -> sq_ok b i.
Proof. intros [B C D E] A. constructor; assumption. Qed.

Lemma sq_okw_ext b b' j :
  nthN (bhs b') j = nthN (bhs b) j -> has (bw b') j = has (bw b) j ->
  has (bb b') j = has (bb b) j -> has (bs b') j = has (bs b) j -> has (bc b') j = has (bc b) j ->
  sq_okw b j -> sq_okw b' j.
Proof. intros H1 H2 H3 H4 H5 [B C D E]. constructor; rewrite ?H1, ?H2, ?H3, ?H4, ?H5; assumption. Qed.

(* ---- the rules side: land_on looks only at the head of the target ---- *)
Definition blocked (carry : list piece) (t : option piece) : bool :=
  match t with
  | Some (_, Rules.Cap) => true
  | Some (_, Rules.Standing) => negb (match carry with [(_, Rules.Cap)] => true | _ => false end)
  | _ => false
  end.

Lemma land_on_blocked carry c T : land_on carry c T = None <-> blocked carry (hd_error T) = true.
Proof.
  unfold land_on, blocked. destruct T as [|[tc [| |]] below]; cbn [hd_error].
  - split; discriminate.
  - split; discriminate.
  - destruct carry as [|[cc [| |]] [|? ?]]; cbn; split; intros; try reflexivity; try discriminate.
  - split; reflexivity.
Qed.

Lemma land_on_shape carry c T s : land_on carry c T = Some s -> (1 <= N.to_nat c <= length carry)%nat ->
  length s = (N.to_nat c + length T)%nat /\ hd_error s = hd_error (skipn (length carry - N.to_nat c) carry).
Proof.
  intros H Hc. set (chunk := skipn (length carry - N.to_nat c) carry) in *.
  assert (Hl : length chunk = N.to_nat c) by (subst chunk; rewrite skipn_length; lia).
  assert (Hhd : forall X, hd_error (chunk ++ X) = hd_error chunk).
  { intros X. destruct chunk; [cbn in Hl; lia|reflexivity]. }
  unfold land_on in H. fold chunk in H.
  destruct T as [|[tc [| |]] below].
  - injection H as <-. rewrite app_length, Hhd. cbn [length]. split; [lia|reflexivity].
  - injection H as <-. rewrite app_length, Hhd. cbn [length]. split; [lia|reflexivity].
  - destruct carry as [|[cc [| |]] [|? ?]]; try discriminate. injection H as <-. rewrite app_length, Hhd. cbn [length] in *. split; [lia|reflexivity].
  - discriminate.
Qed.

Lemma hd_abs_stack_b b i :
  hd_error (abs_stack_b b i) =
  if (nthN (bhs b) i =? 0)%N then None else Some (colour_of (has (bb b) i), kind_of (has (bs b) i) (has (bc b) i)).
Proof. unfold abs_stack_b. destruct (nthN (bhs b) i =? 0)%N; reflexivity. Qed.

Lemma length_abs_stack_b b i : length (abs_stack_b b i) = N.to_nat (nthN (bhs b) i).
Proof.
  unfold abs_stack_b. destruct (N.eqb_spec (nthN (bhs b) i) 0) as [E|E]; [rewrite E; reflexivity|].
  cbn [length]. unfold flats. rewrite map_length, bits_length. lia.
Qed.

Definition is_kcap (k : pkind) : bool := match k with KCap => true | _ => false end.

Lemma blocked_concrete topk stack ct i b : sq_okw b i -> (1 <= ct)%N ->
  blocked (carried topk stack (N.to_nat ct)) (hd_error (abs_stack_b b i)) =
  has (bc b) i || (has (bs b) i && (negb (ct =? 1)%N || negb (is_kcap topk))).
Proof.
  intros [Hocc Hex Htop Hsc] Hct. rewrite hd_abs_stack_b.
  destruct (N.eqb_spec (nthN (bhs b) i) 0) as [E|E].
  - destruct (Htop E) as [-> ->]. reflexivity.
  - unfold blocked, kind_of. destruct (has (bs b) i) eqn:Es, (has (bc b) i) eqn:Ec; cbn in Hsc; try discriminate; cbn [orb andb]; try reflexivity.
    destruct (negb (ct =? 1)%N || negb (is_kcap topk)) eqn:Ef.
    + destruct (carried topk stack (N.to_nat ct)) as [|[cc [| |]] [|? ?]] eqn:Ecar; try reflexivity.
      exfalso. assert (Hs : N.to_nat ct = 1%nat /\ topk = KCap) by (apply (proj1 (carried_singleton topk stack (N.to_nat ct))); eauto).
      destruct Hs as [Hs ->]. replace (ct =? 1)%N with true in Ef by lia. discriminate.
    + assert (Hs : N.to_nat ct = 1%nat /\ topk = KCap).
      { apply orb_false_elim in Ef as [E1 E2]. apply negb_false_iff, N.eqb_eq in E1.
        split; [rewrite E1; reflexivity|]. destruct topk; try discriminate; reflexivity. }
      destruct (proj2 (carried_singleton topk stack (N.to_nat ct)) Hs) as [cc ->]. reflexivity.
Qed.

(* ---- the concrete side of a successful drop, no bound beyond the byte range of the height ---- *)
Lemma drop_result_shape topk stack ct cN i b s1 :
  (i < 64)%N -> (N.to_nat i < length (bhs b))%nat -> length (bst b) = length (bhs b) ->
  sq_okw b i -> has (bc b) i = false -> has s1 i = false ->
  (forall j, (j < 64)%N -> j <> i -> has s1 j = has (bs b) j) ->
  (1 <= cN <= ct)%N -> (ct <= 64)%N -> (nthN (bhs b) i + cN <= 255)%N ->
  let b' := drop_result hsq topk stack ct cN i b s1 in
  sq_okw b' i /\ same_elsewhere b b' i /\
  bhs b' = updN (bhs b) (N.to_nat i) (nthN (bhs b) i + cN)%N /\
  (exists sv, bst b' = updN (bst b) (N.to_nat i) sv) /\
  hd_error (abs_stack_b b' i) =
    Some (colour_of (N.testbit stack (ct - cN)), if (ct - cN =? 0)%N then rkind topk else Rules.Flat).
Proof.
  intros Hi Hl Hl2 [Hocc Hex Htop Hsc] Hc Hs1 Hs1o Hcn Hct Hfit b'.
  set (h := nthN (bhs b) i) in *.
  set (blk := negb (N.land stack (bit (ct - cN)) =? 0)%N).
  assert (Hblk : blk = N.testbit stack (ct - cN)) by (apply has_word; lia).
  assert (Ehs : bhs b' = updN (bhs b) (N.to_nat i) (h + cN)%N).
  { subst b'. unfold drop_result. fold h. rewrite (u8_id (h + cN)) by lia. destruct (ct - cN =? 0)%N, topk; reflexivity. }
  assert (Eh : nthN (bhs b') i = (h + cN)%N) by (rewrite Ehs, nthN_updN, Nat.eqb_refl by lia; reflexivity).
  assert (Ebb : has (bb b') i = blk).
  { subst b'. unfold drop_result. fold blk. destruct (ct - cN =? 0)%N, topk; cbn [bb];
      destruct blk; rewrite ?has_setb_same, ?has_clrb_same by assumption; reflexivity. }
  assert (Ebw : has (bw b') i = negb blk).
  { subst b'. unfold drop_result. fold blk. destruct (ct - cN =? 0)%N, topk; cbn [bw];
      destruct blk; rewrite ?has_setb_same, ?has_clrb_same by assumption; reflexivity. }
  assert (Ek : kind_of (has (bs b') i) (has (bc b') i) = if (ct - cN =? 0)%N then rkind topk else Rules.Flat).
  { subst b'. unfold drop_result.
    destruct (ct - cN =? 0)%N.
    - destruct topk; cbn [bs bc rkind]; rewrite ?has_setb_same, ?Hs1, ?Hc by assumption; reflexivity.
    - cbn [bs bc]. now rewrite Hs1, Hc. }
  split; [|split; [|split; [exact Ehs|split]]].
  - constructor.
    + rewrite Eh, Ebb, Ebw. split; [lia|]. intros [A B]. destruct blk; discriminate.
    + rewrite Ebb, Ebw. destruct blk; reflexivity.
    + rewrite Eh. lia.
    + subst b'. unfold drop_result. destruct (ct - cN =? 0)%N, topk; cbn [bs bc];
        rewrite ?has_setb_same, ?Hs1, ?Hc by assumption; reflexivity.
  - subst b'. unfold drop_result, same_elsewhere.
    destruct (ct - cN =? 0)%N, topk; cbn [bw bb bs bc bhs bst]; rewrite !updN_length; (split; [reflexivity|split; [reflexivity|]]);
      intros j Hj Hn; rewrite !nthN_updN by lia;
      (replace (N.to_nat j =? N.to_nat i)%nat with false by lia);
      fold blk; destruct blk; rewrite ?has_setb_other, ?has_clrb_other by assumption;
      repeat split; auto.
  - subst b'. unfold drop_result. destruct (ct - cN =? 0)%N, topk; cbn [bst]; eexists; reflexivity.
  - rewrite hd_abs_stack_b, Eh. destruct (N.eqb_spec (h + cN) 0); [lia|]. now rewrite Ebb, Ek, Hblk.
Qed.

(* what a successful drop guarantees *)
Definition drop_post (topk : pkind) (stack ct cN i : N) (b b' : bstate) (T s : list piece) : Prop :=
  sq_okw b' i /\ same_elsewhere b b' i /\
  bhs b' = updN (bhs b) (N.to_nat i) (nthN (bhs b) i + cN)%N /\
  (exists sv, bst b' = updN (bst b) (N.to_nat i) sv) /\
  length s = N.to_nat (nthN (bhs b) i + cN) /\
  hd_error s = hd_error (abs_stack_b b' i) /\
  ((nthN (bhs b) i + cN <= 64)%N -> s = abs_stack_b b' i) /\
  (forall sz, (3 <= sz <= 8)%N -> (i < sz * sz)%N -> ext_ok sz b -> ext_ok sz b').

Lemma drop_at_sim topk stack ct cN i b T :
  (i < 64)%N -> (N.to_nat i < length (bhs b))%nat -> length (bst b) = length (bhs b) ->
  sq_okw b i -> (1 <= cN <= ct)%N -> (ct <= 64)%N -> (nthN (bhs b) i + cN <= 255)%N ->
  length T = N.to_nat (nthN (bhs b) i) -> hd_error T = hd_error (abs_stack_b b i) ->
  ((nthN (bhs b) i <= 64)%N -> T = abs_stack_b b i) ->
  match drop_at hsq topk stack ct cN i b with
  | Ok b' => exists s, land_on (carried topk stack (N.to_nat ct)) cN T = Some s /\ drop_post topk stack ct cN i b b' T s
  | Err => land_on (carried topk stack (N.to_nat ct)) cN T = None
  | Panic => False
  end.
Proof.
  intros Hi Hl Hl2 Hok Hcn Hct Hfit HTl HTh HTe.
  assert (Hblk := blocked_concrete topk stack ct i b Hok ltac:(lia)). rewrite <- HTh in Hblk.
  assert (Hexact : forall b', drop_at hsq topk stack ct cN i b = Ok b' -> forall s,
            land_on (carried topk stack (N.to_nat ct)) cN T = Some s -> (nthN (bhs b) i + cN <= 64)%N -> s = abs_stack_b b' i).
  { intros b' Hd s Hs Hf. assert (Hh : (nthN (bhs b) i <= 64)%N) by lia.
    assert (L := drop_at_land topk stack ct cN i b Hi Hl Hl2 (sq_okw_ok b i Hok Hh) Hcn Hct Hf).
    rewrite Hd in L. destruct L as [L _]. rewrite <- (HTe Hh), Hs in L. now injection L. }
  assert (Hmain : forall s1, has (bc b) i = false -> has s1 i = false ->
            (forall j, (j < 64)%N -> j <> i -> has s1 j = has (bs b) j) ->
            (s1 = bs b \/ s1 = clrb (bs b) i) ->
            blocked (carried topk stack (N.to_nat ct)) (hd_error T) = false ->
            drop_at hsq topk stack ct cN i b = Ok (drop_result hsq topk stack ct cN i b s1) ->
            exists s, land_on (carried topk stack (N.to_nat ct)) cN T = Some s /\
                      drop_post topk stack ct cN i b (drop_result hsq topk stack ct cN i b s1) T s).
  { intros s1 Hc Hs1 Hs1o Hs1f Hnb Hd.
    destruct (land_on (carried topk stack (N.to_nat ct)) cN T) as [s|] eqn:Hs;
      [|apply land_on_blocked in Hs; congruence].
    exists s. split; [reflexivity|].
    destruct (drop_result_shape topk stack ct cN i b s1 Hi Hl Hl2 Hok Hc Hs1 Hs1o Hcn Hct Hfit) as (A & B & C & D & E).
    destruct (land_on_shape _ _ _ _ Hs ltac:(rewrite carried_length; lia)) as [S1 S2].
    unfold drop_post. split; [exact A|split; [exact B|split; [exact C|split; [exact D|split; [|split; [|split]]]]]].
    - rewrite S1, HTl. lia.
    - rewrite S2, E, carried_length, skipn_carried by lia. cbn [hd_error].
      replace (N.of_nat (N.to_nat ct - N.to_nat cN)) with (ct - cN)%N by lia.
      destruct (N.eqb_spec (ct - cN) 0); [replace (N.to_nat ct - N.to_nat cN =? 0)%nat with true by lia
                                        |replace (N.to_nat ct - N.to_nat cN =? 0)%nat with false by lia]; reflexivity.
    - intros Hf. eapply Hexact; eauto.
    - intros sz Hsz Hisz Hext. apply drop_result_ext; try assumption. destruct Hok; assumption. }
  rewrite drop_at_unfold in * by assumption.
  destruct (has (bc b) i) eqn:Ec.
  - apply land_on_blocked. now rewrite Hblk.
  - destruct (has (bs b) i) eqn:Es.
    + change (match topk with KCap => true | _ => false end) with (is_kcap topk) in *.
      destruct (negb (ct =? 1)%N || negb (is_kcap topk)) eqn:Ef.
      * apply land_on_blocked. now rewrite Hblk.
      * apply Hmain; auto. { now apply has_clrb_same. } { intros; now apply has_clrb_other. }
    + apply Hmain; auto.
Qed.
Print Assumptions drop_at_sim.
