(* C03, part 7 (not needed by Properties/C03.v): the Move.Equal of the C03 theorems is the Move.Equal
   used by the search model (Search.v) and by the C04 instance (LegalMoveInst.v). *)
From Coq Require Import NArith ZArith List Bool Lia ZifyN ZifyBool.
Require Import Board Move GameOver AllMovesFacts AllMovesFacts2.
Require Search LegalMoveInst.

Lemma move_equal_is_search a b : move_equal a b = Search.move_equal a b.
Proof. reflexivity. Qed.

Lemma move_equal_is_c04 a b : move_equal a b = LegalMoveInst.move_equal a b.
Proof.
  unfold move_equal, LegalMoveInst.move_equal.
  destruct (mX a =? mX b)%Z, (mY a =? mY b)%Z, (mT a =? mT b)%N, (5 <=? mT a)%N; reflexivity.
Qed.
