#!/bin/bash
# prints the number of parallel coqc jobs to use: each needs up to ~1 GB (most ~0.5 GB); never more than the cores.
avail=$(awk '/MemAvailable/ {print int($2/1024/1024)}' /proc/meminfo 2>/dev/null)
lim=$(cat /sys/fs/cgroup/memory.max 2>/dev/null)
if [ -n "$lim" ] && [ "$lim" != max ]; then l=$((lim/1024/1024/1024)); [ -z "$avail" ] || [ $l -lt $avail ] && avail=$l; fi
[ -n "$avail" ] || avail=8
j=$((avail*10/12)); n=$(nproc 2>/dev/null || echo 4)
[ $j -gt $n ] && j=$n; [ $j -gt 16 ] && j=16; [ $j -lt 2 ] && j=2
echo $j
