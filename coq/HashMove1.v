(* C08: the incremental hash through a whole move, and the from-scratch hash. *)
From Coq Require Import NArith ZArith Arith List Bool Lia ZifyN ZifyBool ZifyNat.
Require Import Board Stack Rules Move Refine RefinePlace RefinePlace2 RefinePlace3 Slide1 Slide2 Slide3 Slide4 Slide5 Slide6 Slide7 Slide8 MoveRefines HashInv GameOver Preserve1 Preserve2 PreserveExt Preserve3 Preserve4 Preserve5 Preserve6 Reach1.
Require Import Alloc Generated.Consts.
Import ListNotations.

(* hash = fnvBasis xor XOR_i hash_at i, written out *)
Definition hash_good (p : position) : Prop :=
  hash p = N.lxor fnvBasis (hsum hsq (Height p) (Stacks p) (nsq (size p))).

Lemma pos_ok_hash_good p : pos_ok p -> hash_good p.
Proof. intros [_ _ _ [_ _ _ _ H]]. exact H. Qed.

(* C08, invariant of moves: the five XOR-out/XOR-in sites of MovePreallocated keep the hash equal to
   the from-scratch formula.  Holds for EVERY successful move from a position satisfying the invariant -
   no hypothesis on the heights of the result. *)
Theorem hash_invariant_move p m p' : pos_ok p -> mT m <> 1%N -> mv p m = Ok p' -> hash_good p'.
Proof.
  intros Hp Hm E. assert (R := move_exact p m Hp Hm). rewrite E in R.
  destruct R as (s & _ & [S1 _ _ _ _ [_ _ _ _ H]] & _). unfold hash_good. rewrite S1. exact H.
Qed.
Print Assumptions hash_invariant_move.

(* the from-scratch value (what FromSquares computes, GameOver.scratch_hash) *)
Lemma fold_xor_xsum f : forall n base,
  fold_left (fun acc i => N.lxor acc (f i)) (seq 0 n) base = N.lxor base (xsum f n).
Proof.
  induction n as [|n IH]; intros base.
  - cbn. now rewrite N.lxor_0_r.
  - rewrite seq_S, fold_left_app, IH, xsum_S. cbn [fold_left plus]. now rewrite N.lxor_assoc.
Qed.

Lemma scratch_is_hsum p : length (Height p) = nsq (size p) ->
  scratch_hash gen_basis p = N.lxor fnvBasis (hsum hsq (Height p) (Stacks p) (nsq (size p))).
Proof.
  intros L. unfold scratch_hash. rewrite L.
  apply (fold_xor_xsum (fun i => hash_at (hash_sq gen_basis) (Height p) (Stacks p) (N.of_nat i))).
Qed.

Theorem scratch_hash_ok p : pos_ok p -> scratch_hash gen_basis p = hash p.
Proof.
  intros Hp. rewrite scratch_is_hsum by (destruct Hp as [_ [L _ _] _ _]; exact L).
  symmetry. now apply pos_ok_hash_good.
Qed.

Theorem scratch_hash_move p m p' : pos_ok p -> mT m <> 1%N -> mv p m = Ok p' -> scratch_hash gen_basis p' = hash p'.
Proof.
  intros Hp Hm E. assert (R := move_exact p m Hp Hm). rewrite E in R.
  destruct R as (s & _ & [S1 _ _ _ _ [L _ _ _ H]] & _).
  rewrite scratch_is_hsum by (rewrite S1; exact L). rewrite S1. symmetry. exact H.
Qed.

(* every position reachable from tak.New in a game of at most 64 pieces *)
Corollary scratch_hash_reachable sz bwt stones caps ms p :
  (3 <= sz <= 8)%N -> (2 * (stones + caps) <= 64)%N -> no_pass ms ->
  replay (new_pos sz bwt stones caps) ms = Ok p -> scratch_hash gen_basis p = hash p.
Proof. intros. apply scratch_hash_ok. eapply reachable_ok; eauto. Qed.
Print Assumptions scratch_hash_reachable.
