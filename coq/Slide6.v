From Coq Require Import NArith ZArith Arith List Bool Lia ZifyN ZifyBool ZifyNat.
Require Import Board Stack Rules Move Refine RefinePlace RefinePlace2 RefinePlace3 Slide1 Slide2 Slide3 Slide4 Slide5.
Import ListNotations.
Ltac Zify.zify_post_hook ::= Z.div_mod_to_equations.

(* ---- whole-board view of a bstate ---- *)
Definition nsq (sz : N) : nat := N.to_nat sz * N.to_nat sz.
Definition abs_board (sz : N) (b : bstate) : list (list piece) :=
  map (fun i => abs_stack_b b (N.of_nat i)) (seq 0 (nsq sz)).

Record board_ok (sz : N) (b : bstate) : Prop := {
  bo_lenH : length (bhs b) = nsq sz;
  bo_lenS : length (bst b) = nsq sz;
  bo_sq : forall i, (i < sz * sz)%N -> sq_ok b i }.

Lemma abs_stack_b_ext b b' j :
  nthN (bhs b') j = nthN (bhs b) j -> nthN (bst b') j = nthN (bst b) j ->
  has (bb b') j = has (bb b) j -> has (bs b') j = has (bs b) j -> has (bc b') j = has (bc b) j ->
  abs_stack_b b' j = abs_stack_b b j.
Proof. intros H1 H2 H3 H4 H5. unfold abs_stack_b. now rewrite H1, H2, H3, H4, H5. Qed.

Lemma sq_ok_ext b b' j :
  nthN (bhs b') j = nthN (bhs b) j -> has (bw b') j = has (bw b) j ->
  has (bb b') j = has (bb b) j -> has (bs b') j = has (bs b) j -> has (bc b') j = has (bc b) j ->
  sq_ok b j -> sq_ok b' j.
Proof. intros H1 H2 H3 H4 H5 [A B C D E]. constructor; rewrite ?H1, ?H2, ?H3, ?H4, ?H5; assumption. Qed.

Lemma nth_abs_board sz b i : (N.to_nat i < nsq sz)%nat -> nth (N.to_nat i) (abs_board sz b) [] = abs_stack_b b i.
Proof.
  intros H. unfold abs_board.
  rewrite nth_indep with (d' := abs_stack_b b (N.of_nat 0)) by (rewrite map_length, seq_length; exact H).
  rewrite (map_nth (fun i => abs_stack_b b (N.of_nat i))), seq_nth by exact H. cbn [plus]. now rewrite N2Nat.id.
Qed.

(* after a change confined to square i *)
Lemma board_after sz b b' i : (3 <= sz <= 8)%N -> (i < sz * sz)%N ->
  board_ok sz b -> sq_ok b' i -> same_elsewhere b b' i ->
  board_ok sz b' /\ abs_board sz b' = upd (abs_board sz b) (N.to_nat i) (abs_stack_b b' i).
Proof.
  intros Hsz Hi [LH LS SQ] Hok (E1 & E2 & Eo). split.
  - constructor; [congruence|congruence|].
    intros j Hj. destruct (N.eq_dec j i) as [->|Hn]; [assumption|].
    assert (j < 64)%N by nia. destruct (Eo j H Hn) as (A & B & C & D & E & F).
    eapply sq_ok_ext; eauto.
  - unfold abs_board. rewrite upd_map_seq by (unfold nsq; nia). cbn [plus].
    apply map_ext_in. intros j Hj. apply in_seq in Hj.
    destruct (Nat.eqb_spec j (N.to_nat i)) as [->|Hn]; [now rewrite N2Nat.id|].
    assert (N.of_nat j < 64)%N by (unfold nsq in Hj; nia).
    destruct (Eo (N.of_nat j) H ltac:(lia)) as (A & B & C & D & E & F).
    now apply abs_stack_b_ext.
Qed.
Print Assumptions board_after.

Definition ddelta (d : dir) : Z * Z := delta d.

Lemma in_board_on_board p P x y : Rules.n P = N.to_nat (size p) -> (3 <= size p <= 8)%N ->
  (-1 <= x <= Z.of_N (size p))%Z -> (-1 <= y <= Z.of_N (size p))%Z ->
  in_board p x y = on_board P x y.
Proof.
  intros Hn Hs Hx Hy. unfold in_board, on_board. rewrite Hn, N_nat_Z. rewrite (wrap8_id (Z.of_N (size p))) by lia.
  destruct (x <? 0)%Z eqn:A, (Z.of_N (size p) <=? x)%Z eqn:B, (y <? 0)%Z eqn:C, (Z.of_N (size p) <=? y)%Z eqn:D; cbn; lia.
Qed.

Lemma sumN_cons c l : sumN (c :: l) = (c + sumN l)%N.
Proof. reflexivity. Qed.

Lemma drops_deal p P topk stack d : forall ds x y ct b,
  Rules.n P = N.to_nat (size p) -> (3 <= size p <= 8)%N ->
  (0 <= x < Z.of_N (size p))%Z -> (0 <= y < Z.of_N (size p))%Z ->
  board_ok (size p) b ->
  Forall (fun c => 1 <= c)%N ds -> sumN ds = ct -> (ct <= 64)%N ->
  (forall i, (i < size p * size p)%N -> nthN (bhs b) i + ct <= 64)%N ->
  match drops hsq p topk stack (fst (delta d)) (snd (delta d)) x y ct ds b with
  | Ok b' => deal P (abs_board (size p) b) d x y (carried topk stack (N.to_nat ct)) ds = Some (abs_board (size p) b')
             /\ board_ok (size p) b'
  | Err => deal P (abs_board (size p) b) d x y (carried topk stack (N.to_nat ct)) ds = None
  | Panic => False
  end.
Proof.
  induction ds as [|c ds IH]; intros x y ct b Hn Hs Hx Hy Hok Hpos Hsum Hct Hfit.
  - cbn in Hsum. subst ct. cbn. split; [reflexivity|assumption].
  - inversion Hpos as [|? ? Hc Hpos']; subst.
    cbn [drops deal]. destruct (delta d) as [dx dy] eqn:Ed. cbn [fst snd].
    assert (Hd : (-1 <= dx <= 1 /\ -1 <= dy <= 1)%Z) by (destruct d; cbn in Ed; injection Ed as <- <-; lia).
    rewrite (wrap8_id (x + dx)), (wrap8_id (y + dy)) by lia.
    rewrite (in_board_on_board p P) by (auto; lia).
    destruct (on_board P (x + dx) (y + dy)) eqn:Eob; cbn [negb]; [|reflexivity].
    assert (Hx' : (0 <= x + dx < Z.of_N (size p))%Z /\ (0 <= y + dy < Z.of_N (size p))%Z).
    { unfold on_board in Eob. rewrite Hn, N_nat_Z in Eob. lia. }
    destruct Hx' as [Hx' Hy'].
    rewrite sumN_cons in *.
    replace ((c <? 1)%N || (c + sumN ds <? c)%N) with false by lia.
    destruct (sq_index_on_board p (x + dx) (y + dy) Hs Hx' Hy') as [Ei Li].
    set (i := sq_index p (x + dx) (y + dy)) in *.
    assert (Hidx : Rules.idx P (x + dx) (y + dy) = N.to_nat i).
    { unfold Rules.idx. rewrite Hn, Ei. nia. }
    rewrite Hidx.
    assert (Hok' := Hok). destruct Hok' as [LH LS SQ].
    assert (Hi64 : (i < 64)%N) by nia.
    assert (Hil : (N.to_nat i < nsq (size p))%nat) by (unfold nsq; nia).
    rewrite nth_abs_board by assumption.
    assert (L := drop_at_land topk stack (c + sumN ds) c i b Hi64 ltac:(lia) ltac:(lia) (SQ i Li) ltac:(lia) Hct
                   ltac:(specialize (Hfit i Li); lia)).
    destruct (drop_at hsq topk stack (c + sumN ds) c i b) as [b'| |]; cbn [bind]; [|rewrite L; reflexivity|contradiction].
    destruct L as (L1 & L2 & L3 & L4). rewrite L1.
    destruct (board_after (size p) b b' i Hs Li Hok L2 L3) as [Hok' Eb'].
    rewrite <- Eb'.
    rewrite carried_length, firstn_carried by lia.
    replace (N.to_nat (c + sumN ds) - N.to_nat c)%nat with (N.to_nat (c + sumN ds - c)) by lia.
    replace (c + sumN ds - c)%N with (sumN ds) by lia.
    apply IH; auto; try lia.
    intros j Hj. destruct L3 as (_ & _ & Eo).
    destruct (N.eq_dec j i) as [->|Hne].
    + (* the target grew by c, the carry shrank by c *)
      specialize (Hfit i Li). lia.
    + assert (j < 64)%N by nia. destruct (Eo j H Hne) as (A & _). rewrite A. specialize (Hfit j Hj). lia.
Qed.
Print Assumptions drops_deal.
