(* SearchDedup4.v: dedup_value_preserving - the final forms (instantiated model, hash basis regenerated from /repo).
   MakePrecise options, no table, Cfg.DedupSymmetry on or off, any cancellation point, an evaluator that is invariant under the eight
   rebuilt images (eval_symmetric) and inside the root window: whenever Analyze reports a depth d > 0 the value is the exhaustive
   negamax value to depth d and the first move of the line attains it (exact_result) - exactly what C05_analyze_precise_exact_64 says
   without the option.  Positions: G (game under the default configuration, at most 64 pieces) and base_ok; the only hash hypothesis
   is dedup_nocollision (among the successors of one node in the first four plies, a successor with the hash of an image of another IS
   that image).  ai.EvaluateWinner satisfies eval_symmetric (analyze_dedup_exact_winner has no evaluator hypothesis). *)
From Coq Require Import NArith ZArith List Bool Lia.
Require Import Board Stack Rules Move GameOver Refine Preserve1 Preserve5 Preserve6 Reach1.
Require Import Import5 OpeningFacts2.
Require AllMovesFacts2 AllMovesFacts3.
Require Import Eval EvalSpec Search NegamaxSpec SearchGen SearchExact SearchInst SearchNeg1 SearchNeg2 SearchNeg3 SearchNeg4 SearchNeg5.
Require Import SearchDedup SearchDedup2 SearchDedup3.
Require Import Generated.Consts.
Import ListNotations.
Open Scope Z_scope.

(* G is kept by every accepted move (not only the generated ones) *)
Lemma G_step p m c : G p -> Refine.mv p m = Ok c -> G c.
Proof.
  intros HG E. pose proof HG as ([Hp _ _ _] & _).
  pose proof (SearchNeg2.mv_not_pass p m c E) as Hnp.
  destruct (AllMovesFacts3.allmoves_complete p m c (pos_ok_wf p Hp) Hnp E) as (g & Hg & EQ).
  change (AllMovesFacts2.move_equal g m) with (Search.move_equal g m) in EQ.
  pose proof (move_equal_try gen_basis p g m EQ) as ET.
  rewrite (try_ok gen_basis p m Hnp), (try_ok gen_basis p g (all_moves_okm p g Hg)), (mvp_mv p g), (mvp_mv p m), E in ET.
  destruct (Refine.mv p g) as [c'| |] eqn:Eg; try discriminate. inversion ET; subst c'.
  apply (child_image 0 p c ltac:(lia) HG). apply in_children_mv. exists g. split; assumption.
Qed.
Lemma G_replay : forall ms p q, G p -> replay p ms = Ok q -> G q.
Proof.
  induction ms as [|m ms IH]; intros p q HG H; cbn [replay] in H; [inversion H; subst; exact HG|].
  destruct (mv p m) as [p1| |] eqn:E; try discriminate H. apply (IH p1 q (G_step p m p1 HG E) H).
Qed.

(* searchable to depth d; U = the positions the call may touch (closed under the successors of live positions), on which the hash
   hypothesis is asked *)
Definition PosG (U : nat -> position -> Prop) (d : nat) (p : position) : Prop := PosD d p /\ G p /\ U d p.
Definition closedU (U : nat -> position -> Prop) : Prop :=
  forall d p q, U (S d) p -> is_over p = false -> In q (children gen_basis p) -> U d q.

Lemma PosG_closed U : closedU U -> forall d p q, PosG U (S d) p -> is_over p = false -> In q (children gen_basis p) -> PosG U d q.
Proof.
  intros HU d p q (A & B & C) EO Hq. split; [apply (PosD_closed d p q A EO Hq)|]. split; [apply (child_image 0 p q ltac:(lia) B Hq)|apply (HU d p q C EO Hq)].
Qed.

Section Final.
Variable cfg : config.
Variable U : nat -> position -> Prop.
Hypothesis HU : closedU U.
Hypothesis Hprecise : precise cfg.
Hypothesis Hsymm : forall p k, (k < 8)%nat -> G p -> c_eval cfg (imgk p k) = c_eval cfg p.
Hypothesis Hbound : forall d p, PosD d p -> MinEval <= c_eval cfg p <= MaxEval.
Hypothesis NC : dedup_nocollision (PosG U).

Theorem analyze_dedup_exact_sym : forall k dedup s p sk pv v d acc c, SI s -> base_ok p -> G p -> within (dmax cfg) p ->
  move p + Z.of_nat (dmax cfg) <= max_terminal_ply -> (forall d0, (1 <= d0 <= 16)%nat -> Z.of_nat d0 <= c_depth cfg -> U d0 p) ->
  analyze_gen_d gen_basis cfg k dedup s p = (sk, (pv, v, d, acc, c)) ->
  SI sk /\ (0 < d -> exact_result gen_basis cfg p pv v d).
Proof.
  intros k dedup s p sk pv v d acc c HS Hb HG HW Hm HUp H. destruct Hprecise as (P1 & P2 & P3).
  apply (analyze_dedup_exactx gen_basis cfg k dedup P1 P2 P3 (PosG U) (PosG_closed U HU)
           (fun d p m q HP EO => base_ok_hint p m q (proj1 (proj1 (proj1 HP))))
           (fun d p HP EO => base_ok_live p (proj1 (proj1 (proj1 HP))) EO)
           (sym_skip_ok (c_eval cfg) Hsymm (PosG U) (fun d p HP => proj1 (proj2 HP)) NC)
           (fun d p HP => Hbound d p (proj1 HP)) s p sk pv v d acc c HS); [|exact H].
  intros d0 H1 H2. split; [|split; [exact HG|apply HUp; assumption]]. split; [split; [exact Hb|apply (within_dmax cfg); assumption]|]. unfold dmax in Hm. lia.
Qed.
End Final.

(* ai.EvaluateWinner: no hypothesis about the evaluator is left *)
Theorem analyze_dedup_exact_winner : forall cfg U, precise cfg -> c_eval cfg = evaluate_winner -> closedU U -> dedup_nocollision (PosG U) ->
  forall k dedup s p sk pv v d acc c, SI s -> base_ok p -> G p -> move p + 16 <= max_terminal_ply ->
  (forall d0, (1 <= d0 <= 16)%nat -> Z.of_nat d0 <= c_depth cfg -> U d0 p) ->
  analyze_gen_d gen_basis cfg k dedup s p = (sk, (pv, v, d, acc, c)) ->
  SI sk /\ (0 < d -> exact_result gen_basis cfg p pv v d).
Proof.
  intros cfg U HP HE HU NC k dedup s p sk pv v d acc c HS Hb HG Hm HUp H.
  apply (analyze_dedup_exact_sym cfg U HU HP) with (k := k) (dedup := dedup) (s := s) (acc := acc) (c := c); try assumption.
  - intros q j Hj HGq. rewrite HE. apply ewinner_symmetric; assumption.
  - intros d0 q _. rewrite HE. apply evaluate_winner_bounded.
  - apply within_total64; [apply Hb|apply HG].
  - unfold dmax. lia.
Qed.

(* any evaluator that is symmetric and bounded, e.g. the built-in one if it is symmetric (not proved here) *)
Theorem analyze_dedup_exact_64 : forall cfg, precise cfg ->
  (forall p k, (k < 8)%nat -> G p -> c_eval cfg (imgk p k) = c_eval cfg p) ->
  (forall d p, PosD d p -> MinEval <= c_eval cfg p <= MaxEval) -> forall U, closedU U -> dedup_nocollision (PosG U) ->
  forall k dedup s p sk pv v d acc c, SI s -> base_ok p -> G p -> move p + 16 <= max_terminal_ply ->
  (forall d0, (1 <= d0 <= 16)%nat -> Z.of_nat d0 <= c_depth cfg -> U d0 p) ->
  analyze_gen_d gen_basis cfg k dedup s p = (sk, (pv, v, d, acc, c)) ->
  SI sk /\ (0 < d -> exact_result gen_basis cfg p pv v d).
Proof.
  intros cfg HP HS1 HB U HU NC k dedup s p sk pv v d acc c HS Hb HG Hm HUp H.
  apply (analyze_dedup_exact_sym cfg U HU HP HS1 HB NC) with (k := k) (dedup := dedup) (s := s) (acc := acc) (c := c); try assumption.
  - apply within_total64; [apply Hb|apply HG].
  - unfold dmax. lia.
Qed.

(* with the option off the model is Search.v's engine *)
Lemma dedup_off : forall basis cfg k s p,
  analyze_gen_d basis cfg k false s p = analyze_gen false basis cfg k s p /\
  analyze_all_gen_d basis cfg k false s p = analyze_all_gen false basis cfg k s p.
Proof. intros basis cfg k s p. split; [apply analyze_d_off|apply analyze_all_d_off]. Qed.
