From Coq Require Import NArith ZArith Arith List Bool Lia ZifyN ZifyBool ZifyNat.
Require Import Board Stack Rules Move Refine RefinePlace RefinePlace2 RefinePlace3 Slide1 Slide2.
Import ListNotations.
Ltac Zify.zify_post_hook ::= Z.div_mod_to_equations.

Record sq_ok (b : bstate) (i : N) : Prop := {
  so_h : (nthN (bhs b) i <= 64)%N;
  so_occ : (nthN (bhs b) i = 0)%N <-> (has (bw b) i = false /\ has (bb b) i = false);
  so_excl : has (bw b) i && has (bb b) i = false;
  so_top : (nthN (bhs b) i = 0)%N -> has (bs b) i = false /\ has (bc b) i = false;
  so_sc : has (bs b) i && has (bc b) i = false }.

Lemma has_clrb b i j : (i < 64)%N -> (j < 64)%N -> has (clrb b i) j = has b j && negb (j =? i)%N.
Proof. intros. rewrite !has_spec by assumption. unfold clrb. now rewrite N.ldiff_spec, testbit_bit. Qed.

Lemma has_word stack k : (k < 64)%N -> negb (N.land stack (bit k) =? 0)%N = N.testbit stack k.
Proof. intros. change (negb (N.land stack (bit k) =? 0)%N) with (has stack k). now apply has_spec. Qed.

(* tail bits of the destination after a drop *)
Lemma dest_bits stack ct c (h : nat) sti (occ col : bool) :
  (1 <= c <= ct)%nat -> (ct <= 64)%nat -> (h + c <= 64)%nat -> (occ = false -> h = 0%nat) -> (occ = true -> (1 <= h)%nat) ->
  let pushed := if occ then N.lor (shl64 sti 1) (b2n col) else sti in
  bits (h + c - 1)
       (N.lor (shl64 pushed (N.of_nat c - 1))
              (N.land (shr64 stack (N.of_nat ct - (N.of_nat c - 1))) (u64 (shl64 1 (N.of_nat c - 1) + (2 ^ 64 - 1)))))
  = skipn (ct - c + 1) (bits ct stack) ++ (if occ then col :: bits (h - 1) sti else []).
Proof.
  intros Hc Hct Hh H0 H1 pushed.
  rewrite drop_word by lia.
  assert (E : bits (h + c - 1) (N.lor (shl64 pushed (N.of_nat c - 1)) (drop_mask stack ct c))
            = bits (c - 1 + h) (N.lor (N.shiftl pushed (N.of_nat (c - 1))) (drop_mask stack ct c))).
  { replace (h + c - 1)%nat with (c - 1 + h)%nat by lia. apply bits_ext. intros i Hi.
    rewrite !N.lor_spec. f_equal. replace (N.of_nat c - 1)%N with (N.of_nat (c - 1)) by lia.
    unfold shl64. destruct (N.ltb_spec (N.of_nat (c - 1)) 64); [|lia].
    rewrite u64_bit. replace (N.of_nat i <? 64)%N with true by lia. apply andb_true_r. }
  rewrite E, drop_bits by lia. f_equal.
  destruct occ.
  - subst pushed. specialize (H1 eq_refl).
    replace h with (S (h - 1)) at 1 by lia.
    rewrite <- carry_bits. apply bits_ext. intros i Hi. rewrite !N.lor_spec. f_equal.
    unfold shl64. cbn [N.ltb N.compare Pos.compare Pos.compare_cont]. rewrite u64_bit.
    replace (N.of_nat i <? 64)%N with true by lia. apply andb_true_r.
  - rewrite (H0 eq_refl). reflexivity.
Qed.
Print Assumptions dest_bits.
