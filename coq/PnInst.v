(* Instantiation of the solver models with the constants regenerated from /repo; entry points of the C06 driver. *)
From Coq Require Import NArith ZArith List Bool.
Require Import Board Move GameOver Pn Dfpn.
Require Import Generated.Consts.
Import ListNotations.
Open Scope N_scope.

(* prove.New(Config{MaxNodes, PreserveSolved, MaxDepth}).Prove(p): the attacker is the side to move.
   MaxDepth = 0 is replaced by math.MaxInt16 as in Prove(). *)
Definition pn_run (iters dfuel : nat) (maxnodes : N) (preserve : bool) (maxdepth : Z) (p : position) : pn * pstats * N * rmove * N :=
  let md := if (maxdepth =? 0)%Z then 32767%Z else maxdepth in
  prove_pn gen_basis {| pc_maxnodes := maxnodes; pc_preserve := preserve; pc_maxdepth := md |} (to_move_white p) iters dfuel p.

(* prove.NewDFPN(&DFPNConfig{Attacker, TableMem = 32*entries}).Prove(p); attacker: 0 NoColor (side to move), 1 White, 2 Black *)
Definition dfpn_run (lfuel dfuel : nat) (attacker : N) (entries : nat) (p : position) : dstate * dentry * N * N :=
  let aw := match attacker with 1 => true | 2 => false | _ => to_move_white p end in
  let '(s, e, work) := Dfpn.prove gen_basis aw lfuel dfuel entries p in
  (s, e, work, Dfpn.result_of aw p e).
