(* Instantiation of the DFPN model with the constants regenerated from /repo (the PN entry point is PnRun.pn_run). *)
From Coq Require Import NArith ZArith List Bool.
Require Import Board Move GameOver Pn Dfpn.
Require Import Generated.Consts.
Import ListNotations.
Open Scope N_scope.

(* prove.NewDFPN(&DFPNConfig{Attacker, TableMem = 32*entries}).Prove(p); attacker: 0 NoColor (side to move), 1 White, 2 Black *)
Definition dfpn_run (lfuel dfuel : nat) (attacker : N) (entries : nat) (p : position) : dstate * dentry * N * N :=
  let aw := match attacker with 1 => true | 2 => false | _ => to_move_white p end in
  let '(s, e, work) := Dfpn.prove gen_basis aw lfuel dfuel entries p in
  (s, e, work, Dfpn.result_of aw p e).

(* one solver, several positions in a row *)
Definition dfpn_run_seq (lfuel dfuel : nat) (attacker : N) (entries : nat) (ps : list position) : list (dstate * dentry * N * N) :=
  prove_seq gen_basis lfuel dfuel attacker (dsolver0 entries) ps.
