(* Instantiation of the code-shaped models with the constants regenerated from /repo. *)
From Coq Require Import NArith ZArith List Bool.
Require Import Board Move GameOver Rules Refine.
Require Import Generated.Consts.
Import ListNotations.
Open Scope N_scope.

(* The hash constants transcribed in GameOver.v are the implementation's. *)
Lemma fnv_consts_current : gen_fnvBasis = fnvBasis /\ gen_fnvPrime = fnvPrime.
Proof. split; reflexivity. Qed.
Lemma basis_length : length gen_basis = 64%nat.
Proof. reflexivity. Qed.

Definition hsq := Refine.hsq.
Definition mv_pinned := move_prealloc hsq false.
Definition mv_fixed := move_prealloc hsq true.
Definition hash_full (p : position) : N := hash_of p.
Definition scratch (p : position) : N := scratch_hash gen_basis p.

(* TPS codec with the regenerated basis (FromSquares computes the from-scratch hash) *)
Require Import Tps.
Definition tps_parse := Tps.parse_tps gen_basis.
Definition tps_format := Tps.format_tps.

(* symmetry/canonical.go with the regenerated basis *)
Require Import Symmetry.
Definition sym_symmetries := Symmetry.symmetries gen_basis.
Definition sym_canonical := Symmetry.canonical gen_basis.
Definition sym_transform (sz : N) (i : nat) (m : rmove) := Symmetry.transform_move (nth i (Symmetry.syms (Z.of_N sz)) (fun x y => (x, y))) m.
