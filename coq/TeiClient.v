(* TeiClient.v: code-shaped model of the TEI CLIENT, tei/client.go (Client.NewGame, Client.sendCommand, Player.TEIGetMove,
   Player.GetMove, NewClient's handshake, Close) and tei/time.go (formatTime), over byte strings as Tei.v does.

   The engine PROCESS at the other end of the two pipes is a parameter of the model: a state type [ES] and
     eng : ES -> line -> option (eresp ES)
   [eng s line] is what happens when the client writes [line ++ "\n"] to the engine's stdin in engine state [s]:
   None = the write fails (the engine closed its stdin / has exited: EPIPE); Some r = the write succeeds, the engine goes to
   [er_state r], writes the complete lines [er_out r] to its stdout and, when [er_closed r], closes its stdout afterwards
   (an unterminated last fragment before the close is the same as nothing: bufio.ReadString returns it WITH io.EOF and
   sendCommand drops it).  The pipes are FIFO and the client is sequential, so the client's read side is the concatenation
   of the outputs of the commands written so far, less what sendCommand has consumed: [c_buf], and [c_closed].

   sendCommand reads only when it expects an answer ("tei" -> "teiok", "go ..." -> "bestmove"); the output an engine prints for
   `teinewgame`/`position` stays in the pipe and is met by the next reading loop.  The loop is
        line = strings.TrimSpace(line); words := strings.Fields(line); if words[0] == expect { return words }
   strings.Fields ignores leading and trailing white space, so Fields(TrimSpace(l)) = Fields(l) = [Tei.fields l]; on a line of
   white space only Fields returns an empty slice and `words[0]` PANICS (index out of range): [PBlankLine].  When the buffer is
   empty the read blocks - for ever if the engine neither answers nor closes its stdout ([RHang]; TEIGetMove does not watch
   its context while it reads) - or returns io.EOF when the engine closed its stdout ([ERead]).

   Outcomes: what the Go function returned (ROk / RErr class), that it panicked (RPanic class), or that it never returns. *)
From Coq Require Import NArith ZArith List Bool Lia Ascii String.
Require Import Board Move GameOver PtnMove Playtak Tps TeiBudget Tei.
Import ListNotations.
Local Open Scope char_scope.
Local Open Scope N_scope.

Inductive cerr :=
| EWrite            (* sendCommand: fmt.Fprintln failed *)
| ERead             (* sendCommand: ReadString failed (io.EOF) *)
| ESendPosition     (* "send position: %w" *)
| ETimeoutShort     (* "Timeout too short" *)
| EServer           (* "tei: server error: %w" *)
| EBadBestmove      (* "bad bestmove: %v" *)
| EUnparseable.     (* "tei: unparseable move: %q" *)
Inductive cpanic :=
| PDeadPlayer                (* panic("bad gameid: calling GetMove on a dead player") *)
| PBlankLine                 (* words[0] on an engine line without a word: index out of range [0] with length 0 *)
| PGetMove (e : cerr).       (* GetMove: panic("TEI: GetMove: ...") *)
Inductive outcome (A : Type) := ROk (a : A) | RErr (e : cerr) | RPanic (w : cpanic) | RHang.
Arguments ROk {A}. Arguments RErr {A}. Arguments RPanic {A}. Arguments RHang {A}.

Record eresp (ES : Type) := { er_state : ES; er_out : list (list N); er_closed : bool }.
Arguments er_state {ES}. Arguments er_out {ES}. Arguments er_closed {ES}.

(* ---- tei/time.go ---- *)
(* formatTime: ms := d / time.Millisecond (truncated division); if ms < 0 { ms = 0 }; strconv.FormatUint(uint64(ms), 10) *)
Definition format_time (d : Z) : list N :=
  let ms_ := Z.quot d 1000000 in
  let ms_ := if (ms_ <? 0)%Z then 0%Z else ms_ in
  fmt_int ms_.

Record tctl := { tc_white : Z; tc_black : Z; tc_winc : Z; tc_binc : Z }.     (* TimeControl: time.Duration = int64 ns *)

(* the loop over {wtime, btime, winc, binc}: None = errors.New("Timeout too short") *)
Fixpoint tc_words (ts : list (list N * Z)) (acc : list (list N)) : option (list (list N)) :=
  match ts with
  | [] => Some acc
  | (key, dur) :: r =>
    if (dur =? 0)%Z then tc_words r acc
    else if (dur <? 1000000)%Z then None
    else tc_words r (acc ++ [key; format_time dur])
  end.

(* goCmd; [dl] = left := deadline.Sub(time.Now()) when the context has a deadline.  None = errors.New("Timeout too short").
   Repaired tree (fix "tei client refuses a deadline less than a millisecond away instead of sending movetime 0"):
   `if left < time.Millisecond { return ..., errors.New("Timeout too short") }` before the movetime word is appended. *)
Definition go_words (dl : option Z) (tc : option tctl) : option (list (list N)) :=
  let g := [s_go] in
  match (match dl with
         | Some d => if (d <? 1000000)%Z then None else Some (g ++ [s_movetime; format_time d])
         | None => Some g
         end) with
  | None => None
  | Some g =>
    match tc with
    | None => Some g
    | Some t => tc_words [(s_wtime, tc_white t); (s_btime, tc_black t); (s_winc, tc_winc t); (s_binc, tc_binc t)] g
    end
  end.

(* the code before that repair (kept as the record of the finding): every deadline is sent, one less than 1 ms ahead or already
   passed as `movetime 0` *)
Definition go_words_pinned (dl : option Z) (tc : option tctl) : option (list (list N)) :=
  let g := [s_go] in
  let g := match dl with Some d => g ++ [s_movetime; format_time d] | None => g end in
  match tc with
  | None => Some g
  | Some t => tc_words [(s_wtime, tc_white t); (s_btime, tc_black t); (s_winc, tc_winc t); (s_binc, tc_binc t)] g
  end.
Definition go_line (ws : list (list N)) : list N := join (B " ") ws.          (* strings.Join(goCmd, " ") *)

Definition position_line (p : position) : list N := str "position tps " ++ format_tps p.
Definition newgame_line (size : Z) : list N := str "teinewgame " ++ fmt_int size.
Definition s_bestmove := str "bestmove". Definition s_teiok := str "teiok".

Section C.
Variable ES : Type.
Variable eng : ES -> list N -> option (eresp ES).

Record client := { c_gameid : Z; c_es : ES; c_buf : list (list N); c_closed : bool }.

(* the reading loop of sendCommand over the lines in the pipe: (lines left, result) *)
Fixpoint wait_for (expect : list N) (buf : list (list N)) (closed : bool) : list (list N) * outcome (list (list N)) :=
  match buf with
  | [] => ([], if closed then RErr ERead else RHang)
  | l :: r =>
    match fields l with
    | [] => (r, RPanic PBlankLine)
    | w0 :: ws => if bytes_eqb w0 expect then (r, ROk (w0 :: ws)) else wait_for expect r closed
    end
  end.

(* Client.sendCommand(cmd, expect) *)
Definition send_command (c : client) (cmd expect : list N) : client * outcome (list (list N)) :=
  match eng (c_es c) cmd with
  | None => (c, RErr EWrite)
  | Some r =>
    let buf := if c_closed c then c_buf c else c_buf c ++ er_out r in
    let closed := c_closed c || er_closed r in
    match expect with
    | [] => ({| c_gameid := c_gameid c; c_es := er_state r; c_buf := buf; c_closed := closed |}, ROk [])
    | _ => let '(rest, o) := wait_for expect buf closed in
           ({| c_gameid := c_gameid c; c_es := er_state r; c_buf := rest; c_closed := closed |}, o)
    end
  end.

(* Client.Close: sendCommand("quit", ""), result ignored *)
Definition close (c : client) : client := fst (send_command c s_quit []).

(* NewClient after cmd.Start(): the handshake; on failure Close() and the error *)
Definition new_client (es0 : ES) : client * outcome unit :=
  let c0 := {| c_gameid := 0; c_es := es0; c_buf := []; c_closed := false |} in
  match send_command c0 s_tei s_teiok with
  | (c1, ROk _) => (c1, ROk tt)
  | (c1, RErr e) => (close c1, RErr e)
  | (c1, RPanic w) => (c1, RPanic w)
  | (c1, RHang) => (c1, RHang)
  end.

(* Client.NewGame(size): the Player is its gameid *)
Definition new_game (c : client) (size : Z) : client * outcome Z :=
  let c1 := {| c_gameid := wrap64 (c_gameid c + 1); c_es := c_es c; c_buf := c_buf c; c_closed := c_closed c |} in
  match send_command c1 (newgame_line size) [] with
  | (c2, ROk _) => (c2, ROk (c_gameid c1))
  | (c2, RErr e) => (c2, RErr e)
  | (c2, RPanic w) => (c2, RPanic w)
  | (c2, RHang) => (c2, RHang)
  end.

(* Player.TEIGetMove(ctx, pos, tc); [pgid] = the player's gameid, [dl] = time left until ctx's deadline (if it has one) *)
Definition tei_get_move (c : client) (pgid : Z) (p : position) (dl : option Z) (tc : option tctl) : client * outcome PtnMove.move :=
  if negb (pgid =? c_gameid c)%Z then (c, RPanic PDeadPlayer) else
  match send_command c (position_line p) [] with
  | (c1, RErr _) => (c1, RErr ESendPosition)
  | (c1, RPanic w) => (c1, RPanic w)
  | (c1, RHang) => (c1, RHang)
  | (c1, ROk _) =>
    match go_words dl tc with
    | None => (c1, RErr ETimeoutShort)
    | Some ws =>
      match send_command c1 (go_line ws) s_bestmove with
      | (c2, RErr _) => (c2, RErr EServer)
      | (c2, RPanic w) => (c2, RPanic w)
      | (c2, RHang) => (c2, RHang)
      | (c2, ROk bm) =>
        if negb (List.length bm =? 2)%nat then (c2, RErr EBadBestmove) else
        match parse_move (nth 1 bm []) with
        | PtnMove.Ok m => (c2, ROk m)
        | PtnMove.Err => (c2, RErr EUnparseable)
        | PtnMove.Panic => (c2, RPanic PBlankLine)          (* parse_move never panics (TeiFacts.parse_move_total) *)
        end
      end
    end
  end.

(* Player.GetMove(ctx, pos) *)
Definition get_move (c : client) (pgid : Z) (p : position) (dl : option Z) : client * outcome PtnMove.move :=
  match tei_get_move c pgid p dl None with
  | (c1, RErr e) => (c1, RPanic (PGetMove e))
  | r => r
  end.
End C.

Arguments c_gameid {ES}. Arguments c_es {ES}. Arguments c_buf {ES}. Arguments c_closed {ES}.

(* ---- the engine process of `taktician tei`: Engine.Run of Tei.v on the other end of the pipes ----
   While Run is in its loop every line is one [step]; when Run returns (quit, an error) or panics the process exits: its
   stdout is closed after what it printed, and later writes of the client fail. *)
Section Compose.
Variable basis : list N.
Variable SS : Type.
Variable mk_searcher : Z -> SS.
Variable search : SS -> option Z -> position -> SS * (list rmove * Z * Z * Z).

Record proc := { p_eng : engine SS; p_alive : bool }.
Definition proc0 : proc := {| p_eng := engine0 SS; p_alive := true |}.
Definition tei_proc (st : proc) (line : list N) : option (eresp proc) :=
  if negb (p_alive st) then None else
  let r := step basis SS mk_searcher search (p_eng st) line in
  let alive := match sr_status r with Running => true | _ => false end in
  Some {| er_state := {| p_eng := sr_eng r; p_alive := alive |}; er_out := sr_out r; er_closed := negb alive |}.
End Compose.
Arguments p_eng {SS}. Arguments p_alive {SS}.
