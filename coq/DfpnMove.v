(* C06: the move that DFPNSolver.Prove returns with `proven` (ProofResult.Move = entry.pv of the root entry).
   mid sets current.pv to the move of the child it descends into, every time it descends; the root entry starts with the zero
   Move.  So a returned move of type <> 0 is the move of the LAST child the root loop descended into.
     - attacker to move at the root, `proven` (phi = 0): the loop went on only while no child had delta = 0, so the child that
       closed the proof is the one it last descended into: the returned move is a generated legal move after which the attacker
       still has a forced win;
     - attacker NOT to move at the root (configured Attacker = the other player), `proven` (delta = 0): every child is won; the
       returned move is a generated legal move OF THE DEFENDER (the line the search examined last), and the attacker has a
       forced win after it too.
   In both cases: In m (all_moves g), Position.Move accepts m, W of the successor.  The zero Move (type 0) comes with `proven`
   when the root is solved while its children are generated (no descent) or the game is over at the root: no claim then. *)
From Coq Require Import NArith ZArith List Bool Lia Arith.
Require Import Board Move GameOver Eval Search AndOr Pn PnFacts Dfpn DfpnFacts.
Import ListNotations.
Open Scope N_scope.

Strategy 1000 [solve lookup game_over all_moves hash_of count_threats analyze check_repetition].

(* ---------- structure: every child carries the move that leads to its position ---------- *)
Section Moves.
Variable basis : list N.
Variable aw : bool.
Notation dmv := (Dfpn.dmv basis).

Definition child_mv (g : position) (ch : dchild) : Prop := In (ch_move ch) (all_moves g) /\ dmv g (ch_move ch) = Ok (ch_g ch).

Lemma gen_children_mv g killer : forall ms s acc s' cs,
  Forall (child_mv g) acc -> (forall m, In m ms -> In m (all_moves g)) ->
  gen_children basis aw g killer ms s acc = (s', cs) -> Forall (child_mv g) cs.
Proof.
  induction ms as [|m r IH]; intros s acc s' cs Hacc Hms E; cbn [gen_children] in E; [now injection E as _ <-|].
  destruct (dmv g m) as [p| |] eqn:Em; try (eapply IH; [exact Hacc|intros; apply Hms; now right|exact E]).
  destruct (child_entry aw s p) as [s1 e].
  set (ch := {| ch_move := m; ch_g := p; ch_data := e |}) in *.
  set (acc1 := match killer with Some k => if rmove_eqb m k then swap_first_last (acc ++ [ch]) else acc ++ [ch] | None => acc ++ [ch] end) in *.
  assert (Hacc1 : Forall (child_mv g) acc1).
  { assert (Hin1 : forall x, In x acc1 -> In x (acc ++ [ch])).
    { intros x. unfold acc1. destruct killer as [k|]; [|tauto]. destruct (rmove_eqb m k); [apply swap_in|tauto]. }
    apply Forall_forall. intros x Hx. apply Hin1 in Hx. apply in_app_or in Hx as [Hx|[<-|[]]].
    - rewrite Forall_forall in Hacc. now apply Hacc.
    - split; [apply Hms; now left|exact Em]. }
  destruct (d_delta e =? 0); [injection E as _ <-; exact Hacc1|].
  eapply IH; [exact Hacc1|intros; apply Hms; now right|exact E].
Qed.

Lemma set_child_moves cs i e m : (exists ch, In ch cs /\ ch_move ch = m) -> exists ch, In ch (set_child cs i e) /\ ch_move ch = m.
Proof.
  unfold set_child.
  assert (G : forall l k, (exists ch, In ch l /\ ch_move ch = m) ->
    exists ch, In ch ((fix go (l : list dchild) (k : nat) : list dchild :=
            match l with [] => [] | c :: r => if Nat.eqb k i then {| ch_move := ch_move c; ch_g := ch_g c; ch_data := e |} :: r else c :: go r (S k) end) l k) /\ ch_move ch = m).
  { induction l as [|c r IH]; intros k (ch & Hin & Hq); [contradiction|].
    destruct (Nat.eqb k i).
    - destruct Hin as [<-|Hin]; [eexists; split; [now left|assumption]|exists ch; split; [now right|assumption]].
    - destruct Hin as [<-|Hin]; [exists c; split; [now left|assumption]|].
      destruct (IH (S k)) as (ch' & Hin' & Hq'); [eauto|]. exists ch'. split; [now right|assumption]. }
  intros H. now apply G.
Qed.
End Moves.

Section DfpnMove.
Variable basis : list N.
Variable aw : bool.
Variable Sp : position -> Prop.

Notation W := (PnFacts.W basis aw).
Notation term := (PnFacts.terminal aw).
Notation attp := (PnFacts.attp aw).
Notation succs := (PnFacts.succs basis).
Notation dmv := (Dfpn.dmv basis).

Hypothesis S_step : forall p m q, Sp p -> term p = None -> In m (all_moves p) -> dmv p m = Ok q -> Sp q.
Hypothesis S_small : forall p, Sp p -> size p <= 8.
Hypothesis S_hash : forall p q, Sp p -> Sp q -> hash_of p = hash_of q ->
  (W p <-> W q) /\ to_move_white p = to_move_white q /\ term p = term q.
Hypothesis S_nonzero : forall p, Sp p -> hash_of p <> 0.
Hypothesis S_moves : forall p, Sp p -> term p = None -> all_moves p <> [].
Hypothesis threats_sound : forall p, Sp p -> term p = None -> solve p <> None -> attp p = true -> W p.

Notation table_ok := (table_ok basis aw Sp).
Notation entry_ok := (entry_ok basis aw).
Notation child_ok := (child_ok basis aw Sp).
Notation rec_ok := (rec_ok basis aw Sp).
Notation child_mv := (child_mv basis).

Lemma nodeP g cs ph de : Sp g -> term g = None -> Forall (child_ok g) cs -> complete basis g cs -> compute_pns cs = (ph, de) ->
  entry_ok g ph de.
Proof. exact (node_entry basis aw Sp S_step S_small S_hash S_nonzero S_moves threats_sound g cs ph de). Qed.

Lemma flipP g m q : dmv g m = Ok q -> attp q = negb (attp g).
Proof. exact (attp_flip basis aw Sp S_step S_hash S_moves threats_sound g m q). Qed.

(* what the entry a call returns says about its pv *)
Definition pv_out (g : position) (cur : dentry) : Prop :=
  mT (d_pv cur) <> 0 ->
  exists q, In (d_pv cur) (all_moves g) /\ dmv g (d_pv cur) = Ok q /\
            (d_phi cur = 0 -> attp g = true -> W q) /\ (d_delta cur = 0 -> attp g = false -> W q).

(* loop invariants: the pv is the zero move or the move of a child; a child with delta = 0, if any, is the pv's *)
Definition pvK (cs : list dchild) (cur : dentry) : Prop := mT (d_pv cur) = 0 \/ exists ch, In ch cs /\ ch_move ch = d_pv cur.
Definition pvJ (cs : list dchild) (cur : dentry) : Prop :=
  (forall ch, In ch cs -> cdelta ch <> 0) \/ mT (d_pv cur) = 0 \/ exists ch, In ch cs /\ ch_move ch = d_pv cur /\ cdelta ch = 0.

Lemma exit_pv g cs cur ph de pv :
  Sp g -> term g = None -> Forall (child_ok g) cs -> Forall (child_mv g) cs -> compute_pns cs = (ph, de) ->
  (mT pv = 0 \/ exists ch, In ch cs /\ ch_move ch = pv) ->
  ((forall ch, In ch cs -> cdelta ch <> 0) \/ mT pv = 0 \/ exists ch, In ch cs /\ ch_move ch = pv /\ cdelta ch = 0) ->
  pv_out g {| d_phi := ph; d_delta := de; d_hash := d_hash cur; d_work := d_work cur; d_pv := pv |}.
Proof.
  intros Hg Htm Hcs Hmv Ecp HK HJ Hne. cbn [d_pv d_phi d_delta] in *.
  destruct HK as [HK|(ch & Hin & Hm)]; [contradiction|].
  rewrite Forall_forall in Hcs, Hmv.
  destruct (Hmv ch Hin) as [M1 M2]. rewrite Hm in M1, M2.
  exists (ch_g ch). split; [exact M1|]. split; [exact M2|].
  rewrite compute_pns_eq in Ecp. injection Ecp as Eph Ede.
  split.
  - intros H0 Ha. rewrite H0 in Eph. apply fmin_0 in Eph as [Eph|(x & Hx & Hd)]; [now apply INF_pos in Eph|].
    destruct HJ as [HJ|[HJ|(ch' & Hin' & Hm' & Hd')]]; [now contradiction (HJ x Hx)|contradiction|].
    destruct (Hmv ch' Hin') as [_ M2']. rewrite Hm' in M2'. rewrite M2 in M2'. injection M2' as Eg.
    destruct (Hcs ch' Hin') as (_ & _ & _ & (_ & _ & [_ C2] & _)). rewrite Eg.
    apply C2; [|exact Hd']. rewrite <- Eg. rewrite (flipP _ _ _ M2), Ha. reflexivity.
  - intros H0 Ha. rewrite H0 in Ede. apply fsum_0 in Ede as [_ Hall].
    destruct (Hcs ch Hin) as (_ & _ & _ & (_ & _ & [C1 _] & _)).
    apply C1; [|now apply Hall]. rewrite (flipP _ _ _ M2), Ha. reflexivity.
Qed.

Lemma mid_loop_pv rec g bphi bdelta : rec_ok rec -> Sp g -> term g = None -> bphi <= INF -> bdelta <= INF ->
  forall k s cs cur lw s' cur' w,
    table_ok s -> d_hash cur = hash_of g -> Forall (child_ok g) cs -> Forall (child_mv g) cs -> complete basis g cs ->
    pvK cs cur -> pvJ cs cur ->
    mid_loop rec bphi bdelta k s cs cur lw = (s', cur', w) -> pv_out g cur'.
Proof.
  intros Hrec Hg Htm Hb1 Hb2 k. induction k as [|k IH]; intros s cs cur lw s' cur' w Ht Hh Hcs Hmv Hcomp HK HJ E; cbn [mid_loop] in E;
    destruct (compute_pns cs) as [ph de] eqn:Ecp; pose proof (nodeP g cs ph de Hg Htm Hcs Hcomp Ecp) as Hnode.
  - injection E as _ <- _. unfold set_bounds. eapply exit_pv; eauto.
  - destruct (exceeded ph de bphi bdelta) eqn:Eex.
    + injection E as _ <- _. unfold set_bounds. eapply exit_pv; eauto.
    + destruct (select_child cs bphi bdelta de) as [best [cphi' cdelta']] eqn:Esel.
      destruct (nth_error cs (Z.to_nat best)) as [ch|] eqn:En.
      * assert (Hunsolved : ~ solved ph de).
        { intros Hsol. destruct Hnode as (_ & Hc & _). rewrite (solved_exceeded _ _ _ _ Hc Hsol Hb1 Hb2) in Eex. discriminate. }
        assert (Hnod0 : forall x, In x cs -> cdelta x <> 0).
        { intros x Hx Hd. apply Hunsolved. left.
          rewrite compute_pns_eq in Ecp. injection Ecp as Eph _. subst ph.
          apply N.le_antisymm; [|lia].
          assert (forall l a, In x l -> fold_left (fun m ch => N.min m (cdelta ch)) l a <= cdelta x) as Hm.
          { induction l as [|c r IHl]; intros a Hin; [contradiction|]. cbn. destruct Hin as [<-|Hin]; [|now apply IHl].
            pose proof (fmin_le r (N.min a (cdelta c))). lia. }
          specialize (Hm cs INF Hx). lia. }
        assert (Hcomp1 : forall m q, In m (all_moves g) -> dmv g m = Ok q -> covered cs q).
        { destruct Hcomp as [Hc|(x & Hx & Hd)]; [exact Hc|]. now contradiction (Hnod0 x Hx). }
        assert (Hchin : In ch cs) by (eapply nth_error_In; eauto).
        assert (Hchok : child_ok g ch) by (rewrite Forall_forall in Hcs; now apply Hcs).
        destruct Hchok as (HSc & Hmvc & Hhc & Hokc).
        assert (Hthr : cphi' <= INF /\ cdelta' <= INF).
        { eapply select_child_bounds; eauto. intros c Hc. rewrite En in Hc. injection Hc as <-.
          rewrite compute_pns_eq in Ecp. injection Ecp as _ Ede. subst de.
          apply fsum_ge; [rewrite INF_val; unfold INFv; lia|exact Hchin|apply Hokc]. }
        destruct Hthr as [Hthr1 Hthr2].
        match type of E with context[rec ?s1 _ _ _ _] => destruct (rec s1 (ch_g ch) cphi' cdelta' (ch_data ch)) as [[s2 ne] w2] eqn:Er end.
        apply Hrec in Er; auto. destruct Er as (Ht2 & Hh2 & Hok2).
        destruct (dfuel_out s2).
        -- injection E as _ <- _. eapply exit_pv; eauto.
        -- eapply IH in E; eauto.
           ++ apply Forall_forall. intros x Hx. apply set_child_spec in Hx as [Hx|(c & Hc & ->)].
              ** rewrite Forall_forall in Hcs. now apply Hcs.
              ** rewrite En in Hc. injection Hc as <-. unfold DfpnFacts.child_ok, cphi, cdelta. cbn. repeat split; auto; apply Hok2.
           ++ apply Forall_forall. intros x Hx. apply set_child_spec in Hx as [Hx|(c & Hc & ->)].
              ** rewrite Forall_forall in Hmv. now apply Hmv.
              ** rewrite En in Hc. injection Hc as <-. rewrite Forall_forall in Hmv. exact (Hmv ch Hchin).
           ++ left. intros m q Hm Eq. apply set_child_covered. eapply Hcomp1; eauto.
           ++ right. cbn [d_pv]. apply set_child_moves. exists ch. split; [exact Hchin|reflexivity].
           ++ cbn [d_pv].
              destruct (existsb (fun x => cdelta x =? 0) (set_child cs (Z.to_nat best) ne)) eqn:Eex0.
              ** apply existsb_exists in Eex0 as (x & Hx & Hd). apply N.eqb_eq in Hd.
                 pose proof Hx as Hx'. apply set_child_spec in Hx' as [Hx'|(c & Hc & ->)]; [now contradiction (Hnod0 x Hx')|].
                 rewrite En in Hc. injection Hc as <-. right. right. eexists. split; [exact Hx|]. split; [reflexivity|exact Hd].
              ** left. intros x Hx Hd. assert (existsb (fun x => cdelta x =? 0) (set_child cs (Z.to_nat best) ne) = true); [|congruence].
                 apply existsb_exists. exists x. split; [exact Hx|now apply N.eqb_eq].
      * injection E as _ <- _. unfold set_bounds. eapply exit_pv; eauto.
Qed.

(* one call of mid on an entry whose pv is the zero move (the root entry of Prove) *)
Lemma mid_pv lfuel fuel s g bphi bdelta cur s' cur' w :
  table_ok s -> Sp g -> d_hash cur = hash_of g -> entry_ok g (d_phi cur) (d_delta cur) -> bphi <= INF -> bdelta <= INF ->
  mT (d_pv cur) = 0 ->
  mid basis aw lfuel fuel s g bphi bdelta cur = (s', cur', w) -> pv_out g cur'.
Proof.
  intros Ht Hg Hh Hok Hb1 Hb2 Hpv E. destruct fuel as [|f]; cbn [mid] in E.
  - injection E as _ <- _. intros Hne. contradiction.
  - destruct (exceeded (d_phi cur) (d_delta cur) bphi bdelta) eqn:Eex; [injection E as _ <- _; intros Hne; contradiction|].
    assert (Htm : term g = None).
    { destruct (term g) eqn:Et; [|reflexivity]. exfalso. destruct Hok as (_ & Hc & _ & Hs).
      assert (Hne : term g <> None) by (rewrite Et; discriminate).
      pose proof (solved_exceeded _ _ _ _ Hc (Hs Hne) Hb1 Hb2) as Hx. congruence. }
    destruct (check_repetition s).
    + destruct (terminal_bounds aw g GNone) as [ph de]. injection E as _ <- _. intros Hne. cbn [set_bounds d_pv] in Hne. contradiction.
    + destruct (gen_children basis aw g _ (all_moves g) s []) as [s1 cs] eqn:Egen.
      pose proof (gen_children_mv basis aw g _ _ _ _ _ _ (Forall_nil _) (fun m H => H) Egen) as Hmv.
      apply (gen_children_ok basis aw Sp S_step S_small S_hash S_nonzero S_moves threats_sound) in Egen; auto.
      destruct Egen as (Hd1 & Hcs & Hcov).
      assert (Ht1 : table_ok s1) by (unfold DfpnFacts.table_ok; now rewrite Hd1).
      assert (Hcomp : complete basis g cs).
      { destruct Hcov as [[_ Hc]|Hc]; [left|now right]. intros m q Hm Eq. apply (Hc m q Hm Eq). }
      destruct (mid_loop (mid basis aw lfuel f) bphi bdelta lfuel s1 cs cur 1) as [[s2 cur2] w2] eqn:El.
      injection E as _ <- _.
      eapply (mid_loop_pv _ g bphi bdelta (mid_ok basis aw Sp S_step S_small S_hash S_nonzero S_moves threats_sound lfuel f) Hg Htm Hb1 Hb2);
        [exact Ht1|exact Hh|exact Hcs|exact Hmv|exact Hcomp| | |exact El].
      * left. exact Hpv.
      * right. left. exact Hpv.
Qed.

(* THE MOVE RETURNED WITH `proven` (Prove on a solver whose table holds sound entries; a fresh table does) *)
Theorem dfpn_proven_move_from lfuel dfuel s0 g s e w :
  table_ok s0 -> Sp g -> prove_from basis aw lfuel dfuel s0 g = (s, e, w) ->
  result_of aw g e = 1 -> mT (d_pv e) <> 0 ->
  exists q, In (d_pv e) (all_moves g) /\ dmv g (d_pv e) = Ok q /\ W q.
Proof.
  intros Ht0 Hg E Hr Hne. unfold prove_from in E.
  assert (Hout : pv_out g e).
  { assert (Hlive : (forall who, game_over g <> Some (true, who)) ->
                    mid basis aw lfuel dfuel s0 g (INF / 2) (INF / 2)
                        {| d_phi := 1; d_delta := 1; d_hash := hash_of g; d_work := 0; d_pv := move0 |} = (s, e, w) -> pv_out g e).
    { intros Hno E'.
      apply (mid_pv lfuel dfuel s0 g (INF / 2) (INF / 2) {| d_phi := 1; d_delta := 1; d_hash := hash_of g; d_work := 0; d_pv := move0 |} s e w Ht0 Hg eq_refl);
        [| | |reflexivity|exact E'].
      - pose proof (term_live aw g Hno) as Htm. cbn [d_phi d_delta]. unfold DfpnFacts.entry_ok, bounded, canon, claim, solved. rewrite INF_val. unfold INFv.
        repeat split; try lia; try discriminate. intros Hf. now rewrite Htm in Hf.
      - rewrite INF_val. unfold INFv. cbn. lia.
      - rewrite INF_val. unfold INFv. cbn. lia. }
    destruct (game_over g) as [[[|] who]|] eqn:Eg.
    - destruct (terminal_bounds aw g who) as [ph de]. injection E as _ <- _. intros Hf. cbn [d_pv] in Hf. now contradiction Hf.
    - apply Hlive; [|exact E]. intros w'; congruence.
    - apply Hlive; [|exact E]. intros w'; congruence. }
  destruct (Hout Hne) as (q & H1 & H2 & H3 & H4). exists q. split; [exact H1|]. split; [exact H2|].
  unfold result_of in Hr. unfold PnFacts.attp in *.
  destruct (Bool.eqb aw (to_move_white g)) eqn:Ea.
  - apply eqb_prop in Ea. destruct (d_phi e =? 0) eqn:Ep; [|destruct (d_delta e =? 0); discriminate].
    apply H3; [now apply N.eqb_eq|]. rewrite Ea. now destruct (to_move_white g).
  - apply eqb_false_iff in Ea. destruct (d_delta e =? 0) eqn:Ed; [|destruct (d_phi e =? 0); discriminate].
    apply H4; [now apply N.eqb_eq|]. destruct aw, (to_move_white g); auto; now contradiction Ea.
Qed.

(* a fresh solver *)
Theorem dfpn_proven_move lfuel dfuel entries g s e w :
  Sp g -> prove basis aw lfuel dfuel entries g = (s, e, w) -> result_of aw g e = 1 -> mT (d_pv e) <> 0 ->
  exists q, In (d_pv e) (all_moves g) /\ dmv g (d_pv e) = Ok q /\ W q.
Proof.
  intros Hg E Hr Hne. unfold prove in E. eapply dfpn_proven_move_from; eauto. apply (table0_ok basis aw Sp S_nonzero).
Qed.

(* the reused solver: the table of a solver last used for this attacker holds sound entries (proven side) *)
Definition att_ofP : N := if aw then 1 else 2.
Definition sv_ok (sv : dsolver) : Prop := sv_attacker sv = att_ofP -> Forall (good_entry basis aw Sp) (sv_table sv).

Theorem dfpn_on_proven lfuel dfuel cfg_attacker sv g sv' s e w r :
  aw = match cfg_attacker with 1 => true | 2 => false | _ => to_move_white g end ->
  Sp g -> sv_ok sv -> prove_on basis lfuel dfuel cfg_attacker sv g = (sv', (s, e, w, r)) ->
  sv_ok sv' /\
  (r = 1 -> W g /\ (mT (d_pv e) <> 0 -> exists q, In (d_pv e) (all_moves g) /\ dmv g (d_pv e) = Ok q /\ W q)).
Proof.
  intros Haw Hg Hsv E. unfold prove_on in E. rewrite <- Haw in E. fold att_ofP in E.
  match type of E with context[prove_from basis aw lfuel dfuel ?x g] => set (s0 := x) in *; destruct (prove_from basis aw lfuel dfuel s0 g) as [[s1 e1] w1] eqn:Ep end.
  injection E as <- <- <- <- Er.
  assert (Ht0 : table_ok s0).
  { unfold DfpnFacts.table_ok, s0. cbn [dtable].
    destruct ((sv_attacker sv =? att_ofP) && (sv_size sv =? size g)) eqn:Ec.
    - apply andb_true_iff in Ec as [Ec _]. apply N.eqb_eq in Ec. now apply Hsv.
    - apply Forall_forall. intros x Hx. apply in_map_iff in Hx as (y & <- & _). apply (good_dentry0 basis aw Sp S_nonzero). }
  destruct (prove_from_ok basis aw Sp S_step S_small S_hash S_nonzero S_moves threats_sound lfuel dfuel s0 g s1 e1 w1 Ht0 Hg Ep) as [T Hok].
  split; [intros _; exact T|]. intros Hr. rewrite <- Er in Hr. split.
  - eapply (result_proven basis aw); eauto.
  - intros Hne. exact (dfpn_proven_move_from lfuel dfuel s0 g s1 e1 w1 Ht0 Hg Ep Hr Hne).
Qed.
End DfpnMove.
Print Assumptions dfpn_proven_move_from.
Print Assumptions dfpn_proven_move.
Print Assumptions dfpn_on_proven.
