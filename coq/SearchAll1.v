(* SearchAll1.v: AnalyzeAll (Search.analyze_all_gen) - the loop of its second pass named (aa_loop), and the move generator at the root
   of that pass characterised MOVE BY MOVE: without a table entry, at ply 0, with the hint line pm :: pvt whose head pm is accepted,
   the generator yields pm first and then exactly the entries m of the (sorted) AllMoves list that are not Move.Equal to pm and that
   MovePreallocated accepts, each once, in the order of that list - whatever the engine state does between two calls of Next (the
   list is generated and sorted once, at the second call). *)
From Coq Require Import NArith ZArith List Bool Lia Permutation.
Require Import Board Move GameOver Eval Search NegamaxSpec SearchGen.
Import ListNotations.
Open Scope Z_scope.

(* the anonymous loop of Search.analyze_all_gen; the third component says that the loop stopped because the flag was seen set
   (repaired code only: pinned = false) *)
Definition aa_loop (pinned : bool) (basis : list N) (cfg : config) (k : Z) (d v : Z) (pm : rmove) (pvt : list rmove) :=
  fix loop (n : nat) (s : sstate) (g : mgen) (out : list (list rmove)) {struct n} : sstate * list (list rmove) * bool :=
    match n with O => (s, out, false) | S k' =>
      let '(g, nx) := mg_next pinned basis cfg (gfuel g) s g in
      match nx with
      | None => (s, out, false)
      | Some (m, child) =>
        let s := set_fm s 0 m in
        let '(s, (ms, cv)) := srch pinned basis cfg k 40 false s child 1 (d - 1) pvt (- v - 1) (- v + 1) true in
        if negb pinned && cancelled k s then (s, out, true) else
        let cv := - cv in
        if negb (cv =? v) then loop k' s g out
        else if move_equal m pm then loop k' s g out
        else loop k' s g (out ++ [m :: ms])
      end
    end.

Lemma analyze_all_unfold pinned basis cfg k s0 p :
  analyze_all_gen pinned basis cfg k s0 p =
  let '(s, (pv, v, d, _, canc)) := analyze_gen pinned basis cfg k s0 p in
  match pv with
  | [] => (s, ([], v, d, canc))
  | pm :: pvt =>
    let g0 := new_gen s None pv 0 d p in
    let '(s, out, brk) := aa_loop pinned basis cfg k d v pm pvt (gfuel g0) s g0 [pv] in
    (s, (out, v, d, canc || brk))
  end.
Proof. reflexivity. Qed.

Lemma move_equal_refl a : move_equal a a = true.
Proof.
  unfold move_equal. rewrite !Z.eqb_refl, !N.eqb_refl. cbn [andb]. destruct (5 <=? mT a)%N; reflexivity.
Qed.
Lemma move_equal_comm a b : move_equal a b = move_equal b a.
Proof.
  unfold move_equal. rewrite (Z.eqb_sym (mX a)), (Z.eqb_sym (mY a)), (N.eqb_sym (mT a)).
  destruct (mT b =? mT a)%N eqn:E.
  - apply N.eqb_eq in E. rewrite E. rewrite (N.eqb_sym (mS a)). reflexivity.
  - rewrite !andb_false_r. reflexivity.
Qed.

Section Scan.
Variable pinned : bool.
Variable basis : list N.
Variable cfg : config.
Variable p : position.
Variable pm : rmove.
Variable pvt : list rmove.

(* an entry of the generated list that the generator yields *)
Definition good (m : rmove) : bool :=
  negb (move_equal pm m) && negb (move_equal move0 m) && (match try_move basis p m with Some _ => true | None => false end).

Definition shape (g : mgen) : Prop :=
  g_te g = None /\ g_tec g = None /\ g_pv g = pm :: pvt /\ g_r g = move0 /\ g_p g = p /\ g_ply g = 0.

(* the list the generator works on: AllMoves, sorted by the history table as it is at the second call of Next *)
Definition msof (s : sstate) (depth : Z) : list rmove :=
  if (1 <? depth) && negb (c_nosort cfg) then sort_moves s (all_moves p) else all_moves p.

Lemma msof_perm s depth : Permutation (msof s depth) (all_moves p).
Proof. unfold msof. destruct ((1 <? depth) && negb (c_nosort cfg)); [apply sort_moves_perm|reflexivity]. Qed.

(* the generator after pm has been yielded: either the list is not generated yet (stage 2; it will be msof of the state of the next call)
   or the generator stands at index j of the list ms *)
Definition genst (s : sstate) (g : mgen) (ms : list rmove) (j : Z) : Prop :=
  shape g /\ 0 <= j /\
  ((g_i g = 4 + j /\ g_ms g = Some ms) \/ (g_i g = 2 /\ j = 0 /\ g_ms g = None /\ ms = msof s (g_depth g))).

Lemma te_none s g : g_te g = None -> g_tec g = None -> te_move pinned s g = None.
Proof. intros A B. unfold te_move. rewrite A, B. destruct pinned; reflexivity. Qed.

(* one step of the default stage *)
Lemma default_step f s g ms j : shape g -> g_i g = 4 + j -> 0 <= j -> g_ms g = Some ms ->
  mg_next pinned basis cfg (S f) s g =
  let g2 := set_i g (4 + j + 1) in
  if Z.of_nat (length ms) <=? j then (g2, None) else
  let m := znth ms j move0 in
  if move_equal pm m then mg_next pinned basis cfg f s g2
  else if move_equal move0 m then mg_next pinned basis cfg f s g2
  else match try_move basis p m with Some q => (g2, Some (m, q)) | None => mg_next pinned basis cfg f s g2 end.
Proof.
  intros (A & B & C & D & E & F) Hi Hj Hms.
  destruct g as [te tec pv r oms i ply dep gp]. cbn [g_te g_tec g_pv g_r g_p g_ply g_i g_ms] in *. subst.
  cbn [mg_next g_i g_ms g_pv g_r g_p set_i].
  assert (E0 : (4 + j =? 0) = false) by lia. assert (E1 : (4 + j =? 1) = false) by lia.
  assert (E2 : (4 + j =? 2) = false) by lia. assert (E3 : (4 + j =? 3) = false) by lia.
  rewrite E0, E1, E2, E3. cbn [g_i g_ms g_pv g_r g_p set_i].
  replace (4 + j - 4) with j by lia.
  match goal with |- context [te_move pinned s ?gg] => rewrite (te_none s gg eq_refl eq_refl) end.
  destruct (Z.of_nat (length ms) <=? j); [reflexivity|].
  destruct (move_equal pm (znth ms j move0)); [reflexivity|].
  destruct (move_equal move0 (znth ms j move0)); [reflexivity|]. reflexivity.
Qed.

(* stage 3: the list is generated (and sorted), then the default stage runs in the same call *)
Lemma three_step f s g : shape g -> g_i g = 3 -> g_ms g = None ->
  mg_next pinned basis cfg (S f) s g =
  mg_next pinned basis cfg (S f) s
    {| g_te := g_te g; g_tec := g_tec g; g_pv := g_pv g; g_r := g_r g; g_ms := Some (msof s (g_depth g)); g_i := 4;
       g_ply := g_ply g; g_depth := g_depth g; g_p := g_p g |}.
Proof.
  intros (A & B & C & D & E & F) Hi Hms.
  destruct g as [te tec pv r oms i ply dep gp]. cbn [g_te g_tec g_pv g_r g_p g_ply g_i g_ms g_depth] in *. subst.
  cbn [mg_next g_i g_ms g_pv g_r g_p g_depth set_i Z.eqb Z.compare Pos.compare Pos.compare_cont]. unfold msof. reflexivity.
Qed.

Lemma two_step f s g : shape g -> g_i g = 2 ->
  mg_next pinned basis cfg (S f) s g = mg_next pinned basis cfg f s (set_i g 3).
Proof.
  intros (A & B & C & D & E & F) Hi.
  destruct g as [te tec pv r oms i ply dep gp]. cbn [g_te g_tec g_pv g_r g_p g_ply g_i g_ms g_depth] in *. subst.
  cbn [mg_next g_i g_ply Z.eqb Z.compare Pos.compare Pos.compare_cont]. reflexivity.
Qed.

Lemma skipn_znth (ms : list rmove) j m rest : 0 <= j -> skipn (Z.to_nat j) ms = m :: rest ->
  znth ms j move0 = m /\ skipn (Z.to_nat (j + 1)) ms = rest /\ (Z.of_nat (length ms) <=? j) = false.
Proof.
  intros Hj. unfold znth. replace (Z.to_nat (j + 1)) with (S (Z.to_nat j)) by lia.
  assert (G : forall n (l : list rmove), skipn n l = m :: rest -> nth n l move0 = m /\ skipn (S n) l = rest /\ (n < length l)%nat).
  { induction n; intros l H; destruct l as [|x l]; cbn [skipn] in H; try discriminate H.
    - inversion H; subst. cbn. split; [reflexivity|]. split; [reflexivity|lia].
    - destruct (IHn l H) as (A & B & C). cbn [nth length]. split; [exact A|]. split; [exact B|lia]. }
  intros H. destruct (G _ _ H) as (A & B & C). split; [exact A|]. split; [exact B|]. apply Z.leb_gt. lia.
Qed.

Lemma skipn_nil_len (ms : list rmove) j : 0 <= j -> skipn (Z.to_nat j) ms = [] -> (Z.of_nat (length ms) <=? j) = true.
Proof.
  intros Hj H. apply Z.leb_le. destruct (Z_le_gt_dec (Z.of_nat (length ms)) j) as [L|L]; [exact L|].
  exfalso. assert (LL : length (skipn (Z.to_nat j) ms) = (length ms - Z.to_nat j)%nat) by apply skipn_length.
  rewrite H in LL. cbn in LL. lia.
Qed.

(* the default stage, from index j on: the next move yielded is the first good entry of the rest of the list *)
Lemma scan_next4 : forall rest f s g ms j, shape g -> g_i g = 4 + j -> 0 <= j -> g_ms g = Some ms ->
  skipn (Z.to_nat j) ms = rest -> (length rest < f)%nat ->
  match filter good rest with
  | [] => snd (mg_next pinned basis cfg f s g) = None
  | m :: tl_ => exists g' q j', mg_next pinned basis cfg f s g = (g', Some (m, q)) /\ try_move basis p m = Some q /\ In m rest /\
                 shape g' /\ g_i g' = 4 + j' /\ j < j' /\ g_ms g' = Some ms /\ g_depth g' = g_depth g /\
                 filter good (skipn (Z.to_nat j') ms) = tl_
  end.
Proof.
  induction rest as [|m rest IH]; intros f s g ms j SH Hi Hj Hms Hsk Hf.
  - cbn [filter]. destruct f as [|f]; [reflexivity|].
    rewrite (default_step f s g ms j SH Hi Hj Hms). cbv zeta. rewrite (skipn_nil_len ms j Hj Hsk). reflexivity.
  - destruct f as [|f]; [cbn in Hf; lia|].
    destruct (skipn_znth ms j m rest Hj Hsk) as (Em & Esk & Elen).
    rewrite (default_step f s g ms j SH Hi Hj Hms). cbv zeta. rewrite Elen, Em.
    set (g2 := set_i g (4 + j + 1)).
    assert (SH2 : shape g2) by (destruct g as [xte xtec xpv xr xms xi xply xdep xp]; exact SH).
    assert (Hi2 : g_i g2 = 4 + (j + 1)) by (unfold g2; destruct g as [xte xtec xpv xr xms xi xply xdep xp]; cbn [set_i g_i]; lia).
    assert (Hms2 : g_ms g2 = Some ms) by (destruct g as [xte xtec xpv xr xms xi xply xdep xp]; exact Hms).
    assert (Hd2 : g_depth g2 = g_depth g) by (destruct g as [xte xtec xpv xr xms xi xply xdep xp]; reflexivity).
    assert (SKIP : good m = false ->
                   match filter good (m :: rest) with
                   | [] => snd (mg_next pinned basis cfg f s g2) = None
                   | m0 :: tl_ => exists g' q j', mg_next pinned basis cfg f s g2 = (g', Some (m0, q)) /\ try_move basis p m0 = Some q /\ In m0 (m :: rest) /\
                       shape g' /\ g_i g' = 4 + j' /\ j < j' /\ g_ms g' = Some ms /\ g_depth g' = g_depth g /\ filter good (skipn (Z.to_nat j') ms) = tl_
                   end).
    { intros GB. cbn [filter]. rewrite GB.
      pose proof (IH f s g2 ms (j + 1) SH2 Hi2 ltac:(lia) Hms2 Esk ltac:(cbn in Hf; lia)) as R.
      destruct (filter good rest) as [|m0 tl_]; [exact R|].
      destruct R as (g' & q & j' & R1 & R2 & R3 & R4 & R5 & R6 & R7 & R8 & R9).
      exists g', q, j'. rewrite Hd2 in R8. refine (conj R1 (conj R2 (conj (or_intror R3) (conj R4 (conj R5 (conj _ (conj R7 (conj R8 R9)))))))). lia. }
    destruct (move_equal pm m) eqn:X1; [apply SKIP; unfold good; rewrite X1; reflexivity|].
    destruct (move_equal move0 m) eqn:X2; [apply SKIP; unfold good; rewrite X1, X2; reflexivity|].
    destruct (try_move basis p m) as [q|] eqn:ET; [|apply SKIP; unfold good; rewrite X1, X2, ET; reflexivity].
    assert (GG : good m = true) by (unfold good; rewrite X1, X2, ET; reflexivity).
    cbn [filter]. rewrite GG.
    exists g2, q, (j + 1). refine (conj eq_refl (conj ET (conj (or_introl eq_refl) (conj SH2 (conj Hi2 (conj _ (conj Hms2 (conj Hd2 _)))))))); [lia|].
    rewrite Esk. reflexivity.
Qed.

Lemma genst_fuel s g ms j : genst s g ms j -> (length (skipn (Z.to_nat j) ms) + 2 < gfuel g)%nat.
Proof.
  intros (SH & Hj & [(Hi & Hms)|(Hi & -> & Hms & ->)]); unfold gfuel; rewrite Hms.
  - rewrite skipn_length. lia.
  - destruct SH as (_ & _ & _ & _ & -> & _). rewrite skipn_length, (Permutation_length (msof_perm s (g_depth g))). lia.
Qed.

Lemma in_skipn_in {A} (x : A) n l : In x (skipn n l) -> In x l.
Proof. revert l. induction n; intros l H; [exact H|]. destruct l; [exact H|]. right. apply IHn. exact H. Qed.

Lemma skipn_shorter (ms : list rmove) j j' : 0 <= j < j' -> skipn (Z.to_nat j) ms <> [] ->
  (length (skipn (Z.to_nat j') ms) < length (skipn (Z.to_nat j) ms))%nat.
Proof.
  intros H NE. rewrite !skipn_length.
  assert (length (skipn (Z.to_nat j) ms) <> 0)%nat by (destruct (skipn (Z.to_nat j) ms); [congruence|cbn; lia]).
  rewrite skipn_length in H0. lia.
Qed.

(* every call of Next after the one that yielded pm *)
Lemma scan_next s g ms j : genst s g ms j ->
  match filter good (skipn (Z.to_nat j) ms) with
  | [] => snd (mg_next pinned basis cfg (gfuel g) s g) = None
  | m :: tl_ => exists g' q j', mg_next pinned basis cfg (gfuel g) s g = (g', Some (m, q)) /\ try_move basis p m = Some q /\ In m ms /\
                 (forall s', genst s' g' ms j') /\ filter good (skipn (Z.to_nat j') ms) = tl_ /\
                 (length (skipn (Z.to_nat j') ms) < length (skipn (Z.to_nat j) ms))%nat
  end.
Proof.
  intros G. pose proof (genst_fuel s g ms j G) as HF. destruct G as (SH & Hj & [(Hi & Hms)|(Hi & -> & Hms & ->)]).
  - pose proof (scan_next4 _ (gfuel g) s g ms j SH Hi Hj Hms eq_refl ltac:(lia)) as R.
    destruct (filter good (skipn (Z.to_nat j) ms)) as [|m tl_] eqn:EF; [exact R|].
    destruct R as (g' & q & j' & R1 & R2 & R3 & R4 & R5 & R6 & R7 & R8 & R9).
    exists g', q, j'. split; [exact R1|]. split; [exact R2|]. split; [apply (in_skipn_in _ _ _ R3)|].
    split; [intros s'; split; [exact R4|split; [lia|left; split; assumption]]|]. split; [exact R9|].
    apply skipn_shorter; [lia|]. intros E. rewrite E in R3. destruct R3.
  - set (ms := msof s (g_depth g)) in *.
    destruct (gfuel g) as [|[|f]] eqn:EG; [lia|lia|].
    rewrite (two_step (S f) s g SH Hi).
    assert (SH3 : shape (set_i g 3)) by (destruct g as [xte xtec xpv xr xms xi xply xdep xp]; exact SH).
    rewrite (three_step f s (set_i g 3) SH3 ltac:(destruct g as [xte xtec xpv xr xms xi xply xdep xp]; reflexivity) ltac:(destruct g as [xte xtec xpv xr xms xi xply xdep xp]; exact Hms)).
    match goal with |- context [mg_next pinned basis cfg (S f) s ?gg] => set (g1 := gg) end.
    assert (SH1 : shape g1) by (destruct g as [xte xtec xpv xr xms xi xply xdep xp]; exact SH).
    assert (Hd1 : g_depth g1 = g_depth g) by (destruct g as [xte xtec xpv xr xms xi xply xdep xp]; reflexivity).
    assert (Hms1 : g_ms g1 = Some ms) by (subst g1 ms; destruct g as [xte xtec xpv xr xms xi xply xdep xp]; reflexivity).
    pose proof (scan_next4 _ (S f) s g1 ms 0 SH1 ltac:(subst g1; destruct g as [xte xtec xpv xr xms xi xply xdep xp]; reflexivity) ltac:(lia) Hms1 eq_refl ltac:(lia)) as R.
    destruct (filter good (skipn (Z.to_nat 0) ms)) as [|m tl_] eqn:EF; [exact R|].
    destruct R as (g' & q & j' & R1 & R2 & R3 & R4 & R5 & R6 & R7 & R8 & R9).
    exists g', q, j'. split; [exact R1|]. split; [exact R2|]. split; [apply (in_skipn_in _ _ _ R3)|].
    split; [intros s'; split; [exact R4|split; [lia|left; split; assumption]]|]. split; [exact R9|].
    apply skipn_shorter; [lia|]. intros E. rewrite E in R3. destruct R3.
Qed.

(* the first call: pm *)
Lemma first_next s depth q0 : try_move basis p pm = Some q0 ->
  let g0 := new_gen s None (pm :: pvt) 0 depth p in
  exists g', mg_next pinned basis cfg (gfuel g0) s g0 = (g', Some (pm, q0)) /\ forall s', genst s' g' (msof s' depth) 0.
Proof.
  intros T. cbv zeta. unfold gfuel. cbn [new_gen g_ms g_p].
  replace (length (all_moves p) + 8)%nat with (S (S (length (all_moves p) + 6))) by lia.
  eexists. split.
  - unfold new_gen. cbn [mg_next g_i set_i g_pv g_p g_te g_tec Z.eqb Z.compare Pos.compare Pos.compare_cont option_map].
    match goal with |- context [te_move pinned s ?gg] => rewrite (te_none s gg eq_refl eq_refl) end. cbn [g_i set_i g_pv g_p g_te g_tec Z.eqb]. match goal with |- context [te_move pinned s ?gg] => rewrite (te_none s gg eq_refl eq_refl) end.
    cbn [g_i set_i g_pv g_p g_te g_tec]. rewrite T. reflexivity.
  - intros s'. split; [repeat split|]. split; [lia|]. right. repeat split.
Qed.
End Scan.
