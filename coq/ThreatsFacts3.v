(* CountThreats, part 3 (C19): every set bit of the placement map pmap of a group is an empty square whose addition to the
   mover's road squares creates a spanning group. *)
From Coq Require Import NArith ZArith List Bool Lia ZifyN ZifyBool ZifyNat.
Require Import Board Flood Masks LowBit Conn Move GameOver Groups1 Groups2 Groups3 Groups4 Eval EvalFacts1 Threats ThreatsFacts2.
Import ListNotations.
Open Scope N_scope.

Lemma shl_bit x k i : N.testbit (N.shiftl x k) i = (k <=? i) && N.testbit x (i - k).
Proof.
  destruct (N.leb_spec k i).
  - now rewrite N.shiftl_spec_high' by lia.
  - now rewrite N.shiftl_spec_low by lia.
Qed.

(* the elements of the singles iteration are single bits of the word *)
Lemma lowest_bits_spec fuel sg o : In o (lowest_bits fuel sg) -> exists a, o = bit1 a /\ N.testbit sg a = true.
Proof.
  revert sg. induction fuel as [|f IH]; intros sg H; cbn [lowest_bits] in H; [destruct H|].
  destruct (N.eqb_spec sg 0) as [E|E]; [destruct H|].
  destruct H as [<-|H].
  - exists (ctz sg). split; [now apply isolate_is_bit1|now apply ctz_set].
  - destruct (IH _ H) as (a & -> & Ha). exists a. split; [reflexivity|].
    rewrite clear_lowest in Ha by assumption. now apply andb_prop in Ha.
Qed.
Lemma singles_sub gs pieces a : N.testbit (t_singles gs pieces) a = true -> N.testbit pieces a = true.
Proof.
  unfold t_singles. revert pieces. induction gs as [|g gs IH]; intros pieces H; cbn [fold_left] in H; [exact H|].
  apply IH in H. unfold andnot in H. rewrite N.ldiff_spec in H. now apply andb_prop in H.
Qed.

Lemma in_firstn {A} (x : A) k l : In x (firstn k l) -> In x l.
Proof. intro H. rewrite <- (firstn_skipn k l). apply in_or_app. now left. Qed.

Section Pmap.
Variable s : N.
Hypothesis Hs : 3 <= s <= 8.
Let c := precompute s.
Variable p : position.
Variable B : N.
Hypothesis HB : forall i, N.testbit B i = true -> i < s * s.
Variable gs : list N.
Hypothesis Hg : groups c B = Some gs.
Variable pieces : N.
Hypothesis Hp : forall i, N.testbit pieces i = true -> N.testbit B i = true.
Hypothesis He : forall i, N.testbit (t_empty c p) i = true -> N.testbit B i = false /\ i < s * s.
Notation conn := (conn s B).

(* a connected set of squares of B *)
Definition cset (o : N) : Prop := forall x y, N.testbit o x = true -> N.testbit o y = true -> conn x y.

Lemma group_cset g : In g gs -> cset g.
Proof.
  intros Hin. destruct (groups_spec s Hs B HB) as (gs0 & Hg0 & Hsound & _). fold c in Hg0. rewrite Hg in Hg0. injection Hg0 as <-.
  destruct (Hsound g Hin) as (a0 & _ & Hiff & _). intros x y Hx Hy.
  apply Hiff in Hx, Hy. eapply conn_trans; [apply (conn_sym s Hs B HB); exact Hx|exact Hy].
Qed.
Lemma single_cset a : N.testbit B a = true -> cset (bit1 a).
Proof.
  intros Ha x y Hx Hy. rewrite testbit_bit1 in Hx, Hy. apply N.eqb_eq in Hx, Hy. subst. now apply conn_refl.
Qed.
Lemma others_cset k other : In other (firstn k gs ++ lowest_bits 65 (t_singles gs pieces)) -> cset other.
Proof.
  intro H. apply in_app_or in H as [H|H].
  - apply group_cset. eapply in_firstn; exact H.
  - destruct (lowest_bits_spec _ _ _ H) as (a & -> & Ha). apply single_cset, Hp. eapply singles_sub; exact Ha.
Qed.
Lemma cset_in_B o x y : cset o -> N.testbit o x = true -> N.testbit o y = true -> N.testbit B x = true.
Proof. intros Hc Hx Hy. exact (proj1 (conn_in_B s Hs B HB x y (Hc x y Hx Hy))). Qed.

(* the conclusion for one square *)
Definition Q (i : N) : Prop :=
  i < s * s /\ N.testbit (t_empty c p) i = true /\ N.testbit B i = false /\
  exists gs', groups c (N.lor B (bit1 i)) = Some gs' /\ existsb (spans c) gs' = true.
Definition P (m : N) : Prop := forall i, N.testbit m i = true -> Q i.

Lemma P_0 : P 0. Proof. intros i H. rewrite N.bits_0 in H. discriminate. Qed.
Lemma P_lor a b : P a -> P b -> P (N.lor a b).
Proof. intros Ha Hb i H. rewrite N.lor_spec in H. apply orb_prop in H as [H|H]; auto. Qed.

Lemma size_c' : Size c = s. Proof. exact (size_c s Hs). Qed.

Lemma masks_at i : i < s * s ->
  N.testbit (cR c) i = (i mod s =? 0) /\ N.testbit (cL c) i = (i mod s =? s - 1) /\
  N.testbit (cB c) i = (i <? s) /\ N.testbit (cT c) i = (s * (s - 1) <=? i).
Proof.
  intro H. destruct (precompute_masks s i Hs ltac:(nia)) as (A & B0 & C & D & _). fold c in A, B0, C, D.
  rewrite A, B0, C, D. replace (i <? s * s) with true by lia. rewrite !andb_true_r. cbn [andb]. auto.
Qed.

(* the generic step: i empty, a neighbour j of i in the connected set g, a square t of g on one edge *)
Lemma touches_via g t j i : cset g -> N.testbit g t = true -> N.testbit g j = true -> (nb c j i \/ nb c i j) -> touches s B i t.
Proof. intros Hc Ht Hj Hn. right. right. exists j. split; [apply Hc; assumption|exact Hn]. Qed.

Lemma edge_L g : cset g -> negb (N.land g (cL c) =? 0) = true -> P (N.land (N.land (N.shiftr g 1) (t_empty c p)) (cR c)).
Proof.
  intros Hc Hl i H. rewrite !N.land_spec, N.shiftr_spec' in H.
  apply andb_prop in H as [H HR]. apply andb_prop in H as [Hgi Hemp].
  destruct (He i Hemp) as [HiB Hi]. apply land_nonzero in Hl as (t & Ht & HtL).
  repeat split; auto.
  destruct (masks_at i Hi) as (ER & EL & _).
  apply (bridge_road s Hs B HB i Hi t i).
  - eapply touches_via; eauto. left. right. left. split; [reflexivity|]. fold c. rewrite EL. rewrite ER in HR. lia.
  - now left.
  - right. split; assumption.
Qed.
Lemma edge_R g : cset g -> negb (N.land g (cR c) =? 0) = true -> P (N.land (N.land (u64 (N.shiftl g 1)) (t_empty c p)) (cL c)).
Proof.
  intros Hc Hl i H. rewrite !N.land_spec, u64_bit, shl_bit in H.
  apply andb_prop in H as [H HL]. apply andb_prop in H as [Hgi Hemp].
  apply andb_prop in Hgi as [Hgi _]. apply andb_prop in Hgi as [H1 Hgi].
  destruct (He i Hemp) as [HiB Hi]. apply land_nonzero in Hl as (t & Ht & HtR).
  repeat split; auto.
  destruct (masks_at i Hi) as (ER & EL & _).
  apply (bridge_road s Hs B HB i Hi i t).
  - now left.
  - eapply touches_via; eauto. left. left. fold c. rewrite ER. rewrite EL in HL. repeat split; try lia. nia.
  - right. split; assumption.
Qed.
Lemma edge_T g : cset g -> negb (N.land g (cT c) =? 0) = true -> P (N.land (N.land (N.shiftr g (Size c)) (t_empty c p)) (cB c)).
Proof.
  intros Hc Hl i H. rewrite !N.land_spec, N.shiftr_spec' in H.
  apply andb_prop in H as [H HBo]. apply andb_prop in H as [Hgi Hemp].
  destruct (He i Hemp) as [HiB Hi]. apply land_nonzero in Hl as (t & Ht & HtT).
  repeat split; auto.
  apply (bridge_road s Hs B HB i Hi t i).
  - eapply touches_via; eauto. left. right. right. left. reflexivity.
  - now left.
  - left. split; assumption.
Qed.
Lemma edge_B g : cset g -> negb (N.land g (cB c) =? 0) = true -> P (N.land (N.land (u64 (N.shiftl g (Size c))) (t_empty c p)) (cT c)).
Proof.
  intros Hc Hl i H. rewrite !N.land_spec, u64_bit, shl_bit in H.
  apply andb_prop in H as [H HT]. apply andb_prop in H as [Hgi Hemp].
  apply andb_prop in Hgi as [Hgi _]. apply andb_prop in Hgi as [H1 Hgi].
  destruct (He i Hemp) as [HiB Hi]. apply land_nonzero in Hl as (t & Ht & HtB).
  repeat split; auto.
  apply (bridge_road s Hs B HB i Hi i t).
  - now left.
  - eapply touches_via; eauto. left. right. right. right. repeat split; try lia. nia.
  - left. split; assumption.
Qed.

(* a square in Grow(mask, o) that is not in B has a neighbour in o *)
Lemma grow_nb o i : cset o -> N.testbit B i = false -> N.testbit (grow c (cMask c) o) i = true ->
  exists j, N.testbit o j = true /\ nb c j i.
Proof.
  intros Hc HiB H. apply grow_bit_iff in H as [_ [H|H]]; [|exact H].
  rewrite (cset_in_B o i i Hc H H) in HiB. discriminate.
Qed.

Lemma junction_P g other : cset g -> cset other -> junction c g other = true ->
  P (N.land (N.land (grow c (cMask c) g) (grow c (cMask c) other)) (t_empty c p)).
Proof.
  intros Hcg Hco Hj i H. rewrite !N.land_spec in H.
  apply andb_prop in H as [H Hemp]. apply andb_prop in H as [Hg1 Hg2].
  destruct (He i Hemp) as [HiB Hi].
  destruct (grow_nb g i Hcg HiB Hg1) as (j & Hjg & Hnj).
  destruct (grow_nb other i Hco HiB Hg2) as (k & Hko & Hnk).
  repeat split; auto.
  unfold junction in Hj.
  repeat (apply orb_prop in Hj as [Hj|Hj]); apply andb_prop in Hj as [H1 H2];
    apply land_nonzero in H1 as (t & Ht & HtE); apply land_nonzero in H2 as (u & Hu & HuE).
  - apply (bridge_road s Hs B HB i Hi t u);
      [exact (touches_via g t j i Hcg Ht Hjg (or_introl Hnj))|exact (touches_via other u k i Hco Hu Hko (or_introl Hnk))|right; split; assumption].
  - apply (bridge_road s Hs B HB i Hi u t);
      [exact (touches_via other u k i Hco Hu Hko (or_introl Hnk))|exact (touches_via g t j i Hcg Ht Hjg (or_introl Hnj))|right; split; assumption].
  - apply (bridge_road s Hs B HB i Hi u t);
      [exact (touches_via other u k i Hco Hu Hko (or_introl Hnk))|exact (touches_via g t j i Hcg Ht Hjg (or_introl Hnj))|left; split; assumption].
  - apply (bridge_road s Hs B HB i Hi t u);
      [exact (touches_via g t j i Hcg Ht Hjg (or_introl Hnj))|exact (touches_via other u k i Hco Hu Hko (or_introl Hnk))|left; split; assumption].
Qed.

Theorem pmap_sound k g : nth_error gs k = Some g -> P (fst (tmaps c p gs pieces k g)).
Proof.
  intro Hk. assert (Hcg : cset g) by (apply group_cset; eapply nth_error_In; exact Hk).
  unfold tmaps. cbv zeta.
  destruct (N.land g (cEdge c) =? 0). { apply P_0. }
  destruct (negb (N.land g (cL c) =? 0)) eqn:E1; destruct (negb (N.land g (cR c) =? 0)) eqn:E2;
  destruct (negb (N.land g (cT c) =? 0)) eqn:E3; destruct (negb (N.land g (cB c) =? 0)) eqn:E4;
  (apply (fold_left_inv (fun acc : N * N => P (fst acc)));
   [ cbn [fst]; repeat apply P_lor; try apply P_0;
     first [apply edge_L; assumption | apply edge_R; assumption | apply edge_T; assumption | apply edge_B; assumption]
   | intros [a b] other Ha Hin; cbn [fst] in *;
     destruct (junction c g other) eqn:J; [|exact Ha];
     cbn [fst]; apply P_lor; [exact Ha|]; apply junction_P; auto; eapply others_cset; exact Hin ]).
Qed.
End Pmap.
