(* Soundness of the proof-number search of Pn.v (the model of prove/pn.go): every node of every tree the search builds
   whose proof number is 0 is a forced win of the attacker, every node whose disproof number is 0 is not won on its line of
   play within the depth limit; hence the verdicts of prove_pn. *)
From Coq Require Import NArith ZArith List Bool Lia Arith.
Require Import Board Move GameOver AndOr AndOrS Pn.
Import ListNotations.
Open Scope N_scope.

(* ---------- small facts about the numbers ---------- *)
Lemma sat_add_0 a b : sat_add a b = 0 -> a = 0 /\ b = 0.
Proof. unfold sat_add, MaxU32. destruct (_ <? _) eqn:E; [discriminate|]. lia. Qed.

Lemma kid_numbers_gen kids a b :
  fold_left (fun (acc : N * N) c => (N.min (fst acc) (n_delta c), sat_add (snd acc) (n_phi c))) kids (a, b) =
  (fold_left (fun m c => N.min m (n_delta c)) kids a, fold_left (fun s c => sat_add s (n_phi c)) kids b).
Proof. revert a b. induction kids as [|c r IH]; intros a b; cbn; [reflexivity|]. apply IH. Qed.

Lemma fold_min_0 kids a : fold_left (fun m c => N.min m (n_delta c)) kids a = 0 -> a = 0 \/ exists c, In c kids /\ n_delta c = 0.
Proof.
  revert a. induction kids as [|c r IH]; intros a H; cbn in H; [now left|].
  apply IH in H as [H|(c' & Hc & H0)].
  - destruct (N.min_spec a (n_delta c)) as [[_ E]|[_ E]]; rewrite E in H; [now left|]. right. exists c. split; [now left|assumption].
  - right. exists c'. split; [now right|assumption].
Qed.

Lemma fold_sat_0 kids b : fold_left (fun s c => sat_add s (n_phi c)) kids b = 0 -> b = 0 /\ forall c, In c kids -> n_phi c = 0.
Proof.
  revert b. induction kids as [|c r IH]; intros b H; cbn in H; [split; [assumption|intros ? []]|].
  apply IH in H as [H Hr]. apply sat_add_0 in H as [Hb Hc]. split; [assumption|]. intros c' [<-|Hin]; auto.
Qed.

Lemma kid_numbers_phi0 kids phi delta : kid_numbers kids = (phi, delta) -> phi = 0 -> exists c, In c kids /\ n_delta c = 0.
Proof.
  unfold kid_numbers. rewrite kid_numbers_gen. intros E H. injection E as E1 E2. subst phi.
  apply fold_min_0 in H as [H|H]; [discriminate H|assumption].
Qed.

Lemma kid_numbers_delta0 kids phi delta : kid_numbers kids = (phi, delta) -> delta = 0 -> forall c, In c kids -> n_phi c = 0.
Proof.
  unfold kid_numbers. rewrite kid_numbers_gen. intros E H. injection E as E1 E2. subst delta.
  apply fold_sat_0 in H as [_ H]. assumption.
Qed.

(* ---------- Position.Move advances the ply by one and keeps the size ---------- *)
Lemma mv_fields : forall hsq bc p m q, move_prealloc hsq bc p m = Ok q -> move q = (move p + 1)%Z /\ size q = size p.
Proof.
  intros hsq bc p m q H. unfold move_prealloc in H.
  repeat (match type of H with
  | (if ?b then _ else _) = Ok _ => destruct b; try discriminate H
  | (match ?x with _ => _ end) = Ok _ => destruct x eqn:?; try discriminate H
  | bind ?r _ = Ok _ => destruct r eqn:?; cbn [bind] in H; try discriminate H
  | (let '(_, _) := ?x in _) = Ok _ => destruct x eqn:?
  end).
  all: injection H as <-; split; reflexivity.
Qed.

Lemma to_move_flip : forall hsq bc p m q, move_prealloc hsq bc p m = Ok q -> to_move_white q = negb (to_move_white p).
Proof.
  intros hsq bc p m q H. apply mv_fields in H as [H _]. unfold to_move_white. rewrite H.
  rewrite Z.even_add. cbn. now destruct (Z.even (move p)).
Qed.

(* ---------- AllMoves returns fewer than 2^32 moves on boards up to 8x8 (uint32(moves) does not wrap) ---------- *)
Lemma flat_map_lenN {A B} (f : A -> list B) l (k : N) :
  (forall x, N.of_nat (length (f x)) <= k) -> N.of_nat (length (flat_map f l)) <= N.of_nat (length l) * k.
Proof.
  intros H. induction l as [|a l IH]; [cbn; lia|].
  cbn [flat_map length]. rewrite app_length, Nat2N.inj_add, Nat2N.inj_succ, N.mul_succ_l. specialize (H a). lia.
Qed.

Lemma slides_rows_small : forall k, N.of_nat (length (nth k slides_table [])) <= 255.
Proof.
  assert (H : forallb (fun t => N.of_nat (length t) <=? 255) slides_table = true) by (vm_compute; reflexivity).
  rewrite forallb_forall in H. intros k.
  destruct (nth_in_or_default k slides_table []) as [Hin|E].
  - apply N.leb_le. apply H. exact Hin.
  - rewrite E. cbn. lia.
Qed.

Lemma all_moves_small p : size p <= 8 -> N.of_nat (length (all_moves p)) < 2 ^ 32.
Proof.
  intros Hs. unfold all_moves.
  set (sz := N.to_nat (size p)).
  assert (Hsz : N.of_nat sz <= 8) by (unfold sz; lia).
  match goal with |- N.of_nat (length (flat_map ?f ?l)) < _ =>
    assert (H : N.of_nat (length (flat_map f l)) <= N.of_nat (length l) * (8 * 1020)) end.
  { apply flat_map_lenN. intros x.
    match goal with |- N.of_nat (length (flat_map ?f ?l)) <= _ =>
      assert (H : N.of_nat (length (flat_map f l)) <= N.of_nat (length l) * 1020) end.
    { apply flat_map_lenN. intros y.
      repeat match goal with |- context[if ?b then _ else _] => destruct b end; cbn [length]; try lia.
      match goal with |- N.of_nat (length (flat_map ?f ?l)) <= _ =>
        assert (H : N.of_nat (length (flat_map f l)) <= N.of_nat (length l) * 255) end.
      { apply flat_map_lenN. intros [t d].
        match goal with |- N.of_nat (length (flat_map ?f ?l)) <= _ =>
          assert (H : N.of_nat (length (flat_map f l)) <= N.of_nat (length l) * 1) end.
        { apply flat_map_lenN. intros s. destruct (_ =? _); cbn; lia. }
        pose proof (slides_rows_small (N.to_nat (N.min (nthN (Height p) (N.of_nat (y * sz + x))) (size p)))). lia. }
      cbn [length] in H. lia. }
    rewrite seq_length in H. lia. }
  rewrite seq_length in H. change (2 ^ 32) with 4294967296. lia.
Qed.

(* ---------- the game and the claims ---------- *)
Section PnSound.
Variable basis : list N.
Variable cfg : pcfg.
Variable aw : bool.                          (* the attacker is White *)

Notation pmv := (pmv basis).

(* legal successors; finished positions; attacker to move *)
Definition succs (p : position) : list position :=
  flat_map (fun m => match pmv p m with Ok q => [q] | _ => [] end) (all_moves p).
Definition terminal (p : position) : option bool :=
  match game_over p with
  | Some (true, who) => Some (match who with GWhite => aw | GBlack => negb aw | GNone => false end)
  | _ => None
  end.
Definition attp (p : position) : bool := Bool.eqb (to_move_white p) aw.

Notation wnp := (wn position succs terminal attp).
Notation Wbd := (Wb position pos_equal succs terminal attp).

(* proof number 0 claims: a forced win (history-free, some number of plies) *)
Definition W (p : position) : Prop := exists n, wnp n p = true.
(* disproof number 0 claims: on this line of play (ancestors = the history, threefold repetition detected with
   Position.Equal counts against the attacker) there is no win within the plies that MaxDepth leaves *)
Definition L (path : list (position * bool)) : Prop :=
  match path with
  | [] => True
  | (cur, _) :: rest =>
    ~ ((Z.of_nat (length rest) <= pc_maxdepth cfg)%Z /\
       Wbd (Z.to_nat (pc_maxdepth cfg - Z.of_nat (length rest))) (map fst rest) cur)
  end.

Lemma succs_in p m q : In m (all_moves p) -> pmv p m = Ok q -> In q (succs p).
Proof. intros Hm E. unfold succs. apply in_flat_map. exists m. split; [assumption|]. rewrite E. now left. Qed.

Lemma in_succs p q : In q (succs p) -> exists m, In m (all_moves p) /\ pmv p m = Ok q.
Proof.
  unfold succs. intros H. apply in_flat_map in H as (m & Hm & Hq). exists m. split; [assumption|].
  destruct (pmv p m); cbn in Hq; try contradiction. destruct Hq as [<-|[]]. reflexivity.
Qed.

Lemma W_term p : terminal p = Some true -> W p.
Proof. intros H. exists 0%nat. cbn. now rewrite H. Qed.

Lemma W_or p q : terminal p = None -> attp p = true -> In q (succs p) -> W q -> W p.
Proof. intros Ht Ha Hq [n Hn]. exists (S n). cbn. rewrite Ht, Ha. apply existsb_exists. eauto. Qed.

Lemma W_and p : terminal p = None -> attp p = false -> (forall q, In q (succs p) -> W q) -> W p.
Proof.
  intros Ht Ha H.
  assert (exists n, forall c, In c (succs p) -> wnp n c = true) as [n Hn].
  { induction (succs p) as [|c l IHl]; [exists 0%nat; intros ? []|].
    destruct (H c (or_introl eq_refl)) as [n1 H1].
    destruct IHl as [n2 H2]; [intros; apply H; now right|].
    exists (max n1 n2). intros c' [<-|Hc'].
    - eapply wn_le; [|eassumption]. lia.
    - eapply wn_le; [|apply H2, Hc']. lia. }
  exists (S n). cbn. rewrite Ht, Ha. apply forallb_forall. assumption.
Qed.

(* the disproof claim of a node from the claims of its children *)
Lemma L_or cur ir rest : terminal cur = None -> attp cur = true ->
  (forall q, In q (succs cur) -> exists ir', L ((q, ir') :: (cur, ir) :: rest)) -> L ((cur, ir) :: rest).
Proof.
  intros Ht Ha H [Hd Hw]. inversion Hw as [k h p Hterm | k h p c Hr Ht' Ha' Hc Hwc | k h p Hr Ht' Ha' Hall]; subst.
  - congruence.
  - destruct (H c Hc) as [ir' Hl]. apply Hl. cbn [length map fst]. split; [lia|].
    replace (Z.to_nat (pc_maxdepth cfg - Z.of_nat (S (length rest)))) with k by lia. exact Hwc.
  - congruence.
Qed.

Lemma L_and cur ir rest q ir' : terminal cur = None -> attp cur = false ->
  In q (succs cur) -> L ((q, ir') :: (cur, ir) :: rest) -> L ((cur, ir) :: rest).
Proof.
  intros Ht Ha Hq Hl [Hd Hw]. inversion Hw as [k h p Hterm | k h p c Hr Ht' Ha' Hc Hwc | k h p Hr Ht' Ha' Hall]; subst.
  - congruence.
  - congruence.
  - apply Hl. cbn [length map fst]. split; [lia|].
    replace (Z.to_nat (pc_maxdepth cfg - Z.of_nat (S (length rest)))) with k by lia. apply Hall. exact Hq.
Qed.

(* checkRepetition only reports repetitions that are there *)
Lemma check_rep_sound irrev cur ir rest :
  check_repetition irrev ((cur, ir) :: rest) = true -> (2 <= reps position pos_equal (map fst rest) cur)%nat.
Proof.
  unfold check_repetition. destruct irrev; [discriminate|].
  match goal with |- (?f rest 1%nat = true) -> _ => set (go := f) end.
  assert (G : forall l c, go l c = true -> (3 <= c + reps position pos_equal (map fst l) cur)%nat).
  { induction l as [|[q i] r IH]; intros c H; cbn in H.
    - apply Nat.eqb_eq in H. lia.
    - unfold reps in *. cbn [map fst filter].
      destruct (i || Nat.eqb c 3) eqn:E.
      + apply Nat.eqb_eq in H. lia.
      + apply IH in H. destruct (pos_equal q cur); cbn [length]; lia. }
  intros H. apply G in H. lia.
Qed.

(* ---------- the invariant ---------- *)
(* the children of an unsolved expanded node cover every legal move, unless expand stopped at a child that settles the node *)
Definition covers (cur : position) (kids : list pn) : Prop :=
  (forall m q, In m (all_moves cur) -> pmv cur m = Ok q -> exists c, In c kids /\ n_move c = m) \/
  (exists c, In c kids /\ n_delta c = 0 /\ n_phi c <> 0).

Definition kid_ok (P : pn -> list (position * bool) -> Prop) (cur : position) (and_parent : bool)
           (path : list (position * bool)) (c : pn) : Prop :=
  exists q, pmv cur (n_move c) = Ok q /\ In (n_move c) (all_moves cur) /\ n_and c = negb and_parent /\
            P c ((q, n_irrev c) :: path).

Fixpoint pok (t : pn) (path : list (position * bool)) {struct t} : Prop :=
  match t with
  | PN mv phi delta value irrev and_node expd pd kids =>
    match path with
    | [] => False
    | (cur, _) :: _ =>
      attp cur = negb and_node /\
      size cur <= 8 /\
      ((if and_node then delta else phi) = 0 -> W cur) /\
      ((if and_node then phi else delta) = 0 -> L path) /\
      (expd = false -> kids = []) /\
      ((expd = true \/ (phi <> 0 /\ delta <> 0)) -> terminal cur = None) /\
      (expd = true -> phi <> 0 -> delta <> 0 -> covers cur kids) /\
      (value <> 0 -> expd = false /\ (phi = 0 \/ delta = 0)) /\
      (fix kids_ok (l : list pn) : Prop :=
         match l with
         | [] => True
         | c :: r =>
           (exists q, pmv cur (n_move c) = Ok q /\ In (n_move c) (all_moves cur) /\ n_and c = negb and_node /\
                      pok c ((q, n_irrev c) :: path)) /\ kids_ok r
         end) kids
    end
  end.

Definition node_facts (t : pn) (path : list (position * bool)) (cur : position) : Prop :=
  attp cur = negb (n_and t) /\
  size cur <= 8 /\
  ((if n_and t then n_delta t else n_phi t) = 0 -> W cur) /\
  ((if n_and t then n_phi t else n_delta t) = 0 -> L path) /\
  (n_expanded t = false -> n_kids t = []) /\
  ((n_expanded t = true \/ (n_phi t <> 0 /\ n_delta t <> 0)) -> terminal cur = None) /\
  (n_expanded t = true -> n_phi t <> 0 -> n_delta t <> 0 -> covers cur (n_kids t)) /\
  (n_value t <> 0 -> n_expanded t = false /\ (n_phi t = 0 \/ n_delta t = 0)) /\
  Forall (kid_ok pok cur (n_and t) path) (n_kids t).

Lemma pok_unfold t cur ir rest : pok t ((cur, ir) :: rest) <-> node_facts t ((cur, ir) :: rest) cur.
Proof.
  destruct t as [mv phi delta value irrev and_node expd pd kids]. unfold node_facts. cbn [pok n_and n_phi n_delta n_expanded n_kids n_value].
  assert (K : (fix kids_ok (l : list pn) : Prop :=
         match l with
         | [] => True
         | c :: r =>
           (exists q, pmv cur (n_move c) = Ok q /\ In (n_move c) (all_moves cur) /\ n_and c = negb and_node /\
                      pok c ((q, n_irrev c) :: (cur, ir) :: rest)) /\ kids_ok r
         end) kids <-> Forall (kid_ok pok cur and_node ((cur, ir) :: rest)) kids).
  { induction kids as [|c r IH]; [split; auto|]. split.
    - intros [H1 H2]. constructor; [exact H1|now apply IH].
    - intros H. inversion H; subst. split; [assumption|now apply IH]. }
  rewrite K. tauto.
Qed.

Lemma pok_nonempty t path : pok t path -> path <> [].
Proof. destruct t, path; cbn; [tauto|discriminate]. Qed.

(* ---------- leaves ---------- *)
Lemma terminal_of_eval irrev cur ir rest :
  evaluate_node cfg aw irrev ((cur, ir) :: rest) = 0 -> terminal cur = None.
Proof.
  unfold evaluate_node, terminal. destruct (_ <? _)%Z; [discriminate|].
  destruct (game_over cur) as [[[|] who]|]; auto.
  destruct (match who with GWhite => aw | GBlack => negb aw | GNone => false end); discriminate.
Qed.

Lemma eval_1 irrev cur ir rest :
  evaluate_node cfg aw irrev ((cur, ir) :: rest) = 1 -> terminal cur = Some true.
Proof.
  unfold evaluate_node, terminal. destruct (_ <? _)%Z; [discriminate|].
  destruct (game_over cur) as [[[|] who]|].
  - destruct (match who with GWhite => aw | GBlack => negb aw | GNone => false end); [reflexivity|discriminate].
  - destruct (check_repetition _ _); discriminate.
  - destruct (check_repetition _ _); discriminate.
Qed.

Lemma eval_2 irrev cur ir rest :
  evaluate_node cfg aw irrev ((cur, ir) :: rest) = 2 -> L ((cur, ir) :: rest).
Proof.
  unfold evaluate_node. cbn [length]. destruct (_ <? _)%Z eqn:Ed.
  - intros _ [Hd _]. apply Z.ltb_lt in Ed. lia.
  - intros H [Hd Hw].
    assert (Hnot : terminal cur <> Some true /\ (terminal cur = None -> (2 <= reps position pos_equal (map fst rest) cur)%nat)).
    { unfold terminal. destruct (game_over cur) as [[[|] who]|].
      - destruct (match who with GWhite => aw | GBlack => negb aw | GNone => false end); [discriminate|]. split; [discriminate|discriminate].
      - destruct (check_repetition irrev ((cur, ir) :: rest)) eqn:Er; [|discriminate]. split; [discriminate|]. intros _. eapply check_rep_sound; eassumption.
      - destruct (check_repetition irrev ((cur, ir) :: rest)) eqn:Er; [|discriminate]. split; [discriminate|]. intros _. eapply check_rep_sound; eassumption. }
    destruct Hnot as [Hn1 Hn2].
    inversion Hw as [k h p Hterm | k h p c Hr Ht' Ha' Hc Hwc | k h p Hr Ht' Ha' Hall]; subst.
    + contradiction.
    + specialize (Hn2 Ht'). unfold rep_ok in Hr. lia.
    + specialize (Hn2 Ht'). unfold rep_ok in Hr. lia.
Qed.

Lemma eval_cases irrev path : let v := evaluate_node cfg aw irrev path in v = 0 \/ v = 1 \/ v = 2.
Proof.
  unfold evaluate_node. destruct (_ <? _)%Z; [auto|]. destruct path as [|[p i] r]; [auto|].
  destruct (game_over p) as [[[|] who]|].
  - destruct (match who with GWhite => aw | GBlack => negb aw | GNone => false end); auto.
  - destruct (check_repetition _ _); auto.
  - destruct (check_repetition _ _); auto.
Qed.

Lemma no_moves_no_succs p : size p <= 8 -> N.of_nat (length (all_moves p)) mod 2 ^ 32 = 0 -> succs p = [].
Proof.
  intros Hs H. rewrite N.mod_small in H by (now apply all_moves_small).
  unfold succs. destruct (all_moves p); [reflexivity|discriminate].
Qed.

Lemma leaf_ok mv irrev and_node cur rest :
  attp cur = negb and_node -> size cur <= 8 ->
  let path := (cur, irrev) :: rest in
  let value := evaluate_node cfg aw irrev path in
  pok (PN mv (fst (leaf_numbers and_node value cur)) (snd (leaf_numbers and_node value cur)) value irrev and_node false 0 []) path.
Proof.
  intros Ha Hs path value. apply pok_unfold. unfold node_facts. cbn [n_and n_phi n_delta n_expanded n_kids n_value].
  split; [assumption|]. split; [assumption|].
  assert (MaxU32 <> 0) by (unfold MaxU32; cbn; discriminate).
  destruct (eval_cases irrev path) as [E|[E|E]]; fold value in E; rewrite E; unfold leaf_numbers; cbn [N.eqb Pos.eqb fst snd].
  - (* unknown *)
    pose proof (terminal_of_eval _ _ _ _ E) as Ht.
    repeat split; auto; try (intros; constructor).
    + destruct and_node; cbn [fst snd]; [|discriminate]. intros H0. apply no_moves_no_succs in H0; [|assumption].
      apply W_and; auto. rewrite H0. intros ? [].
    + destruct and_node; cbn [fst snd]; [discriminate|]. intros H0. apply no_moves_no_succs in H0; [|assumption].
      apply L_or; auto. rewrite H0. intros ? [].
    + discriminate.
    + exfalso; congruence.
  - (* won *)
    pose proof (eval_1 _ _ _ _ E) as Ht.
    destruct and_node; cbn [Bool.eqb fst snd]; repeat split; auto; try (intros; constructor); try (intros; now apply W_term); try contradiction; try discriminate.
    all: intros [|[? ?]]; try discriminate; contradiction.
  - (* not won *)
    pose proof (eval_2 _ _ _ _ E) as Hl.
    destruct and_node; cbn [Bool.eqb fst snd]; repeat split; auto; try (intros; constructor); try contradiction; try discriminate.
    all: intros [|[? ?]]; try discriminate; contradiction.
Qed.

(* ---------- expand ---------- *)
Lemma new_child_fields and_parent cur path m q :
  let c := new_child cfg aw and_parent cur path m q in
  n_move c = m /\ n_and c = negb and_parent /\ n_expanded c = false.
Proof. unfold new_child. destruct (leaf_numbers _ _ _). cbn. auto. Qed.

Lemma new_child_ok and_parent cur ir rest m q :
  attp cur = negb and_parent -> size cur <= 8 -> pmv cur m = Ok q ->
  let c := new_child cfg aw and_parent cur ((cur, ir) :: rest) m q in
  pok c ((q, n_irrev c) :: (cur, ir) :: rest).
Proof.
  intros Ha Hs E. unfold new_child.
  match goal with |- context[evaluate_node cfg aw ?i _] => set (irrev := i) end.
  pose proof (leaf_ok m irrev (negb and_parent) q ((cur, ir) :: rest)) as H.
  cbn zeta in H. destruct (leaf_numbers (negb and_parent) _ q) as [phi delta] eqn:El. cbn [fst snd] in H.
  cbn [n_irrev]. apply H.
  - unfold attp in *. unfold Pn.pmv in E. rewrite (to_move_flip _ _ _ _ _ E).
    destruct (to_move_white cur), aw, and_parent; cbn in *; congruence.
  - unfold Pn.pmv in E. apply mv_fields in E as [_ E]. now rewrite E.
Qed.

Lemma new_child_delta0 and_parent cur path m q :
  let c := new_child cfg aw and_parent cur path m q in
  size q <= 8 -> n_delta c = 0 -> n_phi c <> 0.
Proof.
  unfold new_child. intros Hs. destruct (leaf_numbers _ _ _) as [phi delta] eqn:E. cbn [n_delta n_phi]. intros Hd Hp. subst.
  unfold leaf_numbers, MaxU32 in E. destruct (_ =? 0); [inversion E|destruct (Bool.eqb _ _); cbn in E; inversion E].
Qed.

Lemma gen_kids_ok and_parent cur ir rest :
  attp cur = negb and_parent -> size cur <= 8 ->
  forall ms kids st kids' st',
    let path := (cur, ir) :: rest in
    Forall (kid_ok pok cur and_parent path) kids ->
    (forall m, In m ms -> In m (all_moves cur)) ->
    gen_kids basis cfg aw and_parent cur path ms kids st = (kids', st') ->
    Forall (kid_ok pok cur and_parent path) kids' /\
    ((forall m q, (In m ms \/ exists c, In c kids /\ n_move c = m) -> pmv cur m = Ok q -> exists c, In c kids' /\ n_move c = m) \/
     (exists c, In c kids' /\ n_delta c = 0 /\ n_phi c <> 0)).
Proof.
  intros Ha Hs ms. induction ms as [|m r IH]; intros kids st kids' st' path Hk Hin E; cbn [gen_kids] in E.
  - injection E as <- <-. split; [assumption|]. left. intros m q [[]|H] _. exact H.
  - destruct (pmv cur m) as [q| |] eqn:Em.
    + pose proof (new_child_fields and_parent cur path m q) as (F1 & F2 & F3).
      pose proof (new_child_ok and_parent cur ir rest m q Ha Hs Em) as Hc.
      set (c := new_child cfg aw and_parent cur path m q) in *.
      assert (Hkc : Forall (kid_ok pok cur and_parent path) (c :: kids)).
      { constructor; [|assumption]. exists q. rewrite F1. repeat split; auto. apply Hin. now left. }
      destruct (n_delta c =? 0) eqn:Ed.
      * injection E as <- <-. split; [assumption|]. right. exists c. split; [now left|]. apply N.eqb_eq in Ed. split; [assumption|].
        apply (new_child_delta0 and_parent cur path m q); [|assumption].
        unfold Pn.pmv in Em. apply mv_fields in Em as [_ Em]. now rewrite Em.
      * apply IH in E; [|assumption|intros; apply Hin; now right].
        destruct E as [E1 E2]. split; [assumption|]. destruct E2 as [E2|E2]; [left|now right].
        intros m' q' [[<-|H]|(c' & Hc' & Hm')] Eq.
        -- apply E2 with (q := q'); [|assumption]. right. exists c. split; [now left|assumption].
        -- apply E2 with (q := q'); [|assumption]. now left.
        -- apply E2 with (q := q'); [|assumption]. right. exists c'. split; [now right|assumption].
    + apply IH in E; [|assumption|intros; apply Hin; now right].
      destruct E as [E1 E2]. split; [assumption|]. destruct E2 as [E2|E2]; [left|now right].
      intros m' q' [[<-|H]|H] Eq; [congruence| |]; apply E2 with (q := q'); auto.
    + apply IH in E; [|assumption|intros; apply Hin; now right].
      destruct E as [E1 E2]. split; [assumption|]. destruct E2 as [E2|E2]; [left|now right].
      intros m' q' [[<-|H]|H] Eq; [congruence| |]; apply E2 with (q := q'); auto.
Qed.

(* ---------- updateAncestors at one node ---------- *)
Definition same3 (a b : pn) : Prop := n_move a = n_move b /\ n_and a = n_and b /\ n_irrev a = n_irrev b.

Lemma update_ok is_root t cur ir rest st t2 st2 :
  let path := (cur, ir) :: rest in
  n_expanded t = true -> n_value t = 0 -> attp cur = negb (n_and t) -> size cur <= 8 -> terminal cur = None ->
  covers cur (n_kids t) -> Forall (kid_ok pok cur (n_and t) path) (n_kids t) ->
  update_node cfg is_root t st = (t2, st2) ->
  pok t2 path /\ same3 t2 t.
Proof.
  intros path Hexp Hval Ha Hs Ht Hcov Hk E. unfold update_node in E.
  destruct (kid_numbers (n_kids t)) as [phi delta] eqn:K.
  (* the two claims for the new numbers *)
  assert (HW : (if n_and t then delta else phi) = 0 -> W cur).
  { destruct (n_and t) eqn:Eand; intros H0.
    - pose proof (kid_numbers_delta0 _ _ _ K H0) as Hall.
      destruct Hcov as [Hcov|(c & Hc & Hd & Hp)]; [|now rewrite (Hall c Hc) in Hp].
      apply W_and; auto. intros q Hq. apply in_succs in Hq as (m & Hm & Eq).
      destruct (Hcov m q Hm Eq) as (c & Hc & Hmc). rewrite Forall_forall in Hk.
      destruct (Hk c Hc) as (q' & Eq' & _ & Hand & Hpok). rewrite Hmc, Eq in Eq'. injection Eq' as <-.
      apply pok_unfold in Hpok. destruct Hpok as (_ & _ & Hw & _). apply Hw. rewrite Hand. cbn. now apply Hall.
    - destruct (kid_numbers_phi0 _ _ _ K H0) as (c & Hc & Hd). rewrite Forall_forall in Hk.
      destruct (Hk c Hc) as (q & Eq & Hm & Hand & Hpok).
      apply W_or with (q := q); auto. { now apply succs_in with (m := n_move c). }
      apply pok_unfold in Hpok. destruct Hpok as (_ & _ & Hw & _). apply Hw. rewrite Hand. cbn. assumption. }
  assert (HL : (if n_and t then phi else delta) = 0 -> L path).
  { destruct (n_and t) eqn:Eand; intros H0.
    - destruct (kid_numbers_phi0 _ _ _ K H0) as (c & Hc & Hd). rewrite Forall_forall in Hk.
      destruct (Hk c Hc) as (q & Eq & Hm & Hand & Hpok).
      apply L_and with (q := q) (ir' := n_irrev c); auto. { now apply succs_in with (m := n_move c). }
      apply pok_unfold in Hpok. destruct Hpok as (_ & _ & _ & Hl & _). apply Hl. rewrite Hand. cbn. assumption.
    - pose proof (kid_numbers_delta0 _ _ _ K H0) as Hall.
      destruct Hcov as [Hcov|(c & Hc & Hd & Hp)]; [|now rewrite (Hall c Hc) in Hp].
      apply L_or; auto. intros q Hq. apply in_succs in Hq as (m & Hm & Eq).
      destruct (Hcov m q Hm Eq) as (c & Hc & Hmc). rewrite Forall_forall in Hk.
      destruct (Hk c Hc) as (q' & Eq' & _ & Hand & Hpok). rewrite Hmc, Eq in Eq'. injection Eq' as <-.
      exists (n_irrev c). apply pok_unfold in Hpok. destruct Hpok as (_ & _ & _ & Hl & _). apply Hl. rewrite Hand. cbn. now apply Hall. }
  destruct ((phi =? 0) || (delta =? 0)) eqn:Esolved.
  - injection E as <- _. split; [|unfold same3, with_numbers; cbn; auto].
    apply pok_unfold. unfold node_facts, with_numbers. cbn [n_and n_phi n_delta n_expanded n_kids n_value].
    repeat split; auto; try congruence.
    + intros _ Hp Hd. apply orb_true_iff in Esolved as [Es|Es]; apply N.eqb_eq in Es; contradiction.
    + destruct (negb is_root && negb (pc_preserve cfg)); [constructor|assumption].
  - injection E as <- _. split; [|unfold same3, with_numbers; cbn; auto].
    apply pok_unfold. unfold node_facts, with_numbers. cbn [n_and n_phi n_delta n_expanded n_kids n_value].
    repeat split; auto; congruence.
Qed.

(* ---------- one iteration ---------- *)
Lemma forall_replace {A} (P : A -> Prop) a c c' r : Forall P (a ++ c :: r) -> P c' -> Forall P (a ++ c' :: r).
Proof.
  intros H Hc. apply Forall_app in H as [H1 H2]. inversion H2; subst. apply Forall_app. split; [assumption|]. constructor; assumption.
Qed.

Lemma covers_replace cur a c c' r :
  n_move c' = n_move c -> n_delta c <> 0 -> covers cur (a ++ c :: r) -> covers cur (a ++ c' :: r).
Proof.
  intros Hm Hd [H|(w & Hw & Hw0 & Hwp)].
  - left. intros m q Hin Eq. destruct (H m q Hin Eq) as (c0 & Hc0 & Hm0).
    apply in_app_or in Hc0 as [Hc0|[<-|Hc0]].
    + exists c0. split; [apply in_or_app; now left|assumption].
    + exists c'. split; [apply in_or_app; right; now left|congruence].
    + exists c0. split; [apply in_or_app; right; now right|assumption].
  - right. exists w. split; [|auto]. apply in_app_or in Hw as [Hw|[<-|Hw]].
    + apply in_or_app; now left.
    + contradiction.
    + apply in_or_app; right; now right.
Qed.

Definition descend_ok (descend : pn -> list (position * bool) -> pstats -> ires) : Prop :=
  forall c path st c' st', pok c path -> n_phi c <> 0 -> n_delta c <> 0 -> descend c path st = Step c' st' ->
                           pok c' path /\ same3 c' c.

Lemma pick_ok descend is_root t cur ir rest st t2 st2 :
  let path := (cur, ir) :: rest in
  descend_ok descend ->
  n_expanded t = true -> n_value t = 0 -> attp cur = negb (n_and t) -> size cur <= 8 -> terminal cur = None ->
  forall l before, n_kids t = rev before ++ l ->
    covers cur (n_kids t) -> Forall (kid_ok pok cur (n_and t) path) (n_kids t) ->
    pick_kid basis cfg descend is_root t path st before l = Step t2 st2 ->
    pok t2 path /\ same3 t2 t.
Proof.
  intros path Hdesc Hexp Hval Ha Hs Ht l. induction l as [|c r IH]; intros before Ekids Hcov Hk E; cbn [pick_kid] in E; [discriminate|].
  destruct (n_delta c =? n_phi t) eqn:Esel.
  - destruct ((n_phi c =? 0) || (n_delta c =? 0)) eqn:Esolved; [discriminate|].
    apply orb_false_iff in Esolved as [Ep Ed]. apply N.eqb_neq in Ep, Ed.
    unfold path in E. destruct (pmv cur (n_move c)) as [q| |] eqn:Eq; try discriminate.
    destruct (descend c ((q, n_irrev c) :: (cur, ir) :: rest) st) as [c' st'|w] eqn:Edesc; [|discriminate].
    destruct (update_node cfg is_root (set_kids t (rev before ++ c' :: r)) st') as [t2' st2'] eqn:Eu.
    injection E as <- <-.
    assert (Hkc : kid_ok pok cur (n_and t) path c).
    { rewrite Forall_forall in Hk. apply Hk. rewrite Ekids. apply in_or_app. right. now left. }
    destruct Hkc as (q0 & Eq0 & Hm & Hand & Hpok). rewrite Eq in Eq0. injection Eq0 as <-.
    destruct (Hdesc _ _ _ _ _ Hpok Ep Ed Edesc) as (Hpok' & Hm' & Hand' & Hir').
    assert (Hu := update_ok is_root (set_kids t (rev before ++ c' :: r)) cur ir rest st' t2' st2').
    cbn [set_kids n_expanded n_and n_kids n_value] in Hu.
    destruct Hu as [Hu1 Hu2]; auto.
    + rewrite Ekids in Hcov. eapply covers_replace; eauto.
    + rewrite Ekids in Hk. eapply forall_replace; [exact Hk|].
      exists q. rewrite Hm', Hand', Hir'. repeat split; auto.
  - apply IH with (before := c :: before); auto. cbn [rev]. rewrite <- app_assoc. exact Ekids.
Qed.

Lemma iterate_ok : forall fuel is_root, descend_ok (iterate basis cfg aw fuel is_root).
Proof.
  induction fuel as [|f IH]; intros is_root t path st t' st' Hpok Hp Hd E; cbn [iterate] in E; [discriminate|].
  destruct path as [|[cur ir] rest]; [now apply pok_nonempty in Hpok|].
  pose proof Hpok as Hn. apply pok_unfold in Hn. destruct Hn as (Ha & Hs & HW & HL & Hnk & Ht & Hcov & Hv & Hk).
  assert (Hval : n_value t = 0).
  { destruct (N.eq_dec (n_value t) 0) as [|Hne]; [assumption|]. destruct (Hv Hne) as [_ [H0|H0]]; contradiction. }
  destruct (n_expanded t) eqn:Eexp.
  - eapply pick_ok with (before := []); eauto. reflexivity.
  - destruct ((0 <? pc_maxnodes cfg) && (pc_maxnodes cfg <? live st)); [discriminate|].
    destruct (expand_node basis cfg aw t ((cur, ir) :: rest) st) as [t1 st1] eqn:Ee.
    destruct (update_node cfg is_root t1 st1) as [t2 st2] eqn:Eu. injection E as <- <-.
    unfold expand_node in Ee.
    destruct (gen_kids basis cfg aw (n_and t) cur ((cur, ir) :: rest) (all_moves cur) [] st) as [kids stk] eqn:Eg.
    injection Ee as <- _.
    apply gen_kids_ok in Eg; auto. destruct Eg as [Eg1 Eg2].
    assert (Hcov' : covers cur kids).
    { destruct Eg2 as [Eg2|Eg2]; [left|now right]. intros m q Hm Eq. apply Eg2 with (q := q); auto. }
    destruct (update_ok is_root (PN (n_move t) (n_phi t) (n_delta t) (n_value t) (n_irrev t) (n_and t) true (n_pdepth t) kids) cur ir rest st1 t2 st2 eq_refl Hval Ha Hs (Ht (or_intror (conj Hp Hd))) Hcov' Eg1 Eu) as [Hu1 Hu2].
    split; [assumption|]. destruct Hu2 as (U1 & U2 & U3). unfold same3. cbn [n_move n_and n_irrev] in *. auto.
Qed.

(* ---------- the search loop and the verdict ---------- *)
Variable p0 : position.
Hypothesis Haw : aw = to_move_white p0.        (* Prove(): the attacker is the side to move at the root *)
Hypothesis Hsize : size p0 <= 8.

Lemma root_ok : pok (root_node cfg aw p0) [(p0, false)].
Proof.
  unfold root_node.
  pose proof (leaf_ok pmove0 false false p0 []) as H. cbn zeta in H.
  destruct (leaf_numbers false (evaluate_node cfg aw false [(p0, false)]) p0) as [phi delta]. cbn [fst snd] in H.
  apply H; [|assumption]. unfold attp. rewrite Haw. now destruct (to_move_white p0).
Qed.

Lemma search_ok : forall k dfuel t st t' st' w,
  pok t [(p0, false)] -> search_loop basis cfg aw k dfuel p0 t st = (t', st', w) -> pok t' [(p0, false)].
Proof.
  induction k as [|k IH]; intros dfuel t st t' st' w Hpok E; cbn [search_loop] in E.
  - injection E as <- _ _. assumption.
  - destruct ((n_phi t =? 0) || (n_delta t =? 0)) eqn:Es; [injection E as <- _ _; assumption|].
    apply orb_false_iff in Es as [Ep Ed]. apply N.eqb_neq in Ep, Ed.
    destruct (iterate basis cfg aw dfuel true t [(p0, false)] st) as [t1 st1|w1] eqn:Ei.
    + eapply IH; [|exact E]. eapply iterate_ok; eauto.
    + injection E as <- _ _. assumption.
Qed.

(* what Prove() reads off the final tree *)
Lemma verdict_proven root mv : pok root [(p0, false)] -> n_and root = false -> verdict root = (1, mv) ->
  W p0 /\ (mT mv <> 0 -> exists q, pmv p0 mv = Ok q /\ In mv (all_moves p0) /\ W q).
Proof.
  intros Hpok Hand E. apply pok_unfold in Hpok. destruct Hpok as (Ha & Hs & HW & HL & Hnk & Ht & Hcov & Hv & Hk).
  rewrite Hand in *. unfold verdict in E.
  destruct (n_phi root =? 0) eqn:Ep.
  - apply N.eqb_eq in Ep. split; [now apply HW|]. injection E as E.
    assert (G : forall l acc, Forall (kid_ok pok p0 false [(p0, false)]) l ->
              (mT acc <> 0 -> exists q, pmv p0 acc = Ok q /\ In acc (all_moves p0) /\ W q) ->
              let r := fold_left (fun acc c => if n_delta c =? 0 then n_move c else acc) l acc in
              mT r <> 0 -> exists q, pmv p0 r = Ok q /\ In r (all_moves p0) /\ W q).
    { induction l as [|c r IH]; intros acc Hl Hacc; cbn [fold_left]; [exact Hacc|].
      inversion Hl as [|? ? Hc Hr]; subst. apply IH; [assumption|].
      destruct (n_delta c =? 0) eqn:Ed; [|exact Hacc]. intros _.
      destruct Hc as (q & Eq & Hm & Hca & Hpc). exists q. repeat split; auto.
      apply pok_unfold in Hpc. destruct Hpc as (_ & _ & Hw & _). apply Hw. rewrite Hca. cbn. now apply N.eqb_eq. }
    subst mv. apply G; [assumption|]. intros Hf. now contradiction Hf.
  - destruct (n_delta root =? 0) eqn:Ed.
    + destruct (fold_left _ _ _); discriminate.
    + apply N.eqb_neq in Ep, Ed. injection E as E _.
      destruct (Hv ltac:(rewrite E; discriminate)) as [_ [H0|H0]]; contradiction.
Qed.

Lemma verdict_disproven root mv : pok root [(p0, false)] -> n_and root = false -> verdict root = (2, mv) -> L [(p0, false)].
Proof.
  intros Hpok Hand E. apply pok_unfold in Hpok. destruct Hpok as (Ha & Hs & HW & HL & Hnk & Ht & Hcov & Hv & Hk).
  rewrite Hand in *. unfold verdict in E.
  destruct (n_phi root =? 0) eqn:Ep; [discriminate|].
  destruct (n_delta root =? 0) eqn:Ed.
  - apply N.eqb_eq in Ed. now apply HL.
  - apply N.eqb_neq in Ep, Ed. injection E as E _.
    destruct (Hv ltac:(rewrite E; discriminate)) as [_ [H0|H0]]; contradiction.
Qed.

Lemma search_and : forall k dfuel t st t' st' w,
  n_and t = false -> search_loop basis cfg aw k dfuel p0 t st = (t', st', w) -> n_and t' = false.
Proof.
  induction k as [|k IH]; intros dfuel t st t' st' w Hand E; cbn [search_loop] in E.
  - injection E as <- _ _. assumption.
  - destruct ((n_phi t =? 0) || (n_delta t =? 0)) eqn:Es; [injection E as <- _ _; assumption|].
    destruct (iterate basis cfg aw dfuel true t [(p0, false)] st) as [t1 st1|w1] eqn:Ei; [|injection E as <- _ _; assumption].
    (* the flags of a node never change *)
    eapply IH; [|exact E].
    assert (forall fuel is_root t path st t1 st1, iterate basis cfg aw fuel is_root t path st = Step t1 st1 -> n_and t1 = n_and t) as Hi.
    { clear. intros fuel. destruct fuel as [|f]; intros is_root t path st t1 st1 E; cbn [iterate] in E; [discriminate|].
      assert (U : forall r t st t2 st2, update_node cfg r t st = (t2, st2) -> n_and t2 = n_and t).
      { clear. intros r t st t2 st2 E. unfold update_node in E. destruct (kid_numbers _). destruct (_ || _); injection E as <- _; reflexivity. }
      destruct (n_expanded t).
      - generalize dependent (@nil pn). induction (n_kids t) as [|c r IH]; intros before E; cbn [pick_kid] in E; [discriminate|].
        destruct (_ =? _); [|eapply IH; eauto].
        destruct (_ || _); [discriminate|]. destruct path as [|[cur ir] rest]; [discriminate|].
        destruct (pmv cur (n_move c)); try discriminate. destruct (iterate _ _ _ _ _ _ _ _); [|discriminate].
        destruct (update_node _ _ _ _) eqn:Eu. injection E as <- _. apply U in Eu. exact Eu.
      - destruct (_ && _); [discriminate|]. destruct (expand_node _ _ _ _ _ _) as [t1' st1'] eqn:Ee.
        destruct (update_node _ _ _ _) eqn:Eu. injection E as <- _. apply U in Eu. rewrite Eu.
        unfold expand_node in Ee. destruct path as [|[cur ir] rest]; [injection Ee as <- _; reflexivity|].
        destruct (gen_kids _ _ _ _ _ _ _ _ _). injection Ee as <- _. reflexivity. }
    rewrite (Hi _ _ _ _ _ _ _ Ei). assumption.
Qed.

(* THE VERDICTS OF THE PN SEARCH (model of Prover.Prove without PN^2) *)
Theorem pn_verdict_sound : forall iters dfuel root st result mv why,
  prove_pn basis cfg aw iters dfuel p0 = (root, st, result, mv, why) ->
  (result = 1 -> W p0 /\ (mT mv <> 0 -> exists q, pmv p0 mv = Ok q /\ In mv (all_moves p0) /\ W q)) /\
  (result = 2 -> L [(p0, false)]).
Proof.
  intros iters dfuel root st result mv why E. unfold prove_pn in E.
  destruct (search_loop basis cfg aw iters dfuel p0 (root_node cfg aw p0) stats0) as [[root' st'] why'] eqn:Es.
  destruct (verdict root') as [res pv] eqn:Ev. injection E as <- _ <- <- _.
  pose proof (search_ok _ _ _ _ _ _ _ root_ok Es) as Hpok.
  assert (Hand : n_and root' = false).
  { eapply search_and; [|exact Es]. unfold root_node. destruct (leaf_numbers _ _ _). reflexivity. }
  split; intros ->.
  - eapply verdict_proven; eauto.
  - eapply verdict_disproven; eauto.
Qed.
End PnSound.

(* ---------- the verdicts against the history-free attractor (what the retrograde oracle computes) ---------- *)
(* Position.Equal identifies positions that the game cannot tell apart: hypothesis of the two corollaries below *)
Definition equal_congruent (basis : list N) (aw : bool) : Prop :=
  forall n q p, pos_equal q p = true ->
    wn position (succs basis) (terminal aw) (attp aw) n q = wn position (succs basis) (terminal aw) (attp aw) n p.

Corollary pn_proven_rules : forall basis cfg p0 iters dfuel root st mv why,
  equal_congruent basis (to_move_white p0) -> size p0 <= 8 ->
  prove_pn basis cfg (to_move_white p0) iters dfuel p0 = (root, st, 1, mv, why) ->
  exists k, Wb position pos_equal (succs basis) (terminal (to_move_white p0)) (attp (to_move_white p0)) k [] p0.
Proof.
  intros basis cfg p0 iters dfuel root st mv why Hc Hs E.
  destruct (pn_verdict_sound basis cfg _ p0 eq_refl Hs _ _ _ _ _ _ _ E) as [H _].
  destruct (H eq_refl) as [[n Hn] _]. exists n. apply truth_equiv_bounded; assumption.
Qed.

Corollary pn_disproven_attractor : forall basis cfg p0 iters dfuel root st mv why,
  equal_congruent basis (to_move_white p0) -> size p0 <= 8 -> (0 <= pc_maxdepth cfg)%Z ->
  prove_pn basis cfg (to_move_white p0) iters dfuel p0 = (root, st, 2, mv, why) ->
  wn position (succs basis) (terminal (to_move_white p0)) (attp (to_move_white p0)) (Z.to_nat (pc_maxdepth cfg)) p0 = false.
Proof.
  intros basis cfg p0 iters dfuel root st mv why Hc Hs Hd E.
  destruct (pn_verdict_sound basis cfg _ p0 eq_refl Hs _ _ _ _ _ _ _ E) as [_ H].
  specialize (H eq_refl). cbn [L length map] in H.
  destruct (wn _ _ _ _ (Z.to_nat (pc_maxdepth cfg)) p0) eqn:Ew; [|reflexivity].
  exfalso. apply H. split; [cbn; lia|]. cbn [Z.of_nat]. rewrite Z.sub_0_r. apply truth_equiv_bounded; assumption.
Qed.

(* ---------- the statements exported by Properties/C06.v ---------- *)
Theorem pn_invariant :
  forall basis cfg (p0 : position) k dfuel t st w,
    size p0 <= 8 ->
    search_loop basis cfg (to_move_white p0) k dfuel p0 (root_node cfg (to_move_white p0) p0) stats0 = (t, st, w) ->
    pok basis cfg (to_move_white p0) t [(p0, false)].
Proof.
  intros basis cfg p0 k dfuel t st w Hs E. eapply search_ok; [|exact E]. apply root_ok; [reflexivity|assumption].
Qed.
