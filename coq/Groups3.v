From Coq Require Import NArith ZArith List Bool Lia ZifyN ZifyBool ZifyNat.
Require Import Board Flood Masks LowBit Conn Move GameOver Groups1 Groups2.
Import ListNotations.
Open Scope N_scope.

Section G3.
Variable s : N.
Hypothesis Hs : 3 <= s <= 8.
Let c := precompute s.
Variable B : N.
Hypothesis HB : forall i, N.testbit B i = true -> i < s * s.
Notation conn := (conn s B).
Notation Inv := (Inv s B).

Lemma loop : forall fuel bits seen out, Inv bits seen out -> (cnt bits < fuel)%nat ->
  exists out' seen', flood_groups fuel c bits seen out = Some out' /\ Inv 0 seen' out'.
Proof.
  induction fuel as [|f IH]; intros bits seen out HI Hf; [lia|].
  cbn [flood_groups]. destruct (N.eqb_spec bits 0) as [->|Hne]; [eauto|].
  assert (Hsub : sub bits B) by (destruct HI; assumption).
  assert (Hlt : bits < 2 ^ 64) by (eapply B_lt; eauto).
  set (next := N.land bits (bits - 1)).
  assert (Hnext : forall i, N.testbit next i = N.testbit bits i && negb (i =? ctz bits)) by (intros; now apply clear_lowest).
  assert (Hcnt : (cnt next < cnt bits)%nat).
  { apply cnt_strict; auto.
    - intros i Hi. rewrite Hnext in Hi. now apply andb_prop in Hi.
    - intros E. assert (H := Hnext (ctz bits)). rewrite <- E, (ctz_set bits Hne), N.eqb_refl in H. discriminate. }
  rewrite isolate_is_bit1 by assumption. rewrite land_bit1_zero.
  destruct (N.testbit seen (ctz bits)) eqn:HL; cbn [negb].
  - apply IH; [now apply step_seen|lia].
  - assert (Hin := comp_inside s Hs B HB bits seen out Hne HI HL).
    destruct (flood_comp s Hs B HB bits (ctz bits) Hsub (ctz_set bits Hne) Hin) as (g & Hg & Hgs).
    fold c in Hg. rewrite Hg.
    apply IH; [now apply step_unseen|lia].
Qed.

Lemma Inv_init : Inv B 0 [].
Proof.
  constructor.
  - intros i Hi; exact Hi.
  - intros i j H1 H2; congruence.
  - intros g [].
  - intros a H1 H2; congruence.
  - intros i Hi. rewrite N.bits_0 in Hi. discriminate.
  - intros a H1 H2; congruence.
Qed.

(* the groups are exactly the connectivity classes with at least two squares *)
Theorem groups_spec : exists gs, groups c B = Some gs /\
  (forall g, In g gs -> exists a, N.testbit B a = true /\ (forall i, N.testbit g i = true <-> conn a i) /\ exists i, i <> a /\ conn a i) /\
  (forall a, N.testbit B a = true -> (exists i, i <> a /\ conn a i) -> exists g, In g gs /\ forall i, N.testbit g i = true <-> conn a i).
Proof.
  assert (Hc : (cnt B < 65)%nat) by (assert (H := cnt_le_64 B); lia).
  destruct (loop 65 B 0 [] Inv_init Hc) as (gs & seen' & Hg & [A A2 Bo C D E]).
  exists gs. split; [exact Hg|split; [exact Bo|]].
  intros a Ha Hbig. apply E; auto.
Qed.
End G3.
Print Assumptions groups_spec.
