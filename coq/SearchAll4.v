(* SearchAll4.v: computed examples for SearchAll3.v (instantiated model, vm_compute): non-vacuity of analyze_all_sets_64 with three and
   with four best first moves, and a CANCELLED AnalyzeAll that lists moves which do not attain the reported value. *)
From Coq Require Import NArith ZArith List Bool Lia Permutation.
Require Import Board Stack Rules Move GameOver Refine Alloc Slide2 Slide6 Preserve1 Preserve5 Preserve6 Reach1 PreserveEx.
Require Import Eval EvalSpec Search NegamaxSpec SearchGen SearchExact SearchInst SearchC CancelEx SearchNeg1 SearchNeg2 SearchNeg3 SearchNeg4 SearchNeg5.
Require Import SearchAll1 SearchAll2 SearchAll3.
Require Import Generated.Consts.
Import ListNotations.
Open Scope Z_scope.

(* ---- computed examples on the instantiated model ---- *)
Definition heads (r : sstate * (list (list rmove) * Z * Z * bool)) := let '(_, (pvs, v, d, c)) := r in (map (hd move0) pvs, v, d, c).
(* the entries of AllMoves that attain v at depth d, computed from the specification *)
Definition spec_best (cfg : config) (p : position) (d : nat) (v : Z) : list rmove :=
  filter (fun m => match mvp gen_basis p m with Ok q => (- nmx gen_basis (c_eval cfg) (d - 1) q =? v) | _ => false end) (all_moves p).

Definition Sc1 := {| mX := 2; mY := 0; mT := 3; mS := 0 |}.
Definition c1 := {| mX := 2; mY := 0; mT := 2; mS := 0 |}.
Definition b2dn := {| mX := 1; mY := 1; mT := 8; mS := 1 |}.

Lemma q4_base : base_ok q4 /\ total q4 = 20%N /\ move q4 = 4 /\ is_over q4 = false.
Proof.
  destruct (base_ok_replay ms4 _ q4 (base_ok_new 3 false 10 0 ltac:(lia) ltac:(lia) ltac:(lia) ltac:(lia)) ltac:(vm_compute; discriminate)
              (eq_trans (f_equal (fun p => replay p ms4) (eq_sym start3_new)) replay_ms4)) as (A & B & C & D).
  split; [exact A|]. split; [rewrite D; vm_compute; reflexivity|]. split; [exact B|vm_compute; reflexivity].
Qed.

(* q4 = 3x3 after a1 c3 b2 b1, White to move; EvaluateWinner, depth 3, sorted: every hypothesis of analyze_all_sets_64 holds, and the
   call lists three first moves - Sc1, c1 and b2- (the moves that do not lose within three plies), value 0 - which are exactly the
   entries of AllMoves that the specification says attain 0 (there they appear in AllMoves order) *)
Example ex_all_three :
  precise cfg3w /\ builtin_eval cfg3w /\ SI (new_state 0) /\ base_ok q4 /\ (total q4 <= 64)%N /\ move q4 + 16 <= max_terminal_ply /\
  heads (analyze_all gen_basis cfg3w (new_state 0) q4) = ([Sc1; c1; b2dn], 0, 3, false) /\
  spec_best cfg3w q4 3 0 = [b2dn; c1; Sc1] /\ length (all_moves q4) = 16%nat.
Proof.
  destruct q4_base as (B & Et & Em & _).
  split; [repeat split|]. split; [left; reflexivity|]. split; [apply SI_new; reflexivity|]. split; [exact B|].
  split; [rewrite Et; lia|]. split; [rewrite Em; vm_compute; discriminate|].
  split; [vm_compute; reflexivity|]. split; vm_compute; reflexivity.
Qed.

(* built-in evaluator, empty 3x3 board, depth 2: the four corners *)
Definition cfgd2 := mk_cfg 2 false true true false 0.
Example ex_all_corners :
  heads (analyze_all gen_basis cfgd2 (new_state 0) start3) =
    ([{| mX := 0; mY := 0; mT := 2; mS := 0 |}; {| mX := 0; mY := 2; mT := 2; mS := 0 |};
      {| mX := 2; mY := 2; mT := 2; mS := 0 |}; {| mX := 2; mY := 0; mT := 2; mS := 0 |}], 250, 2, false) /\
  spec_best cfgd2 start3 2 250 =
     [{| mX := 0; mY := 0; mT := 2; mS := 0 |}; {| mX := 0; mY := 2; mT := 2; mS := 0 |};
      {| mX := 2; mY := 0; mT := 2; mS := 0 |}; {| mX := 2; mY := 2; mT := 2; mS := 0 |}].
Proof. split; vm_compute; reflexivity. Qed.

(* ---- the code BEFORE the repair: a CANCELLED AnalyzeAll lists moves that do not attain the reported value ----
   p5 = 3x3 after a1 c3 b2 b1 c1 (Black to move); MakePrecise, NoSort, EvaluateWinner, Depth 4, no table, fresh engine, context cancelled
   inside the 400th leaf evaluation (that is during the depth-4 iteration).  Analyze reports its deepest completed iteration (depth 3,
   value 0 - correct); the second pass of AnalyzeAll then ran with the flag set, every child search that does not cut off at its first
   grandchild is abandoned and returns 0, which equals the value: TWELVE lines were reported, of which only two (b1> and Sc2) attain the
   value; e.g. a2 loses by force (value -WinBase).  The uninterrupted depth-3 call lists the two.
   The real engine did the same before the repair (replayed: depth=3 value=0 canceled=true evals=413, 12 lines).
   The REPAIRED code stops at the first child search that ends with the flag set: one line (Analyze's), Canceled = true. *)
Definition ms5 : list rmove := [M 2 0 0 0; M 2 2 2 0; M 2 1 1 0; M 2 1 0 0; M 2 2 0 0]%Z%N.
Definition p5 : position := match replay start3 ms5 with Ok p => p | _ => start3 end.
Definition cfg4wn := mk_cfg 4 true true true false 1.
Definition cfg3wn := mk_cfg 3 true true true false 1.
Definition a2 := {| mX := 0; mY := 1; mT := 2; mS := 0 |}.

(* (number of lines, value, depth, Stats.Canceled, flag seen at the end, a2 is among the first moves) *)
Definition cancelled_obs (pinned : bool) :=
  let '(sk, (pvs, v, d, c)) := analyze_all_gen pinned gen_basis cfg4wn 400 (new_state 0) p5 in
  (length pvs, v, d, c, cancelled 400 sk, existsb (rmove_eqb a2) (map (hd move0) pvs)).
Definition uninterrupted_obs :=
  let '(pvs', v', d', c') := snd (analyze_all gen_basis cfg3wn (new_state 0) p5) in (length pvs', v', d', c').

Example cancelled_lists_losing_moves_pinned :
  cancelled_obs true = (12%nat, 0, 3, true, true, true) /\
  (match mvp gen_basis p5 a2 with Ok q => - nmx gen_basis evaluate_winner 2 q | _ => 0 end) = - Eval.WinBase /\
  nmx gen_basis evaluate_winner 3 p5 = 0 /\
  length (spec_best cfg4wn p5 3 0) = 2%nat /\
  uninterrupted_obs = (2%nat, 0, 3, false).
Proof.
  split; [vm_compute; reflexivity|]. split; [vm_compute; reflexivity|]. split; [vm_compute; reflexivity|]. split; vm_compute; reflexivity.
Qed.

Example cancelled_fixed : cancelled_obs false = (1%nat, 0, 3, true, true, false).
Proof. vm_compute. reflexivity. Qed.

(* the flag flips DURING the second pass (q4, MakePrecise, NoSort, EvaluateWinner, Depth 3: Analyze takes 184 leaf evaluations, the whole
   uninterrupted AnalyzeAll 282 and lists b2-, c1, Sc1): the repaired code reports a prefix, flagged as cancelled *)
Definition heads_k (k : Z) := heads (analyze_all_cancel gen_basis cfg3wn k (new_state 0) q4).
Example cancelled_during_second_pass :
  heads_k 0 = ([b2dn; c1; Sc1], 0, 3, false) /\ heads_k 250 = ([b2dn], 0, 3, true) /\ heads_k 270 = ([b2dn; c1], 0, 3, true) /\
  heads_k 281 = ([b2dn; c1; Sc1], 0, 3, true).
Proof. split; [|split; [|split]]; vm_compute; reflexivity. Qed.
