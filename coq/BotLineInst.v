(* BotLineInst.v: the older dispatch BotInst.classify (used by the C07 driver until the line layer was modelled, still
   compared on every line of every schedule) is the event component of BotLine.classify, for every game string and every
   byte list; and the chat callbacks BotLine.classify reports are exactly the members of the three chat languages. *)
From Coq Require Import NArith ZArith Bool Ascii Lia.
From Coq Require Import String.
From Coq Require Import List.
Local Close Scope string_scope.
Require Import Board Move GameOver PtnMove Playtak Tps Bot Inst BotInst BotLine BotLineFacts BotLineFacts2.
Import ListNotations.
Local Open Scope N_scope.

Definition conv_line (e : line PtnMove.move) : line rmove :=
  match e with
  | LMove _ m => LMove _ (to_rmove m)
  | LBad _ => LBad _ | LTime _ => LTime _ | LReqUndo _ => LReqUndo _ | LUndo _ => LUndo _
  | LOver _ => LOver _ | LAbandoned _ => LAbandoned _ | LOther _ => LOther _
  end.

Lemma join_sp_eq : forall ws, BotInst.join_sp ws = BotLine.join_sp ws.
Proof.
  induction ws as [|w ws IH]; [reflexivity|]. destruct ws as [|w2 ws]; [reflexivity|].
  change (BotInst.join_sp (w :: w2 :: ws)) with (w ++ 32 :: BotInst.join_sp (w2 :: ws)).
  change (BotLine.join_sp (w :: w2 :: ws)) with (w ++ 32 :: BotLine.join_sp (w2 :: ws)). now rewrite IH.
Qed.

Lemma inst_second rest :
  match rest with
  | [] => LBad _
  | b1 :: args =>
    if bytes_eqb b1 (BotLine.bs "P") || bytes_eqb b1 (BotLine.bs "M") then
      match Playtak.parse_server (BotInst.join_sp rest) with
      | PtnMove.Ok m => LMove _ (to_rmove m)
      | _ => LBad _
      end
    else if bytes_eqb b1 (BotLine.bs "Abandoned.") then LAbandoned _
    else if bytes_eqb b1 (BotLine.bs "Over") then match args with [] => LBad _ | _ => LOver _ end
    else if bytes_eqb b1 (BotLine.bs "Time") then match args with _ :: _ :: _ => LTime _ | _ => LBad _ end
    else if bytes_eqb b1 (BotLine.bs "RequestUndo") then LReqUndo _
    else if bytes_eqb b1 (BotLine.bs "Undo") then LUndo _
    else LOther _
  end = conv_line (fst (second_switch rest)).
Proof.
  unfold second_switch. destruct rest as [|b1 args]; [reflexivity|]. rewrite join_sp_eq.
  destruct (bytes_eqb b1 (BotLine.bs "P") || bytes_eqb b1 (BotLine.bs "M")).
  { destruct (parse_server (BotLine.join_sp (b1 :: args))); reflexivity. }
  destruct (bytes_eqb b1 (BotLine.bs "Abandoned.")); [reflexivity|].
  destruct (bytes_eqb b1 (BotLine.bs "Over")); [destruct args; reflexivity|].
  destruct (bytes_eqb b1 (BotLine.bs "Time")); [destruct args as [|? [|? ?]]; reflexivity|].
  destruct (bytes_eqb b1 (BotLine.bs "RequestUndo")); [reflexivity|].
  destruct (bytes_eqb b1 (BotLine.bs "Undo")); reflexivity.
Qed.

Theorem inst_classify_eq gs l : BotInst.classify gs l = conv_line (l_ev (BotLine.classify gs l)).
Proof.
  unfold BotInst.classify, BotLine.classify. destruct (words l) as [|b0 rest]; [reflexivity|].
  change (BotInst.bs "Tell") with (BotLine.bs "Tell"). change (BotInst.bs "P") with (BotLine.bs "P").
  change (BotInst.bs "M") with (BotLine.bs "M"). change (BotInst.bs "Abandoned.") with (BotLine.bs "Abandoned.").
  change (BotInst.bs "Over") with (BotLine.bs "Over"). change (BotInst.bs "Time") with (BotLine.bs "Time").
  change (BotInst.bs "RequestUndo") with (BotLine.bs "RequestUndo"). change (BotInst.bs "Undo") with (BotLine.bs "Undo").
  destruct (bytes_eqb b0 gs); cbn [orb].
  - rewrite (inst_second rest). destruct (second_switch rest); reflexivity.
  - destruct (bytes_eqb b0 (BotLine.bs "Tell")).
    + rewrite (inst_second rest). destruct (parse_tell l). destruct (second_switch rest); reflexivity.
    + destruct (bytes_eqb b0 (BotLine.bs "Shout")); [destruct (parse_shout l); reflexivity|].
      destruct (bytes_eqb b0 (BotLine.bs "ShoutRoom")); [destruct (parse_shout_room l) as [[? ?] ?]; reflexivity | reflexivity].
Qed.

(* ---------- the chat callbacks ---------- *)
Lemma words_tell_line l w m : tell_line l w m -> exists rest, words l = BotLine.bs "Tell" :: rest.
Proof.
  intros (-> & _). change (BotLine.bs "Tell <" ++ w ++ BotLine.bs "> " ++ m) with (BotLine.bs "Tell" ++ 32 :: (60 :: w ++ BotLine.bs "> " ++ m)).
  rewrite words_app by (cbn; intuition discriminate). eauto.
Qed.
Lemma words_shout_line l w m : shout_line l w m -> exists rest, words l = BotLine.bs "Shout" :: rest.
Proof.
  intros (-> & _). change (BotLine.bs "Shout <" ++ w ++ BotLine.bs "> " ++ m) with (BotLine.bs "Shout" ++ 32 :: (60 :: w ++ BotLine.bs "> " ++ m)).
  rewrite words_app by (cbn; intuition discriminate). eauto.
Qed.
Lemma words_room_line l r w m : room_line l r w m -> exists rest, words l = BotLine.bs "ShoutRoom" :: rest.
Proof.
  intros (-> & _).
  change (BotLine.bs "ShoutRoom " ++ r ++ BotLine.bs " <" ++ w ++ BotLine.bs "> " ++ m)
    with (BotLine.bs "ShoutRoom" ++ 32 :: (r ++ BotLine.bs " <" ++ w ++ BotLine.bs "> " ++ m)).
  rewrite words_app by (cbn; intuition discriminate). eauto.
Qed.

(* HandleTell(who, msg) is called exactly for the members of the Tell language, HandleChat(room, who, msg) exactly for the
   members of the Shout (room = "") and ShoutRoom languages - for any game string that is not itself one of the three words *)
Theorem classify_chat gs l :
  gs <> BotLine.bs "Tell" -> gs <> BotLine.bs "Shout" -> gs <> BotLine.bs "ShoutRoom" ->
  (forall w m, l_chat (BotLine.classify gs l) = ChatTell w m <-> tell_line l w m) /\
  (forall r w m, l_chat (BotLine.classify gs l) = ChatRoom r w m <-> (r = [] /\ shout_line l w m) \/ room_line l r w m).
Proof.
  intros G1 G2 G3. split.
  - intros w m. split.
    + unfold BotLine.classify. destruct (words l) as [|b0 rest]; [discriminate|].
      destruct (bytes_eqb b0 gs); [destruct (second_switch rest); discriminate|].
      destruct (bytes_eqb b0 (BotLine.bs "Tell")).
      * destruct (parse_tell l) as [w0 m0] eqn:P. destruct (second_switch rest). cbn [l_chat].
        destruct (is_nil w0) eqn:Nw; [discriminate|]. intros H. inversion H; subst.
        destruct (parse_tell_cases l) as [(w' & m' & T & P')|(_ & P')]; rewrite P in P'; inversion P'; subst; [exact T | discriminate Nw].
      * destruct (bytes_eqb b0 (BotLine.bs "Shout")); [destruct (parse_shout l) as [w0 ?]; cbn [l_chat]; destruct (is_nil w0); discriminate|].
        destruct (bytes_eqb b0 (BotLine.bs "ShoutRoom")); [destruct (parse_shout_room l) as [[? w0] ?]; cbn [l_chat]; destruct (is_nil w0); discriminate | discriminate].
    + intros T. pose proof (parse_tell_in _ _ _ T) as P. destruct (words_tell_line _ _ _ T) as (rest & W).
      unfold BotLine.classify. rewrite W. rewrite (bytes_eqb_neq (BotLine.bs "Tell") gs) by congruence.
      change (bytes_eqb (BotLine.bs "Tell") (BotLine.bs "Tell")) with true. cbv iota. rewrite P.
      destruct T as (_ & Hw & _). rewrite (is_nil_false w Hw). destruct (second_switch rest); reflexivity.
  - intros r w m. split.
    + unfold BotLine.classify. destruct (words l) as [|b0 rest]; [discriminate|].
      destruct (bytes_eqb b0 gs); [destruct (second_switch rest); discriminate|].
      destruct (bytes_eqb b0 (BotLine.bs "Tell")).
      * destruct (parse_tell l) as [w0 m0]. destruct (second_switch rest). cbn [l_chat]. destruct (is_nil w0); discriminate.
      * destruct (bytes_eqb b0 (BotLine.bs "Shout")).
        { destruct (parse_shout l) as [w0 m0] eqn:P. cbn [l_chat]. destruct (is_nil w0) eqn:Nw; [discriminate|].
          intros H. inversion H; subst. left. split; [reflexivity|].
          destruct (parse_shout_cases l) as [(w' & m' & T & P')|(_ & P')]; rewrite P in P'; inversion P'; subst; [exact T | discriminate Nw]. }
        destruct (bytes_eqb b0 (BotLine.bs "ShoutRoom")); [|discriminate].
        destruct (parse_shout_room l) as [[r0 w0] m0] eqn:P. cbn [l_chat]. destruct (is_nil w0) eqn:Nw; [discriminate|].
        intros H. inversion H; subst. right.
        destruct (parse_shout_room_cases l) as [(r' & w' & m' & T & P')|(_ & P')]; rewrite P in P'; inversion P'; subst; [exact T | discriminate Nw].
    + intros [[-> T]|T].
      * pose proof (parse_shout_in _ _ _ T) as P. destruct (words_shout_line _ _ _ T) as (rest & W).
        unfold BotLine.classify. rewrite W. rewrite (bytes_eqb_neq (BotLine.bs "Shout") gs) by congruence.
        change (bytes_eqb (BotLine.bs "Shout") (BotLine.bs "Tell")) with false.
        change (bytes_eqb (BotLine.bs "Shout") (BotLine.bs "Shout")) with true. cbv iota. rewrite P.
        destruct T as (_ & Hw & _). cbn [l_chat]. now rewrite (is_nil_false w Hw).
      * pose proof (parse_shout_room_in _ _ _ _ T) as P. destruct (words_room_line _ _ _ _ T) as (rest & W).
        unfold BotLine.classify. rewrite W. rewrite (bytes_eqb_neq (BotLine.bs "ShoutRoom") gs) by congruence.
        change (bytes_eqb (BotLine.bs "ShoutRoom") (BotLine.bs "Tell")) with false.
        change (bytes_eqb (BotLine.bs "ShoutRoom") (BotLine.bs "Shout")) with false.
        change (bytes_eqb (BotLine.bs "ShoutRoom") (BotLine.bs "ShoutRoom")) with true. cbv iota. rewrite P.
        destruct T as (_ & _ & _ & Hw & _). cbn [l_chat]. now rewrite (is_nil_false w Hw).
Qed.
