From Coq Require Import NArith ZArith Arith List Bool Lia ZifyN ZifyBool ZifyNat.
Require Import Board Stack Rules Move Refine RefinePlace RefinePlace2 RefinePlace3 Slide1 Slide2 Slide3 Slide4 Slide5 Slide6 Slide7.
Import ListNotations.
Ltac Zify.zify_post_hook ::= Z.div_mod_to_equations.

Lemma nibbles_same f s : Move.nibbles f s = Rules.nibbles f s.
Proof. revert s; induction f; intros; cbn; [reflexivity|]. destruct (s =? 0)%N; [reflexivity|]. now rewrite IHf. Qed.

Lemma sq_abs_board p : sq (abs p) = abs_board (size p) (bview p).
Proof. unfold abs, abs_board, nsq; cbn [sq]. apply map_ext. intros. apply abs_stack_bview. Qed.

Lemma fold_add_sumN ds : fold_right N.add 0%N ds = sumN ds.
Proof. reflexivity. Qed.

Lemma existsb_zero_forall ds : existsb (N.eqb 0) ds = false -> Forall (fun c => 1 <= c)%N ds.
Proof.
  induction ds as [|c ds IH]; cbn [existsb]; intros H; constructor.
  - apply orb_false_elim in H as [H _]. apply N.eqb_neq in H. lia.
  - apply IH. now apply orb_false_elim in H as [_ H].
Qed.

Definition dir_code (d : dir) : N := match d with Left => 5 | Right => 6 | Up => 7 | Down => 8 end.


Lemma eta_abs_board sz r : abs_board sz {| bw := bw r; bb := bb r; bs := bs r; bc := bc r; bhs := bhs r; bst := bst r; bh := bh r |} = abs_board sz r.
Proof. reflexivity. Qed.

Lemma eta_board_ok sz r : board_ok sz r -> board_ok sz {| bw := bw r; bb := bb r; bs := bs r; bc := bc r; bhs := bhs r; bst := bst r; bh := bh r |}.
Proof. intros [A B C]. constructor; [exact A|exact B|]. intros i Hi. destruct (C i Hi). constructor; assumption. Qed.

Definition tall_ok (p : position) : Prop := forall i, (i < size p * size p)%N -> (nthN (Height p) i + size p <= 64)%N.

Definition abs_of (p : position) (b : bstate) : apos :=
  {| Rules.n := N.to_nat (size p); sq := abs_board (size p) b;
     wstones := whiteStones p; wcaps := whiteCaps p; bstones := blackStones p; bcaps := blackCaps p;
     ply := (move p + 1)%Z; Rules.black_wins_ties := Move.black_wins_ties p |}.

Theorem slide_refines p m d : (3 <= size p <= 8)%N -> board_ok (size p) (bview p) -> tall_ok p ->
  mT m = dir_code d ->
  match mv p m with
  | Ok p' => rules_move (abs p) (raw m) = Some (abs p') /\ board_ok (size p') (bview p') /\ size p' = size p
  | Err => rules_move (abs p) (raw m) = None
  | Panic => False
  end.
Proof.
  intros Hsz Hok Htall Hd.
  assert (Hok' := Hok). destruct Hok' as [LH LS SQ]. cbn [bview bhs bst] in LH, LS.
  assert (Hdec : decode (raw m) = Some (Slide d (mX m) (mY m) (Rules.nibbles 8 (mS m)))).
  { unfold decode; cbn [raw mtype mx my mslides]. rewrite Hd. destruct d; reflexivity. }
  assert (Hkd : exists dx dy, delta d = (dx, dy) /\
     (match mT m with
      | 1 => Err | 2 => Ok (inl KFlat) | 3 => Ok (inl KStanding) | 4 => Ok (inl KCap)
      | 5 => Ok (inr (-1, 0)%Z) | 6 => Ok (inr (1, 0)%Z) | 7 => Ok (inr (0, 1)%Z) | 8 => Ok (inr (0, -1)%Z)
      | _ => Err end)%N = (Ok (inr (dx, dy)) : res (pkind + Z * Z))).
  { rewrite Hd. destruct d; cbn; eauto. }
  destruct Hkd as (dx & dy & Edel & Ekd).
  unfold mv, move_prealloc, rules_move. rewrite Hdec, Ekd. cbn [bind].
  assert (Hnp : negb (mT m =? 1)%N = true) by (rewrite Hd; destruct d; reflexivity).
  rewrite Hnp, andb_true_r. cbn [andb].
  unfold slide.
  assert (Eply : ply (abs p) = move p) by reflexivity. rewrite Eply.
  (* bounds first in the code, opening first in the rules: both reject, in either order *)
  destruct ((mX m <? 0)%Z || (Z.of_N (size p) <=? mX m)%Z || (mY m <? 0)%Z || (Z.of_N (size p) <=? mY m)%Z) eqn:Hb.
  { assert (Hob : on_board (abs p) (mX m) (mY m) = false) by (rewrite on_board_abs; lia).
    rewrite Hob. cbn [negb]. destruct (move p <? 2)%Z; reflexivity. }
  assert (Hx : (0 <= mX m < Z.of_N (size p))%Z) by lia.
  assert (Hy : (0 <= mY m < Z.of_N (size p))%Z) by lia.
  assert (Hob : on_board (abs p) (mX m) (mY m) = true) by (rewrite on_board_abs; lia).
  rewrite Hob. cbn [negb].
  destruct (move p <? 2)%Z eqn:Hop; [reflexivity|]. cbn [bind].
  rewrite nibbles_same. set (ds := Rules.nibbles 8 (mS m)).
  destruct (existsb (N.eqb 0) ds) eqn:Hz; [reflexivity|].
  rewrite fold_add_sumN. set (ct := sumN ds).
  destruct (sq_index_on_board p (mX m) (mY m) Hsz Hx Hy) as [Ei Li].
  set (i := sq_index p (mX m) (mY m)) in *.
  assert (Li64 : (i < 64)%N) by nia.
  assert (Hil : (N.to_nat i < nsq (size p))%nat) by (unfold nsq; nia).
  assert (Hst : stack_at (abs p) (mX m) (mY m) = abs_stack_b (bview p) i).
  { unfold stack_at. rewrite sq_abs_board.
    replace (Rules.idx (abs p) (mX m) (mY m)) with (N.to_nat i) by (unfold Rules.idx, abs; cbn [Rules.n]; rewrite Ei; nia).
    now apply nth_abs_board. }
  rewrite Hst.
  assert (Hlen : length (abs_stack_b (bview p) i) = N.to_nat (nthN (Height p) i)).
  { unfold abs_stack_b. cbn [bview bhs]. destruct (N.eqb_spec (nthN (Height p) i) 0) as [E|E]; [rewrite E; reflexivity|].
    cbn [length]. unfold flats. rewrite map_length, bits_length. lia. }
  rewrite Hlen, !N2Nat.id. cbn [Rules.n abs]. rewrite N2Nat.id.
  destruct ((size p <? ct)%N || (ct <? 1)%N) eqn:Hc1.
  { replace ((ct =? 0)%N || (size p <? ct)%N || (nthN (Height p) i <? ct)%N) with true by lia. reflexivity. }
  rewrite (idx_ok (Height p) i 0%N) by lia. cbn [bind]. change (nth (N.to_nat i) (Height p) 0%N) with (nthN (Height p) i).
  set (h := nthN (Height p) i) in *.
  destruct (h <? ct)%N eqn:Hc2.
  { replace ((ct =? 0)%N || (size p <? ct)%N || true) with true by lia. reflexivity. }
  replace ((ct =? 0)%N || (size p <? ct)%N || false) with false by lia.
  assert (Hsq := SQ i Li). assert (Hsq' := Hsq). destruct Hsq' as [Hh Hocc Hex Htop Hsc]. cbn [bview bhs bw bb bs bc] in *. fold h in Hh, Hocc, Htop.
  assert (Hne : h <> 0%N) by lia.
  assert (Hab : abs_stack_b (bview p) i =
     (colour_of (has (Move.Black p) i), kind_of (has (Standing p) i) (has (Caps p) i)) :: flats (bits (N.to_nat h - 1) (nthN (Stacks p) i))).
  { unfold abs_stack_b. cbn [bview bhs bb bs bc bst]. fold h. destruct (N.eqb_spec h 0); [contradiction|reflexivity]. }
  rewrite Hab.
  assert (Hone : has (White p) i = negb (has (Move.Black p) i)).
  { destruct (has (White p) i) eqn:A, (has (Move.Black p) i) eqn:B; cbn in Hex; try discriminate; auto.
    exfalso. apply Hne, Hocc. auto. }
  assert (Etm : to_move (abs p) = if to_move_white p then Rules.White else Rules.Black) by reflexivity.
  rewrite Etm, Hone.
  destruct (to_move_white p) eqn:Hw, (has (Move.Black p) i) eqn:HB; cbn [negb andb colour_of colour_eqb]; try reflexivity.
  all: rewrite (idx_ok (Stacks p) i 0%N) by lia; cbn [bind]; change (nth (N.to_nat i) (Stacks p) 0%N) with (nthN (Stacks p) i).
  (* both remaining cases: the mover owns the stack *)
  all: assert (Etop : top_at p (mX m) (mY m) = (Some (has (Move.Black p) i), top_kind (bview p) i))
        by (unfold top_at, top_kind; cbn [bview bs bc];
            replace (uint_of_int (mX m + mY m * Z.of_N (size p))) with i by (rewrite Ei; apply eq_sym, uint_of_int_id; nia);
            rewrite Hone, HB; cbn [negb]; destruct (has (Standing p) i), (has (Caps p) i); reflexivity).
  all: rewrite Etop, HB.
  all: assert (Elift : lifted (bview p) i ct =
         let sw := N.lor (shl64 (nthN (Stacks p) i) 1) (b2n (has (Move.Black p) i)) in
         let wb := if (h =? ct)%N then (clrb (White p) i, clrb (Move.Black p) i)
                   else if (N.land sw (bit ct) =? 0)%N then (setb (White p) i, clrb (Move.Black p) i) else (clrb (White p) i, setb (Move.Black p) i) in
         {| bw := fst wb; bb := snd wb; bs := clrb (Standing p) i; bc := clrb (Caps p) i;
            bhs := updN (Height p) (N.to_nat i) (u8 (h + 256 - ct));
            bst := updN (Stacks p) (N.to_nat i) (shr64 (nthN (Stacks p) i) ct);
            bh := N.lxor (N.lxor (hash p) (hash_at hsq (Height p) (Stacks p) i))
                    (hash_at hsq (updN (Height p) (N.to_nat i) (u8 (h + 256 - ct)))
                       (updN (Stacks p) (N.to_nat i) (shr64 (nthN (Stacks p) i) ct)) i) |}) by reflexivity.
  all: rewrite HB in Elift; cbn [b2n] in Elift.
  all: destruct (lifted_sq (bview p) i ct Li64 ltac:(cbn [bview bhs]; lia) ltac:(cbn [bview bhs bst]; lia) Hsq
                   ltac:(cbn [bview bhs]; fold h; lia)) as (Q1 & Q2 & Q3 & Q4).
  all: destruct (board_after (size p) (bview p) (lifted (bview p) i ct) i Hsz Li Hok Q2 Q3) as [Hok0 Eb0].
  all: assert (Hcar := carried_is_firstn (bview p) i ct Hsq ltac:(cbn [bview bhs]; fold h; lia)).
  all: assert (Hdd := drops_deal p (abs p) (top_kind (bview p) i) (stack_word (bview p) i) d ds (mX m) (mY m) ct
                     (lifted (bview p) i ct) eq_refl Hsz Hx Hy Hok0 (existsb_zero_forall ds Hz) eq_refl ltac:(lia)).
  all: rewrite Edel in Hdd; cbn [fst snd] in Hdd.
  all: assert (Hfit : forall j, (j < size p * size p)%N -> (nthN (bhs (lifted (bview p) i ct)) j + ct <= 64)%N)
        by (intros j Hj; destruct (N.eq_dec j i) as [->|Hn];
            [rewrite Q4; cbn [bview bhs]; fold h; lia
            |destruct Q3 as (_ & _ & Eo); assert (j < 64)%N by nia; destruct (Eo j H Hn) as (A & _); rewrite A; cbn [bview bhs];
             specialize (Htall j Hj); lia]).
  all: specialize (Hdd Hfit).
  all: unfold stack_word in Hdd; cbn [bview bst bb] in Hdd; rewrite HB in Hdd; cbn [b2n] in Hdd.
  all: cbn [colour_of] in Hab; rewrite <- Hab, <- Hcar.
  all: assert (Eset : set_stack (abs p) (mX m) (mY m) (skipn (N.to_nat ct) (abs_stack_b (bview p) i)) = abs_board (size p) (lifted (bview p) i ct))
        by (unfold set_stack; rewrite sq_abs_board, Eb0, Q1;
            replace (Rules.idx (abs p) (mX m) (mY m)) with (N.to_nat i) by (unfold Rules.idx, abs; cbn [Rules.n]; rewrite Ei; nia);
            reflexivity).
  all: rewrite Eset.
  all: unfold stack_word; cbn [bview bst bb]; rewrite HB; cbn [b2n].
  all: destruct (h =? ct)%N eqn:Ehc; [|destruct (N.land (N.lor (shl64 (nthN (Stacks p) i) 1) _) (bit ct) =? 0)%N eqn:Eld];
       cbn [fst snd] in Elift; cbv zeta in Elift; rewrite <- Elift.
  all: destruct (drops hsq p (top_kind (bview p) i) _ dx dy (mX m) (mY m) ct ds (lifted (bview p) i ct)) as [r| |];
       cbn [bind]; [destruct Hdd as [Hdd Hokr]; rewrite Hdd|rewrite Hdd; reflexivity|contradiction].
  all: split; [|split; [|reflexivity]].
  all: try (f_equal; unfold abs; cbn [size whiteStones whiteCaps blackStones blackCaps move Move.black_wins_ties];
            f_equal; symmetry;
            change (map (fun i0 => abs_stack _ (N.of_nat i0)) (seq 0 (N.to_nat (size p) * N.to_nat (size p))))
              with (sq (abs {| size := size p; Move.black_wins_ties := Move.black_wins_ties p; whiteStones := whiteStones p; whiteCaps := whiteCaps p;
                               blackStones := blackStones p; blackCaps := blackCaps p; move := (move p + 1)%Z;
                               White := bw r; Move.Black := bb r; Standing := bs r; Caps := bc r; Height := bhs r; Stacks := bst r; hash := bh r |}));
            rewrite sq_abs_board; reflexivity).
  all: cbn [size bview White Move.Black Standing Caps Height Stacks hash]; now apply eta_board_ok.
Qed.
Print Assumptions slide_refines.
