(* C20: complete enumeration (one VM evaluation at Qed: vm_cast_no_check) of the scripted opening with the repairs switched on: DoubleStack, size 6, bot White.
   The expected tallies are those the Go driver measured on the repaired implementation. GENERATED once, then kept. *)
From Coq Require Import NArith ZArith List Bool.
Require Import Board Move GameOver Tps Symmetry Fpa.
Import ListNotations.

Lemma enum_ds_6_w : run [] repaired DoubleStack 6 true = {| nodes := 14782; scripted := 5375; illegal := 0; selfrej := 0; crash := 0 |}%N.
Proof. vm_cast_no_check (eq_refl ({| nodes := 14782; scripted := 5375; illegal := 0; selfrej := 0; crash := 0 |}%N)). Qed.
