(* SearchLegal4.v: C04 for the executed engine model on small boards (no side condition left), for positions of real games, and
   computed non-vacuity examples: a 64-entry table, null move, slide reduction, multi-cut and sorting all switched on. *)
From Coq Require Import NArith ZArith List Bool Lia.
Require Import Board Stack Rules Move GameOver Refine Alloc Slide2 Slide6 Preserve1 Preserve5 Preserve6 Reach1 PreserveEx.
Require Import Eval EvalSpec Search NegamaxSpec SearchGen SearchExact SearchInst SearchC CancelEx.
Require Import SearchNeg2 SearchNeg3 SearchNeg4 SearchNeg5 SearchLegal2 SearchLegal3.
Require Import Generated.Consts.
Import ListNotations.
Open Scope Z_scope.

(* boards up to 5x5, at most 51 pieces: every configuration, every table, every cancellation point, every engine state satisfying SJ *)
Theorem analyze_first_move_legal_small : forall cfg, builtin_eval cfg ->
  forall k s p sk pv v d acc c,
  SJ s -> base_ok p -> is_over p = false -> (size p <= 5)%N -> (total p <= 51)%N -> move p + c_depth cfg <= max_terminal_ply ->
  seed_legal s p ->
  analyze_cancel gen_basis cfg k s p = (sk, (pv, v, d, acc, c)) ->
  SJ sk /\ (pv = [] \/ head_legal p pv) /\ (c = false -> 0 < c_depth cfg -> head_legal p pv).
Proof.
  intros cfg HE k s p sk pv v d acc c HS Hb HO Hsz Ht Hm HSD H.
  apply (analyze_first_move_legal_seed cfg HE k s p sk pv v d acc c HS Hb HO); [|exact Hm|exact HSD|exact H].
  apply withinP_small; [apply Hb|exact Hsz|exact Ht].
Qed.

(* ... in particular on every live position of a game replayed from tak.New *)
Theorem analyze_first_move_legal_game : forall cfg, builtin_eval cfg ->
  forall sz bwt stones caps ms p, (3 <= sz <= 5)%N -> (0 < stones)%N -> (2 * (stones + caps) <= 51)%N ->
  replay (new_pos sz bwt stones caps) ms = Ok p -> is_over p = false -> Z.of_nat (length ms) + c_depth cfg <= max_terminal_ply ->
  forall k s sk pv v d acc c, SJ s -> seed_legal s p ->
  analyze_cancel gen_basis cfg k s p = (sk, (pv, v, d, acc, c)) ->
  SJ sk /\ (pv = [] \/ head_legal p pv) /\ (c = false -> 0 < c_depth cfg -> head_legal p pv).
Proof.
  intros cfg HE sz bwt stones caps ms p Hsz Hst Hsum HR HO Hlen k s sk pv v d acc c HS HSD H.
  pose proof (base_ok_new sz bwt stones caps ltac:(lia) ltac:(lia) ltac:(lia) ltac:(lia)) as B0.
  destruct (new_ok sz bwt stones caps ltac:(lia) ltac:(lia) ltac:(lia)) as (_ & _ & T0).
  destruct (base_ok_replay ms _ p B0 ltac:(rewrite T0; lia) HR) as (Hb & Em & Es & Et).
  apply (analyze_first_move_legal_small cfg HE k s p sk pv v d acc c HS Hb HO); [rewrite Es; cbn [new_pos size]; lia|rewrite Et, T0; lia| |exact HSD|exact H].
  rewrite Em. cbn [new_pos move]. lia.
Qed.

(* every board size, at most 64 pieces in the game (the standard sets of 3x3 .. 6x6) *)
Theorem analyze_first_move_legal_64 : forall cfg, builtin_eval cfg ->
  forall k s p sk pv v d acc c,
  SJ s -> base_ok p -> is_over p = false -> (total p <= 64)%N -> move p + c_depth cfg <= max_terminal_ply ->
  seed_legal s p ->
  analyze_cancel gen_basis cfg k s p = (sk, (pv, v, d, acc, c)) ->
  SJ sk /\ (pv = [] \/ head_legal p pv) /\ (c = false -> 0 < c_depth cfg -> head_legal p pv).
Proof.
  intros cfg HE k s p sk pv v d acc c HS Hb HO Ht Hm HSD H.
  apply (analyze_first_move_legal_seed cfg HE k s p sk pv v d acc c HS Hb HO); [|exact Hm|exact HSD|exact H].
  apply withinP_total64; [apply Hb|exact Ht].
Qed.

Theorem analyze_first_move_legal_game64 : forall cfg, builtin_eval cfg ->
  forall sz bwt stones caps ms p, (3 <= sz <= 8)%N -> (0 < stones)%N -> (2 * (stones + caps) <= 64)%N ->
  replay (new_pos sz bwt stones caps) ms = Ok p -> is_over p = false -> Z.of_nat (length ms) + c_depth cfg <= max_terminal_ply ->
  forall k s sk pv v d acc c, SJ s -> seed_legal s p ->
  analyze_cancel gen_basis cfg k s p = (sk, (pv, v, d, acc, c)) ->
  SJ sk /\ (pv = [] \/ head_legal p pv) /\ (c = false -> 0 < c_depth cfg -> head_legal p pv).
Proof.
  intros cfg HE sz bwt stones caps ms p Hsz Hst Hsum HR HO Hlen k s sk pv v d acc c HS HSD H.
  pose proof (base_ok_new sz bwt stones caps ltac:(lia) ltac:(lia) ltac:(lia) ltac:(lia)) as B0.
  destruct (new_ok sz bwt stones caps ltac:(lia) ltac:(lia) ltac:(lia)) as (_ & _ & T0).
  destruct (base_ok_replay ms _ p B0 ltac:(rewrite T0; lia) HR) as (Hb & Em & Es & Et).
  apply (analyze_first_move_legal_64 cfg HE k s p sk pv v d acc c HS Hb HO); [rewrite Et, T0; lia| |exact HSD|exact H].
  rewrite Em. cbn [new_pos move]. lia.
Qed.

(* ---- computed examples ---- *)
(* depth 4, sorted, null move, slide reduction and multi-cut on, built-in evaluator; q4 = SearchNeg5.q4 (3x3 after a1 c3 b2 b1) *)
Definition cfgA := mk_cfg 4 false false false true 0.

Lemma q4_facts : base_ok q4 /\ size q4 = 3%N /\ total q4 = 20%N /\ is_over q4 = false /\ move q4 = 4.
Proof.
  destruct (base_ok_replay ms4 _ q4 (base_ok_new 3 false 10 0 ltac:(lia) ltac:(lia) ltac:(lia) ltac:(lia)) ltac:(vm_compute; discriminate)
              (eq_trans (f_equal (fun p => replay p ms4) (eq_sym start3_new)) replay_ms4)) as (A & B & C & D).
  split; [exact A|]. split; [exact C|]. split; [rewrite D; vm_compute; reflexivity|]. split; [vm_compute; reflexivity|exact B].
Qed.

(* a fresh engine with a 64-entry table: the hypotheses hold, the call completes depth 4 and reports a line; then the SAME engine is
   asked again: Analyze finds the exact root entry of depth 4, runs no iteration and reports the seed - the never re-validated
   table move c1, which here is the first move of the first call's line *)
Definition ex_r1 : ares := run_analyze cfgA 0 (new_state 64) q4.
Definition ex_r2 : ares := run_analyze cfgA 0 (fst ex_r1) q4.

Example ex_table :
  builtin_eval cfgA /\ SJ (new_state 64) /\ seed_legal (new_state 64) q4 /\
  obs ex_r1 = ([{| mX := 2; mY := 0; mT := 2; mS := 0 |}; {| mX := 1; mY := 0; mT := 6; mS := 1 |};
                {| mX := 1; mY := 0; mT := 2; mS := 0 |}; {| mX := 2; mY := 0; mT := 5; mS := 2 |}], 500, 4, false) /\
  az_root false (az_start (fst ex_r1)) q4 = (4, [{| mX := 2; mY := 0; mT := 2; mS := 0 |}], 500) /\
  obs ex_r2 = ([{| mX := 2; mY := 0; mT := 2; mS := 0 |}], 500, 4, false).
Proof.
  split; [right; reflexivity|]. split; [apply SJ_new|]. split.
  - intros i _ EB. unfold az_start, new_state in EB. cbn [table] in EB. rewrite nth_repeat in EB. discriminate EB.
  - split; [vm_compute; reflexivity|]. split; vm_compute; reflexivity.
Qed.
