(* SearchTable7.v: the SOUNDNESS half of the table clause for EVERY configuration without null move: slide reduction and multi-cut on or
   off, any table, sort on/off, cancelled anywhere or never.  "A reported win or loss is a real forced one":
      v >  WinThreshold  ->  exists n, W n p          v < -WinThreshold  ->  exists n, L n p
   for whatever Analyze reports (any depth, also the seed of an exact root entry, also after a cancellation), on a fresh engine or
   after any history of such calls.  The invariant is the soundness half of SearchTable1's (svals / sent / tts); it needs no guard
   "unless the flag was set" (a value returned after an abort is 0, which claims nothing) and no bound on the depth (a search that runs
   out of the model's fuel returns 0 as well).  The completeness half is false for these configurations by design (a reduced or
   multi-cut node is searched shallower than its caller believes); with the null move even soundness is not a theorem about the rules
   (a cut after passing is a claim about a position the rules cannot reach). *)
From Coq Require Import NArith ZArith List Bool Lia Permutation.
Require Import Board Move GameOver Eval EvalSpec Search NegamaxSpec SearchGen SearchExact CancelFacts SearchLegal1 SearchLegal2.
Require Import SearchTable1 SearchTable2 SearchTable3.
Import ListNotations.
Open Scope Z_scope.

Section Snd.
Variable basis : list N.
Notation Wany := (SearchTable1.Wany basis).
Notation Lany := (SearchTable1.Lany basis).

Definition svals (p : position) (a b r : Z) : Prop :=
  (a < r -> WinThreshold < r -> Wany p) /\ (r < b -> r < - WinThreshold -> Lany p).
Definition sent (e : entry) (p : position) : Prop :=
  (WinThreshold < e_value e -> lowerb e -> Wany p) /\ (e_value e < - WinThreshold -> upperb e -> Lany p).
Definition sound_verdict (p : position) (v : Z) : Prop :=
  (WinThreshold < v -> exists n, W basis n p) /\ (v < - WinThreshold -> exists n, L basis n p).

Lemma svals0 p a b : svals p a b 0.
Proof. unfold svals, WinThreshold. split; intros _ F; lia. Qed.
Lemma ent_ok_sent e p : ent_ok basis e p -> sent e p.
Proof. intros (E1 & E2 & _). split; assumption. Qed.
Lemma cls_eq_sent e p q : cls_eq basis p q -> sent e p -> sent e q.
Proof.
  intros C (E1 & E2).
  split; [intros A B; destruct (E1 A B) as (n & H); exists n; apply C; exact H|].
  intros A B. destruct (E2 A B) as (n & H). exists n. apply C. exact H.
Qed.

Variable U : position -> Prop.
Hypothesis NoColl : forall p q, U p -> U q -> phash p = phash q -> cls_eq basis p q.

Definition good_s (e : entry) : Prop := forall q, U q -> is_over q = false -> phash q = e_hash e -> sent e q.
Definition tts (s : sstate) : Prop := Forall good_s (table s).
Definition TS (s : sstate) : Prop := SJ s /\ tts s.

Lemma good_entry_s e : good_entry basis U e -> good_s e.
Proof. intros H q A B C. apply ent_ok_sent. apply H; assumption. Qed.
Lemma TJ_TS s : SearchTable1.TJ basis U s -> TS s.
Proof.
  intros (A & B). split; [exact A|]. unfold tts. unfold tt_valid in B. rewrite Forall_forall in *. intros e He. apply good_entry_s. apply B. exact He.
Qed.
Lemma good_s0 : good_s entry0.
Proof. apply good_entry_s. apply good_entry0. Qed.
Lemma good_s_of e p : U p -> e_hash e = phash p -> sent e p -> good_s e.
Proof. intros Hp Hh Hok q Hq _ Eh. apply (cls_eq_sent e p q); [apply NoColl; [exact Hp|exact Hq|congruence]|exact Hok]. Qed.
Lemma tts_nth s i : tts s -> good_s (nth i (table s) entry0).
Proof.
  intros H. destruct (nth_in_or_default i (table s) entry0) as [Hin|E]; [|rewrite E; apply good_s0].
  unfold tts in H. rewrite Forall_forall in H. apply H. exact Hin.
Qed.
Lemma TS_new n : TS (new_state n).
Proof. apply TJ_TS. apply TJ_new. Qed.
Lemma TS_bump s f : TS s -> TS (bump s f).
Proof. intros H; exact H. Qed.
Lemma TS_set_fm s ply m : TS s -> TS (set_fm s ply m).
Proof. intros H; exact H. Qed.
Lemma TS_count_eval s : TS s -> TS (count_eval s).
Proof. intros H; exact H. Qed.
Lemma TS_reset_st s : TS s -> TS (reset_st s).
Proof. intros H; exact H. Qed.
Lemma TS_az_start s : TS s -> TS (az_start s).
Proof. intros H; exact H. Qed.
Lemma TS_set_fpv s ply arr : TS s -> okl arr -> TS (set_fpv s ply arr).
Proof. intros (A & B) H. split; [apply SJ_set_fpv; assumption|exact B]. Qed.
Lemma TS_record_cut s m i d ply : TS s -> okm m -> TS (record_cut s m i d ply).
Proof. intros (A & B) H. split; [apply SJ_record_cut; assumption|exact B]. Qed.
Lemma tt_get_s s p i : tts s -> U p -> is_over p = false -> tt_get s (phash p) = Some i -> sent (nth i (table s) entry0) p.
Proof. intros H Hp EO E. apply (tts_nth s i H p Hp EO). symmetry. apply (tt_get_hash s _ i E). Qed.
Lemma tts_tt_put k s h : tts s -> tts (fst (tt_put k s h)).
Proof.
  intros H. unfold tt_put. destruct (table s) eqn:ET; [exact H|]. rewrite <- ET. destruct (cancelled k s); [exact H|].
  destruct (tt_slots s h) as [i1 i2]. cbn [fst]. unfold tts, set_table. cbn [table].
  destruct (negb (e_hash (nth i1 (table s) entry0) =? 0)%N); [|exact H].
  apply Forall_set_nth; [exact H|apply tts_nth; exact H].
Qed.
Lemma tts_write s i h depth m v bound : tts s ->
  good_s {| e_hash := h; e_value := v; e_m := m; e_bound := bound; e_depth := wrap8 depth |} -> tts (write_entry s i h depth m v bound).
Proof. intros H G. unfold write_entry, tts, set_table. cbn [table]. apply Forall_set_nth; assumption. Qed.

Lemma TS_zw_store k s p depth best a (didcut : bool) : TS s -> U p -> okl best -> MinEval - 1 <= a <= MaxEval -> (didcut = false -> MinEval <= a) ->
  svals p a (a + 1) (if didcut then a + 1 else a) -> TS (zw_store k s p depth best a didcut).
Proof.
  intros (HS & HT) Hp HB Ha Hc (V1 & V2). split; [apply SJ_zw_store; assumption|].
  unfold zw_store. pose proof (tts_tt_put k s (phash p) HT) as H1.
  destruct (tt_put k s (phash p)) as [s1 slot]. cbn [fst] in H1. destruct slot as [i|]; [|exact H1].
  assert (W1 : tts (write_entry s1 i (phash p) depth (hd move0 best) a (if didcut then 0%N else 2%N))).
  { apply tts_write; [exact H1|]. apply good_s_of with (p := p); [exact Hp|reflexivity|].
    unfold sent, lowerb, upperb. cbn [e_value e_bound]. destruct didcut.
    - split; [intros A _; apply V1; lia|intros _ [F|F]; discriminate F].
    - split; [intros _ [F|F]; discriminate F|intros A _; apply V2; lia]. }
  destruct didcut; exact W1.
Qed.
Lemma TS_pv_store k s p depth best a0 a' b (improved : bool) : TS s -> U p -> okl best -> okv a' -> a0 < b ->
  (improved = false -> a' = a0) -> (improved = true -> a0 < a') -> svals p a0 b a' ->
  TS (pv_store k s p depth best a' b improved).
Proof.
  intros (HS & HT) Hp HB Ha Hab HN HI (V1 & V2). split; [apply SJ_pv_store; assumption|].
  unfold pv_store. pose proof (tts_tt_put k s (phash p) HT) as H1.
  destruct (tt_put k s (phash p)) as [s1 slot]. cbn [fst] in H1. destruct slot as [i|]; [|exact H1].
  match goal with |- context [if ?c then _ else s1] => destruct c end; [|exact H1].
  match goal with |- context [write_entry s1 i ?h depth ?m a' ?bd] => assert (W1 : tts (write_entry s1 i h depth m a' bd)) end.
  { apply tts_write; [exact H1|]. apply good_s_of with (p := p); [exact Hp|reflexivity|].
    unfold sent, lowerb, upperb. cbn [e_value e_bound]. destruct improved; cbn [negb].
    - specialize (HI eq_refl). destruct (b <=? a') eqn:EB.
      + split; [intros A _; apply V1; lia|intros _ [F|F]; discriminate F].
      + apply Z.leb_gt in EB. split; [intros A _; apply V1; lia|intros A _; apply V2; lia].
    - specialize (HN eq_refl). subst a'. split; [intros _ [F|F]; discriminate F|intros A _; apply V2; lia]. }
  destruct (negb improved); exact W1.
Qed.

Lemma tt_probe_svals s p ply depth a b : TS s -> U p -> is_over p = false -> MinEval - 1 <= a < b ->
  let '(s', te, ret) := tt_probe basis s p ply depth a b in
  TS s' /\ match ret with Some (pv', v) => okl pv' /\ okv v /\ svals p a b v | None => True end.
Proof.
  intros (HS & HT) Hp EO Hab. pose proof (tt_probe_ok basis s p ply depth a b HS Hab) as TP.
  unfold tt_probe in *. destruct (tt_get s (phash p)) as [i|] eqn:EG; [|split; [split; assumption|exact I]].
  pose proof (tt_get_s s p i HT Hp EO EG) as (E1 & E2).
  set (s1 := bump s (st_add 0 0 1 0 0 0 0 0 0 0 0)) in *.
  change (table s1) with (table s) in *.
  set (te := nth i (table s) entry0) in *.
  destruct (te_suffices te depth a b) eqn:ES; [|split; [split; [apply TP|exact HT]|exact I]].
  destruct (try_move basis p (e_m te)) as [q|] eqn:ET; [|split; [split; [apply TP|exact HT]|exact I]].
  destruct TP as (TP1 & TP2 & TP3 & TP4).
  split; [split; [exact TP1|exact HT]|]. split; [exact TP2|]. split; [exact TP3|].
  unfold te_suffices in ES. unfold lowerb, upperb in *.
  assert (CASES : e_bound te = 1%N \/ (e_value te < a /\ e_bound te = 2%N) \/ (b < e_value te /\ e_bound te = 0%N)).
  { apply orb_true_iff in ES. destruct ES as [ES|ES]; apply andb_true_iff in ES; destruct ES as (A & B).
    - apply orb_true_iff in B. destruct B as [B|B].
      + apply orb_true_iff in B. destruct B as [B|B]; [left; apply N.eqb_eq; exact B|].
        apply andb_true_iff in B. destruct B as (B1 & B2). right; left. split; [apply Z.ltb_lt; exact B1|apply N.eqb_eq; exact B2].
      + apply andb_true_iff in B. destruct B as (B1 & B2). right; right. split; [apply Z.ltb_lt; exact B1|apply N.eqb_eq; exact B2].
    - left. apply N.eqb_eq; exact A. }
  clear ES. unfold svals. destruct CASES as [B|[(B1 & B2)|(B1 & B2)]].
  - split; [intros _ A; apply E1; auto|intros _ A; apply E2; auto].
  - split; [intros A; lia|intros _ A; apply E2; auto].
  - split; [intros _ A; apply E1; auto|intros A; lia].
Qed.
End Snd.

Section TabS.
Variable basis : list N.
Variable cfg : config.
Variable k : Z.
Let eval := c_eval cfg.

Hypothesis Hnonull : c_nonull cfg = true.

Variable Pos : nat -> position -> Prop.
Hypothesis TF : table_facts basis Pos.
Hypothesis EF : eval_facts cfg Pos.

Notation TS := (TS basis (Pos 0%nat)).
Notation Wany := (SearchTable1.Wany basis).
Notation Lany := (SearchTable1.Lany basis).
Notation svals := (svals basis).

Let Hanti := proj1 TF.
Let Hstep := proj1 (proj2 TF).
Let Hhint := proj1 (proj2 (proj2 TF)).
Let Hlive := proj1 (proj2 (proj2 (proj2 TF))).
Let NoColl := proj2 (proj2 (proj2 (proj2 TF))).
Let Hbound := proj1 EF.
Let Hev_over := proj1 (proj2 EF).
Let Hev_live := proj2 (proj2 EF).

Lemma Pos_le d p : Pos d p -> forall d', (d' <= d)%nat -> Pos d' p.
Proof. intros H d' LE. induction LE; [exact H|]. apply IHLE. apply Hanti. exact H. Qed.
Lemma Pos_0 d p : Pos d p -> Pos 0%nat p.
Proof. intros H. apply (Pos_le d p H). lia. Qed.

Definition ts_ok (rec : rec_t) : Prop :=
  forall zw s p ply depth pv a b cut, TS s -> Pos (Z.to_nat depth) p -> okl pv -> win_ok zw a b ->
    let r := rec zw s p ply depth pv a b cut in
    TS (fst r) /\ okl (fst (snd r)) /\ okv (snd (snd r)) /\ svals p a (if zw then a + 1 else b) (snd (snd r)).

Lemma leaf_svals d p a b : Pos d p -> svals p a b (eval p).
Proof.
  intros Hp. destruct (is_over p) eqn:EO.
  - destruct (Hev_over d p Hp EO) as (E1 & E2). unfold SearchTable7.svals. unfold eval in *.
    split; [intros _ A; exists 0%nat; apply (proj2 (W_over basis 0 p EO)); apply E1; exact A|].
    intros _ A. exists 0%nat. apply (proj2 (L_over basis 0 p EO)). apply E2. exact A.
  - pose proof (Hev_live d p Hp EO) as B. unfold SearchTable7.svals. unfold eval in *. split; intros _ A; lia.
Qed.

Section Node.
Variable rec : rec_t.
Hypothesis Hrec : ts_ok rec.
Variable p : position.
Variable d0 : nat.
Hypothesis Hp : Pos (S d0) p.
Hypothesis Hover : is_over p = false.

Let len := Z.of_nat (length (all_moves p)).

Lemma kid m q dd : okm m -> try_move basis p m = Some q -> (Z.to_nat dd <= d0)%nat -> Pos (Z.to_nat dd) q.
Proof. intros Hm T LE. apply (Pos_le d0); [apply (Hstep d0 p m q); assumption|exact LE]. Qed.
Lemma kid_child m q : okm m -> try_move basis p m = Some q -> In q (children basis p).
Proof. intros Hm T. apply (Hhint d0 p m q); assumption. Qed.
Lemma gen_stepj f g seen s : GJ basis p seen g -> SJ s -> len + 6 - g_i g < Z.of_nat f ->
  stepj basis p seen g (mg_next false basis cfg f s g).
Proof. intros G (_ & R & _) F. exact (mg_next_stepj basis cfg p f g seen s G R F). Qed.
Lemma f700 g seen : GJ basis p seen g -> len + 6 - g_i g < Z.of_nat (gfuel g).
Proof. intros G. exact (gfuel_okj basis p seen g G). Qed.
Lemma all_seen seen : (forall m q, In m (all_moves p) -> try_move basis p m = Some q -> In q seen) ->
  forall q, In q (children basis p) -> In q seen.
Proof.
  intros H q Hq. apply in_children in Hq. destruct Hq as (m & Hm & E). apply (H m q Hm).
  rewrite (try_ok basis p m (all_moves_okm p m Hm)), E. reflexivity.
Qed.
Lemma seen_nonempty seen : (forall m q, In m (all_moves p) -> try_move basis p m = Some q -> In q seen) -> seen <> [].
Proof.
  intros H E. pose proof (Hlive d0 p Hp Hover) as NE. destruct (children basis p) as [|q r] eqn:EC; [congruence|].
  assert (Hq : In q (children basis p)) by (rewrite EC; left; reflexivity).
  pose proof (all_seen seen H q Hq) as F. rewrite E in F. destruct F.
Qed.
Lemma gj_new s te pv ply depth : SJ s -> okl pv -> GJ basis p [] (new_gen s te pv ply depth p).
Proof. intros HS Hpv. apply GJ_new; [|exact Hpv]. intros i _. apply (SJ_te s i HS). Qed.
Lemma exhausted_s seen a :
  (forall m q, In m (all_moves p) -> try_move basis p m = Some q -> In q seen) ->
  (a < - WinThreshold -> forall q, In q seen -> Wany q) -> a < - WinThreshold -> Lany p.
Proof.
  intros HA H1 A. apply Lany_live; [exact Hover|apply (Hlive d0 p Hp Hover)|]. intros q Hq. apply (H1 A). apply (all_seen seen HA q Hq).
Qed.

(* ---- the child loop of zwSearch ---- *)
Lemma zw_loop_ts ply depth a cut : MinEval - 1 <= a <= MaxEval -> (Z.to_nat (depth - 1) <= d0)%nat ->
  forall n s g i best seen,
  TS s -> GJ basis p seen g -> okl best -> len + 6 - g_i g < Z.of_nat n -> (seen <> [] -> MinEval <= a) ->
  (a < - WinThreshold -> forall q, In q seen -> Wany q) ->
  let '(s', best', didcut, aborted) := zw_loop false basis cfg k rec n ply depth a cut s g i best in
  TS s' /\ okl best' /\ (didcut = true -> a + 1 <= MaxEval) /\ (aborted = false -> didcut = false -> MinEval <= a) /\
  (aborted = false -> svals p a (a + 1) (if didcut then a + 1 else a)).
Proof.
  intros Ha Hd. induction n; intros s g i best seen HS G HB HF HSEEN HW.
  { cbn [zw_loop]. pose proof (gen_stepj 0 g seen s G (proj1 HS) HF) as ST. cbn [mg_next stepj] in ST. destruct ST as (_ & ST).
    refine (conj HS (conj HB (conj _ (conj _ _)))); [discriminate| |].
    - intros _ _. apply HSEEN. apply seen_nonempty. exact ST.
    - intros _. unfold SearchTable7.svals. split; [intros F; lia|]. intros _. apply (exhausted_s seen a ST HW). }
  cbn [zw_loop].
  pose proof (gen_stepj (gfuel g) g seen s G (proj1 HS) (f700 g seen G)) as ST.
  destruct (mg_next false basis cfg (gfuel g) s g) as [g' [[m q]|]]; cbn [stepj] in ST.
  2:{ destruct ST as (_ & ST).
      refine (conj HS (conj HB (conj _ (conj _ _)))); [discriminate| |].
      - intros _ _. apply HSEEN. apply seen_nonempty. exact ST.
      - intros _. unfold SearchTable7.svals. split; [intros F; lia|]. intros _. apply (exhausted_s seen a ST HW). }
  destruct ST as (Hm & HT & G' & HLT & _).
  pose proof (kid_child m q Hm HT) as Hq.
  pose proof (Hrec true (set_fm s ply m) q (ply + 1) (depth - 1) (tl best) (- a - 1) 0 (negb cut) (TS_set_fm _ _ _ _ _ HS)
                (kid m q (depth - 1) Hm HT Hd) (okl_tl _ HB) ltac:(unfold win_ok; destruct minmax; lia)) as R.
  destruct (rec true (set_fm s ply m) q (ply + 1) (depth - 1) (tl best) (- a - 1) 0 (negb cut)) as [s1 [ms v]].
  cbn [fst snd] in R. destruct R as (HS1 & Hms & Hv & (V1 & V2)). unfold okv in Hv. destruct minmax as (MM & _).
  destruct (a <? - v) eqn:EC.
  - apply Z.ltb_lt in EC. split; [|split; [|split; [|split]]].
    + apply TS_set_fpv; [apply TS_record_cut; assumption|].
      apply okl_set_prefix; [apply okl_frameJ; apply SJ_record_cut; [apply HS1|assumption]|constructor; assumption].
    + constructor; assumption.
    + intros _. lia.
    + intros _ F. discriminate F.
    + intros _. unfold SearchTable7.svals. split; [|intros F; lia].
      intros _ A. apply (Wany_live basis p q Hover Hq). apply V2; lia.
  - apply Z.ltb_ge in EC. destruct (cancelled k s1) eqn:EK.
    + refine (conj HS1 (conj HB (conj _ (conj _ _)))); [discriminate|intros F; discriminate F|intros F; discriminate F].
    + apply (IHn s1 g' (i + 1) best (q :: seen)); auto; [lia|intros _; lia|].
      intros A q0 [<-|H0]; [apply V1; lia|apply HW; assumption].
Qed.

(* ---- the multi-cut loop ---- *)
Lemma mc_loop_ts ply depth a cut m : MinEval - 1 <= a <= MaxEval -> (Z.to_nat (depth - 1) <= d0)%nat ->
  forall n s g child i cuts seen,
  TS s -> GJ basis p seen g -> Pos (Z.to_nat (depth - 1 - 2)) child -> In child (children basis p) ->
  let '(s', g', mccut) := mc_loop false basis cfg rec n ply depth a cut m s g child i cuts in
  TS s' /\ (exists seen', GJ basis p seen' g') /\ (mccut = true -> a + 1 <= MaxEval /\ (WinThreshold < a + 1 -> Wany p)).
Proof.
  intros Ha Hd. induction n; intros s g child i cuts seen HS G HC HIN; cbn [mc_loop].
  { refine (conj HS (conj (ex_intro _ seen G) _)). discriminate. }
  destruct (6 <=? i); [refine (conj HS (conj (ex_intro _ seen G) _)); discriminate|].
  pose proof (Hrec true (set_fm s ply m) child (ply + 1) (depth - 1 - 2) [] (- a - 1) 0 (negb cut) (TS_set_fm _ _ _ _ _ HS)
                HC ltac:(constructor) ltac:(unfold win_ok; destruct minmax; lia)) as R.
  destruct (rec true (set_fm s ply m) child (ply + 1) (depth - 1 - 2) [] (- a - 1) 0 (negb cut)) as [s1 [ms v]].
  cbn [fst snd] in R. destruct R as (HS1 & _ & Hv & (_ & V2)). unfold okv in Hv.
  destruct ((a <? - v) && (3 <=? (if a <? - v then cuts + 1 else cuts))) eqn:EC.
  { apply andb_true_iff in EC. destruct EC as (EC & _). apply Z.ltb_lt in EC.
    refine (conj (TS_bump _ _ _ _ HS1) (conj (ex_intro _ seen G) _)). intros _. destruct minmax. split; [lia|].
    intros A. apply (Wany_live basis p child Hover HIN). apply V2; lia. }
  pose proof (gen_stepj (gfuel g) g seen s1 G (proj1 HS1) (f700 g seen G)) as ST.
  destruct (mg_next false basis cfg (gfuel g) s1 g) as [g' [[m' c']|]]; cbn [stepj] in ST.
  - destruct ST as (Hm & HT & G' & _).
    apply (IHn s1 g' c' (i + 1) _ (c' :: seen) HS1 G'); [apply (kid m' c' (depth - 1 - 2) Hm HT); lia|apply (kid_child m' c' Hm HT)].
  - destruct ST as (G' & _). refine (conj HS1 (conj (ex_intro _ seen G') _)). discriminate.
Qed.

(* ---- zwSearch from the child loop on ---- *)
Lemma zw_tail_ts s g seen ply depth a cut : TS s -> GJ basis p seen g -> MinEval - 1 <= a <= MaxEval -> (Z.to_nat (depth - 1) <= d0)%nat ->
  let r := zw_tail false basis cfg k rec s g p ply depth a cut in
  TS (fst r) /\ okl (fst (snd r)) /\ okv (snd (snd r)) /\ svals p a (a + 1) (snd (snd r)).
Proof.
  intros HS G Ha Hd. unfold zw_tail.
  pose proof (GJ_reset basis p seen g G) as G0.
  pose proof (zw_loop_ts ply depth a cut Ha Hd (gfuel (set_i g 0)) s (set_i g 0) 0 (firstn 1 (znth (fpv s) ply [])) [] HS G0
                (Forall_firstn _ _ _ (okl_frameJ s ply (proj1 HS))) (f700 _ _ G0) ltac:(intros F; contradiction)
                ltac:(intros _ q F; destruct F)) as LP.
  destruct (zw_loop false basis cfg k rec (gfuel (set_i g 0)) ply depth a cut s (set_i g 0) 0 (firstn 1 (znth (fpv s) ply []))) as [[[s2 best] didcut] ab].
  destruct LP as (HS2 & HB2 & L1 & L2 & L4). destruct ab; cbn [fst snd].
  - split; [exact HS2|]. split; [constructor|]. split; [apply okv0|apply svals0].
  - split; [|split; [exact HB2|split]].
    + apply TS_zw_store; [exact NoColl|exact HS2|apply (Pos_0 _ _ Hp)|exact HB2|exact Ha|apply L2; reflexivity|apply L4; reflexivity].
    + unfold okv. destruct minmax. destruct didcut; [specialize (L1 eq_refl); lia|specialize (L2 eq_refl eq_refl); lia].
    + apply L4. reflexivity.
Qed.

Lemma zw_mc_ts s g seen ply depth a cut : TS s -> GJ basis p seen g -> MinEval - 1 <= a <= MaxEval -> (Z.to_nat (depth - 1) <= d0)%nat ->
  let r := zw_mc false basis cfg k rec s g p ply depth a cut in
  TS (fst r) /\ okl (fst (snd r)) /\ okv (snd (snd r)) /\ svals p a (a + 1) (snd (snd r)).
Proof.
  intros HS G Ha Hd. unfold zw_mc. destruct (c_multicut cfg && cut && (3 <? depth)); [|apply (zw_tail_ts s g seen); assumption].
  set (s1 := bump s (st_add 0 0 0 0 0 0 0 0 0 1 0)). assert (HS1 : TS s1) by (apply TS_bump; exact HS).
  pose proof (gen_stepj (gfuel g) g seen s1 G (proj1 HS1) (f700 g seen G)) as ST.
  destruct (mg_next false basis cfg (gfuel g) s1 g) as [g1 [[m child0]|]]; cbn [stepj] in ST.
  - destruct ST as (Hm & HT & G1 & _).
    pose proof (mc_loop_ts ply depth a cut m Ha Hd 8 s1 g1 child0 0 0 (child0 :: seen) HS1 G1 (kid m child0 (depth - 1 - 2) Hm HT ltac:(lia))
                  (kid_child m child0 Hm HT)) as LP.
    destruct (mc_loop false basis cfg rec 8 ply depth a cut m s1 g1 child0 0 0) as [[s2 g2] mccut].
    destruct LP as (HS2 & (seen2 & G2) & L3). destruct mccut.
    + cbn [fst snd]. destruct (L3 eq_refl) as (X1 & X2). split; [exact HS2|]. split; [constructor|]. split; [unfold okv; lia|].
      unfold SearchTable7.svals. split; [intros _; exact X2|intros F; lia].
    + apply (zw_tail_ts s2 g2 seen2); assumption.
  - destruct ST as (G1 & _). apply (zw_tail_ts s1 g1 seen); assumption.
Qed.

(* zwSearch after the probe: no null move; the slide reduction only lowers the depth *)
Lemma zw_node_ts s te ply depth pv a cut : TS s -> okl pv -> MinEval - 1 <= a <= MaxEval -> (Z.to_nat (depth - 1) <= d0)%nat ->
  let r := zw_node false basis cfg k rec s te p ply depth pv a cut in
  TS (fst r) /\ okl (fst (snd r)) /\ okv (snd (snd r)) /\ svals p a (a + 1) (snd (snd r)).
Proof.
  intros HS Hpv Ha Hd. unfold zw_node, null_move_ok. rewrite Hnonull. unfold zw_reduce.
  pose proof (reduce_slide_ok cfg s p ply depth (proj1 HS)) as (R1 & R2).
  assert (R3 : tts basis (Pos 0%nat) (fst (reduce_slide cfg s p ply depth))).
  { unfold reduce_slide. repeat match goal with
    | |- context [if ?c then _ else _] => destruct c
    | |- context [let '(_, _) := ?c in _] => destruct c
    end; cbn [fst]; apply HS. }
  destruct (reduce_slide cfg s p ply depth) as [s1 d1]. cbn [fst snd] in R1, R2, R3.
  apply (zw_mc_ts s1 _ []); [split; assumption|apply gj_new; assumption|exact Ha|lia].
Qed.

(* ---- one child of pvSearch ---- *)
Definition child_s (q : position) (a b v : Z) : Prop :=
  (a < - v -> WinThreshold < - v -> Lany q) /\ (- v < b -> - v < - WinThreshold -> Wany q).

Lemma pv_child_ts s m q ply depth best a b i : TS s -> okm m -> try_move basis p m = Some q -> okl best ->
  MinEval - 1 <= a < b -> b <= MaxEval + 1 -> (Z.to_nat (depth - 1) <= d0)%nat ->
  let r := pv_child rec s q ply depth best a b i in
  TS (fst r) /\ okl (fst (snd r)) /\ okv (snd (snd r)) /\ child_s q a b (snd (snd r)).
Proof.
  intros HS Hm HT HB Hab Hb Hd. pose proof (kid m q (depth - 1) Hm HT Hd) as Hq. destruct minmax as (MM & _).
  unfold pv_child.
  assert (RPV : forall s, TS s -> let r := rec false s q (ply + 1) (depth - 1) (tl best) (- b) (- a) true in
            TS (fst r) /\ okl (fst (snd r)) /\ okv (snd (snd r)) /\ child_s q a b (snd (snd r))).
  { intros s' HS'. pose proof (Hrec false s' q (ply + 1) (depth - 1) (tl best) (- b) (- a) true HS' Hq (okl_tl _ HB) ltac:(unfold win_ok; lia)) as R.
    cbv zeta in *. destruct R as (A & B & C & (V1 & V2)). split; [exact A|]. split; [exact B|]. split; [exact C|].
    unfold child_s. split; [intros X Y; apply V2; lia|intros X Y; apply V1; lia]. }
  destruct (1 <? i); [|apply RPV; exact HS].
  pose proof (Hrec true s q (ply + 1) (depth - 1) (tl best) (- a - 1) 0 true HS Hq (okl_tl _ HB) ltac:(unfold win_ok; lia)) as R.
  destruct (rec true s q (ply + 1) (depth - 1) (tl best) (- a - 1) 0 true) as [s1 [ms v]].
  cbn [fst snd] in R. destruct R as (HS1 & Hms & Hv & (V1 & V2)).
  destruct ((a <? - v) && (- v <? b)) eqn:EW; [apply RPV; apply TS_bump; exact HS1|].
  cbn [fst snd]. split; [exact HS1|]. split; [exact Hms|]. split; [exact Hv|].
  apply andb_false_iff in EW. unfold child_s.
  split; [intros X Y; apply V2; lia|].
  intros X. assert (X' : - v <= a) by (destruct EW as [E|E]; [apply Z.ltb_ge in E; exact E|apply Z.ltb_ge in E; lia]).
  intros Y. apply V1; lia.
Qed.

(* ---- the child loop of pvSearch ---- *)
Lemma pv_loop_ts ply depth a0 b : b <= MaxEval + 1 -> (Z.to_nat (depth - 1) <= d0)%nat ->
  forall n s g i best a improved seen,
  TS s -> GJ basis p seen g -> okl best -> len + 6 - g_i g < Z.of_nat n ->
  MinEval - 1 <= a < b -> (seen <> [] -> MinEval <= a) -> (improved = false -> a = a0) ->
  (improved = true -> a0 < a /\ (WinThreshold < a -> Wany p)) ->
  (a < - WinThreshold -> forall q, In q seen -> Wany q) ->
  let '(s', best', a', improved', aborted) := pv_loop false basis cfg k rec n ply depth b s g i best a improved in
  TS s' /\ okl best' /\
  (aborted = false -> okv a' /\ (improved' = false -> a' = a0) /\ (improved' = true -> a0 < a') /\ svals p a0 b a').
Proof.
  intros Hb Hd. induction n; intros s g i best a improved seen HS G HB HF Hab HSEEN HNI HIV HW.
  assert (DONE : (forall m q, In m (all_moves p) -> try_move basis p m = Some q -> In q seen) ->
          okv a /\ (improved = false -> a = a0) /\ (improved = true -> a0 < a) /\ svals p a0 b a).
  { intros ST. assert (MinEval <= a) by (apply HSEEN; apply seen_nonempty; exact ST).
    split; [unfold okv; lia|]. split; [exact HNI|]. split; [intros E; apply (HIV E)|].
    unfold SearchTable7.svals. split; [|intros _; apply (exhausted_s seen a ST HW)].
    intros A. destruct improved; [apply (HIV eq_refl)|specialize (HNI eq_refl); lia]. }
  { cbn [pv_loop]. pose proof (gen_stepj 0 g seen s G (proj1 HS) HF) as ST. cbn [mg_next stepj] in ST. destruct ST as (_ & ST).
    refine (conj HS (conj HB _)). intros _. apply DONE. exact ST. }
  assert (DONE : (forall m q, In m (all_moves p) -> try_move basis p m = Some q -> In q seen) ->
          okv a /\ (improved = false -> a = a0) /\ (improved = true -> a0 < a) /\ svals p a0 b a).
  { intros ST. assert (MinEval <= a) by (apply HSEEN; apply seen_nonempty; exact ST).
    split; [unfold okv; lia|]. split; [exact HNI|]. split; [intros E; apply (HIV E)|].
    unfold SearchTable7.svals. split; [|intros _; apply (exhausted_s seen a ST HW)].
    intros A. destruct improved; [apply (HIV eq_refl)|specialize (HNI eq_refl); lia]. }
  cbn [pv_loop].
  pose proof (gen_stepj (gfuel g) g seen s G (proj1 HS) (f700 g seen G)) as ST.
  destruct (mg_next false basis cfg (gfuel g) s g) as [g' [[m q]|]]; cbn [stepj] in ST.
  2:{ destruct ST as (_ & ST). refine (conj HS (conj HB _)). intros _. apply DONE. exact ST. }
  clear DONE. destruct ST as (Hm & HT & G' & HLT & _).
  pose proof (kid_child m q Hm HT) as Hq.
  pose proof (pv_child_ts (set_fm s ply m) m q ply depth best a b (i + 1) (TS_set_fm _ _ _ _ _ HS) Hm HT HB Hab Hb Hd) as R.
  destruct (pv_child rec (set_fm s ply m) q ply depth best a b (i + 1)) as [s1 [ms v]].
  cbn [fst snd] in R. destruct R as (HS1 & Hms & Hv & (C1 & C2)). unfold okv in Hv. destruct minmax as (MM & _).
  assert (A0 : a0 <= a) by (destruct improved; [destruct (HIV eq_refl); lia|specialize (HNI eq_refl); lia]).
  destruct (a <? - v) eqn:EA.
  - apply Z.ltb_lt in EA.
    assert (HB' : okl (m :: ms)) by (constructor; assumption).
    assert (HS2 : TS (set_fpv s1 ply (set_prefix (znth (fpv s1) ply []) (m :: ms)))).
    { apply TS_set_fpv; [assumption|]. apply okl_set_prefix; [apply okl_frameJ; apply HS1|assumption]. }
    assert (NEW : a0 < - v /\ (WinThreshold < - v -> Wany p)).
    { split; [lia|]. intros A. apply (Wany_live basis p q Hover Hq). apply C1; assumption. }
    destruct (b <=? - v) eqn:EB.
    + apply Z.leb_le in EB.
      refine (conj (TS_record_cut _ _ _ m _ _ _ HS2 Hm) (conj HB' _)). intros _.
      split; [unfold okv; lia|]. split; [discriminate|]. split; [intros _; apply NEW|].
      unfold SearchTable7.svals. split; [intros _; apply NEW|intros F; lia].
    + apply Z.leb_gt in EB.
      destruct (cancelled k (set_fpv s1 ply (set_prefix (znth (fpv s1) ply []) (m :: ms)))) eqn:EK.
      * refine (conj HS2 (conj HB' _)). discriminate.
      * apply (IHn _ g' (i + 1) (m :: ms) (- v) true (q :: seen)); auto; [lia|lia|intros _; lia|discriminate|].
        intros A q0 [<-|H0]; [apply C2; assumption|apply HW; [lia|assumption]].
  - apply Z.ltb_ge in EA. destruct (cancelled k s1) eqn:EK.
    + refine (conj HS1 (conj HB _)). discriminate.
    + apply (IHn s1 g' (i + 1) best a improved (q :: seen)); auto; [lia|intros _; lia|].
      intros A q0 [<-|H0]; [apply C2; lia|apply HW; assumption].
Qed.

Lemma pv_node_ts s te ply depth pv a b : TS s -> okl pv -> MinEval - 1 <= a < b -> b <= MaxEval + 1 -> (Z.to_nat (depth - 1) <= d0)%nat ->
  let r := pv_node false basis cfg k rec s te p ply depth pv a b in
  TS (fst r) /\ okl (fst (snd r)) /\ okv (snd (snd r)) /\ svals p a b (snd (snd r)).
Proof.
  intros HS Hpv Hab Hb Hd. unfold pv_node.
  set (best0 := match pv with [] => firstn 1 (znth (fpv s) ply []) | _ :: _ => pv end).
  assert (HB0 : okl best0) by (subst best0; destruct pv; [apply Forall_firstn; apply okl_frameJ; apply HS|assumption]).
  set (s2 := set_fpv s ply (set_prefix (znth (fpv s) ply []) best0)).
  assert (HS2 : TS s2) by (apply TS_set_fpv; [assumption|apply okl_set_prefix; [apply okl_frameJ; apply HS|assumption]]).
  pose proof (gj_new s te pv ply depth (proj1 HS) Hpv) as G0.
  pose proof (pv_loop_ts ply depth a b Hb Hd (gfuel (new_gen s te pv ply depth p)) s2 (new_gen s te pv ply depth p) 0 best0 a false [] HS2 G0 HB0 (f700 _ _ G0) Hab
                ltac:(intros F; contradiction) ltac:(reflexivity) ltac:(discriminate) ltac:(intros _ q F; destruct F)) as LP.
  destruct (pv_loop false basis cfg k rec (gfuel (new_gen s te pv ply depth p)) ply depth b s2 (new_gen s te pv ply depth p) 0 best0 a false) as [[[[s3 best] a'] improved] ab].
  destruct LP as (HS3 & HB3 & L2). destruct ab; cbn [fst snd].
  - split; [exact HS3|]. split; [constructor|]. split; [apply okv0|apply svals0].
  - destruct (L2 eq_refl) as (V & H1 & H2 & H3).
    split; [|split; [exact HB3|split; [exact V|exact H3]]].
    apply (TS_pv_store basis (Pos 0%nat) NoColl k s3 p depth best a a' b improved); [exact HS3|apply (Pos_0 _ _ Hp)|exact HB3|exact V|lia|exact H1|exact H2|exact H3].
Qed.
End Node.

Lemma srch_step_ts rec : ts_ok rec -> ts_ok (srch_step false basis cfg k rec).
Proof.
  intros Hrec zw s p ply depth pv a b cut HS Hp Hpv (Ha & Hw). cbv zeta. unfold srch_step.
  destruct ((depth <=? 0) || is_over p) eqn:EL.
  { cbn [fst snd]. split; [apply TS_count_eval; apply TS_bump; exact HS|]. split; [constructor|]. split; [apply (Hbound _ p Hp)|].
    apply (leaf_svals _ p _ _ Hp). }
  apply orb_false_iff in EL. destruct EL as (ED & EO). apply Z.leb_gt in ED.
  assert (Hp' : Pos (S (Z.to_nat (depth - 1))) p) by (replace (S (Z.to_nat (depth - 1))) with (Z.to_nat depth) by lia; exact Hp).
  match goal with |- context [tt_probe basis ?s1 p ply depth a ?bb] =>
    assert (HS1 : TS s1) by (apply TS_bump; exact HS);
    pose proof (tt_probe_svals basis (Pos 0%nat) NoColl s1 p ply depth a bb HS1 (Pos_0 _ _ Hp) EO ltac:(destruct zw; lia)) as TP;
    destruct (tt_probe basis s1 p ply depth a bb) as [[s2 te] ret] end.
  destruct TP as (HS2 & TR). destruct ret as [[pv' v]|].
  { cbn [fst snd]. destruct TR as (A & B & D). auto. }
  destruct zw.
  - apply (zw_node_ts rec Hrec p (Z.to_nat (depth - 1)) Hp' EO); [exact HS2|exact Hpv|lia|lia].
  - destruct Hw as (Hab & Hb).
    apply (pv_node_ts rec Hrec p (Z.to_nat (depth - 1)) Hp' EO); [exact HS2|exact Hpv|lia|exact Hb|lia].
Qed.

Lemma srch_ts : forall f, ts_ok (srch false basis cfg k f).
Proof.
  induction f; [|cbn [srch]; apply srch_step_ts; exact IHf].
  intros zw s p ply depth pv a b cut HS _ _ _. cbn [srch fst snd]. split; [exact HS|]. split; [constructor|]. split; [apply okv0|apply svals0].
Qed.

(* ---- Analyze ---- *)
Lemma az_iter_ts p D base : (forall d, Z.of_nat d <= Z.max 0 D -> Pos d p) ->
  forall n i s ms v acc d, TS s -> okl ms -> sound_verdict basis p v ->
  forall sk pv' v' d' acc' c', az_iter false basis cfg k D base p n i s ms v acc d = (sk, (pv', v', d', acc', c')) ->
  TS sk /\ okl pv' /\ sound_verdict basis p v'.
Proof.
  intros HP. induction n; intros i s ms v acc d HS Hms HV sk pv' v' d' acc' c' H; cbn [az_iter] in H.
  { inversion H; subst. auto. }
  destruct (D <? i + base) eqn:ED; [inversion H; subst; auto|]. apply Z.ltb_ge in ED.
  pose proof (srch_ts 40 false (reset_st s) p 0 (i + base) ms (MinEval - 1) (MaxEval + 1) true
                (TS_reset_st _ _ _ HS) ltac:(apply HP; lia) Hms ltac:(unfold win_ok; destruct minmax; lia)) as R.
  cbv zeta in R.
  destruct (srch false basis cfg k 40 false (reset_st s) p 0 (i + base) ms (MinEval - 1) (MaxEval + 1) true) as [s1 [next nv]].
  cbn [fst snd] in R. destruct R as (HS1 & Hnext & (O1 & O2) & (V1 & V2)).
  destruct (cancelled k s1) eqn:EK; [inversion H; subst; auto|].
  destruct next as [|m rest]; [inversion H; subst; auto|].
  assert (NEW : sound_verdict basis p nv) by (split; [intros A; apply V1; lia|intros A; apply V2; lia]).
  destruct ((WinThreshold <? nv) || (nv <? - WinThreshold)).
  - inversion H; subst. auto.
  - apply (IHn (i + 1) s1 (m :: rest) nv _ (i + base) HS1 Hnext NEW _ _ _ _ _ _ H).
Qed.

Theorem analyze_ts : forall s p sk pv v d acc c, TS s -> (forall d, Z.of_nat d <= Z.max 0 (c_depth cfg) -> Pos d p) -> is_over p = false ->
  analyze_gen false basis cfg k s p = (sk, (pv, v, d, acc, c)) -> TS sk /\ sound_verdict basis p v.
Proof.
  intros s p sk pv v d acc c HS HP HO H. unfold analyze_gen, analyze_depth in H.
  assert (HS0 : TS (az_start s)) by (apply TS_az_start; exact HS).
  assert (P0 : Pos 0%nat p) by (apply HP; lia).
  assert (SEED : forall b m0 vv, az_root false (az_start s) p = (b, m0, vv) -> okl m0 /\ sound_verdict basis p vv).
  { unfold az_root. intros b m0 vv E.
    assert (Z0 : sound_verdict basis p 0) by (unfold sound_verdict, WinThreshold; split; intros F; lia).
    destruct (tt_get (az_start s) (phash p)) as [i|] eqn:EG; [|inversion E; split; [constructor|exact Z0]].
    destruct (e_bound (nth i (table (az_start s)) entry0) =? 1)%N eqn:EB; inversion E; [|split; [constructor|exact Z0]]. subst.
    apply N.eqb_eq in EB.
    split; [constructor; [apply (SJ_te (az_start s) i (proj1 HS0))|constructor]|].
    destruct (tt_get_s basis (Pos 0%nat) (az_start s) p i (proj2 HS0) P0 HO EG) as (E1 & E2).
    unfold lowerb, upperb in *. split; [intros A; apply E1; auto|intros A; apply E2; auto]. }
  destruct (az_root false (az_start s) p) as [[base ms0] v0]. destruct (SEED _ _ _ eq_refl) as (S1 & S2).
  destruct (az_iter_ts p (c_depth cfg) base HP 16 1 (az_start s) ms0 v0 stats0 base HS0 S1 S2 _ _ _ _ _ _ H) as (A & _ & B).
  split; assumption.
Qed.
End TabS.
