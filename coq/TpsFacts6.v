(* C10: on canonically represented positions ParseTPS o FormatTPS reproduces the representation itself
   (every field but black_wins_ties and, without reserves_match_board, the reserves): Equal, Hash. *)
From Coq Require Import NArith ZArith List Bool Lia Ascii ZifyN ZifyBool ZifyNat.
Require Import Board Move GameOver PtnMove Playtak Tps TpsFacts TpsFacts2 TpsFacts3 TpsFacts4 TpsFacts5 RefinePlace.
Import ListNotations.
Local Open Scope N_scope.

(* ---- the canonical representation (DESIGN 3.2 `wf` without reserves and groups), decidable ---- *)
Definition sq_repb (p : position) (i : N) : bool :=
  let h := nthN (Height p) i in let st := nthN (Stacks p) i in
  let w := N.testbit (White p) i in let b := N.testbit (Black p) i in
  let s := N.testbit (Standing p) i in let c := N.testbit (Caps p) i in
  Bool.eqb (h =? 0) (negb (w || b)) && negb (w && b) && negb (s && c) && (negb (h =? 0) || negb (s || c))
  && (h <? 256) && (st <? 2 ^ 64) && (st <? 2 ^ (h - 1)).

Record rep_ok (basis : list N) (p : position) : Prop := {
  ro_lenH : length (Height p) = (N.to_nat (size p) * N.to_nat (size p))%nat;
  ro_lenS : length (Stacks p) = (N.to_nat (size p) * N.to_nat (size p))%nat;
  ro_mask : White p < 2 ^ (size p * size p) /\ Black p < 2 ^ (size p * size p) /\
            Standing p < 2 ^ (size p * size p) /\ Caps p < 2 ^ (size p * size p);
  ro_sq : forall i, i < size p * size p -> sq_repb p i = true;
  ro_hash : hash p = scratch_hash basis p }.

Lemma testbit_above x k j : x < 2 ^ k -> k <= j -> N.testbit x j = false.
Proof.
  intros Hx Hj. destruct (N.eq_dec x 0) as [->|NZ]; [apply N.bits_0|].
  apply N.bits_above_log2. apply N.log2_lt_pow2; [lia|]. apply N.lt_le_trans with (2 ^ k); [exact Hx|].
  apply N.pow_le_mono_r; lia.
Qed.

Lemma rep_bytes basis p : rep_ok basis p -> bytes_ok p.
Proof.
  intros R i Hi. pose proof (ro_sq _ _ R i Hi) as H. unfold sq_repb in H. cbv zeta in H.
  rewrite !andb_true_iff in H. destruct H as [[[_ H1] H2] _]. split; lia.
Qed.

(* ---- At on a canonical square ---- *)
Section Sq.
Variable p : position.
Variable i : N.
Hypothesis Hi : i < 64.
Hypothesis Hrep : sq_repb p i = true.

Local Notation h := (nthN (Height p) i).
Local Notation st := (nthN (Stacks p) i).

Lemma rep_facts :
  (h = 0 <-> N.testbit (White p) i = false /\ N.testbit (Black p) i = false) /\
  (N.testbit (White p) i && N.testbit (Black p) i = false) /\
  (N.testbit (Standing p) i && N.testbit (Caps p) i = false) /\
  (h = 0 -> N.testbit (Standing p) i = false /\ N.testbit (Caps p) i = false) /\
  h < 256 /\ st < 2 ^ 64 /\ st < 2 ^ (h - 1).
Proof.
  pose proof Hrep as H. unfold sq_repb in H. cbv zeta in H. rewrite !andb_true_iff in H.
  destruct H as [[[[[[H1 H2] H3] H4] H5] H6] H7].
  destruct (N.testbit (White p) i), (N.testbit (Black p) i), (N.testbit (Standing p) i), (N.testbit (Caps p) i),
    (N.eqb_spec h 0); cbn in *; try discriminate; repeat split; try (intros; lia); try tauto; try congruence; try lia.
Qed.

Lemma at_sq_occ : (N.land (N.lor (White p) (Black p)) (bit i) =? 0) = negb (N.testbit (White p) i || N.testbit (Black p) i).
Proof.
  assert (Hh : has (N.lor (White p) (Black p)) i = N.testbit (White p) i || N.testbit (Black p) i)
    by (now rewrite has_lor, !has_spec by assumption).
  unfold has in Hh. apply (f_equal negb) in Hh. now rewrite negb_involutive in Hh.
Qed.

Lemma at_sq_rep :
  at_sq p i = if N.testbit (White p) i || N.testbit (Black p) i
              then P (negb (N.testbit (White p) i)) (if N.testbit (Standing p) i then 2 else if N.testbit (Caps p) i then 3 else 1)
                   :: map (fun j => P (N.testbit st (N.of_nat j)) 1) (seq 0 (N.to_nat h - 1))
              else [].
Proof.
  destruct rep_facts as (Hocc & _). unfold at_sq. rewrite at_sq_occ, !has_spec by assumption.
  destruct (N.testbit (White p) i || N.testbit (Black p) i) eqn:E; cbn [negb]; [|reflexivity].
  destruct (N.to_nat h) as [|h'] eqn:Eh.
  - exfalso. assert (h = 0) by lia. apply Hocc in H. destruct H as [H1 H2]. rewrite H1, H2 in E. discriminate.
  - cbn [Nat.sub]. now rewrite Nat.sub_0_r.
Qed.

Lemma top_white_rep : top_white (at_sq p i) = N.testbit (White p) i.
Proof. rewrite at_sq_rep. destruct rep_facts as (_ & Hex & _). destruct (N.testbit (White p) i), (N.testbit (Black p) i); try reflexivity; discriminate. Qed.

Lemma top_black_rep : top_black (at_sq p i) = N.testbit (Black p) i.
Proof. rewrite at_sq_rep. destruct rep_facts as (_ & Hex & _). destruct (N.testbit (White p) i), (N.testbit (Black p) i); try reflexivity; discriminate. Qed.

Lemma top_stand_rep : top_stand (at_sq p i) = N.testbit (Standing p) i.
Proof.
  rewrite at_sq_rep. destruct rep_facts as (Hocc & _ & Hsc & Htop & _).
  destruct (N.testbit (White p) i || N.testbit (Black p) i) eqn:E.
  - cbn [top_stand]. destruct (N.testbit (Standing p) i); [reflexivity|]. now destruct (N.testbit (Caps p) i).
  - cbn [top_stand]. apply orb_false_iff in E. symmetry. apply Htop. now apply Hocc.
Qed.

Lemma top_cap_rep : top_cap (at_sq p i) = N.testbit (Caps p) i.
Proof.
  rewrite at_sq_rep. destruct rep_facts as (Hocc & _ & Hsc & Htop & _).
  destruct (N.testbit (White p) i || N.testbit (Black p) i) eqn:E.
  - cbn [top_cap]. destruct (N.testbit (Standing p) i), (N.testbit (Caps p) i); try reflexivity; discriminate.
  - cbn [top_cap]. apply orb_false_iff in E. symmetry. apply Htop. now apply Hocc.
Qed.

Lemma hgt_rep : hgt (at_sq p i) = h.
Proof.
  rewrite at_sq_rep. destruct rep_facts as (Hocc & _ & _ & _ & H256 & _).
  destruct (N.testbit (White p) i || N.testbit (Black p) i) eqn:E.
  - unfold hgt, u8. cbn [length]. rewrite map_length, seq_length.
    assert (h <> 0). { intros Z. apply Hocc in Z. destruct Z as [Z1 Z2]. rewrite Z1, Z2 in E. discriminate. }
    rewrite N.mod_small by lia. lia.
  - apply orb_false_iff in E. symmetry. now apply Hocc.
Qed.

Lemma stk_bits_rep : stk_bits (at_sq p i) = st.
Proof.
  rewrite at_sq_rep. destruct rep_facts as (Hocc & _ & _ & _ & H256 & H64 & Hcan).
  destruct (N.testbit (White p) i || N.testbit (Black p) i) eqn:E.
  - apply N.bits_inj. intros t. rewrite stk_bits_spec. rewrite map_length, seq_length.
    destruct (N.ltb_spec t 64) as [H1|H1]; cbn [andb]; [|symmetry; apply (testbit_above _ 64); [exact H64|exact H1]].
    destruct (N.ltb_spec t (N.of_nat (N.to_nat h - 1))) as [H2|H2]; cbn [andb].
    + rewrite nth_indep with (d' := (fun j => P (N.testbit st (N.of_nat j)) 1) 0%nat) by (rewrite map_length, seq_length; lia).
      rewrite (map_nth (fun j => P (N.testbit st (N.of_nat j)) 1)), seq_nth by lia. cbn [is_black plus]. now rewrite N2Nat.id.
    + symmetry. eapply testbit_above; [exact Hcan|]. lia.
  - apply orb_false_iff in E. apply Hocc in E. rewrite E in Hcan. change (2 ^ (0 - 1)) with 1 in Hcan.
    change (stk_bits []) with 0. lia.
Qed.
End Sq.

(* ---- the parsed position is p itself (but for black_wins_ties and the reserves) ---- *)
Lemma lists_eqb_refl l : lists_eqb l l = true.
Proof. induction l as [|a l IH]; [reflexivity|]. cbn [lists_eqb]. now rewrite N.eqb_refl, IH. Qed.

Lemma map_cells_of (f : list pc -> N) (g : N -> N) (l : list N) p :
  length l = (N.to_nat (size p) * N.to_nat (size p))%nat ->
  (forall i, i < size p * size p -> f (at_sq p i) = nth (N.to_nat i) l 0) ->
  map f (cells_of p) = l.
Proof.
  intros Hl H. symmetry. apply nth_ext with (d := 0) (d' := f []).
  - now rewrite map_length, cells_of_length.
  - intros j Hj. rewrite (map_nth f (cells_of p) [] j). rewrite cells_of_nth by lia.
    rewrite H by lia. now rewrite Nat2N.id.
Qed.

Theorem tps_format_parse_rep basis p : (3 <= size p <= 8) -> (0 <= Move.move p < 2 ^ 63)%Z -> rep_ok basis p ->
  exists q, parse_tps basis (format_tps p) = Ok q
    /\ size q = size p /\ Move.move q = Move.move p /\ black_wins_ties q = false
    /\ White q = White p /\ Black q = Black p /\ Standing q = Standing p /\ Caps q = Caps p
    /\ Height q = Height p /\ Stacks q = Stacks p /\ hash q = hash p.
Proof.
  intros Hs Hm R. eexists. split; [apply parse_format; assumption|].
  set (n := N.to_nat (size p)).
  assert (Hnn : (n * n <= 64)%nat) by (subst n; nia).
  destruct (from_squares_spec basis (size p) (board_of p) (Move.move p)) as (E1 & E2 & E3 & F).
  { rewrite cells_board. apply cells_of_length. }
  { exact Hnn. }
  rewrite cells_board in F. fold n in F.
  set (q := from_squares basis (size p) (board_of p) (Move.move p)) in *.
  destruct R as [RlH RlS (Mw & Mb & Ms & Mc) Rsq Rh].
  assert (Hlen : N.of_nat (length (cells_of p)) = size p * size p) by (rewrite cells_of_length; lia).
  assert (Hbits : forall (f : list pc -> bool) (x y : N),
            (forall j, N.testbit x j = (j <? N.of_nat (length (cells_of p))) && f (nth (N.to_nat j) (cells_of p) [])) ->
            y < 2 ^ (size p * size p) ->
            (forall i, i < 64 -> sq_repb p i = true -> f (at_sq p i) = N.testbit y i) -> x = y).
  { intros f x y Hx Hy Hf. apply N.bits_inj. intros j. rewrite Hx, Hlen.
    destruct (N.ltb_spec j (size p * size p)) as [Hj|Hj]; cbn [andb].
    - rewrite cells_of_nth by (fold n; lia). rewrite N2Nat.id. apply Hf; [nia|now apply Rsq].
    - symmetry. eapply testbit_above; eauto. }
  assert (EH : Height q = Height p).
  { rewrite (fo_H _ _ _ _ F). apply (map_cells_of hgt (fun x => x)); [exact RlH|].
    intros i Hi. rewrite hgt_rep; [reflexivity|nia|now apply Rsq]. }
  assert (ES : Stacks q = Stacks p).
  { rewrite (fo_S _ _ _ _ F). apply (map_cells_of stk_bits (fun x => x)); [exact RlS|].
    intros i Hi. rewrite stk_bits_rep; [reflexivity|nia|now apply Rsq]. }
  repeat split; try assumption.
  - apply (Hbits top_white _ _ (fo_w _ _ _ _ F) Mw). intros; now apply top_white_rep.
  - apply (Hbits top_black _ _ (fo_b _ _ _ _ F) Mb). intros; now apply top_black_rep.
  - apply (Hbits top_stand _ _ (fo_s _ _ _ _ F) Ms). intros; now apply top_stand_rep.
  - apply (Hbits top_cap _ _ (fo_c _ _ _ _ F) Mc). intros; now apply top_cap_rep.
  - rewrite (fo_hash _ _ _ _ F), Rh. unfold scratch_hash. now rewrite EH, ES.
Qed.

(* The statement of DESIGN 5.10: Equal both ways, Hash (the 64-bit value Position.Hash returns), reserves, side, ply.
   In fact q is p with black_wins_ties cleared. *)
Theorem tps_format_parse_equal basis p : (3 <= size p <= 8) -> (0 <= Move.move p < 2 ^ 63)%Z -> rep_ok basis p -> reserves_match_board p ->
  exists q, parse_tps basis (format_tps p) = Ok q
    /\ q = {| size := size p; black_wins_ties := false;
              whiteStones := whiteStones p; whiteCaps := whiteCaps p; blackStones := blackStones p; blackCaps := blackCaps p;
              Move.move := Move.move p; White := White p; Black := Black p; Standing := Standing p; Caps := Caps p;
              Height := Height p; Stacks := Stacks p; hash := hash p |}
    /\ equal p q = true /\ equal q p = true /\ hash_of q = hash_of p
    /\ to_move_white q = to_move_white p /\ Move.move q = Move.move p.
Proof.
  intros Hs Hm R RM.
  destruct (tps_format_parse_rep basis p Hs Hm R) as (q & Hq & E1 & E2 & E3 & E4 & E5 & E6 & E7 & E8 & E9 & E10).
  destruct (tps_format_parse basis p Hs Hm (rep_bytes _ _ R)) as (q' & Hq' & _ & _ & _ & _ & _ & _ & _ & _ & _ & _ & Hres).
  rewrite Hq in Hq'. injection Hq' as <-. destruct (Hres RM) as (R1 & R2 & R3 & R4).
  exists q. split; [exact Hq|].
  assert (Eq : q = {| size := size p; black_wins_ties := false;
              whiteStones := whiteStones p; whiteCaps := whiteCaps p; blackStones := blackStones p; blackCaps := blackCaps p;
              Move.move := Move.move p; White := White p; Black := Black p; Standing := Standing p; Caps := Caps p;
              Height := Height p; Stacks := Stacks p; hash := hash p |}).
  { clear Hq Hres. destruct q as [qs qb qws qwc qbs qbc qm qW qB qS qC qH qSt qh].
    cbn [size black_wins_ties whiteStones whiteCaps blackStones blackCaps Move.move White Black Standing Caps Height Stacks hash] in *.
    subst. reflexivity. }
  split; [exact Eq|]. rewrite Eq. unfold equal, hash_of, to_move_white. cbn [size hash White Black Standing Caps Height Stacks Move.move].
  rewrite !N.eqb_refl, !lists_eqb_refl, eqb_reflx. repeat split; reflexivity.
Qed.
