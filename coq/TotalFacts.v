(* C13: the text parsers' models never return Panic, for every byte list. *)
From Coq Require Import NArith ZArith List Bool Lia Ascii.
Require Import Board Move GameOver PtnMove Playtak Tps.
Import ListNotations.
Local Open Scope N_scope.

Ltac break_match :=
  repeat match goal with
         | |- context [match ?x with _ => _ end] => destruct x eqn:?
         | |- context [if ?b then _ else _] => destruct b eqn:?
         end.

Theorem parse_move_total : forall s, PtnMove.parse_move s <> PtnMove.Panic.
Proof. intros s. unfold PtnMove.parse_move. break_match; discriminate. Qed.

Theorem parse_server_total : forall s, Playtak.parse_server s <> PtnMove.Panic.
Proof. intros s. unfold Playtak.parse_server. break_match; discriminate. Qed.

Lemma parse_stack_total : forall s len i acc, parse_stack len i s acc <> Move.Panic.
Proof.
  induction s as [|ch r IH]; intros len i acc; cbn [parse_stack]; [discriminate|].
  break_match; try discriminate; apply IH.
Qed.

Lemma parse_cell_total : forall b, parse_cell b <> Move.Panic.
Proof.
  intros b. unfold parse_cell. destruct b as [|c0 rest]; [discriminate|].
  destruct (c0 =? B "x"); [discriminate|].
  destruct (parse_stack (length (c0 :: rest)) 0 (c0 :: rest) []) eqn:E; try discriminate.
  exfalso. eapply parse_stack_total; eauto.
Qed.

Lemma parse_row_items_total : forall items, parse_row_items items <> Move.Panic.
Proof.
  induction items as [|it r IH]; cbn [parse_row_items]; [discriminate|].
  destruct (parse_cell it) eqn:E; try discriminate.
  - destruct (parse_row_items r) eqn:E2; try discriminate. contradiction.
  - exfalso. eapply parse_cell_total; eauto.
Qed.

Lemma parse_rows_total : forall rows acc, parse_rows rows acc <> Move.Panic.
Proof.
  induction rows as [|r rest IH]; intros acc; cbn [parse_rows]; [discriminate|].
  destruct (parse_row r) eqn:E; try discriminate; [apply IH|].
  exfalso. unfold parse_row in E. eapply parse_row_items_total; eauto.
Qed.

Theorem parse_tps_total : forall basis s, parse_tps basis s <> Move.Panic.
Proof.
  intros basis s. unfold parse_tps.
  destruct (negb (length (words s) =? 3)%nat); [discriminate|].
  destruct (atoi (nth 1 (words s) [])) as [turn|]; [|discriminate].
  destruct (atoi (nth 2 (words s) [])) as [mvn|]; [|break_match; discriminate].
  destruct (negb ((turn =? 1)%Z || (turn =? 2)%Z)); [discriminate|].
  destruct (parse_rows (split_on (B "/") (nth 0 (words s) []) []) []) eqn:E; try discriminate.
  - break_match; discriminate.
  - exfalso. eapply parse_rows_total; eauto.
Qed.
