(* C04: the abstract search invariant (LegalMove.v) instantiated with the bit-level rules model
   (Move.v / GameOver.v), and combined with "a live position has a legal move" (LegalMoveLive.v). *)
From Coq Require Import NArith ZArith Arith List Bool Lia ZifyN ZifyBool ZifyNat.
Require Import Board Rules Move GameOver Refine RefinePlace RefinePlace2 LegalMove LegalMoveLive.
Import ListNotations.

(* MovePreallocated as the search sees it: a child position or an error *)
Definition apply_m (p : position) (m : rmove) : option position :=
  match mv p m with Ok q => Some q | _ => None end.

(* tak.Move.Equal: the Slides word is compared for slides only (Type >= SlideLeft) *)
Definition move_equal (a b : rmove) : bool :=
  if negb (mX a =? mX b)%Z || negb (mY a =? mY b)%Z then false
  else if negb (mT a =? mT b)%N then false
  else if negb (5 <=? mT a)%N then true
  else (mS a =? mS b)%N.

(* Equal moves are applied identically: placements ignore the Slides word *)
Lemma move_equal_same_result p a b : move_equal a b = true -> mv p a = mv p b.
Proof.
  destruct a as [x y t s], b as [x' y' t' s']. unfold move_equal. cbn [mX mY mT mS].
  destruct (Z.eqb_spec x x') as [<-|]; [|discriminate]. destruct (Z.eqb_spec y y') as [<-|]; [|discriminate]. cbn [negb orb].
  destruct (N.eqb_spec t t') as [<-|]; [|discriminate]. cbn [negb].
  destruct (N.leb_spec 5 t) as [H5|H5]; cbn [negb].
  - intros E. apply N.eqb_eq in E. now subst.
  - intros _. assert (E : (t = 0 \/ t = 1 \/ t = 2 \/ t = 3 \/ t = 4)%N) by lia.
    destruct E as [->|[->|[->|[->| ->]]]]; unfold mv, move_prealloc; cbn [mX mY mT mS bind]; reflexivity.
Qed.

Lemma move_equal_same_legality p a b : move_equal a b = true ->
  (legal position rmove apply_m p a <-> legal position rmove apply_m p b).
Proof. intros E. unfold legal, apply_m. rewrite (move_equal_same_result p a b E). tauto. Qed.

(* ---- the combination ---- *)
(* For every live, well-formed position of the rules model: whatever the table entry, the three hint moves,
   the stale PV buffer, the symmetry de-duplication and the search below the root are - provided every child
   value exceeds the root's alpha (root window wider than every evaluation, C18) and the root search is not
   cancelled - the first move of the PV reported by the root search is accepted by the model of
   MovePreallocated in that position. *)
Theorem model_root_first_move_legal
  (K : Type) (key : position -> K) (syms : position -> list K) (K_eqb : K -> K -> bool)
  (child_search : nat -> rmove -> position -> list rmove -> Z -> Z -> list rmove * Z)
  (dedup : bool) (cancelled : nat -> bool) (beta alpha0 : Z)
  (p : position) (c : gcolor) (tt : option (rmove * Z)) (h : hints rmove) (pvhint : list rmove) (stale : rmove)
  (pv : list rmove) (v : Z) :
  wf p -> in_mask p -> opening_supply p -> game_over p = Some (false, c) ->
  (forall j m q hint b, (alpha0 < snd (child_search j m q hint alpha0 b))%Z) ->
  root_search position rmove apply_m move_equal K key syms K_eqb child_search dedup cancelled beta
              p tt h (all_moves p) pvhint stale alpha0 = Some (pv, v) ->
  exists m rest q, pv = m :: rest /\ mv p m = Ok q.
Proof.
  intros W M OS G Hw H.
  destruct (live_has_legal_move p c W M OS G) as (m0 & q0 & Hin & Hq).
  assert (Hy : yield position rmove apply_m move_equal p h (all_moves p) <> []).
  { apply (yield_complete position rmove apply_m move_equal p h (all_moves p) m0).
    - intros a b. apply move_equal_same_legality.
    - exact Hin.
    - unfold legal, apply_m. rewrite Hq. discriminate. }
  destruct (root_first_move_legal position rmove apply_m move_equal K key syms K_eqb child_search dedup cancelled beta
              p tt h (all_moves p) pvhint stale alpha0 pv v Hy Hw H) as (m & rest & -> & L).
  unfold legal, apply_m in L. destruct (mv p m) as [q| |] eqn:E; [|contradiction|contradiction].
  exists m, rest, q. auto.
Qed.

(* ---- non-vacuity: the hypotheses hold for the initial 5x5 position ---- *)
Lemma nth_repeat0 : forall n k, nth k (repeat 0%N n) 0%N = 0%N.
Proof. induction n as [|n IH]; intros [|k]; cbn; auto. Qed.
Lemma nthN_repeat0 n i : nthN (repeat 0%N n) i = 0%N.
Proof. unfold nthN. apply nth_repeat0. Qed.
Lemma has_0 i : has 0 i = false.
Proof. reflexivity. Qed.

Example hypotheses_satisfiable :
  let p := new 5 21 1 in
  wf p /\ in_mask p /\ opening_supply p /\ game_over p = Some (false, GNone).
Proof.
  cbv zeta. split; [|split; [|split]].
  - constructor; cbn [new size Height Stacks White Move.Black Standing Caps whiteStones whiteCaps blackStones blackCaps].
    + lia.
    + now rewrite repeat_length.
    + now rewrite repeat_length.
    + intros i _. rewrite nthN_repeat0. cbn [N.lor]. rewrite has_0. tauto.
    + intros i _. now rewrite has_0.
    + intros i _ _. now rewrite has_0.
    + lia.
  - intros i _. reflexivity.
  - intros _. cbn. lia.
  - vm_compute. reflexivity.
Qed.

(* a search below the root that satisfies the window hypothesis *)
Definition cs_example (j : nat) (m : rmove) (q : position) (hint : list rmove) (a b : Z) : list rmove * Z := ([], (a + 1)%Z).
Example window_hypothesis_satisfiable :
  forall (alpha0 : Z) j m q hint b, (alpha0 < snd (cs_example j m q hint alpha0 b))%Z.
Proof. intros. cbn. lia. Qed.

Print Assumptions model_root_first_move_legal.
