(* SearchRandInst.v: the model of the randomised GetMove (SearchRand.v) instantiated with the hash basis regenerated from /repo: the
   entry point the OCaml driver of C04 calls (CASE RAND lines). *)
From Coq Require Import NArith ZArith List.
Require Import Board Move GameOver Eval Search SearchRand.
Require Import Generated.Consts.

Definition run_get_move (cfg : config) (rwindow rscale : Z) (rnd : list N) (s : sstate) (p : position) :=
  get_move gen_basis cfg 0 rwindow rscale rnd s p.
