From Coq Require Import NArith ZArith Arith List Bool Lia ZifyN ZifyBool ZifyNat.
Require Import Board Stack Rules Move Refine RefinePlace RefinePlace2 RefinePlace3 Slide1 Slide2 Slide3 Slide4 Slide5 Slide6.
Import ListNotations.
Ltac Zify.zify_post_hook ::= Z.div_mod_to_equations.

(* the bstate after lifting ct pieces off square i *)
Definition lifted (b : bstate) (i ct : N) : bstate :=
  let hi := nthN (bhs b) i in let sti := nthN (bst b) i in
  let stack := N.lor (shl64 sti 1) (b2n (has (bb b) i)) in
  let wb := if (hi =? ct)%N then (clrb (bw b) i, clrb (bb b) i)
            else if (N.land stack (bit ct) =? 0)%N then (setb (bw b) i, clrb (bb b) i) else (clrb (bw b) i, setb (bb b) i) in
  let st := updN (bst b) (N.to_nat i) (shr64 sti ct) in
  let hs := updN (bhs b) (N.to_nat i) (u8 (hi + 256 - ct)) in
  {| bw := fst wb; bb := snd wb; bs := clrb (bs b) i; bc := clrb (bc b) i; bhs := hs; bst := st;
     bh := N.lxor (N.lxor (bh b) (hash_at hsq (bhs b) (bst b) i)) (hash_at hsq hs st i) |}.

Definition stack_word (b : bstate) (i : N) : N := N.lor (shl64 (nthN (bst b) i) 1) (b2n (has (bb b) i)).
Definition top_kind (b : bstate) (i : N) : pkind := if has (bs b) i then KStanding else if has (bc b) i then KCap else KFlat.

Lemma bits_stack_word b i h : (1 <= h <= 64)%nat ->
  bits h (stack_word b i) = has (bb b) i :: bits (h - 1) (nthN (bst b) i).
Proof.
  intros Hh. unfold stack_word. replace h with (S (h - 1)) at 1 by lia. rewrite <- carry_bits.
  apply bits_ext. intros j Hj. rewrite !N.lor_spec. f_equal.
  unfold shl64. cbn [N.ltb N.compare Pos.compare Pos.compare_cont]. rewrite u64_bit.
  replace (N.of_nat j <? 64)%N with true by lia. apply andb_true_r.
Qed.

Lemma rkind_top_kind b i : rkind (top_kind b i) = kind_of (has (bs b) i) (has (bc b) i).
Proof. unfold top_kind, kind_of. destruct (has (bs b) i), (has (bc b) i); reflexivity. Qed.

Lemma carried_is_firstn b i ct : sq_ok b i -> (1 <= ct <= nthN (bhs b) i)%N ->
  carried (top_kind b i) (stack_word b i) (N.to_nat ct) = firstn (N.to_nat ct) (abs_stack_b b i).
Proof.
  intros [Hh _ _ _ _] Hct. set (h := nthN (bhs b) i) in *.
  unfold carried, abs_stack_b. fold h. destruct (N.eqb_spec h 0); [lia|].
  rewrite <- (firstn_bits (N.to_nat ct) (N.to_nat h)) by lia.
  rewrite bits_stack_word by lia.
  replace (N.to_nat ct) with (S (N.to_nat ct - 1)) by lia. cbn [firstn].
  rewrite rkind_top_kind. f_equal. unfold flats. now rewrite firstn_map.
Qed.

Lemma lifted_sq b i ct : (i < 64)%N -> (N.to_nat i < length (bhs b))%nat -> length (bst b) = length (bhs b) ->
  sq_ok b i -> (1 <= ct <= nthN (bhs b) i)%N ->
  abs_stack_b (lifted b i ct) i = skipn (N.to_nat ct) (abs_stack_b b i)
  /\ sq_ok (lifted b i ct) i /\ same_elsewhere b (lifted b i ct) i
  /\ nthN (bhs (lifted b i ct)) i = (nthN (bhs b) i - ct)%N.
Proof.
  intros Hi Hl Hl2 [Hh Hocc Hex Htop Hsc] Hct. set (h := nthN (bhs b) i) in *.
  assert (Eh : nthN (bhs (lifted b i ct)) i = (h - ct)%N).
  { unfold lifted. cbn [bhs]. rewrite nthN_updN, Nat.eqb_refl by lia. fold h. unfold u8. lia. }
  assert (Est : nthN (bst (lifted b i ct)) i = shr64 (nthN (bst b) i) ct).
  { unfold lifted. cbn [bst]. now rewrite nthN_updN, Nat.eqb_refl by lia. }
  assert (Es : has (bs (lifted b i ct)) i = false) by (unfold lifted; cbn [bs]; now apply has_clrb_same).
  assert (Ec : has (bc (lifted b i ct)) i = false) by (unfold lifted; cbn [bc]; now apply has_clrb_same).
  assert (Hw : (h = ct -> has (bw (lifted b i ct)) i = false /\ has (bb (lifted b i ct)) i = false) /\
               (h <> ct -> has (bb (lifted b i ct)) i = N.testbit (stack_word b i) ct /\
                           has (bw (lifted b i ct)) i = negb (N.testbit (stack_word b i) ct))).
  { unfold lifted. cbn [bw bb]. fold h. fold (stack_word b i). split; intros E.
    - replace (h =? ct)%N with true by lia. cbn [fst snd]. now rewrite !has_clrb_same.
    - replace (h =? ct)%N with false by lia.
      assert (Hb : negb (N.land (stack_word b i) (bit ct) =? 0)%N = N.testbit (stack_word b i) ct) by (apply has_word; lia).
      destruct (N.land (stack_word b i) (bit ct) =? 0)%N; cbn [negb fst snd] in *; rewrite <- Hb;
        rewrite ?has_setb_same, ?has_clrb_same by assumption; auto. }
  destruct Hw as [Hw1 Hw2].
  split; [|split; [|split; [|exact Eh]]].
  - unfold abs_stack_b at 1. rewrite Eh, Est, Es, Ec.
    unfold abs_stack_b. fold h. destruct (N.eqb_spec h 0); [lia|].
    destruct (N.eqb_spec (h - ct) 0) as [E0|E0].
    + symmetry. apply skipn_all2. cbn [length]. unfold flats. rewrite map_length, bits_length. lia.
    + destruct (Hw2 ltac:(lia)) as [Eb _]. rewrite Eb.
      assert (Etb : N.testbit (stack_word b i) ct = N.testbit (nthN (bst b) i) (ct - 1)).
      { unfold stack_word. rewrite N.lor_spec.
        unfold shl64. cbn [N.ltb N.compare Pos.compare Pos.compare_cont]. rewrite u64_bit.
        replace (ct <? 64)%N with true by lia. rewrite andb_true_r.
        rewrite N.shiftl_spec_high' by lia.
        replace (N.testbit (b2n (has (bb b) i)) ct) with false; [apply orb_false_r|].
        destruct (has (bb b) i); cbn [b2n]; [|now rewrite N.bits_0]. symmetry. apply N.bits_above_log2. cbn. lia. }
      rewrite Etb.
      remember (N.to_nat ct) as c eqn:Ec'. destruct c as [|c]; [lia|]. cbn [skipn].
      unfold flats. rewrite skipn_map.
      rewrite (skipn_S_nth _ c false) by (rewrite bits_length; lia). rewrite nth_bits by lia. cbn [map].
      f_equal.
      * f_equal. f_equal. f_equal. lia.
      * f_equal. unfold shr64. replace ct with (N.of_nat (S c)) by lia. rewrite shiftr_bits. f_equal. f_equal. lia.
  - constructor; rewrite ?Eh, ?Es, ?Ec; try lia; try reflexivity; try tauto.
    + split.
      * intros E. apply Hw1. lia.
      * intros [A B]. destruct (N.eq_dec h ct); [lia|]. destruct (Hw2 n) as [E1 E2]. rewrite E1 in B. rewrite E2, B in A. discriminate.
    + destruct (N.eq_dec h ct) as [E|E].
      * destruct (Hw1 E) as [A B]. now rewrite A.
      * destruct (Hw2 E) as [A B]. rewrite A, B. destruct (N.testbit _ _); reflexivity.
  - unfold lifted, same_elsewhere. cbn [bw bb bs bc bhs bst]. rewrite !updN_length.
    split; [reflexivity|split; [reflexivity|]]. intros j Hj Hn.
    rewrite !nthN_updN by lia. replace (N.to_nat j =? N.to_nat i)%nat with false by lia.
    fold h. fold (stack_word b i).
    destruct (h =? ct)%N; [|destruct (N.land (stack_word b i) (bit ct) =? 0)%N]; cbn [fst snd];
      rewrite ?has_setb_other, ?has_clrb_other by assumption; repeat split; reflexivity.
Qed.
Print Assumptions lifted_sq.
