(* C15 (first layer): preferMove is a strict total order on move values that differ in (Y, X, Type) -
   the tie-break that makes the canonical representative of an orbit unique. *)
From Coq Require Import NArith ZArith List Bool Lia ZifyBool ZifyN.
Require Import Board Move GameOver Tps Symmetry.
Import ListNotations.
Open Scope Z_scope.

Definition key (m : rmove) : Z * Z * N := (mY m, mX m, mT m).

Lemma prefer_irrefl m : prefer_move m m = false.
Proof. unfold prefer_move. rewrite !Z.eqb_refl. cbn. lia. Qed.

Lemma prefer_asym l r : prefer_move l r = true -> prefer_move r l = false.
Proof.
  unfold prefer_move.
  destruct (Z.eqb_spec (mY l) (mY r)) as [Ey|Ny]; destruct (Z.eqb_spec (mY r) (mY l)); try lia; cbn [negb];
  destruct (Z.eqb_spec (mX l) (mX r)) as [Ex|Nx]; destruct (Z.eqb_spec (mX r) (mX l)); try lia; cbn [negb]; lia.
Qed.

Lemma prefer_trans a b c : prefer_move a b = true -> prefer_move b c = true -> prefer_move a c = true.
Proof.
  unfold prefer_move.
  destruct (Z.eqb_spec (mY a) (mY b)); destruct (Z.eqb_spec (mY b) (mY c)); destruct (Z.eqb_spec (mY a) (mY c)); try lia; cbn [negb];
  destruct (Z.eqb_spec (mX a) (mX b)); destruct (Z.eqb_spec (mX b) (mX c)); destruct (Z.eqb_spec (mX a) (mX c)); try lia; cbn [negb]; lia.
Qed.

Lemma prefer_total l r : key l <> key r -> prefer_move l r = true \/ prefer_move r l = true.
Proof.
  unfold key, prefer_move. intros H.
  destruct (Z.eqb_spec (mY l) (mY r)) as [Ey|Ny]; destruct (Z.eqb_spec (mY r) (mY l)); try lia; cbn [negb]; [|lia].
  destruct (Z.eqb_spec (mX l) (mX r)) as [Ex|Nx]; destruct (Z.eqb_spec (mX r) (mX l)); try lia; cbn [negb]; [|lia].
  assert (mT l <> mT r) by congruence. lia.
Qed.

Theorem prefer_move_strict_total :
  (forall m, prefer_move m m = false) /\
  (forall l r, prefer_move l r = true -> prefer_move r l = false) /\
  (forall a b c, prefer_move a b = true -> prefer_move b c = true -> prefer_move a c = true) /\
  (forall l r, key l <> key r -> prefer_move l r = true \/ prefer_move r l = true).
Proof. repeat split; [apply prefer_irrefl|apply prefer_asym|apply prefer_trans|apply prefer_total]. Qed.

(* compose applies its LAST element first, as symmetry.compose does *)
Lemma compose_cons s ss x y : compose (s :: ss) x y = let '(a, b) := compose ss x y in s a b.
Proof.
  unfold compose. cbn [rev]. rewrite fold_left_app. cbn [fold_left].
  destruct (fold_left _ (rev ss) (x, y)) as [a b]. reflexivity.
Qed.
