(* C14/C15, layer 5: the images compose like the group table of Sym.v:
     img a (img b p) = img (comp a b) p      tm a (tm b m) = tm (comp a b) m
   and the rules keep the shape of a board. *)
From Coq Require Import NArith ZArith Arith List Bool Lia ZifyN ZifyBool ZifyNat.
Require Import Rules Sym SymRules1 SymRules2.
Import ListNotations.
Close Scope Z_scope.

Lemma comp_lt a b : a < 8 -> b < 8 -> comp a b < 8.
Proof. intros Ha Hb. do 8 (destruct a as [|a]; [do 8 (destruct b as [|b]; [cbn; lia|]); lia|]). lia. Qed.

Lemma inv_comp a b : a < 8 -> b < 8 -> inv (comp a b) = comp (inv b) (inv a).
Proof. intros Ha Hb. do 8 (destruct a as [|a]; [do 8 (destruct b as [|b]; [reflexivity|]); lia|]). lia. Qed.

Lemma comp_0_l a : a < 8 -> comp 0 a = a.
Proof. intros Ha. do 8 (destruct a as [|a]; [reflexivity|]). lia. Qed.

Lemma symb_comp s a b xy : a < 8 -> b < 8 -> symb s a (symb s b xy) = symb s (comp a b) xy.
Proof. intros. now apply comp_ok. Qed.

Lemma src_comp a b s i : a < 8 -> b < 8 -> size_ok s -> i < s * s -> src b s (src a s i) = src (comp a b) s i.
Proof.
  intros Ha Hb Hs Hi. unfold src at 1. unfold src at 1.
  assert (Ho : onb s (symb s (inv a) (cell s i))) by (apply symb_onb; [now apply inv_lt|now apply cell_onb]).
  rewrite (cell_zidx s _ Hs Ho).
  rewrite symb_comp by now apply inv_lt. unfold src. now rewrite inv_comp.
Qed.

Lemma permL_comp {A} a b s (d : A) l : a < 8 -> b < 8 -> size_ok s ->
  permL a s d (permL b s d l) = permL (comp a b) s d l.
Proof.
  intros Ha Hb Hs. apply (nth_ext _ _ d d); [now rewrite !permL_length|].
  intros i Hi. rewrite permL_length in Hi.
  rewrite !nth_permL_src by (try apply src_lt; assumption).
  now rewrite src_comp.
Qed.

Theorem img_comp a b p : a < 8 -> b < 8 -> size_ok (n p) -> img a (img b p) = img (comp a b) p.
Proof.
  intros Ha Hb Hs. unfold img. cbn [n sq wstones wcaps bstones bcaps ply black_wins_ties].
  now rewrite permL_comp.
Qed.

Lemma ttype_lt5 k t : (ttype k t <? 5)%N = (t <? 5)%N.
Proof.
  destruct t as [|q]; [reflexivity|]. do 4 (try destruct q as [q|q|]); try reflexivity;
  cbn [ttype]; destruct k as [|[|[|[|[|[|[|k]]]]]]]; reflexivity.
Qed.

Lemma ttype_comp a b t : a < 8 -> b < 8 -> ttype a (ttype b t) = ttype (comp a b) t.
Proof.
  intros Ha Hb.
  destruct t as [|q]; [reflexivity|]. do 4 (try destruct q as [q|q|]); try reflexivity;
  (do 8 (destruct a as [|a]; [do 8 (destruct b as [|b]; [reflexivity|]); lia|])); lia.
Qed.

Theorem tm_comp a b s m : a < 8 -> b < 8 -> tm a s (tm b s m) = tm (comp a b) s m.
Proof.
  intros Ha Hb. unfold tm. cbn [mx my mtype mslides].
  rewrite <- surjective_pairing, comp_ok, ttype_comp, ttype_lt5 by assumption.
  destruct (mtype m <? 5)%N; reflexivity.
Qed.

Lemma tm_0_tm k s m : k < 8 -> tm 0 s (tm k s m) = tm k s m.
Proof. intros Hk. rewrite tm_comp by lia. now rewrite comp_0_l. Qed.

(* ---------- the rules keep the shape ---------- *)
Lemma deal_length p d : forall drops board x y carry b', deal p board d x y carry drops = Some b' -> length b' = length board.
Proof.
  induction drops as [|c rest IH]; intros board x y carry b' H.
  - cbn [deal] in H. destruct carry; [|discriminate]. now inversion H.
  - rewrite deal_cons in H. cbv zeta in H.
    destruct (negb _); [discriminate|]. destruct (land_on _ _ _); [|discriminate].
    apply IH in H. now rewrite upd_length in H.
Qed.

Lemma rules_move_shape b m b' : rules_move b m = Some b' -> n b' = n b /\ length (sq b') = length (sq b).
Proof.
  unfold rules_move. destruct (decode m) as [[kd x y|d x y drops]|]; [| |discriminate].
  - unfold place. destruct (negb _); [discriminate|]. destruct (stack_at b x y); [|discriminate].
    destruct (_ && _); [discriminate|].
    destruct kd; destruct (if (ply b <? 2)%Z then flip (to_move b) else to_move b);
      match goal with |- context [N.eqb ?r 0] => destruct (N.eqb r 0) end; try discriminate;
      intros H; inversion H; cbn [n sq]; unfold set_stack; now rewrite upd_length.
  - unfold slide. destruct (ply b <? 2)%Z; [discriminate|]. destruct (negb _); [discriminate|].
    destruct (existsb _ _); [discriminate|]. destruct (_ || _ || _); [discriminate|].
    destruct (stack_at b x y) as [|[c kd] st]; [discriminate|]. destruct (negb _); [discriminate|].
    destruct (deal _ _ _ _ _ _ _) as [bd|] eqn:E; [|discriminate].
    intros H; inversion H; cbn [n sq]. apply deal_length in E. unfold set_stack in E. now rewrite upd_length in E.
Qed.

Lemma rules_move_well_shaped b m b' : well_shaped b -> rules_move b m = Some b' -> well_shaped b'.
Proof. intros [Hs Hl] H. apply rules_move_shape in H. destruct H as [E1 E2]. split; rewrite E1; [exact Hs|]. now rewrite E2. Qed.

(* a placement's Slides word is irrelevant to the rules: the move with the word zeroed (tm 0) behaves the same *)
Lemma rules_move_tm0 b m : well_shaped b -> rules_move b (tm 0 (Z.of_nat (n b)) m) = rules_move b m.
Proof.
  intros Hw. assert (H := rules_equivariant 0 b m ltac:(lia) Hw). rewrite (img_id b Hw) in H. rewrite H.
  destruct (rules_move b m) as [b'|] eqn:E; [|reflexivity]. cbn [option_map]. f_equal. apply img_id.
  now apply (rules_move_well_shaped b m).
Qed.
