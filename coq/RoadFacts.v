From Coq Require Import NArith ZArith List Bool Lia ZifyN ZifyBool ZifyNat.
Require Import Board Flood Masks LowBit Conn Move GameOver Groups1 Groups2 Groups3 Groups4 Rules.
Import ListNotations.
Ltac Zify.zify_post_hook ::= Z.div_mod_to_equations.

Section R.
Variable s : N.
Hypothesis Hs : (3 <= s <= 8)%N.
Let c := precompute s.
Variable B : N.
Hypothesis HB : forall i, N.testbit B i = true -> (i < s * s)%N.
Notation conn := (conn s B).
Notation opp := (opp s).

Ltac sizes := assert (s = 3 \/ s = 4 \/ s = 5 \/ s = 6 \/ s = 7 \/ s = 8)%N as Hcase by lia;
              destruct Hcase as [->|[->|[->|[->|[->| ->]]]]].

Definition coord (i : N) : Z * Z := (Z.of_N (i mod s), Z.of_N (i / s)).
Definition toidx (xy : Z * Z) : N := Z.to_N (fst xy + snd xy * Z.of_N s).
Definition onb (xy : Z * Z) : Prop := (0 <= fst xy < Z.of_N s /\ 0 <= snd xy < Z.of_N s)%Z.

Lemma toidx_coord i : (i < s * s)%N -> toidx (coord i) = i /\ onb (coord i).
Proof. intros H. unfold toidx, coord, onb; cbn [fst snd]. clear c HB. sizes; lia. Qed.

Lemma coord_toidx xy : onb xy -> coord (toidx xy) = xy /\ (toidx xy < s * s)%N.
Proof. destruct xy as [x y]. unfold toidx, coord, onb; cbn [fst snd]. intros H. clear c HB. sizes; split; try f_equal; lia. Qed.

(* Grow's neighbourhood is orthogonal adjacency of coordinates *)
Lemma nb_adjacent i j : (i < s * s)%N -> (j < s * s)%N ->
  (nb c j i <-> adjacent (coord j) (coord i)).
Proof.
  intros Hi Hj. unfold nb, adjacent, coord; cbn [fst snd].
  assert (ER := maskR s Hs i Hi). assert (EL := maskL s Hs i Hi). fold c in ER, EL.
  assert (ES := size_c s Hs). fold c in ES. rewrite ER, EL, ES. clear c HB ER EL ES. sizes; lia.
Qed.

(* a coordinate path through B *)
Definition in_B (xy : Z * Z) : Prop := onb xy /\ N.testbit B (toidx xy) = true.

Lemma conn_path a i : conn a i ->
  exists path, hd (0, 0)%Z path = coord a /\ last path (0, 0)%Z = coord i /\ path <> [] /\ chain path /\ Forall in_B path.
Proof.
  intros H. unfold Conn.conn in H. fold c in H. induction H as [i Hi Hw|j i Hr (path & Hhd & Hlast & Hne & Hch & Hall) Hn Hw].
  - rewrite testbit_bit1 in Hi. apply N.eqb_eq in Hi. subst i.
    exists [coord a]. repeat split; try discriminate; auto.
    constructor; [|constructor]. destruct (toidx_coord a (HB a Hw)) as [E O]. split; [exact O|now rewrite E].
  - assert (HjB := reach_in_B s B _ _ Hr). fold c in HjB.
    exists (path ++ [coord i]). repeat split.
    + destruct path; [congruence|exact Hhd].
    + apply last_last.
    + intros E. apply app_eq_nil in E as [_ E]. discriminate.
    + (* chain extends *)
      assert (Hadj : adjacent (coord j) (coord i)) by (apply nb_adjacent; auto).
      clear -Hch Hlast Hne Hadj. induction path as [|p [|q path] IH]; [congruence| |].
      * cbn in *. subst p. auto.
      * cbn [app chain] in *. destruct Hch as [H1 H2]. split; [exact H1|]. apply IH; auto. discriminate.
    + apply Forall_app. split; [exact Hall|]. constructor; [|constructor].
      destruct (toidx_coord i (HB i Hw)) as [E O]. split; [exact O|now rewrite E].
Qed.

Lemma path_conn : forall path, path <> [] -> chain path -> Forall in_B path ->
  conn (toidx (hd (0, 0)%Z path)) (toidx (last path (0, 0)%Z)).
Proof.
  induction path as [|p [|q path] IH]; intros Hne Hch Hall; [congruence| |].
  - cbn. inversion Hall as [|? ? [Ho Hb] _]; subst. now apply conn_refl.
  - inversion Hall as [|? ? [Ho Hb] Hall']; subst. cbn [chain] in Hch. destruct Hch as [Hadj Hch].
    specialize (IH ltac:(discriminate) Hch Hall').
    change (last (p :: q :: path) (0, 0)%Z) with (last (q :: path) (0, 0)%Z). cbn [hd] in *.
    eapply conn_trans; [|exact IH].
    inversion Hall' as [|? ? [Hoq Hbq] _]; subst.
    destruct (coord_toidx p Ho) as [Ep Lp]. destruct (coord_toidx q Hoq) as [Eq Lq].
    eapply reach_step; [apply conn_refl; exact Hb| |exact Hbq].
    apply nb_adjacent; auto. now rewrite Ep, Eq.
Qed.
End R.
Print Assumptions path_conn.
