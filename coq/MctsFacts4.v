(* C04, Monte-Carlo player, part 4: GetMove does not panic.
   Generic in an invariant G of positions that (a) implies the shape facts under which MovePreallocated never panics,
   (b) is kept by every successful move, (c) gives a live position a legal move of AllMoves, (d) makes the evaluator total.
   MctsFacts5.v instantiates G (pos_ok, at most 64 pieces, opening supply); (d) stays a hypothesis there. *)
From Coq Require Import NArith ZArith List Bool Lia.
Require Import Board Move GameOver Refine RefinePlace RefinePlace2 LegalMoveLive PtnFileSafe LowBit Eval EvalInst
               Mcts MctsFacts MctsFacts2 MctsFacts3.
Import ListNotations.

(* ---------- lists ---------- *)
Lemma nth_error_set_nth {A} (l : list A) : forall k a, (k < length l)%nat -> nth_error (set_nth l k a) k = Some a.
Proof. induction l as [|h r IH]; intros [|k] a H; cbn [length] in H; try lia; cbn [set_nth nth_error]; [reflexivity|apply IH; lia]. Qed.

Lemma idx_some {A} (l : list A) r a : idx l r = Ok a -> nth_error l (N.to_nat r) = Some a.
Proof. unfold idx. destruct (r <? N.of_nat (length l))%N; [|discriminate]. destruct (nth_error l (N.to_nat r)); congruence. Qed.

Lemma upd_move_new : forall t j h y, nth_error t j = Some y -> In h (upd_move t j h).
Proof. induction t as [|a t IH]; intros [|j] h y H; cbn [nth_error] in H; try discriminate; cbn [upd_move]; [left; reflexivity|right; eapply IH; exact H]. Qed.
Lemma upd_move_keeps : forall t j h x y, In x t -> nth_error t j = Some y -> x <> y -> In x (upd_move t j h).
Proof.
  induction t as [|a t IH]; intros [|j] h x y Hin H Hne; cbn [nth_error] in H; try discriminate; cbn [upd_move].
  - injection H as ->. destruct Hin as [->|Hin]; [contradiction|right; exact Hin].
  - destruct Hin as [->|Hin]; [left; reflexivity|right; eapply IH; eassumption].
Qed.
Lemma swap_remove_keeps moves r x y : In x moves -> nth_error moves r = Some y -> x <> y -> In x (swap_remove moves r).
Proof.
  destruct moves as [|h t]; [contradiction|]. intros Hin H Hne. destruct r as [|j]; cbn [swap_remove nth_error] in *.
  - injection H as ->. destruct Hin as [->|Hin]; [contradiction|exact Hin].
  - destruct Hin as [<-|Hin]; [eapply upd_move_new; exact H|eapply upd_move_keeps; eassumption].
Qed.

(* ---------- the lowest bit ---------- *)
Lemma lowest_bit_pow2 x : x <> 0%N -> N.lxor x (N.land x (x - 1)) = (2 ^ ctz x)%N.
Proof.
  intros Hx. apply N.bits_inj. intros i. rewrite N.lxor_spec, (clear_lowest x i Hx), N.pow2_bits_eqb.
  destruct (N.eqb_spec i (ctz x)) as [->|Hne].
  - rewrite (ctz_set x Hx), N.eqb_refl. reflexivity.
  - replace (ctz x =? i)%N with false by (symmetry; apply N.eqb_neq; congruence). destruct (N.testbit x i); reflexivity.
Qed.
Lemma pow2_singular k : ((2 ^ k =? 0) || negb (N.land (2 ^ k) (2 ^ k - 1) =? 0))%N = false.
Proof.
  assert (H : (2 ^ k)%N <> 0%N) by (apply N.pow_nonzero; discriminate).
  replace (2 ^ k =? 0)%N with false by (symmetry; apply N.eqb_neq; exact H). cbn [orb].
  replace (2 ^ k - 1)%N with (N.ones k) by (rewrite N.ones_equiv; lia).
  rewrite N.land_ones, N.mod_same by exact H. reflexivity.
Qed.

Section NoPanic.
Variable G : position -> Prop.
Hypothesis G_safe : forall p, G p -> safe p.
Hypothesis G_step : forall p m q, G p -> mv p m = Ok q -> G q.
Hypothesis G_live : forall p c, G p -> game_over p = Some (false, c) -> exists m q, In m (all_moves p) /\ mv p m = Ok q.
Hypothesis G_eval : forall p, G p -> eval_default p <> Panic.

Lemma mv_no_panic p m : G p -> mv p m <> Panic.
Proof. intros Hg E. assert (H := move_prealloc_safe hsq p m (G_safe p Hg)). unfold mv in E. rewrite E in H. exact H. Qed.

(* ---------- policies ---------- *)
Lemma uniform_loop_spec p : G p -> forall fuel moves rs,
  (exists m q, In m moves /\ mv p m = Ok q) ->
  match uniform_loop fuel p moves rs with
  | Ok (next, _) => exists m, mv p m = Ok next
  | Err => True
  | Panic => False
  end.
Proof.
  intros Hg. induction fuel as [|f IH]; intros moves rs (m0 & q0 & Hin & Hm0); cbn [uniform_loop]; [exact I|].
  assert (Hl : (0 < length moves)%nat) by (destruct moves; [contradiction|cbn; lia]).
  assert (Sp := int31n_spec (Z.of_nat (length moves)) rs ltac:(lia)).
  destruct (int31n (Z.of_nat (length moves)) rs) as [[r rs1]| |]; cbn [bind]; [|exact I|exact Sp].
  rewrite (RefinePlace2.idx_ok moves r zero_move) by lia. cbn [bind].
  set (m := nth (N.to_nat r) moves zero_move).
  assert (Hnth : nth_error moves (N.to_nat r) = Some m) by (apply nth_error_nth'; lia).
  destruct (mv p m) as [next| |] eqn:E.
  - exists m. exact E.
  - apply IH. exists m0, q0. split; [|exact Hm0]. eapply swap_remove_keeps; [exact Hin|exact Hnth|]. intros ->. congruence.
  - exact (mv_no_panic p m Hg E).
Qed.

Lemma uniform_select_spec p c rs : G p -> game_over p = Some (false, c) ->
  match uniform_select p rs with Ok (next, _) => exists m, mv p m = Ok next | Err => True | Panic => False end.
Proof. intros Hg Hl. unfold uniform_select. apply uniform_loop_spec; [exact Hg|]. exact (G_live p c Hg Hl). Qed.

Lemma place_win_move_no_panic p : G p -> place_win_move p <> Panic.
Proof.
  intros Hg. unfold place_win_move. destruct (analyze p) as [[wg bg]|]; [|discriminate].
  assert (Hs := sf_size p (G_safe p Hg)).
  destruct (to_move_white p);
    match goal with |- context [negb (?M =? 0)%N] => destruct (N.eqb_spec M 0) as [Z0|NZ]; cbn [negb]; [discriminate|];
      rewrite (lowest_bit_pow2 M NZ); unfold bit_coords; rewrite pow2_singular;
      change (Size (precompute (size p))) with (size p);
      replace (size p =? 0)%N with false by (symmetry; apply N.eqb_neq; lia); cbn [bind]; discriminate end.
Qed.

Lemma placewin_select_spec p c rs : G p -> game_over p = Some (false, c) ->
  match placewin_select p rs with Ok (next, _) => exists m, mv p m = Ok next | Err => True | Panic => False end.
Proof.
  intros Hg Hl. unfold placewin_select. assert (Hp := place_win_move_no_panic p Hg).
  destruct (place_win_move p) as [m| |]; cbn [bind]; [|exact I|congruence].
  destruct (negb (mT m =? 0)%N); [|apply (uniform_select_spec p c rs Hg Hl)].
  destruct (mv p m) as [out| |] eqn:E; [exists m; exact E|apply (uniform_select_spec p c rs Hg Hl)|exact (mv_no_panic p m Hg E)].
Qed.

Lemma select_policy_spec cfg p c rs : G p -> game_over p = Some (false, c) ->
  match select_policy cfg p rs with Ok (next, _) => G next | Err => True | Panic => False end.
Proof.
  intros Hg Hl. unfold select_policy.
  destruct (place_win cfg); [assert (H := placewin_select_spec p c rs Hg Hl)|assert (H := uniform_select_spec p c rs Hg Hl)];
    match type of H with match ?X with _ => _ end => destruct X as [[next r]| |] end; try exact H;
    destruct H as [m Hm]; exact (G_step p m next Hg Hm).
Qed.

(* ---------- rollout ---------- *)
Lemma rollout_loop_no_panic cfg w : forall n p rs, G p -> rollout_loop cfg n w p rs <> Panic.
Proof.
  induction n as [|n IH]; intros p rs Hg; cbn [rollout_loop].
  - assert (He := G_eval p Hg). destruct (eval_default p); cbn [bind]; congruence.
  - destruct (game_over p) as [[[|] c]|] eqn:Eg; try discriminate.
    assert (H := select_policy_spec cfg p c rs Hg Eg).
    destruct (select_policy cfg p rs) as [[next rs1]| |]; cbn [bind]; [apply IH; exact H|discriminate|contradiction].
Qed.

(* ---------- trees whose positions satisfy G ---------- *)
Inductive tree_G : tree -> Prop :=
| TG p m s v pr chs : G p -> Forall tree_G chs -> tree_G (T p m s v pr chs).

Lemma tree_G_pos t : tree_G t -> G (t_pos t).
Proof. intros H. inversion H; subst. assumption. Qed.
Lemma tree_G_children t : tree_G t -> Forall tree_G (t_children t).
Proof. intros H. inversion H; subst. assumption. Qed.

Lemma node_at_G : forall path t node, tree_G t -> node_at path t = Some node -> tree_G node.
Proof.
  induction path as [|k rest IH]; intros t node Ht H; cbn [node_at] in H.
  - injection H as <-. exact Ht.
  - destruct (nth_error (t_children t) k) as [c|] eqn:E; [|discriminate].
    apply (IH c node); [|exact H]. eapply Forall_forall; [apply tree_G_children; exact Ht|eapply nth_error_In; exact E].
Qed.

Lemma populate_moves_G p : G p -> forall ms,
  match populate_moves p ms with Ok chs => Forall tree_G chs | Err => True | Panic => False end.
Proof.
  intros Hg. induction ms as [|m ms IH]; cbn [populate_moves]; [constructor|].
  destruct (mv p m) as [child| |] eqn:E; [|exact IH|exact (mv_no_panic p m Hg E)].
  assert (Hp : proven_of child <> Panic) by (unfold proven_of; destruct (game_over child) as [[o w]|]; discriminate).
  destruct (proven_of child) as [pr| |]; cbn [bind]; [|exact I|congruence].
  destruct (populate_moves p ms) as [tl| |]; cbn [bind]; [|exact I|exact IH].
  constructor; [|exact IH]. apply TG; [exact (G_step p m child Hg E)|constructor].
Qed.

Lemma populate_at_G : forall path t node chs, tree_G t -> node_at path t = Some node -> Forall tree_G chs ->
  match populate_at path t chs with
  | Ok t' => tree_G t' /\ exists node', node_at path t' = Some node'
  | Err => True
  | Panic => False
  end.
Proof.
  induction path as [|k rest IH]; intros t node chs Ht Hn Hc; cbn [populate_at node_at] in *.
  - split; [apply TG; [exact (tree_G_pos t Ht)|exact Hc]|eexists; reflexivity].
  - destruct (nth_error (t_children t) k) as [c|] eqn:E; [|discriminate].
    assert (Hall := tree_G_children t Ht).
    assert (Hck : tree_G c) by (eapply Forall_forall; [exact Hall|eapply nth_error_In; exact E]).
    specialize (IH c node chs Hck Hn Hc).
    destruct (populate_at rest c chs) as [c'| |]; cbn [bind]; [|exact I|exact IH].
    destruct IH as [Hc' [node' Hn']]. split.
    + apply TG; [exact (tree_G_pos t Ht)|apply Forall_set_nth; assumption].
    + exists node'. cbn [t_children]. rewrite nth_error_set_nth; [exact Hn'|]. apply nth_error_Some. congruence.
Qed.

Lemma update_step_G t value : tree_G t -> tree_G (fst (fst (update_step t value))).
Proof.
  intros H. destruct t as [p m s v pr chs]. inversion H; subst. unfold update_step.
  destruct (negb (pr =? 0)%Z); [destruct (pr <? 0)%Z|]; cbn [fst]; apply TG; assumption.
Qed.

Lemma update_path_G : forall path t node value, tree_G t -> node_at path t = Some node ->
  match update_path path t value with
  | Ok (t', _, _) => tree_G t'
  | Err => True
  | Panic => False
  end.
Proof.
  induction path as [|k rest IH]; intros t node value Ht Hn; cbn [update_path node_at] in *.
  - assert (H := update_step_G t value Ht). destruct (update_step t value) as [[t' vo] ac]. exact H.
  - destruct t as [p m s v pr chs]. cbn [t_children] in Hn.
    destruct (nth_error chs k) as [c|] eqn:E; [|discriminate].
    assert (Hall : Forall tree_G chs) by (inversion Ht; assumption).
    assert (Hck : tree_G c) by (eapply Forall_forall; [exact Hall|eapply nth_error_In; exact E]).
    specialize (IH c node value Hck Hn).
    destruct (update_path rest c value) as [[[c' vo] ac]| |]; cbn [bind]; [|exact I|exact IH].
    match goal with |- context [update_step ?T0 ?V] =>
      assert (H := update_step_G T0 V); destruct (update_step T0 V) as [[t' vo'] ac'] end.
    apply H. apply TG; [inversion Ht; assumption|apply Forall_set_nth; assumption].
Qed.

(* ---------- one pass, the loop, GetMove ---------- *)
Section Scores.
Variable F : Type.
Variables (f_neg_inf f_m100 f_p100 f_p10 : F).
Variable f_score : Z -> Z -> Z -> F.
Variables (f_gt f_eq : F -> F -> bool).
Local Notation descend := (Mcts.descend F f_neg_inf f_m100 f_p100 f_p10 f_score f_gt f_eq).
Local Notation iter_step := (Mcts.iter_step F f_neg_inf f_m100 f_p100 f_p10 f_score f_gt f_eq).
Local Notation iterate := (Mcts.iterate F f_neg_inf f_m100 f_p100 f_p10 f_score f_gt f_eq).
Local Notation get_move := (Mcts.get_move F f_neg_inf f_m100 f_p100 f_p10 f_score f_gt f_eq).

Lemma iter_step_no_panic cfg t rs : tree_G t ->
  match iter_step cfg t rs with Ok (t', _, _) => tree_G t' | Err => True | Panic => False end.
Proof.
  intros Ht. unfold Mcts.iter_step.
  assert (D := descend_spec F f_neg_inf f_m100 f_p100 f_p10 f_score f_gt f_eq t rs).
  destruct (descend t rs) as [[path rs1]| |]; cbn [bind]; [|exact I|exact D].
  destruct D as [[node Hn] _]. rewrite Hn.
  assert (Hgn := node_at_G path t node Ht Hn).
  assert (P := populate_moves_G (t_pos node) (tree_G_pos node Hgn) (all_moves (t_pos node))). fold (populate (t_pos node)) in P.
  destruct (populate (t_pos node)) as [chs| |]; cbn [bind]; [|exact I|exact P].
  assert (Q := populate_at_G path t node chs Ht Hn P).
  destruct (populate_at path t chs) as [t1| |]; cbn [bind]; [|exact I|exact Q].
  destruct Q as [Ht1 [node1 Hn1]].
  destruct (negb (t_proven t1 =? 0)%Z); [exact Ht1|].
  assert (R : (if (t_proven node =? 0)%Z then rollout cfg (t_pos node) rs1 else Ok (0%Z, rs1)) <> Panic).
  { destruct (t_proven node =? 0)%Z; [|discriminate]. apply rollout_loop_no_panic. exact (tree_G_pos node Hgn). }
  destruct (if (t_proven node =? 0)%Z then rollout cfg (t_pos node) rs1 else Ok (0%Z, rs1)) as [[val rs2]| |];
    cbn [bind]; [|exact I|congruence].
  assert (U := update_path_G path t1 node1 val Ht1 Hn1).
  destruct (update_path path t1 val) as [[[t2 vo] ac]| |]; cbn [bind]; [exact U|exact I|exact U].
Qed.

Lemma iterate_no_panic cfg : forall fuel t rs, tree_G t ->
  match iterate cfg fuel t rs with Ok (t', _) => tree_G t' | Err => True | Panic => False end.
Proof.
  induction fuel as [|f IH]; intros t rs Ht; cbn [Mcts.iterate]; [exact Ht|].
  assert (H := iter_step_no_panic cfg t rs Ht).
  destruct (iter_step cfg t rs) as [[[t1 brk] rs1]| |]; cbn [bind]; [|exact I|exact H].
  destruct brk; [exact H|apply IH; exact H].
Qed.

Lemma best_loop_no_panic : forall l best i rs, (0 <= i)%Z -> best_loop l best i rs <> Panic.
Proof.
  induction l as [|c rest IH]; intros best i rs Hi; cbn [best_loop]; [discriminate|].
  destruct (t_sims best <? t_sims c)%Z; [apply IH; lia|].
  destruct (t_sims c =? t_sims best)%Z; [|apply IH; exact Hi].
  assert (Sp := intn_spec (i + 1) rs ltac:(lia)).
  destruct (intn (i + 1) rs) as [[r rs1]| |]; cbn [bind]; [|discriminate|contradiction].
  destruct (r =? 0)%N; apply IH; lia.
Qed.

Lemma final_choice_no_panic t perm rs : t_children t <> [] -> final_choice t perm rs <> Panic.
Proof.
  intros Hne. unfold final_choice. destruct (t_children t) as [|c0 chs]; [contradiction|].
  destruct (apply_sort (c0 :: chs) perm) as [sorted| |] eqn:Es; cbn [bind]; try discriminate.
  - assert (B := best_loop_no_panic sorted c0 0%Z rs ltac:(lia)).
    destruct (best_loop sorted c0 0 rs) as [[best rs1]| |]; cbn [bind]; [|discriminate|congruence].
    destruct (negb (t_proven t =? 0)%Z); [destruct sorted; discriminate|discriminate].
  - unfold apply_sort in Es. destruct (_ && _); discriminate.
Qed.

(* GetMove on a live position of the invariant, with at least one pass of the loop, outside the corner shortcut: no panic,
   for every random stream, scoring, configuration, number of passes and sort permutation. *)
Theorem getmove_search_no_panic cfg fuel perm p c rs :
  G p -> game_over p = Some (false, c) -> force_corners cfg && (move p <? 2)%Z = false ->
  get_move cfg (S fuel) perm p rs <> Panic.
Proof.
  intros Hg Hl Hc. unfold Mcts.get_move. rewrite Hc.
  assert (Ht0 : tree_G (root_of p)) by (apply TG; [exact Hg|constructor]).
  assert (H := iterate_no_panic cfg (S fuel) (root_of p) rs Ht0).
  destruct (iterate cfg (S fuel) (root_of p) rs) as [[t rs1]| |] eqn:E; cbn [bind]; [|discriminate|contradiction].
  apply final_choice_no_panic.
  eapply (iterate_root_has_child_gen F f_neg_inf f_m100 f_p100 f_p10 f_score f_gt f_eq); [|exact E].
  exact (G_live p c Hg Hl).
Qed.
End Scores.
End NoPanic.
Print Assumptions getmove_search_no_panic.
Check getmove_search_no_panic.
