(* C14/C01/C08/C10, custom configurations, part 1: tak.FromSquares under an ARBITRARY tak.Config (TpsCfg.from_squares_cfg).
   fsc_set: FromSquares(cfg) is FromSquares(Config{Size}) with the four reserves and the tie-break flag replaced: the loop
            treats the board fields and the reserves independently.  The reserves are byte(cfg count) decremented once per
            piece (dec8: modulo 256).
   from_squares_cfg_wf: for every board that fits the representation the result satisfies the C01 invariant pos_ok, for ANY
            piece counts and flag, shows that board, and abstracts to `cfg_apos` (reserves = configuration - pieces on the
            board) as soon as no colour/kind has more pieces on the board than the configuration hands out (counts_fit_cfg). *)
From Coq Require Import NArith ZArith Arith List Bool Lia ZifyN ZifyBool ZifyNat.
Require Import Board Stack Rules Move Refine Slide2 MoveRefines HashInv GameOver Preserve1.
Require Import Generated.Consts.
Require Import PtnMove Playtak Tps TpsCfg TpsFacts TpsFacts2 TpsFacts3 TpsFacts4 TpsFacts5 TpsFacts6 TpsFacts8 TpsFacts9 Import1.
Import ListNotations.
Local Open Scope N_scope.

(* ---- a position with other reserves and another tie-break flag ---- *)
Definition set_cfg (q : position) (bwt : bool) (r : N * N * N * N) : position :=
  {| size := size q; Move.black_wins_ties := bwt;
     whiteStones := fst (fst (fst r)); whiteCaps := snd (fst (fst r)); blackStones := snd (fst r); blackCaps := snd r;
     Move.move := Move.move q; White := White q; Move.Black := Move.Black q; Standing := Standing q; Caps := Caps q;
     Height := Height q; Stacks := Stacks q; hash := hash q |}.

Lemma set_cfg_bview q b r : bview (set_cfg q b r) = bview q.
Proof. reflexivity. Qed.

Lemma set_cfg_pos_ok q b r : pos_ok q ->
  fst (fst (fst r)) < 256 -> snd (fst (fst r)) < 256 -> snd (fst r) < 256 -> snd r < 256 -> pos_ok (set_cfg q b r).
Proof.
  intros [Hs Hb _ He] R1 R2 R3 R4. constructor; [exact Hs|exact Hb| |exact He].
  unfold reserves_ok. cbn [set_cfg whiteStones whiteCaps blackStones blackCaps]. auto.
Qed.

Lemma set_cfg_abs_sq q b r : sq (abs (set_cfg q b r)) = sq (abs q).
Proof. reflexivity. Qed.

Lemma set_cfg_hash_of q b r : hash_of (set_cfg q b r) = hash_of q.
Proof. unfold hash_of, to_move_white. cbn [set_cfg hash White Move.Black Standing Caps Move.move]. reflexivity. Qed.

Lemma set_cfg_same q : set_cfg q (Move.black_wins_ties q) (whiteStones q, whiteCaps q, blackStones q, blackCaps q) = q.
Proof. now destruct q. Qed.

(* ---- the loop: board part and reserve part do not interact ---- *)
Definition bpart (a : acc11) : N * N * N * N * list N * list N * N :=
  let '(w, b, s, c, ws, wc, bs, bc, hs, st, h) := a in (w, b, s, c, hs, st, h).
Definition rpart (a : acc11) : N * N * N * N :=
  let '(w, b, s, c, ws, wc, bs, bc, hs, st, h) := a in (ws, wc, bs, bc).

Lemma fs_step_bpart basis a a' ic : bpart a = bpart a' -> bpart (fs_step basis a ic) = bpart (fs_step basis a' ic).
Proof.
  destruct a as [[[[[[[[[[w b] s] c] ws] wc] bs] bc] hs] st] h], a' as [[[[[[[[[[w' b'] s'] c'] ws'] wc'] bs'] bc'] hs'] st'] h'].
  destruct ic as [i sq]. cbn [bpart]. intros E. injection E as -> -> -> -> -> -> ->.
  destruct sq as [|pp rest]; [now rewrite !fs_step_nil|].
  rewrite !fs_step_cons by discriminate. reflexivity.
Qed.

Lemma fs_step_rpart basis a i sq : rpart (fs_step basis a (i, sq)) = fold_left rstep sq (rpart a).
Proof.
  destruct a as [[[[[[[[[[w b] s] c] ws] wc] bs] bc] hs] st] h].
  destruct sq as [|pp rest]; [now rewrite fs_step_nil|].
  rewrite fs_step_cons by discriminate. cbv zeta. cbn [rpart].
  now destruct (fold_left rstep (pp :: rest) (ws, wc, bs, bc)) as [[[? ?] ?] ?].
Qed.

Lemma fold_bpart basis : forall l a a', bpart a = bpart a' ->
  bpart (fold_left (fs_step basis) l a) = bpart (fold_left (fs_step basis) l a').
Proof.
  induction l as [|ic l IH]; intros a a' E; [exact E|]. cbn [fold_left]. apply IH. now apply fs_step_bpart.
Qed.

Lemma fold_rpart basis : forall (l : list (nat * list pc)) a,
  rpart (fold_left (fs_step basis) l a) = fold_left rstep (concat (map snd l)) (rpart a).
Proof.
  induction l as [|[i sq] l IH]; intros a; [reflexivity|]. cbn [fold_left map snd concat].
  now rewrite IH, fs_step_rpart, fold_left_app.
Qed.

Definition fs_init_cfg (n : nat) (dp dc : N) : acc11 :=
  (0, 0, 0, 0, dp, dc, dp, dc, repeat 0 (n * n), repeat 0 (n * n), fnvBasis).

Lemma from_squares_cfg_unfold basis sz stones caps bwt board mv :
  from_squares_cfg basis sz stones caps bwt board mv =
  let n := N.to_nat sz in
  let '(w, b, s, c, ws, wc, bs, bc, hs, st, h) :=
      fold_left (fs_step basis) (combine (seq 0 (n * n)) (flat_map (fun row => row) board))
                (fs_init_cfg n (u8 (cfg_pieces sz stones)) (u8 (cfg_caps sz caps))) in
  {| size := sz; Move.black_wins_ties := bwt; whiteStones := ws; whiteCaps := wc; blackStones := bs; blackCaps := bc;
     Move.move := mv; White := w; Move.Black := b; Standing := s; Caps := c; Height := hs; Stacks := st; hash := h |}.
Proof. reflexivity. Qed.

(* the cells the loop visits: the first n*n of the board *)
Definition visited (n : nat) (board : list (list (list pc))) : list (list pc) :=
  map snd (combine (seq 0 (n * n)) (flat_map (fun row => row) board)).

Theorem fsc_set_gen basis sz stones caps bwt board mv :
  let S := u8 (cfg_pieces sz stones) in let C := u8 (cfg_caps sz caps) in
  from_squares_cfg basis sz stones caps bwt board mv =
  set_cfg (from_squares basis sz board mv) bwt (fold_left rstep (concat (visited (N.to_nat sz) board)) (S, C, S, C)).
Proof.
  cbv zeta. rewrite from_squares_cfg_unfold, from_squares_unfold. cbv zeta. unfold visited.
  set (l := combine _ _).
  set (ic := fs_init_cfg (N.to_nat sz) (u8 (cfg_pieces sz stones)) (u8 (cfg_caps sz caps))).
  assert (Hb : bpart (fold_left (fs_step basis) l ic) = bpart (fold_left (fs_step basis) l (fs_init (N.to_nat sz))))
    by (apply fold_bpart; reflexivity).
  pose proof (fold_rpart basis l ic) as Hr.
  change (rpart ic) with (u8 (cfg_pieces sz stones), u8 (cfg_caps sz caps), u8 (cfg_pieces sz stones), u8 (cfg_caps sz caps)) in Hr.
  rewrite <- Hr. clear Hr.
  destruct (fold_left (fs_step basis) l ic) as [[[[[[[[[[w b] s] c] ws] wc] bs] bc] hs] st] h].
  destruct (fold_left (fs_step basis) l (fs_init (N.to_nat sz))) as [[[[[[[[[[w' b'] s'] c'] ws'] wc'] bs'] bc'] hs'] st'] h'].
  cbn [bpart] in Hb. injection Hb as -> -> -> -> -> -> ->. reflexivity.
Qed.

Lemma map_snd_combine_seq {A} (l : list A) : forall k a, length l = k -> map snd (combine (seq a k) l) = l.
Proof.
  induction l as [|x l IH]; intros k a H; cbn in H; subst k; [reflexivity|]. cbn [seq combine map snd]. f_equal. now apply IH.
Qed.

(* ---- fitting boards ---- *)
Definition cfgS (n : nat) (stones : N) : N := u8 (cfg_pieces (N.of_nat n) stones).      (* byte(g.Pieces) after tak.New's defaulting *)
Definition cfgC (n : nat) (caps : N) : N := u8 (cfg_caps (N.of_nat n) caps).

Lemma cfgS_lt n stones : cfgS n stones < 256.
Proof. unfold cfgS, u8. apply N.mod_upper_bound. lia. Qed.
Lemma cfgC_lt n caps : cfgC n caps < 256.
Proof. unfold cfgC, u8. apply N.mod_upper_bound. lia. Qed.

(* the reserves FromSquares computes under a configuration: one byte decrement per piece *)
Definition cfg_reserves (n : nat) (stones caps : N) (pcs : list pc) : N * N * N * N :=
  (dec8 (cfgS n stones) (count is_ws pcs), dec8 (cfgC n caps) (count is_wc pcs),
   dec8 (cfgS n stones) (count is_bs pcs), dec8 (cfgC n caps) (count is_bc pcs)).

Theorem fsc_set n stones caps bwt board mv : fit_board n board ->
  from_squares_cfg gen_basis (N.of_nat n) stones caps bwt board mv =
  set_cfg (from_squares gen_basis (N.of_nat n) board mv) bwt (cfg_reserves n stones caps (pieces_of board)).
Proof.
  intros FB. rewrite fsc_set_gen. cbv zeta. f_equal. unfold visited. rewrite Nat2N.id.
  rewrite flat_map_id_concat, map_snd_combine_seq by (apply (fs_cells_len n board FB)).
  rewrite rstep_fold by (apply cfgS_lt || apply cfgC_lt). reflexivity.
Qed.

Lemma dec8_lt' a k : dec8 a k < 256.
Proof. unfold dec8. apply N.mod_upper_bound. lia. Qed.

(* the exact reserve hypothesis under a configuration *)
Definition counts_fit_cfg (n : nat) (stones caps : N) (board : list (list (list pc))) : Prop :=
  count is_ws (pieces_of board) <= cfgS n stones /\ count is_wc (pieces_of board) <= cfgC n caps /\
  count is_bs (pieces_of board) <= cfgS n stones /\ count is_bc (pieces_of board) <= cfgC n caps.

Definition cfg_apos (n : nat) (stones caps : N) (bwt : bool) (board : list (list (list pc))) (mv : Z) : apos :=
  {| Rules.n := n; sq := map (map piece_of) (concat board);
     wstones := cfgS n stones - count is_ws (pieces_of board); wcaps := cfgC n caps - count is_wc (pieces_of board);
     bstones := cfgS n stones - count is_bs (pieces_of board); bcaps := cfgC n caps - count is_bc (pieces_of board);
     ply := mv; Rules.black_wins_ties := bwt |}.

Section FSC.
Variable n : nat.
Variables stones caps : N.
Variable bwt : bool.
Variable board : list (list (list pc)).
Variable mv : Z.
Hypothesis FB : fit_board n board.
Local Notation q := (from_squares_cfg gen_basis (N.of_nat n) stones caps bwt board mv).

Lemma fsc_fields : size q = N.of_nat n /\ Move.move q = mv /\ Move.black_wins_ties q = bwt /\ bview q = bview (from_squares gen_basis (N.of_nat n) board mv).
Proof.
  rewrite (fsc_set n stones caps bwt board mv FB). destruct (fs_facts n board mv FB) as (E1 & E2 & _).
  cbn [set_cfg size Move.move Move.black_wins_ties]. rewrite set_cfg_bview. auto.
Qed.

Lemma fsc_reserves : (whiteStones q, whiteCaps q, blackStones q, blackCaps q) = cfg_reserves n stones caps (pieces_of board).
Proof. rewrite (fsc_set n stones caps bwt board mv FB). reflexivity. Qed.

Theorem from_squares_cfg_pos_ok : pos_ok q.
Proof.
  rewrite (fsc_set n stones caps bwt board mv FB).
  apply set_cfg_pos_ok; [now apply from_squares_pos_ok| | | |]; cbn [cfg_reserves fst snd]; apply dec8_lt'.
Qed.

Theorem from_squares_cfg_abs_sq : sq (abs q) = map (map piece_of) (concat board).
Proof. rewrite (fsc_set n stones caps bwt board mv FB), set_cfg_abs_sq. now apply from_squares_abs_sq. Qed.

Theorem from_squares_cfg_hash : hash_of q = hash_of (from_squares gen_basis (N.of_nat n) board mv) /\ hash q = hash (from_squares gen_basis (N.of_nat n) board mv).
Proof. rewrite (fsc_set n stones caps bwt board mv FB). split; [apply set_cfg_hash_of|reflexivity]. Qed.

Theorem from_squares_cfg_abs : counts_fit_cfg n stones caps board -> abs q = cfg_apos n stones caps bwt board mv.
Proof.
  intros (C1 & C2 & C3 & C4). pose proof from_squares_cfg_abs_sq as Esq.
  destruct fsc_fields as (E1 & E2 & E3 & _). pose proof fsc_reserves as R. injection R as R1 R2 R3 R4.
  unfold abs in *. cbn [sq] in Esq. unfold cfg_apos. rewrite Esq, E1, E2, E3, R1, R2, R3, R4, Nat2N.id.
  rewrite !dec8_sub by (assumption || apply cfgS_lt || apply cfgC_lt). reflexivity.
Qed.
End FSC.

(* the export *)
Theorem from_squares_cfg_wf n stones caps bwt board mv : fit_board n board ->
  let q := from_squares_cfg gen_basis (N.of_nat n) stones caps bwt board mv in
  pos_ok q /\ size q = N.of_nat n /\ Move.move q = mv /\ Move.black_wins_ties q = bwt /\
  sq (abs q) = map (map piece_of) (concat board) /\
  (whiteStones q, whiteCaps q, blackStones q, blackCaps q) = cfg_reserves n stones caps (pieces_of board) /\
  (counts_fit_cfg n stones caps board -> abs q = cfg_apos n stones caps bwt board mv).
Proof.
  intros FB q. destruct (fsc_fields n stones caps bwt board mv FB) as (E1 & E2 & E3 & _).
  split; [now apply from_squares_cfg_pos_ok|]. split; [exact E1|]. split; [exact E2|]. split; [exact E3|].
  split; [now apply from_squares_cfg_abs_sq|]. split; [now apply fsc_reserves|]. now apply from_squares_cfg_abs.
Qed.
Print Assumptions from_squares_cfg_wf.

(* the default configuration is an instance: the old theorem's reserves *)
Lemma cfgS_zero n : cfgS n 0 = dp n.
Proof. unfold cfgS, dp. rewrite cfg_pieces_zero. now rewrite Nat2N.id. Qed.
Lemma cfgC_zero n : cfgC n 0 = dc n.
Proof. unfold cfgC, dc. rewrite cfg_caps_zero. now rewrite Nat2N.id. Qed.

(* non-vacuity: the 5x5 board of Import1.v under 7 stones and 3 capstones a side, BlackWinsTies (White has 6 stones on it) *)
Example ex_from_squares_cfg_wf :
  let q := from_squares_cfg gen_basis 5 7 3 true ex_board5 13 in
  pos_ok q /\ abs q = cfg_apos 5 7 3 true ex_board5 13 /\ Move.black_wins_ties q = true /\
  wstones (abs q) = 2 /\ wcaps (abs q) = 2 /\ bstones (abs q) = 2 /\ bcaps (abs q) = 2.
Proof.
  intros q. destruct ex_fit as [FB _].
  assert (CF : counts_fit_cfg 5 7 3 ex_board5) by (vm_compute; repeat split; discriminate).
  destruct (from_squares_cfg_wf 5 7 3 true ex_board5 13 FB) as (A & _ & _ & E & _ & _ & B).
  change (from_squares_cfg gen_basis (N.of_nat 5) 7 3 true ex_board5 13) with q in *.
  specialize (B CF). split; [exact A|]. split; [exact B|]. split; [exact E|]. rewrite B. vm_compute. repeat split; reflexivity.
Qed.
