(* C09, refined model, part 4: alloc, analyze and the common tail of Move/MovePreallocated/Clone/FromSquares
   preserve the ownership invariant. *)
From Coq Require Import NArith ZArith List Bool Lia Arith.
Require Import Board Move GameOver Alloc AllocFacts AllocFacts2 Alloc2 Alloc2Facts Alloc2Facts2 Alloc2Ext Alloc2Facts3.
Import ListNotations.

Lemma owned_lt st zs j oj a : wf2 st zs -> nth_error (s2_objs st) j = Some oj -> owned_by oj a -> (a < length (s2_arrs st))%nat.
Proof.
  intros (_ & _ & AW & _) Hj Oa. pose proof (AW j oj Hj) as (Q1 & Q2 & Q3 & Q4 & _ & _ & _ & _ & Q9 & _).
  destruct Oa as [E|[E|[E|E]]]; subst a; try lia. apply Q9.
Qed.

(* ---- alloc ---- *)
Lemma alloc2_facts st zs sc thh tsh tbg : wf2 st zs -> size_ok (size sc) = true ->
  valid (s2_arrs st) thh -> valid (s2_arrs st) tsh ->
  let n := nsq2 (size sc) in let a := length (s2_arrs st) in
  let onew := {| o2_sc := sc; o2_H := a; o2_S := S a; o2_G := S (S a); o2_hh := hdr_of a n; o2_sh := hdr_of (S a) n;
                 o2_wg := {| r_arr := S (S a); r_off := 0; r_len := 0 |}; o2_bg := tbg |} in
  exists arrs1, let st1 := {| s2_objs := s2_objs st ++ [onew]; s2_arrs := arrs1 |} in
  alloc2 st sc thh tsh tbg = (st1, Ok (length (s2_objs st))) /\
  wf2 st1 (zs ++ [size sc]) /\
  keeps (s2_arrs st) arrs1 (fun _ => False) /\
  (r_len thh = n -> read_ref arrs1 (hdr_of a n) = read_ref (s2_arrs st) thh) /\
  (r_len thh = 0%nat -> read_ref arrs1 (hdr_of a n) = repeat 0%N n) /\
  (r_len tsh = n -> read_ref arrs1 (hdr_of (S a) n) = read_ref (s2_arrs st) tsh) /\
  (r_len tsh = 0%nat -> read_ref arrs1 (hdr_of (S a) n) = repeat 0%N n) /\
  (forall h v, shows2 st zs h v -> shows2 st1 (zs ++ [size sc]) h v).
Proof.
  intros W Hsz Vt Vs. cbn zeta. pose proof W as (A0 & AL & AW & AJ).
  set (n := nsq2 (size sc)). set (a := length (s2_arrs st)).
  set (hh := hdr_of a n). set (sh := hdr_of (S a) n).
  set (arrs0 := s2_arrs st ++ [repeat 0%N n; repeat 0%N n; repeat 0%N (garr_len sc)]).
  set (Q := fun x : nat => (a <= x)%nat).
  assert (K0 : keeps (s2_arrs st) arrs0 Q) by apply keeps_snoc.
  assert (L0 : length arrs0 = (a + 3)%nat) by (unfold arrs0; rewrite app_length; cbn; fold a; lia).
  assert (G0a : get_arr arrs0 a = repeat 0%N n).
  { unfold get_arr, arrs0. rewrite app_nth2 by (fold a; lia). fold a. rewrite Nat.sub_diag. reflexivity. }
  assert (G0s : get_arr arrs0 (S a) = repeat 0%N n).
  { unfold get_arr, arrs0. rewrite app_nth2 by (fold a; lia). fold a. replace (S a - a)%nat with 1%nat by lia. reflexivity. }
  assert (Vhh0 : valid arrs0 hh) by (split; cbn [hh hdr_of r_arr r_off r_len]; [lia|rewrite G0a, repeat_length; lia]).
  assert (Vsh0 : valid arrs0 sh) by (split; cbn [sh hdr_of r_arr r_off r_len]; [lia|rewrite G0s, repeat_length; lia]).
  assert (Vt0 : valid arrs0 thh) by (eapply keeps_valid; eassumption).
  assert (Vs0 : valid arrs0 tsh) by (eapply keeps_valid; eassumption).
  destruct (copy_hdr_spec arrs0 hh thh Vhh0 Vt0) as (K1 & L1 & _).
  set (arrs1 := copy_hdr arrs0 hh thh) in *.
  assert (Vsh1 : valid arrs1 sh) by (eapply keeps_valid; eassumption).
  assert (Vhh1 : valid arrs1 hh) by (eapply keeps_valid; eassumption).
  assert (Vs1 : valid arrs1 tsh) by (eapply keeps_valid; eassumption).
  destruct (copy_hdr_spec arrs1 sh tsh Vsh1 Vs1) as (K2 & L2 & _).
  set (arrs2 := copy_hdr arrs1 sh tsh) in *.
  assert (K01 : keeps (s2_arrs st) arrs1 Q).
  { eapply keeps_trans; [exact K0|]. eapply keeps_weaken; [exact K1|]. intros x _ <-. unfold Q. cbn. lia. }
  assert (K02 : keeps (s2_arrs st) arrs2 Q).
  { eapply keeps_trans; [exact K01|]. eapply keeps_weaken; [exact K2|]. intros x _ <-. unfold Q. cbn. lia. }
  assert (KF : keeps (s2_arrs st) arrs2 (fun _ => False)).
  { eapply keeps_weaken; [exact K02|]. intros x Hx Hq. unfold Q in Hq. fold a in Hx. lia. }
  assert (Lh2 : length (get_arr arrs2 a) = n).
  { destruct K2 as (_ & N2 & _). rewrite N2 by lia. destruct K1 as (_ & N1 & _). rewrite N1 by lia. rewrite G0a. apply repeat_length. }
  assert (Ls2 : length (get_arr arrs2 (S a)) = n).
  { destruct K2 as (_ & N2 & _). rewrite N2 by lia. destruct K1 as (_ & N1 & _). rewrite N1 by lia. rewrite G0s. apply repeat_length. }
  assert (Rz : forall x, get_arr arrs0 x = repeat 0%N n -> read_ref arrs0 (hdr_of x n) = repeat 0%N n).
  { intros x E. unfold read_ref; cbn [hdr_of r_arr r_off r_len]. rewrite E. cbn [skipn].
    rewrite <- (repeat_length 0%N n) at 1. apply firstn_all. }
  exists arrs2. cbn zeta.
  split.
  { unfold alloc2. rewrite Hsz. cbn [negb]. reflexivity. }
  assert (Hnew : forall i o, nth_error (s2_objs st ++ [{| o2_sc := sc; o2_H := a; o2_S := S a; o2_G := S (S a); o2_hh := hh; o2_sh := sh;
                    o2_wg := {| r_arr := S (S a); r_off := 0; r_len := 0 |}; o2_bg := tbg |}]) i = Some o ->
                 ((i < length (s2_objs st))%nat /\ nth_error (s2_objs st) i = Some o) \/
                 (i = length (s2_objs st) /\ o = {| o2_sc := sc; o2_H := a; o2_S := S a; o2_G := S (S a); o2_hh := hh; o2_sh := sh;
                    o2_wg := {| r_arr := S (S a); r_off := 0; r_len := 0 |}; o2_bg := tbg |})).
  { intros i o Hi. destruct (Nat.lt_ge_cases i (length (s2_objs st))) as [Hlt|Hge].
    - left. rewrite nth_error_app1 in Hi by assumption. auto.
    - right. rewrite nth_error_app2 in Hi by assumption.
      destruct (i - length (s2_objs st))%nat eqn:E; cbn in Hi; [|destruct n0; discriminate].
      injection Hi as <-. split; [lia|reflexivity]. }
  split; [|split; [exact KF|]].
  - (* wf2 *)
    split; [cbn; lia|]. split; [cbn; rewrite !app_length; cbn; lia|]. split.
    + intros i o Hi. cbn [s2_objs s2_arrs] in *. destruct (Hnew i o Hi) as [[Hlt Ho]|[-> ->]].
      * rewrite app_nth1 by lia.
        pose proof (AW i o Ho) as (Q1 & Q2 & Q3 & Q4 & Q5 & Q6 & Q7 & Q8 & Q9 & Q10 & Q11 & Q12).
        unfold wf_obj. destruct KF as (KL & KN & KO). fold a in Q4.
        rewrite !KN by (fold a; lia).
        repeat (split; [first [assumption|lia]|]).
        split; [eapply keeps_valid; [exact K02|exact Q9]|]. auto.
      * rewrite AL, app_nth2, Nat.sub_diag by lia. cbn [nth].
        unfold wf_obj; cbn [o2_H o2_S o2_G o2_hh o2_sh o2_wg r_arr].
        fold a in A0.
        split; [exact A0|]. split; [reflexivity|]. split; [reflexivity|]. split; [lia|].
        split; [reflexivity|]. split; [reflexivity|]. split; [exact Lh2|]. split; [exact Ls2|].
        split; [split; cbn [r_arr r_off r_len]; lia|]. repeat split; lia.
    + intros i j oi oj x Hi Hj Oi Oj. cbn [s2_objs] in *.
      destruct (Hnew i oi Hi) as [[Hlti Hoi]|[-> ->]], (Hnew j oj Hj) as [[Hltj Hoj]|[-> ->]].
      * eapply AJ; eassumption.
      * pose proof (owned_lt _ _ _ _ _ W Hoi Oi) as Hx. fold a in Hx.
        destruct Oj as [E|[E|[E|E]]]; cbn in E; lia.
      * pose proof (owned_lt _ _ _ _ _ W Hoj Oj) as Hx. fold a in Hx.
        destruct Oi as [E|[E|[E|E]]]; cbn in E; lia.
      * reflexivity.
  - (* reads of the new arrays, old handles *)
    assert (Rh2 : read_ref arrs2 hh = read_ref arrs1 hh).
    { apply (keeps_read _ _ _ _ K2 Vhh1). cbn. lia. }
    split; [|split; [|split; [|split]]].
    + intro E. fold hh. rewrite Rh2. unfold arrs1. rewrite (copy_hdr_full arrs0 hh thh Vhh0 Vt0) by (cbn; exact E).
      apply (keeps_read _ _ _ _ K0 Vt). unfold Q. destruct Vt. fold a in H. lia.
    + intro E. fold hh. rewrite Rh2. unfold arrs1. rewrite (copy_hdr_nil arrs0 hh thh Vhh0 Vt0 E). apply Rz. exact G0a.
    + intro E. fold sh. unfold arrs2. rewrite (copy_hdr_full arrs1 sh tsh Vsh1 Vs1) by (cbn; exact E).
      apply (keeps_read _ _ _ _ K01 Vs). unfold Q. destruct Vs. fold a in H. lia.
    + intro E. fold sh. unfold arrs2. rewrite (copy_hdr_nil arrs1 sh tsh Vsh1 Vs1 E).
      rewrite (keeps_read _ _ _ _ K1 Vsh0) by (cbn; lia). apply Rz. exact G0s.
    + intros h v Hs. pose proof Hs as (o & Ho & _).
      assert (Hlt : (h < length (s2_objs st))%nat) by (eapply nth_error_lt; eassumption).
      apply (shows2_keep st _ zs _ h v (fun _ => False) W Hs).
      * cbn. apply nth_error_app1. exact Hlt.
      * exact KF.
      * intros ? ? [].
      * intros j oj' x Hj Ox Hx. cbn [s2_objs] in Hj. destruct (Hnew j oj' Hj) as [[Hltj Hoj]|[-> ->]].
        -- exists j, oj'. split; assumption.
        -- fold a in Hx. destruct Ox as [E|[E|[E|E]]]; cbn in E; lia.
      * apply app_nth1. lia.
Qed.

(* ---- analyze() on one object ---- *)
Lemma analyze2_spec st i o : nth_error (s2_objs st) i = Some o -> valid (s2_arrs st) (o2_wg o) ->
  exists w b,
    s2_objs (analyze2 st i) = set_obj2 (s2_objs st) i {| o2_sc := o2_sc o; o2_H := o2_H o; o2_S := o2_S o; o2_G := o2_G o;
                                                          o2_hh := o2_hh o; o2_sh := o2_sh o; o2_wg := w; o2_bg := b |} /\
    frame (s2_arrs st) (s2_arrs (analyze2 st i)) (r_arr (o2_wg o)) (r_off (o2_wg o)) /\
    valid (s2_arrs (analyze2 st i)) w /\ valid (s2_arrs (analyze2 st i)) b /\
    read_ref (s2_arrs (analyze2 st i)) w = fst (analyze_total (o2_sc o)) /\
    read_ref (s2_arrs (analyze2 st i)) b = snd (analyze_total (o2_sc o)) /\
    (r_arr w = r_arr (o2_wg o) \/ (length (s2_arrs st) <= r_arr w)%nat) /\
    (r_arr b = r_arr w \/ ((length (s2_arrs st) <= r_arr b)%nat /\ (r_arr w < r_arr b)%nat)).
Proof.
  intros Ei [Va Vb]. unfold analyze2. rewrite Ei.
  destruct (analyze_total (o2_sc o)) as [wgs bgs]. cbn [fst snd].
  set (w0 := {| r_arr := r_arr (o2_wg o); r_off := r_off (o2_wg o); r_len := 0 |}).
  assert (Vw0 : valid (s2_arrs st) w0) by (split; cbn; [assumption|lia]).
  pose proof (append_all_spec wgs (s2_arrs st) w0 Vw0) as H1.
  destruct (append_all (s2_arrs st) w0 wgs) as [arrs1 w].
  destruct H1 as (V1 & R1 & F1 & S1 & L1). unfold stays_or_fresh in S1. subst w0. cbn [r_arr r_off r_len] in *.
  set (b0 := {| r_arr := r_arr w; r_off := (r_off w + r_len w)%nat; r_len := 0 |}).
  assert (Vb0 : valid arrs1 b0) by (destruct V1; split; cbn; [assumption|lia]).
  pose proof (append_all_spec bgs arrs1 b0 Vb0) as H2.
  destruct (append_all arrs1 b0 bgs) as [arrs2 b].
  destruct H2 as (V2 & R2 & F2 & S2 & L2). unfold stays_or_fresh in S2. subst b0. cbn [r_arr r_off r_len] in *.
  exists w, b. cbn [s2_objs s2_arrs].
  assert (Hlen : (length (s2_arrs st) <= length arrs1)%nat) by apply F1.
  split; [reflexivity|]. split; [|split; [|split; [exact V2|split; [|split; [|split]]]]].
  - rewrite Nat.add_0_r in F1, F2.
    eapply frame_comp; [exact F1|exact F2|].
    destruct S1 as [[Ea Eo]|Hf]; [left; split; [assumption|lia]|right; assumption].
  - exact (frame_valid _ _ _ _ w F2 V1).
  - rewrite (frame_read _ _ _ _ w F2 V1) by (right; lia). rewrite R1. reflexivity.
  - rewrite R2. reflexivity.
  - destruct S1 as [[Ea _]|Hf]; [left; assumption|right; assumption].
  - destruct S2 as [[Ea _]|Hf]; [left; assumption|right]. destruct V1. split; lia.
Qed.

Lemma set_sc2_same st k ok arrs2 : nth_error (s2_objs st) k = Some ok ->
  set_sc2 st k (o2_sc ok) arrs2 = {| s2_objs := s2_objs st; s2_arrs := arrs2 |}.
Proof.
  intro Hk. unfold set_sc2. rewrite Hk. f_equal. unfold set_obj2. apply set_nth_same. rewrite Hk. destruct ok; reflexivity.
Qed.

(* ---- the common tail: the scalars of object k become sc', its Height/Stacks arrays have been written, then analyze ---- *)
Lemma tail_facts st zs k ok sc' arrs2 q : wf2 st zs -> nth_error (s2_objs st) k = Some ok ->
  keeps (s2_arrs st) arrs2 (fun a => a = o2_H ok \/ a = o2_S ok) ->
  with_hs sc' (read_ref arrs2 (o2_hh ok)) (read_ref arrs2 (o2_sh ok)) = q -> size q = nth k zs 0%N ->
  let st' := analyze2 (set_sc2 st k sc' arrs2) k in
  wf2 st' zs /\ length (s2_objs st') = length (s2_objs st) /\ shows2 st' zs k q /\
  (forall h v, h <> k -> shows2 st zs h v -> shows2 st' zs h v).
Proof.
  intros W Hk K Hq Hz. cbn zeta. unfold set_sc2. rewrite Hk.
  set (o1 := {| o2_sc := sc'; o2_H := o2_H ok; o2_S := o2_S ok; o2_G := o2_G ok; o2_hh := o2_hh ok; o2_sh := o2_sh ok;
                o2_wg := o2_wg ok; o2_bg := o2_bg ok |}).
  pose proof W as (A0 & AL & AW & AJ).
  pose proof (AW k ok Hk) as (P1 & P2 & P3 & P4 & P5 & P6 & P7 & P8 & P9 & P10 & P11 & P12).
  assert (Kown : keeps (s2_arrs st) arrs2 (owned_by ok)).
  { eapply keeps_weaken; [exact K|]. intros x _ [E|E]; unfold owned_by; auto. }
  destruct (update_facts st zs k ok o1 arrs2 W Hk eq_refl eq_refl eq_refl eq_refl eq_refl (or_introl eq_refl)) as (W1 & Hk1 & S1).
  { eapply keeps_valid; [exact K|exact P9]. }
  { exact Kown. }
  set (st1 := {| s2_objs := set_obj2 (s2_objs st) k o1; s2_arrs := arrs2 |}) in *.
  assert (Vw1 : valid (s2_arrs st1) (o2_wg o1)) by (eapply keeps_valid; [exact K|exact P9]).
  destruct (analyze2_spec st1 k o1 Hk1 Vw1) as (w & b & Eo & F & Vw & Vb & Rw & Rb & Cw & Cb).
  destruct (analyze2 st1 k) as [objs3 arrs3] eqn:Ean. cbn [s2_objs s2_arrs] in Eo, F, Vw, Vb, Rw, Rb. subst objs3.
  cbn [o1 o2_sc o2_H o2_S o2_G o2_hh o2_sh o2_wg o2_bg] in F, Rw, Rb, Cw.
  set (o2 := {| o2_sc := sc'; o2_H := o2_H ok; o2_S := o2_S ok; o2_G := o2_G ok; o2_hh := o2_hh ok; o2_sh := o2_sh ok;
                o2_wg := w; o2_bg := b |}).
  assert (K3 : keeps arrs2 arrs3 (eq (r_arr (o2_wg ok)))) by (eapply frame_keeps; exact F).
  destruct (update_facts st1 zs k o1 o2 arrs3 W1 Hk1 eq_refl eq_refl eq_refl eq_refl eq_refl) as (W2 & Hk2 & S2).
  { exact Cw. }
  { exact Vw. }
  { eapply keeps_weaken; [exact K3|]. intros x _ <-. right. right. right. reflexivity. }
  assert (Els : length (set_obj2 (set_obj2 (s2_objs st) k o1) k o2) = length (s2_objs st)).
  { unfold set_obj2. rewrite !set_nth_length. reflexivity. }
  split; [exact W2|]. split; [exact Els|]. split.
  - (* object k shows q *)
    destruct (wf_obj_hh_valid _ _ _ (AW k ok Hk)) as (Vhh & Vsh & Ahh & Ash & _).
    assert (Vhh2 : valid arrs2 (o2_hh ok)) by (eapply keeps_valid; eassumption).
    assert (Vsh2 : valid arrs2 (o2_sh ok)) by (eapply keeps_valid; eassumption).
    exists o2. split; [exact Hk2|]. change (o2_wg o2) with w. change (o2_bg o2) with b. cbn [s2_arrs].
    split.
    { unfold view, o2. cbn [o2_sc o2_hh o2_sh s2_arrs].
      rewrite (keeps_read _ _ _ _ K3 Vhh2), (keeps_read _ _ _ _ K3 Vsh2); [exact Hq| |].
      - rewrite Ash. intro E. apply P12. exact E.
      - rewrite Ahh. intro E. apply P11. exact E. }
    split; [exact Hz|]. split; [exact Vb|].
    split; [rewrite Rw, <- Hq; reflexivity|]. split; [rewrite Rb, <- Hq; reflexivity|].
    destruct Cb as [Cb|[Cb1 Cb2]]; [left; exact Cb|right].
    intros j oj Hj Oj. cbn [s2_objs] in Hj.
    assert (Hlt : (k < length (set_obj2 (s2_objs st) k o1))%nat) by (eapply nth_error_lt; exact Hk1).
    unfold set_obj2 in Hj at 1. rewrite nth_error_set_nth in Hj by exact Hlt.
    destruct (Nat.eqb_spec j k) as [->|Hn].
    + injection Hj as <-. pose proof (proj1 K) as Klen. unfold st1 in Cb1; cbn [s2_arrs] in Cb1.
      destruct Oj as [E|[E|[E|E]]]; unfold o2 in E; cbn [o2_H o2_S o2_G o2_wg] in E; lia.
    + pose proof (owned_lt st1 zs j oj _ W1 Hj Oj) as Hx. unfold st1 in Hx, Cb1; cbn [s2_arrs] in Hx, Cb1. lia.
  - intros h v Hne Hs. apply S2; [exact Hne|]. apply S1; [exact Hne|exact Hs].
Qed.
