(* C14, layer 8: DESIGN 5.14 gameover_invariant at the bit level, through C02 (game_over_correct) and outcome_invariant:
   two positions satisfying C02's invariant that show a board and its image under one of the eight symmetries have the same
   GameOver verdict and the same WinDetails (over, road/flats, winner, both flat counts). *)
From Coq Require Import NArith ZArith Arith List Bool Lia ZifyN ZifyBool ZifyNat.
Require Import Rules Sym SymRules1 SymRules2 SymRules3 SymRules4.
Require Import Board Stack Move GameOver Refine Canon2 GameOverFacts2 GameOverFacts4.
Import ListNotations.
Close Scope Z_scope. Close Scope N_scope.

Theorem gameover_invariant : forall k p q, k < 8 -> GameOverFacts2.inv p -> GameOverFacts2.inv q -> abs q = img k (abs p) ->
  game_over q = game_over p /\ win_details q = win_details p.
Proof.
  intros k p q Hk Ip Iq E.
  assert (Hw : well_shaped (abs p)) by (apply abs_well_shaped; apply (inv_size _ Ip)).
  destruct (game_over_correct p Ip) as (o & Ho & _ & G & W & _).
  destruct (game_over_correct q Iq) as (o' & Ho' & _ & G' & W' & _).
  rewrite E in Ho'. apply (outcome_invariant k (abs p) o' Hk Hw) in Ho'.
  assert (Eo : o' = o) by (apply (Outcome_functional (abs p)); assumption). subst o'.
  split; [now rewrite G, G'|]. rewrite W, W'. f_equal. unfold outcome_details. rewrite E.
  now rewrite !(flat_count_invariant k (abs p)) by assumption.
Qed.
Print Assumptions gameover_invariant.
