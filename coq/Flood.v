From Coq Require Import NArith PArith List Lia Bool ZifyN ZifyBool ZifyNat.
Require Import Board.
Import ListNotations.
Open Scope N_scope.

Definition sub (a b : N) := forall i, N.testbit a i = true -> N.testbit b i = true.

Definition idx64 : list N := map N.of_nat (seq 0 64).
Definition cnt (a : N) : nat := length (filter (N.testbit a) idx64).

Lemma filter_len_le {A} (f g : A -> bool) l :
  (forall x, In x l -> f x = true -> g x = true) -> (length (filter f l) <= length (filter g l))%nat.
Proof.
  induction l as [|x l IH]; simpl; intros H; [lia|].
  assert (IH' := IH (fun y Hy => H y (or_intror Hy))).
  destruct (f x) eqn:E.
  - rewrite (H x (or_introl eq_refl) E). simpl. lia.
  - destruct (g x); simpl; lia.
Qed.

Lemma filter_len_lt {A} (f g : A -> bool) l x0 :
  (forall x, In x l -> f x = true -> g x = true) -> In x0 l -> f x0 = false -> g x0 = true ->
  (length (filter f l) < length (filter g l))%nat.
Proof.
  induction l as [|x l IH]; simpl; intros H Hin Hf Hg; [contradiction|].
  assert (Hle := filter_len_le f g l (fun y Hy => H y (or_intror Hy))).
  destruct Hin as [->|Hin].
  - rewrite Hf, Hg. simpl. lia.
  - specialize (IH (fun y Hy => H y (or_intror Hy)) Hin Hf Hg).
    destruct (f x) eqn:E.
    + rewrite (H x (or_introl eq_refl) E). simpl. lia.
    + destruct (g x); simpl; lia.
Qed.

Lemma in_idx64 i : i < 64 -> In i idx64.
Proof.
  intros H. unfold idx64. apply in_map_iff. exists (N.to_nat i). split; [lia|]. apply in_seq. lia.
Qed.

Lemma cnt_le_64 a : (cnt a <= 64)%nat.
Proof.
  unfold cnt. etransitivity; [apply (filter_len_le _ (fun _ => true)); auto|].
  assert (forall l : list N, filter (fun _ => true) l = l) as -> by (induction l; simpl; congruence).
  unfold idx64. now rewrite map_length, seq_length.
Qed.

Lemma cnt_strict a b : sub a b -> b <> a -> b < 2^64 -> (cnt a < cnt b)%nat.
Proof.
  intros Hs Hne Hb.
  assert (exists i, N.testbit a i = false /\ N.testbit b i = true) as (i & Ha & Hbi).
  { destruct (N.eq_dec a b) as [->|Hn]; [congruence|].
    assert (Hx : ~ N.eqf (N.testbit a) (N.testbit b)) by (intros E; apply Hn, N.bits_inj_iff, E).
    (* find a differing bit constructively via lxor *)
    assert (Hl : N.lxor a b <> 0) by (intros E; apply N.lxor_eq in E; congruence).
    exists (N.log2 (N.lxor a b)).
    assert (Hb' := N.bit_log2 _ Hl). rewrite N.lxor_spec in Hb'.
    destruct (N.testbit a _) eqn:Ea, (N.testbit b _) eqn:Eb; simpl in Hb'; try discriminate; auto.
    specialize (Hs _ Ea). congruence. }
  assert (i < 64).
  { destruct (N.lt_ge_cases i 64) as [|Hge]; [assumption|].
    rewrite N.bits_above_log2 in Hbi; [discriminate|].
    destruct (N.eq_dec b 0) as [->|Hb0]; [now rewrite N.bits_0 in Hbi|].
    apply N.log2_lt_pow2 in Hb; lia. }
  unfold cnt. eapply filter_len_lt with (x0 := i); auto using in_idx64.
Qed.

(* grow is extensive on within and bounded by within *)
Lemma grow_sub_within c w s : sub (grow c w s) w.
Proof. intros i. rewrite grow_bit. intros H. now apply andb_prop in H. Qed.

Lemma grow_ext c w s : sub s w -> sub s (grow c w s).
Proof. intros Hs i Hi. rewrite grow_bit, Hi, (Hs _ Hi). reflexivity. Qed.

(* fuel suffices *)
Lemma flood_fuel_ok : forall fuel c w s, w < 2^64 -> sub s w -> (64 - cnt s < fuel)%nat ->
  exists g, flood fuel c w s = Some g.
Proof.
  induction fuel as [|f IH]; intros c w s Hw Hs Hf; [lia|].
  simpl. destruct (N.eqb_spec (grow c w s) s) as [E|E]; [eauto|].
  apply IH; auto using grow_sub_within.
  assert (Hlt : (cnt s < cnt (grow c w s))%nat).
  { apply cnt_strict; auto using grow_ext.
    assert (sub (grow c w s) w) by apply grow_sub_within.
    (* grow c w s <= w as numbers: via bits *)
    destruct (N.lt_ge_cases (grow c w s) (2^64)) as [|Hge]; [assumption|exfalso].
    assert (Hg0 : grow c w s <> 0) by lia.
    assert (Hb := N.bit_log2 _ Hg0). apply H in Hb.
    assert (64 <= N.log2 (grow c w s)) by (apply N.log2_le_pow2; lia).
    rewrite N.bits_above_log2 in Hb; [discriminate|].
    destruct (N.eq_dec w 0) as [->|Hw0]; [now rewrite N.bits_0 in Hb|].
    apply N.log2_lt_pow2 in Hw; lia. }
  assert (Hc := cnt_le_64 (grow c w s)). lia.
Qed.

Corollary flood_65 c w s : w < 2^64 -> sub s w -> exists g, flood 65 c w s = Some g.
Proof. intros. apply flood_fuel_ok; auto. assert (H1 := cnt_le_64 s). lia. Qed.
Print Assumptions flood_65.

(* one-step neighbourhood as read off grow_bit *)
Definition nb (c : consts) (j i : N) : Prop :=
  (1 <= i /\ j = i - 1 /\ i < 64 /\ N.testbit (cR c) i = false) \/
  (j = i + 1 /\ N.testbit (cL c) i = false) \/
  (j = i + Size c) \/
  (Size c <= i /\ j = i - Size c /\ i < 64).

Inductive reach (c : consts) (w s : N) : N -> Prop :=
| reach_seed i : N.testbit s i = true -> N.testbit w i = true -> reach c w s i
| reach_step j i : reach c w s j -> nb c j i -> N.testbit w i = true -> reach c w s i.

Lemma grow_bit_iff c w s i :
  N.testbit (grow c w s) i = true <->
  N.testbit w i = true /\ (N.testbit s i = true \/ exists j, N.testbit s j = true /\ nb c j i).
Proof.
  rewrite grow_bit. unfold nb. split.
  - intros H. apply andb_prop in H as [H Hw]. split; [assumption|].
    repeat (apply orb_prop in H as [H|H]); auto; right.
    + repeat (apply andb_prop in H as [H ?]). exists (i-1). split; [assumption|]. left.
      rewrite negb_true_iff in *. lia.
    + apply andb_prop in H as [H H2]. exists (i+1). rewrite negb_true_iff in *. auto.
    + exists (i + Size c). auto.
    + repeat (apply andb_prop in H as [H ?]). exists (i - Size c). split; [assumption|]. do 3 right. lia.
  - intros [Hw [H|(j & Hj & [H|[H|[H|H]]])]]; rewrite Hw, andb_true_r.
    + now rewrite H.
    + destruct H as (H1 & -> & H3 & H4). rewrite Hj, H4. simpl.
      replace (1 <=? i) with true by lia. replace (i <? 64) with true by lia. simpl.
      now rewrite orb_true_r.
    + destruct H as (-> & H). rewrite Hj, H. simpl. now rewrite !orb_true_r.
    + subst j. rewrite Hj. now rewrite !orb_true_r.
    + destruct H as (H1 & -> & H3). rewrite Hj.
      replace (Size c <=? i) with true by lia. replace (i <? 64) with true by lia. simpl.
      now rewrite !orb_true_r.
Qed.

Lemma flood_sound : forall fuel c w s0 s g,
  (forall i, N.testbit s i = true -> reach c w s0 i) ->
  flood fuel c w s = Some g -> forall i, N.testbit g i = true -> reach c w s0 i.
Proof.
  induction fuel as [|f IH]; simpl; intros c w s0 s g Hs Hf; [discriminate|].
  assert (Hg : forall i, N.testbit (grow c w s) i = true -> reach c w s0 i).
  { intros i Hi. apply grow_bit_iff in Hi as [Hw [H|(j & Hj & Hn)]].
    - auto.
    - eapply reach_step; eauto. }
  destruct (N.eqb_spec (grow c w s) s) as [E|E].
  - injection Hf as <-. assumption.
  - eapply IH; eauto.
Qed.

Lemma flood_fix : forall fuel c w s g, flood fuel c w s = Some g -> grow c w g = g /\ (sub s w -> sub s g).
Proof.
  induction fuel as [|f IH]; simpl; intros c w s g Hf; [discriminate|].
  destruct (N.eqb_spec (grow c w s) s) as [E|E].
  - injection Hf as <-. rewrite E. split; [assumption|]. intros _ i Hi; assumption.
  - apply IH in Hf as [H1 H2]. split; [assumption|]. intros Hs i Hi.
    apply H2; [apply grow_sub_within|]. now apply grow_ext.
Qed.

Lemma flood_complete fuel c w s g :
  sub s w -> flood fuel c w s = Some g -> forall i, reach c w s i -> N.testbit g i = true.
Proof.
  intros Hs Hf i Hr. apply flood_fix in Hf as [Hfix Hsub]. specialize (Hsub Hs).
  induction Hr as [i Hi Hw | j i Hr IH Hn Hw].
  - auto.
  - rewrite <- Hfix. apply grow_bit_iff. split; [assumption|]. right. eauto.
Qed.

Theorem flood_spec c w s : w < 2^64 -> sub s w ->
  exists g, flood 65 c w s = Some g /\ forall i, N.testbit g i = true <-> reach c w s i.
Proof.
  intros Hw Hs. destruct (flood_65 c w s Hw Hs) as [g Hg]. exists g. split; [assumption|].
  intros i; split.
  - eapply flood_sound; eauto. intros j Hj. apply reach_seed; auto.
  - eapply flood_complete; eauto.
Qed.
Print Assumptions flood_spec.
