(* SearchNeg2.v: the facts about the rules engine that the value theorem of the alpha-beta model needs (SearchExact.rules_facts,
   depth-indexed in SearchNeg1.v), DISCHARGED from the proved properties of the rules model, for the instantiated model
   (hash basis regenerated from /repo):
     closure        C01: pos_ok is preserved by every accepted move (Preserve6.move_exact), under the representation limit
     hint moves     C03: every accepted move is Equal to a generated one (AllMovesFacts3.allmoves_complete)
     live => child  C04: LegalMoveLive.live_has_legal_move, with C02's "GameOver always answers" (GameOverFacts4.game_over_iff)
   What remains a hypothesis is [within d p]: in the tree of depth d below p no accepted move builds a stack higher
   than 64 (the representation limit of C01: beyond it the engine itself is wrong, PreserveOver64.v).  SearchNeg3.v proves
   [within] outright for boards up to 5x5 with at most 51 pieces in the game. *)
From Coq Require Import NArith ZArith List Bool Lia.
Require Import Board Stack Rules Move GameOver Refine RefinePlace RefinePlace2 Slide2 Slide6 MoveRefines Preserve1 Preserve5 Preserve6.
Require Import LegalMoveLive GameOverFacts1 GameOverFacts2 GameOverFacts4.
Require AllMovesFacts2 AllMovesFacts3.
Require Import Search NegamaxSpec SearchGen.
Require Import Generated.Consts.
Import ListNotations.

(* the engine's MovePreallocated of Search.v, instantiated, IS Refine.mv *)
Lemma mvp_mv p m : mvp gen_basis p m = Refine.mv p m.
Proof. reflexivity. Qed.

Lemma mv_not_pass p m q : Refine.mv p m = Ok q -> mT m <> 1%N.
Proof.
  intros H E. unfold Refine.mv, move_prealloc in H. rewrite E in H. rewrite andb_false_r in H. cbn [bind] in H. discriminate.
Qed.

Lemma in_children_mv p q : In q (children gen_basis p) <-> exists m, In m (all_moves p) /\ Refine.mv p m = Ok q.
Proof. apply in_children. Qed.

Lemma try_move_mv p m q : okm m -> (try_move gen_basis p m = Some q <-> Refine.mv p m = Ok q).
Proof.
  intros H. rewrite (try_ok gen_basis p m H). rewrite mvp_mv. destruct (Refine.mv p m); split; intros E; try discriminate; inversion E; reflexivity.
Qed.

(* ---- what is kept along every game ---- *)
(* in the two opening plies the stones that are about to be placed exist *)
Definition supply (p : position) : Prop :=
  (move p < 2)%Z -> (0 < whiteStones p)%N /\ ((move p < 1)%Z -> (0 < blackStones p)%N).

(* pos_ok: the invariant of C01 (Preserve1.v); at most 255 pieces in the game (the byte reserves cannot wrap: C02) *)
Definition base_ok (p : position) : Prop :=
  pos_ok p /\ (total p <= 255)%N /\ (0 <= move p)%Z /\ supply p.

(* the tree of depth d below p stays inside what the engine's representation (stacks of at most 64) can hold; nothing is asked
   below a finished game.  (The loops of the model Search.v are bounded by the number of generated moves of the node itself -
   Search.gfuel, SearchGen.gfuel_ok - so no bound on the number of moves is needed.) *)
Fixpoint within (d : nat) (p : position) : Prop :=
  match d with
  | O => True
  | S d' => is_over p = false ->
            forall m q, Refine.mv p m = Ok q -> heights64 q /\ within d' q
  end.

Lemma within_le d : forall p, within (S d) p -> within d p.
Proof.
  induction d; intros p H; [exact I|]. intros EO. pose proof (H EO) as K.
  intros m q E. destruct (K m q E) as (H64 & W). split; [exact H64|]. apply IHd. exact W.
Qed.

Lemma pos_ok_in_mask p : pos_ok p -> in_mask p.
Proof.
  intros [Hs _ _ He]. destruct He as [_ _ _ [Mw [Mb _]] _]. cbn [bview bw bb] in *.
  intros i Hi. rewrite N.lor_spec, (Mw i Hi), (Mb i Hi). reflexivity.
Qed.

Lemma base_ok_inv p : base_ok p -> inv p.
Proof.
  intros ([Hs Hb _ [_ _ _ (Mw & Mb & _ & _) _]] & Ht & _). cbn [bview bw bb] in *. unfold total in Ht.
  constructor; try assumption; try lia.
  - intros i Hi. destruct (N.lt_ge_cases i (size p * size p)) as [L|L]; [exact L|]. rewrite (Mw i L) in Hi. discriminate.
  - intros i Hi. destruct (N.lt_ge_cases i (size p * size p)) as [L|L]; [exact L|]. rewrite (Mb i L) in Hi. discriminate.
Qed.

(* C02: GameOver answers on every such position, so "not over" means the answer (false, _) *)
Lemma not_over_live p : base_ok p -> is_over p = false -> exists c, game_over p = Some (false, c).
Proof.
  intros Hb EO. destruct (game_over_iff p (base_ok_inv p Hb)) as (o & w & G & _).
  assert (E : is_over p = o) by (unfold is_over; rewrite G; reflexivity).
  exists w. rewrite G. rewrite <- E, EO. reflexivity.
Qed.

(* the first ply (White to move) places a black stone: White's reserve is untouched *)
Lemma rules_move_first_ply P m P' : rules_move P m = Some P' -> ply P = 0%Z -> wstones P' = wstones P.
Proof.
  unfold rules_move. destruct (decode m) as [[k x y|d x y drops]|]; [| |discriminate]; intros H E.
  - unfold place in H. destruct (negb (on_board P x y)); [discriminate|]. destruct (stack_at P x y); [|discriminate].
    rewrite E in H. change (0 <? 2)%Z with true in H. unfold to_move in H. rewrite E in H. change (Z.even 0) with true in H.
    cbn [andb flip] in H. destruct k; try discriminate.
    destruct (N.eqb (bstones P) 0); [discriminate|]. injection H as <-. reflexivity.
  - unfold slide in H. rewrite E in H. change (0 <? 2)%Z with true in H. discriminate.
Qed.

(* C01: an accepted move whose result has no stack above 64 leads to a base_ok position, one ply later *)
Lemma base_ok_step p m q : base_ok p -> Refine.mv p m = Ok q -> heights64 q -> base_ok q /\ move q = (move p + 1)%Z /\ size q = size p /\ total q = total p.
Proof.
  intros (Hp & Ht & Hm & Hsup) E H64.
  pose proof (move_exact p m Hp (mv_not_pass p m q E)) as R. rewrite E in R.
  destruct R as (s & R1 & R3 & _ & R4). destruct (R4 H64) as (-> & R2).
  assert (Em := st_move _ _ R3).
  split; [|split; [exact Em|split; [exact (st_size _ _ R3)|exact (st_total _ _ R3)]]].
  split; [exact R2|]. split; [rewrite (st_total _ _ R3); exact Ht|]. split; [lia|].
  intros H2. assert (E0 : move p = 0%Z) by lia. split; [|lia].
  assert (W := rules_move_first_ply _ _ _ R1 E0). cbn [abs wstones] in W. rewrite W. apply Hsup; lia.
Qed.

(* C04: a live position has a generated move that is accepted *)
Lemma base_ok_live p : base_ok p -> is_over p = false -> children gen_basis p <> [].
Proof.
  intros Hb EO. destruct (not_over_live p Hb EO) as (c & G). destruct Hb as (Hp & _ & Hm & Hsup).
  destruct (live_has_legal_move p c (pos_ok_wf p Hp) (pos_ok_in_mask p Hp)) as (m & q & Hin & E); [|exact G|].
  - intros H2. specialize (Hsup H2). unfold to_move_white.
    assert (move p = 0 \/ move p = 1)%Z as [E|E] by lia; rewrite E; cbn; [apply Hsup; lia|apply Hsup].
  - intros C. assert (In q (children gen_basis p)) by (apply in_children_mv; exists m; split; assumption). rewrite C in H. destruct H.
Qed.

(* C03: a hint move (pv[0], response move, table move) that MovePreallocated accepts leads where a generated move leads *)
Lemma base_ok_hint p m q : base_ok p -> okm m -> try_move gen_basis p m = Some q -> In q (children gen_basis p).
Proof.
  intros (Hp & _) Hm T. apply (try_move_mv p m q Hm) in T.
  destruct (AllMovesFacts3.allmoves_complete p m q (pos_ok_wf p Hp) Hm T) as (g & Hg & EQ).
  apply in_children_mv. exists g. split; [exact Hg|].
  change (AllMovesFacts2.move_equal g m) with (Search.move_equal g m) in EQ.
  pose proof (move_equal_try gen_basis p g m EQ) as ET.
  rewrite (try_ok gen_basis p m Hm), (try_ok gen_basis p g (all_moves_okm p g Hg)), (mvp_mv p g), (mvp_mv p m), T in ET.
  destruct (Refine.mv p g); try discriminate. inversion ET; reflexivity.
Qed.

(* ---- the depth-indexed position sets ---- *)
Definition PosW (d : nat) (p : position) : Prop := base_ok p /\ within d p.

Lemma PosW_closed d p q : PosW (S d) p -> is_over p = false -> In q (children gen_basis p) -> PosW d q.
Proof.
  intros (Hb & W) EO Hq. apply in_children_mv in Hq. destruct Hq as (m & _ & E).
  pose proof (W EO) as K. destruct (K m q E) as (H64 & Wq).
  split; [apply (base_ok_step p m q Hb E H64)|exact Wq].
Qed.
