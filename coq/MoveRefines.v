From Coq Require Import NArith ZArith Arith List Bool Lia ZifyN ZifyBool ZifyNat.
Require Import Board Stack Rules Move Refine RefinePlace RefinePlace2 RefinePlace3 Slide1 Slide2 Slide3 Slide4 Slide5 Slide6 Slide7 Slide8.
Import ListNotations.

Definition reserves_ok (p : position) : Prop :=
  (whiteStones p < 256 /\ whiteCaps p < 256 /\ blackStones p < 256 /\ blackCaps p < 256)%N.

Lemma board_ok_wf p : (3 <= size p <= 8)%N -> board_ok (size p) (bview p) -> reserves_ok p -> wf p.
Proof.
  intros Hs [LH LS SQ] Hr. cbn [bview bhs bst] in LH, LS. unfold nsq in *.
  constructor; auto; try lia.
  - intros i Hi. assert (i < 64)%N by nia. destruct (SQ i Hi) as [_ Hocc _ _ _]. cbn [bview bhs bw bb] in Hocc.
    rewrite has_lor by assumption. rewrite Hocc. split; [intros [-> ->]; reflexivity|apply orb_false_elim].
  - intros i Hi. destruct (SQ i Hi) as [_ _ Hex _ _]. exact Hex.
  - intros i Hi Ho. assert (i < 64)%N by nia. destruct (SQ i Hi) as [_ Hocc _ Htop _]. cbn [bview bhs bw bb bs bc] in *.
    apply Htop, Hocc. rewrite has_lor in Ho by assumption. now apply orb_false_elim.
Qed.

(* C01, for the repaired code (bounds check present), over the representation limit of 64 - size pieces per stack *)
Theorem move_refines_rules p m :
  (3 <= size p <= 8)%N -> board_ok (size p) (bview p) -> reserves_ok p -> tall_ok p -> mT m <> 1%N ->
  match mv p m with
  | Ok p' => rules_move (abs p) (raw m) = Some (abs p')
  | Err => rules_move (abs p) (raw m) = None
  | Panic => False
  end.
Proof.
  intros Hs Hok Hr Ht Hnp.
  destruct (N.eq_dec (mT m) 2) as [E2|N2]; [apply place_refines; [now apply board_ok_wf|left; exact E2]|].
  destruct (N.eq_dec (mT m) 3) as [E3|N3]; [apply place_refines; [now apply board_ok_wf|right; left; exact E3]|].
  destruct (N.eq_dec (mT m) 4) as [E4|N4]; [apply place_refines; [now apply board_ok_wf|right; right; exact E4]|].
  destruct (N.eq_dec (mT m) 5) as [E5|N5].
  { assert (H := slide_refines p m Left Hs Hok Ht E5). destruct (mv p m); tauto. }
  destruct (N.eq_dec (mT m) 6) as [E6|N6].
  { assert (H := slide_refines p m Right Hs Hok Ht E6). destruct (mv p m); tauto. }
  destruct (N.eq_dec (mT m) 7) as [E7|N7].
  { assert (H := slide_refines p m Up Hs Hok Ht E7). destruct (mv p m); tauto. }
  destruct (N.eq_dec (mT m) 8) as [E8|N8].
  { assert (H := slide_refines p m Down Hs Hok Ht E8). destruct (mv p m); tauto. }
  (* not a move at all *)
  assert (Hdec : decode (raw m) = None).
  { unfold decode; cbn [raw mtype]. destruct (mT m) as [|q]; [reflexivity|]; do 4 (try destruct q as [q|q|]); try reflexivity; try contradiction; try lia. }
  unfold rules_move. rewrite Hdec. unfold mv, move_prealloc.
  destruct (true && _ && negb (mT m =? 1)%N); [reflexivity|].
  destruct (mT m) as [|q]; [reflexivity|]; do 4 (try destruct q as [q|q|]); try reflexivity; try contradiction; try lia.
Qed.
Print Assumptions move_refines_rules.
