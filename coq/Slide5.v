From Coq Require Import NArith ZArith Arith List Bool Lia ZifyN ZifyBool ZifyNat.
Require Import Board Stack Rules Move Refine RefinePlace RefinePlace2 RefinePlace3 Slide1 Slide2 Slide3 Slide4.
Import ListNotations.
Ltac Zify.zify_post_hook ::= Z.div_mod_to_equations.

Lemma carried_singleton topk stack ct :
  (exists cc, carried topk stack ct = [(cc, Rules.Cap)]) <-> (ct = 1%nat /\ topk = KCap).
Proof.
  split.
  - intros [cc H]. assert (Hl := carried_length topk stack ct). rewrite H in Hl. cbn in Hl. split; [lia|].
    subst ct. unfold carried in H. cbn in H. injection H as _ H. destruct topk; cbn in H; congruence.
  - intros [-> ->]. unfold carried. cbn. eauto.
Qed.

Lemma drop_at_land topk stack ct cN i b :
  (i < 64)%N -> (N.to_nat i < length (bhs b))%nat -> length (bst b) = length (bhs b) ->
  sq_ok b i -> (1 <= cN <= ct)%N -> (ct <= 64)%N -> (nthN (bhs b) i + cN <= 64)%N ->
  match drop_at hsq topk stack ct cN i b with
  | Ok b' => land_on (carried topk stack (N.to_nat ct)) cN (abs_stack_b b i) = Some (abs_stack_b b' i)
             /\ sq_ok b' i /\ same_elsewhere b b' i /\ nthN (bhs b') i = (nthN (bhs b) i + cN)%N
  | Err => land_on (carried topk stack (N.to_nat ct)) cN (abs_stack_b b i) = None
  | Panic => False
  end.
Proof.
  intros Hi Hl Hl2 Hok Hcn Hct Hfit.
  rewrite drop_at_unfold by assumption.
  assert (Hok' := Hok). destruct Hok' as [Hh Hocc Hex Htop Hsc].
  set (h := nthN (bhs b) i) in *.
  assert (Hlen := carried_length topk stack (N.to_nat ct)).
  destruct (has (bc b) i) eqn:Ec.
  - (* capstone on the target *)
    assert (h <> 0)%N by (intros E; apply Htop in E; destruct E; congruence).
    assert (has (bs b) i = false) by (destruct (has (bs b) i); [discriminate|reflexivity]).
    unfold land_on, abs_stack_b. fold h. destruct (N.eqb_spec h 0); [contradiction|].
    rewrite H0, Ec. reflexivity.
  - destruct (has (bs b) i) eqn:Es.
    + (* wall on the target *)
      assert (h <> 0)%N by (intros E; apply Htop in E; destruct E; congruence).
      assert (Ht : abs_stack_b b i = (colour_of (has (bb b) i), Rules.Standing) :: flats (bits (N.to_nat h - 1) (nthN (bst b) i))).
      { unfold abs_stack_b. fold h. destruct (N.eqb_spec h 0); [contradiction|]. now rewrite Es, Ec. }
      destruct (negb (ct =? 1)%N || negb match topk with KCap => true | _ => false end) eqn:Eflat.
      * (* not a lone capstone: rejected *)
        unfold land_on. rewrite Ht.
        destruct (carried topk stack (N.to_nat ct)) as [|[cc [| |]] [|? ?]] eqn:Ecar; try reflexivity.
        exfalso. assert (Hs : N.to_nat ct = 1%nat /\ topk = KCap) by (apply (proj1 (carried_singleton topk stack (N.to_nat ct))); eauto).
        destruct Hs as [Hs ->]. replace (ct =? 1)%N with true in Eflat by lia. discriminate.
      * (* flatten *)
        assert (Hs : N.to_nat ct = 1%nat /\ topk = KCap).
        { apply orb_false_elim in Eflat as [E1 E2]. apply negb_false_iff, N.eqb_eq in E1.
          split; [rewrite E1; reflexivity|]. destruct topk; try discriminate; reflexivity. }
        destruct (proj2 (carried_singleton topk stack (N.to_nat ct)) Hs) as [cc Hcar].
        destruct (drop_result_sq topk stack ct cN i b (clrb (bs b) i)) as (A & B & C & D); auto.
        { now apply has_clrb_same. } { intros; now apply has_clrb_other. }
        split; [|split; [|split]; assumption].
        rewrite A. unfold land_on. rewrite Ht, Hcar. f_equal.
        destruct Hs as [Hs _]. rewrite Hs. cbn [length]. f_equal.
        unfold flat_target. fold h. destruct (N.eqb_spec h 0); [contradiction|reflexivity].
    + (* flat or empty target *)
      destruct (drop_result_sq topk stack ct cN i b (bs b)) as (A & B & C & D); auto.
      split; [|split; [|split]; assumption].
      rewrite A. unfold land_on.
      assert (Ht : abs_stack_b b i = flat_target b i).
      { unfold abs_stack_b, flat_target. fold h. destruct (h =? 0)%N; [reflexivity|]. now rewrite Es, Ec. }
      rewrite Ht, Hlen. unfold flat_target. fold h. destruct (h =? 0)%N; reflexivity.
Qed.
Print Assumptions drop_at_land.
