(* SearchRand3.v: SearchRand2.get_move_legal with the rules-engine and evaluator hypotheses discharged (instantiated model, both
   evaluators of the check, every board size, games of at most 64 pieces), and computed examples - among them a PANIC of the randomised
   GetMove when RandomizeScale exceeds RandomizeWindow. *)
From Coq Require Import NArith ZArith List Bool Lia.
Require Import Board Stack Rules Move GameOver Refine Alloc Slide2 Slide6 Preserve1 Preserve5 Preserve6 Reach1 PreserveEx.
Require Import Eval EvalSpec Search NegamaxSpec SearchGen SearchExact SearchInst SearchC CancelEx.
Require Import SearchNeg2 SearchNeg3 SearchNeg4 SearchNeg5 SearchLegal1 SearchLegal2 SearchLegal3 SearchLegal4 SearchAllLegal SearchAllLegal2 SearchRand SearchRand2.
Require Import Generated.Consts.
Import ListNotations.
Open Scope Z_scope.

(* The randomised GetMove, every configuration (any table, null move, slide reduction, multi-cut, sorting, any cancellation point k, any
   oracle stream rnd), 0 < RandomizeWindow <= 2^29, any RandomizeScale: if the model returns a move m, then either Analyze reported no line
   and m is the zero move, or MovePreallocated accepts m at p; the engine state satisfies SJ again.  The run panics only if RandomizeScale
   is not 1 (or the position had 2^31 generated moves). *)
Theorem get_move_legal_64 : forall cfg, builtin_eval cfg ->
  forall k rw rsc rnd s p, 0 < rw <= 2 ^ 29 ->
  SJ s -> base_ok p -> is_over p = false -> (total p <= 64)%N ->
  move p + Z.max 1 (Z.max (c_depth cfg) (seed_depth s p)) <= max_terminal_ply ->
  seed_legal s p ->
  match get_move gen_basis cfg k rw rsc rnd s p with
  | Ok (s', m, _) => SJ s' /\ (r_pv (snd (analyze_cancel gen_basis cfg k s p)) = [] /\ m = move0 \/ exists q, Refine.mv p m = Ok q)
  | Err => True
  | Panic => ~ (rsc = 1 /\ Z.of_nat (length (all_moves p)) + 8 < 2 ^ 31)
  end.
Proof.
  intros cfg HE k rw rsc rnd s p Hrw HS Hb HO Ht Hm HSEED.
  pose proof (get_move_legal gen_basis cfg k rw rsc PosL PosL_anti PosL_step PosL_pass PosL_live (PosL_bound cfg HE) Hrw rnd s p HS HO) as R.
  assert (SEED : let '(base, ms0, v0) := az_root false (az_start s) p in (ms0 = [] \/ head_legal p ms0)).
  { unfold az_root. destruct (tt_get (az_start s) (phash p)) as [i|] eqn:ET; [|left; reflexivity].
    destruct (e_bound (nth i (table (az_start s)) entry0) =? 1)%N eqn:EB; [|left; reflexivity].
    right. destruct (HSEED i ET EB) as (q & E). eexists _, [], q. split; [reflexivity|exact E]. }
  unfold seed_depth in Hm. unfold analyze_cancel.
  destruct (az_root false (az_start s) p) as [[base ms0] v0]. cbn [fst] in Hm.
  specialize (R ltac:(intros d0 L; split; [exact Hb|split; [apply withinP_total64; [apply Hb|exact Ht]|lia]])).
  destruct (analyze_gen false gen_basis cfg k s p) as [sa [[[[pv v] d] acc] c]].
  destruct (get_move gen_basis cfg k rw rsc rnd s p) as [[[s' m] r0]| |]; [|exact I|exact R].
  destruct R as (A & B). split; [exact A|]. cbn [snd r_pv].
  destruct B as [(B1 & B2)|[(B1 & B2 & B3 & B4)|(Hm' & q & T)]].
  - left. split; assumption.
  - right. destruct SEED as [S0|(m0 & rest & q & E & T)]; [congruence|]. rewrite B2, E in B4. cbn [hd] in B4. subst m. exists q. exact T.
  - right. exists q. apply (try_move_mv p m q Hm'). exact T.
Qed.

(* ---- computed examples (vm_compute on the instantiated model) ---- *)
Definition gm_obs (r : res (sstate * rmove * list N)) : res (rmove * nat) :=
  match r with Ok (_, m, rest) => Ok (m, length rest) | Err => Err | Panic => Panic end.

Definition cfgr := mk_cfg 2 true false false true 0.     (* depth 2, NoSort, null move / slide reduction / multi-cut on, built-in evaluator *)
Definition p2 : position := match replay start3 [M 2 0 0 0; M 2 2 2 0]%Z%N with Ok p => p | _ => start3 end.      (* 3x3 after a1 c3 *)

(* RandomizeWindow = 10, RandomizeScale = 1, a 64-entry table, a stream of ten raw values: a legal move comes back, one value per counted move *)
Example getmove_random_ok :
  exists m used, gm_obs (get_move gen_basis cfgr 0 10 1 [5; 0; 3; 0; 0; 0; 0; 0; 0; 0]%N (new_state 64) p2) = Ok (m, (10 - used)%nat) /\
                 (exists q, Refine.mv p2 m = Ok q) /\ (1 <= used)%nat.
Proof. eexists _, 2%nat. split; [vm_compute; reflexivity|]. split; [eexists; vm_compute; reflexivity|lia]. Qed.

(* FINDING: RandomizeWindow = 10 with RandomizeScale = 100 (any scale larger than the window): the first counted move has
   pts = (cv - base) / scale = 0, the counter i stays 0 and rand.Int63n(0) PANICS ("invalid argument to Int63n").
   The real engine does the same (ai.MinimaxConfig{Size: 3, Depth: 2, RandomizeWindow: 10, RandomizeScale: 100}, 3x3 after a1 c3). *)
Example getmove_scale_panics :
  gm_obs (get_move gen_basis cfgr 0 10 100 [5; 0; 3; 0; 0; 0; 0; 0; 0; 0]%N (new_state 64) p2) = Panic /\
  gm_obs (get_move gen_basis cfgr 0 10 (-1) [5; 0; 3; 0; 0; 0; 0; 0; 0; 0]%N (new_state 64) p2) = Panic.
Proof. split; vm_compute; reflexivity. Qed.
