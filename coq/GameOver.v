(* Tak/GameOver.v + Tak/Hash.v + Tak/AllMoves.v (draft): code-shaped models of the rest of tak/game.go, hash.go, move.go *)
From Coq Require Import NArith ZArith List Bool Lia.
Require Import Board Move.
Import ListNotations.
Open Scope N_scope.

(* ---- bitboard.FloodGroups ---- *)
Fixpoint flood_groups (fuel : nat) (c : consts) (bits seen : N) (out : list N) : option (list N) :=
  match fuel with
  | O => None
  | S f =>
    if bits =? 0 then Some out else
    let next := N.land bits (bits - 1) in
    let b := N.ldiff bits next in
    if N.land seen b =? 0 then
      match flood 65 c bits b with
      | None => None
      | Some g => flood_groups f c next (N.lor seen g) (if g =? b then out else out ++ [g])
      end
    else flood_groups f c next seen out
  end.

Definition groups (c : consts) (bits : N) : option (list N) := flood_groups 65 c bits 0 [].

Fixpoint popcount_pos (p : positive) : N :=
  match p with xH => 1 | xO q => popcount_pos q | xI q => N.succ (popcount_pos q) end.
Definition popcount (x : N) : N := match x with 0 => 0 | Npos p => popcount_pos p end.

(* ---- game.go ---- *)
Definition spans (c : consts) (g : N) : bool :=
  (negb (N.land g (cT c) =? 0) && negb (N.land g (cB c) =? 0)) ||
  (negb (N.land g (cL c) =? 0) && negb (N.land g (cR c) =? 0)).

Inductive gcolor := GWhite | GBlack | GNone.

Definition has_road (p : position) (wg bg : list N) : option gcolor :=
  let c := precompute (size p) in
  let w := existsb (spans c) wg in let b := existsb (spans c) bg in
  if w && b then Some (if to_move_white p then GBlack else GWhite)
  else if w then Some GWhite else if b then Some GBlack else None.

Definition count_flats (p : position) : N * N :=
  (popcount (N.ldiff (White p) (N.lor (Standing p) (Caps p))), popcount (N.ldiff (Black p) (N.lor (Standing p) (Caps p)))).

Definition flats_winner (p : position) : gcolor :=
  let '(cw, cb) := count_flats p in
  if cb <? cw then GWhite else if cw <? cb then GBlack else if black_wins_ties p then GBlack else GNone.

Definition analyze (p : position) : option (list N * list N) :=
  let c := precompute (size p) in
  match groups c (N.ldiff (White p) (Standing p)), groups c (N.ldiff (Black p) (Standing p)) with
  | Some w, Some b => Some (w, b) | _, _ => None end.

Definition game_over (p : position) : option (bool * gcolor) :=
  match analyze p with
  | None => None
  | Some (wg, bg) =>
    match has_road p wg bg with
    | Some c => Some (true, c)
    | None =>
      if negb (u8 (whiteStones p + whiteCaps p) =? 0) && negb (u8 (blackStones p + blackCaps p) =? 0) &&
         negb (N.lor (White p) (Black p) =? cMask (precompute (size p)))
      then Some (false, GNone) else Some (true, flats_winner p)
    end
  end.

(* ---- hash.go, with the real constants as parameters ---- *)
Section HashFns.
Variable basis : list N.           (* 64 words from math/rand seeded 0x7a3 *)
Definition fnvPrime : N := 1099511628211.
Definition fnvBasis : N := 14695981039346656037.
Definition mul64 (a b : N) : N := (a * b) mod 2^64.
Definition hash8 (h b : N) : N := mul64 (N.lxor h b) fnvPrime.
Definition hash64 (basis w : N) : N :=
  let h := basis in
  let h := mul64 (N.lxor h (N.land w 255)) fnvPrime in
  let h := mul64 (N.lxor h (N.land (N.shiftr w 8) 255)) fnvPrime in
  let h := mul64 (N.lxor h (N.land (N.shiftr w 16) 255)) fnvPrime in
  mul64 (N.lxor h (N.shiftr w 24)) fnvPrime.
Definition hash_sq (i h s : N) : N := hash64 (hash8 (nthN basis i) h) s.
Definition hash_of (p : position) : N :=
  let h := hash p in
  let h := hash64 h (White p) in let h := hash64 h (Black p) in
  let h := hash64 h (Standing p) in let h := hash64 h (Caps p) in
  hash8 h (if to_move_white p then 128 else 64).
End HashFns.

(* ---- move.go: calculateSlides / AllMoves ---- *)
Definition prepend (s next : N) : N := N.land (N.lor (N.shiftl s 4) next) (N.ones 32).
(* slides[h] for h = 0..8, built exactly like init(): each table from the previous ones *)
Definition calc_slides (tables : list (list N)) (stack : nat) : list N :=
  flat_map (fun i => N.of_nat i :: map (fun sub => prepend sub (N.of_nat i)) (nth (stack - i) tables []))
           (seq 1 stack).
Fixpoint build_tables (k : nat) : list (list N) :=      (* tables for 0..k *)
  match k with
  | O => [[]]
  | S j => let t := build_tables j in t ++ [calc_slides t (S j)]
  end.
Definition slides_table : list (list N) := build_tables 8.

Definition all_moves (p : position) : list rmove :=
  let sz := N.to_nat (size p) in
  let white := to_move_white p in
  let cap := if white then 0 <? whiteCaps p else 0 <? blackCaps p in
  flat_map (fun x => flat_map (fun y =>
    let i := N.of_nat (y * sz + x) in
    let X := Z.of_nat x in let Y := Z.of_nat y in
    if nthN (Height p) i =? 0 then
      {| mX := X; mY := Y; mT := 2; mS := 0 |} ::
      (if (2 <=? move p)%Z then {| mX := X; mY := Y; mT := 3; mS := 0 |} ::
         (if cap then [{| mX := X; mY := Y; mT := 4; mS := 0 |}] else []) else [])
    else if (move p <? 2)%Z then []
    else if white && negb (has (White p) i) then []
    else if negb white && negb (has (Black p) i) then []
    else
      let h := N.min (nthN (Height p) i) (size p) in
      flat_map (fun dc : N * nat =>
        let mask := N.ldiff (N.ones 32) (N.ones (4 * N.of_nat (snd dc))) in
        flat_map (fun s => if N.land s mask =? 0 then [{| mX := X; mY := Y; mT := fst dc; mS := s |}] else [])
                 (nth (N.to_nat h) slides_table []))
        [(5%N, x); (6%N, (sz - x - 1)%nat); (8%N, y); (7%N, (sz - y - 1)%nat)])
    (seq 0 sz)) (seq 0 sz).

(* the from-scratch value of Position.hash (what FromSquares computes) *)
Definition scratch_hash (basis : list N) (p : position) : N :=
  fold_left (fun acc i => N.lxor acc (hash_at (hash_sq basis) (Height p) (Stacks p) (N.of_nat i)))
            (seq 0 (length (Height p))) fnvBasis.

(* ---- game.go WinDetails, ptn.ResultFromGame ---- *)
Record windetails := { wd_over : bool; wd_road : bool; wd_winner : gcolor; wd_wflats : N; wd_bflats : N }.
Definition win_details (p : position) : option windetails :=
  match analyze p, game_over p with
  | Some (wg, bg), Some (o, c) =>
    let '(w, b) := count_flats p in
    Some {| wd_over := o; wd_road := match has_road p wg bg with Some _ => true | None => false end;
            wd_winner := c; wd_wflats := w; wd_bflats := b |}
  | _, _ => None
  end.
Inductive result_text := RDraw | RWhite (road : bool) | RBlack (road : bool).      (* "1/2-1/2" "R-0"/"F-0" "0-R"/"0-F" *)
Definition result_from_game (d : windetails) : res result_text :=
  if negb (wd_over d) then Panic                                       (* panic("game is not over") *)
  else match wd_winner d with
       | GNone => Ok RDraw
       | GWhite => Ok (RWhite (wd_road d))
       | GBlack => Ok (RBlack (wd_road d))
       end.

(* ---- hash.go Position.Equal (sizes equal => Height/Stacks have equal lengths) ---- *)
Fixpoint lists_eqb (a b : list N) : bool :=
  match a, b with
  | [], _ => true                                   (* `for i := range p.Height` : ranges over p's slice *)
  | x :: a', y :: b' => (x =? y) && lists_eqb a' b'
  | _ :: _, [] => false                             (* would be an index panic; unreachable for equal sizes *)
  end.
Definition equal (p q : position) : bool :=
  (size p =? size q) && (hash p =? hash q) && (White p =? White q) && (Black p =? Black q) &&
  (Standing p =? Standing q) && (Caps p =? Caps q) && Bool.eqb (to_move_white p) (to_move_white q) &&
  lists_eqb (Height p) (Height q) && lists_eqb (Stacks p) (Stacks q).
