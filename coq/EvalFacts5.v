(* Proofs for C18, part 5: finished games; the numeric side conditions on the regenerated constants. *)
From Coq Require Import NArith ZArith List Bool Lia ZifyN ZifyBool ZifyNat.
Require Import Board Move GameOver Masks Eval EvalSpec EvalInst EvalFacts1 EvalFacts2 EvalFacts4.
Require Import Generated.Consts.
Import ListNotations.
Open Scope N_scope.
Open Scope Z_scope.

(* The thresholds transcribed in Eval.v are the implementation's. *)
Lemma eval_consts_current : gen_WinBase = WinBase /\ gen_ForcedWin = ForcedWin /\ gen_MaxFeature = MaxFeature /\
  gen_WinBase = ((gen_WinThreshold + gen_MaxEval) / 2)%Z.
Proof. repeat split; reflexivity. Qed.

Lemma evaluate_finished w p wg bg winner : analyze p = Some (wg, bg) -> game_over p = Some (true, winner) ->
  evaluate w p = Ok (evaluate_terminal p w wg bg winner).
Proof. intros A G. unfold evaluate. rewrite A, G. reflexivity. Qed.

Lemma game_over_cases p wg bg o winner : analyze p = Some (wg, bg) -> game_over p = Some (o, winner) ->
  (exists c, has_road p wg bg = Some c /\ o = true /\ winner = c /\ c <> GNone) \/
  (has_road p wg bg = None /\ (o = false \/ winner = flats_winner p)).
Proof.
  intros A G. revert G. unfold game_over. rewrite A. intro G.
  destruct (has_road p wg bg) as [c|] eqn:R.
  - left. exists c. inversion G; subst. repeat split; try reflexivity.
    unfold has_road in R. destruct (existsb _ wg && existsb _ bg); [destruct (to_move_white p)|destruct (existsb _ wg); [|destruct (existsb _ bg)]];
      inversion R; discriminate.
  - right. split; [reflexivity|]. destruct (_ && _ && _); inversion G; auto.
Qed.

Lemma game_over_none p : analyze p = None -> game_over p = None.
Proof. intro A. unfold game_over. rewrite A. reflexivity. Qed.
Lemma game_over_some p wg bg : analyze p = Some (wg, bg) -> exists o c, game_over p = Some (o, c).
Proof.
  intro A. unfold game_over. rewrite A. destruct (has_road p wg bg); [eauto|]. destruct (_ && _ && _); eauto.
Qed.

(* the value of a finished game: 0 for a draw, otherwise +-v with v between term_lo and term_hi *)
Theorem terminal_value : forall w p winner M, shape_ok p -> game_over p = Some (true, winner) -> 0 <= move p <= M ->
  match winner with
  | GNone => evaluate w p = Ok 0
  | _ => exists v, term_lo w M <= v <= term_hi w M /\ evaluate w p = Ok (if mover_wins p winner then v else - v)
  end.
Proof.
  intros w p winner M (Hs & Hlen & Hh & HW & HB & HS & HC & Hws & Hbs) G Hm.
  apply lt_hi0 in HW, HB.
  destruct (analyze p) as [[wg bg]|] eqn:A.
  2:{ rewrite (game_over_none p A) in G. discriminate. }
  rewrite (evaluate_finished w p wg bg winner A G).
  destruct (game_over_cases p wg bg true winner A G) as [(c & R & _ & -> & Hc)|(R & [F|F])]; try discriminate.
  - (* road *)
    unfold evaluate_terminal. rewrite R.
    destruct (count_flats p) as [wf bf].
    destruct c; try congruence; cbv beta iota zeta; cbn [mover_wins]; rewrite orb_true_r;
      (eexists; split; [|reflexivity]); unfold term_lo, term_hi; nia.
  - (* flats *)
    subst winner. unfold evaluate_terminal. rewrite R.
    unfold flats_winner. unfold count_flats.
    pose proof (pc64 _ (hi0_ldiff 64 (White p) (N.lor (Standing p) (Caps p)) HW)) as PW.
    pose proof (pc64 _ (hi0_ldiff 64 (Black p) (N.lor (Standing p) (Caps p)) HB)) as PB.
    unfold pc in PW, PB.
    set (cw := popcount (N.ldiff (White p) (N.lor (Standing p) (Caps p)))) in *.
    set (cb := popcount (N.ldiff (Black p) (N.lor (Standing p) (Caps p)))) in *.
    clearbody cw cb.
    assert (Hsz : 3 <= Z.of_N (size p) <= 8) by lia.
    destruct (N.ltb_spec cb cw) as [L1|L1]; [|destruct (N.ltb_spec cw cb) as [L2|L2]; [|destruct (black_wins_ties p)]];
      cbv beta iota zeta; cbn [mover_wins]; try reflexivity; rewrite ?orb_false_r;
      (eexists; split; [|reflexivity]); unfold term_lo, term_hi;
      match goal with |- context [Z.ltb ?a ?b] => destruct (Z.ltb_spec a b) end; nia.
Qed.

(* ---- numeric side conditions, recomputed by coqc from the regenerated constants ---- *)
Theorem builtin_in_range : Forall (fun w => bound w < gen_WinThreshold) gen_DefaultWeights.
Proof.
  assert (B : forallb (fun w => bound w <? gen_WinThreshold) gen_DefaultWeights = true) by (vm_compute; reflexivity).
  apply Forall_forall. intros w Hw. rewrite forallb_forall in B. apply Z.ltb_lt. now apply B.
Qed.

Lemma builtin_terminal_margins :
  Forall (fun w => gen_WinThreshold < term_lo w max_terminal_ply /\ term_hi w max_terminal_ply <= gen_MaxEval) gen_DefaultWeights.
Proof.
  assert (B : forallb (fun w => (gen_WinThreshold <? term_lo w max_terminal_ply) && (term_hi w max_terminal_ply <=? gen_MaxEval)) gen_DefaultWeights = true)
    by (vm_compute; reflexivity).
  apply Forall_forall. intros w Hw. rewrite forallb_forall in B. specialize (B w Hw). lia.
Qed.
(* the ply bound is sharp for the margin: one ply more and the lower bound of a won game's value reaches the threshold *)
Lemma max_terminal_ply_sharp : Forall (fun w => term_lo w (max_terminal_ply + 1) <= gen_WinThreshold) gen_DefaultWeights.
Proof.
  assert (B : forallb (fun w => term_lo w (max_terminal_ply + 1) <=? gen_WinThreshold) gen_DefaultWeights = true) by (vm_compute; reflexivity).
  apply Forall_forall. intros w Hw. rewrite forallb_forall in B. specialize (B w Hw). lia.
Qed.

Lemma default_weights_in sz : (3 <= sz <= 8)%N -> In (default_weights sz) gen_DefaultWeights.
Proof.
  intro H. unfold default_weights. apply nth_In.
  assert (L : (9 <= length gen_DefaultWeights)%nat) by (vm_compute; lia). lia.
Qed.

Lemma eval_default_eq p : eval_default p = evaluate (default_weights (size p)) p.
Proof. reflexivity. Qed.

(* C18, unfinished games: the built-in evaluator stays strictly inside the undecided range *)
Theorem heuristic_in_range : forall p c v, shape_ok p -> game_over p = Some (false, c) -> eval_default p = Ok v ->
  Z.abs v < gen_WinThreshold.
Proof.
  intros p c v Hs G E. pose proof Hs as (Hsz & _). rewrite eval_default_eq in E.
  pose proof (eval_bound (default_weights (size p)) p c v Hs G E) as B.
  pose proof builtin_in_range as R. rewrite Forall_forall in R. specialize (R _ (default_weights_in (size p) Hsz)).
  exact (Z.le_lt_trans _ _ _ B R).
Qed.

(* C18, finished games *)
Theorem terminal_outside : forall w, In w gen_DefaultWeights -> forall p winner, shape_ok p -> game_over p = Some (true, winner) ->
  0 <= move p <= max_terminal_ply ->
  match winner with
  | GNone => evaluate w p = Ok 0
  | _ => exists v, evaluate w p = Ok v /\ gen_WinThreshold < Z.abs v <= gen_MaxEval /\ (0 < v <-> mover_wins p winner = true)
  end.
Proof.
  intros w Hw p winner Hs G Hm.
  pose proof builtin_terminal_margins as R. rewrite Forall_forall in R. destruct (R w Hw) as [R1 R2].
  pose proof (terminal_value w p winner max_terminal_ply Hs G Hm) as T.
  assert (0 < gen_WinThreshold) by reflexivity.
  destruct winner; [| |assumption]; destruct T as (v & Hv & ->); destruct (mover_wins p _);
    eexists; (split; [reflexivity|]); split; try lia; split; intros; try lia; discriminate.
Qed.

Theorem winner_eval_outside : forall p winner, game_over p = Some (true, winner) ->
  match winner with
  | GNone => eval_winner p = Ok 0
  | _ => exists v, eval_winner p = Ok v /\ gen_WinThreshold < Z.abs v <= gen_MaxEval /\ (0 < v <-> mover_wins p winner = true)
  end.
Proof.
  intros p winner G. unfold eval_winner. rewrite G.
  assert (gen_WinThreshold < WinBase <= gen_MaxEval) by (vm_compute; split; [reflexivity|discriminate]).
  assert (0 < gen_WinThreshold) by reflexivity.
  destruct winner; [| |reflexivity]; cbn [mover_wins]; destruct (to_move_white p); cbn [negb];
    eexists; (split; [reflexivity|]); split; try lia; split; intros; try lia; discriminate.
Qed.
Theorem winner_eval_unfinished : forall p c, game_over p = Some (false, c) -> eval_winner p = Ok 0.
Proof. intros p c G. unfold eval_winner. rewrite G. reflexivity. Qed.

(* every value of the built-in evaluator lies inside the root window [-MaxEval, MaxEval] *)
Theorem all_in_root_window : forall p v, shape_ok p -> 0 <= move p <= max_terminal_ply -> eval_default p = Ok v ->
  Z.abs v <= gen_MaxEval.
Proof.
  intros p v Hs Hm E. pose proof Hs as (Hsz & _).
  destruct (game_over p) as [[o winner]|] eqn:G.
  - destruct o.
    + pose proof (terminal_outside _ (default_weights_in (size p) Hsz) p winner Hs G Hm) as T. rewrite eval_default_eq in E.
      destruct winner; [| |rewrite T in E; inversion E; vm_compute; discriminate];
        destruct T as (v' & E' & B & _); rewrite E' in E; inversion E; subst; lia.
    + pose proof (heuristic_in_range p winner v Hs G E) as Hr. assert (gen_WinThreshold <= gen_MaxEval) by (vm_compute; discriminate). lia.
  - destruct (analyze p) as [[wg bg]|] eqn:A.
    + destruct (game_over_some p wg bg A) as (o & c & G'). congruence.
    + rewrite eval_default_eq, (evaluate_no_groups _ p A) in E. discriminate.
Qed.

(* ---- non-vacuity: the hypotheses of the theorems above are satisfiable ---- *)
Definition ex_start5 : position :=
  {| size := 5; black_wins_ties := false; whiteStones := 21; whiteCaps := 1; blackStones := 21; blackCaps := 1; move := 0;
     White := 0; Black := 0; Standing := 0; Caps := 0; Height := repeat 0%N 25; Stacks := repeat 0%N 25; hash := 0 |}.
(* a white road along the bottom row of a 3x3 board, two black flats above it, black to move *)
Definition ex_road3 : position :=
  {| size := 3; black_wins_ties := false; whiteStones := 7; whiteCaps := 0; blackStones := 8; blackCaps := 0; move := 5;
     White := 7; Black := 24; Standing := 0; Caps := 0; Height := [1; 1; 1; 1; 1; 0; 0; 0; 0]%N; Stacks := repeat 0%N 9; hash := 0 |}.
Lemma shape_ok_dec_ex : shape_ok ex_start5 /\ shape_ok ex_road3.
Proof.
  split; unfold shape_ok; cbn [size Height White Black Standing Caps whiteStones blackStones ex_start5 ex_road3];
    repeat split; try lia; try reflexivity; repeat constructor.
Qed.
Example eval_bound_nonvacuous : shape_ok ex_start5 /\ game_over ex_start5 = Some (false, GNone) /\ eval_default ex_start5 = Ok 250.
Proof. split; [apply shape_ok_dec_ex|]. split; vm_compute; reflexivity. Qed.
Example terminal_nonvacuous : shape_ok ex_road3 /\ game_over ex_road3 = Some (true, GWhite) /\ 0 <= move ex_road3 <= max_terminal_ply /\
  eval_default ex_road3 = Ok (-805307455).
Proof. split; [apply shape_ok_dec_ex|]. split; [vm_compute; reflexivity|]. split; [vm_compute; split; discriminate|]. vm_compute. reflexivity. Qed.
