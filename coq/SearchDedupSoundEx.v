(* SearchDedupSoundEx.v: non-vacuity of the soundness theorem for the dedup-capable model: empty 3x3 board, depth 2, a 64-entry table,
   slide reduction and multi-cut switched on, no null move, DedupSymmetry ON, two calls (the first cancelled). *)
From Coq Require Import NArith ZArith List Bool Lia.
Require Import Board Stack Rules Move GameOver Refine Alloc Preserve1 Reach1 PreserveEx CancelEx Import5.
Require Import Eval EvalSpec Search NegamaxSpec SearchGen SearchExact SearchInst SearchC SearchNeg2 SearchNeg5.
Require Import SearchTable1 SearchTable4 SearchTable5 SearchTable7 SearchTable8 SearchDedup SearchDedupInst SearchDedup3 SearchDedup4 SearchDedupEx SearchDedupSound.
Require Import Generated.Consts.
Import ListNotations.
Open Scope Z_scope.

Definition cfgRd := mk_cfg 2 true true false true 1.      (* depth 2, NoSort, no null move, slide reduction ON, multi-cut ON, EvaluateWinner *)

Lemma coll_free_dd : coll_free (lev start3 2) = true.
Proof. vm_compute. reflexivity. Qed.

Lemma touch_dd : touch_set_d Udd.
Proof.
  split; [apply touch_levels; exact coll_free_dd|].
  intros d p q q' k ((_ & (LE & Hp)) & _) EO Hm Hq Hq' Hk E.
  apply (nc_checkb_ok _ nc_check_ex p q q' k); try assumption.
  assert (J : exists j, (2 - S d)%nat = j /\ (j <= 1)%nat) by (eexists; split; [reflexivity|lia]). destruct J as (j & EJ & LJ). rewrite EJ in Hp.
  destruct j as [|[|j]]; [apply lev_mono; exact Hp|exact Hp|lia].
Qed.

Lemma ask_dd : ask_sd Udd cfgRd start3.
Proof.
  assert (Hb : base_ok start3) by (rewrite start3_new; apply base_ok_new; lia).
  split; [|exact G_start3]. unfold ask_s. split; [exact Hb|]. split; [vm_compute; intros F; discriminate F|].
  split; [vm_compute; intros F; discriminate F|]. split; [vm_compute; reflexivity|].
  intros d Hd. change (c_depth cfgRd) with 2 in Hd. apply Ulev_root. lia.
Qed.

Definition runS1 := run_analyze_d true cfgRd 7 (new_state 64) start3.
Definition runS2 := run_analyze_d true cfgRd 0 (fst runS1) start3.

Example dedup_sound_applies :
  c_nonull cfgRd = true /\ c_noreduce cfgRd = false /\ c_multicut cfgRd = true /\ touch_set_d Udd /\ ask_sd Udd cfgRd start3 /\
  r_canceled (snd runS1) = true /\ r_depth (snd runS2) = 2 /\ sound_verdict gen_basis start3 (r_value (snd runS2)).
Proof.
  assert (BE : builtin_eval cfgRd) by (left; reflexivity).
  assert (E1 : analyze_gen_d gen_basis cfgRd 7 true (new_state 64) start3 = (fst runS1, snd runS1))
    by (unfold runS1, run_analyze_d; destruct (analyze_gen_d gen_basis cfgRd 7 true (new_state 64) start3); reflexivity).
  assert (E2 : analyze_gen_d gen_basis cfgRd 0 true (fst runS1) start3 =
               (fst runS2, (r_pv (snd runS2), r_value (snd runS2), r_depth (snd runS2), r_acc_d (snd runS2), r_canceled (snd runS2)))).
  { unfold runS2, run_analyze_d. destruct (analyze_gen_d gen_basis cfgRd 0 true (fst runS1) start3) as [s [[[[pv v] d] acc] c]]. reflexivity. }
  pose proof (engsd_call Udd _ cfgRd 7 true start3 _ _ (engsd_new Udd 64) eq_refl BE ask_dd E1) as G1.
  pose proof (analyze_d_sound_any_inst Udd touch_dd (fst runS1) cfgRd 0 true start3 (fst runS2) (r_pv (snd runS2)) (r_value (snd runS2)) (r_depth (snd runS2))
                (r_acc_d (snd runS2)) (r_canceled (snd runS2)) G1 eq_refl BE ask_dd E2) as SV.
  split; [reflexivity|]. split; [reflexivity|]. split; [reflexivity|]. split; [exact touch_dd|]. split; [exact ask_dd|].
  split; [vm_compute; reflexivity|]. split; [vm_compute; reflexivity|exact SV].
Qed.
