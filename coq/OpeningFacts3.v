(* OpeningFacts3.v (C04, opening book): OpeningBook.GetMove never panics on a book that BuildOpeningBook returned.
   The only panic in GetMove is rand.Int31n's "invalid argument" for int32(sum) <= 0.  Every reply enters the book with
   weight 1 and every further occurrence adds 1, at most once per kept symmetric image (<= 8) per word of a line; so the
   weights of an entry sum to at most 8 * (number of words), and below 2^31 neither the Go int sum nor its int32
   conversion wraps.  No hypothesis on the queried position, on hash collisions or on the random source is needed. *)
From Coq Require Import NArith ZArith Arith List Bool Lia ZifyN ZifyBool ZifyNat.
Require Import Board Move GameOver Refine Generated.Consts Tps Symmetry Import5.
Require PtnMove.
Require Import Opening OpeningFacts.
Import ListNotations.
Local Open Scope Z_scope.

Definition sumw (ms : list child) : Z := fold_right (fun c a => ch_weight c + a) 0 ms.
Definition wok (K : Z) (b : book) : Prop := Forall (fun e => Forall (fun c => 1 <= ch_weight c) (be_moves e) /\ sumw (be_moves e) <= K) b.

Lemma wrap64_small z : -9223372036854775808 <= z < 9223372036854775808 -> wrap64 z = z.
Proof. intros H. unfold wrap64. rewrite Z.mod_small by lia. lia. Qed.
Lemma wrap32_small z : -2147483648 <= z < 2147483648 -> wrap32 z = z.
Proof. intros H. unfold wrap32. rewrite Z.mod_small by lia. lia. Qed.

Lemma sumw_ge ms : Forall (fun c => 1 <= ch_weight c) ms -> 0 <= sumw ms.
Proof. induction 1; cbn [sumw fold_right]; [lia|]. fold (sumw l). lia. Qed.

Lemma bump_w K ms sm : Forall (fun c => 1 <= ch_weight c) ms -> sumw ms <= K -> K < 4611686018427387904 ->
  Forall (fun c => 1 <= ch_weight c) (bump ms sm) /\ sumw (bump ms sm) = sumw ms + 1.
Proof.
  intros H. revert K. induction H as [|c r Hc Hr IH]; intros K Hs HK; cbn [bump].
  - split; [constructor; [|constructor]|]; cbn [ch_weight sumw fold_right]; rewrite wrap64_small by lia; lia.
  - cbn [sumw fold_right] in Hs. fold (sumw r) in Hs. pose proof (sumw_ge r Hr) as H0.
    destruct (move_equal (ch_move c) sm).
    + split; [constructor; [|exact Hr]|]; cbn [ch_weight sumw fold_right]; fold (sumw r); rewrite wrap64_small by lia; lia.
    + destruct (IH (K - ch_weight c) ltac:(lia) ltac:(lia)) as (A & B).
      split; [constructor; assumption|]. cbn [sumw fold_right]. fold (sumw (bump r sm)) (sumw r). lia.
Qed.

Lemma book_bump_w K b h sm : 0 <= K < 4611686018427387904 - 1 -> wok K b -> wok (K + 1) (book_bump b h sm).
Proof.
  intros HK. induction 1 as [|e r [He1 He2] Hr IH]; cbn [book_bump]; [constructor|].
  assert (Mono : forall l, wok K l -> wok (K + 1) l).
  { intros l Hl. eapply Forall_impl; [|exact Hl]. cbn beta. intros a [A B]. split; [exact A|lia]. }
  destruct (be_hash e =? h)%N.
  - constructor; [|now apply Mono]. cbn [be_moves]. destruct (bump_w K (be_moves e) sm He1 He2 ltac:(lia)) as (A & B). split; [exact A|lia].
  - constructor; [split; [exact He1|lia]|exact IH].
Qed.

Lemma add_sym_w sz m K b qk b' : 0 <= K < 4611686018427387904 - 1 -> wok K b -> add_sym sz m (Ok b) qk = Ok b' -> wok (K + 1) b'.
Proof.
  intros HK Hb H. unfold add_sym in H. destruct (transform_move _ m) as [sm| |]; try discriminate. injection H as <-.
  apply book_bump_w; [exact HK|]. destruct (book_get b (hash_of (fst qk))); [exact Hb|].
  apply Forall_app. split; [exact Hb|]. constructor; [|constructor]. cbn [be_moves sumw fold_right]. split; [constructor|lia].
Qed.

Lemma add_sym_stuck sz m L (r : Move.res book) : (forall b, r <> Ok b) -> fold_left (add_sym sz m) L r = r.
Proof. induction L as [|x L IH]; intros H; cbn [fold_left]; [reflexivity|]. destruct r; [exfalso; eapply H; reflexivity|apply IH; exact H|apply IH; exact H]. Qed.

Lemma fold_add_sym_w sz m : forall L K b b', 0 <= K -> K + Z.of_nat (length L) < 4611686018427387904 - 1 -> wok K b ->
  fold_left (add_sym sz m) L (Ok b) = Ok b' -> wok (K + Z.of_nat (length L)) b'.
Proof.
  induction L as [|x L IH]; intros K b b' HK HL Hb H; cbn [fold_left length] in *.
  - injection H as <-. now rewrite Z.add_0_r.
  - destruct (add_sym sz m (Ok b) x) as [b1| |] eqn:E.
    + pose proof (add_sym_w sz m K b x b1 ltac:(lia) Hb E) as Hb1.
      replace (K + Z.of_nat (Datatypes.S (length L))) with (K + 1 + Z.of_nat (length L)) by lia.
      apply (IH (K + 1) b1 b'); [lia|lia|exact Hb1|exact H].
    + rewrite add_sym_stuck in H by (intros; discriminate). discriminate.
    + rewrite add_sym_stuck in H by (intros; discriminate). discriminate.
Qed.

Lemma firsts_length {A} (key : A -> N) : forall l seen, (length (firsts key seen l) <= length l)%nat.
Proof.
  induction l as [|a r IH]; intros seen; cbn [firsts length]; [apply Nat.le_refl|].
  destruct (existsb _ _).
  - apply Nat.le_trans with (length r); [apply IH|apply Nat.le_succ_diag_r].
  - cbn [length]. apply le_n_S. apply IH.
Qed.

Lemma symmetries_length p : (length (symmetries gen_basis p) <= 8)%nat.
Proof. rewrite symmetries_firsts. etransitivity; [apply firsts_length|]. unfold all_images. now rewrite map_length, seq_length. Qed.

Lemma wok_mono K K' b : K <= K' -> wok K b -> wok K' b.
Proof. intros H Hb. eapply Forall_impl; [|exact Hb]. cbn beta. intros a [A B]. split; [exact A|lia]. Qed.

Lemma line_step_w K b p w b' p' : 0 <= K -> K + 8 < 4611686018427387904 - 1 -> wok K b ->
  line_step gen_basis (LOk b p) w = LOk b' p' -> wok (K + 8) b'.
Proof.
  intros HK HL Hb H. unfold line_step in H. destruct (PtnMove.parse_move w) as [m0| |]; try discriminate.
  destruct (fold_left _ (symmetries gen_basis p) (Ok b)) as [b1| |] eqn:F; try discriminate.
  pose proof (symmetries_length p) as Hlen.
  assert (HL' : K + Z.of_nat (length (symmetries gen_basis p)) < 4611686018427387904 - 1) by lia.
  pose proof (fold_add_sym_w _ _ (symmetries gen_basis p) K b b1 HK HL' Hb F) as Hb1.
  destruct (bmove gen_basis p (to_rmove m0)) as [p1| |]; try discriminate. injection H as <- _.
  apply (wok_mono (K + Z.of_nat (length (symmetries gen_basis p)))); [lia|exact Hb1].
Qed.

Lemma line_fold_w : forall ws K b p b' p', 0 <= K -> K + 8 * Z.of_nat (length ws) < 4611686018427387904 - 1 -> wok K b ->
  fold_left (line_step gen_basis) ws (LOk b p) = LOk b' p' -> wok (K + 8 * Z.of_nat (length ws)) b'.
Proof.
  induction ws as [|w r IH]; intros K b p b' p' HK HL Hb H; cbn [fold_left length] in *.
  - injection H as <- _. now rewrite Z.add_0_r.
  - destruct (line_step gen_basis (LOk b p) w) as [b1 p1|kd wd|] eqn:E.
    + pose proof (line_step_w K b p w b1 p1 HK ltac:(lia) Hb E) as Hb1.
      replace (K + 8 * Z.of_nat (Datatypes.S (length r))) with (K + 8 + 8 * Z.of_nat (length r)) by lia.
      apply (IH (K + 8) b1 p1 b' p'); [lia|lia|exact Hb1|exact H].
    + rewrite line_fold_abs in H by (intros []). discriminate.
    + rewrite line_fold_abs in H by (intros []). discriminate.
Qed.

(* the number of words of the lines, as strings.Split counts them *)
Definition words (lines : list (list N)) : nat := length (flat_map (fun l => split_sp l []) lines).

Lemma build_fold_w sz : forall lines K b lno b' n', 0 <= K -> K + 8 * Z.of_nat (words lines) < 4611686018427387904 - 1 -> wok K b ->
  fold_left (build_step gen_basis sz) lines (BOk b, lno) = (BOk b', n') -> wok (K + 8 * Z.of_nat (words lines)) b'.
Proof.
  induction lines as [|line r IH]; intros K b lno b' n' HK HL Hb H; cbn [fold_left] in H.
  - injection H as <- _. unfold words. cbn [flat_map length]. now rewrite Z.add_0_r.
  - unfold words in *. cbn [flat_map] in *. rewrite app_length in *. fold (words r) in *.
    unfold build_step at 2 in H. destruct (new_pos gen_basis sz) as [p0| |].
    + destruct (fold_left (line_step gen_basis) (split_sp line []) (LOk b p0)) as [b1 p1|kd wd|] eqn:L.
      * assert (HL' : K + 8 * Z.of_nat (length (split_sp line [])) < 4611686018427387904 - 1) by lia.
        pose proof (line_fold_w (split_sp line []) K b p0 b1 p1 HK HL' Hb L) as Hb1.
        replace (K + 8 * Z.of_nat (length (split_sp line []) + words r)) with (K + 8 * Z.of_nat (length (split_sp line [])) + 8 * Z.of_nat (words r)) by lia.
        apply (IH _ b1 (Datatypes.S lno) b' n'); [lia|lia|exact Hb1|exact H].
      * rewrite build_fold_abs in H by (intros []). discriminate.
      * rewrite build_fold_abs in H by (intros []). discriminate.
    + rewrite build_fold_abs in H by (intros []). discriminate.
    + rewrite build_fold_abs in H by (intros []). discriminate.
Qed.

Theorem build_book_weights sz lines b : 8 * Z.of_nat (words lines) < 2147483648 ->
  build_book gen_basis sz lines = BOk b -> wok (8 * Z.of_nat (words lines)) b.
Proof.
  intros HW H. unfold build_book in H.
  destruct (fold_left (build_step gen_basis sz) lines (BOk [], 0%nat)) as [r n'] eqn:F. cbn [fst] in H. subst r.
  apply (build_fold_w sz lines 0 [] 0%nat b n' ltac:(lia) ltac:(lia) ltac:(constructor) F).
Qed.

(* the reservoir loop does not panic while the running sum stays below 2^31 *)
Lemma pick_total rnd : forall ms i sum out, Forall (fun c => 1 <= ch_weight c) ms -> 0 <= sum -> sum + sumw ms < 2147483648 ->
  exists m j, pick rnd i ms sum out = Ok (m, j).
Proof.
  induction ms as [|c r IH]; intros i sum out H H0 Hs; cbn [pick]; [eauto|].
  inversion H as [|? ? Hc Hr]; subst. cbn [sumw fold_right] in Hs. fold (sumw r) in Hs. pose proof (sumw_ge r Hr).
  rewrite wrap64_small by lia. rewrite wrap32_small by lia.
  destruct (Z.leb_spec (sum + ch_weight c) 0); [lia|]. apply IH; [exact Hr|lia|lia].
Qed.

Theorem book_get_move_no_panic sz lines b p rnd i : 8 * Z.of_nat (words lines) < 2147483648 ->
  build_book gen_basis sz lines = BOk b ->
  exists m ok j, book_get_move b p rnd i = Ok (m, ok, j).
Proof.
  intros HW Hb. pose proof (build_book_weights sz lines b HW Hb) as W. unfold book_get_move.
  destruct (book_get b (hash_of p)) as [e|] eqn:G; [|eauto].
  destruct (book_get_In b _ e G) as (Hin & _). destruct (proj1 (Forall_forall _ _) W e Hin) as (A & B).
  destruct (pick_total rnd (be_moves e) i 0 zero_move A ltac:(lia) ltac:(lia)) as (m & j & ->). eauto.
Qed.

Theorem opening_player_no_panic sz lines b inner p rnd i : 8 * Z.of_nat (words lines) < 2147483648 ->
  build_book gen_basis sz lines = BOk b -> (exists m, inner p = Ok m) ->
  exists m j, opening_player_get_move b inner p rnd i = Ok (m, j).
Proof.
  intros HW Hb (mi & Hi). destruct (book_get_move_no_panic sz lines b p rnd i HW Hb) as (m & ok & j & E).
  unfold opening_player_get_move. rewrite E. destruct ok; [eauto|]. rewrite Hi. eauto.
Qed.
