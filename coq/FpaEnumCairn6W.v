(* C20: complete enumeration (one VM evaluation at Qed: vm_cast_no_check) of the scripted opening with the repairs switched on: Cairn, size 6, bot White.
   The expected tallies are those the Go driver measured on the repaired implementation. GENERATED once, then kept. *)
From Coq Require Import NArith ZArith List Bool.
Require Import Board Move GameOver Tps Symmetry Fpa.
Import ListNotations.

Lemma enum_cairn_6_w : run [] repaired Cairn 6 true = {| nodes := 20185; scripted := 7136; illegal := 0; selfrej := 0; crash := 0 |}%N.
Proof. vm_cast_no_check (eq_refl ({| nodes := 20185; scripted := 7136; illegal := 0; selfrej := 0; crash := 0 |}%N)). Qed.
