From Coq Require Import NArith ZArith Arith List Bool Lia ZifyN ZifyBool ZifyNat.
Require Import Board Rules Move Refine RefinePlace RefinePlace2.
Import ListNotations.
Ltac Zify.zify_post_hook ::= Z.div_mod_to_equations.

(* the successor's board, square by square *)
Lemma place_sq p i0 (w b s c : N) hv col k :
  wf p -> (i0 < size p * size p)%N ->
  nthN (Height p) i0 = 0%N ->
  (forall j, (j < size p * size p)%N -> j <> i0 -> has b j = has (Move.Black p) j /\ has s j = has (Standing p) j /\ has c j = has (Caps p) j) ->
  hv = 1%N ->
  col = (if has b i0 then Rules.Black else Rules.White) ->
  k = (if has s i0 then Rules.Standing else if has c i0 then Rules.Cap else Rules.Flat) ->
  forall p', size p' = size p -> Height p' = updN (Height p) (N.to_nat i0) hv -> Stacks p' = Stacks p ->
    Move.Black p' = b -> Standing p' = s -> Caps p' = c ->
  map (fun i => abs_stack p' (N.of_nat i)) (seq 0 (N.to_nat (size p) * N.to_nat (size p)))
  = upd (map (fun i => abs_stack p (N.of_nat i)) (seq 0 (N.to_nat (size p) * N.to_nat (size p)))) (N.to_nat i0) [(col, k)].
Proof.
  intros W Hi0 Hh Hoth -> -> -> p' Es Eh Est Eb Esd Ec.
  rewrite upd_map_seq by lia. cbn [plus].
  apply map_ext_in. intros j Hj. apply in_seq in Hj.
  assert (HlenH := wf_lenH p W).
  destruct (Nat.eqb_spec j (N.to_nat i0)) as [->|Hne].
  - rewrite N2Nat.id. unfold abs_stack. rewrite Eh, nthN_updN, Nat.eqb_refl by lia. cbn [N.eqb Pos.eqb].
    rewrite Eb, Esd, Ec. reflexivity.
  - apply abs_stack_ext.
    + rewrite Eh, nthN_updN by lia. rewrite Nat2N.id. destruct (Nat.eqb_spec j (N.to_nat i0)); [lia|reflexivity].
    + now rewrite Est.
    + rewrite Eb. apply Hoth; lia.
    + rewrite Esd. apply Hoth; lia.
    + rewrite Ec. apply Hoth; lia.
Qed.
Print Assumptions place_sq.

Lemma has_clr_other b i j : (i < 64)%N -> (j < 64)%N -> j <> i -> has (setb b i) j = has b j.
Proof. intros. rewrite has_setb by assumption. destruct (N.eqb_spec j i); [contradiction|apply orb_false_r]. Qed.

Lemma has_set_same b i : (i < 64)%N -> has (setb b i) i = true.
Proof. intros. rewrite has_setb, N.eqb_refl by assumption. apply orb_true_r. Qed.

Lemma u8_small x : (x < 256)%N -> u8 x = x.
Proof. unfold u8. intros. now apply N.mod_small. Qed.

Lemma u8_dec x : (0 < x < 256)%N -> u8 (x + 255) = N.pred x.
Proof. unfold u8. intros. lia. Qed.

Definition is_place (t : N) := (t = 2 \/ t = 3 \/ t = 4)%N.

Theorem place_refines p m : wf p -> is_place (mT m) ->
  match mv p m with
  | Ok p' => rules_move (abs p) (raw m) = Some (abs p')
  | Err => rules_move (abs p) (raw m) = None
  | Panic => False
  end.
Proof.
  intros W Hty.
  assert (Hsz := wf_size p W).
  unfold mv, move_prealloc, rules_move, decode. cbn [raw mtype mx my mslides].
  (* bounds *)
  destruct ((mX m <? 0)%Z || (Z.of_N (size p) <=? mX m)%Z || (mY m <? 0)%Z || (Z.of_N (size p) <=? mY m)%Z) eqn:Hb.
  { assert (Hnp : negb (mT m =? 1)%N = true) by (destruct Hty as [->|[->| ->]]; reflexivity).
    rewrite Hnp. cbn [andb].
    assert (Hob : on_board (abs p) (mX m) (mY m) = false) by (rewrite on_board_abs; lia).
    destruct Hty as [->|[->| ->]]; unfold place; now rewrite Hob. }
  cbn [andb].
  assert (Hx : (0 <= mX m < Z.of_N (size p))%Z) by lia.
  assert (Hy : (0 <= mY m < Z.of_N (size p))%Z) by lia.
  assert (Hob : on_board (abs p) (mX m) (mY m) = true) by (rewrite on_board_abs; lia).
  destruct (sq_index_on_board p (mX m) (mY m) Hsz Hx Hy) as [Ei Li].
  set (i := sq_index p (mX m) (mY m)) in *.
  assert (Li64 : (i < 64)%N) by nia.
  assert (Hst := stack_at_abs p (mX m) (mY m) W Hx Hy). fold i in Hst.
  assert (Hidx : Rules.idx (abs p) (mX m) (mY m) = N.to_nat i).
  { unfold Rules.idx, abs; cbn [Rules.n]. rewrite Ei. nia. }
  assert (HlenH := wf_lenH p W).

  assert (Hocc := wf_occ p W i Li).
  assert (Hres := wf_res p W).
  assert (Htm : Rules.to_move (abs p) = if to_move_white p then Rules.White else Rules.Black) by reflexivity.
  (* occupied square: both sides reject *)
  destruct (has (N.lor (White p) (Move.Black p)) i) eqn:Hoc.
  { assert (Hne : nthN (Height p) i <> 0%N) by (intros E; apply Hocc in E; congruence).
    assert (Hs : exists a l, stack_at (abs p) (mX m) (mY m) = a :: l).
    { rewrite Hst. unfold abs_stack. destruct (N.eqb_spec (nthN (Height p) i) 0); [contradiction|eauto]. }
    destruct Hs as (a & l & Hs).
    destruct Hty as [->|[->| ->]]; cbn; unfold place; rewrite Hob, Hs; cbn;
      destruct (move p <? 2)%Z; reflexivity. }
  assert (Hh0 : nthN (Height p) i = 0%N) by (now apply Hocc).
  assert (Hs : stack_at (abs p) (mX m) (mY m) = []) by (rewrite Hst; now apply abs_stack_empty).
  destruct (wf_top p W i Li Hoc) as [Hsd Hcp].
  assert (HW : has (White p) i = false /\ has (Move.Black p) i = false).
  { rewrite has_lor in Hoc by assumption. now apply orb_false_elim in Hoc. }
  destruct HW as [HWf HBf].
  assert (Hidx0 : idx (Height p) i = Ok 0%N).
  { rewrite (idx_ok (Height p) i 0%N) by lia. f_equal. exact Hh0. }
  (* generic closing tactic for a successful placement *)
  assert (Hother : forall b0 s0 c0 (bb bs bc : bool),
     forall j, (j < size p * size p)%N -> j <> i ->
       has (if bb then setb b0 i else b0) j = has b0 j /\ has (if bs then setb s0 i else s0) j = has s0 j /\
       has (if bc then setb c0 i else c0) j = has c0 j).
  { intros b0 s0 c0 bb bs bc j Hj Hn. assert (j < 64)%N by nia.
    destruct bb, bs, bc; rewrite ?has_clr_other by assumption; auto. }
  destruct Hty as [Ht|[Ht|Ht]]; rewrite Ht; cbn -[N.add u8 setb has];
    unfold place; rewrite Hob, Hs, Htm; cbn -[N.add u8 setb has];
    destruct (move p <? 2)%Z eqn:Hop; cbn -[N.add u8 setb has]; try reflexivity;
    destruct (to_move_white p) eqn:Hw; cbn -[N.add u8 setb has].
  all: repeat match goal with
       | |- context [(?r <=? 0)%N] => destruct (N.leb_spec r 0); cbn -[N.add u8 setb has]
       | |- context [(?r =? 0)%N] => destruct (N.eqb_spec r 0); cbn -[N.add u8 setb has]; try lia
       end; try reflexivity; try lia.
  all: rewrite Hidx0; cbn -[N.add u8 setb has].
  all: f_equal; unfold abs; cbn -[N.add u8 setb has abs_stack];
       rewrite ?u8_dec by lia.
  all: f_equal.
  all: change (Rules.idx _ (mX m) (mY m)) with (Rules.idx (abs p) (mX m) (mY m)); rewrite Hidx.
  all: symmetry; eapply place_sq; try reflexivity; try assumption.
  all: cbn [Move.Black Standing Caps].
  all: try (intros j Hj Hn; assert (j < 64)%N by nia; rewrite ?has_clr_other by assumption; auto).
  all: rewrite ?has_set_same, ?HBf, ?Hsd, ?Hcp by assumption; try reflexivity.
Qed.
Print Assumptions place_refines.
