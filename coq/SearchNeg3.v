(* SearchNeg3.v: C05 clause 1 WITHOUT the hypothesis bundle rules_facts: for the two evaluators the check uses (ai.EvaluateWinner and
   ai.MakeEvaluator(size, nil), SearchInst.default_eval) the evaluation bound comes from C18, the rules-engine facts from
   SearchNeg2.v; the theorem is SearchNeg1.analyze_precise_exactx instantiated. *)
From Coq Require Import NArith ZArith List Bool Lia.
Require Import Board Stack Rules Move GameOver Refine RefinePlace RefinePlace2 Slide2 Slide3 Slide6 MoveRefines Preserve1 Preserve5 Preserve6.
Require Import GameOverFacts1 Eval EvalSpec EvalInst EvalFacts5.
Require Import Search NegamaxSpec SearchGen SearchExact SearchInst SearchNeg1 SearchNeg2.
Require Import Generated.Consts.
Import ListNotations.

(* ---- a pos_ok position is a value of the Go type (C18's shape_ok) ---- *)
Lemma hi_clear_lt64 sz x : (3 <= sz <= 8)%N -> hi_clear sz x -> (x < 2 ^ 64)%N.
Proof.
  intros Hs H. apply N.lt_le_trans with (2 ^ (sz * sz))%N.
  - apply below_lt. intros i Hi. destruct (N.lt_ge_cases i (sz * sz)) as [L|L]; [exact L|]. rewrite (H i L) in Hi. discriminate.
  - apply N.pow_le_mono_r; [discriminate|]. nia.
Qed.

Lemma pos_ok_shape p : pos_ok p -> shape_ok p.
Proof.
  intros [Hs [LH _ SQ] (R1 & _ & R3 & _) [_ _ _ (Mw & Mb & Ms & Mc) _]]. cbn [bview bhs bw bb bs bc] in *. unfold nsq in LH.
  unfold shape_ok. split; [exact Hs|]. split; [rewrite LH; lia|]. split.
  - apply Forall_forall. intros h Hin. destruct (In_nth _ _ 0%N Hin) as (n & Hn & <-).
    assert (L : (N.of_nat n < size p * size p)%N) by lia.
    pose proof (so_h _ _ (SQ _ L)) as H64. cbn [bview bhs] in H64. unfold nthN in H64. rewrite Nat2N.id in H64. lia.
  - repeat split; try assumption; apply (hi_clear_lt64 (size p)); assumption.
Qed.

(* ---- the evaluators ---- *)
Open Scope Z_scope.

(* SearchInst.default_eval is EvalInst.eval_default with a model panic read as 0 *)
Lemma default_eval_eq p : default_eval p = match eval_default p with Ok v => v | _ => 0 end.
Proof. unfold default_eval, eval_default, default_weights. reflexivity. Qed.

Lemma default_eval_bounded p : pos_ok p -> 0 <= move p <= max_terminal_ply -> MinEval <= default_eval p <= MaxEval.
Proof.
  intros Hp Hm. rewrite default_eval_eq. destruct (eval_default p) as [v| |] eqn:E; try (unfold MinEval, MaxEval; lia).
  pose proof (all_in_root_window p v (pos_ok_shape p Hp) Hm E) as B.
  change gen_MaxEval with MaxEval in B. unfold MinEval. lia.
Qed.

(* positions for the built-in evaluator: the ply limit of C18 must hold down to the leaves *)
Definition PosD (d : nat) (p : position) : Prop := PosW d p /\ move p + Z.of_nat d <= max_terminal_ply.

Lemma PosD_closed d p q : PosD (S d) p -> is_over p = false -> In q (children gen_basis p) -> PosD d q.
Proof.
  intros (HW & Hm) EO Hq. split; [apply (PosW_closed d p q HW EO Hq)|].
  destruct HW as (Hb & W). apply in_children_mv in Hq. destruct Hq as (m & _ & E).
  pose proof (W EO) as K. destruct (K m q E) as (H64 & _).
  destruct (base_ok_step p m q Hb E H64) as (_ & Em & _). lia.
Qed.

Section Final.
Variable cfg : config.
Hypothesis Hprecise : precise cfg.

(* the deepest iteration Analyze can run *)
Definition dmax : nat := Z.to_nat (Z.min (c_depth cfg) 16).

Lemma within_dmax p d : within dmax p -> (1 <= d <= 16)%nat -> Z.of_nat d <= c_depth cfg -> within d p.
Proof.
  intros W H1 H2. assert (L : (d <= dmax)%nat) by (unfold dmax; lia). clear H1 H2.
  induction L; [exact W|]. apply IHL. apply within_le. exact W.
Qed.

(* EvaluateWinner *)
Theorem analyze_exact_winner : c_eval cfg = evaluate_winner ->
  forall k s p sk pv v d acc c, SI s -> base_ok p -> within dmax p ->
  analyze_cancel gen_basis cfg k s p = (sk, (pv, v, d, acc, c)) ->
  SI sk /\ (0 < d -> exact_result gen_basis cfg p pv v d).
Proof.
  intros Hev k s p sk pv v d acc c HS Hb HW H. destruct Hprecise as (P1 & P2 & P3).
  destruct (analyze_precise_exactx false gen_basis cfg k P1 P2 P3 PosW PosW_closed
              (fun d p m q HP EO => base_ok_hint p m q (proj1 HP))
              (fun d p HP EO => base_ok_live p (proj1 HP) EO)
              ltac:(intros d0 p0 _; rewrite Hev; apply evaluate_winner_bounded)
              (c_depth cfg) s p sk pv v d acc c HS) as (A & _ & B); [|exact H|split; assumption].
  intros d0 H1 H2. split; [exact Hb|apply within_dmax; assumption].
Qed.

(* the built-in evaluator *)
Theorem analyze_exact_default : c_eval cfg = default_eval ->
  forall k s p sk pv v d acc c, SI s -> base_ok p -> within dmax p -> move p + Z.of_nat dmax <= max_terminal_ply ->
  analyze_cancel gen_basis cfg k s p = (sk, (pv, v, d, acc, c)) ->
  SI sk /\ (0 < d -> exact_result gen_basis cfg p pv v d).
Proof.
  intros Hev k s p sk pv v d acc c HS Hb HW Hm H. destruct Hprecise as (P1 & P2 & P3).
  destruct (analyze_precise_exactx false gen_basis cfg k P1 P2 P3 PosD PosD_closed
              (fun d p m q HP EO => base_ok_hint p m q (proj1 (proj1 HP)))
              (fun d p HP EO => base_ok_live p (proj1 (proj1 HP)) EO)
              ltac:(intros d0 p0 ((Hb0 & _) & Hm0); rewrite Hev; apply default_eval_bounded; [apply Hb0|destruct Hb0 as (_ & _ & M0 & _); lia])
              (c_depth cfg) s p sk pv v d acc c HS) as (A & _ & B); [|exact H|split; assumption].
  intros d0 H1 H2. split; [split; [exact Hb|apply within_dmax; assumption]|]. unfold dmax in Hm. lia.
Qed.
End Final.
