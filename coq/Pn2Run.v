(* Entry point of the PN model with the PN-squared switch, with the constants of /repo (used by the C06 driver and by
   Properties/C06.v).  pn2_threshold is the constant pn2Threshold of prove/pn.go (unexported; a change of it in the code
   shows up as a disagreement of the counters in the C06 check). *)
From Coq Require Import NArith ZArith List Bool.
Require Import Board Move GameOver Pn PnRun Pn2.
Require Import Generated.Consts.
Import ListNotations.
Open Scope N_scope.

Definition pn2_threshold : N := 1000.

(* Prove(): `if p.cfg.PN2 { p.cfg.MaxNodes /= 2 }` *)
Definition eff_maxnodes (pn2 : bool) (maxnodes : N) : N := if pn2 then maxnodes / 2 else maxnodes.

(* prove.New(Config{MaxNodes, PreserveSolved, MaxDepth, PN2}).Prove(p) on a fresh Prover, any threshold *)
Definition pn2_run_at (threshold : N) (iters dfuel k2 dfuel2 : nat) (maxnodes : N) (preserve : bool) (maxdepth : Z) (pn2 : bool)
           (p : position) : pn * p2stats * N * rmove * N :=
  prove_pn2 gen_basis (to_move_white p)
            {| pc_maxnodes := eff_maxnodes pn2 maxnodes; pc_preserve := preserve; pc_maxdepth := eff_maxdepth maxdepth |}
            threshold pn2 k2 dfuel2 iters dfuel p.

Definition pn2_run := pn2_run_at pn2_threshold.
