(* Proto/Bot.v: playtak/bot/bot.go, PlayGame/ObserveGame + handleMove, as a transition system over an
   abstract game, together with the environment (the playtak server) the property speaks about.
   Model only; the proofs are in BotFacts.v, the instantiation with the rules model in BotInst.v.

   One state = the protocol loop blocked in the select of handleMove (or finished).  What belongs to the
   current INVOCATION of handleMove: the position its thinker goroutine was given (spawned_on), whether
   the local channel variable `moves` is still non-nil (enabled), whether that thinker has already
   written its answer (answered), whether `timeout` is non-nil (armed).  Thinkers of earlier invocations
   write into channels nobody reads any more: their returns are the event `Late`. *)
From Coq Require Import List Bool Arith.
Import ListNotations.

Section Bot.
Variables (pos move : Type).
Variable apply : pos -> move -> option pos.   (* Position.Move: None = error *)
Variable bots_turn : pos -> bool.         (* p.ToMove() == g.Color; constantly false for an observer (NoColor) *)
Variable over : pos -> bool.              (* p.GameOver() *)
Variable start : pos.
Variable fixed : bool.                    (* false = the pinned code; true = the repaired loop: moveCancel(); moves = nil on a P/M line *)
Variable accept_undo : bool.              (* Bot.AcceptUndo() *)

Inductive line :=
| LMove (m : move)            (* "Game#id P ..." / "M ..." that ParseServer accepts *)
| LBad                        (* a line on which the loop panics: P/M text ParseServer rejects, missing fields *)
| LTime | LReqUndo | LUndo | LOver | LAbandoned
| LOther.                     (* chat, other games, unknown commands: ignored *)

Inductive event :=
| Line (l : line)             (* the next server line is received *)
| Closed                      (* the receive channel is closed *)
| Answer (m : move)           (* the CURRENT invocation's thinker delivers m (computed for the position it was spawned on) *)
| Late (m : move)             (* a thinker of an earlier invocation returns: its channel is dead *)
| Grace.                      (* the 500 ms timer of the current invocation fires *)

Record sent := { s_pos : pos; s_for : pos; s_move : move }.     (* position when sent, position the answer was computed for *)

Record state := {
  hist : list pos;            (* Positions, newest first, never empty *)
  moves : list move;          (* Moves, newest first *)
  spawned_on : pos;           (* g.p when this invocation of handleMove started *)
  enabled : bool;             (* moves != nil *)
  answered : bool;            (* the thinker of this invocation has already delivered *)
  armed : bool;               (* timeout != nil *)
  out : list sent;            (* moves passed to SendCommand, newest first *)
  undo_acks : nat;            (* "RequestUndo" lines sent *)
  ended : bool;               (* PlayGame returned *)
  crashed : bool }.           (* PlayGame panicked *)

Definition cur (s : state) : pos := hd start (hist s).

Definition restart (s : state) : state :=
  {| hist := hist s; moves := moves s; spawned_on := cur s; enabled := bots_turn (cur s); answered := false;
     armed := false; out := out s; undo_acks := undo_acks s; ended := ended s; crashed := crashed s |}.

Definition init : state :=
  restart {| hist := [start]; moves := []; spawned_on := start; enabled := false; answered := false; armed := false;
             out := []; undo_acks := 0; ended := false; crashed := false |}.

Definition set_enabled (b : bool) (s : state) : state :=
  {| hist := hist s; moves := moves s; spawned_on := spawned_on s; enabled := b; answered := answered s;
     armed := armed s; out := out s; undo_acks := undo_acks s; ended := ended s; crashed := crashed s |}.
Definition set_answered (s : state) : state :=
  {| hist := hist s; moves := moves s; spawned_on := spawned_on s; enabled := enabled s; answered := true;
     armed := armed s; out := out s; undo_acks := undo_acks s; ended := ended s; crashed := crashed s |}.
Definition set_armed (s : state) : state :=
  {| hist := hist s; moves := moves s; spawned_on := spawned_on s; enabled := enabled s; answered := answered s;
     armed := true; out := out s; undo_acks := undo_acks s; ended := ended s; crashed := crashed s |}.
Definition set_record (h : list pos) (ms : list move) (s : state) : state :=
  {| hist := h; moves := ms; spawned_on := spawned_on s; enabled := enabled s; answered := answered s;
     armed := armed s; out := out s; undo_acks := undo_acks s; ended := ended s; crashed := crashed s |}.
Definition add_sent (o : sent) (s : state) : state :=
  {| hist := hist s; moves := moves s; spawned_on := spawned_on s; enabled := enabled s; answered := answered s;
     armed := armed s; out := o :: out s; undo_acks := undo_acks s; ended := ended s; crashed := crashed s |}.
Definition add_ack (s : state) : state :=
  {| hist := hist s; moves := moves s; spawned_on := spawned_on s; enabled := enabled s; answered := answered s;
     armed := armed s; out := out s; undo_acks := S (undo_acks s); ended := ended s; crashed := crashed s |}.
Definition finish (s : state) : state :=
  {| hist := hist s; moves := moves s; spawned_on := spawned_on s; enabled := enabled s; answered := answered s;
     armed := armed s; out := out s; undo_acks := undo_acks s; ended := true; crashed := crashed s |}.
Definition crash (s : state) : state :=
  {| hist := hist s; moves := moves s; spawned_on := spawned_on s; enabled := false; answered := answered s;
     armed := armed s; out := out s; undo_acks := undo_acks s; ended := ended s; crashed := true |}.

Definition step (s : state) (e : event) : state :=
  if ended s || crashed s then s else
  match e with
  | Closed => finish s                                               (* !ok: return true *)
  | Late _ => s
  | Answer m =>
    (* deliverable once per invocation; a thinker given a finished position waits for its context instead *)
    if answered s || over (spawned_on s) then s else
    let s := set_answered s in
    if negb (enabled s) then s else                                  (* moves == nil: the select never reads the channel *)
    match apply (cur s) m with
    | None => restart s                                              (* "ai returned bad move": return false *)
    | Some p' =>                                                     (* SendCommand; record; return false *)
      restart (set_record (p' :: hist s) (m :: moves s)
                 (add_sent {| s_pos := cur s; s_for := spawned_on s; s_move := m |} s))
    end
  | Grace => if armed s then restart s else s                        (* <-timeout: return false *)
  | Line l =>
    match l with
    | LOther => s
    | LBad => crash s
    | LMove m =>
      match apply (cur s) m with
      | None => crash s                                              (* panic(err) *)
      | Some p' =>
        set_armed (set_enabled (if fixed then false else enabled s) (set_record (p' :: hist s) (m :: moves s) s))
      end
    | LTime => if armed s then restart s else s
    | LReqUndo => if accept_undo then set_enabled false (add_ack s) else s
    | LUndo =>
      match hist s, moves s with
      | _ :: (_ :: _) as h', _ :: m' => restart (set_record h' m' s)
      | _, _ => crash (set_record (tl (hist s)) (moves s) s)         (* Positions already cut; Moves[:-1]: slice bounds out of range *)
      end
    | LOver | LAbandoned => finish s                                 (* return true *)
    end
  end.

Definition run_from (s : state) (evs : list event) : state := fold_left step evs s.
Definition run (evs : list event) : state := run_from init evs.

(* ---------------- the environment: the server, its authoritative history "as communicated" ----------------
   The server appends the move of every P/M line it sends.  When the bot accepts an undo request (and there is a
   move to take back) the server performs the undo AT ONCE; the Undo line tells the bot, and until it is delivered
   the history as communicated (shist) still shows the move while `ack` records that it is already gone: a move
   the bot transmits in that window arrives at another position and is refused.  Otherwise the server appends a
   move it receives from the bot iff that move is legal in its current position and it is the bot's turn there,
   and answers NOK if not.
   Contract of the server (env_allows): only moves legal in its history; Undo only in answer to an acceptance;
   after an acceptance the Undo line comes before any other move / undo-request line and before the grace timer
   of an earlier move line acts (expires, or is cut short by a Time line); no malformed lines. *)
Record server := {
  shist : list pos;           (* authoritative positions, newest first *)
  smoves : list move;
  ack : bool;                 (* an accepted undo has been performed and its Undo line is still outstanding *)
  sended : bool;              (* the server ended the game: Over, Abandoned., or the connection is gone *)
  noks : nat }.               (* moves of the bot the server refused *)

Definition stop (v : server) : pos := hd start (shist v).
Definition srv_init : server := {| shist := [start]; smoves := []; ack := false; sended := false; noks := 0 |}.

Definition srv_push (p : pos) (m : move) (v : server) : server :=
  {| shist := p :: shist v; smoves := m :: smoves v; ack := false; sended := sended v; noks := noks v |}.
Definition srv_end (v : server) : server :=
  {| shist := shist v; smoves := smoves v; ack := ack v; sended := true; noks := noks v |}.

Definition has2 (l : list pos) : bool := match l with _ :: _ :: _ => true | _ => false end.

(* may this happen now?  (after the server ended the game nothing it says matters) *)
Definition env_allows (s : state) (v : server) (e : event) : bool :=
  sended v ||
  (if ack v then
     match e with
     | Line LUndo | Line LOther | Line LOver | Line LAbandoned | Closed | Answer _ | Late _ => true
     | Grace | Line LTime => negb (armed s)
     | _ => false
     end
   else true) &&
  match e with
  | Line (LMove m) => match apply (stop v) m with Some _ => true | None => false end
  | Line LBad => false
  | Line LUndo => ack v && has2 (shist v)
  | _ => true
  end.

(* the server's own part of an event *)
Definition srv_emit (v : server) (e : event) : server :=
  if sended v then v else
  match e with
  | Line (LMove m) => match apply (stop v) m with Some p' => srv_push p' m v | None => v end
  | Line LUndo => {| shist := tl (shist v); smoves := tl (smoves v); ack := false; sended := false; noks := noks v |}
  | Line LOver | Line LAbandoned | Closed => srv_end v
  | _ => v
  end.

(* what the server receives from the bot during the step s -> s' *)
Definition srv_hears (v : server) (s s' : state) : server :=
  let v :=
    if length (out s) <? length (out s') then
      match out s' with
      | o :: _ =>
        match (if bots_turn (stop v) && negb (ack v) then apply (stop v) (s_move o) else None) with
        | Some p' => srv_push p' (s_move o) v
        | None => {| shist := shist v; smoves := smoves v; ack := ack v; sended := sended v; noks := S (noks v) |}
        end
      | [] => v
      end
    else v in
  if undo_acks s <? undo_acks s' then
    {| shist := shist v; smoves := smoves v; ack := has2 (shist v); sended := sended v; noks := noks v |}
  else v.

Definition step2 (sv : state * server) (e : event) : state * server :=
  let '(s, v) := sv in
  let s' := step s e in
  (s', srv_hears (srv_emit v e) s s').

(* joint run; None = the environment broke its contract somewhere *)
Fixpoint run2_from (sv : state * server) (evs : list event) : option (state * server) :=
  match evs with
  | [] => Some sv
  | e :: r => if env_allows (fst sv) (snd sv) e then run2_from (step2 sv e) r else None
  end.
Definition run2 (evs : list event) : option (state * server) := run2_from (init, srv_init) evs.
Definition env_ok (evs : list event) : Prop := run2 evs <> None.

(* every transmitted move was computed for the position current at that moment, on the bot's turn, and is legal there *)
Definition sent_ok (o : sent) : Prop :=
  s_for o = s_pos o /\ bots_turn (s_pos o) = true /\ apply (s_pos o) (s_move o) <> None.

End Bot.
