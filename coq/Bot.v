(* Proto/Bot.v (draft): playtak/bot/bot.go handleMove as a transition system over an abstract game *)
From Coq Require Import List Bool Lia.
Import ListNotations.

Section Bot.
Variables (pos move : Type).
Variable apply : pos -> move -> option pos.
Variable bots_turn : pos -> bool.         (* p.ToMove() == g.Color *)
Variable over : pos -> bool.
Variable start : pos.
Variable fixed : bool.                    (* false = the pinned code, true = pending answer dropped when the position changes *)
Variable accept_undo : bool.

Inductive line :=
| LMove (m : move)            (* "Game#id P ..." / "M ..." *)
| LTime | LReqUndo | LUndo | LOver | LAbandoned | LOther.

Inductive event :=
| Line (l : line)
| Answer (m : move)           (* the CURRENT invocation's thinker delivers m, computed for the position it was spawned on *)
| Grace.                      (* the 500 ms timer of the current invocation fires *)

Record sent := { s_pos : pos; s_for : pos; s_move : move }.     (* position when sent, position the answer was computed for *)

Record state := {
  hist : list pos;            (* Positions, newest first, never empty *)
  moves : list move;          (* Moves, newest first *)
  spawned_on : pos;           (* g.p when this invocation of handleMove started *)
  enabled : bool;             (* moves != nil *)
  answered : bool;            (* the thinker of this invocation has already delivered *)
  armed : bool;               (* timeout != nil *)
  out : list sent;
  undo_acks : nat;            (* "RequestUndo" lines sent *)
  ended : bool;
  crashed : bool }.

Definition cur (s : state) : pos := hd start (hist s).

Definition restart (s : state) : state :=
  {| hist := hist s; moves := moves s; spawned_on := cur s; enabled := bots_turn (cur s); answered := false;
     armed := false; out := out s; undo_acks := undo_acks s; ended := ended s; crashed := crashed s |}.

Definition init : state :=
  restart {| hist := [start]; moves := []; spawned_on := start; enabled := false; answered := false; armed := false;
             out := []; undo_acks := 0; ended := false; crashed := false |}.

Definition step (s : state) (e : event) : state :=
  if ended s || crashed s then s else
  match e with
  | Answer m =>
    (* deliverable only once per invocation, only for a live spawn position, and only consumed while enabled *)
    if answered s || over (spawned_on s) then s else
    let s := {| hist := hist s; moves := moves s; spawned_on := spawned_on s; enabled := enabled s; answered := true;
                armed := armed s; out := out s; undo_acks := undo_acks s; ended := false; crashed := false |} in
    if negb (enabled s) then s else
    match apply (cur s) m with
    | None => restart s                                            (* "ai returned bad move" *)
    | Some p' =>
      restart {| hist := p' :: hist s; moves := m :: moves s; spawned_on := spawned_on s; enabled := enabled s;
                 answered := true; armed := armed s;
                 out := {| s_pos := cur s; s_for := spawned_on s; s_move := m |} :: out s;
                 undo_acks := undo_acks s; ended := false; crashed := false |}
    end
  | Grace => if armed s then restart s else s
  | Line l =>
    match l with
    | LOther => s
    | LMove m =>
      match apply (cur s) m with
      | None => {| hist := hist s; moves := moves s; spawned_on := spawned_on s; enabled := false; answered := answered s;
                   armed := armed s; out := out s; undo_acks := undo_acks s; ended := false; crashed := true |}   (* panic(err) *)
      | Some p' =>
        {| hist := p' :: hist s; moves := m :: moves s; spawned_on := spawned_on s;
           enabled := if fixed then false else enabled s;
           answered := answered s; armed := true; out := out s; undo_acks := undo_acks s; ended := false; crashed := false |}
      end
    | LTime => if armed s then restart s else s
    | LReqUndo =>
      if accept_undo then
        {| hist := hist s; moves := moves s; spawned_on := spawned_on s; enabled := false; answered := answered s;
           armed := armed s; out := out s; undo_acks := S (undo_acks s); ended := false; crashed := false |}
      else s
    | LUndo =>
      match hist s, moves s with
      | _ :: (_ :: _) as h', _ :: m' => restart {| hist := h'; moves := m'; spawned_on := spawned_on s; enabled := enabled s;
                                                   answered := answered s; armed := armed s; out := out s;
                                                   undo_acks := undo_acks s; ended := false; crashed := false |}
      | _, _ => {| hist := hist s; moves := moves s; spawned_on := spawned_on s; enabled := false; answered := answered s;
                   armed := armed s; out := out s; undo_acks := undo_acks s; ended := false; crashed := true |}
      end
    | LOver | LAbandoned =>
      {| hist := hist s; moves := moves s; spawned_on := spawned_on s; enabled := enabled s; answered := answered s;
         armed := armed s; out := out s; undo_acks := undo_acks s; ended := true; crashed := false |}
    end
  end.

Definition run (evs : list event) : state := fold_left step evs init.

(* every transmitted move was computed for the position current at that moment, on the bot's turn, and is legal there *)
Definition sent_ok (o : sent) : Prop :=
  s_for o = s_pos o /\ bots_turn (s_pos o) = true /\ apply (s_pos o) (s_move o) <> None.

Definition Inv (s : state) : Prop :=
  Forall sent_ok (out s) /\ (enabled s = true -> spawned_on s = cur s /\ bots_turn (cur s) = true).

Lemma restart_inv s : Forall sent_ok (out s) -> Inv (restart s).
Proof. intros H. split; [exact H|]. simpl. intros E. split; [reflexivity|exact E]. Qed.

Lemma step_inv s e : fixed = true -> Inv s -> Inv (step s e).
Proof.
  intros Hf [Ho He]. unfold step.
  destruct (ended s || crashed s); [split; assumption|].
  destruct e as [l|m|].
  - destruct l; try (split; assumption).
    + destruct (apply (cur s) m); (split; [assumption|]); simpl; [rewrite Hf|]; discriminate.
    + destruct (armed s); [now apply restart_inv|split; assumption].
    + destruct accept_undo; [|split; assumption]. split; [assumption|]. simpl. discriminate.
    + destruct (hist s) as [|? [|? ?]]; destruct (moves s); try (split; [assumption|simpl; discriminate]).
      now apply restart_inv.
  - destruct (answered s || over (spawned_on s)); [split; assumption|]. cbn [enabled].
    destruct (enabled s) eqn:E; cbn [negb]; [|split; [assumption|cbn; discriminate]].
    destruct (He eq_refl) as [Hs Ht].
    change (cur {| hist := hist s; moves := moves s; spawned_on := spawned_on s; enabled := true; answered := true;
                  armed := armed s; out := out s; undo_acks := undo_acks s; ended := false; crashed := false |}) with (cur s).
    destruct (apply (cur s) m) eqn:A.
    + apply restart_inv. cbn. constructor; [|assumption]. repeat split; cbn; auto. congruence.
    + now apply restart_inv.
  - destruct (armed s); [now apply restart_inv|split; assumption].
Qed.

Theorem bot_sends_only_current : fixed = true -> forall evs, Forall sent_ok (out (run evs)).
Proof.
  intros Hf evs. unfold run.
  assert (H : Inv init) by (apply restart_inv; constructor).
  revert H. generalize init. induction evs as [|e evs IH]; intros s Hs; simpl; [apply Hs|].
  apply IH. now apply step_inv.
Qed.
End Bot.
Print Assumptions bot_sends_only_current.

(* the pinned code (fixed = false) is refuted on a toy game: positions = ply counter, every move legal, bot = even plies *)
Definition toy_run := run nat nat (fun p _ => Some (S p)) Nat.even (fun _ => false) 0 false true
                          [Line nat (LMove nat 7); Line nat (LMove nat 8); Answer nat 9].
Eval vm_compute in map (fun o => (s_pos _ _ o, s_for _ _ o)) (out _ _ toy_run).
