(* C15, layer 6: what the candidate loop of Canonical computes - the preferMove-minimum of the images of the move under the symmetries
   whose board has the hash of board 0 (cand_fold_min) - and the order / group facts that make that minimum unique. *)
From Coq Require Import NArith ZArith Arith List Bool Lia ZifyN ZifyBool ZifyNat.
Require Import Rules Sym SymRules1 SymRules2 SymRules4.
Require Import Board Stack Move GameOver Tps Symmetry CanonFacts Refine SymCode1 Canon1 Canon2.
Import ListNotations.
Close Scope Z_scope. Close Scope N_scope.

(* preferMove is a strict WEAK order: what is not below y and not above... (negative transitivity) *)
Lemma prefer_negtrans x y z : prefer_move x z = true -> prefer_move x y = true \/ prefer_move y z = true.
Proof.
  unfold prefer_move.
  destruct (Z.eqb_spec (mY x) (mY z)); destruct (Z.eqb_spec (mY x) (mY y)); destruct (Z.eqb_spec (mY y) (mY z)); try lia; cbn [negb];
  destruct (Z.eqb_spec (mX x) (mX z)); destruct (Z.eqb_spec (mX x) (mX y)); destruct (Z.eqb_spec (mX y) (mX z)); try lia; cbn [negb]; lia.
Qed.

(* two moves neither of which is preferred to the other have the same (Y, X, Type) *)
Lemma prefer_neither l r : prefer_move l r = false -> prefer_move r l = false -> mY l = mY r /\ mX l = mX r /\ mT l = mT r.
Proof.
  unfold prefer_move.
  destruct (Z.eqb_spec (mY l) (mY r)); destruct (Z.eqb_spec (mY r) (mY l)); try lia; cbn [negb]; [|lia].
  destruct (Z.eqb_spec (mX l) (mX r)); destruct (Z.eqb_spec (mX r) (mX l)); try lia; cbn [negb]; lia.
Qed.

(* all images of a move have the same Slides word, so equal keys mean equal moves *)
Lemma tmr_mS k s m : mS (tmr k s m) = if (mT m <? 5)%N then 0%N else mS m.
Proof. reflexivity. Qed.

Lemma tmr_eq_of_key a b s m : prefer_move (tmr a s m) (tmr b s m) = false -> prefer_move (tmr b s m) (tmr a s m) = false ->
  tmr a s m = tmr b s m.
Proof.
  intros H1 H2. destruct (prefer_neither _ _ H1 H2) as (Ey & Ex & Et).
  assert (Es : mS (tmr a s m) = mS (tmr b s m)) by now rewrite !tmr_mS.
  destruct (tmr a s m), (tmr b s m). cbn in *. congruence.
Qed.

(* ---------- the group table ---------- *)
Lemma comp_assoc a b c : a < 8 -> b < 8 -> c < 8 -> comp (comp a b) c = comp a (comp b c).
Proof.
  intros Ha Hb Hc.
  do 8 (destruct a as [|a]; [do 8 (destruct b as [|b]; [do 8 (destruct c as [|c]; [reflexivity|]); lia|]); lia|]). lia.
Qed.
Lemma comp_inv_l a : a < 8 -> comp (inv a) a = 0.
Proof. intros Ha. do 8 (destruct a as [|a]; [reflexivity|]). lia. Qed.
Lemma comp_inv_r a : a < 8 -> comp a (inv a) = 0.
Proof. intros Ha. do 8 (destruct a as [|a]; [reflexivity|]). lia. Qed.
Lemma comp_0_r a : a < 8 -> comp a 0 = a.
Proof. intros Ha. do 8 (destruct a as [|a]; [reflexivity|]). lia. Qed.

Lemma tmr_0_tmr k s m : k < 8 -> tmr 0 s (tmr k s m) = tmr k s m.
Proof. intros Hk. rewrite tmr_comp by lia. now rewrite comp_0_l. Qed.

(* ---------- the candidate loop computes a minimum ---------- *)
Section Cand.
Variable s : nat.
Hypothesis Hs : size_ok s.
Variable h : N.
Variable m1 : rmove.
Hypothesis Hm1 : transformable m1.

Definition is_cand (l : list (nat * cstate)) (x : rmove) : Prop :=
  exists i b, In (i, b) l /\ i <> 0 /\ hash_of (cp b) = h /\ x = tmr i s m1.

Lemma cand_fold_min : forall l best0 rot0, (forall ib, In ib l -> fst ib < 8) ->
  exists best rot, fold_left (cand_step (syms (Z.of_nat s)) h m1) l (Ok (best0, rot0)) = Ok (best, rot) /\
    ((best = best0 /\ rot = rot0) \/ (is_cand l best /\ exists r, rot = Some r)) /\
    prefer_move best0 best = false /\
    (forall x, is_cand l x -> prefer_move x best = false).
Proof.
  induction l as [|[i b] t IH]; intros best0 rot0 Hl.
  - exists best0, rot0. split; [reflexivity|]. split; [left; split; reflexivity|]. split; [apply prefer_irrefl|].
    intros x (i & b & [] & _).
  - cbn [fold_left]. unfold cand_step at 2. cbn [fst snd].
    assert (Hi : i < 8) by (apply (Hl (i, b)); now left).
    assert (Ht : forall ib, In ib t -> fst ib < 8) by (intros ib Hib; apply Hl; now right).
    change (nth i (syms (Z.of_nat s)) (fun x y => (x, y))) with (csym s i).
    rewrite (transform_move_tm i s m1 Hi Hs Hm1).
    (* the state after this element *)
    assert (Hcase : exists best0' rot0',
       (if (i =? 0) then Ok (best0, rot0) else if (hash_of (cp b) =? h)%N then
          if prefer_move (tmr i s m1) best0 then Ok (tmr i s m1, Some (csym s i)) else Ok (best0, rot0) else Ok (best0, rot0))
       = Ok (best0', rot0') /\
       ((best0' = best0 /\ rot0' = rot0) \/ (i <> 0 /\ hash_of (cp b) = h /\ best0' = tmr i s m1 /\ prefer_move (tmr i s m1) best0 = true /\ exists r, rot0' = Some r)) /\
       (i <> 0 -> hash_of (cp b) = h -> best0' = best0 -> prefer_move (tmr i s m1) best0 = false)).
    { destruct (Nat.eqb_spec i 0) as [E0|N0]; [exists best0, rot0; split; [reflexivity|split; [left; split; reflexivity|intros; contradiction]]|].
      destruct (N.eqb_spec (hash_of (cp b)) h) as [Eh|Nh]; [|exists best0, rot0; split; [reflexivity|split; [left; split; reflexivity|intros; contradiction]]].
      destruct (prefer_move (tmr i s m1) best0) eqn:Ep.
      - eexists _, _. split; [reflexivity|]. split; [right; repeat split; try assumption; eexists; reflexivity|].
        intros _ _ E. rewrite E in Ep. now rewrite prefer_irrefl in Ep.
      - exists best0, rot0. split; [reflexivity|]. split; [left; split; reflexivity|]. intros; reflexivity. }
    destruct Hcase as (best0' & rot0' & -> & Hb0 & Hkeep).
    destruct (IH best0' rot0' Ht) as (best & rot & Ef & Hin & Hle & Hmin).
    exists best, rot. split; [exact Ef|].
    assert (Hle0 : prefer_move best0 best = false).
    { destruct Hb0 as [[-> _]|(_ & _ & -> & Hp & _)]; [exact Hle|].
      destruct (prefer_move best0 best) eqn:E; [|reflexivity].
      rewrite (prefer_trans _ _ _ Hp E) in Hle. discriminate. }
    split; [|split; [exact Hle0|]].
    + destruct Hin as [[-> ->]|((i' & b' & Hin' & Hn' & Hh' & ->) & Hr)].
      * destruct Hb0 as [[-> ->]|(N0 & Eh & -> & _ & Hr)]; [left; split; reflexivity|]. right. split; [|exact Hr].
        exists i, b. repeat split; try assumption. now left.
      * right. split; [|exact Hr]. exists i', b'. repeat split; try assumption. now right.
    + intros x (i' & b' & [E|Hin'] & Hn' & Hh' & ->).
      * inversion E; subst i' b'. clear E.
        destruct Hb0 as [[E0 _]|(_ & _ & E0 & _)].
        -- (* not taken: tmr i m1 is not preferred to best0, and best0 is not preferred to best *)
           specialize (Hkeep Hn' Hh' E0). subst best0'.
           destruct (prefer_move (tmr i s m1) best) eqn:E; [|reflexivity].
           destruct (prefer_negtrans _ best0 _ E) as [H|H]; congruence.
        -- subst best0'. exact Hle.
      * apply Hmin. exists i', b'. repeat split; assumption.
Qed.
End Cand.
