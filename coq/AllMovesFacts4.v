(* C03, part 4: the legal move set.  Filtering all_moves by "MovePreallocated accepts" lists every
   rules-legal move exactly once (up to Move.Equal) and nothing else.  Uses C01 (move_refines_rules). *)
From Coq Require Import NArith ZArith Arith List Bool Lia ZifyN ZifyBool ZifyNat SetoidList.
Require Import Board Stack Rules Move GameOver Refine RefinePlace RefinePlace2 Slide2 Slide3 Slide6 Slide8 MoveRefines.
Require Import AllMovesFacts AllMovesFacts2 AllMovesFacts3.
Import ListNotations.

Definition is_ok {A} (r : res A) : bool := match r with Ok _ => true | _ => false end.
Definition is_some {A} (o : option A) : bool := match o with Some _ => true | None => false end.

(* what search, solvers and random play iterate over: AllMoves filtered by MovePreallocated's verdict *)
Definition legal_list (p : position) : list rmove := filter (fun g => is_ok (mv p g)) (all_moves p).

(* the invariant of C01 *)
Definition invariant (p : position) : Prop :=
  (3 <= size p <= 8)%N /\ board_ok (size p) (bview p) /\ reserves_ok p /\ tall_ok p.

Lemma invariant_wf p : invariant p -> wf p.
Proof. intros (Hs & Hb & Hr & _). now apply board_ok_wf. Qed.

(* ---- Move.Equal moves are applied identically (placements ignore the Slides word) ---- *)
Lemma move_equal_same_result p a b : move_equal a b = true -> mv p a = mv p b.
Proof.
  destruct a as [x y t s], b as [x' y' t' s']. unfold move_equal. cbn [mX mY mT mS]. intros H.
  apply andb_prop in H as [H H4]. apply andb_prop in H as [H H3]. apply andb_prop in H as [H1 H2].
  apply Z.eqb_eq in H1, H2. apply N.eqb_eq in H3. subst.
  destruct (N.leb_spec 5 t') as [H5|H5].
  - apply N.eqb_eq in H4. now subst.
  - assert (E : (t' = 0 \/ t' = 1 \/ t' = 2 \/ t' = 3 \/ t' = 4)%N) by lia.
    destruct E as [->|[->|[->|[->| ->]]]]; unfold mv, move_prealloc; cbn [mX mY mT mS bind]; reflexivity.
Qed.

(* ---- counting up to Move.Equal ---- *)
Definition count (m : rmove) (l : list rmove) : nat := length (filter (fun g => move_equal g m) l).

Lemma NoDupA_filter (f : rmove -> bool) l : NoDupA meq l -> NoDupA meq (filter f l).
Proof.
  induction 1 as [|a l Hn Hd IH]; cbn [filter]; [constructor|].
  destruct (f a); [|exact IH]. constructor; [|exact IH].
  intros Hin. apply Hn. apply InA_alt in Hin as (b & E & Hb). apply filter_In in Hb as [Hb _].
  apply InA_alt. now exists b.
Qed.

Lemma count_zero m l : (forall g, In g l -> move_equal g m = false) -> count m l = 0%nat.
Proof.
  unfold count. induction l as [|a l IH]; intros H; [reflexivity|]. cbn [filter].
  rewrite (H a (or_introl eq_refl)). apply IH. intros g Hg. apply H. now right.
Qed.

Lemma count_one m l g : NoDupA meq l -> In g l -> move_equal g m = true -> count m l = 1%nat.
Proof.
  unfold count. induction 1 as [|a l Hn Hd IH]; intros Hin E; [destruct Hin|]. cbn [filter].
  destruct (move_equal a m) eqn:Ea.
  - cbn [length]. f_equal. apply (count_zero m l). intros x Hx.
    destruct (move_equal x m) eqn:Ex; [|reflexivity]. exfalso. apply Hn. apply InA_alt. exists x. split; [|exact Hx].
    unfold meq. eapply move_equal_trans; [exact Ea|]. now apply move_equal_sym.
  - destruct Hin as [->|Hin]; [congruence|]. now apply IH.
Qed.

(* ---- legal_set_exact ---- *)
Lemma pass_not_rules p m : mT m = 1%N -> rules_move (abs p) (raw m) = None.
Proof. intros E. unfold rules_move, decode. cbn [raw mtype]. rewrite E. reflexivity. Qed.

Lemma mv_ok_iff_rules p m : invariant p ->
  is_ok (mv p m) = is_some (rules_move (abs p) (raw m)).
Proof.
  intros (Hs & Hb & Hr & Ht).
  destruct (N.eq_dec (mT m) 1) as [E|E].
  - rewrite pass_not_rules by exact E. destruct (mv p m) as [q| |] eqn:Hq; try reflexivity.
    apply mv_type in Hq. lia.
  - assert (R := move_refines_rules p m Hs Hb Hr Ht E). destruct (mv p m); [rewrite R|rewrite R|destruct R]; reflexivity.
Qed.

Theorem legal_set_exact p : invariant p ->
  NoDupA meq (legal_list p) /\
  (forall g, In g (legal_list p) -> In g (all_moves p) /\ is_some (rules_move (abs p) (raw g)) = true) /\
  (forall m, count m (legal_list p) = if is_some (rules_move (abs p) (raw m)) then 1%nat else 0%nat).
Proof.
  intros Hinv. split; [apply NoDupA_filter, allmoves_nodup|]. split.
  - intros g Hg. apply filter_In in Hg as [Hg Hok]. split; [exact Hg|]. now rewrite <- mv_ok_iff_rules.
  - intros m. rewrite <- mv_ok_iff_rules by exact Hinv.
    destruct (mv p m) as [q| |] eqn:Hq; cbn [is_ok].
    + assert (Ht := mv_type p m q Hq).
      destruct (allmoves_complete p m q (invariant_wf p Hinv) ltac:(lia) Hq) as (g & Hg & E).
      apply (count_one m _ g); [apply NoDupA_filter, allmoves_nodup| |exact E].
      apply filter_In. split; [exact Hg|]. now rewrite (move_equal_same_result p g m E), Hq.
    + apply count_zero. intros g Hg. apply filter_In in Hg as [_ Hok].
      destruct (move_equal g m) eqn:E; [|reflexivity]. rewrite (move_equal_same_result p g m E), Hq in Hok. discriminate.
    + apply count_zero. intros g Hg. apply filter_In in Hg as [_ Hok].
      destruct (move_equal g m) eqn:E; [|reflexivity]. rewrite (move_equal_same_result p g m E), Hq in Hok. discriminate.
Qed.
Print Assumptions legal_set_exact.

(* the same in the "exists" form of the design: a raw move is rules-legal iff some entry of the filtered list is Equal to it *)
Corollary legal_set_iff p m : invariant p ->
  (is_some (rules_move (abs p) (raw m)) = true <-> exists g, In g (legal_list p) /\ move_equal g m = true).
Proof.
  intros Hinv. destruct (legal_set_exact p Hinv) as (_ & _ & Hc). specialize (Hc m). split.
  - intros H. rewrite H in Hc. unfold count in Hc.
    destruct (filter (fun g => move_equal g m) (legal_list p)) as [|g l] eqn:F; [discriminate Hc|].
    assert (Hg : In g (filter (fun g => move_equal g m) (legal_list p))) by (rewrite F; now left).
    apply filter_In in Hg. now exists g.
  - intros (g & Hg & E). destruct (is_some _); [reflexivity|]. exfalso.
    assert (Hin : In g (filter (fun g => move_equal g m) (legal_list p))) by (apply filter_In; now split).
    unfold count in Hc. destruct (filter _ (legal_list p)); [destruct Hin|discriminate Hc].
Qed.

(* ---- decidable versions of the invariant, for concrete positions ---- *)
Definition sq_okb (b : bstate) (i : N) : bool :=
  let h := nthN (bhs b) i in
  (h <=? 64)%N && Bool.eqb (h =? 0)%N (negb (has (bw b) i) && negb (has (bb b) i)) &&
  negb (has (bw b) i && has (bb b) i) &&
  (negb (h =? 0)%N || (negb (has (bs b) i) && negb (has (bc b) i))) &&
  negb (has (bs b) i && has (bc b) i).

Lemma sq_okb_ok b i : sq_okb b i = true -> sq_ok b i.
Proof.
  unfold sq_okb. intros H.
  apply andb_prop in H as [H H5]. apply andb_prop in H as [H H4]. apply andb_prop in H as [H H3]. apply andb_prop in H as [H1 H2].
  apply eqb_prop in H2.
  constructor.
  - lia.
  - destruct (N.eqb_spec (nthN (bhs b) i) 0) as [E|E].
    + split; [intros _|auto]. symmetry in H2. apply andb_prop in H2 as [A B]. split; [now destruct (has (bw b) i)|now destruct (has (bb b) i)].
    + split; [contradiction|]. intros [A B]. rewrite A, B in H2. discriminate.
  - now destruct (has (bw b) i && has (bb b) i).
  - intros E. rewrite E in H4. cbn in H4. apply andb_prop in H4 as [A B]. split; [now destruct (has (bs b) i)|now destruct (has (bc b) i)].
  - now destruct (has (bs b) i && has (bc b) i).
Qed.

Definition invariantb (p : position) : bool :=
  let n := nsq (size p) in
  (3 <=? size p)%N && (size p <=? 8)%N &&
  Nat.eqb (length (Height p)) n && Nat.eqb (length (Stacks p)) n &&
  forallb (fun i => sq_okb (bview p) (N.of_nat i) && (nthN (Height p) (N.of_nat i) + size p <=? 64)%N) (seq 0 n) &&
  (whiteStones p <? 256)%N && (whiteCaps p <? 256)%N && (blackStones p <? 256)%N && (blackCaps p <? 256)%N.

Lemma invariantb_ok p : invariantb p = true -> invariant p.
Proof.
  unfold invariantb. intros H.
  repeat match type of H with (_ && _ = true) => let H' := fresh "C" in apply andb_prop in H as [H H'] end.
  apply Nat.eqb_eq in C5, C4. rewrite forallb_forall in C3.
  assert (Hall : forall i, (i < size p * size p)%N -> sq_ok (bview p) i /\ (nthN (Height p) i + size p <= 64)%N).
  { intros i Hi. specialize (C3 (N.to_nat i)). rewrite N2Nat.id in C3.
    assert (Hin : In (N.to_nat i) (seq 0 (nsq (size p)))) by (apply in_seq; unfold nsq; lia).
    apply C3 in Hin. apply andb_prop in Hin as [A B]. split; [now apply sq_okb_ok|lia]. }
  split; [lia|]. split; [|split].
  - constructor; [exact C5|exact C4|]. intros i Hi. now apply Hall.
  - unfold reserves_ok. lia.
  - intros i Hi. now apply Hall.
Qed.
