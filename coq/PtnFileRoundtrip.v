(* ptn_render_parse: ParsePTN (Render g) = g for syntactically well-formed games, with or without a byte-order mark. *)
From Coq Require Import NArith ZArith List Bool Lia Ascii.
Require Import Board Move GameOver PtnMove Playtak Tps PtnFile PtnFileFacts PtnFileEnum.
Import ListNotations.
Local Open Scope char_scope.
Local Open Scope N_scope.

(* ---------- well-formedness (purely syntactic) ---------- *)
Definition wf_tag (t : list N * list N) : Prop :=
  ~ In 32 (fst t) /\ ~ In 93 (fst t) /\ ~ In 93 (snd t) /\ ~ In 34 (snd t).      (* name: no space, no closing bracket; value: no closing bracket, no double quote *)
Definition is_modifier (c : N) : Prop := c = 63 \/ c = 33 \/ c = 39.               (* question mark, exclamation mark, apostrophe *)
Definition wf_op (o : op) : Prop :=
  match o with
  | OMoveNumber n => in64 n                                                        (* a Go int *)
  | OMove m md => legal_shape m /\ Forall is_modifier md
  | OComment c => ~ In 125 c                                                       (* no closing brace *)
  | OResult r => is_result r = true
  end.
Definition wf_ptn (g : ptn) : Prop := Forall wf_tag (tags g) /\ Forall wf_op (ops g).

(* ---------- the rendering, piecewise ---------- *)
Definition tagpiece (t : list N * list N) : list N :=
  [91] ++ fst t ++ [32; 34] ++ filter (fun c => negb (c =? B """")) (snd t) ++ [34; 93; 10].
Definition lead (o : op) : N := match o with OMoveNumber _ | OResult _ => 10 | _ => 32 end.
Definition tok (o : op) : list N :=
  match o with
  | OMoveNumber n => fmt_int n ++ [46]
  | OMove m md => format_move false m ++ md
  | OComment c => 123 :: c ++ [125]
  | OResult r => r
  end.
Definition trail (o : op) : list N := match o with OResult _ => [10] | _ => [] end.
Definition piece (o : op) : list N := lead o :: tok o ++ trail o.

Lemma render_eq g : render g = flat_map tagpiece (tags g) ++ 10 :: flat_map piece (ops g) ++ [10].
Proof.
  unfold render. f_equal. cbn [app]. f_equal. f_equal.
  apply flat_map_ext. intros [n|m md|c|r]; unfold piece, lead, tok, trail; bn; cbn [app]; rewrite ?app_nil_r; try reflexivity.
Qed.

Lemma lead_space o : is_space (lead o) = true.
Proof. destruct o; reflexivity. Qed.

(* ---------- tokens ---------- *)
Lemma tokens_skip f c t : is_space c = true -> tokens f (c :: t) = tokens f t.
Proof. intros H. destruct f; [reflexivity|]. cbn [tokens]. rewrite (skip_ws_space c t H). reflexivity. Qed.
Lemma tokens_sw f s : tokens f (skip_ws s) = tokens f s.
Proof. destruct f; [reflexivity|]. cbn [tokens]. rewrite skip_ws_idem. reflexivity. Qed.

Lemma last_app_ne {A} (l r : list A) d : r <> [] -> last (l ++ r) d = last r d.
Proof.
  intros H. induction l as [|x l IH]; [reflexivity|]. cbn [app]. destruct (l ++ r) eqn:E.
  - destruct l, r; try discriminate; contradiction.
  - cbn [last]. exact IH.
Qed.

Lemma modifier_facts md : Forall is_modifier md ->
  nospace md /\ (md <> [] -> let l := last md 0 in l <> 46 /\ (l = 63 \/ l = 33 \/ l = 39)) /\
  forall t, trim_right_set (rev md ++ t) = trim_right_set t.
Proof.
  intros F. split; [|split].
  - intros b Hb. rewrite Forall_forall in F. destruct (F b Hb) as [H|[H|H]]; subst; reflexivity.
  - intros NE. destruct (exists_last NE) as (l' & a & E). subst md. rewrite last_last. cbv zeta.
    apply Forall_app in F. destruct F as [_ F]. inversion F; subst. destruct H1 as [H|[H|H]]; subst; split; auto; lia.
  - induction F as [|c md Hc F IH]; intros t; [reflexivity|]. cbn [rev]. rewrite <- app_assoc. rewrite IH. cbn [app trim_right_set]. bn.
    destruct Hc as [H|[H|H]]; subst; reflexivity.
Qed.

(* the head of every token: not a space, not an opening bracket *)
Lemma tok_head o : wf_op o -> exists h tl, tok o = h :: tl /\ is_space h = false /\ h <> 91.
Proof.
  destruct o as [n|m md|c|r]; cbn [wf_op tok].
  - intros W. destruct (fmt_int_shape n W) as (h & tl & E & S & N1 & _). rewrite E. exists h, (tl ++ [46]). auto.
  - intros [L _]. destruct (move_facts m L) as (_ & h & tl & E & S & N1 & _). rewrite E. exists h, (tl ++ md). auto.
  - intros _. exists 123, (c ++ [125]). repeat split. lia.
  - intros W. destruct (result_facts r W) as (h & tl & E & S & N1 & _). exists h, tl. auto.
Qed.

(* one op of the rendering is one token *)
Lemma tokens_piece o f sp rest : wf_op o -> is_space sp = true ->
  tokens (S f) (piece o ++ sp :: rest) = tok o :: tokens f (sp :: rest).
Proof.
  intros W S. unfold piece. cbn [app tokens]. rewrite (skip_ws_space _ _ (lead_space o)).
  destruct o as [n|m md|c|r]; cbn [wf_op tok trail] in *.
  - destruct (fmt_int_shape n W) as (h & tl & E & Sh & N1 & N2 & NS).
    rewrite app_nil_r. rewrite E in *. cbn [app]. rewrite (skip_ws_nonspace _ _ Sh). bn.
    replace (h =? 123) with false by (symmetry; apply N.eqb_neq; exact N2).
    change (h :: (tl ++ [46]) ++ sp :: rest) with (((h :: tl) ++ [46]) ++ sp :: rest).
    rewrite take_until_space_app; auto.
    + cbn [rev app]. rewrite (tokens_skip f sp rest S). reflexivity.
    + intros b Hb. apply in_app_or in Hb. destruct Hb as [Hb|[Hb|[]]]; [apply NS; exact Hb|subst; reflexivity].
  - destruct W as [L F]. destruct (move_facts m L) as (_ & h & tl & E & Sh & N1 & N2 & _ & NS & _).
    destruct (modifier_facts md F) as (NM & _).
    rewrite app_nil_r. rewrite E in *. cbn [app]. rewrite (skip_ws_nonspace _ _ Sh). bn.
    replace (h =? 123) with false by (symmetry; apply N.eqb_neq; exact N2).
    change (h :: (tl ++ md) ++ sp :: rest) with (((h :: tl) ++ md) ++ sp :: rest).
    rewrite take_until_space_app; auto.
    + cbn [rev app]. rewrite (tokens_skip f sp rest S). reflexivity.
    + intros b Hb. apply in_app_or in Hb. destruct Hb as [Hb|Hb]; [apply NS; exact Hb|apply NM; exact Hb].
  - rewrite app_nil_r. cbn [app]. rewrite skip_ws_nonspace by reflexivity. bn. change (123 =? 123) with true. cbv iota.
    cbn [take_comment]. bn. change (123 =? 125) with false. cbv iota.
    rewrite <- app_assoc. cbn [app]. rewrite take_comment_app by exact W. reflexivity.
  - destruct (result_facts r W) as (h & tl & E & Sh & N1 & N2 & NS & _). subst r.
    rewrite <- app_assoc. cbn [app]. rewrite (skip_ws_nonspace _ _ Sh). bn.
    replace (h =? 123) with false by (symmetry; apply N.eqb_neq; exact N2).
    change (h :: tl ++ 10 :: sp :: rest) with ((h :: tl) ++ 10 :: (sp :: rest)).
    rewrite take_until_space_app; auto.
Qed.

Lemma tokens_pieces os : Forall wf_op os -> forall f sp rest, is_space sp = true -> (length os <= f)%nat ->
  tokens f (flat_map piece os ++ sp :: rest) = map tok os ++ tokens (f - length os) (sp :: rest).
Proof.
  induction 1 as [|o os W F IH]; intros f sp rest S L.
  - cbn. rewrite Nat.sub_0_r. reflexivity.
  - cbn [flat_map map length] in *. destruct f as [|f]; [lia|].
    rewrite <- app_assoc.
    destruct (flat_map piece os ++ sp :: rest) as [|sp' rest'] eqn:E.
    { destruct (flat_map piece os); discriminate. }
    assert (S' : is_space sp' = true).
    { destruct os as [|o' os']; cbn in E; inversion E; subst; [exact S|apply lead_space]. }
    rewrite (tokens_piece o f sp' rest' W S'). rewrite <- E. rewrite IH by (auto; lia). reflexivity.
Qed.

(* ---------- readMoves on the tokens ---------- *)
Lemma skipn_app_len {A} (l r : list A) : skipn (length l) (l ++ r) = r.
Proof. induction l; [reflexivity|]. cbn. exact IHl. Qed.

Lemma firstn_app_len {A} (l r : list A) : firstn (length l) (l ++ r) = l.
Proof. induction l; [reflexivity|]. cbn. f_equal. exact IHl. Qed.

Lemma read_moves_tok o rest acc : wf_op o -> read_moves (tok o :: rest) acc = read_moves rest (o :: acc).
Proof.
  intros W. destruct o as [n|m md|c|r]; cbn [wf_op tok] in *.
  - destruct (fmt_int_shape n W) as (h & tl & E & Sh & N1 & N2 & NS).
    cbn [read_moves]. rewrite E. cbn [app]. bn.
    replace (h =? 123) with false by (symmetry; apply N.eqb_neq; exact N2).
    change (h :: tl ++ [46]) with ((h :: tl) ++ [46]). rewrite last_last. change (46 =? 46) with true. cbv iota.
    rewrite removelast_last. rewrite <- E. rewrite (atoi_fmt_int n W). reflexivity.
  - destruct W as [L F]. destruct (move_facts m L) as (P & h & tl & E & Sh & N1 & N2 & (R1 & R2 & R3 & R4) & NS & LA).
    destruct (modifier_facts md F) as (NM & LM & TR).
    cbn [read_moves]. rewrite E. cbn [app]. bn.
    replace (h =? 123) with false by (symmetry; apply N.eqb_neq; exact N2).
    change (h :: tl ++ md) with ((h :: tl) ++ md). rewrite <- E.
    cbv zeta in LA. destruct LA as (L1 & L2 & L3 & L4).
    assert (LL : last (format_move false m ++ md) 0 <> 46).
    { destruct md as [|x md']; [rewrite app_nil_r; exact L4|]. rewrite last_app_ne by discriminate. apply LM. discriminate. }
    replace (last (format_move false m ++ md) 0 =? 46) with false by (symmetry; apply N.eqb_neq; exact LL).
    assert (NR : is_result (format_move false m ++ md) = false).
    { destruct (is_result (format_move false m ++ md)) eqn:IR; [|reflexivity]. exfalso. rewrite E in IR. cbn [app] in IR.
      apply is_result_head in IR. lia. }
    rewrite NR.
    assert (TRIM : rev (trim_right_set (rev (format_move false m ++ md))) = format_move false m).
    { rewrite rev_app_distr, TR. rewrite E.
      assert (K : rev (h :: tl) = last (h :: tl) 0 :: rev (removelast (h :: tl))).
      { rewrite (app_removelast_last 0 (l := h :: tl)) at 1 by discriminate. rewrite rev_unit. reflexivity. }
      rewrite K. rewrite E in L1, L2, L3. cbn [trim_right_set]. bn.
      replace (last (h :: tl) 0 =? 63) with false by (symmetry; apply N.eqb_neq; exact L1).
      replace (last (h :: tl) 0 =? 33) with false by (symmetry; apply N.eqb_neq; exact L2).
      replace (last (h :: tl) 0 =? 39) with false by (symmetry; apply N.eqb_neq; exact L3).
      cbn [orb]. rewrite <- K. apply rev_involutive. }
    cbv zeta. rewrite TRIM, P. rewrite skipn_app_len. reflexivity.
  - cbn [read_moves]. bn. change (123 =? 123) with true. cbv iota.
    change (123 :: c ++ [125]) with ((123 :: c) ++ [125]). rewrite last_last. change (125 =? 125) with true.
    replace (Nat.ltb (length ((123 :: c) ++ [125])) 2%nat) with false.
    2:{ symmetry. apply Nat.ltb_ge. rewrite app_length. cbn. lia. }
    cbn [orb negb]. cbn [app tl length]. rewrite app_length. cbn [length].
    replace (S (length c + 1) - 2)%nat with (length c) by lia. rewrite firstn_app_len. reflexivity.
  - destruct (result_facts r W) as (h & tl & E & Sh & N1 & N2 & NS & LA). subst r.
    cbn [read_moves]. bn.
    replace (h =? 123) with false by (symmetry; apply N.eqb_neq; exact N2).
    replace (last (h :: tl) 0 =? 46) with false by (symmetry; apply N.eqb_neq; exact LA).
    rewrite W. reflexivity.
Qed.

Lemma read_moves_toks os : Forall wf_op os -> forall acc, read_moves (map tok os) acc = Ok (rev acc ++ os).
Proof.
  induction 1 as [|o os W F IH]; intros acc; cbn [map].
  - cbn. rewrite app_nil_r. reflexivity.
  - rewrite read_moves_tok by exact W. rewrite IH. cbn [rev]. rewrite <- app_assoc. reflexivity.
Qed.

(* ---------- readEvents on the tags ---------- *)
Lemma read_events_skip f c s acc : is_space c = true -> read_events (S f) (c :: s) acc = read_events (S f) s acc.
Proof. intros H. cbn [read_events]. rewrite (skip_ws_space c s H). reflexivity. Qed.

Lemma read_events_tag t f rest acc : wf_tag t ->
  read_events (S (S f)) (tagpiece t ++ rest) acc = read_events (S f) rest ((fst t, snd t) :: acc).
Proof.
  destruct t as [nm v]. intros (W1 & W2 & W3 & W4). cbn [fst snd] in *. unfold tagpiece. cbn [fst snd].
  rewrite (filter_noq v W4). remember (S f) as f1 eqn:Hf1. cbn [app read_events]. rewrite skip_ws_nonspace by reflexivity. bn.
  change (91 =? 91) with true. cbn [negb].
  replace ((nm ++ 32 :: 34 :: v ++ [34; 93; 10]) ++ rest) with ((nm ++ 32 :: 34 :: v ++ [34]) ++ 93 :: 10 :: rest).
  2:{ repeat (rewrite <- app_assoc; cbn [app]). reflexivity. }
  rewrite read_until_app.
  2:{ intros H. apply in_app_or in H. destruct H as [H|[H|[H|H]]]; try lia; [apply W2; exact H|].
      apply in_app_or in H. destruct H as [H|[H|[]]]; [apply W3; exact H|lia]. }
  cbn [rev app]. rewrite split_n2_app by exact W1. cbn [rev app].
  rewrite trim_quoted by exact W4. subst f1. rewrite (read_events_skip f 10) by reflexivity. reflexivity.
Qed.

Lemma read_events_tags ts : Forall wf_tag ts -> forall f rest acc,
  read_events (length ts + S f) (flat_map tagpiece ts ++ rest) acc = read_events (S f) rest (rev ts ++ acc).
Proof.
  induction 1 as [|t ts W F IH]; intros f rest acc; [reflexivity|].
  cbn [flat_map length plus]. rewrite <- app_assoc. rewrite Nat.add_succ_r. rewrite read_events_tag by exact W.
  rewrite <- Nat.add_succ_r. rewrite IH.
  cbn [rev]. rewrite <- app_assoc. destruct t; reflexivity.
Qed.

Lemma read_events_stop f s acc : match skip_ws s with [] => True | c :: _ => c <> 91 end ->
  read_events (S f) s acc = Ok (rev acc, skip_ws s).
Proof.
  intros H. cbn [read_events]. destruct (skip_ws s) as [|c r]; [reflexivity|]. bn.
  replace (c =? 91) with false by (symmetry; apply N.eqb_neq; exact H). reflexivity.
Qed.

(* ---------- the theorem ---------- *)
Lemma flat_map_len {A} (f : A -> list N) l : (forall x, f x <> []) -> (length l <= length (flat_map f l))%nat.
Proof.
  intros H. induction l as [|x l IH]; [cbn; lia|]. cbn [flat_map length]. rewrite app_length.
  specialize (H x). destruct (f x); [contradiction|]. cbn. lia.
Qed.

Definition parse_body (s : list N) : res ptn :=
  match read_events (S (length s)) s [] with
  | Ok (tg, rest) => match read_moves (tokens (S (length rest)) rest) [] with
                     | Ok os => Ok {| tags := tg; ops := os |} | Err => Err | Panic => Panic end
  | Err => Err | Panic => Panic
  end.

Lemma ops_part os : Forall wf_op os ->
  let s := skip_ws (10 :: flat_map piece os ++ [10]) in
  match s with [] => True | c :: _ => c <> 91 end /\ (length os <= length s)%nat.
Proof.
  intros F. cbv zeta.
  destruct os as [|o os]; [cbn; split; [exact I|lia]|].
  inversion F as [|? ? W F']; subst.
  destruct (tok_head o W) as (h & tl & E & S & N1).
  assert (E0 : skip_ws (10 :: flat_map piece (o :: os) ++ [10]) = h :: (tl ++ trail o) ++ flat_map piece os ++ [10]).
  { rewrite skip_ws_space by reflexivity. cbn [flat_map]. unfold piece at 1. cbn [app].
    rewrite (skip_ws_space _ _ (lead_space o)). rewrite E. cbn [app]. rewrite (skip_ws_nonspace _ _ S).
    rewrite <- !app_assoc. reflexivity. }
  rewrite E0. split; [exact N1|]. cbn [length]. rewrite !app_length.
  pose proof (flat_map_len piece os ltac:(intros x; unfold piece; discriminate)). lia.
Qed.

Lemma parse_body_render g : wf_ptn g -> parse_body (render g) = Ok g.
Proof.
  intros [WT WO]. unfold parse_body. rewrite render_eq.
  set (rest0 := 10 :: flat_map piece (ops g) ++ [10]).
  assert (LT : (length (tags g) <= length (flat_map tagpiece (tags g) ++ rest0))%nat).
  { rewrite app_length. pose proof (flat_map_len tagpiece (tags g) ltac:(intros x; unfold tagpiece; discriminate)). lia. }
  replace (S (length (flat_map tagpiece (tags g) ++ rest0))) with (length (tags g) + S (length (flat_map tagpiece (tags g) ++ rest0) - length (tags g)))%nat by lia.
  rewrite read_events_tags by exact WT.
  destruct (ops_part (ops g) WO) as [H1 H2]. fold rest0 in H1, H2.
  rewrite read_events_stop by exact H1.
  rewrite tokens_sw. unfold rest0 at 2. rewrite tokens_skip by reflexivity.
  rewrite tokens_pieces; [|exact WO|reflexivity|lia].
  replace (tokens _ [10]) with (@nil (list N)).
  2:{ destruct (S (length (skip_ws rest0)) - length (ops g))%nat; reflexivity. }
  rewrite app_nil_r. rewrite read_moves_toks by exact WO. cbn [rev app]. rewrite app_nil_r, rev_involutive.
  destruct g; reflexivity.
Qed.

Lemma render_head g : exists c r, render g = c :: r /\ (c = 91 \/ c = 10).
Proof.
  rewrite render_eq. destruct (tags g) as [|t ts]; cbn [flat_map app].
  - eexists _, _. split; [reflexivity|]. right; reflexivity.
  - unfold tagpiece at 1. cbn [app]. eexists _, _. split; [reflexivity|]. left; reflexivity.
Qed.

Theorem ptn_render_parse g : wf_ptn g ->
  parse_ptn (render g) = Ok g /\ parse_ptn (239 :: 187 :: 191 :: render g) = Ok g.
Proof.
  intros W. pose proof (parse_body_render g W) as P. destruct (render_head g) as (c & r & E & Hc).
  split.
  - unfold parse_ptn. rewrite E in *. replace (match c :: r with 239 :: 187 :: 191 :: r0 => r0 | _ => c :: r end) with (c :: r).
    + exact P.
    + destruct Hc; subst; reflexivity.
  - exact P.
Qed.

(* ---------- non-vacuity: a well-formed game with every kind of op, and the round trip computed on it ---------- *)
Lemma legal_shape_by_search m x y : In x coords -> In y coords -> existsb (move_eqb m) (moves_at x y) = true -> legal_shape m.
Proof.
  intros Hx Hy H. apply existsb_exists in H. destruct H as (m' & Hin & E). apply move_eqb_eq in E. subst m'.
  exists x, y. auto.
Qed.

Definition ex_game : ptn :=
  {| tags := [([83; 105; 122; 101], [53]); ([80; 108; 97; 121; 101; 114; 49], [97; 32; 98])];      (* Size 5, Player1 "a b" *)
     ops := [OComment [104; 105; 32; 123]; OMoveNumber 1;
             OMove {| PtnMove.mX := 0; PtnMove.mY := 0; PtnMove.mT := PlaceFlat; PtnMove.mS := 0 |} [];
             OMove {| PtnMove.mX := 4; PtnMove.mY := 4; PtnMove.mT := PlaceFlat; PtnMove.mS := 0 |} [63; 33];
             OMoveNumber 2;
             OMove {| PtnMove.mX := 0; PtnMove.mY := 0; PtnMove.mT := SlideRight; PtnMove.mS := mk_slides [1] |} [39];
             OResult [82; 45; 48]] |}.

Example ex_game_wf : wf_ptn ex_game.
Proof.
  assert (I64 : forall z, (-1000 <= z <= 1000)%Z -> in64 z) by (intros z H; unfold in64; change (2^63)%Z with 9223372036854775808%Z; lia).
  split.
  - repeat constructor; cbn; intuition discriminate.
  - unfold ex_game, ops. repeat apply Forall_cons; try apply Forall_nil; cbn [wf_op].
    + cbn; lia.
    + apply I64; lia.
    + split; [apply (legal_shape_by_search _ 0%Z 0%Z); [unfold coords; cbn; tauto|unfold coords; cbn; tauto|vm_compute; reflexivity]|constructor].
    + split; [apply (legal_shape_by_search _ 4%Z 4%Z); [unfold coords; cbn; tauto|unfold coords; cbn; tauto|vm_compute; reflexivity]|].
      rewrite Forall_forall; intros c Hc; cbn in Hc; unfold is_modifier; lia.
    + apply I64; lia.
    + split; [apply (legal_shape_by_search _ 0%Z 0%Z); [unfold coords; cbn; tauto|unfold coords; cbn; tauto|vm_compute; reflexivity]|].
      rewrite Forall_forall; intros c Hc; cbn in Hc; unfold is_modifier; lia.
    + vm_compute. reflexivity.
Qed.

Example ex_game_roundtrip : parse_ptn (239 :: 187 :: 191 :: render ex_game) = Ok ex_game.
Proof. vm_compute. reflexivity. Qed.
