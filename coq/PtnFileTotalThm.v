(* ptn_file_total: ParsePTN + InitialPosition + replay (Iterator, PositionAtMove) never panic, on every byte string. *)
From Coq Require Import NArith ZArith List Bool Lia.
Require Import Board Move GameOver PtnMove Playtak Tps PtnFile PtnFileIter PtnFileTotal PtnFileSafe TotalFacts.
Import ListNotations.

Lemma safe_step basis p m : safe p ->
  match pmove basis p m with Move.Panic => False | Move.Err => True | Move.Ok q => safe q /\ game_over q <> None end.
Proof.
  intros S. unfold pmove. pose proof (move_prealloc_safe (hash_sq basis) p m S) as H.
  destruct (move_prealloc (hash_sq basis) true p m) as [q| |]; auto. split; [exact H|]. apply game_over_total. exact H.
Qed.

(* the only source of a panic left is the TPS parser (Tps.v, not part of this file's subject): stated as a premise on the TPS tag *)
Theorem ptn_file_total_partial basis s :
  match parse_ptn s with
  | Move.Panic => False
  | Move.Err => True
  | Move.Ok g =>
    (parse_tps basis (find_tag tag_tps (tags g)) <> Move.Panic -> initial_position basis g <> Move.Panic) /\
    (forall p0, initial_position basis g = Move.Ok p0 -> replay_all basis g p0 <> Move.Panic) /\
    (parse_tps basis (find_tag tag_tps (tags g)) <> Move.Panic -> forall n c, position_at_move basis g n c <> Move.Panic)
  end.
Proof.
  pose proof (parse_ptn_total s) as P. destruct (parse_ptn s) as [g| |]; [|exact I|contradiction].
  split; [apply initial_position_total|]. split.
  - intros p0 E. apply (replay_total basis safe (safe_step basis)). eapply initial_position_safe; eauto.
  - intros HT n c. apply (position_at_move_total basis safe (safe_step basis)).
    + intros p0 E. eapply initial_position_safe; eauto.
    + apply initial_position_total. exact HT.
Qed.

(* without a TPS tag nothing is assumed *)
Corollary ptn_file_total_no_tps basis s g : parse_ptn s = Move.Ok g -> find_tag tag_tps (tags g) = [] ->
  initial_position basis g <> Move.Panic /\
  (forall p0, initial_position basis g = Move.Ok p0 -> replay_all basis g p0 <> Move.Panic) /\
  (forall n c, position_at_move basis g n c <> Move.Panic).
Proof.
  intros E T. pose proof (ptn_file_total_partial basis s) as H. rewrite E in H. destruct H as (H1 & H2 & H3).
  assert (NP : parse_tps basis (find_tag tag_tps (tags g)) <> Move.Panic) by (rewrite T; discriminate).
  auto.
Qed.

(* with the repaired TPS parser (TotalFacts.parse_tps_total) the premise is discharged: the full statement *)
Theorem ptn_file_total basis s :
  match parse_ptn s with
  | Move.Panic => False
  | Move.Err => True
  | Move.Ok g =>
    initial_position basis g <> Move.Panic /\
    (forall p0, initial_position basis g = Move.Ok p0 -> replay_all basis g p0 <> Move.Panic) /\
    (forall n c, position_at_move basis g n c <> Move.Panic)
  end.
Proof.
  pose proof (ptn_file_total_partial basis s) as H. destruct (parse_ptn s) as [g| |]; auto.
  destruct H as (H1 & H2 & H3). pose proof (parse_tps_total basis (find_tag tag_tps (tags g))) as T. auto.
Qed.
