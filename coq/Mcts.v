(* AI/Mcts.v: code-shaped model of ai/mcts/mcts.go and ai/mcts/policy.go (the Monte-Carlo player), repaired tree
   (cornerMove returns X: row, Y: col; PlaceWins.Select falls back to the uniform policy when the winning flat cannot be placed).

   Conventions of this file
   - math/rand is an ORACLE STREAM: `rstream` lists the successive values of Rand.Int31() = int32(Source.Int63() >> 32) of the
     Source the player was given.  Int31n / Intn (power-of-two mask, rejection loop, modulo) are transcribed on top of it.
   - the CLOCK is a fuel parameter: `fuel` = how many times the loop condition `time.Now().Before(deadline)` of GetMove holds.
   - sort.Sort(bySims(children)) is an ORACLE: `perm` lists, for every place of the sorted slice, the index the element had
     before; the model checks that it is a permutation that sorts by decreasing simulations and is otherwise free.
   - float64: the three constant scores of tree.ucb (-100, 100, 10), -Inf, and the computed score
     -float64(value)/float64(simulations) + C*sqrt(log(float64(N))/float64(simulations)) live in an abstract type F with abstract
     comparisons (Section variables).  The loop around them (strictly-greater, equal => reservoir draw) is transcribed.  The
     extracted model is run with F := IEEE double (OCaml float, Go's log algorithm ported operation by operation in
     ocaml/drv_c04m.ml); every theorem of MctsFacts.v holds for EVERY instantiation, i.e. for any selection whatsoever.
   - parent pointers: `descend` returns the PATH (child indices from the root) of the node it stops at; `update`'s upward loop
     `for t != nil { ...; t = t.parent }` is the return path of the recursion `update_path` (one `update_step` per node, the
     write to `t.parent.proven` is the `pact` handed to the caller).
   - positions are values (MovePreallocated into the policy's recycled buffer = Move; aliasing is property C09's subject).
   - `Err` never stands for a Go behaviour here: it means the run left the model (oracle stream or fuel exhausted, sort oracle
     not a sorting permutation, flood fuel, Intn argument above 2^31-1).  `Panic` is a Go panic.
   - the player is assumed to be built for the board size of the position (ai.c = Precompute(size p), DefaultWeights[size p]). *)
From Coq Require Import NArith ZArith List Bool.
Require Import Board Move GameOver Refine Eval EvalInst.
Import ListNotations.
Open Scope N_scope.

(* ---------- math/rand.Rand over a scripted Source ---------- *)
Definition rstream := list N.

Fixpoint reject (rs : rstream) (max : N) : res (N * rstream) :=      (* v := r.Int31(); for v > max { v = r.Int31() } *)
  match rs with
  | [] => Err
  | v :: rest => if max <? v then reject rest max else Ok (v, rest)
  end.

Definition int31n (n : Z) (rs : rstream) : res (N * rstream) :=
  if (n <=? 0)%Z then Panic                                            (* panic("invalid argument to Int31n") *)
  else
    let n := Z.to_N n in
    if N.land n (n - 1) =? 0 then
      match rs with [] => Err | v :: rest => Ok (N.land v (n - 1), rest) end
    else
      let max := 2 ^ 31 - 1 - (2 ^ 31) mod n in
      match reject rs max with
      | Ok (v, rest) => Ok (v mod n, rest)
      | Err => Err
      | Panic => Panic
      end.

Definition intn (n : Z) (rs : rstream) : res (N * rstream) :=
  if (n <=? 0)%Z then Panic                                            (* panic("invalid argument to Intn") *)
  else if (n <=? 2 ^ 31 - 1)%Z then int31n n rs
  else Err.                                                            (* Int63n: never reached (list lengths) *)

(* ---------- the tree ---------- *)
Inductive tree := T (pos : position) (m : rmove) (sims value proven : Z) (children : list tree).
Definition t_pos (t : tree) := let 'T p _ _ _ _ _ := t in p.
Definition t_move (t : tree) := let 'T _ m _ _ _ _ := t in m.
Definition t_sims (t : tree) := let 'T _ _ s _ _ _ := t in s.
Definition t_value (t : tree) := let 'T _ _ _ v _ _ := t in v.
Definition t_proven (t : tree) := let 'T _ _ _ _ pr _ := t in pr.
Definition t_children (t : tree) := let 'T _ _ _ _ _ c := t in c.
Definition zero_move : rmove := {| mX := 0; mY := 0; mT := 0; mS := 0 |}.
Definition root_of (p : position) : tree := T p zero_move 0 0 0 [].     (* &tree{position: p} *)

Fixpoint node_at (path : list nat) (t : tree) : option tree :=
  match path with
  | [] => Some t
  | k :: rest => match nth_error (t_children t) k with Some c => node_at rest c | None => None end
  end.

Fixpoint set_nth {A} (l : list A) (k : nat) (a : A) : list A :=
  match l, k with
  | [], _ => []
  | _ :: r, O => a :: r
  | h :: r, S j => h :: set_nth r j a
  end.

(* ---------- populate ---------- *)
Definition proven_of (child : position) : res Z :=
  match game_over child with
  | None => Err
  | Some (over, winner) =>
    Ok (match winner with
        | GNone => 0
        | GWhite => if over then (if to_move_white child then 1 else -1) else 0
        | GBlack => if over then (if to_move_white child then -1 else 1) else 0
        end)%Z
  end.

Fixpoint populate_moves (p : position) (ms : list rmove) : res (list tree) :=
  match ms with
  | [] => Ok []
  | m :: rest =>
    match mv p m with
    | Panic => Panic
    | Err => populate_moves p rest                                     (* if e != nil { continue } *)
    | Ok child =>
      let* pr := proven_of child in
      let* tl := populate_moves p rest in
      Ok (T child m 0 0 pr [] :: tl)
    end
  end.
Definition populate (p : position) : res (list tree) := populate_moves p (all_moves p).

Fixpoint populate_at (path : list nat) (t : tree) (chs : list tree) : res tree :=      (* node.children = chs *)
  match path with
  | [] => Ok (T (t_pos t) (t_move t) (t_sims t) (t_value t) (t_proven t) chs)
  | k :: rest =>
    match nth_error (t_children t) k with
    | None => Panic
    | Some c =>
      let* c' := populate_at rest c chs in
      Ok (T (t_pos t) (t_move t) (t_sims t) (t_value t) (t_proven t) (set_nth (t_children t) k c'))
    end
  end.

(* ---------- policies ---------- *)
Fixpoint upd_move (l : list rmove) (i : nat) (v : rmove) : list rmove :=
  match l, i with [], _ => [] | _ :: t, O => v :: t | h :: t, S j => h :: upd_move t j v end.
(* moves[0], moves[r] = moves[r], moves[0]; moves = moves[1:] *)
Definition swap_remove (moves : list rmove) (r : nat) : list rmove :=
  match moves with
  | [] => []
  | h :: t => match r with O => t | S j => upd_move t j h end
  end.

Fixpoint uniform_loop (fuel : nat) (p : position) (moves : list rmove) (rs : rstream) : res (position * rstream) :=
  match fuel with
  | O => Err
  | S f =>
    let* (r, rs1) := int31n (Z.of_nat (length moves)) rs in
    let* m := idx moves r in
    match mv p m with
    | Ok next => Ok (next, rs1)
    | Panic => Panic
    | Err => uniform_loop f p (swap_remove moves (N.to_nat r)) rs1
    end
  end.
Definition uniform_select (p : position) (rs : rstream) : res (position * rstream) :=
  let ms := all_moves p in uniform_loop (S (length ms)) p ms rs.

Definition find_place_wins (c : consts) (mask empty : N) (gs : list N) : N :=
  let '(l, r, b, t) :=
    fold_left (fun (acc : N * N * N * N) g =>
        let '(l, r, b, t) := acc in
        (if negb (N.land g (cL c) =? 0) then N.lor l g else l,
         if negb (N.land g (cR c) =? 0) then N.lor r g else r,
         if negb (N.land g (cB c) =? 0) then N.lor b g else b,
         if negb (N.land g (cT c) =? 0) then N.lor t g else t))
      gs (N.land mask (cL c), N.land mask (cR c), N.land mask (cB c), N.land mask (cT c)) in
  let lf := N.lor (grow c empty l) (N.land (cL c) empty) in
  let rf := N.lor (grow c empty r) (N.land (cR c) empty) in
  let bf := N.lor (grow c empty b) (N.land (cB c) empty) in
  let tf := N.lor (grow c empty t) (N.land (cT c) empty) in
  N.lor (N.land lf rf) (N.land tf bf).

Fixpoint tz_pos (p : positive) : N := match p with xO q => N.succ (tz_pos q) | _ => 0 end.
Definition trailing_zeros (x : N) : N := match x with 0 => 64 | Npos p => tz_pos p end.
Definition bit_coords (c : consts) (bits : N) : res (N * N) :=
  if (bits =? 0) || negb (N.land bits (bits - 1) =? 0) then Panic            (* panic("BitCoords: non-singular") *)
  else if Size c =? 0 then Panic                                               (* integer divide by zero *)
  else let n := trailing_zeros bits in Ok (n mod Size c, n / Size c).

Definition place_win_move (p : position) : res rmove :=
  let c := precompute (size p) in
  match analyze p with
  | None => Err
  | Some (wg, bg) =>
    let '(myroad, gs) := if to_move_white p then (N.ldiff (White p) (Standing p), wg)
                         else (N.ldiff (Black p) (Standing p), bg) in
    let empty := N.ldiff (cMask c) (N.lor (White p) (Black p)) in
    let mask := find_place_wins c myroad empty gs in
    if negb (mask =? 0) then
      let bit0 := N.lxor mask (N.land mask (mask - 1)) in
      let* (x, y) := bit_coords c bit0 in
      Ok {| mX := wrap8 (Z.of_N x); mY := wrap8 (Z.of_N y); mT := 2; mS := 0 |}
    else Ok zero_move
  end.

Definition placewin_select (p : position) (rs : rstream) : res (position * rstream) :=
  let* m := place_win_move p in
  if negb (mT m =? 0) then
    match mv p m with
    | Ok out => Ok (out, rs)
    | Panic => Panic
    | Err => uniform_select p rs          (* the winning square cannot be taken with a flat: fall back *)
    end
  else uniform_select p rs.

(* ---------- configuration (after NewMonteCarlo's defaults) ---------- *)
Record mcfg := { place_win : bool; max_rollout : Z; eval_threshold : Z; force_corners : bool }.

Definition select_policy (cfg : mcfg) := if place_win cfg then placewin_select else uniform_select.

(* ---------- rollout ---------- *)
Fixpoint rollout_loop (cfg : mcfg) (n : nat) (root_white : bool) (p : position) (rs : rstream) : res (Z * rstream) :=
  match n with
  | O =>
    let* v := eval_default p in
    Ok ((if (eval_threshold cfg <? v)%Z then 1 else if (v <? - eval_threshold cfg)%Z then -1 else 0)%Z, rs)
  | S n' =>
    match game_over p with
    | None => Err
    | Some (true, c) =>
      Ok (match c with
          | GNone => 0
          | GWhite => if root_white then 1 else -1
          | GBlack => if root_white then -1 else 1
          end%Z, rs)
    | Some (false, _) =>
      let* (next, rs1) := select_policy cfg p rs in                    (* Select never returns nil *)
      rollout_loop cfg n' root_white next rs1
    end
  end.
Definition rollout (cfg : mcfg) (p : position) (rs : rstream) : res (Z * rstream) :=
  rollout_loop cfg (Z.to_nat (max_rollout cfg)) (to_move_white p) p rs.

(* ---------- update ---------- *)
Inductive pact := PNone | PWin | PAll.     (* what one pass of update's loop does to t.parent.proven *)

(* one pass of `for t != nil` at node t with the incoming value: the node, the value handed to the parent, the action *)
Definition update_step (t : tree) (value : Z) : tree * Z * pact :=
  let 'T p m s v pr chs := t in
  let s := (s + 1)%Z in
  if negb (pr =? 0)%Z then
    if (pr <? 0)%Z then (T p m s v pr chs, 1%Z, PWin)          (* parent.proven = 1; value = -1; value = -value *)
    else (T p m s v pr chs, (-1)%Z, PAll)                      (* parent.proven = -1 if all children proven > 0; value = 1; value = -value *)
  else (T p m s (v + value)%Z pr chs, (- value)%Z, PNone).

Fixpoint update_path (path : list nat) (t : tree) (value : Z) : res (tree * Z * pact) :=
  match path with
  | [] => Ok (update_step t value)
  | k :: rest =>
    let 'T p m s v pr chs := t in
    match nth_error chs k with
    | None => Panic
    | Some c =>
      let* (c', vout, act) := update_path rest c value in
      let chs' := set_nth chs k c' in
      let pr' := match act with
                 | PNone => pr
                 | PWin => 1%Z
                 | PAll => if forallb (fun ch => (0 <? t_proven ch)%Z) chs' then (-1)%Z else pr
                 end in
      Ok (update_step (T p m s v pr' chs') vout)
    end
  end.

(* ---------- cornerMove ---------- *)
Definition at_len (p : position) (x y : Z) : res N :=                     (* len(p.At(x, y)) *)
  let i := uint_of_int (x + y * Z.of_N (size p)) in
  if has (N.lor (White p) (Black p)) i then
    let* h := idx (Height p) i in
    if h =? 0 then Panic else Ok h                                        (* sq[0] on an empty slice *)
  else Ok 0.

Fixpoint corner_loop (fuel : nat) (p : position) (rs : rstream) : res (rmove * rstream) :=
  match fuel with
  | O => Err
  | S f =>
    let* (a, rs1) := intn 2 rs in
    let* (b, rs2) := intn 2 rs1 in
    let row := ((Z.of_N (size p) - 1) * Z.of_N a)%Z in
    let col := ((Z.of_N (size p) - 1) * Z.of_N b)%Z in
    let* n := at_len p row col in
    if 0 <? n then corner_loop f p rs2
    else Ok ({| mX := wrap8 row; mY := wrap8 col; mT := 2; mS := 0 |}, rs2)
  end.
Definition corner_move (p : position) (rs : rstream) := corner_loop (S (length rs)) p rs.

(* ---------- the final choice ---------- *)
Fixpoint best_loop (l : list tree) (best : tree) (i : Z) (rs : rstream) : res (tree * rstream) :=
  match l with
  | [] => Ok (best, rs)
  | c :: rest =>
    if (t_sims best <? t_sims c)%Z then best_loop rest c 1%Z rs
    else if (t_sims c =? t_sims best)%Z then
      let i := (i + 1)%Z in
      let* (r, rs1) := intn i rs in
      if r =? 0 then best_loop rest c 1%Z rs1 else best_loop rest best i rs1
    else best_loop rest best i rs
  end.

Fixpoint sorted_desc (l : list tree) : bool :=
  match l with
  | a :: (b :: _) as r => (t_sims b <=? t_sims a)%Z && sorted_desc r
  | _ => true
  end.
Definition is_perm (perm : list nat) (n : nat) : bool :=
  Nat.eqb (length perm) n && forallb (fun k => existsb (Nat.eqb k) perm) (seq 0 n).
Definition apply_sort (chs : list tree) (perm : list nat) : res (list tree) :=
  let sorted := flat_map (fun k => match nth_error chs k with Some c => [c] | None => [] end) perm in
  if is_perm perm (length chs) && sorted_desc sorted then Ok sorted else Err.

Definition final_choice (t : tree) (perm : list nat) (rs : rstream) : res (rmove * rstream) :=
  match t_children t with
  | [] => Panic                                                          (* best := tree.children[0] *)
  | c0 :: _ =>
    let* sorted := apply_sort (t_children t) perm in
    let* (best, rs1) := best_loop sorted c0 0%Z rs in
    if negb (t_proven t =? 0)%Z then
      match sorted with
      | [] => Err                                                        (* not a sorting permutation: len is unchanged in Go *)
      | s0 :: _ => Ok (t_move (fold_left (fun b c => if (t_proven c <? t_proven b)%Z then c else b) sorted s0), rs1)
      end
    else Ok (t_move best, rs1)
  end.

(* ---------- selection, iteration, GetMove: parametric in the float scores ---------- *)
Section Scores.
Variable F : Type.
Variables (f_neg_inf f_m100 f_p100 f_p10 : F).
Variable f_score : Z -> Z -> Z -> F.       (* value, simulations, N *)
Variables (f_gt f_eq : F -> F -> bool).

Definition ucb (t : tree) (N : Z) : F :=
  if (0 <? t_proven t)%Z then f_m100
  else if (t_proven t <? 0)%Z then f_p100
  else if (t_sims t =? 0)%Z then f_p10
  else f_score (t_value t) (t_sims t) N.

Fixpoint select_loop (chs : list tree) (k : nat) (N : Z) (best : option nat) (val : F) (i : Z) (rs : rstream)
  : res (option nat * rstream) :=
  match chs with
  | [] => Ok (best, rs)
  | c :: rest =>
    let s := ucb c N in
    if f_gt s val then select_loop rest (S k) N (Some k) s 1%Z rs
    else if f_eq s val then
      let i := (i + 1)%Z in
      let* (r, rs1) := intn i rs in
      select_loop rest (S k) N (if r =? 0 then Some k else best) val i rs1
    else select_loop rest (S k) N best val i rs
  end.

Fixpoint descend (t : tree) (rs : rstream) : res (list nat * rstream) :=
  let 'T _ _ sims _ _ chs := t in
  match chs with
  | [] => Ok ([], rs)
  | _ :: _ =>
    let* (best, rs1) := select_loop chs 0 sims None f_neg_inf 0%Z rs in
    let k := match best with Some k => k | None => 0%nat end in          (* if best == nil { best = t.children[0] } *)
    (fix go (l : list tree) (j : nat) : res (list nat * rstream) :=
       match l, j with
       | c :: _, O => let* (path, rs2) := descend c rs1 in Ok (k :: path, rs2)
       | _ :: r, S j' => go r j'
       | [], _ => Panic
       end) chs k
  end.

(* one pass of the loop of GetMove: (tree, did the loop break, rest of the stream) *)
Definition iter_step (cfg : mcfg) (t : tree) (rs : rstream) : res (tree * bool * rstream) :=
  let* (path, rs1) := descend t rs in
  match node_at path t with
  | None => Panic
  | Some node =>
    let* chs := populate (t_pos node) in
    let* t1 := populate_at path t chs in
    if negb (t_proven t1 =? 0)%Z then Ok (t1, true, rs1)                  (* if tree.proven != 0 { break } *)
    else
      let* (val, rs2) := (if (t_proven node =? 0)%Z then rollout cfg (t_pos node) rs1 else Ok (0%Z, rs1)) in
      let* (t2, _, _) := update_path path t1 val in
      Ok (t2, false, rs2)
  end.

Fixpoint iterate (cfg : mcfg) (fuel : nat) (t : tree) (rs : rstream) : res (tree * rstream) :=
  match fuel with
  | O => Ok (t, rs)
  | S f =>
    let* (t', brk, rs') := iter_step cfg t rs in
    if brk then Ok (t', rs') else iterate cfg f t' rs'
  end.

Definition get_move (cfg : mcfg) (fuel : nat) (perm : list nat) (p : position) (rs : rstream) : res (rmove * rstream) :=
  if force_corners cfg && (move p <? 2)%Z then corner_move p rs
  else
    let* (t, rs1) := iterate cfg fuel (root_of p) rs in
    final_choice t perm rs1.
End Scores.
