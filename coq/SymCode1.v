(* C14, layer 4: the code-shaped symmetry.TransformMove (Symmetry.transform_move: int8 flips, direction re-derived from the
   transformed end point of the slide, panics) agrees with the specification-level image of a raw move (SymRules2.tm)
   on every transformable move, where the int8 wrap-arounds are the identity. *)
From Coq Require Import NArith ZArith Arith List Bool Lia ZifyN ZifyBool ZifyNat.
Require Import Rules Sym SymRules1 SymRules2.
Require Import Board Move GameOver Tps Symmetry Refine.
Import ListNotations.
Close Scope Z_scope. Close Scope N_scope.
Local Ltac Zify.zify_post_hook ::= Z.div_mod_to_equations.

Definition idsym : symfn := fun x y => (x, y).

(* the k-th entry of the code's table of symmetries *)
Definition csym (s k : nat) : symfn := nth k (syms (Z.of_nat s)) idsym.

Lemma wrap8_small z : (-128 <= z < 128)%Z -> wrap8 z = z.
Proof. unfold wrap8. lia. Qed.

Ltac unwrap := repeat match goal with |- context [wrap8 ?z] => rewrite (wrap8_small z) by lia end.

(* on coordinates in [-100,100] (every board coordinate and every slide end point) the int8 flips do not wrap *)
Lemma csym_sym s k x y : k < 8 -> size_ok s -> (-100 <= x <= 100)%Z -> (-100 <= y <= 100)%Z ->
  csym s k x y = sym (Z.of_nat s) k (x, y).
Proof.
  intros Hk Hs Hx Hy. unfold csym, syms, size_ok in *.
  do 8 (destruct k as [|k]; [cbn [nth sym]; unfold f; unwrap; reflexivity|]). lia.
Qed.

Lemma nibbles_len_le fuel s : length (nibbles fuel s) <= fuel.
Proof. revert s; induction fuel as [|fu IH]; intros s; cbn [nibbles]; [cbn; lia|]. destruct (N.eqb s 0); cbn [length]; [lia|]. specialize (IH (N.shiftr s 4)). lia. Qed.

Lemma slides_len_range s : s <> 0%N -> (1 <= slides_len s <= 8)%Z.
Proof.
  intros H. unfold slides_len. assert (H8 := nibbles_len_le 8 s).
  change (nibbles 8 s) with (if N.eqb s 0 then [] else N.land s 15 :: nibbles 7 (N.shiftr s 4)) in *.
  destruct (N.eqb_spec s 0); [contradiction|]. cbn [length] in *. lia.
Qed.

(* a move value TransformMove accepts: a type code up to 8 and, for a slide (type code >= 5), at least one drop.
   (Type codes 0, 1 and 2..4 take the placement branch.)  The coordinate range is where int8 arithmetic is exact:
   it contains every on-board and every nearby off-board origin. *)
Definition transformable (m : rmove) : Prop :=
  (-64 <= mX m < 64)%Z /\ (-64 <= mY m < 64)%Z /\ (mT m <= 8)%N /\ ((5 <= mT m)%N -> mS m <> 0%N).

(* the image move at the level of the code's move record *)
Definition tmr (k : nat) (s : nat) (m : rmove) : rmove :=
  let xy := sym (Z.of_nat s) k (mX m, mY m) in
  {| mX := fst xy; mY := snd xy; mT := ttype k (mT m); mS := if (mT m <? 5)%N then 0%N else mS m |}.

Lemma raw_tmr k s m : raw (tmr k s m) = tm k (Z.of_nat s) (raw m).
Proof. reflexivity. Qed.

Theorem transform_move_tm : forall k s m, k < 8 -> size_ok s -> transformable m ->
  transform_move (csym s k) m = Ok (tmr k s m).
Proof.
  intros k s m Hk Hs (Hx & Hy & Ht & Hsl). unfold transform_move, tmr.
  rewrite csym_sym by (assumption || lia).
  destruct (sym (Z.of_nat s) k (mX m, mY m)) as [ox oy] eqn:Eo. cbn [fst snd].
  destruct (N.ltb_spec (mT m) 5) as [Hlt|Hge].
  - do 2 f_equal. destruct (mT m) as [|q]; [reflexivity|]. do 3 (try destruct q as [q|q|]); try reflexivity; lia.
  - specialize (Hsl Hge). assert (HL := slides_len_range (mS m) Hsl).
    unfold dest. set (L := slides_len (mS m)) in *. clearbody L.
    assert (Hc : mT m = 5%N \/ mT m = 6%N \/ mT m = 7%N \/ mT m = 8%N) by lia.
    unfold size_ok in Hs.
    destruct Hc as [E|[E|[E|E]]]; rewrite E; unwrap; rewrite csym_sym by (assumption || lia);
      (do 8 (destruct k as [|k]; [cbn [sym] in *; unfold f in *; injection Eo as <- <-; cbn [ttype tdir dir_code];
         repeat match goal with
                | |- context [if ?c then _ else _] => (replace c with true by lia) || (replace c with false by lia); cbv iota
                end; reflexivity|])); lia.
Qed.
Print Assumptions transform_move_tm.

(* outside `transformable` the code panics (reported, not hidden): a slide type with an empty Slides word, or a type code >= 9 *)
Lemma transform_move_panics s k m : k < 8 -> size_ok s -> (-64 <= mX m < 64)%Z -> (-64 <= mY m < 64)%Z ->
  ((5 <= mT m <= 8)%N /\ mS m = 0%N) \/ (9 <= mT m)%N -> transform_move (csym s k) m = Panic.
Proof.
  intros Hk Hs Hx Hy H. unfold transform_move.
  destruct (csym s k (mX m) (mY m)) as [ox oy] eqn:Eo.
  destruct H as [[Ht E0]|Ht].
  - replace (mT m <? 5)%N with false by lia. unfold dest. rewrite E0. change (slides_len 0) with 0%Z.
    assert (Hc : mT m = 5%N \/ mT m = 6%N \/ mT m = 7%N \/ mT m = 8%N) by lia.
    destruct Hc as [E|[E|[E|E]]]; rewrite E; unwrap; rewrite ?Z.sub_0_r, ?Z.add_0_r; rewrite Eo;
      rewrite !Z.ltb_irrefl, !andb_false_r; reflexivity.
  - replace (mT m <? 5)%N with false by lia. unfold dest.
    destruct (mT m) as [|q]; [lia|]. do 4 (try destruct q as [q|q|]); try reflexivity; lia.
Qed.

(* non-vacuity: the slide of SymRules3.ex_m (up from a1, drops 1,1) on 5x5 under k = 6 *)
Example ex_transform :
  transformable {| mX := 0; mY := 0; mT := 7; mS := 17 |} /\
  transform_move (csym 5 6) {| mX := 0; mY := 0; mT := 7; mS := 17 |} = Ok {| mX := 0; mY := 4; mT := 6; mS := 17 |}.
Proof. split; [unfold transformable; cbn; lia|reflexivity]. Qed.
