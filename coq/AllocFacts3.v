(* C09 proofs, part 3: a clone is identical to its source, immediately and after any further operations;
   the pinned Clone (alloc without analyze) is refuted in the model; non-vacuity examples. *)
From Coq Require Import NArith ZArith List Bool Lia Arith.
Require Import Board Move GameOver Alloc AllocFacts AllocFacts2.
Import ListNotations.

(* the operation does not hand object h over as a buffer *)
Definition never_buf (h : nat) (o : opr) : Prop := match o with OMovePre _ _ b => b <> h | _ => True end.

Lemma nth_error_set_nth_neq {A} (l : list A) i v j : j <> i -> nth_error (set_nth l i v) j = nth_error l j.
Proof.
  revert i j. induction l as [|a l IH]; intros [|i] [|j] H; cbn; auto; try congruence.
Qed.
Lemma pval_set_nth_neq ps b x h : h <> b -> pval (set_nth ps b x) h = pval ps h.
Proof. intro H. unfold pval. rewrite nth_error_set_nth_neq by assumption. reflexivity. Qed.

Section S.
Variable hsq : N -> N -> N -> N.

Lemma pure_step_keeps ps o h v : pval ps h = Some v -> never_buf h o -> pval (pure_step hsq ps o) h = Some v.
Proof.
  intros Hp Hn. pose proof (pval_lt _ _ _ Hp) as Hlt.
  destruct o as [p|sz bwt stones caps|sz|h0 m|h0 m buf|h0]; cbn [pure_step never_buf] in *;
    try (rewrite pval_app_old by assumption; exact Hp).
  - destruct (pval ps h0); [rewrite pval_app_old by assumption|]; exact Hp.
  - destruct (pval ps h0); [rewrite pval_set_nth_neq by congruence|]; exact Hp.
  - destruct (pval ps h0); [rewrite pval_app_old by assumption|]; exact Hp.
Qed.

Lemma pure_run_from_keeps ops h v : forall ps, pval ps h = Some v -> Forall (never_buf h) ops ->
  pval (pure_run_from hsq ps ops) h = Some v.
Proof.
  induction ops as [|o ops IH]; intros ps Hp Hf; cbn; [exact Hp|].
  inversion Hf; subst. apply IH; [apply pure_step_keeps; assumption|assumption].
Qed.

Lemma pure_run_from_app a : forall ps b, pure_run_from hsq ps (a ++ b) = pure_run_from hsq (pure_run_from hsq ps a) b.
Proof. induction a as [|o a IH]; intros; cbn; [reflexivity|apply IH]. Qed.

Lemma ops_ok_from_app a : forall ps b,
  ops_ok_from hsq ps (a ++ b) = ops_ok_from hsq ps a && ops_ok_from hsq (pure_run_from hsq ps a) b.
Proof.
  induction a as [|o a IH]; intros; cbn; [reflexivity|]. rewrite IH, andb_assoc. reflexivity.
Qed.

(* Clone of a live handle h, followed by ANY admissible operations ops': the clone c keeps showing the value v that h
   had when it was cloned as long as c itself is not handed over as a buffer (h may be used, moved from, even
   handed over as a buffer and overwritten), and h keeps showing v as long as h is not handed over; in particular
   (ops' = [], or neither handed over) both show the same observables. *)
Theorem clone_identical ops h ops' : ops_ok hsq (ops ++ OClone h :: ops') = true ->
  exists v, pval (pure_run hsq ops) h = Some v /\
    let c := length (pure_run hsq ops) in
    let st := run hsq true (ops ++ OClone h :: ops') in
    (Forall (never_buf c) ops' -> observe st c = Some (observe_pure v)) /\
    (Forall (never_buf h) ops' -> observe st h = Some (observe_pure v)).
Proof.
  intro Hok. pose proof Hok as Hok'. unfold ops_ok in Hok'. rewrite ops_ok_from_app in Hok'.
  apply andb_true_iff in Hok'. destruct Hok' as [_ H2]. fold (pure_run hsq ops) in H2.
  cbn [ops_ok_from op_ok] in H2. apply andb_true_iff in H2. destruct H2 as [H2 _].
  destruct (pval (pure_run hsq ops) h) as [v|] eqn:Ev; [|discriminate].
  exists v. split; [reflexivity|]. cbn zeta.
  assert (E : pure_run hsq (ops ++ OClone h :: ops') =
              pure_run_from hsq (pure_run hsq ops ++ [Some v]) ops').
  { unfold pure_run. rewrite pure_run_from_app. cbn [pure_run_from pure_step].
    fold (pure_run hsq ops). rewrite Ev. reflexivity. }
  split; intro Hf; apply (value_semantics hsq _ Hok); rewrite E; apply pure_run_from_keeps; try assumption.
  - apply pval_app_new.
  - rewrite pval_app_old by (eapply pval_lt; eassumption). exact Ev.
Qed.

Corollary clone_same ops h ops' : ops_ok hsq (ops ++ OClone h :: ops') = true ->
  let c := length (pure_run hsq ops) in
  Forall (never_buf c) ops' -> Forall (never_buf h) ops' ->
  observe (run hsq true (ops ++ OClone h :: ops')) c = observe (run hsq true (ops ++ OClone h :: ops')) h /\
  observe (run hsq true (ops ++ OClone h :: ops')) c <> None.
Proof.
  intros Hok c Hc Hh. subst c. destruct (clone_identical ops h ops' Hok) as (v & _ & A & B). cbn zeta in *.
  rewrite (A Hc), (B Hh). split; [reflexivity|discriminate].
Qed.
End S.

(* ---- the pinned Clone: alloc without analyze ---- *)
Definition mvp (x y : Z) : rmove := {| mX := x; mY := y; mT := 2; mS := 0 |}.
(* 3x3: both opening stones, then White builds the road a1-b1-c1 *)
Definition road_game : list opr :=
  [ONew 3 false 10 0; OMove 0 (mvp 0 2); OMove 1 (mvp 0 0); OMove 2 (mvp 1 0); OMove 3 (mvp 1 2); OMove 4 (mvp 2 0)].

Definition verdict (o : option observation) : option (bool * gcolor) := option_map snd o.

(* On the pinned tree a clone of a position with a white road reports the game as not over (its WhiteGroups slice is
   empty), for every hash function; the repaired Clone reports White's road win like its source. *)
Theorem clone_refuted_pinned : forall hsq,
  ops_ok hsq (road_game ++ [OClone 5]) = true /\
  verdict (observe (run hsq false (road_game ++ [OClone 5])) 5) = Some (true, GWhite) /\
  verdict (observe (run hsq false (road_game ++ [OClone 5])) 6) = Some (false, GNone) /\
  verdict (observe (run hsq true (road_game ++ [OClone 5])) 6) = Some (true, GWhite).
Proof. intro hsq. vm_compute. repeat split; reflexivity. Qed.

(* and its BlackGroups header points into the source's array: writing the source's storage changes what the clone shows *)
Definition black_game : list opr :=
  [ONew 3 false 10 0; OMove 0 (mvp 0 0); OMove 1 (mvp 2 2); OMove 2 (mvp 0 2); OMove 3 (mvp 1 0); OAlloc 3].
Theorem clone_aliases_pinned : forall hsq,
  let ops := black_game ++ [OClone 4; OMovePre 2 (mvp 1 2) 4] in
  ops_ok hsq ops = true /\
  option_map (fun o : observation => snd (fst o)) (observe (run hsq false (black_game ++ [OClone 4])) 6) = Some [3%N] /\
  option_map (fun o : observation => snd (fst o)) (observe (run hsq false ops) 6) <> Some [3%N] /\
  option_map (fun o : observation => snd (fst o)) (observe (run hsq true ops) 6) = Some [3%N].
Proof. intro hsq. vm_compute. repeat split; try reflexivity. discriminate. Qed.

(* ---- non-vacuity: admissible sequences with the reuse patterns of the property ---- *)
(* a buffer another live handle was derived from, h's own parent as buffer, a failed move into a buffer, the dead
   buffer reused, a live handle overwritten *)
Example ops_ok_reuse : forall hsq,
  ops_ok hsq [ONew 3 false 10 0; OAlloc 3;
              OMovePre 0 (mvp 0 0) 1;        (* 1 := 0 + a1, in the Alloc buffer *)
              OMove 1 (mvp 1 1);             (* 2 derived from 1 *)
              OMovePre 0 (mvp 2 2) 1;        (* reuse the buffer that 2 was derived from *)
              OMovePre 2 (mvp 0 1) 1;        (* 2's own parent object as buffer *)
              OMovePre 2 (mvp 1 1) 0;        (* occupied square: fails, object 0 (a live handle until now) is dead *)
              OClone 2;
              OMovePre 3 (mvp 2 0) 0;        (* the dead buffer is reused *)
              OMovePre 0 (mvp 2 1) 2] = true.
Proof. intro hsq. vm_compute. reflexivity. Qed.
