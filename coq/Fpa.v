(* Fpa.v: cmd/internal/playtak/fpa.go — the three first-player-advantage rules as state machines,
   in the driving order of Friendly.GetMove (friendly.go): validate the previous move with LegalMove,
   then script with GetMove.  Model only; proofs are in FpaFacts*.v.

   Repair switches (record `fixes`): each switch selects the code of one candidate repair of fpa.go
   (notes/c20_fix_<class>.diff); all off = the code as pinned.
     fx_ds  doublestack-black-illegal : DoubleStack.GetMove ply 3 uses adjacentExcept(.., whitePlace)
     fx_cb  cairn-black-occupied      : Cairn.GetMove ply 3 falls back to freeReply when its square is taken
     fx_cw  cairn-white-selfreject    : isCenterAdjacent with && for ||, and Cairn.GetMove ply 4 picks the
                                        slide whose destination is centred and next to Black's stone *)
From Coq Require Import NArith ZArith List Bool Lia.
Require Import Board Move GameOver Tps Symmetry.
Import ListNotations.
Open Scope Z_scope.

Notation res := Move.res.
Notation Ok := Move.Ok. Notation Err := Move.Err. Notation Panic := Move.Panic.

Inductive variant := Center | DoubleStack | Cairn.

Record fixes := { fx_ds : bool; fx_cb : bool; fx_cw : bool }.
Definition pinned := {| fx_ds := false; fx_cb := false; fx_cw := false |}.
Definition repaired := {| fx_ds := true; fx_cb := true; fx_cw := true |}.

(* remembered squares; Go keeps whole Moves but reads only X and Y *)
Record fstate := { blackPlace : Z * Z; blackTmp : Z * Z; whitePlace : Z * Z; whiteTmp : Z * Z }.
Definition fstate0 := {| blackPlace := (0, 0); blackTmp := (0, 0); whitePlace := (0, 0); whiteTmp := (0, 0) |}.

Definition is_slide (m : rmove) : bool := (5 <=? mT m)%N.
Definition psize (p : position) : Z := Z.of_N (size p).
Definition top_empty (p : position) (x y : Z) : bool :=                       (* p.Top(x, y) == 0 *)
  let i := uint_of_int (x + y * psize p) in negb (has (White p) i) && negb (has (Black p) i).

Definition is_centered (p : position) (x y : Z) : bool :=
  let mid := wrap8 (Z.quot (psize p) 2) in
  if Z.rem (psize p) 2 =? 1 then (x =? mid) && (y =? mid)
  else ((x =? mid) || (x =? wrap8 (mid - 1))) && ((y =? mid) || (y =? wrap8 (mid - 1))).

Definition is_center_adjacent (fx : fixes) (p : position) (x y : Z) : bool :=
  let mid := wrap8 (Z.quot (psize p) 2) in
  let conn (a b : bool) := if fx_cw fx then a && b else a || b in       (* as pinned: `||` *)
  if Z.rem (psize p) 2 =? 1 then
    (((x =? wrap8 (mid - 1)) || (x =? wrap8 (mid + 1))) && (y =? mid)) || (((y =? wrap8 (mid - 1)) || (y =? wrap8 (mid + 1))) && (x =? mid))
  else if ((wrap8 (mid - 1) <=? x) && (x <=? mid)) && conn (wrap8 (mid - 2) <=? y) (y <=? wrap8 (mid + 1)) then true
  else if ((wrap8 (mid - 2) <=? x) && (x <=? wrap8 (mid + 1))) && conn (wrap8 (mid - 1) <=? y) (y <=? mid) then true
  else false.

Definition abs8 (z : Z) : Z := if z <? 0 then wrap8 (- z) else z.
Definition distance (x1 y1 x2 y2 : Z) : Z := wrap8 (abs8 (wrap8 (x1 - x2)) + abs8 (wrap8 (y1 - y2))).

(* LegalMove: new state and verdict.  dest panics are propagated. *)
Definition legal_move (fx : fixes) (v : variant) (st : fstate) (p : position) (m : rmove) : res (fstate * bool) :=
  let k := move p in
  match v with
  | Center => if 0 <? k then Ok (st, true) else Ok (st, is_centered p (mX m) (mY m))
  | DoubleStack =>
    if k =? 0 then Ok ({| blackPlace := (mX m, mY m); blackTmp := blackTmp st; whitePlace := whitePlace st; whiteTmp := whiteTmp st |}, true)
    else if k =? 1 then Ok ({| blackPlace := blackPlace st; blackTmp := blackTmp st; whitePlace := (mX m, mY m); whiteTmp := whiteTmp st |}, true)
    else if k =? 2 then
      match dest m with
      | Ok d => Ok ({| blackPlace := blackPlace st; blackTmp := blackTmp st; whitePlace := whitePlace st; whiteTmp := d |}, is_slide m)
      | Err => Err | Panic => Panic end
    else if k =? 3 then
      if negb (mT m =? 2)%N then Ok (st, false) else
      let dx := abs8 (wrap8 (mX m - fst (blackPlace st))) in let dy := abs8 (wrap8 (mY m - snd (blackPlace st))) in
      Ok ({| blackPlace := blackPlace st; blackTmp := (mX m, mY m); whitePlace := whitePlace st; whiteTmp := whiteTmp st |},
          ((dx =? 1) && (dy =? 0)) || ((dx =? 0) && (dy =? 1)))
    else if k =? 4 then
      if negb (is_slide m) then Ok (st, false) else
      match dest m with Ok (ex, ey) => Ok (st, (ex =? fst (whitePlace st)) && (ey =? snd (whitePlace st))) | Err => Err | Panic => Panic end
    else if k =? 5 then
      if negb (is_slide m) then Ok (st, false) else
      match dest m with Ok (ex, ey) => Ok (st, (ex =? fst (blackPlace st)) && (ey =? snd (blackPlace st))) | Err => Err | Panic => Panic end
    else Ok (st, true)
  | Cairn =>
    if (k =? 0) || (k =? 1) then Ok (st, true)
    else if k =? 2 then
      if negb (mT m =? 2)%N then Ok (st, false) else
      Ok ({| blackPlace := blackPlace st; blackTmp := blackTmp st; whitePlace := (mX m, mY m); whiteTmp := whiteTmp st |},
          is_center_adjacent fx p (mX m) (mY m))
    else if k =? 3 then
      if negb (mT m =? 2)%N then Ok (st, false) else
      Ok ({| blackPlace := (mX m, mY m); blackTmp := blackTmp st; whitePlace := whitePlace st; whiteTmp := whiteTmp st |},
          is_center_adjacent fx p (mX m) (mY m) && (distance (mX m) (mY m) (fst (whitePlace st)) (snd (whitePlace st)) =? 2))
    else if k =? 4 then
      if negb (is_slide m) then Ok (st, false) else
      match dest m with
      | Ok (dx, dy) =>
        if negb (is_centered p dx dy) then Ok (st, false) else
        Ok ({| blackPlace := blackPlace st; blackTmp := blackTmp st; whitePlace := (dx, dy); whiteTmp := whiteTmp st |},
            distance dx dy (fst (blackPlace st)) (snd (blackPlace st)) =? 1)
      | Err => Err | Panic => Panic end
    else if k =? 5 then
      if negb (is_slide m) then Ok (st, false) else
      match dest m with
      | Ok (dx, dy) => Ok (st, negb (negb (mX m =? fst (blackPlace st)) || negb (mY m =? snd (blackPlace st)) ||
                                    negb (dx =? fst (whitePlace st)) || negb (dy =? snd (whitePlace st))))
      | Err => Err | Panic => Panic end
    else Ok (st, true)
  end.

Definition dir_of (x y ex ey : Z) : res N :=
  if x <? ex then Ok 6%N else if ex <? x then Ok 5%N else if y <? ey then Ok 7%N else if ey <? y then Ok 8%N else Panic.

Definition adjacent_sq (p : position) (x y : Z) : res (Z * Z) :=
  if (0 <? x) && top_empty p (x - 1) y then Ok (x - 1, y)
  else if (0 <? y) && top_empty p x (y - 1) then Ok (x, y - 1)
  else if (x + 1 <? psize p) && top_empty p (x + 1) y then Ok (x + 1, y)
  else if (y + 1 <? psize p) && top_empty p x (y + 1) then Ok (x, y + 1)
  else Panic.

(* adjacentExcept (repair fx_ds): adjacent, but never answers (ax, ay) *)
Definition adjacent_ex (p : position) (x y ax ay : Z) : res (Z * Z) :=
  let free (cx cy : Z) := top_empty p cx cy && negb ((cx =? ax) && (cy =? ay)) in
  if (0 <? x) && free (x - 1) y then Ok (x - 1, y)
  else if (0 <? y) && free x (y - 1) then Ok (x, y - 1)
  else if (x + 1 <? psize p) && free (x + 1) y then Ok (x + 1, y)
  else if (y + 1 <? psize p) && free x (y + 1) then Ok (x, y + 1)
  else Panic.

(* adjacent(): as pinned, or (repair fx_ds) the wrapper adjacentExcept(p, x, y, -1, -1) *)
Definition adjacent_sel (fx : fixes) (p : position) (x y : Z) : res (Z * Z) :=
  if fx_ds fx then adjacent_ex p x y (-1) (-1) else adjacent_sq p x y.

Definition mk (x y : Z) (t s : N) : rmove := {| mX := wrap8 x; mY := wrap8 y; mT := t; mS := s |}.

(* Cairn.freeReply (repair fx_cb): first empty square, rows bottom-up, that the rule's check accepts *)
Definition board_squares (p : position) : list (Z * Z) :=
  let n := N.to_nat (size p) in
  flat_map (fun y => map (fun x => (Z.of_nat x, Z.of_nat y)) (seq 0 n)) (seq 0 n).
Definition free_reply (fx : fixes) (p : position) (wx wy : Z) : res (Z * Z) :=
  match find (fun xy => top_empty p (fst xy) (snd xy) && is_center_adjacent fx p (fst xy) (snd xy) &&
                        (distance (fst xy) (snd xy) wx wy =? 2)) (board_squares p) with
  | Some xy => Ok xy
  | None => Panic
  end.

(* Cairn.GetMove ply 4 (repair fx_cw): the first of Left, Right, Up, Down whose destination is centred and next to Black's stone *)
Definition slide_to_center (p : position) (wx wy bx by_ : Z) : res rmove :=
  let ok (t : N) : res bool :=
    match dest (mk wx wy t 1) with
    | Ok (dx, dy) => Ok (is_centered p dx dy && (distance dx dy bx by_ =? 1))
    | Err => Err | Panic => Panic end in
  let fix go (ts : list N) : res rmove :=
    match ts with
    | [] => Panic
    | t :: r => match ok t with Ok true => Ok (mk wx wy t 1) | Ok false => go r | Err => Err | Panic => Panic end
    end in
  go [5; 6; 7; 8]%N.

(* GetMove: None = not scripted at this ply *)
Definition get_move (fx : fixes) (v : variant) (st : fstate) (p : position) : option (res rmove) :=
  let k := move p in
  match v with
  | Center => if 0 <? k then None else Some (Ok (mk (Z.quot (psize p) 2) (Z.quot (psize p) 2) 2 0))
  | DoubleStack =>
    if k =? 2 then
      let '(x, y) := whitePlace st in
      Some (match adjacent_sel fx p x y with
            | Ok (ex, ey) => match dir_of x y ex ey with Ok t => Ok (mk x y t 1) | Err => Err | Panic => Panic end
            | Err => Err | Panic => Panic end)
    else if k =? 3 then
      let '(x, y) := blackPlace st in
      Some (match (if fx_ds fx then adjacent_ex p x y (fst (whitePlace st)) (snd (whitePlace st)) else adjacent_sq p x y) with
            | Ok (ex, ey) => Ok (mk ex ey 2 0) | Err => Err | Panic => Panic end)
    else if k =? 4 then
      let '(x, y) := whiteTmp st in
      Some (match dir_of x y (fst (whitePlace st)) (snd (whitePlace st)) with Ok t => Ok (mk x y t 1) | Err => Err | Panic => Panic end)
    else if k =? 5 then
      let '(x, y) := blackTmp st in
      Some (match dir_of x y (fst (blackPlace st)) (snd (blackPlace st)) with Ok t => Ok (mk x y t 1) | Err => Err | Panic => Panic end)
    else None
  | Cairn =>
    if k =? 2 then
      let c := Z.quot (psize p) 2 in
      Some (match adjacent_sel fx p c c with Ok (x, y) => Ok (mk x y 2 0) | Err => Err | Panic => Panic end)
    else if k =? 3 then
      let '(wx, wy) := whitePlace st in
      let half := wrap8 (Z.quot (wrap8 (psize p)) 2) in
      let x := if wx <? half then wrap8 (wx + 1) else wrap8 (wx - 1) in
      let y := if wy <? half then wrap8 (wy + 1) else wrap8 (wy - 1) in
      if fx_cb fx && negb (top_empty p x y) then
        Some (match free_reply fx p wx wy with Ok (x', y') => Ok (mk x' y' 2 0) | Err => Err | Panic => Panic end)
      else Some (Ok (mk x y 2 0))
    else if (k =? 4) && fx_cw fx then
      Some (slide_to_center p (fst (whitePlace st)) (snd (whitePlace st)) (fst (blackPlace st)) (snd (blackPlace st)))
    else if k =? 4 then
      let '(wx, wy) := whitePlace st in
      let mid := Z.quot (psize p) 2 in
      let t := if Z.rem (psize p) 2 =? 1 then dir_of wx wy mid mid
               else if (wx =? mid) || (wy =? mid) then dir_of wx wy mid mid else dir_of wx wy (mid - 1) (mid - 1) in
      Some (match t with Ok t => Ok (mk wx wy t 1) | Err => Err | Panic => Panic end)
    else if k =? 5 then
      Some (match dir_of (fst (blackPlace st)) (snd (blackPlace st)) (fst (whitePlace st)) (snd (whitePlace st)) with
            | Ok t => Ok (mk (fst (blackPlace st)) (snd (blackPlace st)) t 1) | Err => Err | Panic => Panic end)
    else None
  end.

(* ---- the enumeration of C20's domain ----
   variant x size x bot colour x every move, at the plies the bot does not script, that is generated by
   AllMoves, accepted by the variant's LegalMove and legal on the board (Position.Move as repaired:
   with the bounds check). *)
Section E.
Variable basis : list N.
(* the hash plays no part in C20 (nothing here reads it): Position.Move with a constant per-square hash *)
Definition mv1 := move_prealloc (fun _ _ _ => 0%N) true.

Inductive outcome := Fine | Illegal | SelfReject | Crash.
Record tally := { nodes : N; scripted : N; illegal : N; selfrej : N; crash : N }.
Definition t0 := {| nodes := 0; scripted := 0; illegal := 0; selfrej := 0; crash := 0 |}%N.
Definition tadd (a b : tally) := {| nodes := nodes a + nodes b; scripted := scripted a + scripted b; illegal := illegal a + illegal b;
                                    selfrej := selfrej a + selfrej b; crash := crash a + crash b |}%N.

(* the accepted continuations at an unscripted node, in AllMoves order *)
Definition children (fx : fixes) (v : variant) (st : fstate) (p : position) : list (rmove * fstate * position) :=
  flat_map (fun m => match legal_move fx v st p m with
                     | Ok (st', true) => match mv1 p m with Ok q => [(m, st', q)] | _ => [] end
                     | _ => [] end) (all_moves p).

(* what the script does at a node where the bot is to move: None = nothing scripted *)
Inductive scripted_step :=
| SNone
| SGetCrash                                               (* GetMove panicked *)
| SStep (m : rmove) (o : outcome) (next : option (fstate * position)).
Definition script_step (fx : fixes) (v : variant) (st : fstate) (p : position) : scripted_step :=
  match get_move fx v st p with
  | None => SNone
  | Some (Ok m) =>
    match mv1 p m with
    | Ok q =>
      match legal_move fx v st p m with
      | Ok (st', true) => SStep m Fine (Some (st', q))
      | Ok (_, false) => SStep m SelfReject None
      | _ => SStep m Crash None
      end
    | _ => SStep m Illegal None
    end
  | Some _ => SGetCrash
  end.

Definition stops (max_ply : Z) (p : position) : bool :=
  if max_ply <=? move p then true else match game_over p with Some (true, _) => true | _ => false end.

Fixpoint walk (fuel : nat) (fx : fixes) (v : variant) (bot_white : bool) (max_ply : Z) (st : fstate) (p : position) : tally :=
  let here := {| nodes := 1; scripted := 0; illegal := 0; selfrej := 0; crash := 0 |}%N in
  match fuel with
  | O => here
  | S f =>
    if stops max_ply p then here else
    let opp_moves (_ : unit) :=
      fold_left (fun acc c => tadd acc (walk f fx v bot_white max_ply (snd (fst c)) (snd c))) (children fx v st p) here in
    if Bool.eqb (to_move_white p) bot_white then
      match script_step fx v st p with
      | SNone => opp_moves tt
      | SGetCrash => {| nodes := 1; scripted := 0; illegal := 0; selfrej := 0; crash := 1 |}%N
      | SStep _ Fine (Some (st', q)) => tadd {| nodes := 1; scripted := 1; illegal := 0; selfrej := 0; crash := 0 |}%N (walk f fx v bot_white max_ply st' q)
      | SStep _ Illegal _ => {| nodes := 1; scripted := 1; illegal := 1; selfrej := 0; crash := 0 |}%N
      | SStep _ SelfReject _ => {| nodes := 1; scripted := 1; illegal := 0; selfrej := 1; crash := 0 |}%N
      | SStep _ _ _ => {| nodes := 1; scripted := 1; illegal := 0; selfrej := 0; crash := 1 |}%N
      end
    else opp_moves tt
  end.

(* the same traversal, as the pre-order list of node records (what the Go driver prints per sub-tree) *)
Inductive ev := ELeaf | EOpp (k : nat) | EChild (m : rmove) | EScript (m : rmove) (o : outcome) | EGetCrash.
Fixpoint walk_tr (fuel : nat) (fx : fixes) (v : variant) (bot_white : bool) (max_ply : Z) (st : fstate) (p : position) : list ev :=
  match fuel with
  | O => [ELeaf]
  | S f =>
    if stops max_ply p then [ELeaf] else
    let opp_moves (_ : unit) :=
      let cs := children fx v st p in
      EOpp (length cs) :: flat_map (fun c => EChild (fst (fst c)) :: walk_tr f fx v bot_white max_ply (snd (fst c)) (snd c)) cs in
    if Bool.eqb (to_move_white p) bot_white then
      match script_step fx v st p with
      | SNone => opp_moves tt
      | SGetCrash => [EGetCrash]
      | SStep m Fine (Some (st', q)) => EScript m Fine :: walk_tr f fx v bot_white max_ply st' q
      | SStep m o _ => [EScript m o]
      end
    else opp_moves tt
  end.

(* tak.New(Config{Size, BlackWinsTies: true}) (Friendly.Config with an FPA rule) *)
Definition root (sz : N) : position :=
  let p0 := from_squares basis sz (repeat (repeat [] (N.to_nat sz)) (N.to_nat sz)) 0 in
  {| size := size p0; black_wins_ties := true;
     whiteStones := whiteStones p0; whiteCaps := whiteCaps p0; blackStones := blackStones p0; blackCaps := blackCaps p0;
     move := 0; White := 0; Black := 0; Standing := 0; Caps := 0; Height := Height p0; Stacks := Stacks p0; hash := hash p0 |}.
Definition max_ply_of (v : variant) : Z := match v with Center => 1 | _ => 6 end.

Definition run (fx : fixes) (v : variant) (sz : N) (bot_white : bool) : tally :=
  walk 8 fx v bot_white (max_ply_of v) fstate0 (root sz).

(* a sub-tree: replay accepted moves from the root, then walk *)
Fixpoint replay (fx : fixes) (v : variant) (st : fstate) (p : position) (ms : list rmove) : option (fstate * position) :=
  match ms with
  | [] => Some (st, p)
  | m :: r => match legal_move fx v st p m with
              | Ok (st', true) => match mv1 p m with Ok q => replay fx v st' q r | _ => None end
              | _ => None end
  end.
Definition run_from (fx : fixes) (v : variant) (sz : N) (bot_white : bool) (ms : list rmove) : option (tally * list ev) :=
  match replay fx v fstate0 (root sz) ms with
  | Some (st, p) => Some (walk 8 fx v bot_white (max_ply_of v) st p, walk_tr 8 fx v bot_white (max_ply_of v) st p)
  | None => None
  end.
(* number of accepted two-ply prefixes (nothing is scripted before ply 2 in DoubleStack and Cairn) *)
Definition prefix_count (fx : fixes) (v : variant) (sz : N) : nat :=
  match v with
  | Center => 0
  | _ => length (flat_map (fun c => children fx v (snd (fst c)) (snd c)) (children fx v fstate0 (root sz)))
  end.
End E.
