(* Proto/Fpa.v (draft): cmd/internal/playtak/fpa.go — the three first-player-advantage rules as state machines *)
From Coq Require Import NArith ZArith List Bool Lia.
Require Import Board Move GameOver Tps Symmetry.
Import ListNotations.
Open Scope Z_scope.

Notation res := Move.res.
Notation Ok := Move.Ok. Notation Err := Move.Err. Notation Panic := Move.Panic.

Inductive variant := Center | DoubleStack | Cairn.

(* remembered squares; Go keeps whole Moves but reads only X and Y *)
Record fstate := { blackPlace : Z * Z; blackTmp : Z * Z; whitePlace : Z * Z; whiteTmp : Z * Z }.
Definition fstate0 := {| blackPlace := (0, 0); blackTmp := (0, 0); whitePlace := (0, 0); whiteTmp := (0, 0) |}.

Definition is_slide (m : rmove) : bool := (5 <=? mT m)%N.
Definition psize (p : position) : Z := Z.of_N (size p).
Definition top_empty (p : position) (x y : Z) : bool :=                       (* p.Top(x, y) == 0 *)
  let i := uint_of_int (x + y * psize p) in negb (has (White p) i) && negb (has (Black p) i).

Definition is_centered (p : position) (x y : Z) : bool :=
  let mid := wrap8 (Z.quot (psize p) 2) in
  if Z.rem (psize p) 2 =? 1 then (x =? mid) && (y =? mid)
  else ((x =? mid) || (x =? wrap8 (mid - 1))) && ((y =? mid) || (y =? wrap8 (mid - 1))).

Definition is_center_adjacent (p : position) (x y : Z) : bool :=
  let mid := wrap8 (Z.quot (psize p) 2) in
  if Z.rem (psize p) 2 =? 1 then
    (((x =? wrap8 (mid - 1)) || (x =? wrap8 (mid + 1))) && (y =? mid)) || (((y =? wrap8 (mid - 1)) || (y =? wrap8 (mid + 1))) && (x =? mid))
  else if ((wrap8 (mid - 1) <=? x) && (x <=? mid)) && ((wrap8 (mid - 2) <=? y) || (y <=? wrap8 (mid + 1))) then true
  else if ((wrap8 (mid - 2) <=? x) && (x <=? wrap8 (mid + 1))) && ((wrap8 (mid - 1) <=? y) || (y <=? mid)) then true
  else false.

Definition abs8 (z : Z) : Z := if z <? 0 then wrap8 (- z) else z.
Definition distance (x1 y1 x2 y2 : Z) : Z := wrap8 (abs8 (wrap8 (x1 - x2)) + abs8 (wrap8 (y1 - y2))).

(* LegalMove: new state and verdict.  dest panics are propagated. *)
Definition legal_move (v : variant) (st : fstate) (p : position) (m : rmove) : res (fstate * bool) :=
  let k := move p in
  match v with
  | Center => if 0 <? k then Ok (st, true) else Ok (st, is_centered p (mX m) (mY m))
  | DoubleStack =>
    if k =? 0 then Ok ({| blackPlace := (mX m, mY m); blackTmp := blackTmp st; whitePlace := whitePlace st; whiteTmp := whiteTmp st |}, true)
    else if k =? 1 then Ok ({| blackPlace := blackPlace st; blackTmp := blackTmp st; whitePlace := (mX m, mY m); whiteTmp := whiteTmp st |}, true)
    else if k =? 2 then
      match dest m with
      | Ok d => Ok ({| blackPlace := blackPlace st; blackTmp := blackTmp st; whitePlace := whitePlace st; whiteTmp := d |}, is_slide m)
      | Err => Err | Panic => Panic end
    else if k =? 3 then
      if negb (mT m =? 2)%N then Ok (st, false) else
      let dx := abs8 (wrap8 (mX m - fst (blackPlace st))) in let dy := abs8 (wrap8 (mY m - snd (blackPlace st))) in
      Ok ({| blackPlace := blackPlace st; blackTmp := (mX m, mY m); whitePlace := whitePlace st; whiteTmp := whiteTmp st |},
          ((dx =? 1) && (dy =? 0)) || ((dx =? 0) && (dy =? 1)))
    else if k =? 4 then
      if negb (is_slide m) then Ok (st, false) else
      match dest m with Ok (ex, ey) => Ok (st, (ex =? fst (whitePlace st)) && (ey =? snd (whitePlace st))) | Err => Err | Panic => Panic end
    else if k =? 5 then
      if negb (is_slide m) then Ok (st, false) else
      match dest m with Ok (ex, ey) => Ok (st, (ex =? fst (blackPlace st)) && (ey =? snd (blackPlace st))) | Err => Err | Panic => Panic end
    else Ok (st, true)
  | Cairn =>
    if (k =? 0) || (k =? 1) then Ok (st, true)
    else if k =? 2 then
      if negb (mT m =? 2)%N then Ok (st, false) else
      Ok ({| blackPlace := blackPlace st; blackTmp := blackTmp st; whitePlace := (mX m, mY m); whiteTmp := whiteTmp st |},
          is_center_adjacent p (mX m) (mY m))
    else if k =? 3 then
      if negb (mT m =? 2)%N then Ok (st, false) else
      Ok ({| blackPlace := (mX m, mY m); blackTmp := blackTmp st; whitePlace := whitePlace st; whiteTmp := whiteTmp st |},
          is_center_adjacent p (mX m) (mY m) && (distance (mX m) (mY m) (fst (whitePlace st)) (snd (whitePlace st)) =? 2))
    else if k =? 4 then
      if negb (is_slide m) then Ok (st, false) else
      match dest m with
      | Ok (dx, dy) =>
        if negb (is_centered p dx dy) then Ok (st, false) else
        Ok ({| blackPlace := blackPlace st; blackTmp := blackTmp st; whitePlace := (dx, dy); whiteTmp := whiteTmp st |},
            distance dx dy (fst (blackPlace st)) (snd (blackPlace st)) =? 1)
      | Err => Err | Panic => Panic end
    else if k =? 5 then
      if negb (is_slide m) then Ok (st, false) else
      match dest m with
      | Ok (dx, dy) => Ok (st, negb (negb (mX m =? fst (blackPlace st)) || negb (mY m =? snd (blackPlace st)) ||
                                    negb (dx =? fst (whitePlace st)) || negb (dy =? snd (whitePlace st))))
      | Err => Err | Panic => Panic end
    else Ok (st, true)
  end.

Definition dir_of (x y ex ey : Z) : res N :=
  if x <? ex then Ok 6%N else if ex <? x then Ok 5%N else if y <? ey then Ok 7%N else if ey <? y then Ok 8%N else Panic.

Definition adjacent_sq (p : position) (x y : Z) : res (Z * Z) :=
  if (0 <? x) && top_empty p (x - 1) y then Ok (x - 1, y)
  else if (0 <? y) && top_empty p x (y - 1) then Ok (x, y - 1)
  else if (x + 1 <? psize p) && top_empty p (x + 1) y then Ok (x + 1, y)
  else if (y + 1 <? psize p) && top_empty p x (y + 1) then Ok (x, y + 1)
  else Panic.

Definition mk (x y : Z) (t s : N) : rmove := {| mX := wrap8 x; mY := wrap8 y; mT := t; mS := s |}.

(* GetMove: None = not scripted at this ply *)
Definition get_move (v : variant) (st : fstate) (p : position) : option (res rmove) :=
  let k := move p in
  match v with
  | Center => if 0 <? k then None else Some (Ok (mk (Z.quot (psize p) 2) (Z.quot (psize p) 2) 2 0))
  | DoubleStack =>
    if k =? 2 then
      let '(x, y) := whitePlace st in
      Some (match adjacent_sq p x y with
            | Ok (ex, ey) => match dir_of x y ex ey with Ok t => Ok (mk x y t 1) | Err => Err | Panic => Panic end
            | Err => Err | Panic => Panic end)
    else if k =? 3 then
      let '(x, y) := blackPlace st in
      Some (match adjacent_sq p x y with Ok (ex, ey) => Ok (mk ex ey 2 0) | Err => Err | Panic => Panic end)
    else if k =? 4 then
      let '(x, y) := whiteTmp st in
      Some (match dir_of x y (fst (whitePlace st)) (snd (whitePlace st)) with Ok t => Ok (mk x y t 1) | Err => Err | Panic => Panic end)
    else if k =? 5 then
      let '(x, y) := blackTmp st in
      Some (match dir_of x y (fst (blackPlace st)) (snd (blackPlace st)) with Ok t => Ok (mk x y t 1) | Err => Err | Panic => Panic end)
    else None
  | Cairn =>
    if k =? 2 then
      let c := Z.quot (psize p) 2 in
      Some (match adjacent_sq p c c with Ok (x, y) => Ok (mk x y 2 0) | Err => Err | Panic => Panic end)
    else if k =? 3 then
      let '(wx, wy) := whitePlace st in
      let half := wrap8 (Z.quot (wrap8 (psize p)) 2) in
      let x := if wx <? half then wrap8 (wx + 1) else wrap8 (wx - 1) in
      let y := if wy <? half then wrap8 (wy + 1) else wrap8 (wy - 1) in
      Some (Ok (mk x y 2 0))
    else if k =? 4 then
      let '(wx, wy) := whitePlace st in
      let mid := Z.quot (psize p) 2 in
      let t := if Z.rem (psize p) 2 =? 1 then dir_of wx wy mid mid
               else if (wx =? mid) || (wy =? mid) then dir_of wx wy mid mid else dir_of wx wy (mid - 1) (mid - 1) in
      Some (match t with Ok t => Ok (mk wx wy t 1) | Err => Err | Panic => Panic end)
    else if k =? 5 then
      Some (match dir_of (fst (blackPlace st)) (snd (blackPlace st)) (fst (whitePlace st)) (snd (whitePlace st)) with
            | Ok t => Ok (mk (fst (blackPlace st)) (snd (blackPlace st)) t 1) | Err => Err | Panic => Panic end)
    else None
  end.

(* ---- the enumeration of C20's domain ---- *)
Section E.
Variable basis : list N.
Definition mv1 := move_prealloc (hash_sq basis) false.

Inductive outcome := Fine | Illegal | SelfReject | Crash.
Record tally := { nodes : N; scripted : N; illegal : N; selfrej : N; crash : N }.
Definition t0 := {| nodes := 0; scripted := 0; illegal := 0; selfrej := 0; crash := 0 |}%N.
Definition tadd (a b : tally) := {| nodes := nodes a + nodes b; scripted := scripted a + scripted b; illegal := illegal a + illegal b;
                                    selfrej := selfrej a + selfrej b; crash := crash a + crash b |}%N.

Fixpoint walk (fuel : nat) (v : variant) (bot_white : bool) (max_ply : Z) (st : fstate) (p : position) : tally :=
  let here := {| nodes := 1; scripted := 0; illegal := 0; selfrej := 0; crash := 0 |}%N in
  match fuel with
  | O => here
  | S f =>
    if max_ply <=? move p then here else
    match game_over p with
    | Some (true, _) => here
    | _ =>
      let opp_moves (_ : unit) :=
        fold_left (fun acc m =>
            match legal_move v st p m with
            | Ok (st', true) => match mv1 p m with Ok q => tadd acc (walk f v bot_white max_ply st' q) | _ => acc end
            | _ => acc
            end) (all_moves p) here in
      if Bool.eqb (to_move_white p) bot_white then
        match get_move v st p with
        | None => opp_moves tt
        | Some (Ok m) =>
          match mv1 p m with
          | Ok q =>
            match legal_move v st p m with
            | Ok (st', true) => tadd {| nodes := 1; scripted := 1; illegal := 0; selfrej := 0; crash := 0 |}%N (walk f v bot_white max_ply st' q)
            | Ok (_, false) => {| nodes := 1; scripted := 1; illegal := 0; selfrej := 1; crash := 0 |}%N
            | _ => {| nodes := 1; scripted := 1; illegal := 0; selfrej := 0; crash := 1 |}%N
            end
          | _ => {| nodes := 1; scripted := 1; illegal := 1; selfrej := 0; crash := 0 |}%N
          end
        | Some _ => {| nodes := 1; scripted := 0; illegal := 0; selfrej := 0; crash := 1 |}%N
        end
      else opp_moves tt
    end
  end.

Definition run (v : variant) (sz : N) (bot_white : bool) : tally :=
  let p0 := from_squares basis sz (repeat (repeat [] (N.to_nat sz)) (N.to_nat sz)) 0 in
  walk 8 v bot_white (match v with Center => 1 | _ => 6 end) fstate0 {| size := size p0; black_wins_ties := true;
     whiteStones := whiteStones p0; whiteCaps := whiteCaps p0; blackStones := blackStones p0; blackCaps := blackCaps p0;
     move := 0; White := 0; Black := 0; Standing := 0; Caps := 0; Height := Height p0; Stacks := Stacks p0; hash := hash p0 |}.
End E.
