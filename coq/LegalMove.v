(* C04, search half: the legality of the answer is an invariant of the search, not a matter of values.

   An abstract, code-shaped model of the root of the alpha-beta player (ai/minimax.go, ai/moves.go):
     - `cands` / `yield`: moveGenerator.Next - the hint moves (table move, pv[0], response move) first, then
       the AllMoves list minus the hints; EVERY candidate is re-validated by applying it (MovePreallocated)
       and only those that apply are yielded, with their child position;
     - `root_loop` / `root_search`: the loop of pvSearch at ply 0 - table shortcut (re-validated), initial PV
       buffer taken from the PV hint or from stale frame contents, symmetry de-duplication, an arbitrary
       child search (stands for pvSearch / zwSearch / re-search, null move, reductions, multi-cut, table:
       nothing is assumed about it except, where stated, the range of its value), improvement test, beta cut,
       cancellation poll after every child;
     - `deepen`: the iterative-deepening loop of Analyze (cancelled iteration = keep the previous PV;
       decisive value or budget = stop);
     - `getmove_random`, `analyze_all`: the randomised choice of GetMove and the PV list of AnalyzeAll.
   Positions, moves, the apply function, the evaluation and the child search are Section variables: the
   theorems hold for every rules engine, every evaluator and every search below the root.
   Models and proofs are in one file because the models are abstract (nothing here is extracted). *)
From Coq Require Import ZArith List Bool Lia.
Import ListNotations.
Open Scope Z_scope.

Section Search.
Variables pos mv : Type.
Variable apply : pos -> mv -> option pos.        (* MovePreallocated: Some child / None = error *)
Variable mv_eqb : mv -> mv -> bool.              (* Move.Equal *)

Definition legal (p : pos) (m : mv) : Prop := apply p m <> None.
Definition head_legal (p : pos) (pv : list mv) : Prop := exists m rest, pv = m :: rest /\ legal p m.

(* ---- moveGenerator.Next ---- *)
Record hints := { h_te : option mv; h_pv : option mv; h_r : option mv }.
Definition opt_eqb (h : option mv) (m : mv) : bool := match h with Some t => mv_eqb t m | None => false end.
Definition is_hint (h : hints) (m : mv) : bool := opt_eqb (h_te h) m || opt_eqb (h_pv h) m || opt_eqb (h_r h) m.
Definition olist (h : option mv) : list mv := match h with Some m => [m] | None => [] end.
Definition cands (h : hints) (ms : list mv) : list mv :=
  olist (h_te h)
  ++ (match h_pv h with
      | Some m => if (match h_te h with Some t => mv_eqb m t | None => false end) then [] else [m]
      | None => [] end)
  ++ olist (h_r h)
  ++ filter (fun m => negb (is_hint h m)) ms.
Fixpoint validate (p : pos) (l : list mv) : list (mv * pos) :=
  match l with
  | [] => []
  | m :: t => match apply p m with Some q => (m, q) :: validate p t | None => validate p t end
  end.
Definition yield (p : pos) (h : hints) (ms : list mv) : list (mv * pos) := validate p (cands h ms).

Lemma validate_legal p l m q : In (m, q) (validate p l) -> apply p m = Some q.
Proof.
  induction l as [|a l IH]; cbn; [tauto|]. destruct (apply p a) eqn:E; [|exact IH].
  intros [H|H]; [injection H as <- <-; exact E|exact (IH H)].
Qed.

Lemma validate_complete p l m : In m l -> legal p m -> validate p l <> [].
Proof.
  induction l as [|a l IH]; cbn; [tauto|]. intros [->|H] L.
  - unfold legal in L. destruct (apply p m); [discriminate|contradiction].
  - destruct (apply p a); [discriminate|exact (IH H L)].
Qed.

(* every yielded move applied successfully *)
Theorem yield_legal p h ms m q : In (m, q) (yield p h ms) -> apply p m = Some q.
Proof. apply validate_legal. Qed.

Lemma yield_all_legal p h ms : forall m q, In (m, q) (yield p h ms) -> legal p m.
Proof. intros m q H. unfold legal. rewrite (yield_legal p h ms m q H). discriminate. Qed.

(* the de-duplication against the hints never loses the last legal move: if AllMoves holds a legal move,
   the generator yields something (Equal moves are equally legal: Equal ignores the Slides word of placements) *)
Theorem yield_complete p h ms m :
  (forall a b, mv_eqb a b = true -> (legal p a <-> legal p b)) ->
  In m ms -> legal p m -> yield p h ms <> [].
Proof.
  intros EQ Hin L. unfold yield.
  destruct (is_hint h m) eqn:Hh.
  - unfold is_hint in Hh. apply orb_prop in Hh as [Hh|Hh]; [apply orb_prop in Hh as [Hh|Hh]|].
    + destruct (h_te h) as [t|] eqn:Et; [|discriminate]. cbn in Hh.
      apply (validate_complete p _ t); [|apply (EQ t m Hh); exact L].
      unfold cands. rewrite Et. cbn. auto.
    + destruct (h_pv h) as [t|] eqn:Ep; [|discriminate]. cbn in Hh.
      assert (Lt : legal p t) by (apply (EQ t m Hh); exact L).
      unfold cands. rewrite Ep. destruct (h_te h) as [u|] eqn:Et.
      * destruct (mv_eqb t u) eqn:Etu.
        -- apply (validate_complete p _ u); [cbn; auto|apply (EQ t u Etu); exact Lt].
        -- apply (validate_complete p _ t); [cbn; auto|exact Lt].
      * apply (validate_complete p _ t); [cbn; auto|exact Lt].
    + destruct (h_r h) as [t|] eqn:Er; [|discriminate]. cbn in Hh.
      apply (validate_complete p _ t); [|apply (EQ t m Hh); exact L].
      unfold cands. rewrite Er. rewrite !in_app_iff. cbn. auto.
  - apply (validate_complete p _ m); [|exact L]. unfold cands. rewrite !in_app_iff. right. right. right.
    apply filter_In. split; [exact Hin|]. now rewrite Hh.
Qed.

(* ---- the loop of pvSearch at the root ---- *)
(* The search below the root: index of the child (1-based, i > 1 means scout + possible re-search), the move,
   the child position, the PV hint best[1:], the window.  Returns (PV of the child, value seen from the root). *)
Section Root.
Variable K : Type.
Variable key : pos -> K.                         (* Position.Hash *)
Variable syms : pos -> list K.                   (* hashes of the symmetric images of a child *)
Variable K_eqb : K -> K -> bool.
Variable child_search : nat -> mv -> pos -> list mv -> Z -> Z -> list mv * Z.
Variable dedup : bool.                           (* Cfg.DedupSymmetry && p.MoveNumber() < maxDedup *)
Variable cancelled : nat -> bool.                (* the atomic load after the i-th searched child reads 1 *)
Variable beta : Z.

Fixpoint root_loop (ys : list (mv * pos)) (i : nat) (best : list mv) (alpha : Z) (improved : bool) (seen : list K)
  : option (list mv * Z * bool) :=
  match ys with
  | [] => Some (best, alpha, improved)
  | (m, q) :: rest =>
    if dedup && existsb (K_eqb (key q)) seen then root_loop rest i best alpha improved seen else
    let seen' := if dedup then syms q ++ seen else seen in
    let '(ms, v) := child_search (S i) m q (tl best) alpha beta in
    if alpha <? v then
      if beta <=? v then Some (m :: ms, v, true)                              (* recordCut; break *)
      else if cancelled (S i) then None
      else root_loop rest (S i) (m :: ms) v true seen'
    else if cancelled (S i) then None
    else root_loop rest (S i) best alpha improved seen'
  end.

(* tt = Some (m, v): a table entry for the position that suffices for this depth and window *)
Definition root_search (p : pos) (tt : option (mv * Z)) (h : hints) (ms : list mv) (pvhint : list mv) (stale : mv) (alpha0 : Z)
  : option (list mv * Z) :=
  let go := match root_loop (yield p h ms) 0 (match pvhint with [] => [stale] | _ => pvhint end) alpha0 false [] with
            | Some (best, a, _) => Some (best, a) | None => None end in
  match tt with
  | Some (m, v) => match apply p m with Some _ => Some ([m], v) | None => go end
  | None => go
  end.

Lemma root_loop_inv p : forall ys i best alpha improved seen r,
  (forall m q, In (m, q) ys -> legal p m) ->
  (improved = true -> head_legal p best) ->
  root_loop ys i best alpha improved seen = Some r ->
  (snd r = true -> head_legal p (fst (fst r))) /\ (improved = true -> snd r = true).
Proof.
  induction ys as [|[m q] rest IH]; intros i best alpha improved seen r Hys Hb H; cbn [root_loop] in H.
  - injection H as <-. cbn. auto.
  - assert (Hrest : forall m' q', In (m', q') rest -> legal p m') by (intros; eapply Hys; right; eassumption).
    assert (Lm : legal p m) by (eapply Hys; left; reflexivity).
    destruct (dedup && existsb (K_eqb (key q)) seen); [eapply IH; eassumption|].
    destruct (child_search (S i) m q (tl best) alpha beta) as [ms v].
    destruct (alpha <? v).
    + destruct (beta <=? v).
      * injection H as <-. cbn. split; [intros _; exists m, ms; auto|auto].
      * destruct (cancelled (S i)); [discriminate|].
        destruct (IH _ _ _ _ _ _ Hrest (fun _ => ex_intro _ m (ex_intro _ ms (conj eq_refl Lm))) H) as [A B].
        split; [exact A|intros _; apply B; reflexivity].
    + destruct (cancelled (S i)); [discriminate|]. eapply IH; eassumption.
Qed.

(* with nothing seen yet, the first yielded child is searched, and it improves when its value exceeds alpha *)
Lemma root_loop_improves : forall ys i best alpha improved r,
  ys <> [] ->
  (forall j m q hint b, alpha < snd (child_search j m q hint alpha b)) ->
  root_loop ys i best alpha improved [] = Some r -> snd r = true.
Proof.
  intros [|[m q] rest] i best alpha improved r Hne Hw H; [congruence|]. cbn [root_loop] in H.
  rewrite andb_false_r in H. specialize (Hw (S i) m q (tl best) beta).
  destruct (child_search (S i) m q (tl best) alpha beta) as [ms v]. cbn in Hw.
  replace (alpha <? v) with true in H by lia.
  destruct (beta <=? v); [injection H as <-; reflexivity|].
  destruct (cancelled (S i)); [discriminate|].
  (* improved is true from here on: use the monotonicity half of the invariant with a trivially legal-free argument *)
  clear Hne Hw. revert H. generalize (if dedup then syms q ++ [] else []) as seen. generalize (m :: ms) as b. generalize v as a. generalize (S i) as k.
  induction rest as [|[m' q'] rest IH]; intros k a b seen H; cbn [root_loop] in H.
  - injection H as <-. reflexivity.
  - destruct (dedup && existsb (K_eqb (key q')) seen); [eapply IH; eassumption|].
    destruct (child_search (S k) m' q' (tl b) a beta) as [ms' v'].
    destruct (a <? v').
    + destruct (beta <=? v'); [injection H as <-; reflexivity|]. destruct (cancelled (S k)); [discriminate|]. eapply IH; eassumption.
    + destruct (cancelled (S k)); [discriminate|]. eapply IH; eassumption.
Qed.

(* THE ROOT INVARIANT.  Whatever the table entry, the hints, the stale frame contents and the search below the
   root do: if the generator has a legal move to yield and every child value exceeds the root's alpha (the
   root window (MinEval-1, MaxEval+1) is wider than every evaluation), a completed root search reports a
   non-empty PV whose first move is legal. *)
Theorem root_first_move_legal p tt h ms pvhint stale alpha0 pv v :
  yield p h ms <> [] ->
  (forall j m q hint b, alpha0 < snd (child_search j m q hint alpha0 b)) ->
  root_search p tt h ms pvhint stale alpha0 = Some (pv, v) ->
  head_legal p pv.
Proof.
  intros Hy Hw H. unfold root_search in H.
  assert (G : match root_loop (yield p h ms) 0 (match pvhint with [] => [stale] | _ => pvhint end) alpha0 false [] with
              | Some (best, a, _) => Some (best, a) | None => None end = Some (pv, v) -> head_legal p pv).
  { destruct (root_loop (yield p h ms) 0 _ alpha0 false []) as [[[best a] imp]|] eqn:E; [|discriminate].
    intros Q. injection Q as <- <-.
    pose proof (root_loop_improves _ _ _ _ _ _ Hy Hw E) as I. cbn in I.
    assert (F : false = true -> head_legal p (match pvhint with [] => [stale] | _ => pvhint end)) by discriminate.
    destruct (root_loop_inv p _ _ _ _ _ _ _ (yield_all_legal p h ms) F E) as [A _].
    cbn in A. apply A. exact I. }
  destruct tt as [[m tv]|]; [|exact (G H)].
  destruct (apply p m) eqn:Em; [|exact (G H)].
  injection H as <- <-. exists m, []. split; [reflexivity|]. unfold legal. rewrite Em. discriminate.
Qed.

(* Without the window hypothesis the invariant is weaker: the head is legal whenever some child improved. *)
Theorem root_improved_legal p h ms pvhint stale alpha0 best a :
  root_loop (yield p h ms) 0 (match pvhint with [] => [stale] | _ => pvhint end) alpha0 false [] = Some (best, a, true) ->
  head_legal p best.
Proof.
  intros E.
  assert (F : false = true -> head_legal p (match pvhint with [] => [stale] | _ => pvhint end)) by discriminate.
  destruct (root_loop_inv p _ _ _ _ _ _ _ (yield_all_legal p h ms) F E) as [A _].
  apply A. reflexivity.
Qed.

End Root.

(* ---- Analyze: iterative deepening ---- *)
Section Deepen.
(* one element per depth: given the previous PV, the root search of that depth (None = cancelled);
   `stop v` = decisive value or exhausted budget after this iteration *)
Variable stop : Z -> bool.
Fixpoint deepen (iters : list (list mv -> option (list mv * Z))) (ms : list mv) (v : Z) : list mv * Z :=
  match iters with
  | [] => (ms, v)
  | it :: rest => match it ms with
                  | None => (ms, v)
                  | Some (next, nv) => if stop nv then (next, nv) else deepen rest next nv
                  end
  end.

Theorem analyze_first_move_legal p iters ms0 v0 :
  (forall it ms r, In it iters -> it ms = Some r -> head_legal p (fst r)) ->
  (* either the table seed is a legal move, or the first iteration completes *)
  (head_legal p ms0 \/ exists it rest r, iters = it :: rest /\ it ms0 = Some r) ->
  head_legal p (fst (deepen iters ms0 v0)).
Proof.
  intros Hit H0.
  assert (G : forall iters ms v, (forall it ms r, In it iters -> it ms = Some r -> head_legal p (fst r)) ->
              head_legal p ms -> head_legal p (fst (deepen iters ms v))).
  { clear. induction iters as [|it rest IH]; intros ms v Hit Hm; cbn [deepen]; [exact Hm|].
    destruct (it ms) as [[next nv]|] eqn:E; [|exact Hm].
    pose proof (Hit it ms _ (or_introl eq_refl) E) as Hn. cbn in Hn.
    destruct (stop nv); [exact Hn|]. apply IH; [intros; eapply Hit; [right|]; eassumption|exact Hn]. }
  destruct H0 as [H0|(it & rest & r & -> & E)]; [apply G; assumption|].
  cbn [deepen]. rewrite E. destruct r as [next nv].
  pose proof (Hit it ms0 _ (or_introl eq_refl) E) as Hn. cbn in Hn.
  destruct (stop nv); [exact Hn|]. apply G; [intros; eapply Hit; [right|]; eassumption|exact Hn].
Qed.

End Deepen.

(* ---- GetMove with RandomizeWindow: the answer is pv[0] or a yielded move ---- *)
Section Random.
Variable pick : nat -> mv -> pos -> bool.        (* cv > base and rand.Int63n(i) <= pts *)
Fixpoint getmove_random (ys : list (mv * pos)) (i : nat) (rv : mv) : mv :=
  match ys with [] => rv | (m, q) :: rest => getmove_random rest (S i) (if pick i m q then m else rv) end.

Theorem getmove_random_legal p h ms : forall i rv, legal p rv -> legal p (getmove_random (yield p h ms) i rv).
Proof.
  pose proof (yield_legal p h ms) as Y. revert Y. generalize (yield p h ms) as ys.
  induction ys as [|[m q] rest IH]; intros Y i rv L; cbn [getmove_random]; [exact L|].
  apply IH; [intros; apply Y; right; assumption|].
  destruct (pick i m q); [|exact L]. unfold legal. rewrite (Y m q (or_introl eq_refl)). discriminate.
Qed.

End Random.

(* ---- AnalyzeAll: every reported PV starts with pv[0] or a yielded move ---- *)
Section All.
Variable keep : mv -> pos -> option (list mv).   (* Some ms: the child's value equals the root's and m <> pv[0] *)
Definition analyze_all (pv : list mv) (ys : list (mv * pos)) : list (list mv) :=
  pv :: flat_map (fun '(m, q) => match keep m q with Some ms => [m :: ms] | None => [] end) ys.

Theorem analyze_all_heads_legal p h ms pv : head_legal p pv -> Forall (head_legal p) (analyze_all pv (yield p h ms)).
Proof.
  intros Hp. constructor; [exact Hp|]. apply Forall_forall. intros l Hl. apply in_flat_map in Hl as ([m q] & Hin & Hl).
  destruct (keep m q) as [t|]; [|destruct Hl]. destruct Hl as [<-|[]]. exists m, t. split; [reflexivity|].
  unfold legal. rewrite (yield_legal p h ms m q Hin). discriminate.
Qed.

End All.
End Search.
