(* C14, layer 6: equivariance of the code-shaped Position.Move, through C01 (move_refines_rules) and rules_equivariant:
   if q shows the image under symmetry k of what p shows (both satisfying the C01 invariant), then Move on q with the image move
   succeeds exactly when Move on p with the move succeeds, and the results again correspond; neither panics. *)
From Coq Require Import NArith ZArith Arith List Bool Lia ZifyN ZifyBool ZifyNat.
Require Import Rules Sym SymRules1 SymRules2 SymRules4.
Require Import Board Stack Move GameOver Tps Symmetry Refine Slide2 Slide6 Slide8 MoveRefines SymCode1 Canon1 Canon2.
Import ListNotations.
Close Scope Z_scope. Close Scope N_scope.

Lemma some_inj' {A} (a b : A) : Some a = Some b -> a = b.
Proof. now inversion 1. Qed.

Lemma ttype_ne1 k t : t <> 1%N -> ttype k t <> 1%N.
Proof.
  intros H. destruct t as [|q]; [cbn; lia|]. do 4 (try destruct q as [q|q|]); try (cbn; lia); try contradiction;
  cbn [ttype]; destruct k as [|[|[|[|[|[|[|k]]]]]]]; cbn; lia.
Qed.

Theorem move_equivariant_abs : forall k p q m, k < 8 -> c01_inv p -> c01_inv q -> abs q = img k (abs p) -> mT m <> 1%N ->
  match mv p m, mv q (tmr k (N.to_nat (size p)) m) with
  | Ok p', Ok q' => abs q' = img k (abs p')
  | Err, Err => True
  | _, _ => False
  end.
Proof.
  intros k p q m Hk (Hs & Hb & Hr & Ht) (Hs' & Hb' & Hr' & Ht') Hq Hm.
  assert (R1 := move_refines_rules p m Hs Hb Hr Ht Hm).
  assert (R2 := move_refines_rules q (tmr k (N.to_nat (size p)) m) Hs' Hb' Hr' Ht' (ttype_ne1 k _ Hm)).
  rewrite Hq, raw_tmr, <- (abs_n p) in R2.
  rewrite (rules_equivariant k (abs p) (raw m) Hk (abs_well_shaped p Hs)) in R2.
  destruct (mv p m) as [p'| |]; [| |contradiction];
  destruct (mv q _) as [q'| |]; try contradiction; rewrite R1 in R2; cbn [option_map] in R2; try discriminate; [|exact I].
  symmetry. now apply some_inj'.
Qed.
Print Assumptions move_equivariant_abs.

(* the same with the move produced by the code's TransformMove *)
Corollary move_equivariant_code : forall k p q m, k < 8 -> c01_inv p -> c01_inv q -> abs q = img k (abs p) -> transformable m -> mT m <> 1%N ->
  match transform_move (csym (N.to_nat (size p)) k) m with
  | Ok m' => match mv p m, mv q m' with
             | Ok p', Ok q' => abs q' = img k (abs p')
             | Err, Err => True
             | _, _ => False
             end
  | _ => False
  end.
Proof.
  intros k p q m Hk Hp Hq E Hm H1. rewrite transform_move_tm; try assumption.
  - now apply move_equivariant_abs.
  - destruct Hp as [Hs _]. unfold size_ok. lia.
Qed.

(* TransformMove is tm, stated with the abstraction of the move record *)
Lemma transform_move_tm_raw : forall k s m, k < 8 -> size_ok s -> transformable m ->
  transform_move (csym s k) m = Ok (tmr k s m) /\ raw (tmr k s m) = tm k (Z.of_nat s) (raw m).
Proof. intros k s m H1 H2 H3. exact (conj (transform_move_tm k s m H1 H2 H3) (raw_tmr k s m)). Qed.
