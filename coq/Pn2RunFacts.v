(* pn2_verdict_sound for the entry points Pn2Run.pn2_run_at / pn2_run (the constants of /repo, MaxDepth = 0 -> MaxInt16,
   MaxNodes halved when PN2 is set), and runs that really enter the second level. *)
From Coq Require Import NArith ZArith List Bool.
Require Import Board Move GameOver AndOr AndOrS Pn PnRun PnFacts Pn2 Pn2Run Pn2Facts.
Require Import Generated.Consts.
Import ListNotations.
Open Scope N_scope.

(* any threshold (pn2Threshold is a constant of the code; the theorem does not depend on its value) *)
Theorem pn2_run_at_verdict_sound :
  forall threshold iters dfuel k2 dfuel2 maxnodes preserve maxdepth pn2 (p : position) root s result mv why,
    size p <= 8 ->
    pn2_run_at threshold iters dfuel k2 dfuel2 maxnodes preserve maxdepth pn2 p = (root, s, result, mv, why) ->
    let aw := to_move_white p in
    let won q := exists n, wn position (succs gen_basis) (terminal aw) (attp aw) n q = true in
    (result = 1 -> won p /\ (mT mv <> 0 -> exists q, pmv gen_basis p mv = Ok q /\ In mv (all_moves p) /\ won q)) /\
    (result = 2 -> ~ ((0 <= eff_maxdepth maxdepth)%Z /\
                      Wb position pos_equal (succs gen_basis) (terminal aw) (attp aw) (Z.to_nat (eff_maxdepth maxdepth - 0)) [] p)).
Proof.
  intros threshold iters dfuel k2 dfuel2 maxnodes preserve maxdepth pn2 p root s result mv why Hs E.
  unfold pn2_run_at in E.
  exact (pn2_verdict_sound_gen gen_basis _ _ threshold pn2 k2 dfuel2 p eq_refl Hs _ _ _ _ _ _ _ E).
Qed.

(* Prover.Prove with the threshold of pn.go *)
Theorem pn2_run_verdict_sound :
  forall iters dfuel k2 dfuel2 maxnodes preserve maxdepth pn2 (p : position) root s result mv why,
    size p <= 8 ->
    pn2_run iters dfuel k2 dfuel2 maxnodes preserve maxdepth pn2 p = (root, s, result, mv, why) ->
    let aw := to_move_white p in
    let won q := exists n, wn position (succs gen_basis) (terminal aw) (attp aw) n q = true in
    (result = 1 -> won p /\ (mT mv <> 0 -> exists q, pmv gen_basis p mv = Ok q /\ In mv (all_moves p) /\ won q)) /\
    (result = 2 -> ~ ((0 <= eff_maxdepth maxdepth)%Z /\
                      Wb position pos_equal (succs gen_basis) (terminal aw) (attp aw) (Z.to_nat (eff_maxdepth maxdepth - 0)) [] p)).
Proof. intros iters dfuel k2 dfuel2 maxnodes preserve maxdepth pn2 p. exact (pn2_run_at_verdict_sound pn2_threshold iters dfuel k2 dfuel2 maxnodes preserve maxdepth pn2 p). Qed.

(* ---------- non-vacuity: runs that enter the second level ----------
   vm_compute cannot afford the 1000 nodes that pn2Threshold asks for before the second level starts, so the examples
   run the model with threshold 10 (pn2_run_at 10); the extracted driver of the C06 check uses pn2_run = pn2_run_at 1000
   on inputs where the real solver enters the second level.  Both positions are cases of the check. *)
(* 3x3, Black wins ties, White to move: proven; 9 first-level expansions without PN2 *)
Definition ex2_won : position :=
  {| size := 3; black_wins_ties := true; whiteStones := 1; whiteCaps := 0; blackStones := 2; blackCaps := 0; move := 3;
     White := 130; Black := 64; Standing := 2; Caps := 0; Height := [0;1;0;0;0;0;1;1;0]; Stacks := [0;0;0;0;0;0;0;0;0];
     hash := 14695981039346656037 |}.
Example ex2_proven :
  let '(_, s, result, mv, why) := pn2_run_at 10 100 100 100 100 20000 true 0 true ex2_won in
  result = 1 /\ mT mv <> 0 /\ why = 0 /\ 0 < s_calls s /\ 0 < s_searched s /\ size ex2_won <= 8.
Proof. vm_compute. repeat split; discriminate. Qed.

(* 3x3, one stone left each, a wall and a stack on the board: disproven; 9 first-level expansions without PN2 *)
Definition ex2_lost : position :=
  {| size := 3; black_wins_ties := false; whiteStones := 1; whiteCaps := 0; blackStones := 1; blackCaps := 0; move := 8;
     White := 16; Black := 288; Standing := 272; Caps := 0; Height := [0;0;0;0;2;1;0;0;1]; Stacks := [0;0;0;0;0;0;0;0;0];
     hash := 17805213186194500844 |}.
Example ex2_disproven :
  let '(_, s, result, _, why) := pn2_run_at 10 100 100 100 100 60 true 0 true ex2_lost in
  result = 2 /\ why = 0 /\ 0 < s_calls s /\ 0 < s_searched s /\ size ex2_lost <= 8.
Proof. vm_compute. repeat split; discriminate. Qed.
