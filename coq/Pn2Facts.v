(* Soundness of the proof-number search WITH the PN-squared switch (Pn2.v, the model of prove/pn.go with Config.PN2):
   every node of every tree that either level of the search builds whose proof number is 0 is a forced win of the attacker,
   every node whose disproof number is 0 is not won on its line of play within the depth limit; a second-level search is a
   search of the same kind from the node's position along the node's line of play, so what it leaves in the node and in
   the children that pn2 keeps satisfies the same invariant; hence the verdicts of prove_pn2.
   The game, the claims W / L, `covers`, `kid_ok` and the facts about leaves are those of PnFacts.v. *)
From Coq Require Import NArith ZArith List Bool Lia Arith.
Require Import Board Move GameOver AndOr AndOrS Pn PnFacts Pn2.
Import ListNotations.
Open Scope N_scope.

Lemma L_ext basis c1 c2 aw path : pc_maxdepth c1 = pc_maxdepth c2 -> L basis c1 aw path -> L basis c2 aw path.
Proof. intros E H. destruct path as [|[cur ir] rest]; [exact I|]. unfold L in *. rewrite <- E. exact H. Qed.

Section Pn2Sound.
Variable basis : list N.
Variable cfg : pcfg.                         (* the claims only use pc_maxdepth cfg *)
Variable aw : bool.                          (* the attacker is White *)

Notation pmv := (pmv basis).
Notation succs := (succs basis).
Notation terminal := (terminal aw).
Notation attp := (attp aw).
Notation W := (W basis aw).
Notation L := (L basis cfg aw).
Notation covers := (covers basis).
Notation kid_ok := (kid_ok basis).

(* ---------- the invariant: PnFacts.pok with two changes that PN-squared forces ----------
   - the value of a node (set by evaluate at creation, and by pn2 when its search solves the node) carries its claim
     directly: pn2 sets it on an EXPANDED node, so "value <> 0 -> not expanded" of pok is gone;
   - nothing else: the children that pn2 strips (expanded flag cleared, subtree dropped, numbers kept) are leaves whose
     numbers are not the leaf numbers of setNumbers, which pok never required. *)
Fixpoint pok2 (t : pn) (path : list (position * bool)) {struct t} : Prop :=
  match t with
  | PN mv phi delta value irrev and_node expd pd kids =>
    match path with
    | [] => False
    | (cur, _) :: _ =>
      attp cur = negb and_node /\
      size cur <= 8 /\
      ((if and_node then delta else phi) = 0 -> W cur) /\
      ((if and_node then phi else delta) = 0 -> L path) /\
      (expd = false -> kids = []) /\
      ((expd = true \/ (phi <> 0 /\ delta <> 0)) -> terminal cur = None) /\
      (expd = true -> phi <> 0 -> delta <> 0 -> covers cur kids) /\
      (value = 1 -> W cur) /\
      (value = 2 -> L path) /\
      (fix kids_ok (l : list pn) : Prop :=
         match l with
         | [] => True
         | c :: r =>
           (exists q, pmv cur (n_move c) = Ok q /\ In (n_move c) (all_moves cur) /\ n_and c = negb and_node /\
                      pok2 c ((q, n_irrev c) :: path)) /\ kids_ok r
         end) kids
    end
  end.

Definition node_facts2 (t : pn) (path : list (position * bool)) (cur : position) : Prop :=
  attp cur = negb (n_and t) /\
  size cur <= 8 /\
  ((if n_and t then n_delta t else n_phi t) = 0 -> W cur) /\
  ((if n_and t then n_phi t else n_delta t) = 0 -> L path) /\
  (n_expanded t = false -> n_kids t = []) /\
  ((n_expanded t = true \/ (n_phi t <> 0 /\ n_delta t <> 0)) -> terminal cur = None) /\
  (n_expanded t = true -> n_phi t <> 0 -> n_delta t <> 0 -> covers cur (n_kids t)) /\
  (n_value t = 1 -> W cur) /\
  (n_value t = 2 -> L path) /\
  Forall (kid_ok pok2 cur (n_and t) path) (n_kids t).

Lemma pok2_unfold t cur ir rest : pok2 t ((cur, ir) :: rest) <-> node_facts2 t ((cur, ir) :: rest) cur.
Proof.
  destruct t as [mv phi delta value irrev and_node expd pd kids]. unfold node_facts2.
  cbn [pok2 n_and n_phi n_delta n_expanded n_kids n_value].
  assert (K : (fix kids_ok (l : list pn) : Prop :=
         match l with
         | [] => True
         | c :: r =>
           (exists q, pmv cur (n_move c) = Ok q /\ In (n_move c) (all_moves cur) /\ n_and c = negb and_node /\
                      pok2 c ((q, n_irrev c) :: (cur, ir) :: rest)) /\ kids_ok r
         end) kids <-> Forall (kid_ok pok2 cur and_node ((cur, ir) :: rest)) kids).
  { induction kids as [|c r IH]; [split; auto|]. split.
    - intros [H1 H2]. constructor; [exact H1|now apply IH].
    - intros H. inversion H; subst. split; [assumption|now apply IH]. }
  rewrite K. tauto.
Qed.

Lemma pok2_nonempty t path : pok2 t path -> path <> [].
Proof. destruct t, path; cbn; [tauto|discriminate]. Qed.

(* ---------- one level of the search: its configuration lcfg has the depth limit of the claims ---------- *)
Section Level.
Variable lcfg : pcfg.
Hypothesis Hmd : pc_maxdepth lcfg = pc_maxdepth cfg.

Lemma eval_2' irrev cur ir rest : evaluate_node lcfg aw irrev ((cur, ir) :: rest) = 2 -> L ((cur, ir) :: rest).
Proof. intros H. apply (L_ext basis lcfg cfg aw _ Hmd). eapply eval_2; eassumption. Qed.

Lemma leaf_ok2 mv irrev and_node cur rest :
  attp cur = negb and_node -> size cur <= 8 ->
  let path := (cur, irrev) :: rest in
  let value := evaluate_node lcfg aw irrev path in
  pok2 (PN mv (fst (leaf_numbers and_node value cur)) (snd (leaf_numbers and_node value cur)) value irrev and_node false 0 []) path.
Proof.
  intros Ha Hs path value. apply pok2_unfold. unfold node_facts2. cbn [n_and n_phi n_delta n_expanded n_kids n_value].
  split; [assumption|]. split; [assumption|].
  assert (MaxU32 <> 0) by (unfold MaxU32; cbn; discriminate).
  destruct (eval_cases lcfg aw irrev path) as [E|[E|E]]; fold value in E; rewrite E; unfold leaf_numbers; cbn [N.eqb Pos.eqb fst snd].
  - (* unknown *)
    pose proof (terminal_of_eval _ _ _ _ _ _ E) as Ht.
    repeat split; auto; try (intros; constructor); try discriminate.
    + destruct and_node; cbn [fst snd]; [|discriminate]. intros H0. apply (no_moves_no_succs basis) in H0; [|assumption].
      apply W_and; auto. rewrite H0. intros ? [].
    + destruct and_node; cbn [fst snd]; [discriminate|]. intros H0. apply (no_moves_no_succs basis) in H0; [|assumption].
      apply L_or; auto. rewrite H0. intros ? [].
  - (* won *)
    pose proof (eval_1 _ _ _ _ _ _ E) as Ht.
    destruct and_node; cbn [Bool.eqb fst snd]; repeat split; auto; try (intros; constructor); try (intros; now apply W_term); try contradiction; try discriminate.
    all: intros [|[? ?]]; try discriminate; contradiction.
  - (* not won *)
    pose proof (eval_2' _ _ _ _ E) as Hl.
    destruct and_node; cbn [Bool.eqb fst snd]; repeat split; auto; try (intros; constructor); try contradiction; try discriminate.
    all: intros [|[? ?]]; try discriminate; contradiction.
Qed.

Lemma new_child_ok2 and_parent cur ir rest m q :
  attp cur = negb and_parent -> size cur <= 8 -> pmv cur m = Ok q ->
  let c := new_child lcfg aw and_parent cur ((cur, ir) :: rest) m q in
  pok2 c ((q, n_irrev c) :: (cur, ir) :: rest).
Proof.
  intros Ha Hs E. unfold new_child.
  match goal with |- context[evaluate_node lcfg aw ?i _] => set (irrev := i) end.
  pose proof (leaf_ok2 m irrev (negb and_parent) q ((cur, ir) :: rest)) as H.
  cbn zeta in H. destruct (leaf_numbers (negb and_parent) _ q) as [phi delta] eqn:El. cbn [fst snd] in H.
  cbn [n_irrev]. apply H.
  - unfold PnFacts.attp in *. unfold Pn.pmv in E. rewrite (to_move_flip _ _ _ _ _ E).
    destruct (to_move_white cur), aw, and_parent; cbn in *; congruence.
  - unfold Pn.pmv in E. apply mv_fields in E as [_ E]. now rewrite E.
Qed.

Lemma gen_kids_ok2 and_parent cur ir rest :
  attp cur = negb and_parent -> size cur <= 8 ->
  forall ms kids st kids' st',
    let path := (cur, ir) :: rest in
    Forall (kid_ok pok2 cur and_parent path) kids ->
    (forall m, In m ms -> In m (all_moves cur)) ->
    gen_kids basis lcfg aw and_parent cur path ms kids st = (kids', st') ->
    Forall (kid_ok pok2 cur and_parent path) kids' /\
    ((forall m q, (In m ms \/ exists c, In c kids /\ n_move c = m) -> pmv cur m = Ok q -> exists c, In c kids' /\ n_move c = m) \/
     (exists c, In c kids' /\ n_delta c = 0 /\ n_phi c <> 0)).
Proof.
  intros Ha Hs ms. induction ms as [|m r IH]; intros kids st kids' st' path Hk Hin E; cbn [gen_kids] in E.
  - injection E as <- <-. split; [assumption|]. left. intros m q [[]|H] _. exact H.
  - destruct (pmv cur m) as [q| |] eqn:Em.
    + pose proof (new_child_fields lcfg aw and_parent cur path m q) as (F1 & F2 & F3).
      pose proof (new_child_ok2 and_parent cur ir rest m q Ha Hs Em) as Hc.
      set (c := new_child lcfg aw and_parent cur path m q) in *.
      assert (Hkc : Forall (kid_ok pok2 cur and_parent path) (c :: kids)).
      { constructor; [|assumption]. exists q. rewrite F1. repeat split; auto. apply Hin. now left. }
      destruct (n_delta c =? 0) eqn:Ed.
      * injection E as <- <-. split; [assumption|]. right. exists c. split; [now left|]. apply N.eqb_eq in Ed. split; [assumption|].
        apply (new_child_delta0 lcfg aw and_parent cur path m q); [|assumption].
        unfold Pn.pmv in Em. apply mv_fields in Em as [_ Em]. now rewrite Em.
      * apply IH in E; [|assumption|intros; apply Hin; now right].
        destruct E as [E1 E2]. split; [assumption|]. destruct E2 as [E2|E2]; [left|now right].
        intros m' q' [[<-|H]|(c' & Hc' & Hm')] Eq.
        -- apply E2 with (q := q'); [|assumption]. right. exists c. split; [now left|assumption].
        -- apply E2 with (q := q'); [|assumption]. now left.
        -- apply E2 with (q := q'); [|assumption]. right. exists c'. split; [now right|assumption].
    + apply IH in E; [|assumption|intros; apply Hin; now right].
      destruct E as [E1 E2]. split; [assumption|]. destruct E2 as [E2|E2]; [left|now right].
      intros m' q' [[<-|H]|H] Eq; [congruence| |]; apply E2 with (q := q'); auto.
    + apply IH in E; [|assumption|intros; apply Hin; now right].
      destruct E as [E1 E2]. split; [assumption|]. destruct E2 as [E2|E2]; [left|now right].
      intros m' q' [[<-|H]|H] Eq; [congruence| |]; apply E2 with (q := q'); auto.
Qed.

(* ---------- updateAncestors at one node ---------- *)
Lemma update_kids_root t st t2 st2 : update_node lcfg true t st = (t2, st2) -> n_kids t2 = n_kids t.
Proof.
  unfold update_node. destruct (kid_numbers (n_kids t)). destruct (_ || _); intros E; injection E as <- _; reflexivity.
Qed.

Lemma update_ok2 is_root t cur ir rest st t2 st2 :
  let path := (cur, ir) :: rest in
  n_expanded t = true -> (n_value t = 1 -> W cur) -> (n_value t = 2 -> L path) ->
  attp cur = negb (n_and t) -> size cur <= 8 -> terminal cur = None ->
  covers cur (n_kids t) -> Forall (kid_ok pok2 cur (n_and t) path) (n_kids t) ->
  update_node lcfg is_root t st = (t2, st2) ->
  pok2 t2 path /\ same3 t2 t.
Proof.
  intros path Hexp Hv1 Hv2 Ha Hs Ht Hcov Hk E. unfold update_node in E.
  destruct (kid_numbers (n_kids t)) as [phi delta] eqn:K.
  assert (HW : (if n_and t then delta else phi) = 0 -> W cur).
  { destruct (n_and t) eqn:Eand; intros H0.
    - pose proof (kid_numbers_delta0 _ _ _ K H0) as Hall.
      destruct Hcov as [Hcov|(c & Hc & Hd & Hp)]; [|now rewrite (Hall c Hc) in Hp].
      apply W_and; auto. intros q Hq. apply in_succs in Hq as (m & Hm & Eq).
      destruct (Hcov m q Hm Eq) as (c & Hc & Hmc). rewrite Forall_forall in Hk.
      destruct (Hk c Hc) as (q' & Eq' & _ & Hand & Hpok). rewrite Hmc, Eq in Eq'. injection Eq' as <-.
      apply pok2_unfold in Hpok. destruct Hpok as (_ & _ & Hw & _). apply Hw. rewrite Hand. cbn. now apply Hall.
    - destruct (kid_numbers_phi0 _ _ _ K H0) as (c & Hc & Hd). rewrite Forall_forall in Hk.
      destruct (Hk c Hc) as (q & Eq & Hm & Hand & Hpok).
      apply W_or with (q := q); auto. { now apply succs_in with (m := n_move c). }
      apply pok2_unfold in Hpok. destruct Hpok as (_ & _ & Hw & _). apply Hw. rewrite Hand. cbn. assumption. }
  assert (HL : (if n_and t then phi else delta) = 0 -> L path).
  { destruct (n_and t) eqn:Eand; intros H0.
    - destruct (kid_numbers_phi0 _ _ _ K H0) as (c & Hc & Hd). rewrite Forall_forall in Hk.
      destruct (Hk c Hc) as (q & Eq & Hm & Hand & Hpok).
      apply L_and with (q := q) (ir' := n_irrev c); auto. { now apply succs_in with (m := n_move c). }
      apply pok2_unfold in Hpok. destruct Hpok as (_ & _ & _ & Hl & _). apply Hl. rewrite Hand. cbn. assumption.
    - pose proof (kid_numbers_delta0 _ _ _ K H0) as Hall.
      destruct Hcov as [Hcov|(c & Hc & Hd & Hp)]; [|now rewrite (Hall c Hc) in Hp].
      apply L_or; auto. intros q Hq. apply in_succs in Hq as (m & Hm & Eq).
      destruct (Hcov m q Hm Eq) as (c & Hc & Hmc). rewrite Forall_forall in Hk.
      destruct (Hk c Hc) as (q' & Eq' & _ & Hand & Hpok). rewrite Hmc, Eq in Eq'. injection Eq' as <-.
      exists (n_irrev c). apply pok2_unfold in Hpok. destruct Hpok as (_ & _ & _ & Hl & _). apply Hl. rewrite Hand. cbn. now apply Hall. }
  destruct ((phi =? 0) || (delta =? 0)) eqn:Esolved.
  - injection E as <- _. split; [|unfold same3, with_numbers; cbn; auto].
    apply pok2_unfold. unfold node_facts2, with_numbers. cbn [n_and n_phi n_delta n_expanded n_kids n_value].
    repeat split; auto; try congruence.
    + intros _ Hp Hd. apply orb_true_iff in Esolved as [Es|Es]; apply N.eqb_eq in Es; contradiction.
    + destruct (negb is_root && negb (pc_preserve lcfg)); [constructor|assumption].
  - injection E as <- _. split; [|unfold same3, with_numbers; cbn; auto].
    apply pok2_unfold. unfold node_facts2, with_numbers. cbn [n_and n_phi n_delta n_expanded n_kids n_value].
    repeat split; auto; congruence.
Qed.

(* ---------- what expand / pn2 must leave in a node for updateAncestors ---------- *)
Definition expanded_ok (t1 : pn) (path : list (position * bool)) : Prop :=
  match path with
  | [] => False
  | (cur, _) :: _ =>
    n_expanded t1 = true /\ (n_value t1 = 1 -> W cur) /\ (n_value t1 = 2 -> L path) /\
    covers cur (n_kids t1) /\ Forall (kid_ok pok2 cur (n_and t1) path) (n_kids t1)
  end.

Variable hook : pn -> list (position * bool) -> p2stats -> option ires2.
Definition hook_ok : Prop :=
  forall t path s t1 s1 c, pok2 t path -> n_expanded t = false -> n_phi t <> 0 -> n_delta t <> 0 ->
    hook t path s = Some (Step2 t1 s1 c) -> expanded_ok t1 path /\ same3 t1 t.
Hypothesis Hhook : hook_ok.

(* ---------- one iteration ---------- *)
(* for the root of a level (whose children updateAncestors never drops) also: the children still cover every move *)
Definition iter_post (is_root : bool) (t t' : pn) (path : list (position * bool)) : Prop :=
  pok2 t' path /\ same3 t' t /\
  (is_root = true -> n_expanded t' = true /\ match path with (cur, _) :: _ => covers cur (n_kids t') | [] => False end).

Definition descend_ok2 (descend : pn -> list (position * bool) -> p2stats -> ires2) : Prop :=
  forall c path s c' s' cu, pok2 c path -> n_phi c <> 0 -> n_delta c <> 0 -> descend c path s = Step2 c' s' cu ->
                            pok2 c' path /\ same3 c' c.

Lemma into_kid_ok descend is_root t cur ir rest s before c r t2 s2 cu :
  let path := (cur, ir) :: rest in
  descend_ok2 descend ->
  n_expanded t = true -> (n_value t = 1 -> W cur) -> (n_value t = 2 -> L path) ->
  attp cur = negb (n_and t) -> size cur <= 8 -> terminal cur = None ->
  ((if n_and t then n_delta t else n_phi t) = 0 -> W cur) ->
  ((if n_and t then n_phi t else n_delta t) = 0 -> L path) ->
  n_kids t = rev before ++ c :: r ->
  covers cur (n_kids t) -> Forall (kid_ok pok2 cur (n_and t) path) (n_kids t) ->
  n_phi c <> 0 -> n_delta c <> 0 ->
  into_kid basis lcfg descend is_root t path s before c r = Step2 t2 s2 cu ->
  iter_post is_root t t2 path.
Proof.
  intros path Hdesc Hexp Hv1 Hv2 Ha Hs Ht HW HL Ekids Hcov Hk Ep Ed E. unfold into_kid, path in E.
  destruct (pmv cur (n_move c)) as [q| |] eqn:Eq; try discriminate.
  assert (Hkc : kid_ok pok2 cur (n_and t) path c).
  { rewrite Forall_forall in Hk. apply Hk. rewrite Ekids. apply in_or_app. right. now left. }
  destruct Hkc as (q0 & Eq0 & Hm & Hand & Hpok). rewrite Eq in Eq0. injection Eq0 as <-.
  destruct (descend c ((q, n_irrev c) :: (cur, ir) :: rest) s) as [c' s' cu'|w] eqn:Edesc; [|discriminate].
  destruct (Hdesc _ _ _ _ _ _ Hpok Ep Ed Edesc) as (Hpok' & Hm' & Hand' & Hir').
  assert (Hcov' : covers cur (rev before ++ c' :: r)).
  { rewrite Ekids in Hcov. eapply covers_replace; eauto. }
  assert (Hk' : Forall (kid_ok pok2 cur (n_and t) path) (rev before ++ c' :: r)).
  { rewrite Ekids in Hk. eapply forall_replace; [exact Hk|].
    exists q. rewrite Hm', Hand', Hir'. repeat split; auto. }
  destruct cu' as [l|].
  - (* updateAncestors stopped below: this node is not recomputed *)
    injection E as <- _ _. unfold iter_post. split; [|split].
    + apply pok2_unfold. unfold node_facts2, set_kids. cbn [n_and n_phi n_delta n_expanded n_kids n_value].
      repeat split; auto; try congruence.
    + unfold same3, set_kids. cbn. auto.
    + intros _. unfold set_kids. cbn [n_expanded n_kids]. auto.
  - destruct (update_node lcfg is_root (set_kids t (rev before ++ c' :: r)) (s_st s')) as [t2' st2'] eqn:Eu.
    injection E as <- _ _.
    assert (Hu := update_ok2 is_root (set_kids t (rev before ++ c' :: r)) cur ir rest (s_st s') t2' st2').
    cbn [set_kids n_expanded n_and n_kids n_value] in Hu.
    destruct Hu as [Hu1 Hu2]; auto.
    unfold iter_post. split; [assumption|]. split.
    + destruct Hu2 as (U1 & U2 & U3). unfold same3, set_kids in *. cbn [n_move n_and n_irrev] in *. auto.
    + intros ->. apply update_kids_root in Eu as Ek. rewrite Ek. unfold set_kids. cbn [n_kids].
      split; [|assumption]. unfold update_node in Eu. destruct (kid_numbers _). destruct (_ || _); injection Eu as <- _; reflexivity.
Qed.

Lemma pick_ok2 descend is_root t cur ir rest s t2 s2 cu :
  let path := (cur, ir) :: rest in
  descend_ok2 descend ->
  n_expanded t = true -> (n_value t = 1 -> W cur) -> (n_value t = 2 -> L path) ->
  attp cur = negb (n_and t) -> size cur <= 8 -> terminal cur = None ->
  ((if n_and t then n_delta t else n_phi t) = 0 -> W cur) ->
  ((if n_and t then n_phi t else n_delta t) = 0 -> L path) ->
  forall l before, n_kids t = rev before ++ l ->
    covers cur (n_kids t) -> Forall (kid_ok pok2 cur (n_and t) path) (n_kids t) ->
    pick_kid2 basis lcfg descend is_root t path s before l = Step2 t2 s2 cu ->
    iter_post is_root t t2 path.
Proof.
  intros path Hdesc Hexp Hv1 Hv2 Ha Hs Ht HW HL l. induction l as [|c r IH]; intros before Ekids Hcov Hk E; cbn [pick_kid2] in E; [discriminate|].
  destruct (n_delta c =? n_phi t) eqn:Esel.
  - destruct ((n_phi c =? 0) || (n_delta c =? 0)) eqn:Esolved; [discriminate|].
    apply orb_false_iff in Esolved as [Ep Ed]. apply N.eqb_neq in Ep, Ed.
    eapply into_kid_ok; eauto.
  - apply IH with (before := c :: before); auto. cbn [rev]. rewrite <- app_assoc. exact Ekids.
Qed.

Lemma split_at_spec : forall i before l b c r, split_at i before l = Some (b, c, r) -> rev before ++ l = rev b ++ c :: r.
Proof.
  induction i as [|i IH]; intros before l b c r E; destruct l as [|x l]; cbn [split_at] in E; try discriminate.
  - injection E as <- <- <-. reflexivity.
  - apply IH in E. rewrite <- E. cbn [rev]. now rewrite <- app_assoc.
Qed.

Lemma iterate2_ok : forall fuel is_root t path s forced t' s' cu,
  pok2 t path -> n_phi t <> 0 -> n_delta t <> 0 ->
  iterate2 basis aw lcfg hook fuel is_root t path s forced = Step2 t' s' cu ->
  iter_post is_root t t' path.
Proof.
  induction fuel as [|f IH]; intros is_root t path s forced t' s' cu Hpok Hp Hd E; cbn [iterate2] in E; [discriminate|].
  destruct path as [|[cur ir] rest]; [now apply pok2_nonempty in Hpok|].
  pose proof Hpok as Hn. apply pok2_unfold in Hn. destruct Hn as (Ha & Hs & HW & HL & Hnk & Ht & Hcov & Hv1 & Hv2 & Hk).
  assert (Hdesc : forall fo, descend_ok2 (fun c p s => iterate2 basis aw lcfg hook f false c p s fo)).
  { intros fo c p s0 c' s0' cu0 Hc Hcp Hcd Ec. destruct (IH _ _ _ _ _ _ _ _ Hc Hcp Hcd Ec) as (H1 & H2 & _). auto. }
  destruct (n_expanded t) eqn:Eexp.
  - destruct forced as [|i restf].
    + eapply pick_ok2 with (before := []); eauto. reflexivity.
    + destruct (split_at i [] (n_kids t)) as [[[before c] r]|] eqn:Esp; [|discriminate].
      destruct (solved c) eqn:Esol; [discriminate|].
      unfold solved in Esol. apply orb_false_iff in Esol as [Ep Ed]. apply N.eqb_neq in Ep, Ed.
      apply split_at_spec in Esp. cbn [rev app] in Esp.
      eapply into_kid_ok; eauto.
  - destruct ((0 <? pc_maxnodes lcfg) && (pc_maxnodes lcfg <? live (s_st s))); [discriminate|].
    assert (Post : forall t1 st1 t2 st2, expanded_ok t1 ((cur, ir) :: rest) -> same3 t1 t ->
                     update_node lcfg is_root t1 st1 = (t2, st2) -> iter_post is_root t t2 ((cur, ir) :: rest)).
    { intros t1 st1 t2 st2 (X1 & X2 & X3 & X4 & X5) (Y1 & Y2 & Y3) Eu.
      destruct (update_ok2 is_root t1 cur ir rest st1 t2 st2) as [Hu1 Hu2]; auto.
      { now rewrite Y2. }
      unfold iter_post. split; [assumption|]. split.
      - destruct Hu2 as (U1 & U2 & U3). unfold same3. rewrite U1, U2, U3. auto.
      - intros ->. apply update_kids_root in Eu as Ek. rewrite Ek. split; [|assumption].
        unfold update_node in Eu. destruct (kid_numbers _). destruct (_ || _); injection Eu as <- _; exact X1. }
    destruct (hook t ((cur, ir) :: rest) s) as [[t1 s1 c1|w]|] eqn:Eh.
    + destruct (update_node lcfg is_root t1 (s_st s1)) as [t2 st2] eqn:Eu. injection E as <- _ _.
      destruct (Hhook _ _ _ _ _ _ Hpok Eexp Hp Hd Eh) as [He Hsame].
      eapply Post; eauto.
    + discriminate.
    + destruct (expand_node basis lcfg aw t ((cur, ir) :: rest) (s_st s)) as [t1 st1] eqn:Ee.
      destruct (update_node lcfg is_root t1 st1) as [t2 st2] eqn:Eu. injection E as <- _ _.
      unfold expand_node in Ee.
      destruct (gen_kids basis lcfg aw (n_and t) cur ((cur, ir) :: rest) (all_moves cur) [] (s_st s)) as [kids stk] eqn:Eg.
      injection Ee as <- _.
      apply gen_kids_ok2 in Eg; auto. destruct Eg as [Eg1 Eg2].
      assert (Hcov' : covers cur kids).
      { destruct Eg2 as [Eg2|Eg2]; [left|now right]. intros m q Hm Eq. apply Eg2 with (q := q); auto. }
      eapply Post; [| |exact Eu].
      * unfold expanded_ok. cbn [n_expanded n_value n_kids n_and]. repeat split; auto.
      * unfold same3. cbn. auto.
Qed.

(* ---------- the loop of search() of this level ---------- *)
Lemma search2_ok : forall k dfuel path t s forced t' s' w,
  pok2 t path ->
  (n_expanded t = true -> match path with (cur, _) :: _ => covers cur (n_kids t) | [] => False end) ->
  search2 basis aw lcfg hook k dfuel path t s forced = (t', s', w) ->
  pok2 t' path /\ same3 t' t /\
  (n_expanded t' = true -> match path with (cur, _) :: _ => covers cur (n_kids t') | [] => False end).
Proof.
  induction k as [|k IH]; intros dfuel path t s forced t' s' w Hpok Hc E; cbn [search2] in E.
  - injection E as <- _ _. unfold same3. auto.
  - destruct (solved t) eqn:Es; [injection E as <- _ _; unfold same3; auto|].
    unfold solved in Es. apply orb_false_iff in Es as [Ep Ed]. apply N.eqb_neq in Ep, Ed.
    destruct (iterate2 basis aw lcfg hook dfuel true t path s forced) as [t1 s1 c1|w1] eqn:Ei.
    + destruct (iterate2_ok _ _ _ _ _ _ _ _ _ Hpok Ep Ed Ei) as (H1 & H2 & H3). destruct (H3 eq_refl) as [H4 H5].
      apply IH in E; auto. destruct E as (E1 & E2 & E3). split; [assumption|]. split; [|assumption].
      destruct E2 as (A1 & A2 & A3), H2 as (B1 & B2 & B3). unfold same3. rewrite A1, A2, A3. auto.
    + injection E as <- _ _. unfold same3. auto.
Qed.
End Level.

(* ---------- pn2(): the second-level search and what is copied back ---------- *)
Lemma no_hook_ok : hook_ok no_hook.
Proof. intros t path s t1 s1 c _ _ _ _ E. discriminate E. Qed.

Lemma strip_ok c path : pok2 c path -> pok2 (strip c) path.
Proof.
  intros H. destruct path as [|[cur ir] rest]; [now apply pok2_nonempty in H|].
  apply pok2_unfold in H. destruct H as (Ha & Hs & HW & HL & Hnk & Ht & Hcov & Hv1 & Hv2 & Hk).
  apply pok2_unfold. unfold node_facts2, strip. cbn [n_and n_phi n_delta n_expanded n_kids n_value].
  repeat split; auto; try discriminate.
  intros [E|E]; [discriminate E|]. apply Ht. now right.
Qed.

Lemma covers_strip cur l : covers cur l -> covers cur (map strip l).
Proof.
  intros [H|(c & Hc & Hd & Hp)].
  - left. intros m q Hm Eq. destruct (H m q Hm Eq) as (c & Hc & Hmc). exists (strip c). split; [now apply in_map|exact Hmc].
  - right. exists (strip c). split; [now apply in_map|]. split; assumption.
Qed.

Section Top.
Variable threshold : N.
Variable pn2on : bool.
Variable k2 dfuel2 : nat.

Lemma pn2_node_ok t path s t1 s1 c :
  pok2 t path -> n_expanded t = false -> n_phi t <> 0 -> n_delta t <> 0 ->
  pn2_node basis aw cfg k2 dfuel2 t path s = Step2 t1 s1 c -> expanded_ok t1 path /\ same3 t1 t.
Proof.
  intros Hpok Hexp Hp Hd E. unfold pn2_node in E.
  destruct (search2 basis aw (cfg2 cfg (pn2_limit cfg (s_st s))) no_hook k2 dfuel2 path t (s_of stats_zero) []) as [[t' s'] why] eqn:Es.
  destruct (why =? 0); [|discriminate E]. destruct (n_expanded t') eqn:Ee; [|discriminate E]. injection E as <- _ _.
  destruct (search2_ok (cfg2 cfg (pn2_limit cfg (s_st s))) eq_refl no_hook no_hook_ok _ _ _ _ _ _ _ _ _ Hpok
              ltac:(intros X; rewrite Hexp in X; discriminate X) Es) as (P1 & P2 & P3).
  destruct path as [|[cur ir] rest]; [now apply pok2_nonempty in Hpok|].
  specialize (P3 Ee). apply pok2_unfold in P1. destruct P1 as (Ha & Hs & HW & HL & Hnk & Ht & Hcov & Hv1 & Hv2 & Hk).
  split.
  - unfold expanded_ok. cbn [n_expanded n_value n_kids n_and]. split; [reflexivity|]. split; [|split; [|split]].
    + unfold pn2_value. destruct (n_and t').
      * destruct (n_delta t' =? 0) eqn:E1; [intros _; apply HW; now apply N.eqb_eq|]. destruct (n_phi t' =? 0); [discriminate|exact Hv1].
      * destruct (n_phi t' =? 0) eqn:E1; [intros _; apply HW; now apply N.eqb_eq|]. destruct (n_delta t' =? 0); [discriminate|exact Hv1].
    + unfold pn2_value. destruct (n_and t').
      * destruct (n_delta t' =? 0) eqn:E1; [discriminate|]. destruct (n_phi t' =? 0) eqn:E2; [intros _; apply HL; now apply N.eqb_eq|exact Hv2].
      * destruct (n_phi t' =? 0) eqn:E1; [discriminate|]. destruct (n_delta t' =? 0) eqn:E2; [intros _; apply HL; now apply N.eqb_eq|exact Hv2].
    + now apply covers_strip.
    + apply Forall_forall. intros x Hx. apply in_map_iff in Hx as (c0 & <- & Hc0).
      rewrite Forall_forall in Hk. destruct (Hk c0 Hc0) as (q & Eq & Hm & Hand & Hpc).
      exists q. change (n_move (strip c0)) with (n_move c0). change (n_and (strip c0)) with (n_and c0).
      change (n_irrev (strip c0)) with (n_irrev c0). split; [exact Eq|]. split; [exact Hm|]. split; [exact Hand|]. now apply strip_ok.
  - destruct P2 as (A1 & A2 & A3). unfold same3. cbn [n_move n_and n_irrev]. auto.
Qed.

Lemma pn2_hook_ok : hook_ok (pn2_hook basis aw cfg threshold pn2on k2 dfuel2).
Proof.
  intros t path s t1 s1 c Hpok Hexp Hp Hd E. unfold pn2_hook in E.
  destruct (pn2on && (threshold <? p_nodes (s_st s))); [|discriminate E]. injection E as E.
  eapply pn2_node_ok; eauto.
Qed.

(* ---------- the search loop of the first level and the verdict ---------- *)
Variable p0 : position.
Hypothesis Haw : aw = to_move_white p0.        (* Prove(): the attacker is the side to move at the root *)
Hypothesis Hsize : size p0 <= 8.

Lemma root_ok2 : pok2 (root_node cfg aw p0) [(p0, false)].
Proof.
  unfold root_node.
  pose proof (leaf_ok2 cfg eq_refl pmove0 false false p0 []) as H. cbn zeta in H.
  destruct (leaf_numbers false (evaluate_node cfg aw false [(p0, false)]) p0) as [phi delta]. cbn [fst snd] in H.
  apply H; [|assumption]. unfold PnFacts.attp. rewrite Haw. now destruct (to_move_white p0).
Qed.

Lemma verdict_proven2 root mv : pok2 root [(p0, false)] -> n_and root = false -> verdict root = (1, mv) ->
  W p0 /\ (mT mv <> 0 -> exists q, pmv p0 mv = Ok q /\ In mv (all_moves p0) /\ W q).
Proof.
  intros Hpok Hand E. apply pok2_unfold in Hpok. destruct Hpok as (Ha & Hs & HW & HL & Hnk & Ht & Hcov & Hv1 & Hv2 & Hk).
  rewrite Hand in *. unfold verdict in E.
  destruct (n_phi root =? 0) eqn:Ep.
  - apply N.eqb_eq in Ep. split; [now apply HW|]. injection E as E.
    assert (G : forall l acc, Forall (kid_ok pok2 p0 false [(p0, false)]) l ->
              (mT acc <> 0 -> exists q, pmv p0 acc = Ok q /\ In acc (all_moves p0) /\ W q) ->
              let r := fold_left (fun acc c => if n_delta c =? 0 then n_move c else acc) l acc in
              mT r <> 0 -> exists q, pmv p0 r = Ok q /\ In r (all_moves p0) /\ W q).
    { induction l as [|c r IH]; intros acc Hl Hacc; cbn [fold_left]; [exact Hacc|].
      inversion Hl as [|? ? Hc Hr]; subst. apply IH; [assumption|].
      destruct (n_delta c =? 0) eqn:Ed; [|exact Hacc]. intros _.
      destruct Hc as (q & Eq & Hm & Hca & Hpc). exists q. repeat split; auto.
      apply pok2_unfold in Hpc. destruct Hpc as (_ & _ & Hw & _). apply Hw. rewrite Hca. cbn. now apply N.eqb_eq. }
    subst mv. apply G; [assumption|]. intros Hf. now contradiction Hf.
  - destruct (n_delta root =? 0) eqn:Ed.
    + destruct (fold_left _ _ _); discriminate.
    + injection E as E <-. split; [now apply Hv1|]. intros Hf. now contradiction Hf.
Qed.

Lemma verdict_disproven2 root mv : pok2 root [(p0, false)] -> n_and root = false -> verdict root = (2, mv) -> L [(p0, false)].
Proof.
  intros Hpok Hand E. apply pok2_unfold in Hpok. destruct Hpok as (Ha & Hs & HW & HL & Hnk & Ht & Hcov & Hv1 & Hv2 & Hk).
  rewrite Hand in *. unfold verdict in E.
  destruct (n_phi root =? 0) eqn:Ep; [discriminate|].
  destruct (n_delta root =? 0) eqn:Ed.
  - apply N.eqb_eq in Ed. now apply HL.
  - injection E as E _. now apply Hv2.
Qed.

(* every tree the first-level loop reaches (with everything the second level left in it) satisfies the invariant *)
Theorem pn2_invariant_gen : forall k dfuel t s w,
  search2 basis aw cfg (pn2_hook basis aw cfg threshold pn2on k2 dfuel2) k dfuel [(p0, false)] (root_node cfg aw p0) (s_of stats0) [] = (t, s, w) ->
  pok2 t [(p0, false)] /\ n_and t = false.
Proof.
  intros k dfuel t s w E.
  destruct (search2_ok cfg eq_refl _ pn2_hook_ok _ _ _ _ _ _ _ _ _ root_ok2
              ltac:(unfold root_node; destruct (leaf_numbers _ _ _); cbn; discriminate) E) as (P1 & (_ & P2 & _) & _).
  split; [assumption|]. rewrite P2. unfold root_node. destruct (leaf_numbers _ _ _). reflexivity.
Qed.

(* THE VERDICTS OF THE PN SEARCH WITH THE PN-SQUARED SWITCH (model of Prover.Prove) *)
Theorem pn2_verdict_sound_gen : forall iters dfuel root s result mv why,
  prove_pn2 basis aw cfg threshold pn2on k2 dfuel2 iters dfuel p0 = (root, s, result, mv, why) ->
  (result = 1 -> W p0 /\ (mT mv <> 0 -> exists q, pmv p0 mv = Ok q /\ In mv (all_moves p0) /\ W q)) /\
  (result = 2 -> L [(p0, false)]).
Proof.
  intros iters dfuel root s result mv why E. unfold prove_pn2 in E.
  destruct (search2 basis aw cfg (pn2_hook basis aw cfg threshold pn2on k2 dfuel2) iters dfuel [(p0, false)] (root_node cfg aw p0) (s_of stats0) [])
    as [[root' s'] why'] eqn:Es.
  destruct (verdict root') as [res pv] eqn:Ev. injection E as <- _ <- <- _.
  destruct (pn2_invariant_gen _ _ _ _ _ Es) as [Hpok Hand].
  split; intros ->.
  - eapply verdict_proven2; eauto.
  - eapply verdict_disproven2; eauto.
Qed.
End Top.
End Pn2Sound.

(* ---------- the statements exported by Properties/C06.v ---------- *)
Theorem pn2_invariant :
  forall basis cfg threshold pn2on k2 dfuel2 (p0 : position) k dfuel t s w,
    size p0 <= 8 ->
    search2 basis (to_move_white p0) cfg (pn2_hook basis (to_move_white p0) cfg threshold pn2on k2 dfuel2) k dfuel
            [(p0, false)] (root_node cfg (to_move_white p0) p0) (s_of stats0) [] = (t, s, w) ->
    pok2 basis cfg (to_move_white p0) t [(p0, false)].
Proof.
  intros basis cfg threshold pn2on k2 dfuel2 p0 k dfuel t s w Hs E.
  exact (proj1 (pn2_invariant_gen basis cfg _ threshold pn2on k2 dfuel2 p0 eq_refl Hs _ _ _ _ _ E)).
Qed.

(* ---------- the verdicts against the history-free attractor (what the retrograde oracle computes) ----------
   as PnFacts.pn_proven_rules / pn_disproven_attractor, under the same hypothesis PnFacts.equal_congruent *)
Corollary pn2_proven_rules : forall basis cfg threshold pn2on k2 dfuel2 p0 iters dfuel root s mv why,
  equal_congruent basis (to_move_white p0) -> size p0 <= 8 ->
  prove_pn2 basis (to_move_white p0) cfg threshold pn2on k2 dfuel2 iters dfuel p0 = (root, s, 1, mv, why) ->
  exists k, Wb position pos_equal (succs basis) (terminal (to_move_white p0)) (attp (to_move_white p0)) k [] p0.
Proof.
  intros basis cfg threshold pn2on k2 dfuel2 p0 iters dfuel root s mv why Hc Hs E.
  destruct (pn2_verdict_sound_gen basis cfg _ threshold pn2on k2 dfuel2 p0 eq_refl Hs _ _ _ _ _ _ _ E) as [H _].
  destruct (H eq_refl) as [[n Hn] _]. exists n. apply truth_equiv_bounded; assumption.
Qed.

Corollary pn2_disproven_attractor : forall basis cfg threshold pn2on k2 dfuel2 p0 iters dfuel root s mv why,
  equal_congruent basis (to_move_white p0) -> size p0 <= 8 -> (0 <= pc_maxdepth cfg)%Z ->
  prove_pn2 basis (to_move_white p0) cfg threshold pn2on k2 dfuel2 iters dfuel p0 = (root, s, 2, mv, why) ->
  wn position (succs basis) (terminal (to_move_white p0)) (attp (to_move_white p0)) (Z.to_nat (pc_maxdepth cfg)) p0 = false.
Proof.
  intros basis cfg threshold pn2on k2 dfuel2 p0 iters dfuel root s mv why Hc Hs Hd E.
  destruct (pn2_verdict_sound_gen basis cfg _ threshold pn2on k2 dfuel2 p0 eq_refl Hs _ _ _ _ _ _ _ E) as [_ H].
  specialize (H eq_refl). cbn [L length map] in H.
  destruct (wn _ _ _ _ (Z.to_nat (pc_maxdepth cfg)) p0) eqn:Ew; [|reflexivity].
  exfalso. apply H. split; [cbn; lia|]. cbn [Z.of_nat]. rewrite Z.sub_0_r. apply truth_equiv_bounded; assumption.
Qed.
