(* C10: ParseTPS (FormatTPS p) for every position p of size 3..8 with 0 <= move. *)
From Coq Require Import NArith ZArith List Bool Lia Ascii ZifyN ZifyBool ZifyNat.
Require Import Board Move GameOver PtnMove Playtak Tps TpsFacts TpsFacts2 TpsFacts3 TpsFacts4 RefinePlace.
Import ListNotations.
Local Open Scope N_scope.

(* ---- the three words ---- *)
Definition turn_text (p : position) : list N := if to_move_white p then [B "1"] else [B "2"].
Definition number_text (p : position) : list N := fmt_int (Z.quot (Move.move p) 2 + 1).

Lemma format_tps_join p : format_tps p = join (B " ") [board_text p; turn_text p; number_text p].
Proof. unfold format_tps, board_text, turn_text, number_text. reflexivity. Qed.

Lemma words_format p : (N.to_nat (size p) <= 9)%nat -> (0 <= Move.move p < 2 ^ 63)%Z ->
  words (format_tps p) = [board_text p; turn_text p; number_text p].
Proof.
  intros Hn Hm. rewrite format_tps_join. unfold words. apply split_join; [discriminate|].
  repeat constructor.
  - now apply board_text_chars.
  - unfold turn_text. destruct (to_move_white p); intros [E|[]]; discriminate.
  - apply digits_no_sep; [rewrite B_space; unfold is_digit; lia|].
    apply fmt_int_digits. pose proof (move_number_range _ Hm). lia.
Qed.

(* ---- ParseTPS o FormatTPS, as a FromSquares of what At reads ---- *)
Theorem parse_format basis p : (3 <= size p <= 8) -> (0 <= Move.move p < 2 ^ 63)%Z ->
  parse_tps basis (format_tps p) = Ok (from_squares basis (size p) (board_of p) (Move.move p)).
Proof.
  intros Hs Hm. unfold parse_tps. rewrite words_format by lia. cbn [length Nat.eqb negb nth].
  unfold number_text. rewrite atoi_fmt_int by (apply move_number_range; exact Hm).
  assert (Et : atoi (turn_text p) = Some (if Z.even (Move.move p) then 1 else 2)%Z).
  { unfold turn_text, to_move_white. destruct (Z.even (Move.move p)); reflexivity. }
  rewrite Et.
  replace (negb (((if Z.even (Move.move p) then 1 else 2) =? 1)%Z || ((if Z.even (Move.move p) then 1 else 2) =? 2)%Z)) with false
    by (destruct (Z.even (Move.move p)); reflexivity).
  cbv zeta. rewrite board_roundtrip by lia. rewrite board_of_length.
  replace ((N.to_nat (size p) <? 3)%nat || (8 <? N.to_nat (size p))%nat) with false by lia.
  rewrite board_of_rows. cbn [negb]. rewrite N2Nat.id.
  pose proof (move_number_inverts _ Hm) as Hw. unfold wrap64 in Hw. rewrite Hw. reflexivity.
Qed.

(* ---- the squares ---- *)
Definition cells_of (p : position) : list (list pc) :=
  let n := N.to_nat (size p) in map (fun i => at_sq p (N.of_nat i)) (seq 0 (n * n)).

Lemma cells_board p : flat_map (fun row => row) (board_of p) = cells_of p.
Proof. unfold board_of, row_of, cells_of. cbv zeta. apply (flat_rows (fun i => at_sq p (N.of_nat i))). Qed.

Lemma cells_of_length p : length (cells_of p) = (N.to_nat (size p) * N.to_nat (size p))%nat.
Proof. unfold cells_of. cbv zeta. now rewrite map_length, seq_length. Qed.

Lemma cells_of_nth p i : (i < N.to_nat (size p) * N.to_nat (size p))%nat -> nth i (cells_of p) [] = at_sq p (N.of_nat i).
Proof.
  intros Hi. unfold cells_of. cbv zeta.
  rewrite nth_indep with (d' := at_sq p (N.of_nat 0)) by (now rewrite map_length, seq_length).
  rewrite (map_nth (fun i => at_sq p (N.of_nat i))), seq_nth by exact Hi. reflexivity.
Qed.

(* the machine types of Height ([]uint8) and Stacks ([]uint64) *)
Definition bytes_ok (p : position) : Prop :=
  forall i, i < size p * size p -> nthN (Height p) i < 256 /\ nthN (Stacks p) i < 2 ^ 64.

Lemma at_sq_length p i : at_sq p i = [] \/ length (at_sq p i) = N.to_nat (nthN (Height p) i).
Proof.
  unfold at_sq. destruct (N.land (N.lor (White p) (Black p)) (bit i) =? 0); [now left|].
  destruct (N.to_nat (nthN (Height p) i)) as [|h']; [now left|]. right. cbn [length]. now rewrite map_length, seq_length.
Qed.

Lemma at_sq_below p i j : is_black (nth (S j) (at_sq p i) (P false 1)) = true -> N.testbit (nthN (Stacks p) i) (N.of_nat j) = true.
Proof.
  unfold at_sq. destruct (N.land (N.lor (White p) (Black p)) (bit i) =? 0); [now destruct j|].
  destruct (N.to_nat (nthN (Height p) i)) as [|h']; [now destruct j|]. cbn [nth].
  destruct (Nat.ltb_spec j h') as [Hj|Hj].
  - rewrite nth_indep with (d' := (fun j => P (N.testbit (nthN (Stacks p) i) (N.of_nat j)) 1) 0%nat) by (now rewrite map_length, seq_length).
    rewrite (map_nth (fun j => P (N.testbit (nthN (Stacks p) i) (N.of_nat j)) 1)), seq_nth by exact Hj. cbn [is_black plus]. auto.
  - rewrite nth_overflow by (rewrite map_length, seq_length; lia). discriminate.
Qed.

Lemma cell_ok_at_sq p i : nthN (Height p) i < 256 -> nthN (Stacks p) i < 2 ^ 64 -> cell_ok (at_sq p i).
Proof.
  intros Hh Hs. destruct (at_sq_wf p i) as [E|W]; [now left|]. right. split; [exact W|]. split.
  - destruct (at_sq_length p i) as [E|E]; rewrite E; cbn [length]; lia.
  - intros j Hj. destruct (is_black (nth (S j) (at_sq p i) (P false 1))) eqn:E; [|reflexivity].
    apply at_sq_below in E. exfalso.
    assert (Hlog : N.testbit (nthN (Stacks p) i) (N.of_nat j) = false).
    { destruct (N.eq_dec (nthN (Stacks p) i) 0) as [Z|NZ]; [rewrite Z; apply N.bits_0|].
      apply N.bits_above_log2. apply N.log2_lt_pow2; [lia|]. apply N.lt_le_trans with (2 ^ 64); [exact Hs|].
      apply N.pow_le_mono_r; lia. }
    congruence.
Qed.

(* ---- reserves ---- *)
Definition is_ws (pp : pc) : bool := match pp with P b k => negb b && negb (k =? 3) end.
Definition is_wc (pp : pc) : bool := match pp with P b k => negb b && (k =? 3) end.
Definition is_bs (pp : pc) : bool := match pp with P b k => b && negb (k =? 3) end.
Definition is_bc (pp : pc) : bool := match pp with P b k => b && (k =? 3) end.
Fixpoint count (f : pc -> bool) (l : list pc) : N := match l with [] => 0 | x :: r => (if f x then 1 else 0) + count f r end.
Definition dec8 (a k : N) : N := (a + 255 * k) mod 256.          (* k decrements of a uint8 *)

Lemma rstep_eq ws wc bs bc b k : rstep (ws, wc, bs, bc) (P b k) =
  (if negb b && negb (k =? 3) then u8 (ws + 255) else ws, if negb b && (k =? 3) then u8 (wc + 255) else wc,
   if b && negb (k =? 3) then u8 (bs + 255) else bs, if b && (k =? 3) then u8 (bc + 255) else bc).
Proof. destruct b, k as [|[[q|q|]|q|]]; reflexivity. Qed.

Lemma dec8_step (f : bool) a k : dec8 (if f then u8 (a + 255) else a) k = dec8 a ((if f then 1 else 0) + k).
Proof.
  unfold dec8, u8. destruct f; [|now rewrite N.add_0_l].
  rewrite N.add_mod_idemp_l by lia. f_equal. lia.
Qed.

Lemma u8_step_lt (f : bool) a : a < 256 -> (if f then u8 (a + 255) else a) < 256.
Proof. intros H. destruct f; [|exact H]. unfold u8. apply N.mod_upper_bound. lia. Qed.

Lemma rstep_fold : forall l ws wc bs bc, ws < 256 -> wc < 256 -> bs < 256 -> bc < 256 ->
  fold_left rstep l (ws, wc, bs, bc) = (dec8 ws (count is_ws l), dec8 wc (count is_wc l), dec8 bs (count is_bs l), dec8 bc (count is_bc l)).
Proof.
  induction l as [|[b k] l IH]; intros ws wc bs bc H1 H2 H3 H4.
  - cbn [fold_left count]. unfold dec8. rewrite N.mul_0_r, !N.add_0_r. now rewrite !N.mod_small by assumption.
  - cbn [fold_left]. rewrite rstep_eq. cbn [count is_ws is_wc is_bs is_bc].
    rewrite IH by (apply u8_step_lt; assumption). now rewrite !dec8_step.
Qed.

Lemma dec8_sub a k : k <= a -> a < 256 -> dec8 a k = a - k.
Proof.
  intros Hk Ha. unfold dec8. replace (a + 255 * k) with (a - k + k * 256) by lia.
  rewrite N.mod_add by lia. apply N.mod_small. lia.
Qed.

Lemma default_pieces_lt n : nth n default_pieces 0 < 256.
Proof. do 9 (destruct n as [|n]; [cbn; lia|]). destruct n; cbn; lia. Qed.
Lemma default_caps_lt n : nth n default_caps 0 < 256.
Proof. do 9 (destruct n as [|n]; [cbn; lia|]). destruct n; cbn; lia. Qed.

(* the pieces on the board of p, by reserve they were drawn from *)
Definition on_board (f : pc -> bool) (p : position) : N := count f (concat (cells_of p)).
Definition dflt_pieces (p : position) : N := nth (N.to_nat (size p)) default_pieces 0.
Definition dflt_caps (p : position) : N := nth (N.to_nat (size p)) default_caps 0.

(* p's four reserve counters are the default counts of its size less what stands on its board *)
Definition reserves_match_board (p : position) : Prop :=
  on_board is_ws p <= dflt_pieces p /\ whiteStones p = dflt_pieces p - on_board is_ws p /\
  on_board is_wc p <= dflt_caps p /\ whiteCaps p = dflt_caps p - on_board is_wc p /\
  on_board is_bs p <= dflt_pieces p /\ blackStones p = dflt_pieces p - on_board is_bs p /\
  on_board is_bc p <= dflt_caps p /\ blackCaps p = dflt_caps p - on_board is_bc p.

(* ---- the theorem ---- *)
Definition same_squares (p q : position) : Prop := forall i, i < size p * size p -> at_sq q i = at_sq p i.

Theorem tps_format_parse basis p : (3 <= size p <= 8) -> (0 <= Move.move p < 2 ^ 63)%Z -> bytes_ok p ->
  exists q, parse_tps basis (format_tps p) = Ok q
    /\ size q = size p /\ Move.move q = Move.move p /\ to_move_white q = to_move_white p /\ black_wins_ties q = false
    /\ same_squares p q
    /\ hash q = scratch_hash basis q
    /\ whiteStones q = dec8 (dflt_pieces p) (on_board is_ws p) /\ whiteCaps q = dec8 (dflt_caps p) (on_board is_wc p)
    /\ blackStones q = dec8 (dflt_pieces p) (on_board is_bs p) /\ blackCaps q = dec8 (dflt_caps p) (on_board is_bc p)
    /\ (reserves_match_board p ->
        whiteStones q = whiteStones p /\ whiteCaps q = whiteCaps p /\ blackStones q = blackStones p /\ blackCaps q = blackCaps p).
Proof.
  intros Hs Hm Hb. eexists. split; [apply parse_format; assumption|].
  set (n := N.to_nat (size p)).
  assert (Hnn : (n * n <= 64)%nat) by (subst n; nia).
  destruct (from_squares_spec basis (size p) (board_of p) (Move.move p)) as (E1 & E2 & E3 & F).
  { rewrite cells_board. apply cells_of_length. }
  { exact Hnn. }
  rewrite cells_board in F. fold n in F.
  set (q := from_squares basis (size p) (board_of p) (Move.move p)) in *.
  assert (Hres : whiteStones q = dec8 (dflt_pieces p) (on_board is_ws p) /\ whiteCaps q = dec8 (dflt_caps p) (on_board is_wc p)
    /\ blackStones q = dec8 (dflt_pieces p) (on_board is_bs p) /\ blackCaps q = dec8 (dflt_caps p) (on_board is_bc p)).
  { pose proof (fo_res _ _ _ _ F) as R. rewrite rstep_fold in R by (apply default_pieces_lt || apply default_caps_lt).
    unfold on_board, dflt_pieces, dflt_caps. fold n. now inversion R. }
  destruct Hres as (R1 & R2 & R3 & R4).
  repeat split; try assumption.
  - unfold to_move_white. now rewrite E2.
  - intros i Hi. rewrite <- (N2Nat.id i).
    assert (Hi' : (N.to_nat i < n * n)%nat) by (subst n; nia).
    rewrite (at_sq_from_squares basis n (cells_of p) q (N.to_nat i) F).
    + now rewrite cells_of_nth by exact Hi'.
    + rewrite cells_of_length. exact Hnn.
    + rewrite cells_of_length. exact Hi'.
    + rewrite cells_of_nth by exact Hi'. rewrite N2Nat.id. destruct (Hb i Hi). now apply cell_ok_at_sq.
  - exact (fo_hash _ _ _ _ F).
  - destruct H as (L1 & -> & _). rewrite R1. apply dec8_sub; [exact L1|apply default_pieces_lt].
  - destruct H as (_ & _ & L1 & -> & _). rewrite R2. apply dec8_sub; [exact L1|apply default_caps_lt].
  - destruct H as (_ & _ & _ & _ & L1 & -> & _). rewrite R3. apply dec8_sub; [exact L1|apply default_pieces_lt].
  - destruct H as (_ & _ & _ & _ & _ & _ & L1 & ->). rewrite R4. apply dec8_sub; [exact L1|apply default_caps_lt].
Qed.
