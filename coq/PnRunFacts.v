(* pn_verdict_sound for the entry point PnRun.pn_run (the constants of /repo, MaxDepth = 0 -> MaxInt16). *)
From Coq Require Import NArith ZArith List Bool.
Require Import Board Move GameOver AndOr AndOrS Pn PnRun PnFacts.
Require Import Generated.Consts.
Import ListNotations.
Open Scope N_scope.

Theorem pn_run_verdict_sound :
  forall iters dfuel maxnodes preserve maxdepth (p : position) root st result mv why,
    size p <= 8 ->
    pn_run iters dfuel maxnodes preserve maxdepth p = (root, st, result, mv, why) ->
    let aw := to_move_white p in
    let won q := exists n, wn position (succs gen_basis) (terminal aw) (attp aw) n q = true in
    (result = 1 -> won p /\ (mT mv <> 0 -> exists q, pmv gen_basis p mv = Ok q /\ In mv (all_moves p) /\ won q)) /\
    (result = 2 -> ~ ((0 <= eff_maxdepth maxdepth)%Z /\
                      Wb position pos_equal (succs gen_basis) (terminal aw) (attp aw) (Z.to_nat (eff_maxdepth maxdepth - 0)) [] p)).
Proof.
  intros iters dfuel maxnodes preserve maxdepth p root st result mv why Hs E.
  unfold pn_run in E.
  exact (pn_verdict_sound gen_basis _ _ p eq_refl Hs _ _ _ _ _ _ _ E).
Qed.

(* ---------- non-vacuity: the premises of pn_run_verdict_sound are met by actual runs ---------- *)
(* TPS "1,1,x/x,2,x/x,2,x 1 3": White to move completes the top row *)
Definition ex_won : position :=
  {| size := 3; black_wins_ties := false; whiteStones := 8; whiteCaps := 0; blackStones := 8; blackCaps := 0; move := 4;
     White := 192; Black := 18; Standing := 0; Caps := 0; Height := [0;1;0;0;1;0;1;1;0]; Stacks := [0;0;0;0;0;0;0;0;0];
     hash := 14695981039346656037 |}.
Example ex_proven :
  let '(_, _, result, mv, _) := pn_run 50 50 0 false 0 ex_won in result = 1 /\ mT mv <> 0 /\ size ex_won <= 8.
Proof. vm_compute. repeat split; discriminate. Qed.

(* 3x3 with one stone left each, White to move with a wall on the board: whatever White does does not win (case of the check) *)
Definition ex_lost : position :=
  {| size := 3; black_wins_ties := false; whiteStones := 1; whiteCaps := 0; blackStones := 1; blackCaps := 0; move := 4;
     White := 264; Black := 192; Standing := 8; Caps := 0; Height := [0;0;0;1;0;0;1;1;1]; Stacks := [0;0;0;0;0;0;0;0;0];
     hash := 14695981039346656037 |}.
Example ex_disproven :
  let '(_, _, result, _, _) := pn_run 50 50 1615 true 0 ex_lost in result = 2 /\ size ex_lost <= 8.
Proof. vm_compute. repeat split; discriminate. Qed.
