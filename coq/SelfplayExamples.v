(* SelfplayExamples.v: a whole 3x3 game of the selfplay worker model, both engines = the engine model of Tei.v with a toy searcher
   (the first legal flat placement in reading order), by computation. *)
From Coq Require Import NArith ZArith List Bool Lia String.
Require Import Board Move GameOver PtnMove Playtak Tps TeiBudget Tei TeiSpec TeiFacts TeiClient TeiClientFacts3.
Require Import Selfplay SelfplayFacts SelfplayFacts2 SelfplayFacts3 Refine Alloc Reach1.
Require Import Generated.Consts.
Import ListNotations.
Open Scope Z_scope.

Definition toy_cands : list rmove :=
  flat_map (fun y => map (fun x => {| Move.mX := x; Move.mY := y; Move.mT := 2%N; Move.mS := 0%N |}) [0; 1; 2]) [0; 1; 2].
Definition toy_search (s : unit) (limit : option Z) (p : position) : unit * (list rmove * Z * Z * Z) :=
  (tt, (match find (fun m => match tmove gen_basis p m with Move.Ok _ => true | _ => false end) toy_cands with
        | Some m => [m] | None => [] end, 0, 1, 1)).
Definition toy_mk (size : Z) : unit := tt.
Definition toy_eng := tei_proc gen_basis unit toy_mk toy_search.
Definition sx_cf : config := {| cf_cutoff := 30; cf_limit := 2000000000; cf_gametime := 60000000000; cf_increment := 1000000000 |}.
Definition sx_start : position := new_pos 3 false 10 0.
Definition sx_c0 := Eval vm_compute in fst (new_client (proc unit) toy_eng (proc0 unit)).
Definition sx_w0 : wstate (proc unit) (proc unit) := {| w_c1 := sx_c0; w_c2 := sx_c0 |}.
Definition sx_dur (j k : nat) : Z := 5000000 * Z.of_nat (S k).          (* the k-th call takes 5(k+1) ms *)
Definition sx_left (j k : nat) : Z := 1999000000.
Definition sx_games := [ {| sp_opening := sx_start; sp_p1white := true |}; {| sp_opening := sx_start; sp_p1white := false |} ].
Definition sx_run := Eval vm_compute in play_games (proc unit) (proc unit) toy_eng toy_eng gen_basis sx_cf sx_dur sx_left 0 sx_w0 sx_games.

(* the hypotheses of play_games_ok that do not concern the searcher hold of this configuration and opening *)
Example sx_opening_ok : opening_ok sx_cf sx_start.
Proof.
  split; [|split].
  - exists 3%N, []. split; [lia|]. split; [constructor|]. reflexivity.
  - exists GNone. vm_compute. reflexivity.
  - vm_compute. reflexivity.
Qed.
Example sx_sync : wsync unit unit sx_w0.
Proof. split; repeat split; try reflexivity; cbn; intros; discriminate. Qed.

(* both games are played to the end: nine plies each (the board fills up in reading order and White wins on flats), the winner is
   GameOver's, Moves replays the opening to the final position, and the two clients served both games *)
Example sx_result :
  match sx_run with
  | (w, [r1; r2], None) =>
    map (fun m => format_move false m) (r_moves r1) = map str ["a1"; "b1"; "c1"; "a2"; "b2"; "c2"; "a3"; "b3"; "c3"]%string /\
    r_moves r2 = r_moves r1 /\ game_over (r_position r1) = Some (true, r_winner r1) /\ r_winner r1 = GWhite /\
    replay sx_start (map to_rmove (r_moves r1)) = Move.Ok (r_position r1) /\
    c_gameid (w_c1 w) = 2 /\ c_gameid (w_c2 w) = 2
  | _ => False
  end.
Proof. vm_compute. repeat split. Qed.

(* a clock that runs out: with 20 ms on the clock and calls of 5, 10, 15 ... ms White's second call (15 ms) leaves 10 ms - 15 ms *)
Definition sx_cf_short : config := {| cf_cutoff := 30; cf_limit := 0; cf_gametime := 20000000; cf_increment := 0 |}.
Example sx_time_loss :
  match play_game (proc unit) (proc unit) toy_eng toy_eng gen_basis sx_cf_short (sx_dur 0) (sx_left 0) sx_w0 {| sp_opening := sx_start; sp_p1white := true |} with
  | (_, GDone r) => r_winner r = GBlack /\ List.length (r_moves r) = 2%nat /\ game_over (r_position r) = Some (false, GNone)
  | _ => False
  end.
Proof. vm_compute. repeat split. Qed.

(* the repaired client refuses a Limit below 1 ms: the worker dies in log.Fatalf *)
Example sx_limit_too_short :
  snd (play_game (proc unit) (proc unit) toy_eng toy_eng gen_basis
         {| cf_cutoff := 30; cf_limit := 900000; cf_gametime := 0; cf_increment := 0 |} (sx_dur 0) (fun _ => 899000) sx_w0
         {| sp_opening := sx_start; sp_p1white := true |}) = GFatal ETimeoutShort.
Proof. vm_compute. reflexivity. Qed.

(* Simulate's tally of the two games: White won both on flats; player 1 was White in the first and Black in the second *)
Example sx_tally :
  match sx_run with
  | (_, [r1; r2], None) => let st := tally [(true, r1); (false, r2)] in
      st_white st = 2 /\ stats_count st = 2 /\ ps_wins (st_p1 st) = 1 /\ ps_wins (st_p2 st) = 1 /\ ps_flat (st_p1 st) = 1 /\ ps_flat (st_p2 st) = 1 /\ ps_white (st_p2 st) = 1
  | _ => False
  end.
Proof. vm_compute. repeat split. Qed.

Example sx_all :
  opening_ok sx_cf sx_start /\ wsync unit unit sx_w0 /\
  (match sx_run with
   | (w, [r1; r2], None) =>
     map (fun m => format_move false m) (r_moves r1) = map str ["a1"; "b1"; "c1"; "a2"; "b2"; "c2"; "a3"; "b3"; "c3"]%string /\
     r_moves r2 = r_moves r1 /\ game_over (r_position r1) = Some (true, r_winner r1) /\ r_winner r1 = GWhite /\
     replay sx_start (map to_rmove (r_moves r1)) = Move.Ok (r_position r1) /\
     c_gameid (w_c1 w) = 2 /\ c_gameid (w_c2 w) = 2
   | _ => False
   end) /\
  snd (play_game (proc unit) (proc unit) toy_eng toy_eng gen_basis
         {| cf_cutoff := 30; cf_limit := 900000; cf_gametime := 0; cf_increment := 0 |} (sx_dur 0) (fun _ => 899000) sx_w0
         {| sp_opening := sx_start; sp_p1white := true |}) = GFatal ETimeoutShort.
Proof. exact (conj sx_opening_ok (conj sx_sync (conj sx_result sx_limit_too_short))). Qed.
