(* CountThreats, part 4 (C19): a positive placement count of the side to move yields a legal placement after which
   the engine reports a road win of the mover. *)
From Coq Require Import NArith ZArith List Bool Lia ZifyN ZifyBool ZifyNat.
Require Import Board Flood Masks LowBit Conn Move GameOver Groups1 Groups2 Groups3 Groups4 Rules Refine RefinePlace
  Slide2 Slide3 Slide6 Preserve1 GameOverFacts1 GameOverFacts2 GameOverFacts5
  Eval EvalSpec EvalFacts1 Threats ThreatsFacts1 ThreatsFacts2 ThreatsFacts3.
Import ListNotations.
Open Scope N_scope.

(* the engine reports: game over, by road, won by col *)
Definition road_win (p : position) (col : gcolor) : Prop :=
  exists d, win_details p = Some d /\ wd_over d = true /\ wd_road d = true /\ wd_winner d = col.

(* some term of the sum is positive when the sum grows *)
Lemma tsum_pos one l i0 acc : (fst acc < fst (tsum one i0 l acc))%Z ->
  exists k g, nth_error l k = Some g /\ (0 < fst (one (i0 + k)%nat g))%Z.
Proof.
  revert i0 acc. induction l as [|g l IH]; intros i0 acc H; cbn [tsum] in H; [lia|].
  destruct (one i0 g) as [a b] eqn:E.
  destruct (Z.ltb_spec 0 a) as [L|L].
  - exists 0%nat, g. split; [reflexivity|]. rewrite Nat.add_0_r, E. exact L.
  - destruct (IH (S i0) (fst acc + a, snd acc + b)%Z) as (k & g' & Hk & Hp).
    + cbn [fst]. lia.
    + exists (S k), g'. split; [exact Hk|]. replace (i0 + S k)%nat with (S i0 + k)%nat by lia. exact Hp.
Qed.
Lemma pc_pos_bit x : (0 < pc x)%Z -> exists i, N.testbit x i = true.
Proof.
  intro H. destruct (N.eq_dec x 0) as [->|Hn]; [cbv in H; discriminate|]. exists (N.log2 x). now apply N.bit_log2.
Qed.

Definition gcol (c : colour) : gcolor := match c with Rules.White => GWhite | Rules.Black => GBlack end.

Lemma mask_bit_lt s i : 3 <= s <= 8 -> N.testbit (cMask (precompute s)) i = true -> i < s * s.
Proof.
  intros Hs H. destruct (masks_high s (in_sizes s Hs)) as [Hm _].
  assert (Hi : i < 64). { destruct (N.ltb_spec i 64); [assumption|]. rewrite (lt_hi0 64 _ Hm i) in H by assumption. discriminate. }
  destruct (precompute_masks s i Hs Hi) as (_ & _ & _ & _ & E). rewrite E in H. lia.
Qed.

Lemma ldiff_lor_bit W S i : N.testbit S i = false -> N.ldiff (N.lor W (bit1 i)) S = N.lor (N.ldiff W S) (bit1 i).
Proof.
  intro H. apply N.bits_inj. intro j. rewrite N.ldiff_spec, !N.lor_spec, N.ldiff_spec, testbit_bit1.
  destruct (N.eqb_spec j i) as [->|].
  - rewrite H. destruct (N.testbit W i); reflexivity.
  - destruct (N.testbit W j), (N.testbit S j); reflexivity.
Qed.

Section Place.
Variable p : position.
Hypothesis I : inv p.
Hypothesis Hmv : (2 <= move p)%Z.
Let s := size p.
Let c := precompute s.
Variable col : colour.
Hypothesis Htm : to_move_white p = match col with Rules.White => true | Rules.Black => false end.
Let W := cword p col.
Let B := road_bits p col.
Let pieces := andnot W (N.lor (Move.Standing p) (Caps p)).
Variable gs : list N.
Hypothesis Hg : groups c B = Some gs.

Lemma Hs : 3 <= s <= 8. Proof. destruct I; assumption. Qed.
Lemma HB : forall i, N.testbit B i = true -> i < s * s.
Proof. intros i H. unfold B, road_bits in H. rewrite N.ldiff_spec in H. apply andb_prop in H as [H _]. exact (cword_below p I col i H). Qed.
Lemma HBo : forall i, N.testbit (road_bits p (flip col)) i = true -> i < s * s.
Proof. intros i H. unfold road_bits in H. rewrite N.ldiff_spec in H. apply andb_prop in H as [H _]. exact (cword_below p I (flip col) i H). Qed.
Lemma Hp : forall i, N.testbit pieces i = true -> N.testbit B i = true.
Proof.
  intros i H. unfold pieces, andnot in H. unfold B, road_bits. fold W. rewrite N.ldiff_spec in H. rewrite N.ldiff_spec. rewrite N.lor_spec in H.
  destruct (N.testbit W i), (N.testbit (Move.Standing p) i); cbn [andb orb negb] in H |- *; auto; discriminate.
Qed.
Lemma He : forall i, N.testbit (t_empty c p) i = true -> N.testbit B i = false /\ i < s * s.
Proof.
  intros i H. unfold t_empty, andnot in H. rewrite N.ldiff_spec, N.lor_spec in H. apply andb_prop in H as [Hm Ho].
  split; [|exact (mask_bit_lt s i Hs Hm)].
  unfold B, road_bits, cword. rewrite N.ldiff_spec. apply negb_true_iff, orb_false_elim in Ho as [H1 H2].
  destruct col; [rewrite H1|rewrite H2]; reflexivity.
Qed.

Hypothesis Hres : 0 < place_reserve p KFlat \/ 0 < place_reserve p KCap.
Hypothesis Hcnt : (0 < fst (count_one c p gs pieces))%Z.

Theorem place_wins : exists m p', mv p m = Ok p' /\ road_win p' (gcol col).
Proof.
  (* a square of some group's placement map *)
  pose proof Hcnt as Hc. rewrite count_one_eq in Hc.
  destruct (tsum_pos (tcount c p gs pieces) gs 0%nat (0, 0)%Z Hc) as (k & g & Hk & Hpos). cbn [Nat.add] in Hpos.
  unfold tcount in Hpos. pose proof (pmap_sound s Hs p B HB gs Hg pieces Hp He k g Hk) as PS. fold c in PS.
  destruct (tmaps c p gs pieces k g) as [pm tm]. cbn [fst] in *.
  destruct (pc_pos_bit pm Hpos) as (i & Hbit).
  destruct (PS i Hbit) as (Hi & Hemp & HiB & gs' & Hg' & Hsp).
  assert (Hi64 : i < 64) by (pose proof Hs; nia).
  (* the square is empty *)
  assert (Hocc : N.testbit (N.lor (Move.White p) (Move.Black p)) i = false).
  { unfold t_empty, andnot in Hemp. rewrite N.ldiff_spec in Hemp. apply andb_prop in Hemp as [_ H]. now apply negb_true_iff in H. }
  destruct I as [Hsz [HLH HLS Hsq] Hbw Hbb Hrw Hrb]. fold s in Hsz, Hsq, Hbw, Hbb.
  destruct (Hsq i Hi) as [_ Hso _ Htop _]. cbn [bview bhs bw bb bs bc] in Hso, Htop.
  assert (Hh0 : nthN (Height p) i = 0).
  { apply Hso. rewrite !has_spec by assumption. rewrite N.lor_spec in Hocc. now apply orb_false_elim in Hocc. }
  destruct (Htop Hh0) as [HS _]. rewrite has_spec in HS by assumption.
  (* the move *)
  set (k0 := if (0 <? place_reserve p KFlat) then KFlat else KCap).
  assert (Hk0 : k0 <> KNone) by (subst k0; destruct (0 <? _); discriminate).
  assert (Hr0 : 0 < place_reserve p k0) by (subst k0; destruct (N.ltb_spec 0 (place_reserve p KFlat)); [assumption|lia]).
  assert (Hst : Move.Standing (placed p k0 i) = Move.Standing p) by (subst k0; destruct (0 <? _); reflexivity).
  set (m := {| mX := Z.of_N (i mod s); mY := Z.of_N (i / s); mT := kind_code k0; mS := 0 |}).
  assert (Hs0 : s <> 0) by lia.
  assert (Hx : (0 <= mX m < Z.of_N (size p))%Z).
  { unfold m; cbn [mX]. fold s. pose proof (N.mod_lt i s Hs0) as Hm. revert Hm. generalize (i mod s). intros r Hm. lia. }
  assert (Hy : (0 <= mY m < Z.of_N (size p))%Z).
  { unfold m; cbn [mY]. fold s. assert (Hd : i / s < s) by (apply N.div_lt_upper_bound; lia). revert Hd. generalize (i / s). intros q Hd. lia. }
  destruct (sq_index_on_board p (mX m) (mY m) Hsz Hx Hy) as [Ei _].
  assert (Eidx : sq_index p (mX m) (mY m) = i).
  { rewrite Ei. unfold m; cbn [mX mY]. fold s. pose proof (N.div_mod i s Hs0) as Hdm. revert Hdm. generalize (i mod s), (i / s). intros r q Hdm. nia. }
  exists m, (placed p k0 i). split.
  { rewrite (mv_place_char p m k0 Hsz HLH Hk0 eq_refl). unfold off_board.
    replace ((mX m <? 0)%Z || (Z.of_N (size p) <=? mX m)%Z || (mY m <? 0)%Z || (Z.of_N (size p) <=? mY m)%Z) with false by lia.
    replace (move p <? 2)%Z with false by lia. cbn [andb]. cbv zeta. rewrite Eidx.
    rewrite has_spec, Hocc by assumption. replace (place_reserve p k0 <=? 0) with false by lia. reflexivity. }
  (* the successor's road bits *)
  set (p' := placed p k0 i) in *.
  assert (Hpw : place_white p = match col with Rules.White => true | Rules.Black => false end).
  { unfold place_white. replace (move p <? 2)%Z with false by lia. exact Htm. }
  assert (Hsize : size p' = s) by reflexivity.
  assert (Hbits : road_bits p' col = N.lor B (bit1 i) /\ road_bits p' (flip col) = road_bits p (flip col)).
  { unfold road_bits, cword. rewrite Hst. subst p'. unfold placed. cbn [Move.White Move.Black]. rewrite Hpw.
    unfold setb. rewrite (bit_lt i Hi64). change (N.shiftl 1 i) with (bit1 i).
    destruct col; cbn [flip]; split; try reflexivity; apply ldiff_lor_bit; assumption. }
  destruct Hbits as [Hb1 Hb2].
  destruct (groups_spec s Hsz (road_bits p (flip col)) HBo) as (go & Hgo & _).
  assert (Htm' : to_move_white p' = negb (to_move_white p)).
  { unfold to_move_white. unfold p', placed. cbn [move]. rewrite Z.even_add. cbn. destruct (Z.even (move p)); reflexivity. }
  assert (Han : analyze p' = Some (match col with Rules.White => (gs', go) | Rules.Black => (go, gs') end)).
  { unfold analyze. rewrite Hsize. unfold road_bits, cword in Hb1, Hb2, Hgo.
    destruct col; cbn [flip] in *; rewrite Hb1, Hb2, Hg', Hgo; reflexivity. }
  assert (Hroad : has_road p' (fst (match col with Rules.White => (gs', go) | Rules.Black => (go, gs') end))
                             (snd (match col with Rules.White => (gs', go) | Rules.Black => (go, gs') end)) = Some (gcol col)).
  { unfold has_road. rewrite Hsize. rewrite Htm', Htm. destruct col; cbn [fst snd gcol negb]; rewrite Hsp; cbn [andb].
    - destruct (existsb (spans (precompute s)) go); reflexivity.
    - destruct (existsb (spans (precompute s)) go); reflexivity. }
  unfold road_win, win_details, game_over. rewrite Han.
  destruct col; cbn [fst snd] in Hroad; rewrite Hroad; destruct (count_flats p') as [wf bf];
    eexists; (split; [reflexivity|]); repeat split; reflexivity.
Qed.
End Place.

Lemma threats_some p wp wtt bp btt : threats p = Some (wp, wtt, bp, btt) ->
  exists wg bg,
    groups (precompute (size p)) (N.ldiff (Move.White p) (Move.Standing p)) = Some wg /\
    groups (precompute (size p)) (N.ldiff (Move.Black p) (Move.Standing p)) = Some bg /\
    count_one (precompute (size p)) p wg (andnot (Move.White p) (N.lor (Move.Standing p) (Caps p))) = (wp, wtt) /\
    count_one (precompute (size p)) p bg (andnot (Move.Black p) (N.lor (Move.Standing p) (Caps p))) = (bp, btt).
Proof.
  unfold threats, analyze, count_threats.
  destruct (groups (precompute (size p)) (N.ldiff (Move.White p) (Move.Standing p))) as [wg|]; [|discriminate].
  destruct (groups (precompute (size p)) (N.ldiff (Move.Black p) (Move.Standing p))) as [bg|]; [|discriminate].
  destruct (count_one _ p wg _) as [a b] eqn:Ca. destruct (count_one _ p bg _) as [a' b'] eqn:Cb.
  intros [= <- <- <- <-]. exists wg, bg. repeat split; assumption.
Qed.

(* C19, placement half: whenever CountThreats reports a road-completing PLACEMENT for the side to move (ply >= 2, the
   mover still has a piece), there is a legal move after which the engine reports a road win of the mover. *)
Theorem threats_place_sound : forall p wp wtt bp btt, inv p -> (2 <= move p)%Z -> threats p = Some (wp, wtt, bp, btt) ->
  (to_move_white p = true -> (0 < wp)%Z -> 0 < whiteStones p \/ 0 < whiteCaps p ->
     exists m p', mv p m = Ok p' /\ road_win p' GWhite) /\
  (to_move_white p = false -> (0 < bp)%Z -> 0 < blackStones p \/ 0 < blackCaps p ->
     exists m p', mv p m = Ok p' /\ road_win p' GBlack).
Proof.
  intros p wp wtt bp btt I Hmv T.
  destruct (threats_some p wp wtt bp btt T) as (wg & bg & Gw & Gb & Cw & Cb).
  assert (Hpw : place_white p = to_move_white p) by (unfold place_white; replace (move p <? 2)%Z with false by lia; reflexivity).
  split; intros Htm Hpos Hres.
  - assert (R1 : 0 < place_reserve p KFlat \/ 0 < place_reserve p KCap) by (unfold place_reserve; rewrite Hpw, Htm; exact Hres).
    assert (R2 : (0 < fst (count_one (precompute (size p)) p wg (andnot (cword p Rules.White) (N.lor (Move.Standing p) (Caps p)))))%Z)
      by (unfold cword; rewrite Cw; exact Hpos).
    exact (place_wins p I Hmv Rules.White Htm wg Gw R1 R2).
  - assert (R1 : 0 < place_reserve p KFlat \/ 0 < place_reserve p KCap) by (unfold place_reserve; rewrite Hpw, Htm; exact Hres).
    assert (R2 : (0 < fst (count_one (precompute (size p)) p bg (andnot (cword p Rules.Black) (N.lor (Move.Standing p) (Caps p)))))%Z)
      by (unfold cword; rewrite Cb; exact Hpos).
    exact (place_wins p I Hmv Rules.Black Htm bg Gb R1 R2).
Qed.

(* non-vacuity: 3x3 after four plies, White to move with two flats in the bottom row and the third square empty *)
Definition M t x y sl := {| mX := x; mY := y; mT := t; mS := sl |}.
Definition play (p : position) (ms : list rmove) : position :=
  fold_left (fun q m => match mv q m with Ok r => r | _ => q end) ms p.
Definition ex_threat : position := play (new 3 10 0) [M 2 2 2 0; M 2 0 0 0; M 2 1 0 0; M 2 2 1 0]%Z%N.
Example threats_place_nonvacuous :
  GameOverFacts5.invb ex_threat = true /\ move ex_threat = 4%Z /\ to_move_white ex_threat = true /\
  threats ex_threat = Some (1, 0, 1, 0)%Z /\ whiteStones ex_threat = 8 /\
  game_over ex_threat = Some (false, GNone) /\
  match mv ex_threat (M 2 2 0 0)%Z%N with Ok q => win_details q | _ => None end =
    Some {| wd_over := true; wd_road := true; wd_winner := GWhite; wd_wflats := 3; wd_bflats := 2 |}.
Proof.
  split; [vm_compute; reflexivity|]. split; [vm_compute; reflexivity|]. split; [vm_compute; reflexivity|].
  split; [vm_compute; reflexivity|]. split; [vm_compute; reflexivity|]. split; [vm_compute; reflexivity|].
  vm_compute; reflexivity.
Qed.
