(* C14, custom configurations, part 2: the images symmetry.Symmetries rebuilds with p.Config() (SymmetryCfg.image_cfg).
   stones caps: Config().Pieces / Config().Capstones of the position (not fields of the model's position record);
   size and the tie-break flag are p's own.
   image_cfg_set          the image under the configuration is the default-configuration image with reserves and flag replaced
   image_cfg_pos_ok       for ANY coordinate map and ANY configuration the rebuilt position satisfies the C01 invariant
   image_cfg_matches      ... and its reserves are the configuration's counts minus the pieces on its board (byte arithmetic)
   image_cfg_abs          for the k-th symmetry it abstracts to SymRules2.img k (abs p) - flag included - when p's own reserves
                          are the configuration's counts minus the pieces on p's board (reserves_match_cfg: what tak.New
                          establishes and every move preserves; implied by conservation `cons4 (abs p) = configuration`,
                          PnCong3.cinv's clause).  No hypothesis on the flag any more. *)
From Coq Require Import NArith ZArith Arith List Bool Lia ZifyN ZifyBool ZifyNat Permutation.
Require Import Rules Sym SymRules1 SymRules2.
Require Import Board Stack Move Refine Slide2 MoveRefines HashInv GameOver Preserve1 Preserve5 Preserve6.
Require Import Generated.Consts.
Require Import PtnMove Playtak Tps TpsCfg Symmetry SymmetryCfg SymCode1 TpsFacts TpsFacts2 TpsFacts3 TpsFacts4 TpsFacts5 TpsFacts6 TpsFacts8 TpsFacts9
  Import1 Import3 Import4 ImportCfg1.
Import ListNotations.
Close Scope Z_scope. Close Scope N_scope.

Lemma image_cfg_unfold basis stones caps p s :
  image_cfg basis stones caps p s =
  from_squares_cfg basis (size p) stones caps (Move.black_wins_ties p) (img_board p s) (Move.move p).
Proof. reflexivity. Qed.

(* the reserves a configuration leaves to a position showing p's board *)
Definition cfg_reserves_p (stones caps : N) (p : position) : N * N * N * N :=
  cfg_reserves (N.to_nat (size p)) stones caps (concat (cells_of p)).

(* p's reserves are the configuration's counts minus the pieces on its board (bytes: modulo 256) *)
Definition reserves_match_cfg (stones caps : N) (p : position) : Prop :=
  (whiteStones p, whiteCaps p, blackStones p, blackCaps p) = cfg_reserves_p stones caps p.

Theorem image_cfg_set stones caps p s : pos_ok p ->
  image_cfg gen_basis stones caps p s =
  set_cfg (image gen_basis p s) (Move.black_wins_ties p)
          (cfg_reserves (N.to_nat (size p)) stones caps (pieces_of (img_board p s))).
Proof.
  intros Hp. rewrite image_cfg_unfold, image_eq. rewrite <- (N2Nat.id (size p)) at 1.
  now rewrite (fsc_set _ stones caps _ _ _ (img_board_fit p s Hp)).
Qed.

Theorem image_cfg_pos_ok stones caps p s : pos_ok p -> pos_ok (image_cfg gen_basis stones caps p s).
Proof.
  intros Hp. rewrite image_cfg_unfold. rewrite <- (N2Nat.id (size p)).
  apply from_squares_cfg_pos_ok. now apply img_board_fit.
Qed.
Print Assumptions image_cfg_pos_ok.

Lemma image_cfg_fields stones caps p s : pos_ok p ->
  let q := image_cfg gen_basis stones caps p s in
  size q = size p /\ Move.move q = Move.move p /\ Move.black_wins_ties q = Move.black_wins_ties p /\
  bview q = bview (image gen_basis p s) /\ hash_of q = hash_of (image gen_basis p s).
Proof.
  intros Hp q. subst q. rewrite (image_cfg_set stones caps p s Hp). destruct (image_fields p s Hp) as (E1 & E2 & _).
  cbn [set_cfg size Move.move Move.black_wins_ties]. rewrite set_cfg_bview, set_cfg_hash_of. auto.
Qed.

(* the k-th image: the pieces on the rebuilt board are p's *)
Lemma image_cfg_csym stones caps k p : k < 8 -> pos_ok p ->
  image_cfg gen_basis stones caps p (csym (N.to_nat (size p)) k) =
  set_cfg (image gen_basis p (csym (N.to_nat (size p)) k)) (Move.black_wins_ties p) (cfg_reserves_p stones caps p).
Proof.
  intros Hk Hp. rewrite (image_cfg_set stones caps p _ Hp). f_equal.
  unfold cfg_reserves_p, cfg_reserves. rewrite !(image_counts k p) by assumption. reflexivity.
Qed.

Lemma set_cfg_cells q b r : cells_of (set_cfg q b r) = cells_of q.
Proof. reflexivity. Qed.

(* the cells of a rebuilt image are the permuted cells of p *)
Lemma image_cells k p : k < 8 -> pos_ok p ->
  Permutation (cells_of (image gen_basis p (csym (N.to_nat (size p)) k))) (cells_of p).
Proof.
  intros Hk Hp. pose proof (po_size _ Hp) as Hs.
  assert (Hso : size_ok (N.to_nat (size p))) by (unfold size_ok; lia).
  set (s := csym (N.to_nat (size p)) k).
  pose proof (img_board_fit p s Hp) as FB.
  destruct (canon_facts gen_basis _ _ (Move.move p) (fit_valid _ _ FB)) as (_ & _ & _ & Eb).
  rewrite image_eq. rewrite <- cells_board, Eb, flat_map_id_concat. subst s. rewrite (img_board_cells p k Hk Hso).
  apply permL_perm; try assumption. apply cells_of_length.
Qed.

Lemma image_on_board f k p : k < 8 -> pos_ok p ->
  count f (concat (cells_of (image gen_basis p (csym (N.to_nat (size p)) k)))) = count f (concat (cells_of p)).
Proof. intros Hk Hp. apply count_concat_perm. now apply image_cells. Qed.

(* the image's reserves match the configuration - whatever p's reserves are *)
Lemma cfg_reserves_p_set stones caps q b r : cfg_reserves_p stones caps (set_cfg q b r) = cfg_reserves_p stones caps q.
Proof. reflexivity. Qed.

Lemma cfg_reserves_p_image stones caps k p : k < 8 -> pos_ok p ->
  cfg_reserves_p stones caps (image gen_basis p (csym (N.to_nat (size p)) k)) = cfg_reserves_p stones caps p.
Proof.
  intros Hk Hp. unfold cfg_reserves_p, cfg_reserves.
  destruct (image_fields p (csym (N.to_nat (size p)) k) Hp) as (E1 & _). rewrite E1.
  rewrite !(image_on_board _ k p) by assumption. reflexivity.
Qed.

Theorem image_cfg_matches stones caps k p : k < 8 -> pos_ok p ->
  reserves_match_cfg stones caps (image_cfg gen_basis stones caps p (csym (N.to_nat (size p)) k)).
Proof.
  intros Hk Hp. rewrite (image_cfg_csym stones caps k p Hk Hp). unfold reserves_match_cfg.
  rewrite cfg_reserves_p_set, (cfg_reserves_p_image stones caps k p Hk Hp).
  cbn [set_cfg whiteStones whiteCaps blackStones blackCaps].
  now destruct (cfg_reserves_p stones caps p) as [[[? ?] ?] ?].
Qed.
Print Assumptions image_cfg_matches.

(* ---- the abstraction ---- *)
Theorem image_cfg_abs_board stones caps k p : k < 8 -> pos_ok p ->
  let q := image_cfg gen_basis stones caps p (csym (N.to_nat (size p)) k) in
  Rules.n (abs q) = Rules.n (img k (abs p)) /\ sq (abs q) = sq (img k (abs p)) /\ ply (abs q) = ply (img k (abs p)) /\
  Rules.black_wins_ties (abs q) = Rules.black_wins_ties (img k (abs p)).
Proof.
  intros Hk Hp q. subst q. rewrite (image_cfg_csym stones caps k p Hk Hp).
  destruct (image_abs_board k p Hk Hp) as (A & B & C). cbv zeta in A, B, C. auto.
Qed.

Theorem image_cfg_abs stones caps k p : k < 8 -> pos_ok p -> reserves_match_cfg stones caps p ->
  abs (image_cfg gen_basis stones caps p (csym (N.to_nat (size p)) k)) = img k (abs p).
Proof.
  intros Hk Hp RM. rewrite (image_cfg_csym stones caps k p Hk Hp).
  destruct (image_abs_board k p Hk Hp) as (A & B & C). cbv zeta in A, B, C.
  unfold reserves_match_cfg in RM. rewrite <- RM.
  set (q := image gen_basis p (csym (N.to_nat (size p)) k)) in *.
  unfold abs in A, B, C |- *. unfold img in A, B, C |- *. cbn [Rules.n sq ply wstones wcaps bstones bcaps Rules.black_wins_ties] in *.
  cbn [set_cfg size whiteStones whiteCaps blackStones blackCaps Move.move Move.black_wins_ties fst snd].
  change (map (fun i => abs_stack (set_cfg q (Move.black_wins_ties p) (whiteStones p, whiteCaps p, blackStones p, blackCaps p)) (N.of_nat i)))
    with (map (fun i => abs_stack q (N.of_nat i))).
  rewrite B, C. rewrite A at 1. reflexivity.
Qed.
Print Assumptions image_cfg_abs.

Corollary image_cfg_abs_nth stones caps k p : k < 8 -> pos_ok p -> reserves_match_cfg stones caps p ->
  abs (image_cfg gen_basis stones caps p (nth k (syms (Z.of_N (size p))) (fun x y => (x, y)))) = img k (abs p).
Proof. intros. rewrite nth_syms_csym. now apply image_cfg_abs. Qed.

(* ---- conservation (PnCong3.cinv's clause) implies reserves_match_cfg ---- *)
Lemma dec8_of_sum a w c : (w + c = a)%N -> (a < 256)%N -> w = dec8 a c.
Proof. intros E L. rewrite dec8_sub by lia. lia. Qed.

Theorem cons4_matches stones caps p : pos_ok p ->
  cons4 (abs p) = (cfgS (N.to_nat (size p)) stones, cfgC (N.to_nat (size p)) caps, cfgS (N.to_nat (size p)) stones, cfgC (N.to_nat (size p)) caps) ->
  reserves_match_cfg stones caps p.
Proof.
  intros Hp E. pose proof (pos_ok_rep_ok p Hp) as R. pose proof (po_size _ Hp) as Hs.
  unfold reserves_match_cfg, cfg_reserves_p, cfg_reserves.
  change (count is_ws (concat (cells_of p))) with (TpsFacts5.on_board is_ws p).
  change (count is_wc (concat (cells_of p))) with (TpsFacts5.on_board is_wc p).
  change (count is_bs (concat (cells_of p))) with (TpsFacts5.on_board is_bs p).
  change (count is_bc (concat (cells_of p))) with (TpsFacts5.on_board is_bc p).
  rewrite !(on_board_abs _ p R Hs).
  change (fun x => is_ws (pc_of x)) with a_ws. change (fun x => is_wc (pc_of x)) with a_wc.
  change (fun x => is_bs (pc_of x)) with a_bs. change (fun x => is_bc (pc_of x)) with a_bc.
  unfold cons4 in E. unfold abs in E at 1 3 5 7. cbn [wstones wcaps bstones bcaps] in E.
  injection E as E1 E2 E3 E4.
  pose proof (cfgS_lt (N.to_nat (size p)) stones). pose proof (cfgC_lt (N.to_nat (size p)) caps).
  repeat (match goal with |- (_, _) = (_, _) => f_equal end); apply dec8_of_sum; assumption.
Qed.

(* ---- preserved by every move that refines the rules ---- *)
Lemma dec8_shift a c c' w w' : w = dec8 a c -> (w' + c' = w + c)%N -> (w' < 256)%N -> w' = dec8 a c'.
Proof.
  unfold dec8. intros -> E L.
  assert (H : ((a + 255 * c) mod 256 < 256)%N) by (apply N.mod_upper_bound; lia).
  assert (H' : ((a + 255 * c') mod 256 < 256)%N) by (apply N.mod_upper_bound; lia).
  pose proof (N.div_mod (a + 255 * c) 256 ltac:(lia)). pose proof (N.div_mod (a + 255 * c') 256 ltac:(lia)).
  set (r := ((a + 255 * c) mod 256)%N) in *. set (r' := ((a + 255 * c') mod 256)%N) in *.
  set (d := ((a + 255 * c) / 256)%N) in *. set (d' := ((a + 255 * c') / 256)%N) in *.
  clearbody r r' d d'. lia.
Qed.

Theorem move_matches_cfg stones caps p m p' : pos_ok p -> pos_ok p' -> reserves_match_cfg stones caps p ->
  rules_move (abs p) (raw m) = Some (abs p') -> size p' = size p -> reserves_match_cfg stones caps p'.
Proof.
  intros Hp Hp' RM Hr Es.
  pose proof (pos_ok_rep_ok p Hp) as R. pose proof (po_size _ Hp) as Hs.
  pose proof (pos_ok_rep_ok p' Hp') as R'. pose proof (po_size _ Hp') as Hs'.
  destruct (rules_move_cons4 (abs p) (raw m) (abs p')) as (C & _); [|exact Hr|].
  { unfold abs. cbn [sq Rules.n]. now rewrite map_length, seq_length. }
  unfold reserves_match_cfg, cfg_reserves_p, cfg_reserves in *. rewrite Es.
  change (count ?f (concat (cells_of ?x))) with (TpsFacts5.on_board f x) in *.
  rewrite !(on_board_abs _ p R Hs) in RM. rewrite !(on_board_abs _ p' R' Hs').
  change (fun x => is_ws (pc_of x)) with a_ws in *. change (fun x => is_wc (pc_of x)) with a_wc in *.
  change (fun x => is_bs (pc_of x)) with a_bs in *. change (fun x => is_bc (pc_of x)) with a_bc in *.
  unfold cons4 in C. unfold abs in C at 1 3 5 7 9 11 13 15. cbn [wstones wcaps bstones bcaps] in C.
  injection C as C1 C2 C3 C4. injection RM as R1 R2 R3 R4.
  destruct Hp' as [_ _ (B1 & B2 & B3 & B4) _].
  repeat (match goal with |- (_, _) = (_, _) => f_equal end).
  - exact (dec8_shift _ _ _ _ _ R1 C1 B1).
  - exact (dec8_shift _ _ _ _ _ R2 C2 B2).
  - exact (dec8_shift _ _ _ _ _ R3 C3 B3).
  - exact (dec8_shift _ _ _ _ _ R4 C4 B4).
Qed.
Print Assumptions move_matches_cfg.
