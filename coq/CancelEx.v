(* CancelEx.v: the cancellation theorems are not vacuous — concrete runs of the instantiated model (constants regenerated from /repo),
   evaluated by vm_compute: the empty 3x3 board, winner-only evaluation, NoSort, precise, no table, depth 2 (10 + 82 leaf evaluations). *)
From Coq Require Import NArith ZArith List Bool.
Require Import Board Move GameOver Eval Search SearchC SearchInst.
Import ListNotations.
Open Scope Z_scope.

Definition start3 : position :=
  {| size := 3; black_wins_ties := false; whiteStones := 10; whiteCaps := 0; blackStones := 10; blackCaps := 0;
     move := 0; White := 0; Black := 0; Standing := 0; Caps := 0;
     Height := repeat 0%N 9; Stacks := repeat 0%N 9; hash := fnvBasis |}.
Definition cfg_ex := mk_cfg 2 true true true false 1.
Definition obs (r : ares) := let '(_, (pv, v, d, _, c)) := r in (pv, v, d, c).
Definition a1 := {| mX := 0; mY := 0; mT := 2; mS := 0 |}.
Definition a2 := {| mX := 0; mY := 1; mT := 2; mS := 0 |}.

(* cancelled inside the 20th leaf evaluation: the first iteration (9 leaves) is complete, the second is discarded *)
Lemma ex_cancel_mid : obs (run_analyze cfg_ex 20 (new_state 0) start3) = ([a1], 0, 1, true).
Proof. vm_compute. reflexivity. Qed.
(* cancelled inside the 5th leaf evaluation: nothing complete, no move *)
Lemma ex_cancel_early : obs (run_analyze cfg_ex 5 (new_state 0) start3) = ([], 0, 0, true).
Proof. vm_compute. reflexivity. Qed.
(* never cancelled *)
Lemma ex_uninterrupted : obs (run_analyze cfg_ex 0 (new_state 0) start3) = ([a1; a2], 0, 2, false).
Proof. vm_compute. reflexivity. Qed.
(* the uninterrupted run limited to depth 1 *)
Lemma ex_limited_1 : obs (analyze_limited Generated.Consts.gen_basis cfg_ex 1 (new_state 0) start3) = ([a1], 0, 1, false).
Proof. vm_compute. reflexivity. Qed.

(* the hypotheses of cancel_truncates / cancel_deepest / cancel_no_move_fresh are satisfiable with a real cancellation *)
Lemma cancel_nonvacuous :
  (exists sk pv v d acc,
     analyze_cancel Generated.Consts.gen_basis cfg_ex 20 (new_state 0) start3 = (sk, (pv, v, d, acc, true)) /\ 0 < d /\ pv <> []) /\
  (exists sk pv v acc,
     analyze_cancel Generated.Consts.gen_basis cfg_ex 5 (new_state 0) start3 = (sk, (pv, v, 0, acc, true))).
Proof.
  split.
  - do 5 eexists. split; [vm_compute; reflexivity|]. split; [reflexivity|discriminate].
  - do 4 eexists. vm_compute; reflexivity.
Qed.
