From Coq Require Import NArith ZArith Arith List Bool Lia ZifyN ZifyBool ZifyNat.
Require Import Board Stack Rules Move Refine RefinePlace RefinePlace2 Slide1.
Import ListNotations.
Ltac Zify.zify_post_hook ::= Z.div_mod_to_equations.

(* ---- piece-level views ---- *)
Definition colour_of (b : bool) : colour := if b then Rules.Black else Rules.White.
Definition kind_of (standing cap : bool) : kind := if standing then Rules.Standing else if cap then Rules.Cap else Rules.Flat.
Definition flats (cs : list bool) : list piece := map (fun c => (colour_of c, Rules.Flat)) cs.

Definition abs_stack_b (b : bstate) (i : N) : list piece :=
  let h := nthN (bhs b) i in
  if (h =? 0)%N then [] else
  (colour_of (has (bb b) i), kind_of (has (bs b) i) (has (bc b) i)) :: flats (bits (N.to_nat h - 1) (nthN (bst b) i)).

Definition bview (p : position) : bstate :=
  {| bw := White p; bb := Move.Black p; bs := Standing p; bc := Caps p; bhs := Height p; bst := Stacks p; bh := hash p |}.

Lemma abs_stack_bview p i : abs_stack p i = abs_stack_b (bview p) i.
Proof.
  unfold abs_stack, abs_stack_b, bview; cbn [bhs bst bb bs bc bw]. destruct (nthN (Height p) i =? 0)%N; [reflexivity|].
  unfold colour_of, kind_of. f_equal. unfold flats, bits. rewrite map_map. reflexivity.
Qed.

Definition rkind (k : pkind) : kind := match k with KStanding => Rules.Standing | KCap => Rules.Cap | _ => Rules.Flat end.

(* the carried pieces, top first: colours are the low ct bits of `stack`, only the first keeps its kind *)
Definition carried (topk : pkind) (stack : N) (ct : nat) : list piece :=
  match bits ct stack with [] => [] | c0 :: cs => (colour_of c0, rkind topk) :: flats cs end.

Lemma bits_S k x : bits (S k) x = bits k x ++ [N.testbit x (N.of_nat k)].
Proof. unfold bits. rewrite seq_S, map_app. reflexivity. Qed.

Lemma firstn_bits k n x : (k <= n)%nat -> firstn k (bits n x) = bits k x.
Proof.
  intros H. unfold bits. rewrite firstn_map. f_equal.
  replace n with (k + (n - k))%nat by lia. rewrite seq_app, firstn_app, seq_length, Nat.sub_diag, firstn_O, app_nil_r.
  apply firstn_all2. rewrite seq_length. lia.
Qed.

Lemma carried_length topk stack ct : length (carried topk stack ct) = ct.
Proof.
  unfold carried. assert (H := bits_length ct stack). destruct (bits ct stack); cbn in *; [auto|].
  unfold flats. rewrite map_length. lia.
Qed.

Lemma firstn_carried topk stack ct k : (k <= ct)%nat -> firstn k (carried topk stack ct) = carried topk stack k.
Proof.
  intros H. unfold carried. rewrite <- (firstn_bits k ct stack H).
  destruct (bits ct stack) as [|c0 cs]; [now rewrite !firstn_nil|].
  destruct k; cbn; [reflexivity|]. unfold flats. now rewrite firstn_map.
Qed.

Lemma skipn_S_nth {A} : forall (l : list A) k d, (k < length l)%nat -> skipn k l = nth k l d :: skipn (S k) l.
Proof.
  induction l as [|a l IH]; intros k d Hk; cbn in Hk; [lia|].
  destruct k as [|k]; [reflexivity|]. cbn [skipn nth]. apply IH. lia.
Qed.

Lemma skipn_carried topk stack ct k : (k < ct)%nat ->
  skipn k (carried topk stack ct) =
  (colour_of (N.testbit stack (N.of_nat k)), if (k =? 0)%nat then rkind topk else Rules.Flat) :: flats (skipn (S k) (bits ct stack)).
Proof.
  intros H. unfold carried.
  assert (Hs := skipn_S_nth (bits ct stack) k false). rewrite bits_length in Hs. specialize (Hs H).
  rewrite nth_bits in Hs by lia.
  destruct (bits ct stack) as [|c0 cs] eqn:E.
  - assert (Hl := bits_length ct stack). rewrite E in Hl. cbn in Hl. lia.
  - destruct k as [|k].
    + cbn [skipn] in Hs. injection Hs as ->. reflexivity.
    + cbn [skipn] in *. unfold flats. rewrite skipn_map, Hs. reflexivity.
Qed.
