(* SearchLegal2.v: for EVERY configuration of the engine model Search.v (table of any size and content, null move, slide reduction,
   multi-cut, sorting, any cancellation point), repaired code: an invariant SJ of the engine state (no Pass among the hint moves the
   state can supply, stored values inside the root window) is preserved by every search, and every value a search returns lies in
   [MinEval, MaxEval] - the root window (MinEval-1, MaxEval+1) is never met.  This is the hypothesis "every child value exceeds the
   root's alpha" that C04's abstract root theorem (LegalMove.v) had to assume; here it is derived for the executed model from
   |eval| <= MaxEval (C18) and "a live position has a legal move" (C04_live_has_legal_move), asked of the positions the search
   reaches (Pos d = may be searched to depth d; successors, null-move successors). *)
From Coq Require Import NArith ZArith List Bool Lia Permutation.
Require Import Board Move GameOver Eval Search NegamaxSpec SearchGen SearchExact CancelFacts SearchLegal1.
Import ListNotations.
Open Scope Z_scope.

Definition okv (v : Z) : Prop := MinEval <= v <= MaxEval.
(* a table entry: its move is not Pass; its value is inside the root window, and the value MinEval-1 (a zero-window bound that was
   exceeded) only occurs as a lower bound *)
Definition oke (e : entry) : Prop :=
  okm (e_m e) /\ MinEval - 1 <= e_value e <= MaxEval /\ (e_value e = MinEval - 1 -> e_bound e = 0%N).
Definition SJ (s : sstate) : Prop := Forall oke (table s) /\ Forall okm (map snd (response s)) /\ Forall okl (fpv s).

Lemma minmax : MinEval = - MaxEval /\ 0 < MaxEval.
Proof. split; reflexivity. Qed.

Lemma oke0 : oke entry0.
Proof. unfold oke, entry0, okm, MinEval, MaxEval; cbn. repeat split; try lia; discriminate. Qed.
Lemma nth_oke l i : Forall oke l -> oke (nth i l entry0).
Proof.
  intros H. destruct (nth_in_or_default i l entry0) as [Hin|E]; [|rewrite E; apply oke0].
  rewrite Forall_forall in H. apply H. exact Hin.
Qed.

Lemma SJ_bump s f : SJ s -> SJ (bump s f).
Proof. intros H; exact H. Qed.
Lemma SJ_set_fm s ply m : SJ s -> SJ (set_fm s ply m).
Proof. intros H; exact H. Qed.
Lemma SJ_count_eval s : SJ s -> SJ (count_eval s).
Proof. intros H; exact H. Qed.
Lemma SJ_reset_st s : SJ s -> SJ (reset_st s).
Proof. intros H; exact H. Qed.
Lemma SJ_az_start s : SJ s -> SJ (az_start s).
Proof. intros H; exact H. Qed.
Lemma SJ_set_fpv s ply arr : SJ s -> okl arr -> SJ (set_fpv s ply arr).
Proof. intros (A & B & C) H. split; [exact A|]. split; [exact B|]. cbn [set_fpv fpv]. apply Forall_set_nth; assumption. Qed.
Lemma SJ_record_cut s m i d ply : SJ s -> okm m -> SJ (record_cut s m i d ply).
Proof.
  intros (A & B & C) H. unfold record_cut. split; [exact A|]. split; [|exact C]. cbn [table response fpv upd_st].
  destruct (0 <? ply); [apply assoc_set_values; assumption|assumption].
Qed.
Lemma SJ_set_table s t : SJ s -> Forall oke t -> SJ (set_table s t).
Proof. intros (A & B & C) H. split; [exact H|]. split; assumption. Qed.
Lemma SJ_new n : SJ (new_state n).
Proof.
  unfold SJ, new_state. cbn [table response fpv map]. split; [|split; [constructor|]].
  - apply Forall_forall. intros e He. apply repeat_spec in He. subst. apply oke0.
  - apply Forall_forall. intros l Hl. apply repeat_spec in Hl. subst. apply Forall_forall. intros m Hm. apply repeat_spec in Hm. subst. apply okm_move0.
Qed.
Lemma SI_SJ s : SI s -> SJ s.
Proof. intros (A & B & C). split; [rewrite A; constructor|]. split; assumption. Qed.

Lemma okl_frameJ s ply : SJ s -> okl (znth (fpv s) ply []).
Proof.
  intros (_ & _ & H). unfold znth. destruct (nth_in_or_default (Z.to_nat ply) (fpv s) []) as [Hin|E].
  - rewrite Forall_forall in H. apply H. assumption.
  - rewrite E. constructor.
Qed.
Lemma SJ_te s i : SJ s -> oke (nth i (table s) entry0).
Proof. intros (A & _). apply nth_oke. exact A. Qed.

Lemma SJ_tt_put k s h : SJ s -> SJ (fst (tt_put k s h)).
Proof.
  intros H. unfold tt_put. destruct (table s) eqn:ET; [exact H|]. rewrite <- ET. destruct (cancelled k s); [exact H|].
  destruct (tt_slots s h) as [i1 i2]. cbn [fst]. apply SJ_set_table; [exact H|].
  destruct (negb (e_hash (nth i1 (table s) entry0) =? 0)%N); [|apply H].
  apply Forall_set_nth; [apply H|apply SJ_te; exact H].
Qed.
Lemma SJ_write s i h depth m v bound : SJ s -> okm m -> MinEval - 1 <= v <= MaxEval -> (v = MinEval - 1 -> bound = 0%N) ->
  SJ (write_entry s i h depth m v bound).
Proof.
  intros H Hm Hv Hb. unfold write_entry. apply SJ_set_table; [exact H|]. apply Forall_set_nth; [apply H|].
  unfold oke. cbn [e_m e_value e_bound]. auto.
Qed.
Lemma okm_hd best : okl best -> okm (hd move0 best).
Proof. intros H. destruct best; [apply okm_move0|]. inversion H; assumption. Qed.

Lemma SJ_zw_store k s p depth best a didcut : SJ s -> okl best -> MinEval - 1 <= a <= MaxEval -> (didcut = false -> MinEval <= a) ->
  SJ (zw_store k s p depth best a didcut).
Proof.
  intros H HB Ha Hc. unfold zw_store. pose proof (SJ_tt_put k s (phash p) H) as H1.
  destruct (tt_put k s (phash p)) as [s1 slot]. cbn [fst] in H1. destruct slot as [i|]; [|exact H1].
  assert (W : SJ (write_entry s1 i (phash p) depth (hd move0 best) a (if didcut then 0%N else 2%N))).
  { apply SJ_write; [exact H1|apply okm_hd; exact HB|exact Ha|]. intros E. destruct didcut; [reflexivity|]. specialize (Hc eq_refl). lia. }
  destruct didcut; [exact W|apply SJ_bump; exact W].
Qed.
Lemma SJ_pv_store k s p depth best a' b improved : SJ s -> okl best -> okv a' -> SJ (pv_store k s p depth best a' b improved).
Proof.
  intros H HB Ha. unfold pv_store. pose proof (SJ_tt_put k s (phash p) H) as H1.
  destruct (tt_put k s (phash p)) as [s1 slot]. cbn [fst] in H1. destruct slot as [i|]; [|exact H1].
  match goal with |- context [if ?c then _ else s1] => destruct c end; [|exact H1].
  match goal with |- context [write_entry s1 i ?h depth ?m a' ?bd] =>
    assert (W : SJ (write_entry s1 i h depth m a' bd)) end.
  { apply SJ_write; [exact H1|apply okm_hd; exact HB|unfold okv in Ha; lia|]. intros E. unfold okv in Ha. lia. }
  destruct (negb improved); [apply SJ_bump; exact W|exact W].
Qed.

(* the first move of a line is a move (not Pass) that MovePreallocated accepts at p *)
Definition head_ok (basis : list N) (p : position) (pv : list rmove) : Prop :=
  exists m rest q, pv = m :: rest /\ okm m /\ try_move basis p m = Some q.

(* the table shortcut: validated by MovePreallocated, value inside the window of evaluations *)
Lemma tt_probe_ok basis s p ply depth a b : SJ s -> MinEval - 1 <= a < b ->
  let '(s', te, ret) := tt_probe basis s p ply depth a b in
  SJ s' /\ match ret with Some (pv', v) => okl pv' /\ okv v /\ head_ok basis p pv' | None => True end.
Proof.
  intros H Hab. unfold tt_probe. destruct (tt_get s (phash p)) as [i|]; [|split; [exact H|exact I]].
  set (s1 := bump s (st_add 0 0 1 0 0 0 0 0 0 0 0)). assert (H1 : SJ s1) by (apply SJ_bump; exact H).
  set (te := nth i (table s1) entry0). pose proof (SJ_te s1 i H1) as (Tm & Tv & Tb). fold te in Tm, Tv, Tb.
  destruct (te_suffices te depth a b) eqn:ES; [|split; [exact H1|exact I]].
  destruct (try_move basis p (e_m te)) as [q|] eqn:ET; [|split; [exact H1|exact I]].
  split.
  - apply SJ_set_fpv; [apply SJ_bump; exact H1|]. apply okl_set_prefix; [apply okl_frameJ; apply SJ_bump; exact H1|constructor; [exact Tm|constructor]].
  - split; [constructor; [exact Tm|constructor]|]. split; [|exists (e_m te), [], q; auto].
    unfold okv. split; [|lia]. destruct (Z.eq_dec (e_value te) (MinEval - 1)) as [E|NE]; [|lia].
    exfalso. specialize (Tb E). unfold te_suffices in ES. rewrite Tb, E in ES. cbn [N.eqb Pos.eqb orb andb] in ES.
    destruct (b <? MinEval - 1) eqn:EB; [apply Z.ltb_lt in EB; lia|].
    destruct (depth <=? e_depth te), (MinEval - 1 <? a); discriminate ES.
Qed.

Lemma reduce_slide_ok cfg s p ply depth : SJ s -> SJ (fst (reduce_slide cfg s p ply depth)) /\ snd (reduce_slide cfg s p ply depth) <= depth.
Proof.
  intros H. unfold reduce_slide.
  repeat match goal with
  | |- context [if ?c then _ else _] => destruct c
  | |- context [let '(_, _) := ?c in _] => destruct c
  end; cbn [fst snd]; split; try exact H; try (apply SJ_bump; exact H); lia.
Qed.

Section Bnd.
Variable basis : list N.
Variable cfg : config.
Variable k : Z.
Let eval := c_eval cfg.

Variable Pos : nat -> position -> Prop.
Hypothesis Hanti : forall d p, Pos (S d) p -> Pos d p.
Hypothesis Hstep : forall d p m q, Pos (S d) p -> is_over p = false -> okm m -> try_move basis p m = Some q -> Pos d q.
Hypothesis Hpass : forall d p, Pos (S d) p -> is_over p = false -> Pos d (pass_move p).
Hypothesis Hlive : forall d p, Pos (S d) p -> is_over p = false -> exists m q, In m (all_moves p) /\ try_move basis p m = Some q.
Hypothesis Hbound : forall d p, Pos d p -> okv (eval p).

Lemma Pos_le d p : Pos d p -> forall d', (d' <= d)%nat -> Pos d' p.
Proof. intros H d' L. induction L; [exact H|]. apply IHL. apply Hanti. exact H. Qed.

Definition win_ok (zw : bool) (a b : Z) : Prop := MinEval - 1 <= a /\ (if zw then a <= MaxEval else a < b /\ b <= MaxEval + 1).

Definition bnd_ok (rec : rec_t) : Prop :=
  forall zw s p ply depth pv a b cut, SJ s -> Pos (Z.to_nat depth) p -> okl pv -> win_ok zw a b ->
    let r := rec zw s p ply depth pv a b cut in
    SJ (fst r) /\ okl (fst (snd r)) /\ okv (snd (snd r)).

Lemma okv0 : okv 0.
Proof. unfold okv, MinEval, MaxEval. lia. Qed.

Section Node.
Variable rec : rec_t.
Hypothesis Hrec : bnd_ok rec.
Variable p : position.
Variable d0 : nat.
Hypothesis Hp : Pos (S d0) p.
Hypothesis Hover : is_over p = false.

Let len := Z.of_nat (length (all_moves p)).

Lemma kid m q dd : okm m -> try_move basis p m = Some q -> (Z.to_nat dd <= d0)%nat -> Pos (Z.to_nat dd) q.
Proof. intros Hm T L. apply (Pos_le d0); [apply (Hstep d0 p m q); assumption|exact L]. Qed.

Lemma gen_stepj f g seen s : GJ basis p seen g -> SJ s -> len + 6 - g_i g < Z.of_nat f ->
  stepj basis p seen g (mg_next false basis cfg f s g).
Proof. intros G (_ & R & _) F. exact (mg_next_stepj basis cfg p f g seen s G R F). Qed.

Lemma f700 g seen : GJ basis p seen g -> len + 6 - g_i g < Z.of_nat (gfuel g).
Proof. intros G. exact (gfuel_okj basis p seen g G). Qed.

Lemma not_all_seen_nil : ~ (forall m q, In m (all_moves p) -> try_move basis p m = Some q -> In q (@nil position)).
Proof. intros H. destruct (Hlive d0 p Hp Hover) as (m & q & Hm & T). exact (H m q Hm T). Qed.

Lemma gj_new s te pv ply depth : SJ s -> okl pv -> GJ basis p [] (new_gen s te pv ply depth p).
Proof. intros HS Hpv. apply GJ_new; [|exact Hpv]. intros i _. apply (SJ_te s i HS). Qed.

(* ---- the child loop of zwSearch ---- *)
Lemma zw_loop_bnd ply depth a cut : MinEval - 1 <= a <= MaxEval -> (Z.to_nat (depth - 1) <= d0)%nat ->
  forall n s g i best seen,
  SJ s -> GJ basis p seen g -> okl best -> len + 6 - g_i g < Z.of_nat n -> (seen <> [] -> MinEval <= a) ->
  let '(s', best', didcut, aborted) := zw_loop false basis cfg k rec n ply depth a cut s g i best in
  SJ s' /\ okl best' /\ (didcut = true -> a + 1 <= MaxEval) /\ (aborted = false -> didcut = false -> MinEval <= a).
Proof.
  intros Ha Hd. induction n; intros s g i best seen HS G HB HF HSEEN.
  { cbn [zw_loop]. refine (conj HS (conj HB (conj _ _))); [discriminate|]. intros _ _.
    pose proof (gen_stepj 0 g seen s G HS HF) as ST. cbn [mg_next stepj] in ST. destruct ST as (_ & ST).
    apply HSEEN. intros ->. exact (not_all_seen_nil ST). }
  cbn [zw_loop].
  pose proof (gen_stepj (gfuel g) g seen s G HS (f700 g seen G)) as ST.
  destruct (mg_next false basis cfg (gfuel g) s g) as [g' [[m q]|]]; cbn [stepj] in ST.
  2:{ refine (conj HS (conj HB (conj _ _))); [discriminate|]. intros _ _. destruct ST as (_ & ST).
      apply HSEEN. intros ->. exact (not_all_seen_nil ST). }
  destruct ST as (Hm & HT & G' & HLT & _).
  pose proof (Hrec true (set_fm s ply m) q (ply + 1) (depth - 1) (tl best) (- a - 1) 0 (negb cut) (SJ_set_fm _ _ _ HS)
                (kid m q (depth - 1) Hm HT Hd) (okl_tl _ HB) ltac:(unfold win_ok; destruct minmax; lia)) as R.
  destruct (rec true (set_fm s ply m) q (ply + 1) (depth - 1) (tl best) (- a - 1) 0 (negb cut)) as [s1 [ms v]].
  cbn [fst snd] in R. destruct R as (HS1 & Hms & Hv). unfold okv in Hv. destruct minmax as (MM & _).
  destruct (a <? - v) eqn:EC.
  - apply Z.ltb_lt in EC. split; [|split; [|split]].
    + apply SJ_set_fpv; [apply SJ_record_cut; assumption|]. apply okl_set_prefix; [apply okl_frameJ; apply SJ_record_cut; assumption|constructor; assumption].
    + constructor; assumption.
    + intros _. lia.
    + intros _ F. discriminate F.
  - apply Z.ltb_ge in EC. destruct (cancelled k s1).
    + refine (conj HS1 (conj HB (conj _ _))); [discriminate|intros F; discriminate F].
    + apply (IHn s1 g' (i + 1) best (q :: seen)); auto; [lia|]. intros _. lia.
Qed.

(* ---- the multi-cut loop ---- *)
Lemma mc_loop_bnd ply depth a cut m : MinEval - 1 <= a <= MaxEval -> (Z.to_nat (depth - 1) <= d0)%nat ->
  forall n s g child i cuts seen,
  SJ s -> GJ basis p seen g -> Pos (Z.to_nat (depth - 1 - 2)) child ->
  let '(s', g', mccut) := mc_loop false basis cfg rec n ply depth a cut m s g child i cuts in
  SJ s' /\ (exists seen', GJ basis p seen' g') /\ (mccut = true -> a + 1 <= MaxEval).
Proof.
  intros Ha Hd. induction n; intros s g child i cuts seen HS G HC; cbn [mc_loop].
  { refine (conj HS (conj (ex_intro _ seen G) _)). discriminate. }
  destruct (6 <=? i); [refine (conj HS (conj (ex_intro _ seen G) _)); discriminate|].
  pose proof (Hrec true (set_fm s ply m) child (ply + 1) (depth - 1 - 2) [] (- a - 1) 0 (negb cut) (SJ_set_fm _ _ _ HS)
                HC ltac:(constructor) ltac:(unfold win_ok; destruct minmax; lia)) as R.
  destruct (rec true (set_fm s ply m) child (ply + 1) (depth - 1 - 2) [] (- a - 1) 0 (negb cut)) as [s1 [ms v]].
  cbn [fst snd] in R. destruct R as (HS1 & _ & Hv). unfold okv in Hv.
  destruct ((a <? - v) && (3 <=? (if a <? - v then cuts + 1 else cuts))) eqn:EC.
  { apply andb_true_iff in EC. destruct EC as (EC & _). apply Z.ltb_lt in EC.
    refine (conj (SJ_bump _ _ HS1) (conj (ex_intro _ seen G) _)). intros _. destruct minmax. lia. }
  pose proof (gen_stepj (gfuel g) g seen s1 G HS1 (f700 g seen G)) as ST.
  destruct (mg_next false basis cfg (gfuel g) s1 g) as [g' [[m' c']|]]; cbn [stepj] in ST.
  - destruct ST as (Hm & HT & G' & _).
    apply (IHn s1 g' c' (i + 1) _ (c' :: seen) HS1 G'). apply (kid m' c' (depth - 1 - 2) Hm HT). lia.
  - destruct ST as (G' & _). refine (conj HS1 (conj (ex_intro _ seen G') _)). discriminate.
Qed.

(* ---- zwSearch from the child loop on ---- *)
Lemma zw_tail_bnd s g seen ply depth a cut : SJ s -> GJ basis p seen g -> MinEval - 1 <= a <= MaxEval -> (Z.to_nat (depth - 1) <= d0)%nat ->
  let r := zw_tail false basis cfg k rec s g p ply depth a cut in
  SJ (fst r) /\ okl (fst (snd r)) /\ okv (snd (snd r)).
Proof.
  intros HS G Ha Hd. unfold zw_tail.
  pose proof (GJ_reset basis p seen g G) as G0.
  pose proof (zw_loop_bnd ply depth a cut Ha Hd (gfuel (set_i g 0)) s (set_i g 0) 0 (firstn 1 (znth (fpv s) ply [])) [] HS G0
                (Forall_firstn _ _ _ (okl_frameJ s ply HS)) (f700 _ _ G0) ltac:(intros F; contradiction)) as L.
  destruct (zw_loop false basis cfg k rec (gfuel (set_i g 0)) ply depth a cut s (set_i g 0) 0 (firstn 1 (znth (fpv s) ply []))) as [[[s2 best] didcut] ab].
  destruct L as (HS2 & HB2 & L1 & L2). destruct ab; cbn [fst snd].
  - split; [exact HS2|]. split; [constructor|apply okv0].
  - split; [apply SJ_zw_store; [exact HS2|exact HB2|exact Ha|apply L2; reflexivity]|]. split; [exact HB2|].
    unfold okv. destruct didcut; [specialize (L1 eq_refl); lia|specialize (L2 eq_refl eq_refl); lia].
Qed.

Lemma zw_mc_bnd s g seen ply depth a cut : SJ s -> GJ basis p seen g -> MinEval - 1 <= a <= MaxEval -> (Z.to_nat (depth - 1) <= d0)%nat ->
  let r := zw_mc false basis cfg k rec s g p ply depth a cut in
  SJ (fst r) /\ okl (fst (snd r)) /\ okv (snd (snd r)).
Proof.
  intros HS G Ha Hd. unfold zw_mc. destruct (c_multicut cfg && cut && (3 <? depth)); [|apply (zw_tail_bnd s g seen); assumption].
  set (s1 := bump s (st_add 0 0 0 0 0 0 0 0 0 1 0)). assert (HS1 : SJ s1) by (apply SJ_bump; exact HS).
  pose proof (gen_stepj (gfuel g) g seen s1 G HS1 (f700 g seen G)) as ST.
  destruct (mg_next false basis cfg (gfuel g) s1 g) as [g1 [[m child0]|]]; cbn [stepj] in ST.
  - destruct ST as (Hm & HT & G1 & _).
    pose proof (mc_loop_bnd ply depth a cut m Ha Hd 8 s1 g1 child0 0 0 (child0 :: seen) HS1 G1 (kid m child0 (depth - 1 - 2) Hm HT ltac:(lia))) as L.
    destruct (mc_loop false basis cfg rec 8 ply depth a cut m s1 g1 child0 0 0) as [[s2 g2] mccut].
    destruct L as (HS2 & (seen2 & G2) & L3). destruct mccut.
    + cbn [fst snd]. split; [exact HS2|]. split; [constructor|]. specialize (L3 eq_refl). unfold okv. lia.
    + apply (zw_tail_bnd s2 g2 seen2); assumption.
  - destruct ST as (G1 & _). apply (zw_tail_bnd s1 g1 seen); assumption.
Qed.

Lemma zw_node_bnd s te ply depth pv a cut : SJ s -> okl pv -> MinEval - 1 <= a <= MaxEval -> (Z.to_nat (depth - 1) <= d0)%nat ->
  let r := zw_node false basis cfg k rec s te p ply depth pv a cut in
  SJ (fst r) /\ okl (fst (snd r)) /\ okv (snd (snd r)).
Proof.
  intros HS Hpv Ha Hd.
  assert (RED : forall s, SJ s -> let r := zw_reduce false basis cfg k rec s te p ply depth pv a cut in
                SJ (fst r) /\ okl (fst (snd r)) /\ okv (snd (snd r))).
  { clear s HS. intros s HS. unfold zw_reduce. pose proof (reduce_slide_ok cfg s p ply depth HS) as (R1 & R2).
    destruct (reduce_slide cfg s p ply depth) as [s1 d1]. cbn [fst snd] in R1, R2.
    apply (zw_mc_bnd s1 _ []); [exact R1|apply gj_new; assumption|exact Ha|lia]. }
  unfold zw_node. destruct (null_move_ok cfg s ply depth p); [|apply RED; exact HS].
  assert (HPN : Pos (Z.to_nat (depth - 3)) (pass_move p)) by (apply (Pos_le d0); [apply Hpass; assumption|lia]).
  assert (HWN : win_ok true (- a - 1) 0) by (unfold win_ok; destruct minmax; lia).
  match goal with |- context [rec true ?s1 (pass_move p) ?pl ?dd [] ?aa 0 true] =>
    pose proof (Hrec true s1 (pass_move p) pl dd [] aa 0 true (SJ_bump _ _ (SJ_set_fm _ _ _ HS)) HPN ltac:(constructor) HWN) as R;
    destruct (rec true s1 (pass_move p) pl dd [] aa 0 true) as [s2 [ms v]] end.
  cbn [fst snd] in R. destruct R as (HS2 & _ & Hv).
  destruct (a + 1 <=? - v); [|apply RED; exact HS2].
  cbn [fst snd]. split; [apply SJ_bump; exact HS2|]. split; [constructor|]. unfold okv in *. destruct minmax. lia.
Qed.

(* ---- one child of pvSearch ---- *)
Lemma pv_child_bnd s m q ply depth best a b i : SJ s -> okm m -> try_move basis p m = Some q -> okl best ->
  MinEval - 1 <= a < b -> b <= MaxEval + 1 -> (Z.to_nat (depth - 1) <= d0)%nat ->
  let r := pv_child rec s q ply depth best a b i in
  SJ (fst r) /\ okl (fst (snd r)) /\ okv (snd (snd r)).
Proof.
  intros HS Hm HT HB Hab Hb Hd. pose proof (kid m q (depth - 1) Hm HT Hd) as Hq. destruct minmax as (MM & _).
  unfold pv_child.
  pose proof (fun s HS => Hrec false s q (ply + 1) (depth - 1) (tl best) (- b) (- a) true HS Hq (okl_tl _ HB) ltac:(unfold win_ok; lia)) as RPV.
  destruct (1 <? i); [|apply RPV; exact HS].
  pose proof (Hrec true s q (ply + 1) (depth - 1) (tl best) (- a - 1) 0 true HS Hq (okl_tl _ HB) ltac:(unfold win_ok; lia)) as R.
  destruct (rec true s q (ply + 1) (depth - 1) (tl best) (- a - 1) 0 true) as [s1 [ms v]].
  cbn [fst snd] in R. destruct R as (HS1 & Hms & Hv).
  destruct ((a <? - v) && (- v <? b)); [apply RPV; apply SJ_bump; exact HS1|].
  cbn [fst snd]. auto.
Qed.

(* ---- the child loop of pvSearch ---- *)
Lemma pv_loop_bnd ply depth a0 b : b <= MaxEval + 1 -> (Z.to_nat (depth - 1) <= d0)%nat ->
  forall n s g i best a improved seen,
  SJ s -> GJ basis p seen g -> okl best -> len + 6 - g_i g < Z.of_nat n ->
  MinEval - 1 <= a < b -> (seen <> [] -> MinEval <= a) ->
  (improved = true -> head_ok basis p best) -> (improved = false -> a = a0) ->
  let '(s', best', a', improved', aborted) := pv_loop false basis cfg k rec n ply depth b s g i best a improved in
  SJ s' /\ okl best' /\ (aborted = true -> cancelled k s' = true) /\
  (aborted = false -> okv a' /\ (improved' = true -> head_ok basis p best') /\ (improved' = false -> a' = a0)).
Proof.
  intros Hb Hd. induction n; intros s g i best a improved seen HS G HB HF Hab HSEEN HIMP HNI.
  { cbn [pv_loop]. refine (conj HS (conj HB (conj _ _))); [discriminate|]. intros _.
    pose proof (gen_stepj 0 g seen s G HS HF) as ST. cbn [mg_next stepj] in ST. destruct ST as (_ & ST).
    assert (MinEval <= a) by (apply HSEEN; intros ->; exact (not_all_seen_nil ST)). unfold okv. repeat split; try assumption; lia. }
  cbn [pv_loop].
  pose proof (gen_stepj (gfuel g) g seen s G HS (f700 g seen G)) as ST.
  destruct (mg_next false basis cfg (gfuel g) s g) as [g' [[m q]|]]; cbn [stepj] in ST.
  2:{ refine (conj HS (conj HB (conj _ _))); [discriminate|]. intros _. destruct ST as (_ & ST).
      assert (MinEval <= a) by (apply HSEEN; intros ->; exact (not_all_seen_nil ST)). unfold okv. repeat split; try assumption; lia. }
  destruct ST as (Hm & HT & G' & HLT & _).
  pose proof (pv_child_bnd (set_fm s ply m) m q ply depth best a b (i + 1) (SJ_set_fm _ _ _ HS) Hm HT HB Hab Hb Hd) as R.
  destruct (pv_child rec (set_fm s ply m) q ply depth best a b (i + 1)) as [s1 [ms v]].
  cbn [fst snd] in R. destruct R as (HS1 & Hms & Hv). unfold okv in Hv. destruct minmax as (MM & _).
  destruct (a <? - v) eqn:EA.
  - apply Z.ltb_lt in EA.
    assert (HB' : okl (m :: ms)) by (constructor; assumption).
    assert (HH : head_ok basis p (m :: ms)) by (exists m, ms, q; auto).
    assert (HS2 : SJ (set_fpv s1 ply (set_prefix (znth (fpv s1) ply []) (m :: ms)))).
    { apply SJ_set_fpv; [assumption|]. apply okl_set_prefix; [apply okl_frameJ; assumption|assumption]. }
    destruct (b <=? - v) eqn:EB.
    + refine (conj (SJ_record_cut _ m _ _ _ HS2 Hm) (conj HB' (conj _ _))); [discriminate|]. intros _.
      unfold okv. split; [lia|]. split; [intros _; exact HH|discriminate].
    + apply Z.leb_gt in EB.
      destruct (cancelled k (set_fpv s1 ply (set_prefix (znth (fpv s1) ply []) (m :: ms)))) eqn:EK.
      * refine (conj HS2 (conj HB' (conj _ _))); [intros _; exact EK|discriminate].
      * apply (IHn _ g' (i + 1) (m :: ms) (- v) true (q :: seen)); auto; [lia|lia|intros _; lia|discriminate].
  - apply Z.ltb_ge in EA. destruct (cancelled k s1) eqn:EK.
    + refine (conj HS1 (conj HB (conj _ _))); [intros _; exact EK|discriminate].
    + apply (IHn s1 g' (i + 1) best a improved (q :: seen)); auto; [lia|intros _; lia].
Qed.

(* ---- pvSearch after the table probe; at the root window the line starts with a legal move unless the call was cancelled ---- *)
Lemma pv_node_bnd s te ply depth pv a b : SJ s -> okl pv -> MinEval - 1 <= a < b -> b <= MaxEval + 1 -> (Z.to_nat (depth - 1) <= d0)%nat ->
  let r := pv_node false basis cfg k rec s te p ply depth pv a b in
  SJ (fst r) /\ okl (fst (snd r)) /\ okv (snd (snd r)) /\
  (cancelled k (fst r) = false -> a = MinEval - 1 -> head_ok basis p (fst (snd r))).
Proof.
  intros HS Hpv Hab Hb Hd. unfold pv_node.
  set (best0 := match pv with [] => firstn 1 (znth (fpv s) ply []) | _ :: _ => pv end).
  assert (HB0 : okl best0) by (subst best0; destruct pv; [apply Forall_firstn; apply okl_frameJ; assumption|assumption]).
  set (s2 := set_fpv s ply (set_prefix (znth (fpv s) ply []) best0)).
  assert (HS2 : SJ s2) by (apply SJ_set_fpv; [assumption|apply okl_set_prefix; [apply okl_frameJ; assumption|assumption]]).
  pose proof (gj_new s te pv ply depth HS Hpv) as G0.
  pose proof (pv_loop_bnd ply depth a b Hb Hd (gfuel (new_gen s te pv ply depth p)) s2 (new_gen s te pv ply depth p) 0 best0 a false [] HS2 G0 HB0 (f700 _ _ G0) Hab
                ltac:(intros F; contradiction) ltac:(discriminate) ltac:(reflexivity)) as L.
  destruct (pv_loop false basis cfg k rec (gfuel (new_gen s te pv ply depth p)) ply depth b s2 (new_gen s te pv ply depth p) 0 best0 a false) as [[[[s3 best] a'] improved] ab].
  destruct L as (HS3 & HB3 & L1 & L2). destruct ab; cbn [fst snd].
  - split; [exact HS3|]. split; [constructor|]. split; [apply okv0|]. intros NC. rewrite (L1 eq_refl) in NC. discriminate NC.
  - destruct (L2 eq_refl) as (V & H1 & H2).
    split; [apply SJ_pv_store; assumption|]. split; [exact HB3|]. split; [exact V|]. intros _ E.
    apply H1. destruct improved; [reflexivity|]. specialize (H2 eq_refl). unfold okv in V. lia.
Qed.
End Node.

(* ---- one node ---- *)
Lemma srch_step_bnd rec : bnd_ok rec -> bnd_ok (srch_step false basis cfg k rec).
Proof.
  intros Hrec zw s p ply depth pv a b cut HS Hp Hpv (Ha & Hw). cbv zeta. unfold srch_step.
  destruct ((depth <=? 0) || is_over p) eqn:EL.
  { cbn [fst snd]. split; [apply SJ_count_eval; apply SJ_bump; exact HS|]. split; [constructor|apply (Hbound _ p Hp)]. }
  apply orb_false_iff in EL. destruct EL as (ED & EO). apply Z.leb_gt in ED.
  assert (Hp' : Pos (S (Z.to_nat (depth - 1))) p) by (replace (S (Z.to_nat (depth - 1))) with (Z.to_nat depth) by lia; exact Hp).
  match goal with |- context [tt_probe basis ?s1 p ply depth a ?bb] =>
    assert (HS1 : SJ s1) by (apply SJ_bump; exact HS);
    pose proof (tt_probe_ok basis s1 p ply depth a bb HS1 ltac:(destruct zw; lia)) as TP;
    destruct (tt_probe basis s1 p ply depth a bb) as [[s2 te] ret] end.
  destruct TP as (HS2 & TR). destruct ret as [[pv' v]|].
  { cbn [fst snd]. destruct TR as (A & B & _). auto. }
  destruct zw.
  - apply (zw_node_bnd rec Hrec p (Z.to_nat (depth - 1)) Hp' EO); [exact HS2|exact Hpv|lia|lia].
  - destruct Hw as (Hab & Hb).
    destruct (pv_node_bnd rec Hrec p (Z.to_nat (depth - 1)) Hp' EO s2 te ply depth pv a b HS2 Hpv ltac:(lia) Hb ltac:(lia)) as (A & B & C & _).
    auto.
Qed.

Lemma srch_bnd : forall f, bnd_ok (srch false basis cfg k f).
Proof.
  induction f; [|cbn [srch]; apply srch_step_bnd; exact IHf].
  intros zw s p ply depth pv a b cut HS _ _ _. cbn [srch fst snd]. split; [exact HS|]. split; [constructor|apply okv0].
Qed.

Lemma srch_leaf f zw s p ply depth pv a b cut : depth <= 0 ->
  srch false basis cfg k (S f) zw s p ply depth pv a b cut = (count_eval (bump s (st_eval (is_over p))), ([], c_eval cfg p)).
Proof. intros H. cbn [srch]. unfold srch_step. replace (depth <=? 0) with true by (symmetry; apply Z.leb_le; lia). reflexivity. Qed.

(* the root search of Analyze: full window, pvSearch, a live position *)
Lemma srch_root f s p depth pv : SJ s -> Pos (Z.to_nat depth) p -> okl pv -> 0 < depth -> is_over p = false ->
  let r := srch false basis cfg k (S f) false s p 0 depth pv (MinEval - 1) (MaxEval + 1) true in
  SJ (fst r) /\ okl (fst (snd r)) /\ okv (snd (snd r)) /\ (cancelled k (fst r) = false -> head_ok basis p (fst (snd r))).
Proof.
  intros HS Hp Hpv ED EO. cbv zeta. cbn [srch]. unfold srch_step.
  replace (depth <=? 0) with false by (symmetry; apply Z.leb_gt; lia). rewrite EO. cbn [orb].
  assert (Hp' : Pos (S (Z.to_nat (depth - 1))) p) by (replace (S (Z.to_nat (depth - 1))) with (Z.to_nat depth) by lia; exact Hp).
  destruct minmax as (MM & MP).
  match goal with |- context [tt_probe basis ?s1 p 0 depth ?aa ?bb] =>
    assert (HS1 : SJ s1) by (apply SJ_bump; exact HS);
    pose proof (tt_probe_ok basis s1 p 0 depth aa bb HS1 ltac:(lia)) as TP;
    destruct (tt_probe basis s1 p 0 depth aa bb) as [[s2 te] ret] end.
  destruct TP as (HS2 & TR). destruct ret as [[pv' v]|].
  { cbn [fst snd]. destruct TR as (A & B & C). auto. }
  destruct (pv_node_bnd (srch false basis cfg k f) (srch_bnd f) p (Z.to_nat (depth - 1)) Hp' EO s2 te 0 depth pv (MinEval - 1) (MaxEval + 1)
              HS2 Hpv ltac:(lia) ltac:(lia) ltac:(lia)) as (A & B & C & D).
  split; [exact A|]. split; [exact B|]. split; [exact C|]. intros NC. apply D; [exact NC|reflexivity].
Qed.

(* ---- Analyze ---- *)
Section Az.
Variable p : position.
Variable D : Z.
Hypothesis HP : forall d, Z.of_nat d <= D -> Pos d p.
Hypothesis HO : is_over p = false.
Variable base : Z.
Variable ms0 : list rmove.

(* the line is still the seed (no iteration has completed) or starts with a legal move *)
Definition line_ok (pv : list rmove) (d : Z) : Prop := (d = base /\ pv = ms0) \/ (base < d /\ head_ok basis p pv).

Lemma az_iter_legal : forall n i s ms v acc d,
  SJ s -> okl ms -> 1 <= i -> d = i + base - 1 -> line_ok ms d ->
  forall sk pv' v' d' acc' c', az_iter false basis cfg k D base p n i s ms v acc d = (sk, (pv', v', d', acc', c')) ->
  SJ sk /\ okl pv' /\ line_ok pv' d' /\ (c' = false -> (0 < n)%nat -> i + base <= D -> base < d').
Proof.
  induction n; intros i s ms v acc d HS Hms Hi Hd HL sk pv' v' d' acc' c' H; cbn [az_iter] in H.
  { inversion H; subst. split; [exact HS|]. split; [exact Hms|]. split; [exact HL|]. intros _ F. inversion F. }
  destruct (D <? i + base) eqn:ED.
  { inversion H; subst. apply Z.ltb_lt in ED. split; [exact HS|]. split; [exact Hms|]. split; [exact HL|]. intros _ _ F. lia. }
  apply Z.ltb_ge in ED.
  destruct (Z_le_gt_dec (i + base) 0) as [NEG|POSD].
  { (* a non-positive depth (only with a corrupt table depth): the root is evaluated as a leaf, no line, reported as cancelled *)
    assert (E : srch false basis cfg k 40 false (reset_st s) p 0 (i + base) ms (MinEval - 1) (MaxEval + 1) true =
                (count_eval (bump (reset_st s) (st_eval (is_over p))), ([], c_eval cfg p))).
    { apply (srch_leaf 39). exact NEG. }
    rewrite E in H. destruct (cancelled k _) in H; inversion H; subst; (split; [apply SJ_count_eval, SJ_bump, SJ_reset_st; exact HS|]);
      (split; [exact Hms|]); (split; [exact HL|]); intros F; discriminate F. }
  assert (HPd : Pos (Z.to_nat (i + base)) p) by (apply HP; lia).
  pose proof (srch_root 39 (reset_st s) p (i + base) ms (SJ_reset_st s HS) HPd Hms ltac:(lia) HO) as R.
  cbv zeta in R. change (S 39) with 40%nat in R.
  destruct (srch false basis cfg k 40 false (reset_st s) p 0 (i + base) ms (MinEval - 1) (MaxEval + 1) true) as [s1 [next nv]].
  cbn [fst snd] in R. destruct R as (HS1 & Hnext & _ & HH).
  destruct (cancelled k s1) eqn:EK.
  { inversion H; subst. split; [exact HS1|]. split; [exact Hms|]. split; [exact HL|]. intros F; discriminate F. }
  specialize (HH eq_refl). destruct HH as (m & rest & q & -> & Hm & HT).
  assert (HL' : line_ok (m :: rest) (i + base)) by (right; split; [lia|exists m, rest, q; auto]).
  destruct ((WinThreshold <? nv) || (nv <? - WinThreshold)).
  - inversion H; subst. split; [exact HS1|]. split; [exact Hnext|]. split; [exact HL'|]. intros _ _ _. lia.
  - destruct (IHn (i + 1) s1 (m :: rest) nv _ (i + base) HS1 Hnext ltac:(lia) ltac:(lia) HL' _ _ _ _ _ _ H) as (A & B & C & E).
    split; [exact A|]. split; [exact B|]. split; [exact C|]. intros _ _ _.
    destruct C as [(C1 & C2)|(C1 & _)]; [|exact C1].
    exfalso. pose proof (az_iter_depth_ge false basis cfg k D base p _ _ _ _ _ _ _ _ _ _ _ _ _ H ltac:(lia)). lia.
Qed.
End Az.

(* C04 for the executed model.  Any configuration, any table, any cancellation point, any engine state satisfying SJ; p live and
   searchable to every depth up to the configured one.  (base, ms0, v0) = the seed Analyze takes from an exact root entry of the table
   (az_root; (0, [], 0) without one).  Then: the state afterwards satisfies SJ again; the reported line is either still the seed -
   exactly when the reported depth is still the seed's - or starts with a move that MovePreallocated accepts at p; and a call that is
   not reported as cancelled and was allowed at least one iteration has completed one. *)
Theorem analyze_legal : forall s p sk pv v d acc c, SJ s -> (forall d, Z.of_nat d <= c_depth cfg -> Pos d p) -> is_over p = false ->
  analyze_gen false basis cfg k s p = (sk, (pv, v, d, acc, c)) ->
  let '(base, ms0, v0) := az_root false (az_start s) p in
  SJ sk /\ okl pv /\ ((d = base /\ pv = ms0) \/ (base < d /\ head_ok basis p pv)) /\ (c = false -> base < c_depth cfg -> base < d).
Proof.
  intros s p sk pv v d acc c HS HP HO H. unfold analyze_gen, analyze_depth in H.
  assert (SEED : forall b m0 vv, az_root false (az_start s) p = (b, m0, vv) -> okl m0).
  { unfold az_root. intros b m0 vv E. destruct (tt_get (az_start s) (phash p)) as [i|]; [|inversion E; constructor].
    destruct (e_bound (nth i (table (az_start s)) entry0) =? 1)%N; inversion E; [|constructor].
    constructor; [apply (SJ_te (az_start s) i (SJ_az_start s HS))|constructor]. }
  destruct (az_root false (az_start s) p) as [[base ms0] v0].
  destruct (az_iter_legal p (c_depth cfg) HP HO base ms0 16 1 (az_start s) ms0 v0 stats0 base (SJ_az_start s HS) (SEED _ _ _ eq_refl)
              ltac:(lia) ltac:(lia) ltac:(left; split; reflexivity) _ _ _ _ _ _ H) as (A & B & C & E).
  split; [exact A|]. split; [exact B|]. split; [exact C|]. intros F L. apply E; [exact F|lia|lia].
Qed.
End Bnd.
