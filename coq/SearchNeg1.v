(* SearchNeg1.v: SearchExact.v's theorem (precise options, no table: Analyze = exhaustive negamax) with the facts about the rules
   engine and the evaluator asked only of the positions the search can actually reach, INDEXED BY THE REMAINING DEPTH:
   Pos d p = "p may be the root of a search to depth d".  A successor of a Pos (S d) position is a Pos d position; nothing is asked
   of the successors of Pos 0 positions.  This is what makes the hypotheses dischargeable: the built-in evaluator is bounded by
   MaxEval only up to a ply limit (C18), and the ply grows along the search, so no set of positions closed under moves satisfies
   SearchExact.rules_facts for that evaluator.  The proof is the proof of SearchExact.v with the index threaded through.
   Second generalisation: the call may be CANCELLED at any point k (the section variable cancel_at of Search.v; 0 = never).  Every
   search function returns a state satisfying SI again whatever k is, and its value obeys the window trichotomy whenever the flag
   was not yet set when it returned (the loops read the flag after every child, so an unset flag at the end means no child saw it
   set; for the scout/re-search pair of pvSearch this needs CancelFacts.srch_mono: the evaluation counter never decreases).
   Hence Analyze's report is exact for every k: a cancelled call reports its deepest completed iteration. *)
From Coq Require Import NArith ZArith List Bool Lia Permutation.
Require Import Board Move GameOver Eval Search NegamaxSpec SearchGen SearchExact CancelFacts.
Import ListNotations.
Open Scope Z_scope.

Section ExactIx.
Variable pinned : bool.
Variable basis : list N.
Variable cfg : config.
Variable k : Z.             (* the cancellation point of the call (0 = never): every statement holds for every k *)
Let eval := c_eval cfg.

(* MakePrecise *)
Hypothesis Hnonull : c_nonull cfg = true.
Hypothesis Hnoreduce : c_noreduce cfg = true.
Hypothesis Hnomc : c_multicut cfg = false.

Variable Pos : nat -> position -> Prop.
Hypothesis Hclosed : forall d p q, Pos (S d) p -> is_over p = false -> In q (children basis p) -> Pos d q.
Hypothesis Hhint : forall d p m q, Pos (S d) p -> is_over p = false -> okm m -> try_move basis p m = Some q -> In q (children basis p).
Hypothesis Hlive : forall d p, Pos (S d) p -> is_over p = false -> children basis p <> [].

Notation nm := (nmx basis eval).

Definition rec_okx (d : nat) (rec : rec_t) : Prop :=
  forall zw s p ply pv a b cut, SI s -> Pos d p -> okl pv -> (zw = false -> a < b) ->
    let r := rec zw s p ply (Z.of_nat d) pv a b cut in
    SI (fst r) /\ okl (fst (snd r)) /\ (is_over p = true -> fst (snd r) = []) /\
    (cancelled k (fst r) = false ->
     if zw then zw_spec basis cfg d p a (snd (snd r)) else pv_spec basis cfg d p a b (snd (snd r)) /\ head_spec basis cfg d p a b (fst (snd r))).

Section Node.
Variable d' : nat.
Variable rec : rec_t.
Hypothesis Hrec : rec_okx d' rec.
Hypothesis Hmono : mono rec.
Variable p : position.
Hypothesis Hp : Pos (S d') p.
Hypothesis Hover : is_over p = false.

Let x (q : position) : Z := - nm d' q.
Let len := Z.of_nat (length (all_moves p)).

Lemma child_le q : In q (children basis p) -> x q <= nm (S d') p.
Proof. intros H. apply nmx_ge; assumption. Qed.
Lemma some_child : exists q, In q (children basis p) /\ nm (S d') p = x q.
Proof. apply nmx_attained; [assumption|apply (Hlive d'); assumption]. Qed.

Lemma gen_step f g seen s : GI basis p seen g -> SI s -> len + 6 - g_i g < Z.of_nat f ->
  step_ok basis p seen g (mg_next pinned basis cfg f s g).
Proof.
  intros G (_ & R & _) F.
  apply mg_next_step; [intros m q; apply (Hhint d'); assumption|exact G|exact R|exact F].
Qed.

Lemma canc_fpv s ply arr : cancelled k (set_fpv s ply arr) = cancelled k s.
Proof. reflexivity. Qed.
Lemma canc_cut s m i d ply : cancelled k (record_cut s m i d ply) = cancelled k s.
Proof. reflexivity. Qed.
Lemma canc_bump s f : cancelled k (bump s f) = cancelled k s.
Proof. reflexivity. Qed.

Lemma zw_loop_ok ply a cut : forall n s g i best seen,
  SI s -> GI basis p seen g -> okl best -> len + 6 - g_i g < Z.of_nat n ->
  (forall q, In q seen -> x q <= a) ->
  let r := zw_loop pinned basis cfg k rec n ply (Z.of_nat (S d')) a cut s g i best in
  let '(s', best', didcut, aborted) := r in
  SI s' /\ okl best' /\ (cancelled k s' = false -> aborted = false /\ (if didcut then a < nm (S d') p else nm (S d') p <= a)).
Proof.
  induction n; intros s g i best seen HS G HB HF HSEEN.
  { cbn [zw_loop]. refine (conj HS (conj HB (fun _ => conj eq_refl _))).
    pose proof (gen_step 0 g seen s G HS HF) as ST. cbn [mg_next step_ok] in ST.
    destruct some_child as (q & Hq & E). rewrite E. apply HSEEN. apply ST. assumption. }
  cbn [zw_loop].
  pose proof (gen_step (gfuel g) g seen s G HS (gfuel_ok _ _ _ _ G)) as ST.
  destruct (mg_next pinned basis cfg (gfuel g) s g) as [g' [[m q]|]]; cbn [step_ok] in ST.
  2:{ refine (conj HS (conj HB (fun _ => conj eq_refl _))). destruct some_child as (q & Hq & E). rewrite E. apply HSEEN. apply ST. assumption. }
  destruct ST as (Hm & HT & Hq & G' & HLT & _).
  assert (Hpq : Pos d' q) by (apply (Hclosed d' p q Hp Hover Hq)).
  replace (Z.of_nat (S d') - 1) with (Z.of_nat d') by lia.
  pose proof (Hrec true (set_fm s ply m) q (ply + 1) (tl best) (- a - 1) 0 (negb cut) (SI_set_fm _ _ _ HS) Hpq (okl_tl _ HB) ltac:(discriminate)) as R.
  destruct (rec true (set_fm s ply m) q (ply + 1) (Z.of_nat d') (tl best) (- a - 1) 0 (negb cut)) as [s1 [ms v]].
  cbn [fst snd] in R. destruct R as (HS1 & Hms & _ & ZS).
  destruct (a <? - v) eqn:EC.
  - apply Z.ltb_lt in EC. split; [|split].
    + apply SI_set_fpv; [apply SI_record_cut; assumption|]. apply okl_set_prefix; [apply okl_frame; apply SI_record_cut; assumption|constructor; assumption].
    + constructor; assumption.
    + rewrite canc_fpv, canc_cut. intros NC. destruct (ZS NC) as (Z1 & Z2). fold eval in Z1, Z2. fold (x q) in *. split; [reflexivity|].
      apply Z.lt_le_trans with (x q); [|apply child_le; assumption]. unfold x. lia.
  - apply Z.ltb_ge in EC. destruct (cancelled k s1) eqn:EK.
    + refine (conj HS1 (conj HB _)). intros NC. rewrite EK in NC. discriminate NC.
    + destruct (ZS eq_refl) as (Z1 & Z2). fold eval in Z1, Z2. fold (x q) in *.
      apply (IHn s1 g' (i + 1) best (q :: seen)); auto; [lia|].
      intros q0 [<-|H0]; [unfold x; lia|apply HSEEN; assumption].
Qed.

Lemma pv_child_ok s q ply best a b i : SI s -> In q (children basis p) -> okl best -> a < b ->
  let r := pv_child rec s q ply (Z.of_nat (S d')) best a b i in
  SI (fst r) /\ okl (fst (snd r)) /\
  (cancelled k (fst r) = false ->
   let v := - snd (snd r) in (x q <= a -> x q <= v <= a) /\ (a < x q < b -> v = x q) /\ (b <= x q -> b <= v <= x q)).
Proof.
  intros HS Hq HB Hab. assert (Hpq : Pos d' q) by (apply (Hclosed d' p q Hp Hover Hq)).
  unfold pv_child. replace (Z.of_nat (S d') - 1) with (Z.of_nat d') by lia.
  pose proof (fun s HS => Hrec false s q (ply + 1) (tl best) (- b) (- a) true HS Hpq (okl_tl _ HB) ltac:(intros; lia)) as RPV.
  destruct (1 <? i).
  - pose proof (Hrec true s q (ply + 1) (tl best) (- a - 1) 0 true HS Hpq (okl_tl _ HB) ltac:(discriminate)) as R.
    destruct (rec true s q (ply + 1) (Z.of_nat d') (tl best) (- a - 1) 0 true) as [s1 [ms v]].
    cbn [fst snd] in R. destruct R as (HS1 & Hms & _ & ZS).
    destruct ((a <? - v) && (- v <? b)) eqn:EW.
    + apply andb_true_iff in EW. destruct EW as [E1 E2]. apply Z.ltb_lt in E1. apply Z.ltb_lt in E2.
      specialize (RPV _ (SI_bump s1 (st_add 0 0 0 0 1 0 0 0 0 0 0) HS1)).
      pose proof (Hmono false (bump s1 (st_add 0 0 0 0 1 0 0 0 0 0 0)) q (ply + 1) (Z.of_nat d') (tl best) (- b) (- a) true) as MO.
      destruct (rec false (bump s1 (st_add 0 0 0 0 1 0 0 0 0 0 0)) q (ply + 1) (Z.of_nat d') (tl best) (- b) (- a) true) as [s2 [ms2 v2]].
      cbn [fst snd] in *. destruct RPV as (HS2 & Hms2 & _ & PS).
      refine (conj HS2 (conj Hms2 _)). intros NC.
      assert (NC1 : cancelled k s1 = false) by (apply (canc_le k s1 s2 NC); exact MO).
      destruct (ZS NC1) as (Z1 & Z2). destruct (PS NC) as ((P1 & P2 & P3) & _). fold eval in Z1, Z2, P1, P2, P3. unfold x. lia.
    + cbn [fst snd]. apply andb_false_iff in EW. refine (conj HS1 (conj Hms _)). intros NC.
      destruct (ZS NC) as (Z1 & Z2). fold eval in Z1, Z2. unfold x.
      destruct EW as [E|E]; apply Z.ltb_ge in E; lia.
  - specialize (RPV _ HS).
    destruct (rec false s q (ply + 1) (Z.of_nat d') (tl best) (- b) (- a) true) as [s2 [ms2 v2]].
    cbn [fst snd] in *. destruct RPV as (HS2 & Hms2 & _ & PS).
    refine (conj HS2 (conj Hms2 _)). intros NC. destruct (PS NC) as ((P1 & P2 & P3) & _). fold eval in P1, P2, P3. unfold x. lia.
Qed.

Definition attains (best : list rmove) (a : Z) : Prop :=
  exists m rest q, best = m :: rest /\ try_move basis p m = Some q /\ In q (children basis p) /\ x q = a.

Lemma pv_done a0 b best a improved seen :
  a0 <= a < b -> (forall q, In q seen -> x q <= a) ->
  (improved = false /\ a = a0 \/ improved = true /\ attains best a) ->
  (forall q, In q (children basis p) -> In q seen) ->
  let M := Z.max a0 (nm (S d') p) in (M < b -> a = M /\ (a0 < a -> attains best a)) /\ (b <= M -> b <= a <= M).
Proof.
  intros Hab HSEEN HIMP ALL. cbv zeta. destruct some_child as (q & Hq & E).
  assert (nm (S d') p <= a) by (rewrite E; apply HSEEN; apply ALL; assumption).
  assert (a <= Z.max a0 (nm (S d') p)).
  { destruct HIMP as [[_ ->]|[_ (m & rest & q1 & _ & _ & Hq1 & <-)]]; [lia|]. pose proof (child_le q1 Hq1). lia. }
  split; [|lia]. intros _. split; [lia|]. intros L. destruct HIMP as [[_ ->]|[_ AT]]; [lia|assumption].
Qed.

Lemma pv_loop_ok ply a0 b : forall n s g i best a improved seen,
  SI s -> GI basis p seen g -> okl best -> len + 6 - g_i g < Z.of_nat n ->
  a0 <= a < b -> (forall q, In q seen -> x q <= a) ->
  (improved = false /\ a = a0 \/ improved = true /\ attains best a) ->
  let r := pv_loop pinned basis cfg k rec n ply (Z.of_nat (S d')) b s g i best a improved in
  let '(s', best', a', improved', aborted) := r in
  let M := Z.max a0 (nm (S d') p) in
  SI s' /\ okl best' /\
  (cancelled k s' = false -> aborted = false /\
   (M < b -> a' = M /\ (a0 < a' -> attains best' a')) /\ (b <= M -> b <= a' <= M)).
Proof.
  induction n; intros s g i best a improved seen HS G HB HF Hab HSEEN HIMP;
  pose proof (pv_done a0 b best a improved seen Hab HSEEN HIMP) as DONE.
  { cbn [pv_loop]. refine (conj HS (conj HB (fun _ => conj eq_refl _))). apply DONE.
    pose proof (gen_step 0 g seen s G HS HF) as ST; cbn [mg_next step_ok] in ST; exact ST. }
  cbn [pv_loop].
  pose proof (gen_step (gfuel g) g seen s G HS (gfuel_ok _ _ _ _ G)) as ST.
  destruct (mg_next pinned basis cfg (gfuel g) s g) as [g' [[m q]|]]; cbn [step_ok] in ST.
  2:{ refine (conj HS (conj HB (fun _ => conj eq_refl _))). apply DONE; exact ST. }
  destruct ST as (Hm & HT & Hq & G' & HLT & _).
  pose proof (pv_child_ok (set_fm s ply m) q ply best a b (i + 1) (SI_set_fm _ _ _ HS) Hq HB ltac:(lia)) as R.
  destruct (pv_child rec (set_fm s ply m) q ply (Z.of_nat (S d')) best a b (i + 1)) as [s1 [ms v]].
  cbn [fst snd] in R. destruct R as (HS1 & Hms & VS).
  pose proof (child_le q Hq) as QLE.
  destruct (a <? - v) eqn:EA.
  - apply Z.ltb_lt in EA.
    assert (HB' : okl (m :: ms)) by (constructor; assumption).
    assert (HS2 : SI (set_fpv s1 ply (set_prefix (znth (fpv s1) ply []) (m :: ms)))).
    { apply SI_set_fpv; [assumption|]. apply okl_set_prefix; [apply okl_frame; assumption|assumption]. }
    destruct (b <=? - v) eqn:EB.
    + apply Z.leb_le in EB. refine (conj (SI_record_cut _ m _ _ _ HS2 Hm) (conj HB' _)).
      rewrite canc_cut, canc_fpv. intros NC. destruct (VS NC) as (V1 & V2 & V3). split; [reflexivity|]. lia.
    + apply Z.leb_gt in EB. rewrite canc_fpv.
      destruct (cancelled k s1) eqn:EK.
      * refine (conj HS2 (conj HB' _)). rewrite canc_fpv. intros NC. rewrite EK in NC. discriminate NC.
      * destruct (VS eq_refl) as (V1 & V2 & V3).
        assert (EX : - v = x q) by lia.
        apply (IHn _ g' (i + 1) (m :: ms) (- v) true (q :: seen)); auto; [lia|lia| |].
        -- intros q0 [<-|H0]; [lia|]. specialize (HSEEN q0 H0). lia.
        -- right. split; [reflexivity|]. exists m, ms, q. refine (conj eq_refl (conj HT (conj Hq _))). lia.
  - apply Z.ltb_ge in EA. destruct (cancelled k s1) eqn:EK.
    + refine (conj HS1 (conj HB _)). intros NC. rewrite EK in NC. discriminate NC.
    + destruct (VS eq_refl) as (V1 & V2 & V3).
      apply (IHn s1 g' (i + 1) best a improved (q :: seen)); auto; [lia|].
      intros q0 [<-|H0]; [lia|apply HSEEN; assumption].
Qed.
End Node.

Lemma srch_step_okx_0 rec : rec_okx 0 (srch_step pinned basis cfg k rec).
Proof.
  intros zw s p ply pv a b cut HS Hp Hpv Hab. cbv zeta. unfold srch_step. cbn [Z.of_nat Z.leb Z.compare orb].
  cbn [fst snd]. split; [apply SI_count_eval; apply SI_bump; assumption|]. split; [constructor|]. split; [reflexivity|]. intros _.
  fold eval. change (eval p) with (nm 0 p).
  destruct zw; unfold zw_spec, pv_spec, head_spec; fold eval; [lia|]. split; [lia|]. intros _ _ F; inversion F.
Qed.

Lemma srch_step_okx_S d' rec : rec_okx d' rec -> mono rec -> rec_okx (S d') (srch_step pinned basis cfg k rec).
Proof.
  intros Hrec Hmono zw s p ply pv a b cut HS Hp Hpv Hab. cbv zeta. unfold srch_step.
  replace (Z.of_nat (S d') <=? 0) with false by (symmetry; apply Z.leb_gt; lia). cbn [orb].
  destruct (is_over p) eqn:EO.
  { cbn [fst snd]. split; [apply SI_count_eval; apply SI_bump; assumption|]. split; [constructor|]. split; [reflexivity|]. intros _.
    fold eval. rewrite <- (nmx_over basis eval (S d') p EO).
    destruct zw; unfold zw_spec, pv_spec, head_spec; fold eval; [lia|]. split; [lia|]. intros _ F; rewrite EO in F; discriminate F. }
  match goal with |- context [tt_probe basis ?s1 p ply ?dd a ?bb] =>
    assert (HS1 : SI s1) by (apply SI_bump; assumption); rewrite (tt_probe_none basis s1 p ply dd a bb (proj1 HS1)); set (sb := s1) in * end.
  destruct zw.
  - unfold zw_node. unfold null_move_ok. rewrite Hnonull.
    unfold zw_reduce, reduce_slide. rewrite Hnoreduce. cbn [negb andb].
    unfold zw_mc. rewrite Hnomc. cbn [andb]. unfold zw_tail.
    pose proof (zw_loop_ok d' rec Hrec p Hp EO ply a cut (gfuel (set_i (new_gen sb None pv ply (Z.of_nat (S d')) p) 0)) sb (set_i (new_gen sb None pv ply (Z.of_nat (S d')) p) 0) 0
                  (firstn 1 (znth (fpv sb) ply [])) []
                  HS1 (GI_seti0 _ _ _ _ (GI_new basis p sb pv ply _ Hpv) eq_refl)
                  (Forall_firstn _ _ _ (okl_frame sb ply HS1)) (gfuel_ok _ _ _ _ (GI_seti0 _ _ _ _ (GI_new basis p sb pv ply _ Hpv) eq_refl)) ltac:(intros q F; destruct F)) as L.
    cbv zeta in L.
    destruct (zw_loop pinned basis cfg k rec (gfuel (set_i (new_gen sb None pv ply (Z.of_nat (S d')) p) 0)) ply (Z.of_nat (S d')) a cut sb (set_i (new_gen sb None pv ply (Z.of_nat (S d')) p) 0) 0
                (firstn 1 (znth (fpv sb) ply []))) as [[[s2 best] didcut] ab].
    destruct L as (HS2 & HB2 & V). destruct ab; cbn [fst snd].
    + split; [assumption|]. split; [constructor|]. split; [intros F; discriminate F|]. intros NC. destruct (V NC) as (F & _). discriminate F.
    + rewrite (zw_store_none k s2 p _ best a didcut (proj1 HS2)).
      split; [assumption|]. split; [assumption|]. split; [intros F; discriminate F|]. intros NC. destruct (V NC) as (_ & V').
      unfold zw_spec. fold eval. destruct didcut; lia.
  - specialize (Hab eq_refl). unfold pv_node.
    set (best0 := match pv with [] => firstn 1 (znth (fpv sb) ply []) | _ :: _ => pv end).
    assert (HB0 : okl best0) by (subst best0; destruct pv; [apply Forall_firstn; apply okl_frame; assumption|assumption]).
    set (s2 := set_fpv sb ply (set_prefix (znth (fpv sb) ply []) best0)).
    assert (HS2 : SI s2) by (apply SI_set_fpv; [assumption|apply okl_set_prefix; [apply okl_frame; assumption|assumption]]).
    pose proof (pv_loop_ok d' rec Hrec Hmono p Hp EO ply a b (gfuel (new_gen sb None pv ply (Z.of_nat (S d')) p)) s2 (new_gen sb None pv ply (Z.of_nat (S d')) p) 0 best0 a false []
                  HS2 (GI_new basis p sb pv ply _ Hpv) HB0 (gfuel_ok _ _ _ _ (GI_new basis p sb pv ply _ Hpv)) ltac:(lia) ltac:(intros q F; destruct F)
                  ltac:(left; split; reflexivity)) as L.
    cbv zeta in L.
    destruct (pv_loop pinned basis cfg k rec (gfuel (new_gen sb None pv ply (Z.of_nat (S d')) p)) ply (Z.of_nat (S d')) b s2 (new_gen sb None pv ply (Z.of_nat (S d')) p) 0 best0 a false)
      as [[[[s3 best] a'] improved] ab].
    destruct L as (HS3 & HB3 & V). destruct ab; cbn [fst snd].
    + split; [assumption|]. split; [constructor|]. split; [intros F; discriminate F|]. intros NC. destruct (V NC) as (F & _). discriminate F.
    + rewrite (pv_store_none k s3 p _ best a' b improved (proj1 HS3)).
      split; [assumption|]. split; [assumption|]. split; [intros F; discriminate F|]. intros NC. destruct (V NC) as (_ & L1 & L2). split.
      * unfold pv_spec. fold eval. lia.
      * unfold head_spec. fold eval. intros W _ _. destruct L1 as (E & AT); [lia|].
        destruct AT as (m & rest & q & -> & T & Hq & X); [lia|]. exists m, rest, q. refine (conj eq_refl (conj T (conj Hq _))).
        replace (S d' - 1)%nat with d' by lia. lia.
Qed.

Lemma srch_okx : forall f d, (d < f)%nat -> rec_okx d (srch pinned basis cfg k f).
Proof.
  induction f; intros d Hd; [lia|]. cbn [srch]. destruct d as [|d'].
  - apply srch_step_okx_0.
  - apply srch_step_okx_S; [apply IHf; lia|apply srch_mono].
Qed.

(* ---- Analyze ---- *)
Hypothesis Hbound : forall d p, Pos d p -> MinEval <= eval p <= MaxEval.

Lemma nm_boundsx : forall d p, Pos d p -> MinEval <= nm d p <= MaxEval.
Proof.
  induction d; intros p Hp; [apply (Hbound 0); assumption|].
  destruct (is_over p) eqn:EO; [rewrite (nmx_over basis eval (S d) p EO); apply (Hbound (S d)); assumption|].
  destruct (nmx_attained basis eval d p EO (Hlive d p Hp EO)) as (q & Hq & E). rewrite E.
  pose proof (IHd q (Hclosed d p q Hp EO Hq)). unfold MinEval in *. lia.
Qed.

Lemma az_iter_exactx D p : (forall d, (1 <= d <= 16)%nat -> Z.of_nat d <= D -> Pos d p) -> forall n i s ms v acc d,
  SI s -> okl ms -> 1 <= i -> Z.of_nat n + i <= 17 -> d = i - 1 -> (0 < d -> exact_result basis cfg p ms v d) ->
  forall sk pv' v' d' acc' c', az_iter pinned basis cfg k D 0 p n i s ms v acc d = (sk, (pv', v', d', acc', c')) ->
  SI sk /\ (0 < d' -> exact_result basis cfg p pv' v' d').
Proof.
  intros HP. induction n; intros i s ms v acc d HS Hms Hi Hn Hd Hgood sk pv' v' d' acc' c' H; cbn [az_iter] in H.
  { inversion H; subst. split; assumption. }
  destruct (D <? i + 0) eqn:ED; [inversion H; subst; split; assumption|].
  rewrite Z.add_0_r in H, ED. apply Z.ltb_ge in ED.
  assert (Hp : Pos (Z.to_nat i) p) by (apply HP; lia).
  pose proof (srch_okx 40 (Z.to_nat i) ltac:(lia) false (reset_st s) p 0 ms (MinEval - 1) (MaxEval + 1) true
                (SI_reset_st s HS) Hp Hms ltac:(intros _; unfold MinEval, MaxEval; lia)) as R.
  cbv zeta in R. rewrite (Z2Nat.id i ltac:(lia)) in R.
  destruct (srch pinned basis cfg k 40 false (reset_st s) p 0 i ms (MinEval - 1) (MaxEval + 1) true) as [s1 [next nv]].
  cbn [fst snd] in R. destruct R as (HS1 & Hnext & HOV & PVS).
  destruct (cancelled k s1) eqn:EK; [inversion H; subst; split; assumption|].
  destruct (PVS eq_refl) as (PV & HD).
  destruct next as [|m rest]; [inversion H; subst; split; assumption|].
  assert (EO : is_over p = false) by (destruct (is_over p); [specialize (HOV eq_refl); discriminate HOV|reflexivity]).
  pose proof (nm_boundsx (Z.to_nat i) p Hp) as NB.
  assert (W : MinEval - 1 < nm (Z.to_nat i) p < MaxEval + 1) by lia.
  assert (GOOD : exact_result basis cfg p (m :: rest) nv i).
  { destruct PV as (_ & P2 & _). split; [apply P2; exact W|].
    destruct (HD W EO ltac:(lia)) as (m0 & rest0 & q & E & T & Hq & X). exists m0, rest0, q.
    refine (conj E (conj T (conj Hq _))). rewrite (P2 W). exact X. }
  destruct ((WinThreshold <? nv) || (nv <? - WinThreshold)).
  - inversion H; subst. split; [assumption|]. intros _. exact GOOD.
  - apply (IHn (i + 1) s1 (m :: rest) nv _ i HS1 Hnext ltac:(lia) ltac:(lia) ltac:(lia) ltac:(intros _; exact GOOD) _ _ _ _ _ _ H).
Qed.

(* the depth Analyze reports never exceeds the configured depth (no table: the deepening starts at 1) *)
Lemma az_iter_depth_le D p : forall n i s ms v acc d sk pv' v' d' acc' c',
  az_iter pinned basis cfg k D 0 p n i s ms v acc d = (sk, (pv', v', d', acc', c')) -> d' <= Z.max d D.
Proof.
  induction n; intros i s ms v acc d sk pv' v' d' acc' c' H; cbn [az_iter] in H; [inversion H; lia|].
  destruct (D <? i + 0) eqn:ED; [inversion H; lia|]. apply Z.ltb_ge in ED.
  destruct (srch pinned basis cfg k 40 false (reset_st s) p 0 (i + 0) ms (MinEval - 1) (MaxEval + 1) true) as [s1 [next nv]].
  destruct (if cancelled k s1 then [] else next); [inversion H; lia|].
  destruct ((WinThreshold <? nv) || (nv <? - WinThreshold)); [inversion H; lia|].
  apply IHn in H. lia.
Qed.

(* C05, clause 1 with depth-indexed hypotheses, for EVERY cancellation point k (k = 0: never cancelled): root p with Pos d p for
   every depth 1 <= d <= min(16, D) the deepening loop can reach. *)
Theorem analyze_precise_exactx : forall D s p sk pv v d acc c,
  SI s -> (forall d, (1 <= d <= 16)%nat -> Z.of_nat d <= D -> Pos d p) ->
  analyze_depth pinned basis cfg k D s p = (sk, (pv, v, d, acc, c)) ->
  SI sk /\ d <= Z.max 0 D /\ (0 < d -> exact_result basis cfg p pv v d).
Proof.
  intros D s p sk pv v d acc c HS Hp H. unfold analyze_depth in H.
  assert (ER : az_root pinned (az_start s) p = (0, [], 0)).
  { unfold az_root, tt_get. rewrite (proj1 (SI_az_start s HS)). reflexivity. }
  rewrite ER in H.
  destruct (az_iter_exactx D p Hp 16 1 (az_start s) [] 0 stats0 0 (SI_az_start s HS) ltac:(constructor) ltac:(lia) ltac:(cbn; lia) ltac:(lia)
           ltac:(intros F; lia) _ _ _ _ _ _ H) as (A & B).
  split; [exact A|]. split; [exact (az_iter_depth_le D p _ _ _ _ _ _ _ _ _ _ _ _ _ H)|exact B].
Qed.
End ExactIx.

(* ---- the statement for the repaired code (pinned = false), entry point analyze_cancel (k = 0: analyze_search) ---- *)
Definition rules_factsx (basis : list N) (cfg : config) (Pos : nat -> position -> Prop) : Prop :=
  (forall d p q, Pos (S d) p -> is_over p = false -> In q (children basis p) -> Pos d q) /\
  (forall d p m q, Pos (S d) p -> is_over p = false -> okm m -> try_move basis p m = Some q -> In q (children basis p)) /\
  (forall d p, Pos (S d) p -> is_over p = false -> children basis p <> []) /\
  (forall d p, Pos d p -> MinEval <= c_eval cfg p <= MaxEval).

Theorem analyze_precise_exact_indexed : forall basis cfg Pos, precise cfg -> rules_factsx basis cfg Pos ->
  forall k s p sk pv v d acc c, SI s ->
  (forall d, (1 <= d <= 16)%nat -> Z.of_nat d <= c_depth cfg -> Pos d p) ->
  analyze_cancel basis cfg k s p = (sk, (pv, v, d, acc, c)) ->
  SI sk /\ (0 < d -> exact_result basis cfg p pv v d).
Proof.
  intros basis cfg Pos (P1 & P2 & P3) (R1 & R2 & R4 & R5) k s p sk pv v d acc c HS Hp H.
  destruct (analyze_precise_exactx false basis cfg k P1 P2 P3 Pos R1 R2 R4 R5 (c_depth cfg) s p sk pv v d acc c HS Hp H) as (A & _ & B).
  split; assumption.
Qed.

(* the un-indexed bundle of SearchExact.v is the special case of a set closed under moves *)
Lemma rules_facts_indexed basis cfg Pos : rules_facts basis cfg Pos -> rules_factsx basis cfg (fun _ => Pos).
Proof. intros (R1 & R2 & R4 & R5). repeat split; intros; eauto; apply R5; assumption. Qed.
