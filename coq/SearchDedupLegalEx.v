(* SearchDedupLegalEx.v: non-vacuity of C04 for the dedup-capable model: the run of SearchDedupEx.v (empty 3x3 board, depth 2, option ON)
   satisfies every hypothesis of analyze_d_first_move_legal_notable, and its line starts with an accepted move. *)
From Coq Require Import NArith ZArith List Bool Lia.
Require Import Board Stack Rules Move GameOver Refine Preserve1 Reach1 CancelEx Eval EvalSpec Search SearchExact SearchInst SearchC SearchNeg2 SearchNeg5.
Require Import SearchLegal3 SearchDedup SearchDedupInst SearchDedupLegal SearchDedupEx.
Require Import Generated.Consts.
Import ListNotations.
Open Scope Z_scope.

Example dedup_legal_applies :
  builtin_eval cfg_dd /\ base_ok start3 /\ is_over start3 = false /\ withinP (Z.to_nat (c_depth cfg_dd)) start3 /\
  head_legal start3 (r_pv (snd run_on)) /\ r_canceled (snd run_on) = false.
Proof.
  assert (HE : builtin_eval cfg_dd) by (left; reflexivity).
  assert (Hb : base_ok start3) by (rewrite start3_new; apply base_ok_new; lia).
  assert (HO : is_over start3 = false) by (vm_compute; reflexivity).
  assert (HW : withinP (Z.to_nat (c_depth cfg_dd)) start3) by (apply withinP_total64; [apply Hb|vm_compute; intros F; discriminate F]).
  assert (HC : r_canceled (snd run_on) = false) by (vm_compute; reflexivity).
  assert (E : analyze_gen_d gen_basis cfg_dd 0 true (new_state 0) start3 =
              (fst run_on, (r_pv (snd run_on), r_value (snd run_on), r_depth (snd run_on), r_acc_d (snd run_on), r_canceled (snd run_on)))).
  { unfold run_on, run_analyze_d. destruct (analyze_gen_d gen_basis cfg_dd 0 true (new_state 0) start3) as [s [[[[pv v] d] acc] c]]. reflexivity. }
  assert (M : move start3 + c_depth cfg_dd <= max_terminal_ply) by (vm_compute; intros F; discriminate F).
  pose proof (analyze_d_first_move_legal_notable cfg_dd HE 0 true (new_state 0) start3 (fst run_on) (r_pv (snd run_on)) (r_value (snd run_on))
                (r_depth (snd run_on)) (r_acc_d (snd run_on)) (r_canceled (snd run_on)) (SI_new 0 eq_refl) Hb HO HW M E) as (_ & T).
  assert (P : 0 < c_depth cfg_dd) by (vm_compute; reflexivity).
  split; [exact HE|]. split; [exact Hb|]. split; [exact HO|]. split; [exact HW|]. split; [exact (T HC P)|exact HC].
Qed.
