(* SearchDedupInst.v: the engine model with Cfg.DedupSymmetry (SearchDedup.v) instantiated with the hash basis regenerated from /repo:
   the entry points the OCaml driver of C05 calls for configurations with the option set. *)
From Coq Require Import NArith ZArith List.
Require Import Board Move GameOver Eval Search SearchDedup.
Require Import Generated.Consts.

Definition run_analyze_d (dedup : bool) (cfg : config) (k : Z) (s : sstate) (p : position) := analyze_gen_d gen_basis cfg k dedup s p.
Definition run_analyze_all_d (dedup : bool) (cfg : config) (k : Z) (s : sstate) (p : position) := analyze_all_gen_d gen_basis cfg k dedup s p.
