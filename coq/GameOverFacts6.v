(* C02, part 6: the extra clauses of `inv` (no stray bits, non-wrapping reserve sums) are inductive along moves:
   stray bits by PtnFileSafe.move_prealloc_safe, reserve sums because rules_move never increases a reserve (and the engine
   refines rules_move, MoveRefines.move_refines_rules).  The board_ok clause of the successor is C01's preservation result
   and is taken as a hypothesis here. *)
From Coq Require Import NArith ZArith Arith List Bool Lia ZifyN ZifyBool ZifyNat.
Require Import Board Stack Rules Move GameOver Refine RefinePlace RefinePlace2 RefinePlace3
               Slide1 Slide2 Slide3 Slide4 Slide5 Slide6 Slide7 Slide8 MoveRefines PtnFileSafe
               GameOverFacts1 GameOverFacts2.
Import ListNotations.

Lemma inv_safe p : inv p -> safe p.
Proof.
  intros [Hs [LH LS _] Hw Hb _ _]. cbn [bview bhs bst] in LH, LS. unfold nsq in *.
  constructor; try assumption; lia.
Qed.

Lemma inv_of_safe p : safe p -> board_ok (size p) (bview p) ->
  (whiteStones p + whiteCaps p < 256)%N -> (blackStones p + blackCaps p < 256)%N -> inv p.
Proof. intros [Hs _ _ Hw Hb] Hok H1 H2. constructor; assumption. Qed.

(* no move of the rules increases a reserve *)
Lemma rules_move_reserves P m P' : rules_move P m = Some P' ->
  (wstones P' <= wstones P /\ wcaps P' <= wcaps P /\ bstones P' <= bstones P /\ bcaps P' <= bcaps P)%N.
Proof.
  unfold rules_move. destruct (decode m) as [[k x y|d x y drops]|]; [| |discriminate].
  - unfold place. destruct (negb (on_board P x y)); [discriminate|]. destruct (stack_at P x y); [|discriminate].
    destruct ((ply P <? 2)%Z && match k with Flat => false | _ => true end); [discriminate|].
    destruct k, (if (ply P <? 2)%Z then flip (to_move P) else to_move P);
      match goal with |- context [N.eqb ?r 0] => destruct (N.eqb_spec r 0) end; try discriminate;
      intros E; inversion E; subst; cbn [wstones wcaps bstones bcaps]; lia.
  - unfold slide. destruct (ply P <? 2)%Z; [discriminate|]. destruct (negb (on_board P x y)); [discriminate|].
    destruct (existsb (N.eqb 0) drops); [discriminate|].
    destruct (_ || _ || _); [discriminate|]. destruct (stack_at P x y) as [|[c k] t]; [discriminate|].
    destruct (negb (colour_eqb c (to_move P))); [discriminate|].
    destruct (deal _ _ _ _ _ _ _); [|discriminate]. intros E; inversion E; subst; cbn [wstones wcaps bstones bcaps]; lia.
Qed.

Theorem inv_step p m : inv p -> tall_ok p -> mT m <> 1%N ->
  match mv p m with
  | Ok p' => board_ok (size p') (bview p') -> inv p'
  | _ => True
  end.
Proof.
  intros I Ht Hm. assert (S := inv_safe p I). destruct I as [Hs Hok Hw Hb R1 R2].
  assert (Hr : reserves_ok p) by (unfold reserves_ok; lia).
  assert (H1 := move_refines_rules p m Hs Hok Hr Ht Hm). assert (H2 := move_prealloc_safe hsq p m S). fold mv in H2.
  destruct (mv p m) as [p'| |]; [|exact Logic.I|exact Logic.I].
  intros Hok'. apply rules_move_reserves in H1. cbn [abs wstones wcaps bstones bcaps] in H1.
  apply inv_of_safe; [exact H2|exact Hok'|lia|lia].
Qed.
Print Assumptions inv_step.
