(* SearchAllLegal.v: C04 for AnalyzeAll on the EXECUTED engine model (Search.analyze_all_gen), for EVERY configuration - table of any
   size and content, null move, slide reduction, multi-cut, sorting, any cancellation point k, any engine state satisfying SJ
   (SearchLegal2.v): the first line is Analyze's line (SearchLegal2.analyze_legal: the never re-validated seed of an exact root entry, or
   a line whose head MovePreallocated accepts) and EVERY FURTHER LINE starts with a move that MovePreallocated accepts at p; the engine
   state afterwards satisfies SJ again.  On top of SearchLegal1/2: the generator yields only accepted moves (mg_next_stepj), the child
   searches of the second pass keep SJ (srch_bnd; their window (-v-1, -v+1) lies inside the root window because the reported value is
   an evaluation, |v| <= MaxEval). *)
From Coq Require Import NArith ZArith List Bool Lia Permutation.
Require Import Board Move GameOver Eval Search NegamaxSpec SearchGen SearchExact CancelFacts SearchLegal1 SearchLegal2 SearchAll1.
Import ListNotations.
Open Scope Z_scope.

Section AllLegal.
Variable basis : list N.
Variable cfg : config.
Variable k : Z.
Let eval := c_eval cfg.

Variable Pos : nat -> position -> Prop.
Hypothesis Hanti : forall d p, Pos (S d) p -> Pos d p.
Hypothesis Hstep : forall d p m q, Pos (S d) p -> is_over p = false -> okm m -> try_move basis p m = Some q -> Pos d q.
Hypothesis Hpass : forall d p, Pos (S d) p -> is_over p = false -> Pos d (pass_move p).
Hypothesis Hlive : forall d p, Pos (S d) p -> is_over p = false -> exists m q, In m (all_moves p) /\ try_move basis p m = Some q.
Hypothesis Hbound : forall d p, Pos d p -> okv (eval p).

Lemma leaf_eq f zw s p ply depth pv a b cut : depth <= 0 ->
  srch false basis cfg k (S f) zw s p ply depth pv a b cut = (count_eval (bump s (st_eval (is_over p))), ([], c_eval cfg p)).
Proof.
  clear Hanti Hstep Hpass Hlive Hbound.
  intros H. cbn [srch]. unfold srch_step. replace (depth <=? 0) with true by (symmetry; apply Z.leb_le; lia). reflexivity.
Qed.

(* ---- Analyze: the reported value is an evaluation, the reported depth is the seed's or one the loop was allowed to run ---- *)
Section Az.
Variable p : position.
Variable D : Z.
Hypothesis HP : forall d, Z.of_nat d <= D -> Pos d p.
Hypothesis HO : is_over p = false.
Variable base : Z.

Lemma az_iter_okv : forall n i s ms v acc d,
  SJ s -> okl ms -> 1 <= i -> okv v ->
  forall sk pv' v' d' acc' c', az_iter false basis cfg k D base p n i s ms v acc d = (sk, (pv', v', d', acc', c')) ->
  okv v' /\ d' <= Z.max d D.
Proof.
  induction n; intros i s ms v acc d HS Hms Hi Hv sk pv' v' d' acc' c' H; cbn [az_iter] in H.
  { inversion H; subst. split; [exact Hv|lia]. }
  destruct (D <? i + base) eqn:ED.
  { inversion H; subst. split; [exact Hv|lia]. }
  apply Z.ltb_ge in ED.
  destruct (Z_le_gt_dec (i + base) 0) as [NEG|POSD].
  { rewrite (leaf_eq 39 false (reset_st s) p 0 (i + base) ms (MinEval - 1) (MaxEval + 1) true NEG) in H.
    destruct (cancelled k _) in H; inversion H; subst; (split; [exact Hv|lia]). }
  assert (HPd : Pos (Z.to_nat (i + base)) p) by (apply HP; lia).
  pose proof (srch_root basis cfg k Pos Hanti Hstep Hpass Hlive Hbound 39 (reset_st s) p (i + base) ms (SJ_reset_st s HS) HPd Hms ltac:(lia) HO) as R.
  cbv zeta in R. change (S 39) with 40%nat in R.
  destruct (srch false basis cfg k 40 false (reset_st s) p 0 (i + base) ms (MinEval - 1) (MaxEval + 1) true) as [s1 [next nv]].
  cbn [fst snd] in R. destruct R as (HS1 & Hnext & Hnv & _).
  destruct (cancelled k s1).
  { inversion H; subst. split; [exact Hv|lia]. }
  destruct next as [|m rest]; [inversion H; subst; split; [exact Hv|lia]|].
  destruct ((WinThreshold <? nv) || (nv <? - WinThreshold)).
  - inversion H; subst. split; [exact Hnv|lia].
  - destruct (IHn (i + 1) s1 (m :: rest) nv _ (i + base) HS1 Hnext ltac:(lia) Hnv _ _ _ _ _ _ H) as (A & B). split; [exact A|lia].
Qed.
End Az.

(* ---- the second pass ---- *)
Section Pass.
Variable p : position.
Variable d0 : nat.
Hypothesis Hp : Pos (S d0) p.
Hypothesis Hover : is_over p = false.
Variable d v : Z.
Hypothesis Hd : (Z.to_nat (d - 1) <= d0)%nat.
Hypothesis Hv : okv v.
Variable pm : rmove.
Variable pvt : list rmove.
Hypothesis Hpvt : okl pvt.

Lemma aa_loop_legal : forall n s g out seen,
  SJ s -> GJ basis p seen g ->
  let r := aa_loop false basis cfg k d v pm pvt n s g out in
  SJ (fst (fst r)) /\ exists tails, snd (fst r) = out ++ tails /\ Forall (fun l => head_ok basis p l /\ okl l) tails.
Proof.
  induction n; intros s g out seen HS G; cbv zeta; cbn [aa_loop].
  { cbn [fst snd]. split; [exact HS|]. exists []. rewrite app_nil_r. split; [reflexivity|constructor]. }
  pose proof (mg_next_stepj basis cfg p (gfuel g) g seen s G (proj1 (proj2 HS)) (gfuel_okj basis p seen g G)) as ST.
  destruct (mg_next false basis cfg (gfuel g) s g) as [g' [[m q]|]]; cbn [stepj] in ST.
  2:{ cbn [fst snd]. split; [exact HS|]. exists []. rewrite app_nil_r. split; [reflexivity|constructor]. }
  destruct ST as (Hm & T & G' & _).
  assert (Hq : Pos (Z.to_nat (d - 1)) q).
  { apply (Pos_le Pos Hanti d0); [apply (Hstep d0 p m q Hp Hover Hm T)|exact Hd]. }
  destruct minmax as (MM & MP). unfold okv in Hv.
  pose proof (srch_bnd basis cfg k Pos Hanti Hstep Hpass Hlive Hbound 40 false (set_fm s 0 m) q 1 (d - 1) pvt (- v - 1) (- v + 1) true
                (SJ_set_fm _ _ _ HS) Hq Hpvt ltac:(unfold win_ok; lia)) as R.
  cbv zeta in R.
  destruct (srch false basis cfg k 40 false (set_fm s 0 m) q 1 (d - 1) pvt (- v - 1) (- v + 1) true) as [s1 [msc cv]].
  cbn [fst snd] in R. destruct R as (HS1 & Hmsc & _).
  destruct (negb false && cancelled k s1).
  { cbn [fst snd]. split; [exact HS1|]. exists []. rewrite app_nil_r. split; [reflexivity|constructor]. }
  destruct (negb (- cv =? v)); [apply (IHn s1 g' out (q :: seen) HS1 G')|].
  destruct (move_equal m pm); [apply (IHn s1 g' out (q :: seen) HS1 G')|].
  destruct (IHn s1 g' (out ++ [m :: msc]) (q :: seen) HS1 G') as (A & tails & B & C).
  split; [exact A|]. exists ((m :: msc) :: tails). split; [rewrite B, <- app_assoc; reflexivity|].
  constructor; [|exact C]. split; [exists m, msc, q; auto|constructor; assumption].
Qed.
End Pass.

(* C04 for AnalyzeAll, executed model, every configuration.  (base, ms0, v0) = the seed Analyze takes from an exact root entry. *)
Theorem analyze_all_legal : forall s p sk pvs v d c, SJ s -> is_over p = false ->
  let '(base, ms0, v0) := az_root false (az_start s) p in
  (forall d, Z.of_nat d <= Z.max 1 (Z.max (c_depth cfg) base) -> Pos d p) ->
  analyze_all_gen false basis cfg k s p = (sk, (pvs, v, d, c)) ->
  SJ sk /\
  match pvs with
  | [] => d = base /\ ms0 = []
  | l0 :: tails => l0 <> [] /\ ((d = base /\ l0 = ms0) \/ (base < d /\ head_ok basis p l0)) /\ Forall (fun l => head_ok basis p l /\ okl l) tails
  end.
Proof.
  intros s p sk pvs v d c HS HO.
  pose proof (analyze_legal basis cfg k Pos Hanti Hstep Hpass Hlive Hbound s p) as AL.
  assert (SEED : forall b m0 vv, az_root false (az_start s) p = (b, m0, vv) -> okl m0 /\ okv vv).
  { unfold az_root. intros b m0 vv E. destruct (tt_get (az_start s) (phash p)) as [i|]; [|inversion E; split; [constructor|apply okv0]].
    pose proof (SJ_te (az_start s) i (SJ_az_start s HS)) as (Tm & Tv & Tb).
    set (te := nth i (table (az_start s)) entry0) in *.
    destruct (e_bound te =? 1)%N eqn:EB; inversion E; [|split; [constructor|apply okv0]].
    split; [constructor; [exact Tm|constructor]|].
    apply N.eqb_eq in EB. unfold okv. destruct (Z.eq_dec (e_value te) (MinEval - 1)) as [EQ|NE]; [|lia].
    specialize (Tb EQ). rewrite Tb in EB. discriminate EB. }
  destruct (az_root false (az_start s) p) as [[base ms0] v0] eqn:ER. intros HP H.
  destruct (SEED _ _ _ eq_refl) as (Hms0 & Hv0).
  rewrite analyze_all_unfold in H.
  destruct (analyze_gen false basis cfg k s p) as [s1 [[[[pv v1] d1] acc1] c1]] eqn:EA.
  specialize (AL s1 pv v1 d1 acc1 c1 HS ltac:(intros d2 L; apply HP; lia) HO eq_refl).
  destruct AL as (HS1 & Hpv & LINE & _).
  assert (VD : okv v1 /\ d1 <= Z.max base (c_depth cfg)).
  { unfold analyze_gen, analyze_depth in EA. rewrite ER in EA.
    apply (az_iter_okv p (c_depth cfg) ltac:(intros d2 L; apply HP; lia) HO base 16 1 (az_start s) ms0 v0 stats0 base
             (SJ_az_start s HS) Hms0 ltac:(lia) Hv0 _ _ _ _ _ _ EA). }
  destruct VD as (Hv1 & Hd1).
  destruct pv as [|pm pvt].
  { inversion H; subst. split; [exact HS1|]. destruct LINE as [(A & B)|(_ & (m & rest & q & E & _))]; [split; [exact A|symmetry; exact B]|discriminate E]. }
  set (dd := Z.to_nat (d1 - 1)).
  assert (Hp : Pos (S dd) p) by (apply HP; unfold dd; lia).
  pose proof (aa_loop_legal p dd Hp HO d1 v1 ltac:(unfold dd; lia) Hv1 pm pvt ltac:(inversion Hpv; assumption)
                (gfuel (new_gen s1 None (pm :: pvt) 0 d1 p)) s1 (new_gen s1 None (pm :: pvt) 0 d1 p) [pm :: pvt] []
                HS1 (GJ_new basis p s1 None (pm :: pvt) 0 d1 ltac:(intros i F; discriminate F) Hpv)) as R.
  cbv zeta in R, H.
  destruct (aa_loop false basis cfg k d1 v1 pm pvt (gfuel (new_gen s1 None (pm :: pvt) 0 d1 p)) s1 (new_gen s1 None (pm :: pvt) 0 d1 p) [pm :: pvt]) as [[s2 out] brk].
  cbn [fst snd] in R. destruct R as (HS2 & tails & -> & TL). inversion H; subst.
  split; [exact HS2|]. cbn [app]. split; [discriminate|]. split; [exact LINE|exact TL].
Qed.
End AllLegal.
