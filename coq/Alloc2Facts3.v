(* C09, refined model, part 3: the ownership invariant of the refined store and the generic preservation lemmas.

   Object i OWNS the arrays o2_H, o2_S, o2_G (the three arrays its positionN struct embeds) and the array its
   WhiteGroups header points into (o2_G, or an array Go's append allocated for it).  wf2: the Height/Stacks
   headers of every object are exactly its own two arrays in full length; its WhiteGroups header is a valid slice of
   an array other than those two; no array is owned by two objects.  shows2 st zs h v: handle h shows the value v
   THROUGH ITS HEADERS, and its BlackGroups header lies in the array of its WhiteGroups header or in an array nobody
   owns (so that nothing is ever written into it again). *)
From Coq Require Import NArith ZArith List Bool Lia Arith.
Require Import Board Move GameOver Alloc AllocFacts AllocFacts2 Alloc2 Alloc2Facts Alloc2Facts2 Alloc2Ext.
Import ListNotations.

Lemma analyze_total_with_hs p hs st : analyze_total (with_hs p hs st) = analyze_total p.
Proof. reflexivity. Qed.

Lemma set_nth_same {A} (l : list A) i x : nth_error l i = Some x -> set_nth l i x = l.
Proof. revert i. induction l as [|a l IH]; intros [|i] H; cbn in *; try discriminate; [congruence|]. f_equal. auto. Qed.

Lemma with_hs_id p : with_hs p (Height p) (Stacks p) = p.
Proof. destruct p; reflexivity. Qed.
Lemma with_hs_scal p hs st : with_hs (scal p) hs st = with_hs p hs st.
Proof. reflexivity. Qed.

(* ---- the invariant ---- *)
Definition owned_by (o : obj2) (a : nat) : Prop := a = o2_H o \/ a = o2_S o \/ a = o2_G o \/ a = r_arr (o2_wg o).
Definition unowned (st : store2) (a : nat) : Prop := forall j oj, nth_error (s2_objs st) j = Some oj -> ~ owned_by oj a.
Definition hdr_of (a n : nat) : sref := {| r_arr := a; r_off := 0; r_len := n |}.

Definition wf_obj (arrs : heap) (z : N) (o : obj2) : Prop :=
  (0 < o2_H o)%nat /\ o2_S o = S (o2_H o) /\ o2_G o = S (S (o2_H o)) /\ (o2_G o < length arrs)%nat /\
  o2_hh o = hdr_of (o2_H o) (nsq2 z) /\ o2_sh o = hdr_of (o2_S o) (nsq2 z) /\
  length (get_arr arrs (o2_H o)) = nsq2 z /\ length (get_arr arrs (o2_S o)) = nsq2 z /\
  valid arrs (o2_wg o) /\ (0 < r_arr (o2_wg o))%nat /\ r_arr (o2_wg o) <> o2_H o /\ r_arr (o2_wg o) <> o2_S o.

Definition wf2 (st : store2) (zs : list N) : Prop :=
  (0 < length (s2_arrs st))%nat /\ length (s2_objs st) = length zs /\
  (forall i o, nth_error (s2_objs st) i = Some o -> wf_obj (s2_arrs st) (nth i zs 0%N) o) /\
  (forall i j oi oj a, nth_error (s2_objs st) i = Some oi -> nth_error (s2_objs st) j = Some oj ->
     owned_by oi a -> owned_by oj a -> i = j).

Definition shows2 (st : store2) (zs : list N) (h : nat) (v : position) : Prop :=
  exists o, nth_error (s2_objs st) h = Some o /\ view (s2_arrs st) o = v /\ size v = nth h zs 0%N /\
    valid (s2_arrs st) (o2_bg o) /\
    read_ref (s2_arrs st) (o2_wg o) = fst (analyze_total v) /\
    read_ref (s2_arrs st) (o2_bg o) = snd (analyze_total v) /\
    (r_arr (o2_bg o) = r_arr (o2_wg o) \/ unowned st (r_arr (o2_bg o))).

Definition inv2 (st : store2) (ps : pstate) (zs : list N) : Prop :=
  length (s2_objs st) = length ps /\ wf2 st zs /\ forall h v, pval ps h = Some v -> shows2 st zs h v.

Lemma wf_obj_hh_valid arrs z o : wf_obj arrs z o -> valid arrs (o2_hh o) /\ valid arrs (o2_sh o) /\ r_arr (o2_hh o) = o2_H o /\ r_arr (o2_sh o) = o2_S o /\
  r_len (o2_hh o) = nsq2 z /\ r_len (o2_sh o) = nsq2 z.
Proof.
  intros (P & ES & EG & LG & Ehh & Esh & LH & LS & _). rewrite Ehh, Esh. unfold hdr_of, valid; cbn [r_arr r_off r_len].
  rewrite LH, LS. repeat split; lia.
Qed.

(* shows2 of a handle survives any change that touches only arrays owned by OTHER objects (or fresh ones) and that
   makes no old array newly owned *)
Lemma shows2_keep st st' zs zs' h v (P : nat -> Prop) : wf2 st zs -> shows2 st zs h v ->
  nth_error (s2_objs st') h = nth_error (s2_objs st) h ->
  keeps (s2_arrs st) (s2_arrs st') P ->
  (forall a o, P a -> (a < length (s2_arrs st))%nat -> nth_error (s2_objs st) h = Some o -> ~ owned_by o a /\ ~ unowned st a) ->
  (forall j oj' a, nth_error (s2_objs st') j = Some oj' -> owned_by oj' a -> (a < length (s2_arrs st))%nat ->
     exists j' oj, nth_error (s2_objs st) j' = Some oj /\ owned_by oj a) ->
  nth h zs' 0%N = nth h zs 0%N ->
  shows2 st' zs' h v.
Proof.
  intros (A0 & AL & AW & AJ) (o & Ho & Ev & Ez & Vb & Rw & Rb & Hs) Eo K HP Hown Enz.
  destruct (wf_obj_hh_valid _ _ _ (AW h o Ho)) as (Vhh & Vsh & Ahh & Ash & _).
  pose proof (AW h o Ho) as (_ & _ & _ & _ & _ & _ & _ & _ & Vw & _).
  assert (NP : forall a, (a < length (s2_arrs st))%nat -> owned_by o a -> ~ P a).
  { intros a Ha Oa Pa. destruct (HP a o Pa Ha Ho) as [X _]. apply X. exact Oa. }
  exists o. split; [rewrite Eo; exact Ho|].
  split.
  { unfold view. rewrite (keeps_read _ _ _ _ K Vhh), (keeps_read _ _ _ _ K Vsh); [exact Ev| |].
    - apply NP; [apply Vsh|]. right. left. exact Ash.
    - apply NP; [apply Vhh|]. left. exact Ahh. }
  split; [rewrite Enz; exact Ez|].
  assert (NPb : ~ P (r_arr (o2_bg o))).
  { destruct Hs as [Hs|Hs].
    - rewrite Hs. apply NP; [apply Vw|]. right. right. right. reflexivity.
    - intro Pa. destruct (HP _ o Pa (proj1 Vb) Ho) as [_ X]. apply X. exact Hs. }
  split; [eapply keeps_valid; eassumption|].
  split; [rewrite (keeps_read _ _ _ _ K Vw); [exact Rw|apply NP; [apply Vw|right; right; right; reflexivity]]|].
  split; [rewrite (keeps_read _ _ _ _ K Vb); [exact Rb|exact NPb]|].
  destruct Hs as [Hs|Hs]; [left; exact Hs|right].
  intros j oj' Hj Oj. destruct (Hown j oj' _ Hj Oj (proj1 Vb)) as (j' & oj & Hj' & Oj'). exact (Hs j' oj Hj' Oj').
Qed.

(* ---- replacing object k by one with the same own arrays and Height/Stacks headers, whose WhiteGroups header stays in
        its array or moves to a fresh one, while only arrays owned by k change ---- *)
Lemma update_facts st zs k ok o' arrs' : wf2 st zs -> nth_error (s2_objs st) k = Some ok ->
  o2_H o' = o2_H ok -> o2_S o' = o2_S ok -> o2_G o' = o2_G ok -> o2_hh o' = o2_hh ok -> o2_sh o' = o2_sh ok ->
  (r_arr (o2_wg o') = r_arr (o2_wg ok) \/ (length (s2_arrs st) <= r_arr (o2_wg o'))%nat) ->
  valid arrs' (o2_wg o') ->
  keeps (s2_arrs st) arrs' (owned_by ok) ->
  let st' := {| s2_objs := set_obj2 (s2_objs st) k o'; s2_arrs := arrs' |} in
  wf2 st' zs /\ nth_error (s2_objs st') k = Some o' /\
  (forall h v, h <> k -> shows2 st zs h v -> shows2 st' zs h v).
Proof.
  intros W Hk EH ES EG Ehh Esh Ewg Vw' K. pose proof W as (A0 & AL & AW & AJ). cbn zeta.
  assert (Hlt : (k < length (s2_objs st))%nat) by (eapply nth_error_lt; eassumption).
  assert (G : forall i o, nth_error (set_obj2 (s2_objs st) k o') i = Some o ->
              (i = k /\ o = o') \/ (i <> k /\ nth_error (s2_objs st) i = Some o)).
  { intros i o Hi. unfold set_obj2 in Hi. rewrite nth_error_set_nth in Hi by assumption.
    destruct (Nat.eqb_spec i k) as [->|Hn]; [left; split; congruence|right; auto]. }
  pose proof (AW k ok Hk) as (P1 & P2 & P3 & P4 & P5 & P6 & P7 & P8 & P9 & P10 & P11 & P12).
  assert (Klen : (length (s2_arrs st) <= length arrs')%nat) by apply K.
  (* what o' owns among the old arrays, ok owned *)
  assert (Own' : forall a, owned_by o' a -> (a < length (s2_arrs st))%nat -> owned_by ok a).
  { intros a [E|[E|[E|E]]] Ha; unfold owned_by; [rewrite <- EH|rewrite <- ES|rewrite <- EG|]; auto.
    destruct Ewg as [Ew|Ew]; [rewrite <- Ew; auto|lia]. }
  assert (OldLt : forall j oj a, nth_error (s2_objs st) j = Some oj -> owned_by oj a -> (a < length (s2_arrs st))%nat).
  { intros j oj a Hj Oa. pose proof (AW j oj Hj) as (Q1 & Q2 & Q3 & Q4 & _ & _ & _ & _ & Q9 & _).
    destruct Oa as [E|[E|[E|E]]]; subst a; try lia. apply Q9. }
  split; [|split].
  - split; [cbn; lia|]. split; [cbn; unfold set_obj2; rewrite set_nth_length; exact AL|]. split.
    + intros i o Hi. cbn [s2_objs s2_arrs] in *. destruct (G i o Hi) as [[-> ->]|[Hn Ho]].
      * unfold wf_obj. rewrite EH, ES, EG, Ehh, Esh.
        destruct K as (_ & KN & _).
        rewrite !KN by lia.
        repeat (split; [first [assumption|lia]|]).
        destruct Ewg as [Ew|Ew]; [rewrite Ew; auto|]. repeat split; lia.
      * pose proof (AW i o Ho) as (Q1 & Q2 & Q3 & Q4 & Q5 & Q6 & Q7 & Q8 & Q9 & Q10 & Q11 & Q12).
        unfold wf_obj. destruct K as (_ & KN & KO).
        rewrite !KN by lia.
        repeat (split; [first [assumption|lia]|]).
        split; [eapply keeps_valid; [split; [exact Klen|split; [exact KN|exact KO]]|exact Q9]|].
        auto.
    + intros i j oi oj a Hi Hj Oi Oj. cbn [s2_objs] in *.
      destruct (G i oi Hi) as [[-> ->]|[Hni Hoi]], (G j oj Hj) as [[-> ->]|[Hnj Hoj]]; [reflexivity| | |eapply AJ; eassumption].
      * assert (Ha : (a < length (s2_arrs st))%nat) by (eapply OldLt; eassumption).
        eapply AJ; [exact Hk|exact Hoj| |exact Oj]. apply Own'; assumption.
      * assert (Ha : (a < length (s2_arrs st))%nat) by (eapply OldLt; eassumption).
        eapply AJ; [exact Hoi|exact Hk|exact Oi|]. apply Own'; assumption.
  - cbn. unfold set_obj2. rewrite nth_error_set_nth, Nat.eqb_refl by assumption. reflexivity.
  - intros h v Hne Hs. pose proof Hs as (o & Ho & _).
    apply (shows2_keep st _ zs zs h v (owned_by ok) W Hs).
    + cbn. unfold set_obj2. rewrite nth_error_set_nth by assumption.
      destruct (Nat.eqb_spec h k); [contradiction|reflexivity].
    + exact K.
    + intros a o0 Pa Ha Ho0. split.
      * intro Oa. apply Hne. eapply AJ; [exact Ho0|exact Hk|exact Oa|exact Pa].
      * intro U. exact (U k ok Hk Pa).
    + intros j oj' a Hj Oa Ha. cbn [s2_objs] in Hj. destruct (G j oj' Hj) as [[-> ->]|[Hn Hoj]].
      * exists k, ok. split; [exact Hk|apply Own'; assumption].
      * exists j, oj'. split; assumption.
    + reflexivity.
Qed.
