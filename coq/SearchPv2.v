(* SearchPv2.v: SearchPv1.analyze_pv_replays with the rules-engine and evaluator hypotheses discharged (instantiated model), stated with
   Reach1.replay: the whole reported variation replays from p. *)
From Coq Require Import NArith ZArith List Bool Lia.
Require Import Board Stack Rules Move GameOver Refine Alloc Slide2 Slide6 Preserve1 Preserve5 Preserve6 Reach1 PreserveEx.
Require Import Eval EvalSpec Search NegamaxSpec SearchGen SearchExact SearchInst SearchC CancelEx SearchNeg1 SearchNeg2 SearchNeg3 SearchNeg4 SearchNeg5 SearchPv1.
Require Import Generated.Consts.
Import ListNotations.
Open Scope Z_scope.

Lemma legal_line_replay : forall ms p, legal_line gen_basis p ms <-> exists q, replay p ms = Ok q.
Proof.
  induction ms as [|m r IH]; intros p; cbn [legal_line replay].
  - split; [intros _; exists p; reflexivity|auto].
  - rewrite (mvp_mv p m). destruct (Refine.mv p m) as [q| |].
    + apply IH.
    + split; [intros []|intros (q & E); discriminate E].
    + split; [intros []|intros (q & E); discriminate E].
Qed.

Section Final.
Variable cfg : config.
Hypothesis Hprecise : precise cfg.

Theorem pv_replays_winner : c_eval cfg = evaluate_winner ->
  forall k s p sk pv v d acc c, SI s -> base_ok p -> within (dmax cfg) p ->
  analyze_cancel gen_basis cfg k s p = (sk, (pv, v, d, acc, c)) -> exists q, replay p pv = Ok q.
Proof.
  intros Hev k s p sk pv v d acc c HS Hb HW H. destruct Hprecise as (P1 & P2 & P3). apply legal_line_replay.
  apply (analyze_pv_replays false gen_basis cfg k P1 P2 P3 PosW PosW_closed
              (fun d p m q HP EO => base_ok_hint p m q (proj1 HP))
              (fun d p HP EO => base_ok_live p (proj1 HP) EO)
              ltac:(intros d0 p0 _; rewrite Hev; apply evaluate_winner_bounded)
              (c_depth cfg) s p sk pv v d acc c HS); [|exact H].
  intros d0 H1 H2. split; [exact Hb|apply (within_dmax cfg); assumption].
Qed.

Theorem pv_replays_default : c_eval cfg = default_eval ->
  forall k s p sk pv v d acc c, SI s -> base_ok p -> within (dmax cfg) p -> move p + Z.of_nat (dmax cfg) <= max_terminal_ply ->
  analyze_cancel gen_basis cfg k s p = (sk, (pv, v, d, acc, c)) -> exists q, replay p pv = Ok q.
Proof.
  intros Hev k s p sk pv v d acc c HS Hb HW Hm H. destruct Hprecise as (P1 & P2 & P3). apply legal_line_replay.
  apply (analyze_pv_replays false gen_basis cfg k P1 P2 P3 PosD PosD_closed
              (fun d p m q HP EO => base_ok_hint p m q (proj1 (proj1 HP)))
              (fun d p HP EO => base_ok_live p (proj1 (proj1 HP)) EO)
              ltac:(intros d0 p0 ((Hb0 & _) & Hm0); rewrite Hev; apply default_eval_bounded; [apply Hb0|destruct Hb0 as (_ & _ & M0 & _); lia])
              (c_depth cfg) s p sk pv v d acc c HS); [|exact H].
  intros d0 H1 H2. split; [split; [exact Hb|apply (within_dmax cfg); assumption]|]. unfold dmax in Hm. lia.
Qed.
End Final.

(* C04, "the whole variation replays legally": MakePrecise, no table, any sort setting, both evaluators, any engine state without a table,
   a call cancelled at any point or never, every board size, games of at most 64 pieces - for EVERY reported value (decisive or not) *)
Theorem analyze_pv_replays_64 : forall cfg, precise cfg -> builtin_eval cfg ->
  forall k s p sk pv v d acc c,
  SI s -> base_ok p -> (total p <= 64)%N -> move p + 16 <= max_terminal_ply ->
  analyze_cancel gen_basis cfg k s p = (sk, (pv, v, d, acc, c)) -> exists q, replay p pv = Ok q.
Proof.
  intros cfg HP [HE|HE] k s p sk pv v d acc c HS Hb Ht Hm H.
  - apply (pv_replays_winner cfg HP HE k s p sk pv v d acc c HS Hb); [|exact H]. apply within_total64; [apply Hb|exact Ht].
  - apply (pv_replays_default cfg HP HE k s p sk pv v d acc c HS Hb); [| |exact H].
    + apply within_total64; [apply Hb|exact Ht].
    + unfold dmax. lia.
Qed.

(* non-vacuity: SearchNeg5.ex_default3 - q4, depth 3, the line c1 Sc2 b3 - replays *)
Example ex_pv_replays :
  (exists q, replay q4 (r_pv (snd (run_analyze cfg3 0 (new_state 0) q4))) = Ok q) /\ length (r_pv (snd (run_analyze cfg3 0 (new_state 0) q4))) = 3%nat.
Proof. split; [eexists|]; vm_compute; reflexivity. Qed.
