(* AI/EvalSpec.v: what C18 and C19 state on top of Eval.v (definitions only, no proofs):
   ai.EvaluateWinner, CountThreats at position level, the shape of a position value, the closed-form bound. *)
From Coq Require Import NArith ZArith List Bool Lia.
Require Import Board Move GameOver Eval.
Import ListNotations.
Open Scope N_scope.

(* ai.EvaluateWinner *)
Definition eval_winner (p : position) : res Z :=
  match game_over p with
  | None => Panic                                   (* flood fill out of fuel: a hang in Go, never happens (C02_groups_spec) *)
  | Some (false, _) => Ok 0%Z
  | Some (true, GNone) => Ok 0%Z
  | Some (true, GWhite) => Ok (if to_move_white p then WinBase else - WinBase)%Z
  | Some (true, GBlack) => Ok (if to_move_white p then - WinBase else WinBase)%Z
  end.

(* ai.CountThreats(c, p) with c = the constants of p's size and the groups of p.Analysis() *)
Definition threats (p : position) : option (Z * Z * Z * Z) :=
  match analyze p with
  | Some (wg, bg) => Some (count_threats (precompute (size p)) p wg bg)
  | None => None
  end.

(* A position VALUE of the Go type: nothing but the types of the fields (uint64 words, uint8 heights and reserves,
   the slices made by alloc with size*size elements) and a supported board size.  No well-formedness. *)
Definition shape_ok (p : position) : Prop :=
  3 <= size p <= 8 /\
  length (Height p) = N.to_nat (size p * size p) /\
  Forall (fun h => h < 256) (Height p) /\
  White p < 2 ^ 64 /\ Black p < 2 ^ 64 /\ Standing p < 2 ^ 64 /\ Caps p < 2 ^ 64 /\
  whiteStones p < 256 /\ blackStones p < 256.

Open Scope Z_scope.
Definition aw (w : weights) (f : nat) : Z := Z.abs (wt w f).
Definition maxabs (w : weights) : Z := fold_right Z.max 0 (map Z.abs w).

(* one square of the per-square loop: a capstone bonus, at most 64 squares of capstone mobility, at most 64 squares in each of
   the three throw classes, and at most 254 hard and 254 soft captives under a uint8 height *)
Definition bound_square (w : weights) : Z :=
  aw w HardTopCap + 64 * aw w CapMobility +
  64 * (aw w ThrowMine + aw w ThrowTheirs + aw w ThrowEmpty) +
  254 * (aw w FlatCaptives_Soft + aw w FlatCaptives_Hard + aw w StandingCaptives_Soft + aw w StandingCaptives_Hard +
         aw w CapstoneCaptives_Soft + aw w CapstoneCaptives_Hard).

(* one colour's scoreGroups: at most 64 groups (FloodGroups appends at most one per set bit of a 64-bit word), two
   dimension weights each (any in-range weight), at most 64 group liberties *)
Definition bound_groups (w : weights) : Z := 64 * (2 * maxabs w) + 64 * aw w GroupLiberties.

(* scoreThreats: ForcedWin, or at most 64 groups x 64 squares per count *)
Definition bound_threats (w : weights) : Z := Z.max ForcedWin (4096 * (aw w Potential + aw w Threat)).

Definition bound (w : weights) : Z :=
  Z.abs (Z.quot (wt w TopFlat) 2 + wt w Tempo) +
  64 * (aw w TopFlat + aw w FStanding + aw w FCapstone + aw w Center) +
  64 * bound_square w +
  2 * bound_groups w +
  64 * aw w Liberties +
  bound_threats w +
  64 * (aw w EmptyControl + aw w FlatControl + aw w CenterControl).

(* the largest ply number at which a finished game still scores beyond the threshold with the built-in weights
   (Terminal_Plies = -100 per ply eats the margin WinBase - WinThreshold = 2^28) *)
Definition max_terminal_ply : Z := 2684354.

(* evaluateTerminal's value before the sign: WinBase + reserves (0..255) + flats (0..8) + opponent reserves (0..255) + plies (0..M) *)
Definition term_lo (w : weights) (M : Z) : Z :=
  WinBase + 255 * Z.min 0 (wt w Terminal_Reserves) + 8 * Z.min 0 (wt w Terminal_Flats) +
  255 * Z.min 0 (wt w Terminal_OpponentReserves) + M * Z.min 0 (wt w Terminal_Plies).
Definition term_hi (w : weights) (M : Z) : Z :=
  WinBase + 255 * Z.max 0 (wt w Terminal_Reserves) + 8 * Z.max 0 (wt w Terminal_Flats) +
  255 * Z.max 0 (wt w Terminal_OpponentReserves) + M * Z.max 0 (wt w Terminal_Plies).
Definition mover_wins (p : position) (winner : gcolor) : bool :=
  match winner with GWhite => to_move_white p | GBlack => negb (to_move_white p) | GNone => false end.
