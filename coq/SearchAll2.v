(* SearchAll2.v: C05 clause 1, last part - AnalyzeAll lists exactly the first moves that attain the value.
   Setting of SearchNeg1.v: value-preserving options (MakePrecise), no table, any sort setting, either variant of the code, a call
   cancelled at ANY point k or never (k = 0), rules-engine facts asked of a depth-indexed family Pos of positions.

   What is proved (analyze_all_exactx):  whenever AnalyzeAll reports a depth d > 0, value v and the lines pvs:
     - v = nmx d p, pvs = (pm :: pvt) :: tails with (pm :: pvt) the line of Analyze, pm accepted and attaining v;
     - every line of tails is m :: rest with m an ENTRY OF AllMoves(p) that MovePreallocated accepts (for every k);
     - if the flag was never seen set (cancelled k sk = false for the final state; always the case for k = 0), the heads of tails are
            filter (fun m => negb (move_equal pm m) && best m) ms
       where ms is AllMoves(p) in the order the generator uses (AllMoves itself when NoSort is set or d <= 1, otherwise a permutation
       of it: the history-table order), and best m says that m is accepted and leads to a position q with - nmx (d-1) q = v.
   So: no move is listed twice (AllMoves has no two Equal entries, C03), every move listed attains the value, and every entry of
   AllMoves that attains it is listed - as itself, or as pm when it is Equal to pm.
   Repaired code (pinned = false: after every child search of the second pass the flag is read and the loop stops when it is set): for
   EVERY cancellation point the listed heads are a PREFIX of that filter - every listed move attains the value - and a call that is not
   reported as cancelled lists all of it.  Code before the repair (pinned = true): the same only while the flag is unset; once it is set the
   listed set can be wrong (SearchAll4.v: cancelled_lists_losing_moves_pinned). *)
From Coq Require Import NArith ZArith List Bool Lia Permutation.
Require Import Board Move GameOver Eval Search NegamaxSpec SearchGen SearchExact CancelFacts SearchNeg1 SearchAll1.
Import ListNotations.
Open Scope Z_scope.

Lemma filter_filter {A} (f g : A -> bool) l : filter f (filter g l) = filter (fun x => g x && f x) l.
Proof. induction l as [|a l IH]; [reflexivity|]. cbn [filter]. destruct (g a); cbn [andb filter]; [destruct (f a)|]; rewrite IH; reflexivity. Qed.

Section AllIx.
Variable pinned : bool.
Variable basis : list N.
Variable cfg : config.
Variable k : Z.
Let eval := c_eval cfg.

Hypothesis Hnonull : c_nonull cfg = true.
Hypothesis Hnoreduce : c_noreduce cfg = true.
Hypothesis Hnomc : c_multicut cfg = false.

Variable Pos : nat -> position -> Prop.
Hypothesis Hclosed : forall d p q, Pos (S d) p -> is_over p = false -> In q (children basis p) -> Pos d q.
Hypothesis Hhint : forall d p m q, Pos (S d) p -> is_over p = false -> okm m -> try_move basis p m = Some q -> In q (children basis p).
Hypothesis Hlive : forall d p, Pos (S d) p -> is_over p = false -> children basis p <> [].

Notation nm := (nmx basis eval).

(* the second pass never lowers the evaluation counter *)
Lemma aa_loop_mono d v pm pvt : forall n s g out,
  evals s <= evals (fst (fst (aa_loop pinned basis cfg k d v pm pvt n s g out))).
Proof.
  induction n; intros s g out; cbn [aa_loop]; [cbn [fst]; lia|].
  destruct (mg_next pinned basis cfg (gfuel g) s g) as [g' [[m q]|]]; [|cbn [fst]; lia].
  pose proof (srch_mono pinned basis cfg k 40 false (set_fm s 0 m) q 1 (d - 1) pvt (- v - 1) (- v + 1) true) as M.
  destruct (srch pinned basis cfg k 40 false (set_fm s 0 m) q 1 (d - 1) pvt (- v - 1) (- v + 1) true) as [s1 [ms cv]].
  cbn [fst set_fm evals] in M.
  destruct (negb pinned && cancelled k s1); [cbn [fst]; exact M|].
  destruct (negb (- cv =? v)); [etransitivity; [exact M|apply IHn]|].
  destruct (move_equal m pm); (etransitivity; [exact M|apply IHn]).
Qed.

Section Root.
Variable d' : nat.
Hypothesis Hd' : (d' < 40)%nat.
Variable p : position.
Hypothesis Hp : Pos (S d') p.
Hypothesis Hover : is_over p = false.
Variable pm : rmove.
Variable pvt : list rmove.
Hypothesis Hpvt : okl pvt.

Let v := nm (S d') p.
Let x (q : position) : Z := - nm d' q.

(* m is accepted and attains the value *)
Definition best (m : rmove) : bool :=
  match try_move basis p m with Some q => (- nm d' q =? nm (S d') p) | None => false end.

(* a listed line: its head is an entry of AllMoves that is accepted; no Pass in it *)
Definition line_ok (l : list rmove) : Prop :=
  exists m rest q, l = m :: rest /\ In m (all_moves p) /\ try_move basis p m = Some q /\ okl l.

Lemma gen_child m q : In m (all_moves p) -> try_move basis p m = Some q -> In q (children basis p).
Proof.
  intros Hm T. apply in_children. exists m. split; [exact Hm|].
  rewrite (try_ok basis p m (all_moves_okm p m Hm)) in T. destruct (mvp basis p m); try discriminate T. inversion T; reflexivity.
Qed.

(* one child search of the second pass *)
Lemma aa_child s m q : SI s -> In q (children basis p) ->
  let r := srch pinned basis cfg k 40 false (set_fm s 0 m) q 1 (Z.of_nat (S d') - 1) pvt (- v - 1) (- v + 1) true in
  SI (fst r) /\ okl (fst (snd r)) /\ (cancelled k (fst r) = false -> (- snd (snd r) =? v) = (x q =? v)).
Proof.
  intros HS Hq. cbv zeta. replace (Z.of_nat (S d') - 1) with (Z.of_nat d') by lia.
  assert (Hpq : Pos d' q) by (apply (Hclosed d' p q Hp Hover Hq)).
  pose proof (srch_okx pinned basis cfg k Hnonull Hnoreduce Hnomc Pos Hclosed Hhint Hlive 40 d' Hd'
                false (set_fm s 0 m) q 1 pvt (- v - 1) (- v + 1) true (SI_set_fm _ _ _ HS) Hpq Hpvt ltac:(intros _; lia)) as R.
  cbv zeta in R.
  destruct (srch pinned basis cfg k 40 false (set_fm s 0 m) q 1 (Z.of_nat d') pvt (- v - 1) (- v + 1) true) as [s1 [ms cv]].
  cbn [fst snd] in *. destruct R as (HS1 & Hms & _ & PS). refine (conj HS1 (conj Hms _)). intros NC.
  destruct (PS NC) as ((P1 & P2 & P3) & _). fold eval in P1, P2, P3.
  assert (QLE : x q <= v) by (apply nmx_ge; assumption). unfold x in *.
  destruct (Z.eqb_spec (- nm d' q) v) as [E|NE].
  - apply Z.eqb_eq. lia.
  - apply Z.eqb_neq. lia.
Qed.

(* the loop of the second pass, after pm has been searched.  F = the heads the uninterrupted loop would list from here on. *)
Lemma aa_loop_ok : forall n s g out ms j,
  SI s -> (pinned = false -> cancelled k s = false) ->
  genst cfg p pm pvt s g ms j -> Permutation ms (all_moves p) -> (length (skipn (Z.to_nat j) ms) < n)%nat ->
  let r := aa_loop pinned basis cfg k (Z.of_nat (S d')) v pm pvt n s g out in
  let F := filter best (filter (good basis p pm) (skipn (Z.to_nat j) ms)) in
  SI (fst (fst r)) /\ (pinned = false -> snd r = false -> cancelled k (fst (fst r)) = false) /\
  exists tails, snd (fst r) = out ++ tails /\ Forall line_ok tails /\
    (pinned = false \/ cancelled k (fst (fst r)) = false -> exists rest', F = map (hd move0) tails ++ rest') /\
    (cancelled k (fst (fst r)) = false -> map (hd move0) tails = F).
Proof.
  induction n; intros s g out ms j HS HC G PERM HN; [lia|].
  cbv zeta. cbn [aa_loop].
  pose proof (scan_next pinned basis cfg p pm pvt s g ms j G) as SC.
  destruct (filter (good basis p pm) (skipn (Z.to_nat j) ms)) as [|m tl_] eqn:EF.
  { destruct (mg_next pinned basis cfg (gfuel g) s g) as [g' nx]. cbn [snd] in SC. subst nx. cbn [fst snd].
    split; [exact HS|]. split; [intros E _; apply HC; exact E|]. exists []. rewrite app_nil_r. split; [reflexivity|]. split; [constructor|].
    split; [intros _; exists []; reflexivity|intros _; reflexivity]. }
  destruct SC as (g' & q & j' & E & T & Hin & G' & EF' & LT). rewrite E.
  assert (Hm : In m (all_moves p)) by (apply (Permutation_in m PERM Hin)).
  pose proof (gen_child m q Hm T) as Hq.
  pose proof (aa_child s m q HS Hq) as R. cbv zeta in R.
  pose proof (srch_mono pinned basis cfg k 40 false (set_fm s 0 m) q 1 (Z.of_nat (S d') - 1) pvt (- v - 1) (- v + 1) true) as MO.
  destruct (srch pinned basis cfg k 40 false (set_fm s 0 m) q 1 (Z.of_nat (S d') - 1) pvt (- v - 1) (- v + 1) true) as [s1 [msc cv]].
  cbn [fst snd set_fm evals] in R, MO. destruct R as (HS1 & Hmsc & VS).
  destruct (negb pinned && cancelled k s1) eqn:EBRK.
  { (* the repaired code stops here *)
    cbn [fst snd]. split; [exact HS1|]. split; [intros _ F; discriminate F|]. exists []. rewrite app_nil_r. split; [reflexivity|]. split; [constructor|].
    split; [intros _; eexists; reflexivity|]. intros NC. apply andb_true_iff in EBRK. destruct EBRK as (_ & EB). congruence. }
  assert (HC1 : pinned = false -> cancelled k s1 = false) by (intros EP; rewrite EP in EBRK; exact EBRK).
  assert (GM : good basis p pm m = true).
  { assert (In m (filter (good basis p pm) (skipn (Z.to_nat j) ms))) by (rewrite EF; left; reflexivity).
    apply filter_In in H. apply H. }
  assert (NE : move_equal m pm = false).
  { rewrite move_equal_comm. unfold good in GM. destruct (move_equal pm m); [discriminate GM|reflexivity]. }
  assert (BM : best m = (x q =? v)) by (unfold best; rewrite T; reflexivity).
  rewrite NE.
  assert (REST : forall out1, let r := aa_loop pinned basis cfg k (Z.of_nat (S d')) v pm pvt n s1 g' out1 in
            SI (fst (fst r)) /\ (pinned = false -> snd r = false -> cancelled k (fst (fst r)) = false) /\ evals s1 <= evals (fst (fst r)) /\
            exists tails, snd (fst r) = out1 ++ tails /\ Forall line_ok tails /\
            (pinned = false \/ cancelled k (fst (fst r)) = false -> exists rest', filter best tl_ = map (hd move0) tails ++ rest') /\
            (cancelled k (fst (fst r)) = false -> map (hd move0) tails = filter best tl_)).
  { intros out1. cbv zeta.
    destruct (IHn s1 g' out1 ms j' HS1 HC1 (G' s1) PERM ltac:(lia)) as (A & A4 & tails & B & C & D1 & D2).
    split; [exact A|]. split; [exact A4|]. split; [apply aa_loop_mono|]. exists tails. rewrite EF' in D1, D2. auto. }
  assert (NCS : forall sf, evals s1 <= evals sf -> pinned = false \/ cancelled k sf = false -> cancelled k s1 = false).
  { intros sf MONO [EP|NC]; [apply HC1; exact EP|apply (canc_le k s1 sf NC MONO)]. }
  cbn [filter]. rewrite BM.
  destruct (negb (- cv =? v)) eqn:EV.
  - destruct (REST out) as (A & A4 & MONO & tails & B & C & D1 & D2). split; [exact A|]. split; [exact A4|]. exists tails. split; [exact B|]. split; [exact C|].
    apply negb_true_iff in EV. split.
    + intros H0. rewrite <- (VS (NCS _ MONO H0)), EV. apply D1. exact H0.
    + intros NC. rewrite <- (VS (NCS _ MONO (or_intror NC))), EV. apply D2. exact NC.
  - destruct (REST (out ++ [m :: msc])) as (A & A4 & MONO & tails & B & C & D1 & D2). split; [exact A|]. split; [exact A4|].
    exists ((m :: msc) :: tails). split; [rewrite B, <- app_assoc; reflexivity|]. split.
    + constructor; [|exact C]. exists m, msc, q. refine (conj eq_refl (conj Hm (conj T _))). constructor; [apply all_moves_okm with p; exact Hm|exact Hmsc].
    + apply negb_false_iff in EV. split.
      * intros H0. rewrite <- (VS (NCS _ MONO H0)), EV. destruct (D1 H0) as (rest' & ER). exists rest'. cbn [map hd app]. rewrite ER. reflexivity.
      * intros NC. rewrite <- (VS (NCS _ MONO (or_intror NC))), EV. cbn [map hd]. rewrite (D2 NC). reflexivity.
Qed.

(* filter best (filter good ms) in one filter *)
Lemma heads_filter ms : Permutation ms (all_moves p) ->
  filter best (filter (good basis p pm) ms) = filter (fun m => negb (move_equal pm m) && best m) ms.
Proof.
  intros PERM. rewrite filter_filter. apply filter_ext_in. intros m Hm.
  assert (Hm' : In m (all_moves p)) by (apply (Permutation_in m PERM Hm)).
  unfold good, best. destruct (try_move basis p m) as [q|]; [|rewrite !andb_false_r; reflexivity].
  assert (M0 : move_equal move0 m = false).
  { pose proof (all_moves_types p m Hm') as TY. unfold move_equal, move0. cbn [mX mY mT mS].
    replace (0 =? mT m)%N with false by (symmetry; apply N.eqb_neq; lia). rewrite !andb_false_r. reflexivity. }
  rewrite M0. cbn [negb]. rewrite !andb_true_r. reflexivity.
Qed.

(* the whole second pass *)
Lemma aa_pass s q0 : SI s -> try_move basis p pm = Some q0 -> In q0 (children basis p) -> okm pm ->
  let g0 := new_gen s None (pm :: pvt) 0 (Z.of_nat (S d')) p in
  let r := aa_loop pinned basis cfg k (Z.of_nat (S d')) v pm pvt (gfuel g0) s g0 [pm :: pvt] in
  SI (fst (fst r)) /\ (pinned = false -> snd r = false -> cancelled k (fst (fst r)) = false) /\ (pinned = true -> snd r = false) /\
  exists ms tails, snd (fst r) = (pm :: pvt) :: tails /\ Forall line_ok tails /\
    Permutation ms (all_moves p) /\ ((1 <? Z.of_nat (S d')) && negb (c_nosort cfg) = false -> ms = all_moves p) /\
    (pinned = false \/ cancelled k (fst (fst r)) = false ->
       exists rest', filter (fun m => negb (move_equal pm m) && best m) ms = map (hd move0) tails ++ rest') /\
    (cancelled k (fst (fst r)) = false -> map (hd move0) tails = filter (fun m => negb (move_equal pm m) && best m) ms).
Proof.
  intros HS T Hq0 Hpm. cbv zeta.
  destruct (first_next pinned basis cfg p pm pvt s (Z.of_nat (S d')) q0 T) as (g1 & E & G1). cbv zeta in E.
  assert (EF : gfuel (new_gen s None (pm :: pvt) 0 (Z.of_nat (S d')) p) = S (length (all_moves p) + 7)).
  { unfold gfuel. cbn [new_gen g_ms g_p]. lia. }
  rewrite EF. cbn [aa_loop]. rewrite E.
  pose proof (aa_child s pm q0 HS Hq0) as R. cbv zeta in R.
  destruct (srch pinned basis cfg k 40 false (set_fm s 0 pm) q0 1 (Z.of_nat (S d') - 1) pvt (- v - 1) (- v + 1) true) as [s1 [msc cv]].
  cbn [fst snd] in R. destruct R as (HS1 & _ & _).
  destruct (negb pinned && cancelled k s1) eqn:EBRK.
  { cbn [fst snd]. split; [exact HS1|]. split; [intros _ F; discriminate F|]. split; [intros EP; rewrite EP in EBRK; discriminate EBRK|].
    exists (all_moves p), []. split; [reflexivity|]. split; [constructor|]. split; [reflexivity|]. split; [reflexivity|].
    split; [intros _; eexists; reflexivity|]. intros NC. apply andb_true_iff in EBRK. destruct EBRK as (_ & EB). congruence. }
  assert (HC1 : pinned = false -> cancelled k s1 = false) by (intros EP; rewrite EP in EBRK; exact EBRK).
  rewrite move_equal_refl.
  set (ms := msof cfg p s1 (Z.of_nat (S d'))).
  assert (PERM : Permutation ms (all_moves p)) by apply msof_perm.
  pose proof (aa_loop_ok (length (all_moves p) + 7) s1 g1 [pm :: pvt] ms 0 HS1 HC1 (G1 s1) PERM
              ltac:(cbn [Z.to_nat skipn]; rewrite (Permutation_length PERM); lia)) as RES.
  cbv zeta in RES. cbn [Z.to_nat skipn] in RES. rewrite (heads_filter ms PERM) in RES.
  assert (PB : forall n out, pinned = true -> snd (aa_loop pinned basis cfg k (Z.of_nat (S d')) v pm pvt n s1 g1 out) = false).
  { intros n out0 EP. rewrite EP. clear. revert s1 g1 out0. induction n; intros s1 g1 out0; cbn [aa_loop]; [reflexivity|].
    destruct (mg_next true basis cfg (gfuel g1) s1 g1) as [g' [[m q]|]]; [|reflexivity].
    destruct (srch true basis cfg k 40 false (set_fm s1 0 m) q 1 (Z.of_nat (S d') - 1) pvt (- v - 1) (- v + 1) true) as [s2 [ms2 cv2]].
    cbn [negb andb]. destruct (negb (- cv2 =? v)); [apply IHn|]. destruct (move_equal m pm); apply IHn. }
  assert (FIN : let r := aa_loop pinned basis cfg k (Z.of_nat (S d')) v pm pvt (length (all_moves p) + 7) s1 g1 [pm :: pvt] in
          SI (fst (fst r)) /\ (pinned = false -> snd r = false -> cancelled k (fst (fst r)) = false) /\ (pinned = true -> snd r = false) /\
          exists ms tails, snd (fst r) = (pm :: pvt) :: tails /\ Forall line_ok tails /\
            Permutation ms (all_moves p) /\ ((1 <? Z.of_nat (S d')) && negb (c_nosort cfg) = false -> ms = all_moves p) /\
            (pinned = false \/ cancelled k (fst (fst r)) = false ->
               exists rest', filter (fun m => negb (move_equal pm m) && best m) ms = map (hd move0) tails ++ rest') /\
            (cancelled k (fst (fst r)) = false -> map (hd move0) tails = filter (fun m => negb (move_equal pm m) && best m) ms)).
  { cbv zeta. destruct RES as (A & A4 & tails & B & C & D1 & D2). split; [exact A|]. split; [exact A4|]. split; [apply PB|].
    exists ms, tails. split; [exact B|]. split; [exact C|]. split; [exact PERM|]. split; [|split; assumption].
    intros E0. unfold ms, msof. rewrite E0. reflexivity. }
  cbv zeta in FIN. destruct (negb (- cv =? v)); exact FIN.
Qed.
End Root.

(* ---- Analyze, with what the second pass needs exported ---- *)
Hypothesis Hbound : forall d p, Pos d p -> MinEval <= eval p <= MaxEval.

Definition az_post (D : Z) (p : position) (pv : list rmove) (v d : Z) : Prop :=
  okl pv /\ ((d = 0 /\ pv = []) \/ (1 <= d <= 16 /\ d <= D /\ is_over p = false /\ exact_result basis cfg p pv v d)).

Lemma az_iter_allx D p : (forall d, (1 <= d <= 16)%nat -> Z.of_nat d <= D -> Pos d p) -> forall n i s ms v acc d,
  SI s -> 1 <= i -> Z.of_nat n + i <= 17 -> d = i - 1 -> az_post D p ms v d ->
  forall sk pv' v' d' acc' c', az_iter pinned basis cfg k D 0 p n i s ms v acc d = (sk, (pv', v', d', acc', c')) ->
  SI sk /\ az_post D p pv' v' d'.
Proof.
  intros HP. induction n; intros i s ms v acc d HS Hi Hn Hd Hgood sk pv' v' d' acc' c' H; cbn [az_iter] in H.
  { inversion H; subst. split; assumption. }
  destruct (D <? i + 0) eqn:ED; [inversion H; subst; split; assumption|].
  rewrite Z.add_0_r in H, ED. apply Z.ltb_ge in ED.
  assert (Hp : Pos (Z.to_nat i) p) by (apply HP; lia).
  pose proof (srch_okx pinned basis cfg k Hnonull Hnoreduce Hnomc Pos Hclosed Hhint Hlive 40 (Z.to_nat i) ltac:(lia)
                false (reset_st s) p 0 ms (MinEval - 1) (MaxEval + 1) true
                (SI_reset_st s HS) Hp (proj1 Hgood) ltac:(intros _; unfold MinEval, MaxEval; lia)) as R.
  cbv zeta in R. rewrite (Z2Nat.id i ltac:(lia)) in R.
  destruct (srch pinned basis cfg k 40 false (reset_st s) p 0 i ms (MinEval - 1) (MaxEval + 1) true) as [s1 [next nv]].
  cbn [fst snd] in R. destruct R as (HS1 & Hnext & HOV & PVS).
  destruct (cancelled k s1) eqn:EK; [inversion H; subst; split; assumption|].
  destruct (PVS eq_refl) as (PV & HD).
  destruct next as [|m rest]; [inversion H; subst; split; assumption|].
  assert (EO : is_over p = false) by (destruct (is_over p); [specialize (HOV eq_refl); discriminate HOV|reflexivity]).
  pose proof (nm_boundsx basis cfg Hnonull Hnoreduce Hnomc Pos Hclosed Hhint Hlive Hbound (Z.to_nat i) p Hp) as NB.
  assert (W : MinEval - 1 < nm (Z.to_nat i) p < MaxEval + 1) by (fold eval in NB; lia).
  assert (GOOD : exact_result basis cfg p (m :: rest) nv i).
  { destruct PV as (_ & P2 & _). split; [apply P2; exact W|].
    destruct (HD W EO ltac:(lia)) as (m0 & rest0 & q & E & T & Hq & X). exists m0, rest0, q.
    refine (conj E (conj T (conj Hq _))). rewrite (P2 W). exact X. }
  assert (POST : az_post D p (m :: rest) nv i).
  { split; [exact Hnext|]. right. split; [lia|]. split; [lia|]. split; [exact EO|exact GOOD]. }
  destruct ((WinThreshold <? nv) || (nv <? - WinThreshold)).
  - inversion H; subst. split; assumption.
  - apply (IHn (i + 1) s1 (m :: rest) nv _ i HS1 ltac:(lia) ltac:(lia) ltac:(lia) POST _ _ _ _ _ _ H).
Qed.

(* what AnalyzeAll reports; c = the Canceled flag it reports.
   F = the first moves the uninterrupted second pass lists after Analyze's line, in the generator's order. *)
Definition all_result (p : position) (sk : sstate) (pvs : list (list rmove)) (v d : Z) (c : bool) : Prop :=
  v = nm (Z.to_nat d) p /\
  exists pm pvt q0 ms tails,
    pvs = (pm :: pvt) :: tails /\ okl (pm :: pvt) /\
    try_move basis p pm = Some q0 /\ In q0 (children basis p) /\ - nm (Z.to_nat d - 1) q0 = v /\
    Forall (line_ok p) tails /\
    Permutation ms (all_moves p) /\ ((1 <? d) && negb (c_nosort cfg) = false -> ms = all_moves p) /\
    let F := filter (fun m => negb (move_equal pm m) && best (Z.to_nat d - 1) p m) ms in
    (* repaired code, any cancellation point (or the old code while the flag is unset): a prefix of F *)
    (pinned = false \/ cancelled k sk = false -> exists rest', F = map (hd move0) tails ++ rest') /\
    (* the flag was never seen set: all of F *)
    (cancelled k sk = false -> map (hd move0) tails = F) /\
    (* repaired code: a call not reported as cancelled never saw the flag *)
    (pinned = false -> c = false -> cancelled k sk = false).

Theorem analyze_all_exactx : forall s p sk pvs v d c,
  SI s -> (forall d, (1 <= d <= 16)%nat -> Z.of_nat d <= c_depth cfg -> Pos d p) ->
  analyze_all_gen pinned basis cfg k s p = (sk, (pvs, v, d, c)) ->
  SI sk /\ (d = 0 /\ pvs = [] \/ 1 <= d <= 16 /\ d <= c_depth cfg /\ is_over p = false /\ all_result p sk pvs v d c).
Proof.
  intros s p sk pvs v d c HS HP H. rewrite analyze_all_unfold in H. unfold analyze_gen, analyze_depth in H.
  assert (ER : az_root pinned (az_start s) p = (0, [], 0)).
  { unfold az_root, tt_get. rewrite (proj1 (SI_az_start s HS)). reflexivity. }
  rewrite ER in H.
  destruct (az_iter pinned basis cfg k (c_depth cfg) 0 p 16 1 (az_start s) [] 0 stats0 0) as [s1 [[[[pv v1] d1] acc1] c1]] eqn:EA.
  destruct (az_iter_allx (c_depth cfg) p HP 16 1 (az_start s) [] 0 stats0 0 (SI_az_start s HS) ltac:(lia) ltac:(cbn; lia) ltac:(lia)
              ltac:(split; [constructor|left; split; reflexivity]) _ _ _ _ _ _ EA) as (HS1 & Hpv & POST).
  destruct POST as [[E1 E2]|(D1 & D2 & EO & (EV & pm & pvt & q0 & E2 & T & Hq0 & X))]; subst.
  { inversion H; subst. split; [exact HS1|]. left. split; reflexivity. }
  set (dn := (Z.to_nat d1 - 1)%nat).
  assert (ED : d1 = Z.of_nat (S dn)) by (unfold dn; lia).
  assert (Hp : Pos (S dn) p) by (apply HP; unfold dn; lia).
  assert (Hpm : okm pm) by (inversion Hpv; assumption).
  assert (Hpvt : okl pvt) by (inversion Hpv; assumption).
  pose proof (aa_pass dn ltac:(unfold dn; lia) p Hp EO pm pvt Hpvt s1 q0 HS1 T Hq0 Hpm) as R. cbv zeta in R.
  rewrite <- ED in R. replace (S dn) with (Z.to_nat d1) in R by (unfold dn; lia). unfold eval in R.
  match type of H with context [aa_loop ?a ?b ?c ?d ?e ?f ?g ?h ?n ?s ?gg ?o] => destruct (aa_loop a b c d e f g h n s gg o) as [[s2 out] brk] end.
  cbn [fst snd] in R. clear ED. inversion H; subst. destruct R as (HS2 & A4 & _ & ms & tails & -> & LO & PERM & SORT & HPRE & HEADS).
  split; [exact HS2|]. right. split; [exact D1|]. split; [exact D2|]. split; [exact EO|].
  split; [reflexivity|]. exists pm, pvt, q0, ms, tails.
  refine (conj eq_refl (conj Hpv (conj T (conj Hq0 (conj X (conj LO (conj PERM (conj SORT _)))))))).
  cbv zeta. split; [exact HPRE|]. split; [exact HEADS|].
  intros EP EC. apply orb_false_iff in EC. destruct EC as (_ & EB). apply A4; assumption.
Qed.
End AllIx.
