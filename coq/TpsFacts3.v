(* C10, row and board layers: parseRow (tpsRow ...) gives back the row; the "/"-separated rows give back the board. *)
From Coq Require Import NArith ZArith List Bool Lia Ascii ZifyN ZifyBool ZifyNat.
Require Import Board Move GameOver PtnMove Playtak Tps TpsFacts TpsFacts2.
Import ListNotations.
Local Open Scope N_scope.

(* ---- Position.At always yields the empty square or a well-formed one ---- *)
Lemma at_sq_wf p i : at_sq p i = [] \/ wf_square (at_sq p i).
Proof.
  unfold at_sq. destruct (N.land (N.lor (White p) (Black p)) (bit i) =? 0); [now left|].
  destruct (N.to_nat (nthN (Height p) i)) as [|h']; [now left|]. right.
  cbn [wf_square]. split.
  - destruct (has (Standing p) i); [auto|]. destruct (has (Caps p) i); auto.
  - apply Forall_forall. intros x Hx. apply in_map_iff in Hx. destruct Hx as (j & <- & _). reflexivity.
Qed.

(* ---- characters of the board text ---- *)
Definition tps_char (c : N) : Prop := c <> 44 /\ c <> 47 /\ c <> 32.    (* not "," "/" " " *)

Lemma B_comma : B "," = 44. Proof. reflexivity. Qed.
Lemma B_slash : B "/" = 47. Proof. reflexivity. Qed.
Lemma B_space : B " " = 32. Proof. reflexivity. Qed.
Lemma B_x : B "x" = 120. Proof. reflexivity. Qed.

Lemma digit_tps_char c : is_digit c -> tps_char c.
Proof. unfold is_digit, tps_char. lia. Qed.

Lemma tps_square_chars sq : Forall tps_char (tps_square sq).
Proof.
  unfold tps_square. apply Forall_app. split.
  - apply Forall_forall. intros c Hc. apply in_map_iff in Hc. destruct Hc as ([[] k] & <- & _); unfold tps_char; cbv; repeat split; discriminate.
  - destruct sq as [|[b k] r]; [constructor|].
    destruct k as [|[[|[]|]|[|[]|]|]]; repeat constructor; cbv; discriminate.
Qed.

(* ---- the run counter of tpsRow, named ---- *)
Definition cnt_run (p : position) (y n : nat) := fix cnt (k x' : nat) : nat :=
  match k with O => 0%nat | S k' =>
    if (x' <? n)%nat && (match at_sq p (N.of_nat (x' + y * n)) with [] => true | _ => false end)
    then S (cnt k' (S x')) else 0%nat end.

Lemma tps_row_S f p y x : tps_row (S f) p y x =
  let n := N.to_nat (size p) in
  if (n <=? x)%nat then [] else
  match cnt_run p y n n x with
  | O => tps_square (at_sq p (N.of_nat (x + y * n))) :: tps_row f p y (S x)
  | S O => [B "x"] :: tps_row f p y (x + 1)
  | S (S _) => let k := cnt_run p y n n x in (B "x" :: fmt_int (Z.of_nat k)) :: tps_row f p y (x + k)
  end.
Proof. reflexivity. Qed.

Lemma cnt_run_spec p y n : forall k x r, cnt_run p y n k x = r ->
  (r <= k)%nat /\ forall j, (j < r)%nat -> (x + j < n)%nat /\ at_sq p (N.of_nat (x + j + y * n)) = [].
Proof.
  induction k as [|k IH]; intros x r E; cbn [cnt_run] in E.
  - subst r. split; [lia|intros j Hj; lia].
  - destruct (Nat.ltb_spec x n) as [Hx|Hx]; cbn [andb] in E.
    + destruct (at_sq p (N.of_nat (x + y * n))) eqn:Esq.
      * destruct r as [|r]; [discriminate|]. injection E as E. destruct (IH _ _ E) as [Hle Hall].
        split; [lia|]. intros [|j] Hj.
        -- rewrite Nat.add_0_r. split; [lia|exact Esq].
        -- replace (x + S j)%nat with (S x + j)%nat by lia. apply Hall. lia.
      * subst r. split; [lia|intros j Hj; lia].
    + subst r. split; [lia|intros j Hj; lia].
Qed.

Lemma cnt_run_0 p y n k x : (x < n)%nat -> cnt_run p y n (S k) x = 0%nat -> at_sq p (N.of_nat (x + y * n)) <> [].
Proof.
  intros Hx E. cbn [cnt_run] in E. replace (x <? n)%nat with true in E by lia. cbn [andb] in E.
  destruct (at_sq p (N.of_nat (x + y * n))); [discriminate|discriminate].
Qed.

(* ---- the count items x, x2 .. x9 ---- *)
Lemma parse_cell_x1 : parse_cell [B "x"] = Ok (repeat [] 1).
Proof. reflexivity. Qed.

Lemma parse_cell_xk k : (2 <= k <= 9)%nat -> parse_cell (B "x" :: fmt_int (Z.of_nat k)) = Ok (repeat [] k).
Proof.
  intros Hk. rewrite fmt_int_small by lia. unfold parse_cell. rewrite N.eqb_refl.
  do 2 f_equal. rewrite B_0. replace (Z.to_N (Z.of_nat k)) with (N.of_nat k) by lia.
  replace ((48 + N.of_nat k + 256 - 48) mod 256) with (N.of_nat k).
  - now rewrite Nat2N.id.
  - symmetry. replace (48 + N.of_nat k + 256 - 48) with (N.of_nat k + 1 * 256) by lia.
    rewrite N.mod_add by lia. apply N.mod_small. lia.
Qed.

Lemma xk_chars k : Forall tps_char (B "x" :: fmt_int (Z.of_nat k)).
Proof.
  constructor; [cbv; repeat split; discriminate|].
  eapply Forall_impl; [apply digit_tps_char|]. apply fmt_int_digits. lia.
Qed.

(* ---- the row ---- *)
Definition row_of (p : position) (y : nat) : list (list pc) :=
  let n := N.to_nat (size p) in map (fun x => at_sq p (N.of_nat (x + y * n))) (seq 0 n).

Lemma map_seq_empty (g : nat -> list pc) x r : (forall j, (j < r)%nat -> g (x + j)%nat = []) -> map g (seq x r) = repeat [] r.
Proof.
  revert x. induction r as [|r IH]; intros x H; [reflexivity|]. cbn [seq map repeat]. f_equal.
  - rewrite <- (H 0%nat) by lia. now rewrite Nat.add_0_r.
  - apply IH. intros j Hj. replace (S x + j)%nat with (x + S j)%nat by lia. apply H. lia.
Qed.

Lemma row_items p y : (N.to_nat (size p) <= 9)%nat -> forall fuel x, (N.to_nat (size p) - x < fuel)%nat ->
  parse_row_items (tps_row fuel p y x) =
    Ok (map (fun x' => at_sq p (N.of_nat (x' + y * N.to_nat (size p)))) (seq x (N.to_nat (size p) - x)))
  /\ Forall (Forall tps_char) (tps_row fuel p y x)
  /\ ((x < N.to_nat (size p))%nat -> tps_row fuel p y x <> []).
Proof.
  intros Hn. set (n := N.to_nat (size p)) in *.
  induction fuel as [|f IH]; intros x Hf; [lia|].
  rewrite tps_row_S. fold n. cbv zeta.
  destruct (Nat.leb_spec n x) as [Hx|Hx].
  - replace (n - x)%nat with 0%nat by lia. cbn [seq map parse_row_items]. repeat split; [constructor|lia].
  - destruct (cnt_run p y n n x) as [|[|r]] eqn:Ec.
    + (* a stack *)
      destruct n as [|n']; [lia|]. pose proof (cnt_run_0 _ _ _ _ _ Hx Ec) as Hne.
      destruct (IH (S x) ltac:(lia)) as (IH1 & IH2 & _).
      repeat split; [|constructor; [apply tps_square_chars|exact IH2]|discriminate].
      cbn [parse_row_items]. destruct (at_sq_wf p (N.of_nat (x + y * S n'))) as [E|W]; [contradiction|].
      rewrite (cell_roundtrip _ W), IH1. f_equal.
      replace (S n' - x)%nat with (S (S n' - S x)) by lia. reflexivity.
    + (* x *)
      destruct (cnt_run_spec _ _ _ _ _ _ Ec) as [Hle Hall].
      destruct (IH (x + 1)%nat ltac:(lia)) as (IH1 & IH2 & _).
      repeat split; [|constructor; [repeat constructor; cbv; discriminate|exact IH2]|discriminate].
      cbn [parse_row_items]. rewrite parse_cell_x1, IH1. f_equal.
      replace (n - x)%nat with (1 + (n - (x + 1)))%nat by lia. rewrite seq_app, map_app. f_equal.
      symmetry. apply map_seq_empty. intros j Hj. apply Hall. lia.
    + (* x2 .. x9 *)
      destruct (cnt_run_spec _ _ _ _ _ _ Ec) as [Hle Hall].
      destruct (IH (x + S (S r))%nat ltac:(lia)) as (IH1 & IH2 & _).
      repeat split; [|constructor; [apply xk_chars|exact IH2]|discriminate].
      cbn [parse_row_items]. rewrite parse_cell_xk by lia. rewrite IH1. f_equal.
      assert (Hr : (x + S (S r) <= n)%nat).
      { destruct (Hall (S r) ltac:(lia)) as [H1 _]. lia. }
      replace (n - x)%nat with (S (S r) + (n - (x + S (S r))))%nat by lia. rewrite seq_app, map_app. f_equal.
      symmetry. apply map_seq_empty. intros j Hj. apply Hall. lia.
Qed.

Lemma chars_no_sep sep s : ~ tps_char sep -> Forall tps_char s -> no_sep sep s.
Proof. intros Hs Hall Hin. rewrite Forall_forall in Hall. apply Hs. now apply Hall. Qed.

(* parseRow (strings.Join(tpsRow(p, y), ",")) = the row, for every position of size 1..9 *)
Theorem row_roundtrip p y : (1 <= N.to_nat (size p) <= 9)%nat ->
  parse_row (join (B ",") (tps_row (S (N.to_nat (size p))) p y 0)) = Ok (row_of p y).
Proof.
  intros Hn. destruct (row_items p y ltac:(lia) (S (N.to_nat (size p))) 0%nat ltac:(lia)) as (H1 & H2 & H3).
  unfold parse_row. rewrite split_join.
  - rewrite H1. unfold row_of. now rewrite Nat.sub_0_r.
  - apply H3. lia.
  - eapply Forall_impl; [|exact H2]. intros s Hs. apply chars_no_sep; [|exact Hs].
    rewrite B_comma. unfold tps_char. lia.
Qed.

Lemma row_text_chars p y : (N.to_nat (size p) <= 9)%nat ->
  forall c, In c (join (B ",") (tps_row (S (N.to_nat (size p))) p y 0)) -> c <> 47 /\ c <> 32.
Proof.
  intros Hn. destruct (row_items p y Hn (S (N.to_nat (size p))) 0%nat ltac:(lia)) as (_ & H2 & _).
  revert H2. generalize (tps_row (S (N.to_nat (size p))) p y 0). intros l Hl.
  induction l as [|a l IH]; intros c Hc; [destruct Hc|].
  inversion Hl as [|? ? Ha Hl']; subst. destruct l as [|b l].
  - cbn [join] in Hc. rewrite Forall_forall in Ha. destruct (Ha _ Hc) as (_ & ? & ?). auto.
  - change (join (B ",") (a :: b :: l)) with (a ++ B "," :: join (B ",") (b :: l)) in Hc.
    apply in_app_or in Hc. destruct Hc as [Hc|[Hc|Hc]].
    + rewrite Forall_forall in Ha. destruct (Ha _ Hc) as (_ & ? & ?). auto.
    + subst c. rewrite B_comma. lia.
    + now apply IH.
Qed.

(* ---- the board ---- *)
Lemma parse_rows_map (texts : list (list N)) (rows : list (list (list pc))) :
  Forall2 (fun t r => parse_row t = Ok r) texts rows ->
  forall acc, parse_rows texts acc = Ok (rev rows ++ acc).
Proof.
  induction 1 as [|t r texts rows Htr _ IH]; intros acc; cbn [parse_rows rev app]; [reflexivity|].
  rewrite Htr, IH. now rewrite <- app_assoc.
Qed.

Definition board_of (p : position) : list (list (list pc)) := map (row_of p) (seq 0 (N.to_nat (size p))).

Definition board_text (p : position) : list N :=
  let n := N.to_nat (size p) in join (B "/") (map (fun y => join (B ",") (tps_row (S n) p y 0)) (rev (seq 0 n))).

Theorem board_roundtrip p : (1 <= N.to_nat (size p) <= 9)%nat ->
  parse_rows (split_on (B "/") (board_text p) []) [] = Ok (board_of p).
Proof.
  intros Hn. unfold board_text. cbv zeta. set (n := N.to_nat (size p)) in *.
  rewrite split_join.
  - rewrite parse_rows_map with (rows := map (row_of p) (rev (seq 0 n))).
    + rewrite app_nil_r, <- map_rev, rev_involutive. reflexivity.
    + generalize (rev (seq 0 n)). induction l as [|y l IH]; cbn [map]; constructor; [|exact IH].
      apply row_roundtrip. fold n. lia.
  - destruct n as [|n']; [lia|]. rewrite seq_S. rewrite rev_app_distr. discriminate.
  - apply Forall_forall. intros s Hs. apply in_map_iff in Hs. destruct Hs as (y & <- & _).
    intros Hin. apply row_text_chars in Hin; [|fold n; lia]. rewrite B_slash in Hin. lia.
Qed.

Lemma board_text_chars p : (N.to_nat (size p) <= 9)%nat -> no_sep (B " ") (board_text p).
Proof.
  intros Hn. unfold board_text. cbv zeta. apply no_sep_join; [discriminate|].
  apply Forall_forall. intros s Hs. apply in_map_iff in Hs. destruct Hs as (y & <- & _).
  intros Hin. apply row_text_chars in Hin; [|lia]. rewrite B_space in Hin. lia.
Qed.

Lemma board_of_length p : length (board_of p) = N.to_nat (size p).
Proof. unfold board_of. now rewrite map_length, seq_length. Qed.

Lemma board_of_rows p : forallb (fun r => (length r =? N.to_nat (size p))%nat) (board_of p) = true.
Proof.
  apply forallb_forall. intros r Hr. unfold board_of in Hr. apply in_map_iff in Hr. destruct Hr as (y & <- & _).
  unfold row_of. rewrite map_length, seq_length. apply Nat.eqb_refl.
Qed.

(* the cells in FromSquares' order: index x + y*size *)
Lemma map_seq_shift {A} (g : nat -> A) : forall n s, map g (seq s n) = map (fun x => g (x + s)%nat) (seq 0 n).
Proof.
  induction n as [|n IH]; intros s; [reflexivity|]. cbn [seq map]. rewrite (IH (S s)).
  rewrite <- (seq_shift n 0), map_map. f_equal. apply map_ext. intros x. f_equal. lia.
Qed.

Lemma flat_rows (g : nat -> list pc) n : forall k,
  flat_map (fun row => row) (map (fun y => map (fun x => g (x + y * n)%nat) (seq 0 n)) (seq 0 k)) = map g (seq 0 (k * n)).
Proof.
  induction k as [|k IH]; [reflexivity|].
  rewrite seq_S, map_app, flat_map_app, IH. cbn [map flat_map plus]. rewrite app_nil_r.
  replace (S k * n)%nat with (k * n + n)%nat by lia. rewrite seq_app, map_app. f_equal.
  cbn [plus]. now rewrite (map_seq_shift g n (k * n)).
Qed.
