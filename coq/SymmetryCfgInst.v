(* Instantiation of SymmetryCfg.v with the hash basis regenerated from /repo (what the C14 driver extracts). *)
From Coq Require Import NArith ZArith List Bool.
Require Import Board Move GameOver Tps TpsCfg Symmetry SymmetryCfg.
Require Import Generated.Consts.

(* symmetry.Symmetries(p) where p.Config() = {Size: size p, Pieces: stones, Capstones: caps, BlackWinsTies: black_wins_ties p} *)
Definition symc_symmetries (stones caps : N) (p : position) : list (position * nat) :=
  SymmetryCfg.symmetries_cfg gen_basis stones caps p.
Definition symc_image (stones caps : N) (p : position) (k : nat) : position :=
  SymmetryCfg.image_cfg gen_basis stones caps p (nth k (Symmetry.syms (Z.of_N (size p))) (fun x y => (x, y))).
