(* C15, layer 2: the pieces of one step of Canonical:
   - a successful Position.Move on a board satisfying the C01 invariant is a rules move (cmv_ok_refines, from C01);
   - the empty start position is its own image under all eight symmetries (start_symmetric);
   - the candidate loop returns either "no rotation" or a symmetry i >= 1 whose board has the hash of board 0,
     together with the image of the move under it (cand_fold_spec);
   - the eight boards are moved by the eight images of the chosen move (move_boards_spec). *)
From Coq Require Import NArith ZArith Arith List Bool Lia ZifyN ZifyBool ZifyNat.
Require Import Rules Sym SymRules1 SymRules2 SymRules4.
Require Import Board Stack Move GameOver Tps Symmetry Refine Slide2 Slide6 Slide8 MoveRefines SymCode1 Canon1.
Require Import Generated.Consts.
Import ListNotations.
Close Scope Z_scope. Close Scope N_scope.

(* the hypotheses of C01's move_refines_rules *)
Definition c01_inv (p : position) : Prop :=
  (3 <= size p <= 8)%N /\ board_ok (size p) (bview p) /\ reserves_ok p /\ tall_ok p.

Lemma cmv_ok_refines p m q : c01_inv p -> cmv p m = Ok q -> rules_move (abs p) (raw m) = Some (abs q).
Proof.
  intros (Hs & Hb & Hr & Ht) H.
  destruct (N.eq_dec (mT m) 1) as [E|E].
  - exfalso. unfold mvp, move_prealloc in H. rewrite E in H. rewrite andb_false_r in H. discriminate.
  - assert (R := move_refines_rules p m Hs Hb Hr Ht E). change (mv p m) with (cmv p m) in R. now rewrite H in R.
Qed.

Lemma abs_n p : Rules.n (abs p) = N.to_nat (size p).
Proof. reflexivity. Qed.

Lemma abs_well_shaped p : (3 <= size p <= 8)%N -> well_shaped (abs p).
Proof. intros H. split; [rewrite abs_n; lia|]. unfold abs. cbn [sq Rules.n]. now rewrite map_length, seq_length. Qed.

(* ---------- the start position ---------- *)
Definition P0 (sz : N) : apos := abs (new_pos gen_basis sz).

Lemma P0_facts sz : (3 <= sz <= 8)%N ->
  Rules.n (P0 sz) = N.to_nat sz /\ sq (P0 sz) = repeat [] (N.to_nat sz * N.to_nat sz).
Proof.
  intros H. assert (Hc : (sz = 3 \/ sz = 4 \/ sz = 5 \/ sz = 6 \/ sz = 7 \/ sz = 8)%N) by lia.
  destruct Hc as [->|[->|[->|[->|[->| ->]]]]]; split; vm_compute; reflexivity.
Qed.

Lemma P0_well_shaped sz : (3 <= sz <= 8)%N -> well_shaped (P0 sz).
Proof. intros H. destruct (P0_facts sz H) as [E1 E2]. split; [lia|]. rewrite E1, E2. apply repeat_length. Qed.

Lemma nth_repeat_nil {A} (d : A) k i : nth i (repeat d k) d = d.
Proof. revert i; induction k as [|k IH]; intros [|i]; cbn; auto. Qed.

Lemma start_symmetric sz k : (3 <= sz <= 8)%N -> img k (P0 sz) = P0 sz.
Proof.
  intros H. destruct (P0_facts sz H) as [E1 E2]. unfold img.
  replace (permL k (Rules.n (P0 sz)) [] (sq (P0 sz))) with (sq (P0 sz)); [destruct (P0 sz); reflexivity|].
  rewrite E1, E2. apply (nth_ext _ _ [] []); [now rewrite permL_length, repeat_length|].
  intros i Hi. rewrite repeat_length in Hi. rewrite nth_permL_src by assumption. now rewrite !nth_repeat_nil.
Qed.

(* ---------- indexed lists ---------- *)
Lemma in_combine_seq {A} (d : A) l : forall a n i b, In (i, b) (combine (seq a n) l) -> a <= i < a + n /\ nth (i - a) l d = b.
Proof.
  induction l as [|x t IH]; intros a n i b H; [destruct (seq a n); destruct H|].
  destruct n as [|n]; [destruct H|]. cbn [seq combine In] in H. destruct H as [E|H].
  - inversion E; subst. split; [lia|]. now rewrite Nat.sub_diag.
  - apply IH in H. destruct H as [H1 H2]. split; [lia|]. replace (i - a) with (S (i - S a)) by lia. exact H2.
Qed.

Lemma nth_combine_seq {A} (d : A) : forall l a n i, i < n -> i < length l -> nth i (combine (seq a n) l) (0, d) = (a + i, nth i l d).
Proof.
  induction l as [|x t IH]; intros a n i H1 H2; [cbn in H2; lia|].
  destruct n as [|n]; [lia|]. cbn [seq combine]. destruct i as [|i]; [cbn [nth]; f_equal; lia|].
  cbn [nth]. rewrite IH by (cbn in H2; lia). f_equal. lia.
Qed.

Lemma combine_seq_length {A} (l : list A) n : length l = n -> length (combine (seq 0 n) l) = n.
Proof. intros H. rewrite combine_length, seq_length. lia. Qed.

(* ---------- the candidate loop ---------- *)
Section Cand.
Variable s : nat.
Hypothesis Hs : size_ok s.
Variable h : N.
Variable m1 : rmove.
Hypothesis Hm1 : transformable m1.
Variable L : list (nat * cstate).
Hypothesis HL : forall ib, In ib L -> fst ib < 8.

Definition cand_post (st : res (rmove * option symfn)) : Prop :=
  exists best rot, st = Ok (best, rot) /\
    ((rot = None /\ best = m1) \/
     (exists i b, 0 < i < 8 /\ In (i, b) L /\ hash_of (cp b) = h /\ rot = Some (csym s i) /\ best = tmr i s m1)).

Lemma cand_fold_spec : forall l st0, incl l L -> cand_post st0 ->
  cand_post (fold_left (cand_step (syms (Z.of_nat s)) h m1) l st0).
Proof.
  induction l as [|[i b] t IH]; intros st0 Hin Hp; [exact Hp|].
  cbn [fold_left]. apply IH; [intros x Hx; apply Hin; now right|].
  destruct Hp as (best & rot & -> & Hp). unfold cand_step. cbn [fst snd].
  destruct (Nat.eqb_spec i 0) as [E0|N0]; [exists best, rot; auto|].
  destruct (N.eqb_spec (hash_of (cp b)) h) as [Eh|Nh]; [|exists best, rot; auto].
  assert (Hi : i < 8) by (apply (HL (i, b)), Hin; now left).
  change (nth i (syms (Z.of_nat s)) (fun x y => (x, y))) with (csym s i).
  rewrite (transform_move_tm i s m1 Hi Hs Hm1).
  destruct (prefer_move (tmr i s m1) best); [|exists best, rot; auto].
  eexists _, _. split; [reflexivity|]. right. exists i, b. repeat split; try lia; try assumption. apply Hin. now left.
Qed.
End Cand.

(* ---------- moving the eight boards ---------- *)
Lemma move_boards_spec s m2 boards bs d : size_ok s -> transformable m2 -> length boards = 8 ->
  all_res (map (move_board (syms (Z.of_nat s)) m2) (combine (seq 0 8) boards)) = Ok bs ->
  length bs = 8 /\
  forall i, i < 8 -> exists q, cmv (cp (nth i boards d)) (tmr i s m2) = Ok q /\
                             nth i bs d = {| cp := q; cms := cms (nth i boards d) ++ [tmr i s m2] |}.
Proof.
  intros Hs Hm Hl H. apply all_res_ok in H.
  assert (Hlen : length bs = 8).
  { apply (f_equal (@length _)) in H. rewrite !map_length, combine_seq_length in H by assumption. lia. }
  split; [exact Hlen|]. intros i Hi.
  assert (E := f_equal (fun l => nth i l Err) H). cbv beta in E.
  rewrite (nth_indep _ Err (move_board (syms (Z.of_nat s)) m2 (0, d))) in E by (rewrite map_length, combine_seq_length; lia).
  rewrite map_nth in E. rewrite (nth_combine_seq d boards 0 8 i Hi ltac:(lia)) in E.
  rewrite (nth_indep _ Err (Ok d)) in E by (rewrite map_length; lia). rewrite map_nth in E.
  unfold move_board in E. cbn [fst snd Nat.add] in E.
  change (nth i (syms (Z.of_nat s)) (fun x y => (x, y))) with (csym s i) in E.
  rewrite (transform_move_tm i s m2 Hi Hs Hm) in E.
  destruct (cmv (cp (nth i boards d)) (tmr i s m2)) as [q| |]; try discriminate.
  exists q. split; [reflexivity|]. now inversion E.
Qed.
