(* Proofs for C18, part 1: words that fit 64 bits, popcount bounds, arithmetic helpers. *)
From Coq Require Import NArith ZArith List Bool Lia ZifyN ZifyBool ZifyNat.
Require Import Board Move GameOver Eval EvalSpec.
Import ListNotations.
Open Scope N_scope.

(* hi0 n x: no bit of x at or above position n, i.e. x < 2^n *)
Definition hi0 (n x : N) : Prop := forall i, n <= i -> N.testbit x i = false.

Lemma hi0_lt n x : hi0 n x -> x < 2 ^ n.
Proof.
  intros H. assert (E : x mod 2 ^ n = x).
  { apply N.bits_inj. intro i. destruct (N.lt_ge_cases i n).
    - now rewrite N.mod_pow2_bits_low.
    - rewrite N.mod_pow2_bits_high by assumption. symmetry. now apply H. }
  rewrite <- E. apply N.mod_lt. apply N.pow_nonzero. lia.
Qed.
Lemma lt_hi0 n x : x < 2 ^ n -> hi0 n x.
Proof.
  intros H i Hi. rewrite <- (N.mod_small x (2 ^ n)) by assumption. now apply N.mod_pow2_bits_high.
Qed.
Lemma hi0_0 n : hi0 n 0. Proof. intros i _. apply N.bits_0. Qed.
Lemma hi0_land_l n a b : hi0 n a -> hi0 n (N.land a b).
Proof. intros H i Hi. rewrite N.land_spec, (H i Hi). reflexivity. Qed.
Lemma hi0_land_r n a b : hi0 n b -> hi0 n (N.land a b).
Proof. intros H i Hi. rewrite N.land_spec, (H i Hi). apply andb_false_r. Qed.
Lemma hi0_lor n a b : hi0 n a -> hi0 n b -> hi0 n (N.lor a b).
Proof. intros H1 H2 i Hi. rewrite N.lor_spec, (H1 i Hi), (H2 i Hi). reflexivity. Qed.
Lemma hi0_lxor n a b : hi0 n a -> hi0 n b -> hi0 n (N.lxor a b).
Proof. intros H1 H2 i Hi. rewrite N.lxor_spec, (H1 i Hi), (H2 i Hi). reflexivity. Qed.
Lemma hi0_ldiff n a b : hi0 n a -> hi0 n (N.ldiff a b).
Proof. intros H i Hi. rewrite N.ldiff_spec, (H i Hi). reflexivity. Qed.
Lemma hi0_andnot n a b : hi0 n a -> hi0 n (andnot a b).
Proof. apply hi0_ldiff. Qed.
Lemma hi0_shiftr n a k : hi0 n a -> hi0 n (N.shiftr a k).
Proof. intros H i Hi. rewrite N.shiftr_spec'. apply H. lia. Qed.
Lemma hi0_u64 x : hi0 64 (u64 x).
Proof. intros i Hi. rewrite u64_bit. destruct (N.ltb_spec i 64); [lia|]. apply andb_false_r. Qed.
Lemma hi0_compl64 x : hi0 64 x -> hi0 64 (compl64 x).
Proof. intros H. unfold compl64. apply hi0_lxor; [assumption|]. intros i Hi. apply N.ones_spec_high. assumption. Qed.
Lemma hi0_bit i : hi0 64 (bit i).
Proof.
  unfold bit. destruct (N.ltb_spec i 64); [|apply hi0_0].
  intros j Hj. rewrite N.shiftl_spec_high' by lia. apply N.bits_above_log2.
  change (N.log2 1) with 0. lia.
Qed.
Lemma hi0_grow c within seed : hi0 64 within -> hi0 64 (grow c within seed).
Proof. intros H. unfold grow. now apply hi0_land_r. Qed.
Lemma hi0_mono n m x : n <= m -> hi0 n x -> hi0 m x.
Proof. intros L H i Hi. apply H. lia. Qed.

(* popcount *)
Lemma popcount_pos_le_size p : (popcount_pos p <= N.pos (Pos.size p))%N.
Proof. induction p; cbn [popcount_pos Pos.size]; lia. Qed.
Lemma pc_bounds n x : hi0 n x -> (0 <= pc x <= Z.of_N n)%Z.
Proof.
  intros H. unfold pc. split; [lia|]. apply hi0_lt in H.
  destruct x as [|q]; cbn [popcount]; [lia|].
  pose proof (popcount_pos_le_size q) as L.
  assert (N.pos (Pos.size q) <= n).
  { change (N.pos (Pos.size q)) with (N.size (N.pos q)). rewrite N.size_log2 by discriminate.
    assert (N.log2 (N.pos q) < n) by (apply N.log2_lt_pow2; lia). lia. }
  lia.
Qed.
Lemma pc64 x : hi0 64 x -> (0 <= pc x <= 64)%Z.
Proof. intro H. apply (pc_bounds 64 x H). Qed.

(* arithmetic helpers *)
Open Scope Z_scope.
Lemma mulb a x c : - c <= x <= c -> - (c * Z.abs a) <= a * x <= c * Z.abs a.
Proof. intros. nia. Qed.
Lemma diffb a x y c : 0 <= x <= c -> 0 <= y <= c -> - (c * Z.abs a) <= x * a - y * a <= c * Z.abs a.
Proof. intros. nia. Qed.
Lemma nth_maxabs (w : weights) f : Z.abs (nth f w 0) <= maxabs w.
Proof.
  unfold maxabs. revert f. induction w as [|a w IH]; intros [|f]; cbn [nth map fold_right]; try lia.
  specialize (IH f). lia.
Qed.
Lemma maxabs_nonneg w : 0 <= maxabs w.
Proof. unfold maxabs. induction w; cbn [map fold_right]; lia. Qed.
Lemma aw_nonneg w f : 0 <= aw w f. Proof. unfold aw. lia. Qed.

(* generic fold invariants *)
Lemma fold_left_inv {A B} (P : A -> Prop) (f : A -> B -> A) l a :
  P a -> (forall a x, P a -> In x l -> P (f a x)) -> P (fold_left f l a).
Proof.
  revert a. induction l as [|x l IH]; intros a Ha Hf; cbn [fold_left]; [assumption|].
  apply IH. - apply Hf; [assumption|now left]. - intros; apply Hf; [assumption|now right].
Qed.
Lemma fold_sum_bound {B} (f : B -> Z) (l : list B) (s0 bd : Z) :
  0 <= bd -> (forall x, In x l -> Z.abs (f x) <= bd) ->
  Z.abs (fold_left (fun acc x => acc + f x) l s0 - s0) <= Z.of_nat (length l) * bd.
Proof.
  intros Hb. revert s0. induction l as [|x l IH]; intros s0 H; cbn [fold_left length].
  - lia.
  - specialize (IH (s0 + f x) (fun y Hy => H y (or_intror Hy))). specialize (H x (or_introl eq_refl)). lia.
Qed.
