(* C19, part 7: threats_sound without the "mover has a piece left" hypothesis (it follows from the game not being over), and for
   the positions of real games (replayed from tak.New through accepted moves, at least two plies): no hypothesis about the
   position is left. *)
From Coq Require Import NArith ZArith List Bool Lia ZifyN ZifyBool ZifyNat.
Require Import Board Stack Rules Move GameOver Refine RefinePlace RefinePlace2 Slide2 Slide6 MoveRefines Preserve1 Reach1 Alloc.
Require Import LegalMoveLive GameOverFacts1 GameOverFacts2 GameOverFacts4 GameOverFacts7 Eval EvalSpec Threats ThreatsFacts4 ThreatsFacts6.
Open Scope N_scope.

Lemma u8_nonzero a b : u8 (a + b) <> 0 -> 0 < a \/ 0 < b.
Proof. unfold u8. intros H. destruct (N.eq_dec a 0) as [->|]; [|lia]. destruct (N.eq_dec b 0) as [->|]; [|lia]. exfalso. apply H. reflexivity. Qed.

Theorem threats_sound_live : forall p c wp wtt bp btt, inv p -> (2 <= move p)%Z -> game_over p = Some (false, c) ->
  threats p = Some (wp, wtt, bp, btt) ->
  (to_move_white p = true -> (0 < wp + wtt)%Z -> exists m p', mv p m = Ok p' /\ road_win p' GWhite) /\
  (to_move_white p = false -> (0 < bp + btt)%Z -> exists m p', mv p m = Ok p' /\ road_win p' GBlack).
Proof.
  intros p c wp wtt bp btt I Hm G T.
  destruct (game_over_false_inv p c G) as (E1 & E2 & _).
  destruct (threats_sound p wp wtt bp btt I Hm T) as [W B].
  split; intros Hc Hp; [apply W|apply B]; try assumption; now apply u8_nonzero.
Qed.
Print Assumptions threats_sound_live.

Theorem threats_sound_game : forall sz bwt stones caps ms p c wp wtt bp btt,
  (3 <= sz <= 8) -> (2 * (stones + caps) <= 64) -> no_pass ms -> (2 <= length ms)%nat ->
  replay (new_pos sz bwt stones caps) ms = Ok p -> game_over p = Some (false, c) ->
  threats p = Some (wp, wtt, bp, btt) ->
  (to_move_white p = true -> (0 < wp + wtt)%Z -> exists m p', mv p m = Ok p' /\ road_win p' GWhite) /\
  (to_move_white p = false -> (0 < bp + btt)%Z -> exists m p', mv p m = Ok p' /\ road_win p' GBlack).
Proof.
  intros sz bwt stones caps ms p c wp wtt bp btt Hs Ht Hn Hl Hr G T.
  destruct (new_ok sz bwt stones caps Hs ltac:(lia) ltac:(lia)) as (Hp0 & _).
  assert (R := replay_refines ms (new_pos sz bwt stones caps) Hp0).
  destruct (reachable_ok sz bwt stones caps ms p Hs Ht Hn Hr) as (Hp & Htot & _ & _).
  apply (threats_sound_live p c); try assumption.
  - apply pos_ok_inv_total; [exact Hp|]. rewrite Htot. lia.
  - assert (T0 : total (new_pos sz bwt stones caps) <= 64).
    { destruct (new_ok sz bwt stones caps Hs ltac:(lia) ltac:(lia)) as (_ & _ & T0). rewrite T0. exact Ht. }
    specialize (R T0 Hn). rewrite Hr in R. destruct R as (_ & _ & _ & _ & _ & M). rewrite M. cbn [new_pos move]. lia.
Qed.
Print Assumptions threats_sound_game.
