(* C03, part 8: legal_set_exact under the EXACT invariant of C01 (Preserve1.pos_ok: stacks up to the 64 pieces a stack word can
   hold), instead of the stricter `invariant` of AllMovesFacts4.v (height + size <= 64 on every square).  Legality itself never
   depends on the 64 limit (Preserve6.move_exact: Position.Move succeeds iff the rules accept the move, for every pos_ok position;
   only the CONTENT of the successor needs the limit), so the filtered move list is exactly the legal move set on every position
   the representation can hold. *)
From Coq Require Import NArith ZArith Arith List Bool Lia ZifyN ZifyBool ZifyNat SetoidList.
Require Import Board Stack Rules Move GameOver Refine RefinePlace RefinePlace2 MoveRefines Preserve1 Preserve6.
Require Import AllMovesFacts AllMovesFacts2 AllMovesFacts3 AllMovesFacts4.

Lemma pos_ok_wf p : pos_ok p -> wf p.
Proof. intros [Hs Hb Hr _]. now apply board_ok_wf. Qed.

Lemma mv_ok_iff_rules_pos_ok p m : pos_ok p ->
  is_ok (mv p m) = is_some (rules_move (abs p) (raw m)).
Proof.
  intros Hp.
  destruct (N.eq_dec (mT m) 1) as [E|E].
  - rewrite pass_not_rules by exact E. destruct (mv p m) as [q| |] eqn:Hq; try reflexivity.
    apply mv_type in Hq. lia.
  - assert (R := move_exact p m Hp E). destruct (mv p m) as [q| |].
    + destruct R as (s & R & _). rewrite R. reflexivity.
    + rewrite R. reflexivity.
    + destruct R.
Qed.

Theorem legal_set_exact_pos_ok p : pos_ok p ->
  NoDupA meq (legal_list p) /\
  (forall g, In g (legal_list p) -> In g (all_moves p) /\ is_some (rules_move (abs p) (raw g)) = true) /\
  (forall m, count m (legal_list p) = if is_some (rules_move (abs p) (raw m)) then 1%nat else 0%nat).
Proof.
  intros Hinv. split; [apply NoDupA_filter, allmoves_nodup|]. split.
  - intros g Hg. apply filter_In in Hg as [Hg Hok]. split; [exact Hg|]. now rewrite <- mv_ok_iff_rules_pos_ok.
  - intros m. rewrite <- mv_ok_iff_rules_pos_ok by exact Hinv.
    destruct (mv p m) as [q| |] eqn:Hq; cbn [is_ok].
    + assert (Ht := mv_type p m q Hq).
      destruct (allmoves_complete p m q (pos_ok_wf p Hinv) ltac:(lia) Hq) as (g & Hg & E).
      apply (count_one m _ g); [apply NoDupA_filter, allmoves_nodup| |exact E].
      apply filter_In. split; [exact Hg|]. now rewrite (move_equal_same_result p g m E), Hq.
    + apply count_zero. intros g Hg. apply filter_In in Hg as [_ Hok].
      destruct (move_equal g m) eqn:E; [|reflexivity]. rewrite (move_equal_same_result p g m E), Hq in Hok. discriminate.
    + apply count_zero. intros g Hg. apply filter_In in Hg as [_ Hok].
      destruct (move_equal g m) eqn:E; [|reflexivity]. rewrite (move_equal_same_result p g m E), Hq in Hok. discriminate.
Qed.
Print Assumptions legal_set_exact_pos_ok.

Corollary legal_set_iff_pos_ok p m : pos_ok p ->
  (is_some (rules_move (abs p) (raw m)) = true <-> exists g, In g (legal_list p) /\ move_equal g m = true).
Proof.
  intros Hinv. destruct (legal_set_exact_pos_ok p Hinv) as (_ & _ & Hc). specialize (Hc m). split.
  - intros H. rewrite H in Hc. unfold count in Hc.
    destruct (filter (fun g => move_equal g m) (legal_list p)) as [|g l] eqn:F; [discriminate Hc|].
    assert (Hg : In g (filter (fun g => move_equal g m) (legal_list p))) by (rewrite F; now left).
    apply filter_In in Hg. now exists g.
  - intros (g & Hg & E). destruct (is_some _); [reflexivity|]. exfalso.
    assert (Hin : In g (filter (fun g => move_equal g m) (legal_list p))) by (apply filter_In; now split).
    unfold count in Hc. destruct (filter _ (legal_list p)); [destruct Hin|discriminate Hc].
Qed.

(* ... in particular for EVERY position of a real game: replayed from tak.New (any size 3..8, either tie-break flag, any piece set of
   at most 64 pieces - the standard sets of 3x3..6x6) through any sequence of accepted moves, the filtered AllMoves list is exactly
   the set of moves that are legal under the rules at the position the rules reach. *)
Require Import Reach1 Alloc.
Corollary legal_set_exact_game sz bwt stones caps ms p :
  (3 <= sz <= 8)%N -> (2 * (stones + caps) <= 64)%N -> no_pass ms ->
  replay (new_pos sz bwt stones caps) ms = Ok p ->
  play (rules_start (N.to_nat sz) stones caps bwt) (map raw ms) = Some (abs p) /\
  NoDupA meq (legal_list p) /\
  (forall m, count m (legal_list p) = if is_some (rules_move (abs p) (raw m)) then 1%nat else 0%nat).
Proof.
  intros Hs Ht Hn Hr. destruct (reachable_ok sz bwt stones caps ms p Hs Ht Hn Hr) as (Hp & _ & _ & Hplay).
  destruct (legal_set_exact_pos_ok p Hp) as (A & _ & C). auto.
Qed.
Print Assumptions legal_set_exact_game.
