(* Prove/DFPN.v: prove/dfpn.go.  Fuel: dfuel bounds the recursion depth of mid, lfuel the iterations of each mid loop;
   dfuel_out records that the depth fuel ran out (the result is then meaningless; the driver reports it). *)
From Coq Require Import NArith ZArith List Bool Lia.
Require Import Board Move GameOver Eval Search.
Import ListNotations.
Open Scope N_scope.

Definition INF : N := 2 ^ 30.
Record dentry := { d_phi : N; d_delta : N; d_hash : N; d_work : N; d_pv : rmove }.
Definition dentry0 := {| d_phi := 0; d_delta := 0; d_hash := 0; d_work := 0; d_pv := move0 |}.
Record dstats := { ds_rep : N; ds_term : N; ds_solved : N; ds_hits : N; ds_miss : N }.
Record dstate := { dtable : list dentry; dstack : list (position * rmove) (* newest LAST *); killers : list rmove; dst : dstats; dfuel_out : bool }.
Record dchild := { ch_move : rmove; ch_g : position; ch_data : dentry }.

Section D.
Variable basis : list N.
Variable attacker_white : bool.

Definition dmv := move_prealloc (hash_sq basis) true.
Definition exceeded (phi delta bphi bdelta : N) : bool := (bphi <=? phi) || (bdelta <=? delta).

Definition terminal_bounds (p : position) (result : gcolor) : N * N :=
  let res_white := match result with GWhite => true | GBlack => false | GNone => negb attacker_white end in
  if Bool.eqb res_white (to_move_white p) then (0, INF) else (INF, 0).

Definition solve (p : position) : option gcolor :=
  match analyze p with
  | Some (wg, bg) =>
    let '(wp, wtt, bp, btt) := count_threats (precompute (size p)) p wg bg in
    if (0 <? wp + wtt)%Z && to_move_white p then Some GWhite
    else if (0 <? bp + btt)%Z && negb (to_move_white p) then Some GBlack else None
  | None => None
  end.

Definition check_repetition (s : dstate) : bool :=
  match rev (dstack s) with
  | [] => false
  | (cur, _) :: _ =>
    let h := hash_of cur in
    (* indices len-1 down to 1: everything but the oldest frame *)
    let frames := match dstack s with [] => [] | _ :: r => rev r end in
    (fix go (l : list (position * rmove)) (count : nat) : bool :=
       match l with
       | [] => false
       | (g, _) :: r => let count := if hash_of g =? h then S count else count in
                        if Nat.eqb count 3 then true else go r count
       end) frames 0%nat
  end.

Definition lookup (s : dstate) (p : position) : option dentry :=
  match dtable s with [] => None | _ =>
    let e := nth (N.to_nat (hash_of p mod N.of_nat (length (dtable s)))) (dtable s) dentry0 in
    if d_hash e =? hash_of p then Some e else None end.
Definition store (s : dstate) (e : dentry) : dstate :=
  match dtable s with [] => s | _ =>
    let i := N.to_nat (d_hash e mod N.of_nat (length (dtable s))) in
    if d_work (nth i (dtable s) dentry0) <=? d_work e
    then {| dtable := set_nth (dtable s) i e; dstack := dstack s; killers := killers s; dst := dst s; dfuel_out := dfuel_out s |} else s end.

Definition compute_pns (cs : list dchild) : N * N :=
  fold_left (fun (acc : N * N) ch =>
      let d := snd acc + d_phi (ch_data ch) in
      (N.min (fst acc) (d_delta (ch_data ch)), if INF <? d then INF else d)) cs (INF, 0).

Definition select_child (cs : list dchild) (bphi bdelta pdelta : N) : Z * (N * N) :=
  let '(best, d1, d2) := fold_left (fun (acc : Z * N * N) (ic : nat * dchild) =>
        let '(best, d1, d2) := acc in
        let d := d_delta (ch_data (snd ic)) in
        if d <? d1 then (Z.of_nat (fst ic), d, d1) else if d <? d2 then (best, d1, d) else acc)
      (combine (seq 0 (length cs)) cs) ((-1)%Z, INF, INF) in
  let phi1 := match nth_error cs (Z.to_nat best) with Some c => d_phi (ch_data c) | None => 0 end in
  (best, ((bdelta + phi1 - pdelta) mod 2 ^ 32, N.min bphi (N.min (N.max (d2 + 1) (11 * d2 / 10)) INF))).

Definition bump_d (s : dstate) (f : dstats -> dstats) : dstate :=
  {| dtable := dtable s; dstack := dstack s; killers := killers s; dst := f (dst s); dfuel_out := dfuel_out s |}.

Definition set_child (cs : list dchild) (i : nat) (e : dentry) : list dchild :=
  (fix go (l : list dchild) (k : nat) : list dchild :=
     match l with [] => [] | c :: r => if Nat.eqb k i then {| ch_move := ch_move c; ch_g := ch_g c; ch_data := e |} :: r else c :: go r (S k) end) cs 0%nat.

Definition swap_first_last (cs : list dchild) : list dchild :=
  match cs with
  | [] => [] | [c] => [c]
  | c0 :: r => match rev r with l :: mid => l :: rev mid ++ [c0] | [] => cs end
  end.

Definition mk_entry (ph de h : N) : dentry := {| d_phi := ph; d_delta := de; d_hash := h; d_work := 0; d_pv := move0 |}.
Definition set_fuel_out (s : dstate) : dstate :=
  {| dtable := dtable s; dstack := dstack s; killers := killers s; dst := dst s; dfuel_out := true |}.
Definition set_bounds (cur : dentry) (ph de : N) : dentry :=
  {| d_phi := ph; d_delta := de; d_hash := d_hash cur; d_work := d_work cur; d_pv := d_pv cur |}.

(* the entry of a freshly generated child: finished / immediate threat of the mover / table / unknown *)
Definition child_entry_live (s : dstate) (p : position) : dstate * dentry :=
  match solve p with
  | Some result =>
    let '(ph, de) := terminal_bounds p result in
    (bump_d s (fun t => {| ds_rep := ds_rep t; ds_term := ds_term t; ds_solved := ds_solved t + 1; ds_hits := ds_hits t; ds_miss := ds_miss t |}),
     mk_entry ph de (hash_of p))
  | None =>
    match lookup s p with
    | Some b => (bump_d s (fun t => {| ds_rep := ds_rep t; ds_term := ds_term t; ds_solved := ds_solved t; ds_hits := ds_hits t + 1; ds_miss := ds_miss t |}), b)
    | None => (bump_d s (fun t => {| ds_rep := ds_rep t; ds_term := ds_term t; ds_solved := ds_solved t; ds_hits := ds_hits t; ds_miss := ds_miss t + 1 |}),
               mk_entry 1 (N.of_nat (length (all_moves p)) mod 2 ^ 32) (hash_of p))
    end
  end.

Definition child_entry (s : dstate) (p : position) : dstate * dentry :=
  match game_over p with
  | Some (true, result) =>
    let '(ph, de) := terminal_bounds p result in
    (bump_d s (fun t => {| ds_rep := ds_rep t; ds_term := ds_term t + 1; ds_solved := ds_solved t; ds_hits := ds_hits t; ds_miss := ds_miss t |}),
     mk_entry ph de (hash_of p))
  | _ => child_entry_live s p
  end.

(* the child loop of mid: appends, moves the killer to the front, stops after a child with delta = 0 *)
Fixpoint gen_children (g : position) (killer : option rmove) (ms : list rmove) (s : dstate) (acc : list dchild) : dstate * list dchild :=
  match ms with
  | [] => (s, acc)
  | m :: r =>
    match dmv g m with
    | Ok p =>
      let '(s, e) := child_entry s p in
      let acc := acc ++ [{| ch_move := m; ch_g := p; ch_data := e |}] in
      let acc := match killer with Some k => if rmove_eqb m k then swap_first_last acc else acc | None => acc end in
      if d_delta e =? 0 then (s, acc) else gen_children g killer r s acc
    | _ => gen_children g killer r s acc
    end
  end.

(* the main loop of mid; `rec` is mid one level down *)
Fixpoint mid_loop (rec : dstate -> position -> N -> N -> dentry -> dstate * dentry * N) (bphi bdelta : N)
         (k : nat) (s : dstate) (children : list dchild) (cur : dentry) (lw : N) : dstate * dentry * N :=
  let '(ph, de) := compute_pns children in
  let cur := set_bounds cur ph de in
  match k with
  | O => ((if exceeded ph de bphi bdelta then s else set_fuel_out s), cur, lw)
  | S k' =>
    if exceeded ph de bphi bdelta then (s, cur, lw) else
    let '(best, (cphi, cdelta)) := select_child children bphi bdelta de in
    let bi := Z.to_nat best in
    match nth_error children bi with
    | None => (s, cur, lw)      (* children[-1]: a Go panic; unreachable when not exceeded *)
    | Some ch =>
      let cur := {| d_phi := ph; d_delta := de; d_hash := d_hash cur; d_work := d_work cur; d_pv := ch_move ch |} in
      let s1 := {| dtable := dtable s; dstack := dstack s ++ [(ch_g ch, ch_move ch)]; killers := killers s; dst := dst s; dfuel_out := dfuel_out s |} in
      let '(s2, ne, w) := rec s1 (ch_g ch) cphi cdelta (ch_data ch) in
      let s3 := {| dtable := dtable s2; dstack := dstack s; killers := killers s2; dst := dst s2; dfuel_out := dfuel_out s2 |} in
      if dfuel_out s2 then (s3, cur, lw) else
      mid_loop rec bphi bdelta k' s3 (set_child children bi ne)
               {| d_phi := d_phi cur; d_delta := d_delta cur; d_hash := d_hash cur; d_work := d_work cur + w; d_pv := d_pv cur |} (lw + w)
    end
  end.

Fixpoint mid (lfuel : nat) (fuel : nat) (s : dstate) (g : position) (bphi bdelta : N) (cur : dentry) : dstate * dentry * N :=
  match fuel with O => (set_fuel_out s, cur, 0) | S f =>
  if exceeded (d_phi cur) (d_delta cur) bphi bdelta then (s, cur, 0) else
  if check_repetition s then
    let '(ph, de) := terminal_bounds g GNone in
    (bump_d s (fun t => {| ds_rep := ds_rep t + 1; ds_term := ds_term t; ds_solved := ds_solved t; ds_hits := ds_hits t; ds_miss := ds_miss t |}),
     set_bounds cur ph de, 0) else
  (* bounds that rest on a repetition cut below this node hold on the current line of play only: they are returned to the
     caller but not stored (rep0: the repetition counter when the node is entered) *)
  let rep0 := ds_rep (dst s) in
  let depth := length (dstack s) in
  let killer := match nth_error (killers s) depth with Some k => if (mT k =? 0) then None else Some k | None => None end in
  let '(s, children) := gen_children g killer (all_moves g) s [] in
  let '(s, cur, work) := mid_loop (mid lfuel f) bphi bdelta lfuel s children cur 1 in
  let s := if d_phi cur =? 0 then
             let ks := killers s ++ repeat move0 (S depth - length (killers s)) in
             {| dtable := dtable s; dstack := dstack s; killers := set_nth ks depth (d_pv cur); dst := dst s; dfuel_out := dfuel_out s |}
           else s in
  ((if ds_rep (dst s) =? rep0 then store s cur else s), cur, work)
  end.

(* the tail of Prove(): phi/delta at the root are relative to the side to move, the reported result to the attacker.
   1 proven, 2 disproven, 0 unknown *)
Definition result_of (g : position) (e : dentry) : N :=
  let mover_wins := d_phi e =? 0 in
  let mover_loses := d_delta e =? 0 in
  let '(w, l) := if Bool.eqb attacker_white (to_move_white g) then (mover_wins, mover_loses) else (mover_loses, mover_wins) in
  if w then 1 else if l then 2 else 0.

Definition dstats0 : dstats := {| ds_rep := 0; ds_term := 0; ds_solved := 0; ds_hits := 0; ds_miss := 0 |}.
Definition dstate0 (table_entries : nat) : dstate :=
  {| dtable := repeat dentry0 table_entries; dstack := []; killers := []; dst := dstats0; dfuel_out := false |}.

(* Prove() on a solver in state s0 (table and killers may come from earlier calls; stack and counters are reset by the
   caller): a root whose game is already over is decided by terminalBounds (mid only tests the children it generates) *)
Definition prove_from (lfuel dfuel : nat) (s0 : dstate) (g : position) : dstate * dentry * N :=
  let root := {| d_phi := 1; d_delta := 1; d_hash := hash_of g; d_work := 0; d_pv := move0 |} in
  match game_over g with
  | Some (true, who) =>
    let '(ph, de) := terminal_bounds g who in
    (s0, {| d_phi := ph; d_delta := de; d_hash := hash_of g; d_work := 0; d_pv := move0 |}, 0)
  | _ => mid lfuel dfuel s0 g (INF / 2) (INF / 2) root
  end.

(* a fresh solver *)
Definition prove (lfuel dfuel : nat) (table_entries : nat) (g : position) : dstate * dentry * N :=
  prove_from lfuel dfuel (dstate0 table_entries) g.
End D.

(* ---- one DFPNSolver used for several positions in a row (gencorpus does this) ----
   The table and the killer moves persist; per call the attacker is the configured one or, when none is configured,
   the side to move; when it differs from the attacker of the previous call, or the board size differs from that of the
   previous call, the table is cleared (stored bounds award draws to the opponent of the attacker they were computed
   for, and the hash does not cover the board size).  cfg_attacker / sv_attacker: 0 none, 1 White, 2 Black;
   sv_size: the size of the previous call's board (0: none yet). *)
Record dsolver := { sv_table : list dentry; sv_killers : list rmove; sv_attacker : N; sv_size : N }.
Definition dsolver0 (table_entries : nat) : dsolver :=
  {| sv_table := repeat dentry0 table_entries; sv_killers := []; sv_attacker := 0; sv_size := 0 |}.

Definition prove_on (basis : list N) (lfuel dfuel : nat) (cfg_attacker : N) (sv : dsolver) (g : position)
  : dsolver * (dstate * dentry * N * N) :=
  let aw := match cfg_attacker with 1 => true | 2 => false | _ => to_move_white g end in
  let att := if aw then 1 else 2 in
  let table := if (sv_attacker sv =? att) && (sv_size sv =? size g) then sv_table sv else map (fun _ => dentry0) (sv_table sv) in
  let s0 := {| dtable := table; dstack := []; killers := sv_killers sv; dst := dstats0; dfuel_out := false |} in
  let '(s, e, work) := prove_from basis aw lfuel dfuel s0 g in
  ({| sv_table := dtable s; sv_killers := killers s; sv_attacker := att; sv_size := size g |}, (s, e, work, result_of aw g e)).

Fixpoint prove_seq (basis : list N) (lfuel dfuel : nat) (cfg_attacker : N) (sv : dsolver) (gs : list position)
  : list (dstate * dentry * N * N) :=
  match gs with
  | [] => []
  | g :: r => let '(sv', out) := prove_on basis lfuel dfuel cfg_attacker sv g in out :: prove_seq basis lfuel dfuel cfg_attacker sv' r
  end.
