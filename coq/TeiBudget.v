(* Proto/Tei.v (fragment): tei/server.go calcBudget on wrapped int64 nanoseconds *)
From Coq Require Import ZArith Bool Lia ZifyBool.
Open Scope Z_scope. Open Scope bool_scope.

Definition wrap64 (z : Z) : Z := (z + 2 ^ 63) mod 2 ^ 64 - 2 ^ 63.
Definition ms : Z := 1000000.

(* the pinned code *)
Definition calc_budget (movetime gametime inc : Z) : Z :=
  let budget :=
    if gametime =? 0 then 0 else
    let b := wrap64 (Z.quot gametime 5 + inc) in
    if wrap64 (gametime - ms) <? b then wrap64 (gametime - ms) else b in
  if (0 <? movetime) && ((budget =? 0) || (movetime <? budget)) then movetime else budget.

(* the repaired code: "no clock" is a flag, not the value 0 *)
Definition calc_budget_fixed (movetime gametime inc : Z) : Z :=
  if gametime =? 0 then (if 0 <? movetime then movetime else 0) else
  let b := wrap64 (Z.quot gametime 5 + inc) in
  let budget := if wrap64 (gametime - ms) <? b then wrap64 (gametime - ms) else b in
  if (0 <? movetime) && (movetime <? budget) then movetime else budget.

(* C17's budget clause is false of the pinned code ... *)
Theorem budget_refuted_pinned : exists mt gt inc, 0 <= mt /\ 0 < gt /\ 0 <= inc /\ ~ (calc_budget mt gt inc < gt).
Proof. exists (5000 * ms), ms, 0. vm_compute. repeat split; intros; congruence. Qed.

(* ... and true of the repaired one, for all clock values representable in int64 *)
Theorem budget_bounds_fixed : forall mt gt inc, 0 <= mt < 2 ^ 63 -> 0 <= gt < 2 ^ 63 -> 0 <= inc < 2 ^ 63 ->
  (0 < gt -> calc_budget_fixed mt gt inc < gt) /\ (0 < mt -> calc_budget_fixed mt gt inc <= mt).
Proof.
  intros mt gt inc Hm Hg Hi. unfold calc_budget_fixed, wrap64, ms.
  destruct (Z.eqb_spec gt 0) as [->|Hne].
  - split; [lia|]. intros H. replace (0 <? mt) with true by lia. lia.
  - assert (Hq : 0 <= Z.quot gt 5 <= gt) by (split; [apply Z.quot_pos; lia|apply Z.quot_le_upper_bound; lia]).
    set (b := (Z.quot gt 5 + inc + 2 ^ 63) mod 2 ^ 64 - 2 ^ 63).
    set (g := (gt - 1000000 + 2 ^ 63) mod 2 ^ 64 - 2 ^ 63).
    assert (Eg : g = gt - 1000000) by (subst g; rewrite Z.mod_small; lia).
    set (budget := if g <? b then g else b).
    assert (Hb : budget <= gt - 1000000) by (subst budget; destruct (g <? b) eqn:E; lia).
    split; intros H.
    + destruct ((0 <? mt) && (mt <? budget)) eqn:E; lia.
    + destruct ((0 <? mt) && (mt <? budget)) eqn:E; [lia|].
      (* movetime given but not smaller than the clock budget: the budget stands, and it is <= movetime *)
      apply Bool.andb_false_iff in E as [E|E]; lia.
Qed.
Print Assumptions budget_bounds_fixed.
