(* C10: positions reachable by Move satisfy the hypotheses of the round-trip theorem.
   (1) the C01 invariant pos_ok implies the canonical representation rep_ok;
   (2) the rules conserve, per colour and per stones/capstones, reserve + pieces on the board, so every position
       reached from tak.New has reserves_match_board (`reserves_match_reachable` of DESIGN 5.10). *)
From Coq Require Import NArith ZArith Arith List Bool Lia ZifyN ZifyBool ZifyNat.
Require Import Board Stack Rules Move Refine RefinePlace RefinePlace2 RefinePlace3 Slide1 Slide2 Slide3 Slide4 Slide5 Slide6 Slide7 Slide8
  MoveRefines HashInv GameOver Preserve1 Preserve2 PreserveExt Preserve3 Preserve4 Preserve5 Preserve6 Reach1 HashMove1.
Require Import Alloc Generated.Consts.
Require Import PtnMove Playtak Tps TpsFacts TpsFacts2 TpsFacts3 TpsFacts4 TpsFacts5 TpsFacts6.
Import ListNotations.
Local Open Scope N_scope.

(* ---- (1) pos_ok -> rep_ok ---- *)
Lemma lt_pow2_of_bits x k : (forall j, k <= j -> N.testbit x j = false) -> x < 2 ^ k.
Proof.
  intros H. destruct (N.eq_dec x 0) as [->|NZ]; [apply N.neq_0_lt_0; apply N.pow_nonzero; lia|].
  apply N.log2_lt_pow2; [lia|]. destruct (N.lt_ge_cases (N.log2 x) k) as [L|L]; [exact L|].
  pose proof (N.bit_log2 x NZ) as B. rewrite (H _ L) in B. discriminate.
Qed.

Theorem pos_ok_rep_ok p : pos_ok p -> rep_ok gen_basis p.
Proof.
  intros Hp. pose proof (scratch_hash_ok p Hp) as Hh.
  destruct Hp as [Hsz [LH LS SQ] _ [_ _ STK (Mw & Mb & Ms & Mc) _]].
  cbn [bview bhs bst bw bb bs bc] in *. unfold nsq in *.
  constructor.
  - exact LH.
  - exact LS.
  - repeat split; apply lt_pow2_of_bits; assumption.
  - intros i Hi. destruct (SQ i Hi) as [S1 S2 S3 S4 S5]. specialize (STK i Hi). unfold stk_ok in STK.
    cbn [bview bhs bst bw bb bs bc] in *.
    assert (Hi64 : i < 64) by nia.
    rewrite !has_spec in * by exact Hi64.
    assert (Hst : nthN (Stacks p) i < 2 ^ (nthN (Height p) i - 1)) by (now apply lt_pow2_of_bits).
    assert (Hst64 : nthN (Stacks p) i < 2 ^ 64).
    { apply N.lt_le_trans with (2 ^ (nthN (Height p) i - 1)); [exact Hst|]. apply N.pow_le_mono_r; lia. }
    unfold sq_repb. cbv zeta.
    destruct (N.testbit (White p) i), (N.testbit (Black p) i), (N.testbit (Standing p) i), (N.testbit (Caps p) i),
      (N.eqb_spec (nthN (Height p) i) 0) as [E|E];
      cbn [orb andb negb Bool.eqb] in *; try discriminate;
      try (exfalso; apply E; apply S2; split; reflexivity);
      try (destruct (proj1 S2 E) as [? ?]; discriminate);
      try (destruct (S4 E) as [? ?]; discriminate);
      rewrite ?andb_true_iff; repeat split; lia.
  - symmetry. exact Hh.
Qed.

(* ---- (2) the rules conserve the pieces ---- *)
Section Conserve.
Variable f : piece -> bool.                  (* a class of pieces that does not tell a wall from a flat *)
Hypothesis f_wall : forall c, f (c, Rules.Standing) = f (c, Flat).

Fixpoint cnt (l : list piece) : N := match l with [] => 0 | x :: r => (if f x then 1 else 0) + cnt r end.
Fixpoint bcnt (board : list (list piece)) : N := match board with [] => 0 | s :: r => cnt s + bcnt r end.

Lemma cnt_app a b : cnt (a ++ b) = cnt a + cnt b.
Proof. induction a as [|x a IH]; cbn [app cnt]; [reflexivity|]. rewrite IH. lia. Qed.

Lemma cnt_firstn_skipn k l : cnt l = cnt (firstn k l) + cnt (skipn k l).
Proof. now rewrite <- cnt_app, firstn_skipn. Qed.

Lemma bcnt_upd : forall board i s, (i < length board)%nat ->
  bcnt (upd board i s) + cnt (nth i board []) = bcnt board + cnt s.
Proof.
  induction board as [|a board IH]; intros i s Hi; cbn [length] in Hi; [lia|].
  destruct i as [|i]; cbn [upd bcnt nth]; [lia|]. specialize (IH i s ltac:(lia)). lia.
Qed.

Lemma upd_len {A} : forall (l : list A) i v, length (upd l i v) = length l.
Proof. induction l as [|a l IH]; intros [|i] v; cbn; auto. Qed.

Lemma land_on_cnt carry c target s : land_on carry c target = Some s ->
  cnt s = cnt (skipn (length carry - N.to_nat c) carry) + cnt target.
Proof.
  unfold land_on. destruct target as [|[tc [| |]] below].
  - intros [= <-]. now rewrite cnt_app.
  - intros [= <-]. now rewrite cnt_app.
  - destruct carry as [|[cc [| |]] [|? ?]]; try discriminate. intros [= <-].
    rewrite cnt_app. cbn [cnt]. now rewrite f_wall.
  - discriminate.
Qed.

Lemma idx_lt (p : apos) x y : Rules.on_board p x y = true -> (Rules.idx p x y < n p * n p)%nat.
Proof. unfold Rules.on_board, Rules.idx. intros H. rewrite !andb_true_iff in H. nia. Qed.

Lemma deal_cnt (p : apos) : forall drops board d x y carry b,
  length board = (n p * n p)%nat -> deal p board d x y carry drops = Some b ->
  bcnt b = bcnt board + cnt carry /\ length b = length board.
Proof.
  induction drops as [|c rest IH]; intros board d x y carry b Hlen H.
  - cbn [deal] in H. destruct carry; [|discriminate]. injection H as <-. cbn [cnt]. split; [lia|reflexivity].
  - cbn [deal] in H. destruct (delta d) as [dx dy].
    destruct (Rules.on_board p (x + dx) (y + dy)) eqn:Eon; cbn [negb] in H; [|discriminate].
    destruct (land_on carry c (nth (Rules.idx p (x + dx) (y + dy)) board [])) as [s|] eqn:El; [|discriminate].
    apply IH in H; [|now rewrite upd_len]. destruct H as [H1 H2]. rewrite upd_len in H2. split; [|exact H2].
    pose proof (idx_lt _ _ _ Eon) as Hi. rewrite <- Hlen in Hi.
    pose proof (bcnt_upd board _ s Hi) as Hu. rewrite (land_on_cnt _ _ _ _ El) in Hu.
    pose proof (cnt_firstn_skipn (length carry - N.to_nat c) carry). lia.
Qed.
End Conserve.

(* the four reserves: white stones, white capstones, black stones, black capstones *)
Definition pc_of (x : piece) : pc :=
  P (match fst x with Rules.Black => true | Rules.White => false end) (match snd x with Flat => 1 | Rules.Standing => 2 | Cap => 3 end).
Definition a_ws (x : piece) : bool := is_ws (pc_of x).
Definition a_wc (x : piece) : bool := is_wc (pc_of x).
Definition a_bs (x : piece) : bool := is_bs (pc_of x).
Definition a_bc (x : piece) : bool := is_bc (pc_of x).

Definition cons4 (s : apos) : N * N * N * N :=
  (wstones s + bcnt a_ws (sq s), wcaps s + bcnt a_wc (sq s), bstones s + bcnt a_bs (sq s), bcaps s + bcnt a_bc (sq s)).

Lemma slide_cons4 s d x y drops s' : length (sq s) = (n s * n s)%nat -> slide s d x y drops = Some s' ->
  cons4 s' = cons4 s /\ n s' = n s /\ length (sq s') = length (sq s) /\ ply s' = (ply s + 1)%Z.
Proof.
  intros Hlen H. unfold slide in H.
  destruct (ply s <? 2)%Z; [discriminate|].
  destruct (Rules.on_board s x y) eqn:Eon; cbn [negb] in H; [|discriminate].
  destruct (existsb (N.eqb 0) drops); [discriminate|].
  destruct ((sumN drops =? 0) || (N.of_nat (n s) <? sumN drops) || (N.of_nat (length (stack_at s x y)) <? sumN drops)); [discriminate|].
  destruct (stack_at s x y) as [|[c k] rest] eqn:Est; [discriminate|].
  destruct (negb (colour_eqb c (to_move s))); [discriminate|].
  match type of H with match ?X with _ => _ end = _ => destruct X as [b|] eqn:Ed; [|discriminate] end.
  injection H as <-. cbn [n sq ply]. unfold cons4. cbn [wstones wcaps bstones bcaps sq].
  pose proof (idx_lt _ _ _ Eon) as Hi. rewrite <- Hlen in Hi.
  unfold set_stack in Ed. unfold stack_at in Est.
  assert (K : forall f, (forall c0, f (c0, Rules.Standing) = f (c0, Flat)) -> bcnt f b = bcnt f (sq s) /\ length b = length (sq s)).
  { intros f Hf. destruct (deal_cnt f Hf s _ _ _ _ _ _ _ ltac:(rewrite upd_len; exact Hlen) Ed) as [D1 D2].
    rewrite upd_len in D2. split; [|exact D2].
    match type of Est with _ = ?st =>
      pose proof (bcnt_upd f (sq s) _ (skipn (N.to_nat (Rules.sumN drops)) st) Hi) as Hu;
      pose proof (cnt_firstn_skipn f (N.to_nat (Rules.sumN drops)) st) as Hc end.
    rewrite Est in Hu. lia. }
  destruct (K a_ws ltac:(intros []; reflexivity)) as [-> L].
  destruct (K a_wc ltac:(intros []; reflexivity)) as [-> _].
  destruct (K a_bs ltac:(intros []; reflexivity)) as [-> _].
  destruct (K a_bc ltac:(intros []; reflexivity)) as [-> _]. auto.
Qed.

Lemma place_cons4 s k x y s' : length (sq s) = (n s * n s)%nat -> place s k x y = Some s' ->
  cons4 s' = cons4 s /\ n s' = n s /\ length (sq s') = length (sq s) /\ ply s' = (ply s + 1)%Z.
Proof.
  intros Hlen H. unfold place in H.
  destruct (Rules.on_board s x y) eqn:Eon; cbn [negb] in H; [|discriminate].
  destruct (stack_at s x y) as [|? ?] eqn:Est; [|discriminate].
  destruct ((ply s <? 2)%Z && match k with Flat => false | _ => true end); [discriminate|].
  pose proof (idx_lt _ _ _ Eon) as Hi. rewrite <- Hlen in Hi. unfold stack_at in Est. unfold set_stack in H.
  assert (K : forall f pc0, bcnt f (upd (sq s) (Rules.idx s x y) [pc0]) = bcnt f (sq s) + (if f pc0 then 1 else 0)).
  { intros f pc0. pose proof (bcnt_upd f (sq s) _ [pc0] Hi) as Hu. rewrite Est in Hu. cbn [cnt] in Hu. lia. }
  set (c := if (ply s <? 2)%Z then flip (to_move s) else to_move s) in *.
  destruct k, c;
    match type of H with
    | match (if ?r =? 0 then _ else _) with _ => _ end = _ => destruct (N.eqb_spec r 0) as [E|E]; [discriminate|]
    end;
    injection H as <-; cbn [n sq ply]; unfold cons4; cbn [wstones wcaps bstones bcaps sq]; rewrite !K, upd_len;
    cbn; (split; [|repeat split; reflexivity]); repeat (match goal with |- (_, _) = (_, _) => f_equal end); lia.
Qed.

Lemma rules_move_cons4 s m s' : length (sq s) = (n s * n s)%nat -> rules_move s m = Some s' ->
  cons4 s' = cons4 s /\ n s' = n s /\ length (sq s') = length (sq s) /\ ply s' = (ply s + 1)%Z.
Proof.
  intros Hlen H. unfold rules_move in H. destruct (decode m) as [[k x y|d x y drops]|]; [| |discriminate].
  - now apply (place_cons4 s k x y).
  - now apply (slide_cons4 s d x y drops).
Qed.

Lemma play_cons4 : forall ms s s', length (sq s) = (n s * n s)%nat -> play s ms = Some s' ->
  cons4 s' = cons4 s /\ n s' = n s /\ ply s' = (ply s + Z.of_nat (length ms))%Z.
Proof.
  induction ms as [|m ms IH]; intros s s' Hlen H.
  - unfold play in H. cbn in H. injection H as <-. repeat split; cbn [length]; lia.
  - rewrite play_cons in H. destruct (rules_move s m) as [s1|] eqn:E; [|discriminate].
    destruct (rules_move_cons4 s m s1 Hlen E) as (C & Nn & L & Pl).
    destruct (IH s1 s' ltac:(rewrite L, Nn; exact Hlen) H) as (C' & N' & P'). repeat split; try congruence.
    cbn [length]. lia.
Qed.

Lemma bcnt_repeat_nil f k : bcnt f (repeat [] k) = 0.
Proof. induction k; cbn; auto. Qed.

(* ---- from the abstraction back to At ---- *)
Lemma count_map_pc_of g l : count g (map pc_of l) = cnt (fun x => g (pc_of x)) l.
Proof. induction l as [|x l IH]; cbn [map count cnt]; [reflexivity|]. now rewrite IH. Qed.

Lemma count_app g a b : count g (a ++ b) = count g a + count g b.
Proof. induction a as [|x a IH]; cbn [app count]; [reflexivity|]. rewrite IH. lia. Qed.

Lemma at_sq_abs p i : i < 64 -> sq_repb p i = true -> at_sq p i = map pc_of (abs_stack p i).
Proof.
  intros Hi Hr. rewrite (at_sq_rep p i Hi Hr).
  destruct (rep_facts p i Hi Hr) as (Hocc & Hex & Hsc & Htop & _).
  unfold abs_stack. rewrite !has_spec by exact Hi.
  destruct (N.eqb_spec (nthN (Height p) i) 0) as [E|E].
  - destruct (proj1 Hocc E) as [-> ->]. reflexivity.
  - destruct (N.testbit (White p) i || N.testbit (Move.Black p) i) eqn:Eo.
    + cbn [map]. f_equal.
      * unfold pc_of. cbn [fst snd]. f_equal.
        -- destruct (N.testbit (White p) i), (N.testbit (Move.Black p) i); try reflexivity; discriminate.
        -- destruct (N.testbit (Standing p) i); [reflexivity|]. now destruct (N.testbit (Caps p) i).
      * rewrite map_map. apply map_ext. intros j. unfold pc_of. cbn [fst snd]. now destruct (N.testbit (nthN (Stacks p) i) (N.of_nat j)).
    + exfalso. apply E. apply Hocc. now apply orb_false_iff in Eo.
Qed.

Lemma on_board_abs g p : rep_ok gen_basis p -> (3 <= size p <= 8) ->
  TpsFacts5.on_board g p = bcnt (fun x => g (pc_of x)) (sq (abs p)).
Proof.
  intros R Hs. unfold TpsFacts5.on_board, cells_of, abs. cbn [sq]. cbv zeta.
  assert (H : forall i, In i (seq 0 (N.to_nat (size p) * N.to_nat (size p))) ->
              at_sq p (N.of_nat i) = map pc_of (abs_stack p (N.of_nat i))).
  { intros i Hi. apply in_seq in Hi. apply at_sq_abs; [nia|]. apply (ro_sq _ _ R). nia. }
  revert H. generalize (seq 0 (N.to_nat (size p) * N.to_nat (size p))). induction l as [|i l IH]; intros H; [reflexivity|].
  cbn [map concat bcnt]. rewrite count_app, IH by (intros; apply H; now right).
  rewrite (H i ltac:(now left)), count_map_pc_of. reflexivity.
Qed.

(* ---- reserves_match_reachable ---- *)
Definition dflt_ok (sz stones caps : N) : Prop :=
  stones = nth (N.to_nat sz) default_pieces 0 /\ caps = nth (N.to_nat sz) default_caps 0.

Theorem reserves_match_play sz bwt stones caps ms p : (3 <= sz <= 8) -> dflt_ok sz stones caps ->
  pos_ok p -> size p = sz ->
  play (rules_start (N.to_nat sz) stones caps bwt) ms = Some (abs p) ->
  reserves_match_board p.
Proof.
  intros Hsz [Ds Dc] Hp Es Hplay.
  assert (L0 : length (sq (rules_start (N.to_nat sz) stones caps bwt))
               = (n (rules_start (N.to_nat sz) stones caps bwt) * n (rules_start (N.to_nat sz) stones caps bwt))%nat)
    by (cbn [sq n rules_start]; apply repeat_length).
  destruct (play_cons4 ms _ _ L0 Hplay) as (C & _ & _).
  unfold cons4 in C. cbn [rules_start wstones wcaps bstones bcaps sq] in C. rewrite !bcnt_repeat_nil, !N.add_0_r in C.
  cbn [abs wstones wcaps bstones bcaps] in C.
  pose proof (pos_ok_rep_ok p Hp) as R.
  unfold reserves_match_board, dflt_pieces, dflt_caps. rewrite Es, <- Ds, <- Dc.
  rewrite !(on_board_abs _ p R) by (rewrite Es; exact Hsz).
  change (fun x => is_ws (pc_of x)) with a_ws. change (fun x => is_wc (pc_of x)) with a_wc.
  change (fun x => is_bs (pc_of x)) with a_bs. change (fun x => is_bc (pc_of x)) with a_bc.
  injection C as C1 C2 C3 C4. cbn [abs sq]. lia.
Qed.

(* Every position reached from tak.New with the default counts of its size, by replaying any raw move values (no
   Pass), provided no position on the way has a stack above 64 pieces (the representation limit of the uint64 stack
   word, C01), satisfies every hypothesis of tps_format_parse_equal; its ply is the number of moves made. *)
Theorem reachable_round_trip_hyps sz bwt ms p : (3 <= sz <= 8) -> no_pass ms ->
  let stones := nth (N.to_nat sz) default_pieces 0 in let caps := nth (N.to_nat sz) default_caps 0 in
  (forall ms1 ms2 q, ms = ms1 ++ ms2 -> replay (new_pos sz bwt stones caps) ms1 = Ok q -> heights64 q) ->
  replay (new_pos sz bwt stones caps) ms = Ok p ->
  (3 <= size p <= 8) /\ rep_ok gen_basis p /\ reserves_match_board p /\ Move.move p = Z.of_nat (length ms).
Proof.
  intros Hsz Hnp stones caps H64 Hr.
  assert (Hst : stones < 256) by (apply default_pieces_lt).
  assert (Hcp : caps < 256) by (apply default_caps_lt).
  destruct (new_ok sz bwt stones caps Hsz Hst Hcp) as (N1 & N2 & _).
  pose proof (replay_refines64 ms _ N1 Hnp H64) as R. rewrite Hr in R. destruct R as (R1 & R2 & _ & R4).
  rewrite N2 in R1. cbn [new_pos size] in R4.
  assert (L0 : length (sq (rules_start (N.to_nat sz) stones caps bwt))
               = (n (rules_start (N.to_nat sz) stones caps bwt) * n (rules_start (N.to_nat sz) stones caps bwt))%nat)
    by (cbn [sq n rules_start]; apply repeat_length).
  split; [rewrite R4; exact Hsz|]. split; [now apply pos_ok_rep_ok|]. split.
  - apply (reserves_match_play sz bwt stones caps (map raw ms) p); try assumption. split; reflexivity.
  - destruct (play_cons4 (map raw ms) _ _ L0 R1) as (_ & _ & L). cbn [rules_start ply abs] in L. rewrite map_length in L. lia.
Qed.

(* sizes 3..6: at most 62 pieces in the game, no height hypothesis is left *)
Corollary reachable_round_trip_hyps_small sz bwt ms p : (3 <= sz <= 6) -> no_pass ms ->
  let stones := nth (N.to_nat sz) default_pieces 0 in let caps := nth (N.to_nat sz) default_caps 0 in
  replay (new_pos sz bwt stones caps) ms = Ok p ->
  (3 <= size p <= 8) /\ rep_ok gen_basis p /\ reserves_match_board p /\ Move.move p = Z.of_nat (length ms).
Proof.
  intros Hsz Hnp stones caps Hr. apply (reachable_round_trip_hyps sz bwt ms p); try assumption; [lia|].
  intros ms1 ms2 q -> Hq.
  assert (Hc : 2 * (stones + caps) <= 64).
  { subst stones caps. assert (sz = 3 \/ sz = 4 \/ sz = 5 \/ sz = 6) as [->|[->|[->| ->]]] by lia; vm_compute; discriminate. }
  apply Forall_app in Hnp as [Hnp1 _].
  destruct (reachable_ok sz bwt stones caps ms1 q ltac:(lia) Hc Hnp1 Hq) as (A & T & _).
  apply total_heights64. lia.
Qed.

(* The round trip on reachable positions (first sentence of C10 with its own quantifier). *)
Theorem tps_round_trip_reachable sz bwt ms p : (3 <= sz <= 8) -> no_pass ms -> (Z.of_nat (length ms) < 2 ^ 63)%Z ->
  let stones := nth (N.to_nat sz) default_pieces 0 in let caps := nth (N.to_nat sz) default_caps 0 in
  (forall ms1 ms2 q, ms = ms1 ++ ms2 -> replay (new_pos sz bwt stones caps) ms1 = Ok q -> heights64 q) ->
  replay (new_pos sz bwt stones caps) ms = Ok p ->
  exists q, parse_tps gen_basis (format_tps p) = Ok q
    /\ equal p q = true /\ equal q p = true /\ hash_of q = hash_of p
    /\ whiteStones q = whiteStones p /\ whiteCaps q = whiteCaps p /\ blackStones q = blackStones p /\ blackCaps q = blackCaps p
    /\ to_move_white q = to_move_white p /\ Move.move q = Move.move p.
Proof.
  intros Hsz Hnp Hlen stones caps H64 Hr.
  destruct (reachable_round_trip_hyps sz bwt ms p Hsz Hnp H64 Hr) as (A & B & C & D).
  destruct (tps_format_parse_equal gen_basis p A ltac:(lia) B C) as (q & Q1 & Q2 & Q3 & Q4 & Q5 & Q6 & Q7).
  exists q. split; [exact Q1|]. split; [exact Q3|]. split; [exact Q4|]. split; [exact Q5|].
  split; [rewrite Q2; reflexivity|]. split; [rewrite Q2; reflexivity|]. split; [rewrite Q2; reflexivity|].
  split; [rewrite Q2; reflexivity|]. split; [exact Q6|exact Q7].
Qed.

(* Non-vacuity: the 14-ply 5x5 game of PreserveEx.v (a 5-high stack, a black wall, the white capstone). *)
Require Import PreserveEx.
Example ex_reachable_round_trip :
  format_tps p14 = [50;44;120;51;44;49;47;120;52;44;49;67;47;120;52;44;50;83;47;120;52;44;50;50;50;50;49;47;50;44;120;52;32;49;32;56]
  (* "2,x3,1/x4,1C/x4,2S/x4,22221/2,x4 1 8" *) /\
  exists q, parse_tps gen_basis (format_tps p14) = Ok q /\ equal p14 q = true /\ hash_of q = hash_of p14
    /\ whiteStones q = whiteStones p14 /\ blackStones q = blackStones p14 /\ Move.move q = 14%Z.
Proof.
  split; [vm_compute; reflexivity|].
  destruct (tps_round_trip_reachable 5 false ms14 p14 ltac:(lia) no_pass_ms14 ltac:(cbn; lia)) as (q & Q1 & Q2 & _ & Q4 & Q5 & _ & Q7 & _ & _ & Q10).
  - intros ms1 ms2 q Hsplit Hq. pose proof no_pass_ms14 as Hnp. rewrite Hsplit in Hnp. apply Forall_app in Hnp as [Hnp1 _].
    destruct (reachable_ok 5 false 21 1 ms1 q ltac:(lia) ltac:(lia) Hnp1 Hq) as (A & T & _).
    apply total_heights64. lia.
  - exact replay_ms14.
  - exists q. repeat split; try assumption.
Qed.
