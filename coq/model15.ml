
(** val negb : bool -> bool **)

let negb = function
| true -> false
| false -> true

type nat =
| O
| S of nat

type ('a, 'b) sum =
| Inl of 'a
| Inr of 'b

(** val fst : ('a1 * 'a2) -> 'a1 **)

let fst = function
| (x, _) -> x

(** val snd : ('a1 * 'a2) -> 'a2 **)

let snd = function
| (_, y) -> y

(** val length : 'a1 list -> nat **)

let rec length = function
| [] -> O
| _ :: l' -> S (length l')

(** val app : 'a1 list -> 'a1 list -> 'a1 list **)

let rec app l m =
  match l with
  | [] -> m
  | a :: l1 -> a :: (app l1 m)

type comparison =
| Eq
| Lt
| Gt

(** val compOpp : comparison -> comparison **)

let compOpp = function
| Eq -> Eq
| Lt -> Gt
| Gt -> Lt

module Coq__1 = struct
 (** val add : nat -> nat -> nat **)
 let rec add n0 m =
   match n0 with
   | O -> m
   | S p -> S (add p m)
end
include Coq__1

(** val mul : nat -> nat -> nat **)

let rec mul n0 m =
  match n0 with
  | O -> O
  | S p -> add m (mul p m)

(** val sub : nat -> nat -> nat **)

let rec sub n0 m =
  match n0 with
  | O -> n0
  | S k -> (match m with
            | O -> n0
            | S l -> sub k l)

type positive =
| XI of positive
| XO of positive
| XH

type n =
| N0
| Npos of positive

type z =
| Z0
| Zpos of positive
| Zneg of positive

(** val eqb : bool -> bool -> bool **)

let eqb b1 b2 =
  if b1 then b2 else if b2 then false else true

module Nat =
 struct
  (** val eqb : nat -> nat -> bool **)

  let rec eqb n0 m =
    match n0 with
    | O -> (match m with
            | O -> true
            | S _ -> false)
    | S n' -> (match m with
               | O -> false
               | S m' -> eqb n' m')
 end

module Pos =
 struct
  type mask =
  | IsNul
  | IsPos of positive
  | IsNeg
 end

module Coq_Pos =
 struct
  (** val succ : positive -> positive **)

  let rec succ = function
  | XI p -> XO (succ p)
  | XO p -> XI p
  | XH -> XO XH

  (** val add : positive -> positive -> positive **)

  let rec add x y =
    match x with
    | XI p ->
      (match y with
       | XI q -> XO (add_carry p q)
       | XO q -> XI (add p q)
       | XH -> XO (succ p))
    | XO p ->
      (match y with
       | XI q -> XI (add p q)
       | XO q -> XO (add p q)
       | XH -> XI p)
    | XH -> (match y with
             | XI q -> XO (succ q)
             | XO q -> XI q
             | XH -> XO XH)

  (** val add_carry : positive -> positive -> positive **)

  and add_carry x y =
    match x with
    | XI p ->
      (match y with
       | XI q -> XI (add_carry p q)
       | XO q -> XO (add_carry p q)
       | XH -> XI (succ p))
    | XO p ->
      (match y with
       | XI q -> XO (add_carry p q)
       | XO q -> XI (add p q)
       | XH -> XO (succ p))
    | XH ->
      (match y with
       | XI q -> XI (succ q)
       | XO q -> XO (succ q)
       | XH -> XI XH)

  (** val pred_double : positive -> positive **)

  let rec pred_double = function
  | XI p -> XI (XO p)
  | XO p -> XI (pred_double p)
  | XH -> XH

  (** val pred_N : positive -> n **)

  let pred_N = function
  | XI p -> Npos (XO p)
  | XO p -> Npos (pred_double p)
  | XH -> N0

  type mask = Pos.mask =
  | IsNul
  | IsPos of positive
  | IsNeg

  (** val succ_double_mask : mask -> mask **)

  let succ_double_mask = function
  | IsNul -> IsPos XH
  | IsPos p -> IsPos (XI p)
  | IsNeg -> IsNeg

  (** val double_mask : mask -> mask **)

  let double_mask = function
  | IsPos p -> IsPos (XO p)
  | x0 -> x0

  (** val double_pred_mask : positive -> mask **)

  let double_pred_mask = function
  | XI p -> IsPos (XO (XO p))
  | XO p -> IsPos (XO (pred_double p))
  | XH -> IsNul

  (** val sub_mask : positive -> positive -> mask **)

  let rec sub_mask x y =
    match x with
    | XI p ->
      (match y with
       | XI q -> double_mask (sub_mask p q)
       | XO q -> succ_double_mask (sub_mask p q)
       | XH -> IsPos (XO p))
    | XO p ->
      (match y with
       | XI q -> succ_double_mask (sub_mask_carry p q)
       | XO q -> double_mask (sub_mask p q)
       | XH -> IsPos (pred_double p))
    | XH -> (match y with
             | XH -> IsNul
             | _ -> IsNeg)

  (** val sub_mask_carry : positive -> positive -> mask **)

  and sub_mask_carry x y =
    match x with
    | XI p ->
      (match y with
       | XI q -> succ_double_mask (sub_mask_carry p q)
       | XO q -> double_mask (sub_mask p q)
       | XH -> IsPos (pred_double p))
    | XO p ->
      (match y with
       | XI q -> double_mask (sub_mask_carry p q)
       | XO q -> succ_double_mask (sub_mask_carry p q)
       | XH -> double_pred_mask p)
    | XH -> IsNeg

  (** val mul : positive -> positive -> positive **)

  let rec mul x y =
    match x with
    | XI p -> add y (XO (mul p y))
    | XO p -> XO (mul p y)
    | XH -> y

  (** val iter : ('a1 -> 'a1) -> 'a1 -> positive -> 'a1 **)

  let rec iter f x = function
  | XI n' -> f (iter f (iter f x n') n')
  | XO n' -> iter f (iter f x n') n'
  | XH -> f x

  (** val pow : positive -> positive -> positive **)

  let pow x =
    iter (mul x) XH

  (** val compare_cont : comparison -> positive -> positive -> comparison **)

  let rec compare_cont r x y =
    match x with
    | XI p ->
      (match y with
       | XI q -> compare_cont r p q
       | XO q -> compare_cont Gt p q
       | XH -> Gt)
    | XO p ->
      (match y with
       | XI q -> compare_cont Lt p q
       | XO q -> compare_cont r p q
       | XH -> Gt)
    | XH -> (match y with
             | XH -> r
             | _ -> Lt)

  (** val compare : positive -> positive -> comparison **)

  let compare =
    compare_cont Eq

  (** val eqb : positive -> positive -> bool **)

  let rec eqb p q =
    match p with
    | XI p0 -> (match q with
                | XI q0 -> eqb p0 q0
                | _ -> false)
    | XO p0 -> (match q with
                | XO q0 -> eqb p0 q0
                | _ -> false)
    | XH -> (match q with
             | XH -> true
             | _ -> false)

  (** val coq_Nsucc_double : n -> n **)

  let coq_Nsucc_double = function
  | N0 -> Npos XH
  | Npos p -> Npos (XI p)

  (** val coq_Ndouble : n -> n **)

  let coq_Ndouble = function
  | N0 -> N0
  | Npos p -> Npos (XO p)

  (** val coq_lor : positive -> positive -> positive **)

  let rec coq_lor p q =
    match p with
    | XI p0 ->
      (match q with
       | XI q0 -> XI (coq_lor p0 q0)
       | XO q0 -> XI (coq_lor p0 q0)
       | XH -> p)
    | XO p0 ->
      (match q with
       | XI q0 -> XI (coq_lor p0 q0)
       | XO q0 -> XO (coq_lor p0 q0)
       | XH -> XI p0)
    | XH -> (match q with
             | XO q0 -> XI q0
             | _ -> q)

  (** val coq_land : positive -> positive -> n **)

  let rec coq_land p q =
    match p with
    | XI p0 ->
      (match q with
       | XI q0 -> coq_Nsucc_double (coq_land p0 q0)
       | XO q0 -> coq_Ndouble (coq_land p0 q0)
       | XH -> Npos XH)
    | XO p0 ->
      (match q with
       | XI q0 -> coq_Ndouble (coq_land p0 q0)
       | XO q0 -> coq_Ndouble (coq_land p0 q0)
       | XH -> N0)
    | XH -> (match q with
             | XO _ -> N0
             | _ -> Npos XH)

  (** val ldiff : positive -> positive -> n **)

  let rec ldiff p q =
    match p with
    | XI p0 ->
      (match q with
       | XI q0 -> coq_Ndouble (ldiff p0 q0)
       | XO q0 -> coq_Nsucc_double (ldiff p0 q0)
       | XH -> Npos (XO p0))
    | XO p0 ->
      (match q with
       | XI q0 -> coq_Ndouble (ldiff p0 q0)
       | XO q0 -> coq_Ndouble (ldiff p0 q0)
       | XH -> Npos p)
    | XH -> (match q with
             | XO _ -> Npos XH
             | _ -> N0)

  (** val coq_lxor : positive -> positive -> n **)

  let rec coq_lxor p q =
    match p with
    | XI p0 ->
      (match q with
       | XI q0 -> coq_Ndouble (coq_lxor p0 q0)
       | XO q0 -> coq_Nsucc_double (coq_lxor p0 q0)
       | XH -> Npos (XO p0))
    | XO p0 ->
      (match q with
       | XI q0 -> coq_Nsucc_double (coq_lxor p0 q0)
       | XO q0 -> coq_Ndouble (coq_lxor p0 q0)
       | XH -> Npos (XI p0))
    | XH ->
      (match q with
       | XI q0 -> Npos (XO q0)
       | XO q0 -> Npos (XI q0)
       | XH -> N0)

  (** val shiftl : positive -> n -> positive **)

  let shiftl p = function
  | N0 -> p
  | Npos n1 -> iter (fun x -> XO x) p n1

  (** val iter_op : ('a1 -> 'a1 -> 'a1) -> positive -> 'a1 -> 'a1 **)

  let rec iter_op op p a =
    match p with
    | XI p0 -> op a (iter_op op p0 (op a a))
    | XO p0 -> iter_op op p0 (op a a)
    | XH -> a

  (** val to_nat : positive -> nat **)

  let to_nat x =
    iter_op Coq__1.add x (S O)

  (** val of_succ_nat : nat -> positive **)

  let rec of_succ_nat = function
  | O -> XH
  | S x -> succ (of_succ_nat x)
 end

module N =
 struct
  (** val succ_double : n -> n **)

  let succ_double = function
  | N0 -> Npos XH
  | Npos p -> Npos (XI p)

  (** val double : n -> n **)

  let double = function
  | N0 -> N0
  | Npos p -> Npos (XO p)

  (** val succ : n -> n **)

  let succ = function
  | N0 -> Npos XH
  | Npos p -> Npos (Coq_Pos.succ p)

  (** val pred : n -> n **)

  let pred = function
  | N0 -> N0
  | Npos p -> Coq_Pos.pred_N p

  (** val add : n -> n -> n **)

  let add n0 m =
    match n0 with
    | N0 -> m
    | Npos p -> (match m with
                 | N0 -> n0
                 | Npos q -> Npos (Coq_Pos.add p q))

  (** val sub : n -> n -> n **)

  let sub n0 m =
    match n0 with
    | N0 -> N0
    | Npos n' ->
      (match m with
       | N0 -> n0
       | Npos m' ->
         (match Coq_Pos.sub_mask n' m' with
          | Coq_Pos.IsPos p -> Npos p
          | _ -> N0))

  (** val mul : n -> n -> n **)

  let mul n0 m =
    match n0 with
    | N0 -> N0
    | Npos p -> (match m with
                 | N0 -> N0
                 | Npos q -> Npos (Coq_Pos.mul p q))

  (** val compare : n -> n -> comparison **)

  let compare n0 m =
    match n0 with
    | N0 -> (match m with
             | N0 -> Eq
             | Npos _ -> Lt)
    | Npos n' -> (match m with
                  | N0 -> Gt
                  | Npos m' -> Coq_Pos.compare n' m')

  (** val eqb : n -> n -> bool **)

  let eqb n0 m =
    match n0 with
    | N0 -> (match m with
             | N0 -> true
             | Npos _ -> false)
    | Npos p -> (match m with
                 | N0 -> false
                 | Npos q -> Coq_Pos.eqb p q)

  (** val leb : n -> n -> bool **)

  let leb x y =
    match compare x y with
    | Gt -> false
    | _ -> true

  (** val ltb : n -> n -> bool **)

  let ltb x y =
    match compare x y with
    | Lt -> true
    | _ -> false

  (** val div2 : n -> n **)

  let div2 = function
  | N0 -> N0
  | Npos p0 -> (match p0 with
                | XI p -> Npos p
                | XO p -> Npos p
                | XH -> N0)

  (** val pow : n -> n -> n **)

  let pow n0 = function
  | N0 -> Npos XH
  | Npos p0 -> (match n0 with
                | N0 -> N0
                | Npos q -> Npos (Coq_Pos.pow q p0))

  (** val pos_div_eucl : positive -> n -> n * n **)

  let rec pos_div_eucl a b =
    match a with
    | XI a' ->
      let (q, r) = pos_div_eucl a' b in
      let r' = succ_double r in
      if leb b r' then ((succ_double q), (sub r' b)) else ((double q), r')
    | XO a' ->
      let (q, r) = pos_div_eucl a' b in
      let r' = double r in
      if leb b r' then ((succ_double q), (sub r' b)) else ((double q), r')
    | XH ->
      (match b with
       | N0 -> (N0, (Npos XH))
       | Npos p -> (match p with
                    | XH -> ((Npos XH), N0)
                    | _ -> (N0, (Npos XH))))

  (** val div_eucl : n -> n -> n * n **)

  let div_eucl a b =
    match a with
    | N0 -> (N0, N0)
    | Npos na -> (match b with
                  | N0 -> (N0, a)
                  | Npos _ -> pos_div_eucl na b)

  (** val modulo : n -> n -> n **)

  let modulo a b =
    snd (div_eucl a b)

  (** val coq_lor : n -> n -> n **)

  let coq_lor n0 m =
    match n0 with
    | N0 -> m
    | Npos p -> (match m with
                 | N0 -> n0
                 | Npos q -> Npos (Coq_Pos.coq_lor p q))

  (** val coq_land : n -> n -> n **)

  let coq_land n0 m =
    match n0 with
    | N0 -> N0
    | Npos p -> (match m with
                 | N0 -> N0
                 | Npos q -> Coq_Pos.coq_land p q)

  (** val ldiff : n -> n -> n **)

  let ldiff n0 m =
    match n0 with
    | N0 -> N0
    | Npos p -> (match m with
                 | N0 -> n0
                 | Npos q -> Coq_Pos.ldiff p q)

  (** val coq_lxor : n -> n -> n **)

  let coq_lxor n0 m =
    match n0 with
    | N0 -> m
    | Npos p -> (match m with
                 | N0 -> n0
                 | Npos q -> Coq_Pos.coq_lxor p q)

  (** val shiftl : n -> n -> n **)

  let shiftl a n0 =
    match a with
    | N0 -> N0
    | Npos a0 -> Npos (Coq_Pos.shiftl a0 n0)

  (** val shiftr : n -> n -> n **)

  let shiftr a = function
  | N0 -> a
  | Npos p -> Coq_Pos.iter div2 a p

  (** val to_nat : n -> nat **)

  let to_nat = function
  | N0 -> O
  | Npos p -> Coq_Pos.to_nat p

  (** val of_nat : nat -> n **)

  let of_nat = function
  | O -> N0
  | S n' -> Npos (Coq_Pos.of_succ_nat n')

  (** val ones : n -> n **)

  let ones n0 =
    pred (shiftl (Npos XH) n0)
 end

module Z =
 struct
  (** val double : z -> z **)

  let double = function
  | Z0 -> Z0
  | Zpos p -> Zpos (XO p)
  | Zneg p -> Zneg (XO p)

  (** val succ_double : z -> z **)

  let succ_double = function
  | Z0 -> Zpos XH
  | Zpos p -> Zpos (XI p)
  | Zneg p -> Zneg (Coq_Pos.pred_double p)

  (** val pred_double : z -> z **)

  let pred_double = function
  | Z0 -> Zneg XH
  | Zpos p -> Zpos (Coq_Pos.pred_double p)
  | Zneg p -> Zneg (XI p)

  (** val pos_sub : positive -> positive -> z **)

  let rec pos_sub x y =
    match x with
    | XI p ->
      (match y with
       | XI q -> double (pos_sub p q)
       | XO q -> succ_double (pos_sub p q)
       | XH -> Zpos (XO p))
    | XO p ->
      (match y with
       | XI q -> pred_double (pos_sub p q)
       | XO q -> double (pos_sub p q)
       | XH -> Zpos (Coq_Pos.pred_double p))
    | XH ->
      (match y with
       | XI q -> Zneg (XO q)
       | XO q -> Zneg (Coq_Pos.pred_double q)
       | XH -> Z0)

  (** val add : z -> z -> z **)

  let add x y =
    match x with
    | Z0 -> y
    | Zpos x' ->
      (match y with
       | Z0 -> x
       | Zpos y' -> Zpos (Coq_Pos.add x' y')
       | Zneg y' -> pos_sub x' y')
    | Zneg x' ->
      (match y with
       | Z0 -> x
       | Zpos y' -> pos_sub y' x'
       | Zneg y' -> Zneg (Coq_Pos.add x' y'))

  (** val opp : z -> z **)

  let opp = function
  | Z0 -> Z0
  | Zpos x0 -> Zneg x0
  | Zneg x0 -> Zpos x0

  (** val sub : z -> z -> z **)

  let sub m n0 =
    add m (opp n0)

  (** val mul : z -> z -> z **)

  let mul x y =
    match x with
    | Z0 -> Z0
    | Zpos x' ->
      (match y with
       | Z0 -> Z0
       | Zpos y' -> Zpos (Coq_Pos.mul x' y')
       | Zneg y' -> Zneg (Coq_Pos.mul x' y'))
    | Zneg x' ->
      (match y with
       | Z0 -> Z0
       | Zpos y' -> Zneg (Coq_Pos.mul x' y')
       | Zneg y' -> Zpos (Coq_Pos.mul x' y'))

  (** val pow_pos : z -> positive -> z **)

  let pow_pos z0 =
    Coq_Pos.iter (mul z0) (Zpos XH)

  (** val pow : z -> z -> z **)

  let pow x = function
  | Z0 -> Zpos XH
  | Zpos p -> pow_pos x p
  | Zneg _ -> Z0

  (** val compare : z -> z -> comparison **)

  let compare x y =
    match x with
    | Z0 -> (match y with
             | Z0 -> Eq
             | Zpos _ -> Lt
             | Zneg _ -> Gt)
    | Zpos x' -> (match y with
                  | Zpos y' -> Coq_Pos.compare x' y'
                  | _ -> Gt)
    | Zneg x' ->
      (match y with
       | Zneg y' -> compOpp (Coq_Pos.compare x' y')
       | _ -> Lt)

  (** val leb : z -> z -> bool **)

  let leb x y =
    match compare x y with
    | Gt -> false
    | _ -> true

  (** val ltb : z -> z -> bool **)

  let ltb x y =
    match compare x y with
    | Lt -> true
    | _ -> false

  (** val to_N : z -> n **)

  let to_N = function
  | Zpos p -> Npos p
  | _ -> N0

  (** val of_N : n -> z **)

  let of_N = function
  | N0 -> Z0
  | Npos p -> Zpos p

  (** val pos_div_eucl : positive -> z -> z * z **)

  let rec pos_div_eucl a b =
    match a with
    | XI a' ->
      let (q, r) = pos_div_eucl a' b in
      let r' = add (mul (Zpos (XO XH)) r) (Zpos XH) in
      if ltb r' b
      then ((mul (Zpos (XO XH)) q), r')
      else ((add (mul (Zpos (XO XH)) q) (Zpos XH)), (sub r' b))
    | XO a' ->
      let (q, r) = pos_div_eucl a' b in
      let r' = mul (Zpos (XO XH)) r in
      if ltb r' b
      then ((mul (Zpos (XO XH)) q), r')
      else ((add (mul (Zpos (XO XH)) q) (Zpos XH)), (sub r' b))
    | XH -> if leb (Zpos (XO XH)) b then (Z0, (Zpos XH)) else ((Zpos XH), Z0)

  (** val div_eucl : z -> z -> z * z **)

  let div_eucl a b =
    match a with
    | Z0 -> (Z0, Z0)
    | Zpos a' ->
      (match b with
       | Z0 -> (Z0, a)
       | Zpos _ -> pos_div_eucl a' b
       | Zneg b' ->
         let (q, r) = pos_div_eucl a' (Zpos b') in
         (match r with
          | Z0 -> ((opp q), Z0)
          | _ -> ((opp (add q (Zpos XH))), (add b r))))
    | Zneg a' ->
      (match b with
       | Z0 -> (Z0, a)
       | Zpos _ ->
         let (q, r) = pos_div_eucl a' b in
         (match r with
          | Z0 -> ((opp q), Z0)
          | _ -> ((opp (add q (Zpos XH))), (sub b r)))
       | Zneg b' -> let (q, r) = pos_div_eucl a' (Zpos b') in (q, (opp r)))

  (** val modulo : z -> z -> z **)

  let modulo a b =
    let (_, r) = div_eucl a b in r

  (** val even : z -> bool **)

  let even = function
  | Z0 -> true
  | Zpos p -> (match p with
               | XO _ -> true
               | _ -> false)
  | Zneg p -> (match p with
               | XO _ -> true
               | _ -> false)
 end

(** val hd : 'a1 -> 'a1 list -> 'a1 **)

let hd default = function
| [] -> default
| x :: _ -> x

(** val nth : nat -> 'a1 list -> 'a1 -> 'a1 **)

let rec nth n0 l default =
  match n0 with
  | O -> (match l with
          | [] -> default
          | x :: _ -> x)
  | S m -> (match l with
            | [] -> default
            | _ :: t -> nth m t default)

(** val nth_error : 'a1 list -> nat -> 'a1 option **)

let rec nth_error l = function
| O -> (match l with
        | [] -> None
        | x :: _ -> Some x)
| S n1 -> (match l with
           | [] -> None
           | _ :: l0 -> nth_error l0 n1)

(** val flat_map : ('a1 -> 'a2 list) -> 'a1 list -> 'a2 list **)

let rec flat_map f = function
| [] -> []
| x :: t -> app (f x) (flat_map f t)

(** val fold_left : ('a1 -> 'a2 -> 'a1) -> 'a2 list -> 'a1 -> 'a1 **)

let rec fold_left f l a0 =
  match l with
  | [] -> a0
  | b :: t -> fold_left f t (f a0 b)

(** val fold_right : ('a2 -> 'a1 -> 'a1) -> 'a1 -> 'a2 list -> 'a1 **)

let rec fold_right f a0 = function
| [] -> a0
| b :: t -> f b (fold_right f a0 t)

(** val existsb : ('a1 -> bool) -> 'a1 list -> bool **)

let rec existsb f = function
| [] -> false
| a :: l0 -> (||) (f a) (existsb f l0)

(** val combine : 'a1 list -> 'a2 list -> ('a1 * 'a2) list **)

let rec combine l l' =
  match l with
  | [] -> []
  | x :: tl ->
    (match l' with
     | [] -> []
     | y :: tl' -> (x, y) :: (combine tl tl'))

(** val seq : nat -> nat -> nat list **)

let rec seq start = function
| O -> []
| S len0 -> start :: (seq (S start) len0)

(** val repeat : 'a1 -> nat -> 'a1 list **)

let rec repeat x = function
| O -> []
| S k -> x :: (repeat x k)

(** val m64 : n **)

let m64 =
  N.ones (Npos (XO (XO (XO (XO (XO (XO XH)))))))

(** val u64 : n -> n **)

let u64 x =
  N.coq_land x m64

type consts = { size : n; cL : n; cR : n; cT : n; cB : n; cEdge : n; cMask : n }

(** val precR : nat -> n -> n **)

let rec precR i size1 =
  match i with
  | O -> N0
  | S j ->
    N.coq_lor (precR j size1)
      (u64 (N.shiftl (Npos XH) (N.mul (N.of_nat j) size1)))

(** val precompute : n -> consts **)

let precompute size1 =
  let r = precR (N.to_nat size1) size1 in
  let l = u64 (N.shiftl r (N.sub size1 (Npos XH))) in
  let t =
    u64
      (N.shiftl (u64 (N.sub (u64 (N.shiftl (Npos XH) size1)) (Npos XH)))
        (N.mul size1 (N.sub size1 (Npos XH))))
  in
  let b = N.sub (u64 (N.shiftl (Npos XH) size1)) (Npos XH) in
  let mask0 =
    if N.leb (Npos (XO (XO (XO (XO (XO (XO XH))))))) (N.mul size1 size1)
    then m64
    else N.sub (N.shiftl (Npos XH) (N.mul size1 size1)) (Npos XH)
  in
  { size = size1; cL = l; cR = r; cT = t; cB = b; cEdge =
  (N.coq_lor (N.coq_lor l r) (N.coq_lor b t)); cMask = mask0 }

(** val grow : consts -> n -> n -> n **)

let grow c within seed =
  let next = N.coq_lor seed (N.ldiff (u64 (N.shiftl seed (Npos XH))) c.cR) in
  let next0 = N.coq_lor next (N.ldiff (N.shiftr seed (Npos XH)) c.cL) in
  let next1 = N.coq_lor next0 (N.shiftr seed c.size) in
  let next2 = N.coq_lor next1 (u64 (N.shiftl seed c.size)) in
  N.coq_land next2 within

(** val flood : nat -> consts -> n -> n -> n option **)

let rec flood fuel c within seed =
  match fuel with
  | O -> None
  | S f ->
    let next = grow c within seed in
    if N.eqb next seed then Some next else flood f c within next

type 'a res =
| Ok of 'a
| Err
| Panic

(** val bind : 'a1 res -> ('a1 -> 'a2 res) -> 'a2 res **)

let bind r f =
  match r with
  | Ok a -> f a
  | Err -> Err
  | Panic -> Panic

(** val wrap8 : z -> z **)

let wrap8 z0 =
  Z.sub
    (Z.modulo (Z.add z0 (Zpos (XO (XO (XO (XO (XO (XO (XO XH))))))))) (Zpos
      (XO (XO (XO (XO (XO (XO (XO (XO XH)))))))))) (Zpos (XO (XO (XO (XO (XO
    (XO (XO XH))))))))

(** val u8 : n -> n **)

let u8 x =
  N.modulo x (Npos (XO (XO (XO (XO (XO (XO (XO (XO XH)))))))))

(** val uint_of_int : z -> n **)

let uint_of_int z0 =
  Z.to_N
    (Z.modulo z0
      (Z.pow (Zpos (XO XH)) (Zpos (XO (XO (XO (XO (XO (XO XH)))))))))

(** val bit : n -> n **)

let bit i =
  if N.ltb i (Npos (XO (XO (XO (XO (XO (XO XH)))))))
  then N.shiftl (Npos XH) i
  else N0

(** val shl64 : n -> n -> n **)

let shl64 x k =
  if N.ltb k (Npos (XO (XO (XO (XO (XO (XO XH)))))))
  then u64 (N.shiftl x k)
  else N0

(** val shr64 : n -> n -> n **)

let shr64 =
  N.shiftr

(** val has : n -> n -> bool **)

let has b i =
  negb (N.eqb (N.coq_land b (bit i)) N0)

(** val setb : n -> n -> n **)

let setb b i =
  N.coq_lor b (bit i)

(** val clrb : n -> n -> n **)

let clrb b i =
  N.ldiff b (bit i)

(** val idx : 'a1 list -> n -> 'a1 res **)

let idx l i =
  if N.ltb i (N.of_nat (length l))
  then (match nth_error l (N.to_nat i) with
        | Some a -> Ok a
        | None -> Panic)
  else Panic

(** val nthN : n list -> n -> n **)

let nthN l i =
  nth (N.to_nat i) l N0

(** val updN : n list -> nat -> n -> n list **)

let rec updN l i v =
  match l with
  | [] -> []
  | h :: t -> (match i with
               | O -> v :: t
               | S j -> h :: (updN t j v))

type position = { size0 : n; black_wins_ties : bool; whiteStones : n;
                  whiteCaps : n; blackStones : n; blackCaps : n; move : 
                  z; white : n; black : n; standing : n; caps : n;
                  height : n list; stacks : n list; hash : n }

(** val to_move_white : position -> bool **)

let to_move_white p =
  Z.even p.move

(** val hash_at : (n -> n -> n -> n) -> n list -> n list -> n -> n **)

let hash_at hash_sq0 hs st i =
  if N.leb (nthN hs i) (Npos XH)
  then N0
  else hash_sq0 i (nthN hs i) (nthN st i)

type rmove = { mX : z; mY : z; mT : n; mS : n }

(** val nibbles : nat -> n -> n list **)

let rec nibbles fuel s =
  match fuel with
  | O -> []
  | S f ->
    if N.eqb s N0
    then []
    else (N.coq_land s (Npos (XI (XI (XI XH))))) :: (nibbles f
                                                      (N.shiftr s (Npos (XO
                                                        (XO XH)))))

type pkind =
| KNone
| KFlat
| KStanding
| KCap

(** val top_at : position -> z -> z -> bool option * pkind **)

let top_at p x y =
  let i = uint_of_int (Z.add x (Z.mul y (Z.of_N p.size0))) in
  let col =
    if has p.white i
    then Some false
    else if has p.black i then Some true else None
  in
  (match col with
   | Some c ->
     ((Some c),
       (if has p.standing i
        then KStanding
        else if has p.caps i then KCap else KFlat))
   | None -> (None, KNone))

(** val sq_index : position -> z -> z -> n **)

let sq_index p x y =
  uint_of_int (wrap8 (Z.add x (wrap8 (Z.mul y (wrap8 (Z.of_N p.size0))))))

type bstate = { bw : n; bb : n; bs : n; bc : n; bhs : n list; bst : n list;
                bh : n }

(** val in_board : position -> z -> z -> bool **)

let in_board p x y =
  let sz = wrap8 (Z.of_N p.size0) in
  negb
    ((||) ((||) ((||) (Z.ltb x Z0) (Z.leb sz x)) (Z.ltb y Z0)) (Z.leb sz y))

(** val drop_at :
    (n -> n -> n -> n) -> pkind -> n -> n -> n -> n -> bstate -> bstate res **)

let drop_at hash_sq0 topk stack ct cN i b =
  bind
    (if has b.bc i
     then Err
     else if has b.bs i
          then if (||) (negb (N.eqb ct (Npos XH)))
                    (negb (match topk with
                           | KCap -> true
                           | _ -> false))
               then Err
               else Ok (clrb b.bs i)
          else Ok b.bs) (fun s ->
    bind (idx b.bhs i) (fun hi ->
      bind (idx b.bst i) (fun sti ->
        let h = N.coq_lxor b.bh (hash_at hash_sq0 b.bhs b.bst i) in
        let sti0 =
          if has b.bw i
          then shl64 sti (Npos XH)
          else if has b.bb i
               then N.coq_lor (shl64 sti (Npos XH)) (Npos XH)
               else sti
        in
        let drop =
          N.coq_land (shr64 stack (N.sub ct (N.sub cN (Npos XH))))
            (u64
              (N.add (shl64 (Npos XH) (N.sub cN (Npos XH)))
                (N.sub
                  (N.pow (Npos (XO XH)) (Npos (XO (XO (XO (XO (XO (XO
                    XH)))))))) (Npos XH))))
        in
        let sti1 = N.coq_lor (shl64 sti0 (N.sub cN (Npos XH))) drop in
        let st = updN b.bst (N.to_nat i) sti1 in
        let hs = updN b.bhs (N.to_nat i) (u8 (N.add hi cN)) in
        let h0 = N.coq_lxor h (hash_at hash_sq0 hs st i) in
        let blk = negb (N.eqb (N.coq_land stack (bit (N.sub ct cN))) N0) in
        let bb' = if blk then setb b.bb i else clrb b.bb i in
        let bw' = if blk then clrb b.bw i else setb b.bw i in
        if N.eqb (N.sub ct cN) N0
        then (match topk with
              | KStanding ->
                let c = b.bc in
                let s0 = setb s i in
                Ok { bw = bw'; bb = bb'; bs = s0; bc = c; bhs = hs; bst = st;
                bh = h0 }
              | KCap ->
                let c = setb b.bc i in
                Ok { bw = bw'; bb = bb'; bs = s; bc = c; bhs = hs; bst = st;
                bh = h0 }
              | _ ->
                let c = b.bc in
                Ok { bw = bw'; bb = bb'; bs = s; bc = c; bhs = hs; bst = st;
                bh = h0 })
        else let c = b.bc in
             Ok { bw = bw'; bb = bb'; bs = s; bc = c; bhs = hs; bst = st;
             bh = h0 })))

(** val drops :
    (n -> n -> n -> n) -> position -> pkind -> n -> z -> z -> z -> z -> n ->
    n list -> bstate -> bstate res **)

let rec drops hash_sq0 p topk stack dx dy x y ct ds b =
  match ds with
  | [] -> Ok b
  | cN :: rest ->
    let x0 = wrap8 (Z.add x dx) in
    let y0 = wrap8 (Z.add y dy) in
    if negb (in_board p x0 y0)
    then Err
    else if (||) (N.ltb cN (Npos XH)) (N.ltb ct cN)
         then Err
         else let i = sq_index p x0 y0 in
              bind (drop_at hash_sq0 topk stack ct cN i b) (fun b' ->
                drops hash_sq0 p topk stack dx dy x0 y0 (N.sub ct cN) rest b')

(** val move_prealloc :
    (n -> n -> n -> n) -> bool -> position -> rmove -> position res **)

let move_prealloc hash_sq0 bounds_check p m =
  let next_move = Z.add p.move (Zpos XH) in
  let sz = Z.of_N p.size0 in
  if (&&)
       ((&&) bounds_check
         ((||) ((||) ((||) (Z.ltb m.mX Z0) (Z.leb sz m.mX)) (Z.ltb m.mY Z0))
           (Z.leb sz m.mY))) (negb (N.eqb m.mT (Npos XH)))
  then Err
  else let white_to_move = to_move_white p in
       bind
         (match m.mT with
          | N0 -> Err
          | Npos p0 ->
            (match p0 with
             | XI p1 ->
               (match p1 with
                | XI p2 ->
                  (match p2 with
                   | XH -> Ok (Inr (Z0, (Zpos XH)))
                   | _ -> Err)
                | XO p2 ->
                  (match p2 with
                   | XH -> Ok (Inr ((Zneg XH), Z0))
                   | _ -> Err)
                | XH -> Ok (Inl KStanding))
             | XO p1 ->
               (match p1 with
                | XI p2 ->
                  (match p2 with
                   | XH -> Ok (Inr ((Zpos XH), Z0))
                   | _ -> Err)
                | XO p2 ->
                  (match p2 with
                   | XI _ -> Err
                   | XO p3 ->
                     (match p3 with
                      | XH -> Ok (Inr (Z0, (Zneg XH)))
                      | _ -> Err)
                   | XH -> Ok (Inl KCap))
                | XH -> Ok (Inl KFlat))
             | XH -> Err)) (fun kd ->
         let opening = Z.ltb p.move (Zpos (XO XH)) in
         bind
           (if opening
            then (match kd with
                  | Inl p0 ->
                    (match p0 with
                     | KNone -> Err
                     | KFlat -> Ok ()
                     | _ -> Err)
                  | Inr _ -> Err)
            else Ok ()) (fun _ ->
           let i = sq_index p m.mX m.mY in
           (match kd with
            | Inl k ->
              let place_white =
                if opening then negb white_to_move else white_to_move
              in
              if has (N.coq_lor p.white p.black) i
              then Err
              else (match k with
                    | KNone ->
                      if place_white
                      then let stones = p.whiteStones in
                           let upd = fun q v -> (((v, q.whiteCaps),
                             q.blackStones), q.blackCaps)
                           in
                           if N.leb stones N0
                           then Err
                           else let (p0, bc0) =
                                  upd p
                                    (u8
                                      (N.add stones (Npos (XI (XI (XI (XI (XI
                                        (XI (XI XH))))))))))
                                in
                                let (p1, bs0) = p0 in
                                let (ws, wc) = p1 in
                                let c =
                                  match k with
                                  | KCap -> setb p.caps i
                                  | _ -> p.caps
                                in
                                let s =
                                  match k with
                                  | KStanding -> setb p.standing i
                                  | _ -> p.standing
                                in
                                let w =
                                  if place_white
                                  then setb p.white i
                                  else p.white
                                in
                                let b =
                                  if place_white
                                  then p.black
                                  else setb p.black i
                                in
                                bind (idx p.height i) (fun hi -> Ok { size0 =
                                  p.size0; black_wins_ties =
                                  p.black_wins_ties; whiteStones = ws;
                                  whiteCaps = wc; blackStones = bs0;
                                  blackCaps = bc0; move = next_move; white =
                                  w; black = b; standing = s; caps = c;
                                  height =
                                  (updN p.height (N.to_nat i)
                                    (u8 (N.add hi (Npos XH)))); stacks =
                                  p.stacks; hash = p.hash })
                      else let stones = p.blackStones in
                           let upd = fun q v -> (((q.whiteStones,
                             q.whiteCaps), v), q.blackCaps)
                           in
                           if N.leb stones N0
                           then Err
                           else let (p0, bc0) =
                                  upd p
                                    (u8
                                      (N.add stones (Npos (XI (XI (XI (XI (XI
                                        (XI (XI XH))))))))))
                                in
                                let (p1, bs0) = p0 in
                                let (ws, wc) = p1 in
                                let c =
                                  match k with
                                  | KCap -> setb p.caps i
                                  | _ -> p.caps
                                in
                                let s =
                                  match k with
                                  | KStanding -> setb p.standing i
                                  | _ -> p.standing
                                in
                                let w =
                                  if place_white
                                  then setb p.white i
                                  else p.white
                                in
                                let b =
                                  if place_white
                                  then p.black
                                  else setb p.black i
                                in
                                bind (idx p.height i) (fun hi -> Ok { size0 =
                                  p.size0; black_wins_ties =
                                  p.black_wins_ties; whiteStones = ws;
                                  whiteCaps = wc; blackStones = bs0;
                                  blackCaps = bc0; move = next_move; white =
                                  w; black = b; standing = s; caps = c;
                                  height =
                                  (updN p.height (N.to_nat i)
                                    (u8 (N.add hi (Npos XH)))); stacks =
                                  p.stacks; hash = p.hash })
                    | KCap ->
                      if white_to_move
                      then let stones = p.whiteCaps in
                           let upd = fun q v -> (((q.whiteStones, v),
                             q.blackStones), q.blackCaps)
                           in
                           if N.leb stones N0
                           then Err
                           else let (p0, bc0) =
                                  upd p
                                    (u8
                                      (N.add stones (Npos (XI (XI (XI (XI (XI
                                        (XI (XI XH))))))))))
                                in
                                let (p1, bs0) = p0 in
                                let (ws, wc) = p1 in
                                let c =
                                  match k with
                                  | KCap -> setb p.caps i
                                  | _ -> p.caps
                                in
                                let s =
                                  match k with
                                  | KStanding -> setb p.standing i
                                  | _ -> p.standing
                                in
                                let w =
                                  if place_white
                                  then setb p.white i
                                  else p.white
                                in
                                let b =
                                  if place_white
                                  then p.black
                                  else setb p.black i
                                in
                                bind (idx p.height i) (fun hi -> Ok { size0 =
                                  p.size0; black_wins_ties =
                                  p.black_wins_ties; whiteStones = ws;
                                  whiteCaps = wc; blackStones = bs0;
                                  blackCaps = bc0; move = next_move; white =
                                  w; black = b; standing = s; caps = c;
                                  height =
                                  (updN p.height (N.to_nat i)
                                    (u8 (N.add hi (Npos XH)))); stacks =
                                  p.stacks; hash = p.hash })
                      else let stones = p.blackCaps in
                           let upd = fun q v -> (((q.whiteStones,
                             q.whiteCaps), q.blackStones), v)
                           in
                           if N.leb stones N0
                           then Err
                           else let (p0, bc0) =
                                  upd p
                                    (u8
                                      (N.add stones (Npos (XI (XI (XI (XI (XI
                                        (XI (XI XH))))))))))
                                in
                                let (p1, bs0) = p0 in
                                let (ws, wc) = p1 in
                                let c =
                                  match k with
                                  | KCap -> setb p.caps i
                                  | _ -> p.caps
                                in
                                let s =
                                  match k with
                                  | KStanding -> setb p.standing i
                                  | _ -> p.standing
                                in
                                let w =
                                  if place_white
                                  then setb p.white i
                                  else p.white
                                in
                                let b =
                                  if place_white
                                  then p.black
                                  else setb p.black i
                                in
                                bind (idx p.height i) (fun hi -> Ok { size0 =
                                  p.size0; black_wins_ties =
                                  p.black_wins_ties; whiteStones = ws;
                                  whiteCaps = wc; blackStones = bs0;
                                  blackCaps = bc0; move = next_move; white =
                                  w; black = b; standing = s; caps = c;
                                  height =
                                  (updN p.height (N.to_nat i)
                                    (u8 (N.add hi (Npos XH)))); stacks =
                                  p.stacks; hash = p.hash })
                    | _ ->
                      if place_white
                      then let stones = p.whiteStones in
                           let upd = fun q v -> (((v, q.whiteCaps),
                             q.blackStones), q.blackCaps)
                           in
                           if N.leb stones N0
                           then Err
                           else let (p0, bc0) =
                                  upd p
                                    (u8
                                      (N.add stones (Npos (XI (XI (XI (XI (XI
                                        (XI (XI XH))))))))))
                                in
                                let (p1, bs0) = p0 in
                                let (ws, wc) = p1 in
                                let c =
                                  match k with
                                  | KCap -> setb p.caps i
                                  | _ -> p.caps
                                in
                                let s =
                                  match k with
                                  | KStanding -> setb p.standing i
                                  | _ -> p.standing
                                in
                                let w =
                                  if place_white
                                  then setb p.white i
                                  else p.white
                                in
                                let b =
                                  if place_white
                                  then p.black
                                  else setb p.black i
                                in
                                bind (idx p.height i) (fun hi -> Ok { size0 =
                                  p.size0; black_wins_ties =
                                  p.black_wins_ties; whiteStones = ws;
                                  whiteCaps = wc; blackStones = bs0;
                                  blackCaps = bc0; move = next_move; white =
                                  w; black = b; standing = s; caps = c;
                                  height =
                                  (updN p.height (N.to_nat i)
                                    (u8 (N.add hi (Npos XH)))); stacks =
                                  p.stacks; hash = p.hash })
                      else let stones = p.blackStones in
                           let upd = fun q v -> (((q.whiteStones,
                             q.whiteCaps), v), q.blackCaps)
                           in
                           if N.leb stones N0
                           then Err
                           else let (p0, bc0) =
                                  upd p
                                    (u8
                                      (N.add stones (Npos (XI (XI (XI (XI (XI
                                        (XI (XI XH))))))))))
                                in
                                let (p1, bs0) = p0 in
                                let (ws, wc) = p1 in
                                let c =
                                  match k with
                                  | KCap -> setb p.caps i
                                  | _ -> p.caps
                                in
                                let s =
                                  match k with
                                  | KStanding -> setb p.standing i
                                  | _ -> p.standing
                                in
                                let w =
                                  if place_white
                                  then setb p.white i
                                  else p.white
                                in
                                let b =
                                  if place_white
                                  then p.black
                                  else setb p.black i
                                in
                                bind (idx p.height i) (fun hi -> Ok { size0 =
                                  p.size0; black_wins_ties =
                                  p.black_wins_ties; whiteStones = ws;
                                  whiteCaps = wc; blackStones = bs0;
                                  blackCaps = bc0; move = next_move; white =
                                  w; black = b; standing = s; caps = c;
                                  height =
                                  (updN p.height (N.to_nat i)
                                    (u8 (N.add hi (Npos XH)))); stacks =
                                  p.stacks; hash = p.hash }))
            | Inr p0 ->
              let (dx, dy) = p0 in
              let ds = nibbles (S (S (S (S (S (S (S (S O)))))))) m.mS in
              if existsb (N.eqb N0) ds
              then Err
              else let ct = fold_right N.add N0 ds in
                   if (||) (N.ltb p.size0 ct) (N.ltb ct (Npos XH))
                   then Err
                   else bind (idx p.height i) (fun hi ->
                          if N.ltb hi ct
                          then Err
                          else if (&&) white_to_move (negb (has p.white i))
                               then Err
                               else if (&&) (negb white_to_move)
                                         (negb (has p.black i))
                                    then Err
                                    else let (tcol, tkind) =
                                           top_at p m.mX m.mY
                                         in
                                         bind (idx p.stacks i) (fun sti ->
                                           let stack =
                                             N.coq_lor (shl64 sti (Npos XH))
                                               (match tcol with
                                                | Some b ->
                                                  if b then Npos XH else N0
                                                | None -> N0)
                                           in
                                           let c = clrb p.caps i in
                                           let s = clrb p.standing i in
                                           if N.eqb hi ct
                                           then let w = clrb p.white i in
                                                let b = clrb p.black i in
                                                let h =
                                                  N.coq_lxor p.hash
                                                    (hash_at hash_sq0
                                                      p.height p.stacks i)
                                                in
                                                let st =
                                                  updN p.stacks (N.to_nat i)
                                                    (shr64 sti ct)
                                                in
                                                let hs =
                                                  updN p.height (N.to_nat i)
                                                    (u8
                                                      (N.sub
                                                        (N.add hi (Npos (XO
                                                          (XO (XO (XO (XO (XO
                                                          (XO (XO XH))))))))))
                                                        ct))
                                                in
                                                let h0 =
                                                  N.coq_lxor h
                                                    (hash_at hash_sq0 hs st i)
                                                in
                                                bind
                                                  (drops hash_sq0 p tkind
                                                    stack dx dy m.mX m.mY ct
                                                    ds { bw = w; bb = b; bs =
                                                    s; bc = c; bhs = hs;
                                                    bst = st; bh = h0 })
                                                  (fun r -> Ok { size0 =
                                                  p.size0; black_wins_ties =
                                                  p.black_wins_ties;
                                                  whiteStones =
                                                  p.whiteStones; whiteCaps =
                                                  p.whiteCaps; blackStones =
                                                  p.blackStones; blackCaps =
                                                  p.blackCaps; move =
                                                  next_move; white = r.bw;
                                                  black = r.bb; standing =
                                                  r.bs; caps = r.bc; height =
                                                  r.bhs; stacks = r.bst;
                                                  hash = r.bh })
                                           else if N.eqb
                                                     (N.coq_land stack
                                                       (bit ct)) N0
                                                then let w = setb p.white i in
                                                     let b = clrb p.black i in
                                                     let h =
                                                       N.coq_lxor p.hash
                                                         (hash_at hash_sq0
                                                           p.height p.stacks
                                                           i)
                                                     in
                                                     let st =
                                                       updN p.stacks
                                                         (N.to_nat i)
                                                         (shr64 sti ct)
                                                     in
                                                     let hs =
                                                       updN p.height
                                                         (N.to_nat i)
                                                         (u8
                                                           (N.sub
                                                             (N.add hi (Npos
                                                               (XO (XO (XO
                                                               (XO (XO (XO
                                                               (XO (XO
                                                               XH))))))))))
                                                             ct))
                                                     in
                                                     let h0 =
                                                       N.coq_lxor h
                                                         (hash_at hash_sq0 hs
                                                           st i)
                                                     in
                                                     bind
                                                       (drops hash_sq0 p
                                                         tkind stack dx dy
                                                         m.mX m.mY ct ds
                                                         { bw = w; bb = b;
                                                         bs = s; bc = c;
                                                         bhs = hs; bst = st;
                                                         bh = h0 }) (fun r ->
                                                       Ok { size0 = p.size0;
                                                       black_wins_ties =
                                                       p.black_wins_ties;
                                                       whiteStones =
                                                       p.whiteStones;
                                                       whiteCaps =
                                                       p.whiteCaps;
                                                       blackStones =
                                                       p.blackStones;
                                                       blackCaps =
                                                       p.blackCaps; move =
                                                       next_move; white =
                                                       r.bw; black = r.bb;
                                                       standing = r.bs;
                                                       caps = r.bc; height =
                                                       r.bhs; stacks = r.bst;
                                                       hash = r.bh })
                                                else let w = clrb p.white i in
                                                     let b = setb p.black i in
                                                     let h =
                                                       N.coq_lxor p.hash
                                                         (hash_at hash_sq0
                                                           p.height p.stacks
                                                           i)
                                                     in
                                                     let st =
                                                       updN p.stacks
                                                         (N.to_nat i)
                                                         (shr64 sti ct)
                                                     in
                                                     let hs =
                                                       updN p.height
                                                         (N.to_nat i)
                                                         (u8
                                                           (N.sub
                                                             (N.add hi (Npos
                                                               (XO (XO (XO
                                                               (XO (XO (XO
                                                               (XO (XO
                                                               XH))))))))))
                                                             ct))
                                                     in
                                                     let h0 =
                                                       N.coq_lxor h
                                                         (hash_at hash_sq0 hs
                                                           st i)
                                                     in
                                                     bind
                                                       (drops hash_sq0 p
                                                         tkind stack dx dy
                                                         m.mX m.mY ct ds
                                                         { bw = w; bb = b;
                                                         bs = s; bc = c;
                                                         bhs = hs; bst = st;
                                                         bh = h0 }) (fun r ->
                                                       Ok { size0 = p.size0;
                                                       black_wins_ties =
                                                       p.black_wins_ties;
                                                       whiteStones =
                                                       p.whiteStones;
                                                       whiteCaps =
                                                       p.whiteCaps;
                                                       blackStones =
                                                       p.blackStones;
                                                       blackCaps =
                                                       p.blackCaps; move =
                                                       next_move; white =
                                                       r.bw; black = r.bb;
                                                       standing = r.bs;
                                                       caps = r.bc; height =
                                                       r.bhs; stacks = r.bst;
                                                       hash = r.bh }))))))

(** val flood_groups : nat -> consts -> n -> n -> n list -> n list option **)

let rec flood_groups fuel c bits seen out0 =
  match fuel with
  | O -> None
  | S f ->
    if N.eqb bits N0
    then Some out0
    else let next = N.coq_land bits (N.sub bits (Npos XH)) in
         let b = N.ldiff bits next in
         if N.eqb (N.coq_land seen b) N0
         then (match flood (S (S (S (S (S (S (S (S (S (S (S (S (S (S (S (S (S
                       (S (S (S (S (S (S (S (S (S (S (S (S (S (S (S (S (S (S
                       (S (S (S (S (S (S (S (S (S (S (S (S (S (S (S (S (S (S
                       (S (S (S (S (S (S (S (S (S (S (S (S
                       O)))))))))))))))))))))))))))))))))))))))))))))))))))))))))))))))))
                       c bits b with
               | Some g ->
                 flood_groups f c next (N.coq_lor seen g)
                   (if N.eqb g b then out0 else app out0 (g :: []))
               | None -> None)
         else flood_groups f c next seen out0

(** val groups : consts -> n -> n list option **)

let groups c bits =
  flood_groups (S (S (S (S (S (S (S (S (S (S (S (S (S (S (S (S (S (S (S (S (S
    (S (S (S (S (S (S (S (S (S (S (S (S (S (S (S (S (S (S (S (S (S (S (S (S
    (S (S (S (S (S (S (S (S (S (S (S (S (S (S (S (S (S (S (S (S
    O))))))))))))))))))))))))))))))))))))))))))))))))))))))))))))))))) c bits
    N0 []

(** val popcount_pos : positive -> n **)

let rec popcount_pos = function
| XI q -> N.succ (popcount_pos q)
| XO q -> popcount_pos q
| XH -> Npos XH

(** val popcount : n -> n **)

let popcount = function
| N0 -> N0
| Npos p -> popcount_pos p

(** val spans : consts -> n -> bool **)

let spans c g =
  (||)
    ((&&) (negb (N.eqb (N.coq_land g c.cT) N0))
      (negb (N.eqb (N.coq_land g c.cB) N0)))
    ((&&) (negb (N.eqb (N.coq_land g c.cL) N0))
      (negb (N.eqb (N.coq_land g c.cR) N0)))

type gcolor =
| GWhite
| GBlack
| GNone

(** val has_road : position -> n list -> n list -> gcolor option **)

let has_road p wg bg =
  let c = precompute p.size0 in
  let w = existsb (spans c) wg in
  let b = existsb (spans c) bg in
  if (&&) w b
  then Some (if to_move_white p then GBlack else GWhite)
  else if w then Some GWhite else if b then Some GBlack else None

(** val count_flats : position -> n * n **)

let count_flats p =
  ((popcount (N.ldiff p.white (N.coq_lor p.standing p.caps))),
    (popcount (N.ldiff p.black (N.coq_lor p.standing p.caps))))

(** val flats_winner : position -> gcolor **)

let flats_winner p =
  let (cw, cb) = count_flats p in
  if N.ltb cb cw
  then GWhite
  else if N.ltb cw cb
       then GBlack
       else if p.black_wins_ties then GBlack else GNone

(** val analyze : position -> (n list * n list) option **)

let analyze p =
  let c = precompute p.size0 in
  (match groups c (N.ldiff p.white p.standing) with
   | Some w ->
     (match groups c (N.ldiff p.black p.standing) with
      | Some b -> Some (w, b)
      | None -> None)
   | None -> None)

(** val game_over : position -> (bool * gcolor) option **)

let game_over p =
  match analyze p with
  | Some p0 ->
    let (wg, bg) = p0 in
    (match has_road p wg bg with
     | Some c -> Some (true, c)
     | None ->
       if (&&)
            ((&&) (negb (N.eqb (u8 (N.add p.whiteStones p.whiteCaps)) N0))
              (negb (N.eqb (u8 (N.add p.blackStones p.blackCaps)) N0)))
            (negb
              (N.eqb (N.coq_lor p.white p.black) (precompute p.size0).cMask))
       then Some (false, GNone)
       else Some (true, (flats_winner p)))
  | None -> None

(** val fnvPrime : n **)

let fnvPrime =
  Npos (XI (XI (XO (XO (XI (XI (XO (XI (XI (XO (XO (XO (XO (XO (XO (XO (XO
    (XO (XO (XO (XO (XO (XO (XO (XO (XO (XO (XO (XO (XO (XO (XO (XO (XO (XO
    (XO (XO (XO (XO (XO XH))))))))))))))))))))))))))))))))))))))))

(** val fnvBasis : n **)

let fnvBasis =
  Npos (XI (XO (XI (XO (XO (XI (XO (XO (XI (XI (XO (XO (XO (XI (XO (XO (XO
    (XI (XO (XO (XO (XI (XO (XO (XO (XO (XI (XO (XO (XO (XO (XI (XO (XO (XI
    (XO (XO (XI (XI (XI (XO (XO (XI (XI (XI (XO (XO (XI (XO (XI (XO (XO (XI
    (XI (XI (XI (XI (XI (XO (XI (XO (XO (XI
    XH)))))))))))))))))))))))))))))))))))))))))))))))))))))))))))))))

(** val mul64 : n -> n -> n **)

let mul64 a b =
  N.modulo (N.mul a b)
    (N.pow (Npos (XO XH)) (Npos (XO (XO (XO (XO (XO (XO XH))))))))

(** val hash8 : n -> n -> n **)

let hash8 h b =
  mul64 (N.coq_lxor h b) fnvPrime

(** val hash64 : n -> n -> n **)

let hash64 basis w =
  let h =
    mul64
      (N.coq_lxor basis
        (N.coq_land w (Npos (XI (XI (XI (XI (XI (XI (XI XH)))))))))) fnvPrime
  in
  let h0 =
    mul64
      (N.coq_lxor h
        (N.coq_land (N.shiftr w (Npos (XO (XO (XO XH))))) (Npos (XI (XI (XI
          (XI (XI (XI (XI XH)))))))))) fnvPrime
  in
  let h1 =
    mul64
      (N.coq_lxor h0
        (N.coq_land (N.shiftr w (Npos (XO (XO (XO (XO XH)))))) (Npos (XI (XI
          (XI (XI (XI (XI (XI XH)))))))))) fnvPrime
  in
  mul64 (N.coq_lxor h1 (N.shiftr w (Npos (XO (XO (XO (XI XH))))))) fnvPrime

(** val hash_sq : n list -> n -> n -> n -> n **)

let hash_sq basis i h s =
  hash64 (hash8 (nthN basis i) h) s

(** val default_pieces : n list **)

let default_pieces =
  N0 :: (N0 :: (N0 :: ((Npos (XO (XI (XO XH)))) :: ((Npos (XI (XI (XI
    XH)))) :: ((Npos (XI (XO (XI (XO XH))))) :: ((Npos (XO (XI (XI (XI
    XH))))) :: ((Npos (XO (XO (XO (XI (XO XH)))))) :: ((Npos (XO (XI (XO (XO
    (XI XH)))))) :: []))))))))

(** val default_caps : n list **)

let default_caps =
  N0 :: (N0 :: (N0 :: (N0 :: (N0 :: ((Npos XH) :: ((Npos XH) :: ((Npos (XO
    XH)) :: ((Npos (XO XH)) :: []))))))))

type pc =
| P of bool * n

(** val from_squares : n list -> n -> pc list list list -> z -> position **)

let from_squares basis sz board mv =
  let n0 = N.to_nat sz in
  let cells = flat_map (fun row -> row) board in
  let step0 = fun acc ic ->
    let (p, h) = acc in
    let (p0, st) = p in
    let (p1, hs) = p0 in
    let (p2, bc0) = p1 in
    let (p3, bs0) = p2 in
    let (p4, wc) = p3 in
    let (p5, ws) = p4 in
    let (p6, c) = p5 in
    let (p7, s) = p6 in
    let (w, b) = p7 in
    let (i, sq) = ic in
    (match sq with
     | [] -> acc
     | p8 :: _ ->
       let P (tb, tk) = p8 in
       let bi = bit (N.of_nat i) in
       let w0 = if tb then w else N.coq_lor w bi in
       let b0 = if tb then N.coq_lor b bi else b in
       let c0 = if N.eqb tk (Npos (XI XH)) then N.coq_lor c bi else c in
       let s0 = if N.eqb tk (Npos (XO XH)) then N.coq_lor s bi else s in
       let (p9, bc1) =
         fold_left (fun r pp ->
           let (p9, bc1) = r in
           let (p10, bs1) = p9 in
           let (ws0, wc0) = p10 in
           let P (black0, k) = pp in
           if black0
           then (match k with
                 | N0 ->
                   (((ws0, wc0),
                     (u8
                       (N.add bs1 (Npos (XI (XI (XI (XI (XI (XI (XI
                         XH))))))))))), bc1)
                 | Npos p11 ->
                   (match p11 with
                    | XI p12 ->
                      (match p12 with
                       | XI _ ->
                         (((ws0, wc0),
                           (u8
                             (N.add bs1 (Npos (XI (XI (XI (XI (XI (XI (XI
                               XH))))))))))), bc1)
                       | XO _ ->
                         (((ws0, wc0),
                           (u8
                             (N.add bs1 (Npos (XI (XI (XI (XI (XI (XI (XI
                               XH))))))))))), bc1)
                       | XH ->
                         (((ws0, wc0), bs1),
                           (u8
                             (N.add bc1 (Npos (XI (XI (XI (XI (XI (XI (XI
                               XH))))))))))))
                    | XO _ ->
                      (((ws0, wc0),
                        (u8
                          (N.add bs1 (Npos (XI (XI (XI (XI (XI (XI (XI
                            XH))))))))))), bc1)
                    | XH ->
                      (((ws0, wc0),
                        (u8
                          (N.add bs1 (Npos (XI (XI (XI (XI (XI (XI (XI
                            XH))))))))))), bc1)))
           else (match k with
                 | N0 ->
                   ((((u8
                        (N.add ws0 (Npos (XI (XI (XI (XI (XI (XI (XI
                          XH)))))))))), wc0), bs1), bc1)
                 | Npos p11 ->
                   (match p11 with
                    | XI p12 ->
                      (match p12 with
                       | XI _ ->
                         ((((u8
                              (N.add ws0 (Npos (XI (XI (XI (XI (XI (XI (XI
                                XH)))))))))), wc0), bs1), bc1)
                       | XO _ ->
                         ((((u8
                              (N.add ws0 (Npos (XI (XI (XI (XI (XI (XI (XI
                                XH)))))))))), wc0), bs1), bc1)
                       | XH ->
                         (((ws0,
                           (u8
                             (N.add wc0 (Npos (XI (XI (XI (XI (XI (XI (XI
                               XH))))))))))), bs1), bc1))
                    | _ ->
                      ((((u8
                           (N.add ws0 (Npos (XI (XI (XI (XI (XI (XI (XI
                             XH)))))))))), wc0), bs1), bc1)))) sq (((ws, wc),
           bs0), bc0)
       in
       let (p10, bs1) = p9 in
       let (ws0, wc0) = p10 in
       let stk =
         fold_left (fun a pp ->
           let (v, j) = a in
           let P (black0, _) = pp in
           if black0
           then ((if Nat.eqb j O
                  then v
                  else N.coq_lor v (shl64 (Npos XH) (N.of_nat (sub j (S O))))),
                  (S j))
           else (v, (S j))) sq (N0, O)
       in
       let hs0 = updN hs i (u8 (N.of_nat (length sq))) in
       let st0 = updN st i (fst stk) in
       ((((((((((w0, b0), s0), c0), ws0), wc0), bs1), bc1), hs0), st0),
       (N.coq_lxor h (hash_at (hash_sq basis) hs0 st0 (N.of_nat i)))))
  in
  let dp = nth n0 default_pieces N0 in
  let dc = nth n0 default_caps N0 in
  let init0 = ((((((((((N0, N0), N0), N0), dp), dc), dp), dc),
    (repeat N0 (mul n0 n0))), (repeat N0 (mul n0 n0))), fnvBasis)
  in
  let (p, h) = fold_left step0 (combine (seq O (mul n0 n0)) cells) init0 in
  let (p0, st) = p in
  let (p1, hs) = p0 in
  let (p2, bc0) = p1 in
  let (p3, bs0) = p2 in
  let (p4, wc) = p3 in
  let (p5, ws) = p4 in
  let (p6, c) = p5 in
  let (p7, s) = p6 in
  let (w, b) = p7 in
  { size0 = sz; black_wins_ties = false; whiteStones = ws; whiteCaps = wc;
  blackStones = bs0; blackCaps = bc0; move = mv; white = w; black = b;
  standing = s; caps = c; height = hs; stacks = st; hash = h }

type 'move line =
| LMove of 'move
| LTime
| LReqUndo
| LUndo
| LOver
| LAbandoned
| LOther

type 'move event =
| Line of 'move line
| Answer of 'move
| Grace

type ('pos, 'move) sent = { s_pos : 'pos; s_for : 'pos; s_move : 'move }

type ('pos, 'move) state = { hist : 'pos list; moves : 'move list;
                             spawned_on : 'pos; enabled : bool;
                             answered : bool; armed : bool;
                             out : ('pos, 'move) sent list; undo_acks : 
                             nat; ended : bool; crashed : bool }

(** val cur : 'a1 -> ('a1, 'a2) state -> 'a1 **)

let cur start s =
  hd start s.hist

(** val restart :
    ('a1 -> bool) -> 'a1 -> ('a1, 'a2) state -> ('a1, 'a2) state **)

let restart bots_turn start s =
  { hist = s.hist; moves = s.moves; spawned_on = (cur start s); enabled =
    (bots_turn (cur start s)); answered = false; armed = false; out = s.out;
    undo_acks = s.undo_acks; ended = s.ended; crashed = s.crashed }

(** val init : ('a1 -> bool) -> 'a1 -> ('a1, 'a2) state **)

let init bots_turn start =
  restart bots_turn start { hist = (start :: []); moves = []; spawned_on =
    start; enabled = false; answered = false; armed = false; out = [];
    undo_acks = O; ended = false; crashed = false }

(** val step :
    ('a1 -> 'a2 -> 'a1 option) -> ('a1 -> bool) -> ('a1 -> bool) -> 'a1 ->
    bool -> bool -> ('a1, 'a2) state -> 'a2 event -> ('a1, 'a2) state **)

let step apply bots_turn over start fixed accept_undo s e =
  if (||) s.ended s.crashed
  then s
  else (match e with
        | Line l ->
          (match l with
           | LMove m ->
             (match apply (cur start s) m with
              | Some p' ->
                { hist = (p' :: s.hist); moves = (m :: s.moves); spawned_on =
                  s.spawned_on; enabled =
                  (if fixed then false else s.enabled); answered =
                  s.answered; armed = true; out = s.out; undo_acks =
                  s.undo_acks; ended = false; crashed = false }
              | None ->
                { hist = s.hist; moves = s.moves; spawned_on = s.spawned_on;
                  enabled = false; answered = s.answered; armed = s.armed;
                  out = s.out; undo_acks = s.undo_acks; ended = false;
                  crashed = true })
           | LTime -> if s.armed then restart bots_turn start s else s
           | LReqUndo ->
             if accept_undo
             then { hist = s.hist; moves = s.moves; spawned_on =
                    s.spawned_on; enabled = false; answered = s.answered;
                    armed = s.armed; out = s.out; undo_acks = (S
                    s.undo_acks); ended = false; crashed = false }
             else s
           | LUndo ->
             (match s.hist with
              | [] ->
                { hist = s.hist; moves = s.moves; spawned_on = s.spawned_on;
                  enabled = false; answered = s.answered; armed = s.armed;
                  out = s.out; undo_acks = s.undo_acks; ended = false;
                  crashed = true }
              | _ :: h' ->
                (match h' with
                 | [] ->
                   { hist = s.hist; moves = s.moves; spawned_on =
                     s.spawned_on; enabled = false; answered = s.answered;
                     armed = s.armed; out = s.out; undo_acks = s.undo_acks;
                     ended = false; crashed = true }
                 | _ :: _ ->
                   (match s.moves with
                    | [] ->
                      { hist = s.hist; moves = s.moves; spawned_on =
                        s.spawned_on; enabled = false; answered = s.answered;
                        armed = s.armed; out = s.out; undo_acks =
                        s.undo_acks; ended = false; crashed = true }
                    | _ :: m' ->
                      restart bots_turn start { hist = h'; moves = m';
                        spawned_on = s.spawned_on; enabled = s.enabled;
                        answered = s.answered; armed = s.armed; out = s.out;
                        undo_acks = s.undo_acks; ended = false; crashed =
                        false })))
           | LOther -> s
           | _ ->
             { hist = s.hist; moves = s.moves; spawned_on = s.spawned_on;
               enabled = s.enabled; answered = s.answered; armed = s.armed;
               out = s.out; undo_acks = s.undo_acks; ended = true; crashed =
               false })
        | Answer m ->
          if (||) s.answered (over s.spawned_on)
          then s
          else let s0 = { hist = s.hist; moves = s.moves; spawned_on =
                 s.spawned_on; enabled = s.enabled; answered = true; armed =
                 s.armed; out = s.out; undo_acks = s.undo_acks; ended =
                 false; crashed = false }
               in
               if negb s0.enabled
               then s0
               else (match apply (cur start s0) m with
                     | Some p' ->
                       restart bots_turn start { hist = (p' :: s0.hist);
                         moves = (m :: s0.moves); spawned_on = s0.spawned_on;
                         enabled = s0.enabled; answered = true; armed =
                         s0.armed; out = ({ s_pos = (cur start s0); s_for =
                         s0.spawned_on; s_move = m } :: s0.out); undo_acks =
                         s0.undo_acks; ended = false; crashed = false }
                     | None -> restart bots_turn start s0)
        | Grace -> if s.armed then restart bots_turn start s else s)

(** val bot_apply : position -> rmove -> position option **)

let bot_apply p m =
  match move_prealloc (hash_sq []) false p m with
  | Ok q -> Some q
  | _ -> None

(** val bot_over : position -> bool **)

let bot_over p =
  match game_over p with
  | Some p0 -> let (o, _) = p0 in o
  | None -> false

(** val bot_start : n -> position **)

let bot_start sz =
  from_squares [] sz (repeat (repeat [] (N.to_nat sz)) (N.to_nat sz)) Z0

(** val bot_init : n -> bool -> (position, rmove) state **)

let bot_init sz bot_white =
  init (fun p -> eqb (to_move_white p) bot_white) (bot_start sz)

(** val bot_step :
    n -> bool -> bool -> (position, rmove) state -> rmove event -> (position,
    rmove) state **)

let bot_step sz bot_white fixed s e =
  step bot_apply (fun p -> eqb (to_move_white p) bot_white) bot_over
    (bot_start sz) fixed true s e
