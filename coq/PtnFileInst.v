(* Instantiation of the PTN file model (PtnFile.v) with the hash basis regenerated from /repo: what the C12 driver runs. *)
From Coq Require Import NArith ZArith List Bool.
Require Import Board Move GameOver PtnMove Playtak Tps PtnFile.
Require Import Generated.Consts.
Import ListNotations.

Definition ptn_initial (g : ptn) : res position := initial_position gen_basis g.
Definition ptn_position_at (g : ptn) (n : Z) (c : option bool) : res position := position_at_move gen_basis g n c.
Definition ptn_spec_at (g : ptn) (n : Z) (c : option bool) : res position := spec_position_at gen_basis g n c.
Definition ptn_replay (g : ptn) (p0 : position) : res (nat * iter) := replay_all gen_basis g p0.
