(* The safe envelope of solver reuse.  DfpnFactsL proves `disproven` sound for a FRESH solver whose run meets no repetition.
   The same invariant gives: a call on a solver whose table holds only unconditional entries (table_okL: every stored bound is
   a fact about every position of Sp with that hash) and which meets no repetition (a) reports `disproven` only where the
   attacker has no forced win and (b) leaves a table of the same kind.  So a reused solver stays sound exactly as long as no
   call so far has met a repetition; the first call with Repetition > 0 may leave conditional entries (DfpnRep1.CL) behind, and
   the real solver then does answer wrongly (notes/prove3_cong_report.txt). *)
From Coq Require Import NArith ZArith List Bool Lia.
Require Import Board Move GameOver Eval Search AndOr Pn PnFacts Dfpn DfpnFacts DfpnFactsL.
Import ListNotations.
Open Scope N_scope.

Strategy 1000 [solve lookup game_over all_moves hash_of count_threats analyze check_repetition].

Section From.
Variable basis : list N.
Variable aw : bool.
Variable Sp : position -> Prop.
Notation term := (PnFacts.terminal aw).
Notation attp := (PnFacts.attp aw).
Notation succs := (PnFacts.succs basis).
Notation wnp := (wn position (PnFacts.succs basis) (PnFacts.terminal aw) (PnFacts.attp aw)).

Hypothesis S_step : forall p m q, Sp p -> term p = None -> In m (all_moves p) -> Dfpn.dmv basis p m = Ok q -> Sp q.
Hypothesis S_small : forall p, Sp p -> size p <= 8.
Hypothesis S_hash : forall p q, Sp p -> Sp q -> hash_of p = hash_of q ->
  (W basis aw p <-> W basis aw q) /\ to_move_white p = to_move_white q /\ term p = term q.
Hypothesis S_nonzero : forall p, Sp p -> hash_of p <> 0.
Hypothesis S_moves : forall p, Sp p -> term p = None -> all_moves p <> [].
Hypothesis threats_sound_def : forall p, Sp p -> term p = None -> solve p <> None -> attp p = false ->
  exists q, In q (succs p) /\ term q = Some false.

Notation table_okL := (table_okL basis aw Sp).
Notation entry_okL := (entry_okL basis aw).

Theorem dfpn_disproven_sound_norep_from lfuel dfuel s0 g s e w :
  Sp g -> table_okL s0 -> prove_from basis aw lfuel dfuel s0 g = (s, e, w) -> ds_rep (dst s) = ds_rep (dst s0) ->
  table_okL s /\ (result_of aw g e = 2 -> forall n, wnp n g = false).
Proof.
  intros Hg Ht0 E Hrep. unfold prove_from in E.
  assert (Hok : table_okL s /\ entry_okL g (d_phi e) (d_delta e)).
  { assert (Hlive : (forall who, game_over g <> Some (true, who)) ->
                    mid basis aw lfuel dfuel s0 g (INF / 2) (INF / 2)
                        {| d_phi := 1; d_delta := 1; d_hash := hash_of g; d_work := 0; d_pv := move0 |} = (s, e, w) ->
                    table_okL s /\ entry_okL g (d_phi e) (d_delta e)).
    { intros Hno E'.
      destruct (mid_okL basis aw Sp S_step S_small S_hash S_nonzero S_moves threats_sound_def lfuel dfuel _ _ _ _ _ _ _ _ E') as [_ H].
      assert (Htm : term g = None) by (apply term_live; exact Hno).
      destruct H as (A & _ & B); auto.
      - cbn [d_phi d_delta]. unfold DfpnFactsL.entry_okL, bounded, canon, claimL, solved. rewrite INF_val. unfold INFv.
        repeat split; try lia; try discriminate. intros Hf. now rewrite Htm in Hf.
      - rewrite INF_val. unfold INFv. cbn. lia.
      - rewrite INF_val. unfold INFv. cbn. lia. }
    destruct (game_over g) as [[[|] who]|] eqn:Eg.
    - destruct (terminal_bounds aw g who) as [ph de] eqn:Eb. injection E as <- <- _. split; [assumption|]. cbn [d_phi d_delta].
      eapply (over_entry_okL basis aw Sp S_step S_small S_hash S_nonzero S_moves threats_sound_def); eauto.
    - apply Hlive; [|exact E]. intros w'; congruence.
    - apply Hlive; [|exact E]. intros w'; congruence. }
  destruct Hok as [A B]. split; [exact A|]. intros Hr.
  eapply result_disproven; eassumption.
Qed.
End From.
Print Assumptions dfpn_disproven_sound_norep_from.
