(* C14, layer 3: roads, flat counts, fullness, reserves and hence the outcome are invariant under the eight symmetries;
   non-vacuity examples for this and for rules_equivariant. *)
From Coq Require Import NArith ZArith Arith List Bool Lia ZifyN ZifyBool ZifyNat Permutation Setoid Morphisms.
Require Import Rules Sym SymRules1 SymRules2.
Import ListNotations.
Close Scope Z_scope.

(* ---------- paths by index ---------- *)
Lemma chain_iff l d : chain l <-> forall i, S i < length l -> adjacent (nth i l d) (nth (S i) l d).
Proof.
  induction l as [|a t IH]; [split; [intros _ i H; cbn in H; lia|intros; exact I]|].
  destruct t as [|b t]; [split; [intros _ i H; cbn in H; lia|intros; exact I]|].
  change (chain (a :: b :: t)) with (adjacent a b /\ chain (b :: t)). rewrite IH. split.
  - intros [H1 H2] [|i] Hi; [exact H1|]. change (nth (S i) (a :: b :: t) d) with (nth i (b :: t) d).
    change (nth (S (S i)) (a :: b :: t) d) with (nth (S i) (b :: t) d). apply H2. cbn [length] in *. lia.
  - intros H; split; [apply (H 0); cbn [length]; lia|]. intros i Hi. apply (H (S i)). cbn [length] in *. lia.
Qed.

Lemma last_nth {A} (l : list A) d : last l d = nth (length l - 1) l d.
Proof.
  induction l as [|a t IH]; [reflexivity|]. destruct t as [|b t]; [reflexivity|].
  change (last (a :: b :: t) d) with (last (b :: t) d). rewrite IH. cbn [length].
  replace (S (S (length t)) - 1) with (S (S (length t) - 1)) by lia. reflexivity.
Qed.

Lemma hd_nth {A} (l : list A) d : hd d l = nth 0 l d.
Proof. destruct l; reflexivity. Qed.

Lemma adjacent_sym a b : adjacent a b -> adjacent b a.
Proof. unfold adjacent. lia. Qed.

Lemma chain_rev l : chain l -> chain (rev l).
Proof.
  rewrite !(chain_iff _ (0, 0)%Z). intros H i Hi. rewrite rev_length in Hi.
  rewrite !rev_nth by lia. apply adjacent_sym.
  replace (length l - S i) with (S (length l - S (S i))) by lia. apply H. lia.
Qed.

Lemma chain_map s k l : k < 8 -> chain l -> chain (map (symb s k) l).
Proof.
  intros Hk. rewrite (chain_iff l (0, 0)%Z), (chain_iff _ (symb s k (0, 0)%Z)). intros H i Hi. rewrite map_length in Hi.
  rewrite !map_nth. unfold adjacent, symb. apply sym_adjacent; [assumption|]. apply H. exact Hi.
Qed.

(* ---------- roads ---------- *)
Definition ends (s : nat) (a b : Z * Z) : Prop :=
  let m := (Z.of_nat s - 1)%Z in ((fst a = 0 /\ fst b = m) \/ (snd a = 0 /\ snd b = m))%Z.
Definition good (p : apos) (c : colour) (xy : Z * Z) : Prop :=
  on_board p (fst xy) (snd xy) = true /\ is_road_top c (stack_at p (fst xy) (snd xy)).

Lemma Road_unfold p c : Road p c <->
  exists path, path <> [] /\ chain path /\ Forall (good p c) path /\ ends (n p) (hd (0, 0)%Z path) (last path (0, 0)%Z).
Proof. reflexivity. Qed.

Lemma ends_sym s k a b : k < 8 -> ends s a b -> ends s (symb s k a) (symb s k b) \/ ends s (symb s k b) (symb s k a).
Proof.
  intros Hk. destruct a as [ax ay], b as [bx by_]. unfold ends, symb. cbn [fst snd].
  do 8 (destruct k as [|k]; [cbn; unfold f; lia|]). lia.
Qed.

(* if q shows at (sym j xy) what p shows at xy, a road of p gives a road of q *)
Lemma road_transfer p q j c : j < 8 -> n q = n p ->
  (forall x y, on_board p x y = true ->
     let xy := symb (n p) j (x, y) in stack_at q (fst xy) (snd xy) = stack_at p x y) ->
  Road p c -> Road q c.
Proof.
  intros Hj Hn Hst. rewrite !Road_unfold. intros (path & Hne & Hch & Hall & Hends).
  set (g := symb (n p) j).
  assert (Hall' : Forall (good q c) (map g path)).
  { apply Forall_forall. intros xy' Hin. apply in_map_iff in Hin. destruct Hin as ([x y] & <- & Hin).
    rewrite Forall_forall in Hall. destruct (Hall _ Hin) as [Hon Htop]. cbn [fst snd] in *. split.
    - unfold on_board. rewrite Hn. fold (on_board p (fst (g (x, y))) (snd (g (x, y)))). subst g. now rewrite (on_board_sym j p x y Hj).
    - subst g. rewrite (Hst x y Hon). exact Htop. }
  assert (Hlen : 0 < length path) by (destruct path; [contradiction|cbn; lia]).
  assert (Hhd : hd (0, 0)%Z (map g path) = g (hd (0, 0)%Z path)).
  { destruct path; [contradiction|reflexivity]. }
  assert (Hla : last (map g path) (0, 0)%Z = g (last path (0, 0)%Z)).
  { rewrite !last_nth, map_length. rewrite (nth_indep _ (0, 0)%Z (g (0, 0)%Z)) by (rewrite map_length; lia). apply map_nth. }
  destruct (ends_sym (n p) j _ _ Hj Hends) as [He|He].
  - exists (map g path). repeat split.
    + destruct path; [contradiction|discriminate].
    + now apply chain_map.
    + exact Hall'.
    + rewrite Hhd, Hla, Hn. exact He.
  - exists (rev (map g path)). repeat split.
    + intros E. apply (f_equal (@length _)) in E. rewrite rev_length, map_length in E. cbn in E. lia.
    + apply chain_rev. now apply chain_map.
    + apply Forall_rev. exact Hall'.
    + rewrite Hn.
      assert (E1 : hd (0, 0)%Z (rev (map g path)) = last (map g path) (0, 0)%Z).
      { rewrite hd_nth, last_nth, rev_nth by (rewrite map_length; lia). f_equal; lia. }
      assert (E2 : last (rev (map g path)) (0, 0)%Z = hd (0, 0)%Z (map g path)).
      { rewrite hd_nth, last_nth, rev_length, rev_nth by (rewrite map_length; lia). f_equal; rewrite ?map_length; lia. }
      rewrite E1, E2, Hhd, Hla. exact He.
Qed.

Theorem road_invariant k b c : k < 8 -> well_shaped b -> Road (img k b) c <-> Road b c.
Proof.
  intros Hk [Hs Hl]. split.
  - apply (road_transfer (img k b) b (inv k) c (inv_lt k Hk) eq_refl).
    intros x y Hon xy. subst xy. change (n (img k b)) with (n b).
    (* (x,y) = sym k (sym (inv k) (x,y)) *)
    rewrite on_board_img in Hon.
    assert (Hon' : on_board b (fst (symb (n b) (inv k) (x, y))) (snd (symb (n b) (inv k) (x, y))) = true).
    { rewrite (on_board_sym (inv k) b x y (inv_lt k Hk)). exact Hon. }
    rewrite <- (stack_at_img_sym k b _ _ Hk Hs Hon'). rewrite <- surjective_pairing, symb_inv_r by assumption. reflexivity.
  - apply (road_transfer b (img k b) k c Hk eq_refl). intros x y Hon. now apply stack_at_img_sym.
Qed.

(* ---------- counts ---------- *)
Theorem flat_count_invariant k b c : k < 8 -> well_shaped b -> flat_count (img k b) c = flat_count b c.
Proof. intros Hk [Hs Hl]. unfold flat_count. cbn [img sq]. apply perm_filter_length. now apply permL_perm. Qed.

Theorem board_full_invariant k b : k < 8 -> well_shaped b -> board_full (img k b) = board_full b.
Proof. intros Hk [Hs Hl]. unfold board_full. cbn [img sq]. apply perm_forallb. now apply permL_perm. Qed.

Theorem out_of_pieces_invariant k b : out_of_pieces (img k b) = out_of_pieces b.
Proof. reflexivity. Qed.

Theorem reserves_invariant k b :
  wstones (img k b) = wstones b /\ wcaps (img k b) = wcaps b /\ bstones (img k b) = bstones b /\ bcaps (img k b) = bcaps b /\
  ply (img k b) = ply b /\ to_move (img k b) = to_move b /\ n (img k b) = n b /\ black_wins_ties (img k b) = black_wins_ties b.
Proof. repeat split. Qed.

Lemma flats_outcome_invariant k b : k < 8 -> well_shaped b -> flats_outcome (img k b) = flats_outcome b.
Proof. intros Hk Hw. unfold flats_outcome. rewrite !flat_count_invariant by assumption. reflexivity. Qed.

Theorem outcome_invariant k b o : k < 8 -> well_shaped b -> Outcome (img k b) o <-> Outcome b o.
Proof.
  intros Hk Hw. unfold Outcome.
  rewrite !(road_invariant k b) by assumption.
  rewrite board_full_invariant, out_of_pieces_invariant, flats_outcome_invariant by assumption.
  change (to_move (img k b)) with (to_move b). reflexivity.
Qed.
Print Assumptions road_invariant.
Print Assumptions outcome_invariant.

(* ---------- non-vacuity ---------- *)
(* a 5x5 position after four plies: a two-high stack (white on black) on a1, a black flat on c3; white to move *)
Definition ex_b : apos :=
  Eval vm_compute in
  match play (start 5 21 1) [mv 2 0 0 0; mv 2 1 0 0; mv 5 1 0 1; mv 2 2 2 0]%Z%N with Some b => b | None => start 5 21 1 end.
(* white slides both pieces up from a1, dropping one on a2 and one on a3 *)
Definition ex_m : rawmove := mv 7 0 0 17.

Example ex_well_shaped : well_shaped ex_b.
Proof. split; cbn; lia. Qed.

(* k = 6 (rotCW: (x,y) -> (y, 4-x)): the slide up from a1 becomes a slide right from a5, both legal, and the results correspond;
   the image differs from the position itself, and the transformed move differs from the move *)
Example ex_equivariant :
  exists b', rules_move ex_b ex_m = Some b' /\
             rules_move (img 6 ex_b) (tm 6 5 ex_m) = Some (img 6 b') /\
             tm 6 5 ex_m = mv 6 0 4 17 /\ sq (img 6 ex_b) <> sq ex_b /\ stack_at b' 0 2 = [(White, Flat)].
Proof.
  eexists. split; [vm_compute; reflexivity|]. split; [vm_compute; reflexivity|]. split; [reflexivity|].
  split; [vm_compute; discriminate|reflexivity].
Qed.

(* an illegal move stays illegal: sliding from the empty square e5 *)
Example ex_equivariant_illegal :
  rules_move ex_b (mv 5 4 4 1) = None /\ rules_move (img 6 ex_b) (tm 6 5 (mv 5 4 4 1)) = None /\
  rules_move ex_b (mv 2 9 (-3) 0) = None /\ rules_move (img 6 ex_b) (tm 6 5 (mv 2 9 (-3) 0)) = None.
Proof. repeat split; vm_compute; reflexivity. Qed.

(* a 3x3 position with a white road along the first row, found again (along a column) in its image under k = 6 *)
Definition ex_r : apos :=
  Eval vm_compute in
  match play (start 3 10 0) [mv 2 0 2 0; mv 2 0 0 0; mv 2 1 0 0; mv 2 1 2 0; mv 2 2 0 0]%Z%N with Some b => b | None => start 3 10 0 end.

Example ex_road : well_shaped ex_r /\ Road ex_r White /\ ~ Road ex_r Black /\ Road (img 6 ex_r) White /\ Outcome (img 6 ex_r) (Win White true).
Proof.
  assert (Hw : well_shaped ex_r) by (split; cbn; lia).
  assert (HW : Road ex_r White).
  { exists [(0, 0); (1, 0); (2, 0)]%Z. split; [discriminate|]. split; [cbn; unfold adjacent; cbn; lia|].
    split; [repeat constructor|]. cbn. lia. }
  assert (HB : ~ Road ex_r Black).
  { intros (path & Hne & Hch & Hall & He). cbv zeta in He.
    (* a black road top exists only on (0,2) and (1,2); neither edge pair can be joined *)
    assert (Hin : forall xy, In xy path -> xy = (0, 2)%Z \/ xy = (1, 2)%Z).
    { intros [x y] Hin. rewrite Forall_forall in Hall. destruct (Hall _ Hin) as [Hon Htop]. cbn [fst snd] in *.
      unfold on_board in Hon. cbn [n ex_r] in Hon.
      assert (Hx : (x = 0 \/ x = 1 \/ x = 2)%Z) by lia. assert (Hy : (y = 0 \/ y = 1 \/ y = 2)%Z) by lia.
      destruct Hx as [->|[->| ->]], Hy as [->|[->| ->]]; cbn in Htop; try contradiction; try discriminate; auto. }
    assert (Hh : In (hd (0, 0)%Z path) path) by (destruct path; [contradiction|now left]).
    assert (Hl : In (last path (0, 0)%Z) path).
    { clear -Hne. induction path as [|a t IH]; [contradiction|]. destruct t; [now left|]. right. apply IH. discriminate. }
    apply Hin in Hh, Hl. cbn [n ex_r] in He.
    destruct Hh as [Eh|Eh], Hl as [El|El]; rewrite Eh, El in He; cbn in He; lia. }
  split; [exact Hw|]. split; [exact HW|]. split; [exact HB|].
  split; [apply road_invariant; [lia|exact Hw|exact HW]|]. apply outcome_invariant; [lia|exact Hw|].
  right. left. auto.
Qed.
